/-
  Sipsp.Proofs.SigCovered — (1) [C19] the `Covered` hypothesis of the factorisation / invariance theorems (the flag word
  of the header list covers the fingerprinted stored types, `FlagsCover`) holds for EVERY output of the parser, with
  ANY values object; (2) [C05] the shortcut values of the values object equal the `val` of the first stored header of
  their type.  Everything is about the model (`parseHeaders`, `parseSIPMsg`, `getMsgSigCore`); NO size bound in (1) and in
  (2a)-(2e) (no 65,535-byte hypothesis; only (2f) has it), no grammar assumption: all buffers, offsets, flags,
  capacities, verdicts.

  (1) EXPORT C19.
  * `SvCov` (every counted, stored header of a fingerprinted type has its flag set) is kept by every step of the list
    bookkeeping (`svc_setCur`, `svc_next`), by ParseHeaders from ANY list state and values object
    (`svc_parseHeaders`), by every ParseSIPMsg call (`svc_parseSIPMsg`), by chains of resumed calls (`svc_resumeRun`),
    and holds after Init / Reset and at every point of every history (`ScReach.svCov`).
  * `covered_any_values`: ParseHeaders says OK on a list object that satisfies `ScTail` and `SvCov` (every new / reset
    list of any capacity: `covered_any_values_new`, `covered_any_values_reset`; also a list returned by a suspended
    call) ⇒ `FlagsCover` of the result, for ANY values object (typed headers included).
  * `covered_parseSIPMsg`, `covered_init`, `covered_after_history`, `covered_resumeRun`, `covered_schedule_init`:
    `FlagsCover m'.hl.pflags m'.hl.hdrs.toList` (= `C19.Covered m'`) after every successful ParseSIPMsg — one call
    on an Init object, after any history of the object, after every chain of resumed calls / chunk schedule.
  * `SvParsed m` ("`m` was returned by a successful call after any history"; `svParsed_init`,
    `svParsed_schedule_init`, `svParsed_resumeRun`), `svc_factorisation` (C19 `factorisation` without `Covered`) and
    `svc_same_view_same_signature`: two successfully parsed requests with the same method, Call-ID bytes, From-tag
    bytes and restricted view (`svFirsts` = `C19.firsts`) have the same signature and panic flag — no side condition
    on the flag words, none on the fields lying inside the buffer (if they do not, both results are the same constant).
  (2) EXPORT C05.  `SvKind` = From, To, Call-ID, CSeq, Content-Length, Expires.
  * line level, from ANY state of the header object: `svl_parseBody`, `svl_hlCont` (what the dispatch to the value
    parsers does: `SvUpd`), `svs_hlStep`, `svl_parseHdrLine` (`SvLine` ⇒ `SvPost`: an accepted header of the kind's
    type either took the span reported by the kind's value parser as its `val` — and the shortcut object is parsed —
    or was scanned generically because a header of that type had been accepted before);
  * block level: `SvBlk` / `SvInv`, `svb_parseHeaders` (ParseHeaders with a values object from any suspended state);
  * message level: `SvMsg`, `svm_parseSIPMsg` (every call keeps it), `SvMsg_init`, `SvMsg_reset`, `ScReach.svMsg`;
  * `shortcut_eq_first_header`, `shortcut_values_eq` (spelled out for the six kinds), `shortcut_values_eq_init`,
    `shortcut_values_eq_schedule_init`: in the object returned by a successful ParseSIPMsg (any history, any chunk
    schedule, any capacities), if a header of the kind's type is stored then the shortcut object is parsed and the
    `val` of the FIRST stored header of that type EQUALS the shortcut's span (`pv.from.v`, `pv.to.v`,
    `pv.callid.callID`, `pv.cseq.v`, `pv.clen.sVal`, `pv.expires.sVal`): exact equality holds for every input —
    repeated headers of the type and trailing white space do not break it (later headers of the type are scanned
    generically and do not touch the shortcut; both spans exclude the trailing white space: tests at the end).
    `shortcut_parsed_of_flag`: the type flag set (also when the array was too small to store the header) ⇒ parsed.
  * (2f) Contact / P-Asserted-Identity (`lastHVal` bookkeeping; buffers within 65,535 bytes): `sv_lhv_step`,
    `svc_contactsLoop`, `svc_contact_line`, `svc_parseBody_contact`, `svc_contact_header` (and `svc_paisLoop`,
    `svc_pai_line`, `svc_parseBody_pai`, `svc_pai_header`): for ONE header line of the type, parsed on an idle value
    list object of any capacity with verdict OK, the header's `val` IS the running header value, it ends at or before
    the returned offset, and every value stored from that line lies inside it (`svInside`), empty `V`s excepted; the
    values stored before are not looked at.

  Assumptions inherited from `ScReach` / `ScMsg_init`: caller arrays handed to Init are cleared (`Array.replicate k {}`).
  NOT proved here: the converse "shortcut parsed ⇒ its type flag is set" (true from Init, not needed); for Contact /
  P-Asserted-Identity the message-level statement "every stored value lies inside the `val` of a stored header of
  that type" (only the per-line statement (2f) is proved; the association of the values with the stored headers
  through ParseHeaders, and that a reported `V` is never empty, are not).
-/
import Sipsp.Proofs.SigCompose
import Sipsp.Proofs.HdrSound
import Sipsp.Proofs.NaNest

namespace Sipsp

/-! ### (1a) the invariant: every counted, stored header of a fingerprinted type has its flag set -/

/-- the counted part of the header array is covered by the flag word -/
def SvCov (hl : HdrLst) : Prop :=
  ∀ j, j < hl.n → j < hl.hdrs.size → isSigType hl.hdrs[j]!.type = true →
    hl.pflags.testBit hl.hdrs[j]!.type = true

/-- the flag word after `pflags |= 1 << t'` (16 bits) -/
theorem svc_testBit_or (pf t' t : Nat) (ht : t < 16) :
    ((pf ||| (1 <<< t')) % 65536).testBit t = (pf.testBit t || (t' == t)) := by
  have e16 : (65536 : Nat) = 2 ^ 16 := by decide
  rw [e16, Nat.testBit_mod_two_pow, Nat.testBit_or, Nat.testBit_shiftLeft]
  simp only [ht, decide_true, Bool.true_and]
  have : (decide (t ≥ t') && Nat.testBit 1 (t - t')) = (t' == t) := by
    by_cases he : t' = t
    · subst he; simp
    · have hne : (t' == t) = false := by simpa using he
      rw [hne]
      by_cases hge : t ≥ t'
      · have h1 : t - t' ≠ 0 := by omega
        have h2 : Nat.testBit 1 (t - t') = false := by
          cases hq : Nat.testBit 1 (t - t') with
          | false => rfl
          | true => exact absurd (Nat.testBit_one_eq_true_iff_self_eq_zero.mp hq) h1
        simp [hge, h2]
      · simp [hge]
  rw [this]

theorem svc_setCur {hl : HdrLst} (H : SvCov hl) (g : Hdr) : SvCov (hl.setCur g) := by
  intro j h1 h2 hs
  rw [hlSetCur_n] at h1
  rw [hlSetCur_size] at h2
  rw [hlSetCur_ne hl g j (by omega)] at hs ⊢
  rw [(hlSetCur_scalars hl g).1]
  exact H j h1 h2 hs

theorem svc_next {hl : HdrLst} (H : SvCov hl) (g : Hdr) : SvCov ((hl.setCur g).accept g) := by
  intro j h1 h2 hs
  rw [accept_n, hlSetCur_n] at h1
  rw [accept_hdrs, hlSetCur_size] at h2
  rw [accept_hdrs] at hs ⊢
  have ht := isSigType_lt _ hs
  rw [accept_pflags, (hlSetCur_scalars hl g).1, svc_testBit_or _ _ _ (by omega)]
  rcases Nat.lt_or_ge j hl.n with hlt | hge
  · rw [hlSetCur_ne hl g j (by omega)] at hs ⊢
    rw [H j hlt h2 hs]; rfl
  · have hj : j = hl.n := by omega
    subst hj
    rw [hlSetCur_get_n hl g h2]
    simp

/-- **ParseHeaders keeps the invariant** — any buffer, offset, values object, verdict, and any state of the list
    object (new, reset, or suspended in the middle of a line) -/
theorem svc_parseHeaders (b : Buf) (offs : Nat) (hl : HdrLst) (hb : Option PHdrVals) (H : SvCov hl) :
    SvCov (parseHeaders b offs hl hb).2.2.1 := by
  induction hk : b.size - offs using Nat.strongRecOn generalizing offs hl hb with
  | _ k ih =>
    rw [parseHeaders.eq_1 b offs hl hb]
    by_cases hlt : offs < b.size
    · rw [if_pos hlt]
      rcases hp1 : parseHdrLine b offs hl.cur hb with ⟨n1, e1, g1, v1⟩
      cases e1 <;> simp only
      case ok =>
        by_cases hg : offs < n1
        · rw [if_pos hg]
          exact ih (b.size - n1) (by omega) n1 _ v1 (svc_next H g1) rfl
        · rw [if_neg hg]; exact svc_next H g1
      case empty => split <;> exact svc_setCur H g1
      all_goals exact svc_setCur H g1
    · rw [if_neg hlt]; exact H

/-- the invariant and "every slot from the header count on has type 0" give `FlagsCover` for the WHOLE array -/
theorem svc_cover_of_done {hl : HdrLst} (H : SvCov hl) (hD : ScDone hl) : FlagsCover hl.pflags hl.hdrs.toList := by
  intro h hh hsig
  obtain ⟨j, hj, hje⟩ := List.mem_iff_getElem.mp hh
  rw [Array.length_toList] at hj
  have hje' : hl.hdrs[j]! = h := by
    rw [← hje, Array.getElem_toList]
    exact getElem!_pos _ j hj
  rcases Nat.lt_or_ge j hl.n with hlt | hge
  · have := H j hlt hj (by rw [hje']; exact hsig)
    rw [hje'] at this; exact this
  · have := hD j hge hj
    rw [hje'] at this
    rw [this] at hsig; cases hsig

theorem svc_new (k : Nat) : SvCov (hsNew k) := fun _ h1 _ _ => absurd h1 (Nat.not_lt_zero _)

theorem svc_of_n0 {hl : HdrLst} (h0 : hl.n = 0) : SvCov hl := fun _ h1 _ _ => by rw [h0] at h1; cases h1

/-- **(1) `Covered` after ParseHeaders, ANY values object** (typed headers included; no size bound): the list object
    satisfies the two invariants (`ScTail`: the slots after the current one are untouched and the current one has no
    type while in its initial state; `SvCov`) — every new / reset list of any capacity does, and so does a list
    returned by a suspended call; if ParseHeaders says OK the flag word covers every fingerprinted stored type -/
theorem covered_any_values (b : Buf) (o : Nat) (hl : HdrLst) (hb : Option PHdrVals) (hT : ScTail hl) (hC : SvCov hl)
    {e : Nat} {hl' : HdrLst} {hb' : Option PHdrVals} (hr : parseHeaders b o hl hb = (e, .ok, hl', hb')) :
    FlagsCover hl'.pflags hl'.hdrs.toList := by
  have h1 := (sc_parseHeaders b o hl hb hT).1
  have h2 := svc_parseHeaders b o hl hb hC
  rw [hr] at h1 h2
  exact svc_cover_of_done h2 (h1 rfl)

/-- … for a new list object of any capacity `k` -/
theorem covered_any_values_new (b : Buf) (o k : Nat) (hb : Option PHdrVals)
    {e : Nat} {hl' : HdrLst} {hb' : Option PHdrVals} (hr : parseHeaders b o (hsNew k) hb = (e, .ok, hl', hb')) :
    FlagsCover hl'.pflags hl'.hdrs.toList :=
  covered_any_values b o (hsNew k) hb (ScTail_new k) (svc_new k) hr

/-- … for ANY list object after Reset -/
theorem covered_any_values_reset (b : Buf) (o : Nat) (hl : HdrLst) (hb : Option PHdrVals)
    {e : Nat} {hl' : HdrLst} {hb' : Option PHdrVals} (hr : parseHeaders b o hl.reset hb = (e, .ok, hl', hb')) :
    FlagsCover hl'.pflags hl'.hdrs.toList := by
  have hre : hl.reset = hsNew hl.hdrs.size := by
    show ({ hdrs := hl.hdrs.map (fun _ => {}) } : HdrLst) = { hdrs := Array.replicate hl.hdrs.size {} }
    rw [sc_map_const]
  rw [hre] at hr
  exact covered_any_values_new b o _ hb hr

/-- test / non-vacuity: `covered_any_values_new` applies to a block with typed lines parsed with a values object
    (capacity 2 for three headers: compact From, CSeq, `Q`) -/
example : FlagsCover (parseHeaders hsDemoTyped 0 (hsNew 2) (some {})).2.2.1.pflags
    (parseHeaders hsDemoTyped 0 (hsNew 2) (some {})).2.2.1.hdrs.toList := by
  have h2 : (parseHeaders hsDemoTyped 0 (hsNew 2) (some {})).2.1 = .ok := by decide +kernel
  rcases h : parseHeaders hsDemoTyped 0 (hsNew 2) (some {}) with ⟨e, er, hl', hb'⟩
  rw [h] at h2
  simp only at h2
  subst h2
  exact covered_any_values_new hsDemoTyped 0 2 (some {}) h

/-! ### (1b) the message object -/

/-- **every ParseSIPMsg call keeps the invariant** (any object, buffer, offset, flags, verdict) -/
theorem svc_parseSIPMsg (b : Buf) (o : Nat) (m : PSIPMsg) (flags : Nat) (H : SvCov m.hl) :
    SvCov (parseSIPMsg b o m flags).2.2.hl := by
  have hH : ∀ (o : Nat) (m : PSIPMsg), SvCov m.hl → SvCov (msgHeaders b o m flags).2.2.hl := by
    intro o m H
    unfold msgHeaders
    have hs := svc_parseHeaders b o m.hl (some m.pv) H
    rcases hp : parseHeaders b o m.hl (some m.pv) with ⟨o1, e1, hl1, hb1⟩
    rw [hp] at hs
    cases e1 <;> simp only
    case ok => rw [(msgBody_done_pv b o1 _ flags).1]; exact hs
    all_goals (rw [sc_hl_msgErr]; exact hs)
  have hF : ∀ (o : Nat) (m : PSIPMsg), SvCov m.hl → SvCov (msgFLine b o m flags).2.2.hl := by
    intro o m H
    unfold msgFLine
    rcases hp : parseFLine b o m.fl with ⟨o1, e1, fl1⟩
    cases e1 <;> simp only
    case ok => exact hH o1 _ H
    all_goals (rw [sc_hl_msgErr]; exact H)
  unfold parseSIPMsg
  cases hst : m.state <;> simp only
  case init => exact hF o _ H
  case fline => exact hF o m H
  case headers => exact hH o m H
  case body => rw [(msgBody_done_pv b o m flags).1]; exact H
  all_goals (rw [sc_hl_msgErr]; exact H)

theorem svc_init (m0 : PSIPMsg) (len : Nat) (hdrs : Option (Array Hdr)) (cts : Option (Array PFromBody)) :
    SvCov (m0.init len hdrs cts).hl := svc_of_n0 rfl

theorem svc_reset (m : PSIPMsg) : SvCov m.reset.hl := svc_of_n0 rfl

theorem svc_resumeRun (flags : Nat) (o : Nat) (m : PSIPMsg) (l : List Buf) (H : SvCov m.hl) :
    SvCov (resumeRun (fun b o m => parseSIPMsg b o m flags) o m l).2.2.hl := by
  induction l generalizing o m with
  | nil => exact H
  | cons b rest ih =>
    have h1 := svc_parseSIPMsg b o m flags H
    cases rest with
    | nil => exact h1
    | cons b' rest' =>
      simp only [resumeRun]
      rcases hp : parseSIPMsg b o m flags with ⟨o1, e1, s1⟩
      rw [hp] at h1
      by_cases hm : e1 = .moreBytes
      · subst hm
        simp only
        exact ih o1 s1 h1
      · cases e1 <;> first | exact absurd rfl hm | exact h1

/-- at every point of every history of a message object (`ScReach`: zero value or Init, then any sequence of Reset
    and ParseSIPMsg calls on any buffers, whatever the verdicts) -/
theorem ScReach.svCov {m : PSIPMsg} (h : ScReach m) : SvCov m.hl := by
  induction h with
  | new => exact svc_of_n0 rfl
  | init m0 len kh kc hdrs cts => exact svc_init m0 len _ _
  | @reset m _ _ => exact svc_reset m
  | parse b o flags _ ih => exact svc_parseSIPMsg b o _ flags ih

/-- **`Covered` after one successful ParseSIPMsg call** on an object satisfying the invariants (any buffer, offset,
    flags; the call may complete a message suspended earlier) -/
theorem covered_parseSIPMsg (b : Buf) (o : Nat) (m : PSIPMsg) (flags : Nat) (hI : ScMsg m) (hC : SvCov m.hl)
    {o' : Nat} {m' : PSIPMsg} (hr : parseSIPMsg b o m flags = (o', .ok, m')) :
    FlagsCover m'.hl.pflags m'.hl.hdrs.toList := by
  have h1 := (sc_parseSIPMsg b o m flags hI).2
  have h2 := svc_parseSIPMsg b o m flags hC
  rw [hr] at h1 h2
  exact svc_cover_of_done h2 (h1 rfl)

/-- **after ANY history of the object** (no size bound, no legitimacy hypothesis: the flag word and the stored types
    are kept consistent by every call) -/
theorem covered_after_history (b : Buf) (o : Nat) (m : PSIPMsg) (flags : Nat) (hR : ScReach m)
    {o' : Nat} {m' : PSIPMsg} (hr : parseSIPMsg b o m flags = (o', .ok, m')) :
    FlagsCover m'.hl.pflags m'.hl.hdrs.toList :=
  covered_parseSIPMsg b o m flags hR.inv.1 hR.svCov hr

/-- **the first call after Init** (caller arrays of any capacity, cleared, or none) -/
theorem covered_init (b : Buf) (o : Nat) (m0 : PSIPMsg) (len kh kc : Nat) (hdrs cts : Option Unit) (flags : Nat)
    {o' : Nat} {m' : PSIPMsg}
    (hr : parseSIPMsg b o (m0.init len (hdrs.map fun _ => Array.replicate kh {})
      (cts.map fun _ => Array.replicate kc {})) flags = (o', .ok, m')) :
    FlagsCover m'.hl.pflags m'.hl.hdrs.toList :=
  covered_parseSIPMsg b o _ flags (ScMsg_init m0 len kh kc hdrs cts) (svc_init m0 len _ _) hr

/-- **every chain of resumed calls** (ANY list of buffers — growing prefixes of one message or not — no size bound)
    from an object satisfying the invariants that ends with OK -/
theorem covered_resumeRun (flags : Nat) (o : Nat) (m : PSIPMsg) (l : List Buf) (hI : ScMsg m) (hC : SvCov m.hl)
    (hok : (resumeRun (fun b o m => parseSIPMsg b o m flags) o m l).2.1 = .ok) :
    FlagsCover (resumeRun (fun b o m => parseSIPMsg b o m flags) o m l).2.2.hl.pflags
      (resumeRun (fun b o m => parseSIPMsg b o m flags) o m l).2.2.hl.hdrs.toList :=
  svc_cover_of_done (svc_resumeRun flags o m l hC) ((sc_resumeRun flags o m l hI).2 hok)

/-- **every chunk schedule from Init that ends with OK** -/
theorem covered_schedule_init (flags : Nat) (o : Nat) (m0 : PSIPMsg) (len kh kc : Nat) (hdrs cts : Option Unit)
    (l : List Buf) {o' : Nat} {m' : PSIPMsg}
    (hr : resumeRun (C01.msgP flags) o
      (m0.init len (hdrs.map fun _ => Array.replicate kh {}) (cts.map fun _ => Array.replicate kc {})) l = (o', .ok, m')) :
    FlagsCover m'.hl.pflags m'.hl.hdrs.toList := by
  have := covered_resumeRun flags o _ l (ScMsg_init m0 len kh kc hdrs cts) (svc_init m0 len _ _)
    (by show (resumeRun (C01.msgP flags) o _ l).2.1 = .ok; rw [hr])
  have e : resumeRun (fun b o m => parseSIPMsg b o m flags) o
      (m0.init len (hdrs.map fun _ => Array.replicate kh {}) (cts.map fun _ => Array.replicate kc {})) l = (o', .ok, m') := hr
  rw [e] at this
  exact this

/-! ### (1c) the factorisation / invariance theorems of C19 without the side condition -/

/-- `m` is what a successful ParseSIPMsg call returned, after ANY history of the object it was called on -/
def SvParsed (m' : PSIPMsg) : Prop :=
  ∃ (b : Buf) (o : Nat) (m : PSIPMsg) (flags o' : Nat), ScReach m ∧ parseSIPMsg b o m flags = (o', .ok, m')

theorem SvParsed.covered {m : PSIPMsg} (h : SvParsed m) : FlagsCover m.hl.pflags m.hl.hdrs.toList := by
  obtain ⟨b, o, m0, flags, o', hR, hr⟩ := h
  exact covered_after_history b o m0 flags hR hr

/-- a chain of resumed calls that ends with OK ends with a successful call -/
theorem svParsed_resumeRun (flags : Nat) (o : Nat) (m : PSIPMsg) (l : List Buf) (hR : ScReach m)
    (hok : (resumeRun (fun b o m => parseSIPMsg b o m flags) o m l).2.1 = .ok) :
    SvParsed (resumeRun (fun b o m => parseSIPMsg b o m flags) o m l).2.2 := by
  induction l generalizing o m with
  | nil => cases hok
  | cons b rest ih =>
    have hone : (parseSIPMsg b o m flags).2.1 = .ok → SvParsed (parseSIPMsg b o m flags).2.2 :=
      fun h => ⟨b, o, m, flags, (parseSIPMsg b o m flags).1, hR, by rw [← h]⟩
    cases rest with
    | nil => exact hone hok
    | cons b' rest' =>
      simp only [resumeRun] at hok ⊢
      rcases hp : parseSIPMsg b o m flags with ⟨o1, e1, s1⟩
      rw [hp] at hok hone
      by_cases hm : e1 = .moreBytes
      · subst hm
        simp only at hok ⊢
        have hR1 : ScReach s1 := by
          have := ScReach.parse b o flags hR
          rw [hp] at this; exact this
        exact ih o1 s1 hR1 hok
      · cases e1 <;> first | exact absurd rfl hm | exact hone hok

/-- every chunk schedule from Init that ends with OK -/
theorem svParsed_schedule_init (flags : Nat) (o : Nat) (m0 : PSIPMsg) (len kh kc : Nat) (hdrs cts : Option Unit)
    (l : List Buf) {o' : Nat} {m' : PSIPMsg}
    (hr : resumeRun (C01.msgP flags) o
      (m0.init len (hdrs.map fun _ => Array.replicate kh {}) (cts.map fun _ => Array.replicate kc {})) l = (o', .ok, m')) :
    SvParsed m' := by
  have e : resumeRun (fun b o m => parseSIPMsg b o m flags) o
      (m0.init len (hdrs.map fun _ => Array.replicate kh {}) (cts.map fun _ => Array.replicate kc {})) l = (o', .ok, m') := hr
  have := svParsed_resumeRun flags o _ l (ScReach.init m0 len kh kc hdrs cts) (by rw [e])
  rw [e] at this
  exact this

/-- the first call after Init -/
theorem svParsed_init (b : Buf) (o : Nat) (m0 : PSIPMsg) (len kh kc : Nat) (hdrs cts : Option Unit) (flags : Nat)
    {o' : Nat} {m' : PSIPMsg}
    (hr : parseSIPMsg b o (m0.init len (hdrs.map fun _ => Array.replicate kh {})
      (cts.map fun _ => Array.replicate kc {})) flags = (o', .ok, m')) : SvParsed m' :=
  ⟨b, o, _, flags, o', ScReach.init m0 len kh kc hdrs cts, hr⟩

/-- the view of a message object restricted to the fingerprinted types at their first occurrence (`C19.firsts`) -/
def svFirsts (m : PSIPMsg) (b : Buf) : List SigKey :=
  sigFirsts [] (m.hl.hdrs.toList.map (hdrKey (b.extract 0 m.bufLen)))

/-- **factorisation for every successfully parsed request** (C19 `factorisation` without `Covered`) -/
theorem svc_factorisation (m : PSIPMsg) (b : Buf) (hp : SvParsed m) (hr : m.request = true) (cid tag : Buf)
    (hc : m.pv.callid.callID.get? (b.extract 0 m.bufLen) = some cid)
    (ht : m.pv.from_.tag.get? (b.extract 0 m.bufLen) = some tag) :
    (getMsgSigCore m b).1 = sigApply (svFirsts m b) (sigInit m.fl.methodNo cid tag).sig ∧
    (getMsgSigCore m b).2.2 = ((getCallIDSig cid).2.2 || (svFirsts m b).any (fun k => k.viaPnc)) := by
  rw [getMsgSig_request m b hr cid tag hc ht]
  exact msgSigLoop_view (b.extract 0 m.bufLen) m.hl.pflags m.hl.hdrs.toList m.fl.methodNo cid tag hp.covered

/-- **two successfully parsed requests** (each the result of a successful call after any history — in particular of
    any chunk schedule from Init, with any capacities) with the same method, the same Call-ID and From-tag bytes and
    the same restricted view have the same signature and the same "Go would panic" flag: no side condition on the
    flag words left -/
theorem svc_same_view_same_signature (m m' : PSIPMsg) (b b' : Buf) (hp : SvParsed m) (hp' : SvParsed m')
    (hr : m.request = true) (hr' : m'.request = true) (hmeth : m'.fl.methodNo = m.fl.methodNo)
    (hc : m'.pv.callid.callID.get? (b'.extract 0 m'.bufLen) = m.pv.callid.callID.get? (b.extract 0 m.bufLen))
    (ht : m'.pv.from_.tag.get? (b'.extract 0 m'.bufLen) = m.pv.from_.tag.get? (b.extract 0 m.bufLen))
    (hview : svFirsts m' b' = svFirsts m b) :
    (getMsgSigCore m' b').1 = (getMsgSigCore m b).1 ∧ (getMsgSigCore m' b').2.2 = (getMsgSigCore m b).2.2 := by
  cases hcc : m.pv.callid.callID.get? (b.extract 0 m.bufLen) with
  | none =>
    rw [getMsgSig_outside m b hr (Or.inl hcc), getMsgSig_outside m' b' hr' (Or.inl (hc.trans hcc))]
    exact ⟨rfl, rfl⟩
  | some cid =>
    cases htt : m.pv.from_.tag.get? (b.extract 0 m.bufLen) with
    | none =>
      rw [getMsgSig_outside m b hr (Or.inr htt), getMsgSig_outside m' b' hr' (Or.inr (ht.trans htt))]
      exact ⟨rfl, rfl⟩
    | some tag =>
      have h1 := svc_factorisation m b hp hr cid tag hcc htt
      have h2 := svc_factorisation m' b' hp' hr' cid tag (hc.trans hcc) (ht.trans htt)
      rw [h1.1, h1.2, h2.1, h2.2, hmeth, hview]
      exact ⟨rfl, rfl⟩

/-! ### (2a) the six single-valued header kinds with a dedicated value parser -/

inductive SvKind where | from_ | to | callid | cseq | clen | expires
  deriving DecidableEq, Repr

/-- the header type of the kind -/
def SvKind.type : SvKind → Nat
  | .from_ => HdrFrom | .to => HdrTo | .callid => HdrCallID | .cseq => HdrCSeq | .clen => HdrCLen
  | .expires => HdrExpires

/-- the state of a header object suspended inside the value parser of the kind -/
def SvKind.st : SvKind → HState
  | .from_ => .hFrom | .to => .hTo | .callid => .hCallID | .cseq => .hCSeq | .clen => .hCLen | .expires => .hExpires

/-- `Parsed()` of the shortcut object of the kind -/
def SvKind.parsed : SvKind → PHdrVals → Bool
  | .from_, hv => hv.from_.parsed | .to, hv => hv.to.parsed | .callid, hv => hv.callid.parsed
  | .cseq, hv => hv.cseq.parsed | .clen, hv => hv.clen.parsed | .expires, hv => hv.expires.parsed

/-- the value span the shortcut object of the kind reports (`V`, `CallID`, `SVal`) -/
def SvKind.span : SvKind → PHdrVals → PField
  | .from_, hv => hv.from_.v | .to, hv => hv.to.v | .callid, hv => hv.callid.callID
  | .cseq, hv => hv.cseq.v | .clen, hv => hv.clen.sVal | .expires, hv => hv.expires.sVal

/-- the header type whose value parser a suspended header object is in -/
def svStType : HState → Option Nat
  | .hFrom => some HdrFrom | .hTo => some HdrTo | .hCallID => some HdrCallID | .hCSeq => some HdrCSeq
  | .hCLen => some HdrCLen | .hContact => some HdrContact | .hExpires => some HdrExpires | .hPAI => some HdrPAI
  | _ => none

theorem svk_stType (k : SvKind) : svStType k.st = some k.type := by cases k <;> rfl

/-- what running the value parser of a header of type `ty` did to the values object (`hv` to `hv2`, verdict `e`,
    `V` = the span copied into the header's `val` on OK): the other kinds are untouched; the kind of that type is
    parsed after OK and `V` is its span -/
def SvUpd (ty : Nat) (hv hv2 : PHdrVals) (e : Err) (V : PField) : Prop :=
  ∀ k : SvKind, (k.type ≠ ty → k.parsed hv2 = k.parsed hv ∧ k.span hv2 = k.span hv) ∧
    (k.type = ty → e = .ok → k.parsed hv2 = true ∧ V = k.span hv2)

/-! #### OK verdict of a value parser: the object is parsed (no hypothesis on the offset) -/

theorem sv_na_ok (h : Nat) (b : Buf) (o : Nat) (pf : PFromBody) {o' : Nat} {pf' : PFromBody}
    (hr : parseNameAddrPVal h b o pf = (o', .ok, pf')) : pf'.parsed = true := by
  have := (parseNameAddrPVal_post h b o pf hr (Or.inl rfl)).1
  unfold PFromBody.parsed; rw [this]; rfl

theorem sv_ci_ok (b : Buf) (o : Nat) (st : PCallIDBody) {o' : Nat} {st' : PCallIDBody}
    (hr : parseCallIDVal b o st = (o', .ok, st')) : st'.parsed = true := by
  have hf : st'.state = .fin := by
    by_cases ho : o ≤ b.size
    · exact (parseCallIDVal_post b o st ho hr).2.2.1
    · unfold parseCallIDVal at hr
      split at hr
      · rename_i hf; cases hr; exact hf
      · rw [runLoop_none ciMachine st (Array.getElem?_eq_none (by omega))] at hr
        cases hr
  unfold PCallIDBody.parsed; rw [hf]; rfl

theorem sv_ui_ok (b : Buf) (o : Nat) (st : PUIntBody) {o' : Nat} {st' : PUIntBody}
    (hr : parseUIntVal b o st = (o', .ok, st')) : st'.parsed = true := by
  have hf : st'.state = .fin := by
    by_cases ho : o ≤ b.size
    · exact (parseUIntVal_post b o st ho hr).2.2.1
    · unfold parseUIntVal at hr
      split at hr
      · rename_i hf; cases hr; exact hf
      · rw [runLoop_none clMachine st (Array.getElem?_eq_none (by omega))] at hr
        cases hr
  unfold PUIntBody.parsed; rw [hf]; rfl

theorem sv_cl_ok (b : Buf) (o : Nat) (st : PUIntBody) {o' : Nat} {st' : PUIntBody}
    (hr : parseCLenVal b o st = (o', .ok, st')) : st'.parsed = true := by
  unfold parseCLenVal at hr
  rcases hp : parseUIntVal b o st with ⟨o1, e1, s1⟩
  rw [hp] at hr
  cases e1 <;> simp only at hr <;> try (cases hr; done)
  split at hr
  · cases hr
  · cases hr; exact sv_ui_ok b o st hp

theorem sv_cs_ok (b : Buf) (o : Nat) (st : PCSeqBody) {o' : Nat} {st' : PCSeqBody}
    (hr : parseCSeqVal b o st = (o', .ok, st')) : st'.parsed = true := by
  have hf : st'.state = .fin := by
    by_cases ho : o ≤ b.size
    · exact (parseCSeqVal_post b o st ho hr).2.2.1
    · unfold parseCSeqVal at hr
      split at hr
      · rename_i hf; cases hr; exact hf
      · rw [runLoop_none csMachine st (Array.getElem?_eq_none (by omega))] at hr
        cases hr
  unfold PCSeqBody.parsed; rw [hf]; rfl

/-! #### the dispatch to the value parsers -/

/-- the typed branch of `parseBody` for a single-valued kind, in one place -/
theorem svl_typed_one (ty : Nat) (k0 : SvKind) (hk0 : k0.type = ty) (hv hv2 : PHdrVals) (e : Err) (V : PField)
    (hoth : ∀ k : SvKind, k ≠ k0 → k.parsed hv2 = k.parsed hv ∧ k.span hv2 = k.span hv)
    (hown : e = .ok → k0.parsed hv2 = true ∧ V = k0.span hv2) : SvUpd ty hv hv2 e V := by
  intro k
  refine ⟨fun hne => hoth k (fun hk => hne (by rw [hk]; exact hk0)), fun heq he => ?_⟩
  have : k = k0 := by
    subst hk0
    cases k <;> cases k0 <;> first | rfl | exact absurd heq (by decide)
  subst this
  exact hown he

theorem svk_type_inj (k k0 : SvKind) (h : k.type = k0.type) : k = k0 := by
  cases k <;> cases k0 <;> first | rfl | exact absurd h (by decide)

/-- **`parseBody` with a values object**: either nothing happens (the generic scanner will read the value) and then
    the kind of the header's type, if any, is already parsed; or the value parser of the header's type runs: the
    header goes to the state of that parser, takes the reported span as `val` on OK, and the values object changes as
    `SvUpd` says -/
theorem svl_parseBody (b : Buf) (i : Nat) (h : Hdr) (hv : PHdrVals)
    {n : Nat} {e : Err} {h2 : Hdr} {hb2 : Option PHdrVals} (hr : parseBody b i h (some hv) = (n, e, h2, hb2)) :
    ∃ hv2, hb2 = some hv2 ∧
      ((h2 = h ∧ hv2 = hv ∧ ∀ k : SvKind, k.type = h.type → k.parsed hv = true) ∨
       (∃ st V, svStType st = some h.type ∧ h2 = { h with state := st, val := if e == .ok then V else h.val } ∧
          (∀ k : SvKind, k.type = h.type → k.parsed hv = false) ∧ SvUpd h.type hv hv2 e V)) := by
  have gen : ∀ k0 : SvKind, h.type = k0.type → k0.parsed hv = true →
      ∀ k : SvKind, k.type = h.type → k.parsed hv = true := by
    intro k0 h0 hp k hk
    rw [svk_type_inj k k0 (hk.trans h0)]; exact hp
  have ngen : ∀ k0 : SvKind, h.type = k0.type → k0.parsed hv = false →
      ∀ k : SvKind, k.type = h.type → k.parsed hv = false := by
    intro k0 h0 hp k hk
    rw [svk_type_inj k k0 (hk.trans h0)]; exact hp
  unfold parseBody at hr
  simp only at hr
  by_cases h_from : (h.type == HdrFrom) = true
  · have ht : h.type = SvKind.from_.type := show h.type = HdrFrom by simpa using h_from
    simp only [h_from, ↓reduceIte] at hr
    by_cases hp : (!hv.from_.parsed) = true
    · simp only [hp, ↓reduceIte] at hr
      rcases hq : parseFromVal b i hv.from_ with ⟨n1, e1, f⟩
      rw [hq] at hr
      simp only [Prod.mk.injEq] at hr
      obtain ⟨rfl, rfl, rfl, rfl⟩ := hr
      refine ⟨_, rfl, Or.inr ⟨.hFrom, f.v, by rw [ht]; rfl, rfl, ngen .from_ ht (show hv.from_.parsed = false by simpa using hp), ?_⟩⟩
      refine svl_typed_one _ .from_ ht.symm _ _ _ _ (fun k hk => by cases k <;> first | exact absurd rfl hk | exact ⟨rfl, rfl⟩)
        (fun he => ?_)
      subst he
      exact ⟨sv_na_ok HdrFrom b i hv.from_ hq, rfl⟩
    · simp only [hp, Bool.false_eq_true, ↓reduceIte, Prod.mk.injEq] at hr
      obtain ⟨rfl, rfl, rfl, rfl⟩ := hr
      exact ⟨_, rfl, Or.inl ⟨rfl, rfl, gen .from_ ht (show hv.from_.parsed = true by simpa using hp)⟩⟩
  simp only [h_from, Bool.false_eq_true, ↓reduceIte] at hr
  by_cases h_to : (h.type == HdrTo) = true
  · have ht : h.type = SvKind.to.type := show h.type = HdrTo by simpa using h_to
    simp only [h_to, ↓reduceIte] at hr
    by_cases hp : (!hv.to.parsed) = true
    · simp only [hp, ↓reduceIte] at hr
      rcases hq : parseNameAddrPVal HdrTo b i hv.to with ⟨n1, e1, f⟩
      rw [hq] at hr
      simp only [Prod.mk.injEq] at hr
      obtain ⟨rfl, rfl, rfl, rfl⟩ := hr
      refine ⟨_, rfl, Or.inr ⟨.hTo, f.v, by rw [ht]; rfl, rfl, ngen .to ht (show hv.to.parsed = false by simpa using hp), ?_⟩⟩
      refine svl_typed_one _ .to ht.symm _ _ _ _ (fun k hk => by cases k <;> first | exact absurd rfl hk | exact ⟨rfl, rfl⟩)
        (fun he => ?_)
      subst he
      exact ⟨sv_na_ok HdrTo b i hv.to hq, rfl⟩
    · simp only [hp, Bool.false_eq_true, ↓reduceIte, Prod.mk.injEq] at hr
      obtain ⟨rfl, rfl, rfl, rfl⟩ := hr
      exact ⟨_, rfl, Or.inl ⟨rfl, rfl, gen .to ht (show hv.to.parsed = true by simpa using hp)⟩⟩
  simp only [h_to, Bool.false_eq_true, ↓reduceIte] at hr
  by_cases h_callid : (h.type == HdrCallID) = true
  · have ht : h.type = SvKind.callid.type := show h.type = HdrCallID by simpa using h_callid
    simp only [h_callid, ↓reduceIte] at hr
    by_cases hp : (!hv.callid.parsed) = true
    · simp only [hp, ↓reduceIte] at hr
      rcases hq : parseCallIDVal b i hv.callid with ⟨n1, e1, f⟩
      rw [hq] at hr
      simp only [Prod.mk.injEq] at hr
      obtain ⟨rfl, rfl, rfl, rfl⟩ := hr
      refine ⟨_, rfl, Or.inr ⟨.hCallID, f.callID, by rw [ht]; rfl, rfl, ngen .callid ht (show hv.callid.parsed = false by simpa using hp), ?_⟩⟩
      refine svl_typed_one _ .callid ht.symm _ _ _ _ (fun k hk => by cases k <;> first | exact absurd rfl hk | exact ⟨rfl, rfl⟩)
        (fun he => ?_)
      subst he
      exact ⟨sv_ci_ok b i hv.callid hq, rfl⟩
    · simp only [hp, Bool.false_eq_true, ↓reduceIte, Prod.mk.injEq] at hr
      obtain ⟨rfl, rfl, rfl, rfl⟩ := hr
      exact ⟨_, rfl, Or.inl ⟨rfl, rfl, gen .callid ht (show hv.callid.parsed = true by simpa using hp)⟩⟩
  simp only [h_callid, Bool.false_eq_true, ↓reduceIte] at hr
  by_cases h_cseq : (h.type == HdrCSeq) = true
  · have ht : h.type = SvKind.cseq.type := show h.type = HdrCSeq by simpa using h_cseq
    simp only [h_cseq, ↓reduceIte] at hr
    by_cases hp : (!hv.cseq.parsed) = true
    · simp only [hp, ↓reduceIte] at hr
      rcases hq : parseCSeqVal b i hv.cseq with ⟨n1, e1, f⟩
      rw [hq] at hr
      simp only [Prod.mk.injEq] at hr
      obtain ⟨rfl, rfl, rfl, rfl⟩ := hr
      refine ⟨_, rfl, Or.inr ⟨.hCSeq, f.v, by rw [ht]; rfl, rfl, ngen .cseq ht (show hv.cseq.parsed = false by simpa using hp), ?_⟩⟩
      refine svl_typed_one _ .cseq ht.symm _ _ _ _ (fun k hk => by cases k <;> first | exact absurd rfl hk | exact ⟨rfl, rfl⟩)
        (fun he => ?_)
      subst he
      exact ⟨sv_cs_ok b i hv.cseq hq, rfl⟩
    · simp only [hp, Bool.false_eq_true, ↓reduceIte, Prod.mk.injEq] at hr
      obtain ⟨rfl, rfl, rfl, rfl⟩ := hr
      exact ⟨_, rfl, Or.inl ⟨rfl, rfl, gen .cseq ht (show hv.cseq.parsed = true by simpa using hp)⟩⟩
  simp only [h_cseq, Bool.false_eq_true, ↓reduceIte] at hr
  by_cases h_clen : (h.type == HdrCLen) = true
  · have ht : h.type = SvKind.clen.type := show h.type = HdrCLen by simpa using h_clen
    simp only [h_clen, ↓reduceIte] at hr
    by_cases hp : (!hv.clen.parsed) = true
    · simp only [hp, ↓reduceIte] at hr
      rcases hq : parseCLenVal b i hv.clen with ⟨n1, e1, f⟩
      rw [hq] at hr
      simp only [Prod.mk.injEq] at hr
      obtain ⟨rfl, rfl, rfl, rfl⟩ := hr
      refine ⟨_, rfl, Or.inr ⟨.hCLen, f.sVal, by rw [ht]; rfl, rfl, ngen .clen ht (show hv.clen.parsed = false by simpa using hp), ?_⟩⟩
      refine svl_typed_one _ .clen ht.symm _ _ _ _ (fun k hk => by cases k <;> first | exact absurd rfl hk | exact ⟨rfl, rfl⟩)
        (fun he => ?_)
      subst he
      exact ⟨sv_cl_ok b i hv.clen hq, rfl⟩
    · simp only [hp, Bool.false_eq_true, ↓reduceIte, Prod.mk.injEq] at hr
      obtain ⟨rfl, rfl, rfl, rfl⟩ := hr
      exact ⟨_, rfl, Or.inl ⟨rfl, rfl, gen .clen ht (show hv.clen.parsed = true by simpa using hp)⟩⟩
  simp only [h_clen, Bool.false_eq_true, ↓reduceIte] at hr
  have hoth8 : ∀ ty : Nat, h.type = ty → ty = HdrContact ∨ ty = HdrPAI →
      ∀ (hv2 : PHdrVals) (V : PField), (∀ k : SvKind, k.parsed hv2 = k.parsed hv ∧ k.span hv2 = k.span hv) →
        (∀ k : SvKind, k.type = h.type → k.parsed hv = false) ∧ SvUpd h.type hv hv2 e V := by
    intro ty hty hc hv2 V hsame
    have hne : ∀ k : SvKind, k.type ≠ h.type := by
      intro k hk
      rw [hty] at hk
      rcases hc with rfl | rfl <;> cases k <;> exact absurd hk (by decide)
    exact ⟨fun k hk => absurd hk (hne k), fun k => ⟨fun _ => hsame k, fun hk => absurd hk (hne k)⟩⟩
  by_cases h_contacts : (h.type == HdrContact) = true
  · have ht : h.type = HdrContact := by simpa using h_contacts
    simp only [h_contacts, ↓reduceIte] at hr
    rcases hq : parseAllContactValues b i
      (if (h.state != HState.hContact) = true then { hv.contacts with hNo := hv.contacts.hNo + 1, lastHVal := {} }
       else hv.contacts) with ⟨n1, e1, c⟩
    rw [hq] at hr
    simp only [Prod.mk.injEq] at hr
    obtain ⟨rfl, rfl, rfl, rfl⟩ := hr
    obtain ⟨q1, q2⟩ := hoth8 HdrContact ht (Or.inl rfl) { hv with contacts := c } c.lastHVal
      (fun k => by cases k <;> exact ⟨rfl, rfl⟩)
    exact ⟨_, rfl, Or.inr ⟨.hContact, c.lastHVal, by rw [ht]; rfl, rfl, q1, q2⟩⟩
  simp only [h_contacts, Bool.false_eq_true, ↓reduceIte] at hr
  by_cases h_expires : (h.type == HdrExpires) = true
  · have ht : h.type = SvKind.expires.type := show h.type = HdrExpires by simpa using h_expires
    simp only [h_expires, ↓reduceIte] at hr
    by_cases hp : (!hv.expires.parsed) = true
    · simp only [hp, ↓reduceIte] at hr
      rcases hq : parseUIntVal b i hv.expires with ⟨n1, e1, f⟩
      rw [hq] at hr
      simp only [Prod.mk.injEq] at hr
      obtain ⟨rfl, rfl, rfl, rfl⟩ := hr
      refine ⟨_, rfl, Or.inr ⟨.hExpires, f.sVal, by rw [ht]; rfl, rfl, ngen .expires ht (show hv.expires.parsed = false by simpa using hp), ?_⟩⟩
      refine svl_typed_one _ .expires ht.symm _ _ _ _ (fun k hk => by cases k <;> first | exact absurd rfl hk | exact ⟨rfl, rfl⟩)
        (fun he => ?_)
      subst he
      exact ⟨sv_ui_ok b i hv.expires hq, rfl⟩
    · simp only [hp, Bool.false_eq_true, ↓reduceIte, Prod.mk.injEq] at hr
      obtain ⟨rfl, rfl, rfl, rfl⟩ := hr
      exact ⟨_, rfl, Or.inl ⟨rfl, rfl, gen .expires ht (show hv.expires.parsed = true by simpa using hp)⟩⟩
  simp only [h_expires, Bool.false_eq_true, ↓reduceIte] at hr
  by_cases h_pais : (h.type == HdrPAI) = true
  · have ht : h.type = HdrPAI := by simpa using h_pais
    simp only [h_pais, ↓reduceIte] at hr
    rcases hq : parseAllPAIValues b i
      (if (h.state != HState.hPAI) = true then { hv.pais with hNo := hv.pais.hNo + 1, lastHVal := {} }
       else hv.pais) with ⟨n1, e1, c⟩
    rw [hq] at hr
    simp only [Prod.mk.injEq] at hr
    obtain ⟨rfl, rfl, rfl, rfl⟩ := hr
    obtain ⟨q1, q2⟩ := hoth8 HdrPAI ht (Or.inr rfl) { hv with pais := c } c.lastHVal
      (fun k => by cases k <;> exact ⟨rfl, rfl⟩)
    exact ⟨_, rfl, Or.inr ⟨.hPAI, c.lastHVal, by rw [ht]; rfl, rfl, q1, q2⟩⟩
  simp only [h_pais, Bool.false_eq_true, ↓reduceIte, Prod.mk.injEq] at hr
  obtain ⟨rfl, rfl, rfl, rfl⟩ := hr
  refine ⟨_, rfl, Or.inl ⟨rfl, rfl, fun k hk => ?_⟩⟩
  exfalso
  cases k
  · rw [← hk] at h_from; exact h_from (by decide)
  · rw [← hk] at h_to; exact h_to (by decide)
  · rw [← hk] at h_callid; exact h_callid (by decide)
  · rw [← hk] at h_cseq; exact h_cseq (by decide)
  · rw [← hk] at h_clen; exact h_clen (by decide)
  · rw [← hk] at h_expires; exact h_expires (by decide)

/-- continuation of a value parser (`case hFrom:` … `case hPAI:`) with a values object: always a final step; on OK
    the header takes the reported span and is finished, otherwise it is unchanged -/
theorem svl_hlCont (b : Buf) (i : Nat) (h : Hdr) (hv : PHdrVals) (ty : Nat) (hst : svStType h.state = some ty) :
    ∃ n e V hv2, hlCont b i h (some hv) =
        .done n e ((if e == .ok then { h with val := V, state := .fin } else h), some hv2) ∧
      SvUpd ty hv hv2 e V := by
  have hoth8 : ty = HdrContact ∨ ty = HdrPAI →
      ∀ (hv2 : PHdrVals) (e : Err) (V : PField), (∀ k : SvKind, k.parsed hv2 = k.parsed hv ∧ k.span hv2 = k.span hv) →
        SvUpd ty hv hv2 e V := by
    intro hc hv2 e V hsame
    have hne : ∀ k : SvKind, k.type ≠ ty := by
      intro k hk
      rcases hc with rfl | rfl <;> cases k <;> exact absurd hk (by decide)
    exact fun k => ⟨fun _ => hsame k, fun hk => absurd hk (hne k)⟩
  unfold hlCont
  simp only
  cases hs : h.state <;> rw [hs] at hst <;> simp only [svStType] at hst <;> try (cases hst; done)
  case hFrom =>
    cases hst
    rcases hq : parseFromVal b i hv.from_ with ⟨n1, e1, f⟩
    refine ⟨n1, e1, f.v, { hv with from_ := f }, rfl, ?_⟩
    refine svl_typed_one _ .from_ rfl _ _ _ _ (fun k hk => by cases k <;> first | exact absurd rfl hk | exact ⟨rfl, rfl⟩)
      (fun he => ?_)
    subst he
    exact ⟨sv_na_ok HdrFrom b i hv.from_ hq, rfl⟩
  case hTo =>
    cases hst
    rcases hq : parseNameAddrPVal HdrTo b i hv.to with ⟨n1, e1, f⟩
    refine ⟨n1, e1, f.v, { hv with to := f }, rfl, ?_⟩
    refine svl_typed_one _ .to rfl _ _ _ _ (fun k hk => by cases k <;> first | exact absurd rfl hk | exact ⟨rfl, rfl⟩)
      (fun he => ?_)
    subst he
    exact ⟨sv_na_ok HdrTo b i hv.to hq, rfl⟩
  case hCallID =>
    cases hst
    rcases hq : parseCallIDVal b i hv.callid with ⟨n1, e1, f⟩
    refine ⟨n1, e1, f.callID, { hv with callid := f }, rfl, ?_⟩
    refine svl_typed_one _ .callid rfl _ _ _ _ (fun k hk => by cases k <;> first | exact absurd rfl hk | exact ⟨rfl, rfl⟩)
      (fun he => ?_)
    subst he
    exact ⟨sv_ci_ok b i hv.callid hq, rfl⟩
  case hCSeq =>
    cases hst
    rcases hq : parseCSeqVal b i hv.cseq with ⟨n1, e1, f⟩
    refine ⟨n1, e1, f.v, { hv with cseq := f }, rfl, ?_⟩
    refine svl_typed_one _ .cseq rfl _ _ _ _ (fun k hk => by cases k <;> first | exact absurd rfl hk | exact ⟨rfl, rfl⟩)
      (fun he => ?_)
    subst he
    exact ⟨sv_cs_ok b i hv.cseq hq, rfl⟩
  case hCLen =>
    cases hst
    rcases hq : parseCLenVal b i hv.clen with ⟨n1, e1, f⟩
    refine ⟨n1, e1, f.sVal, { hv with clen := f }, rfl, ?_⟩
    refine svl_typed_one _ .clen rfl _ _ _ _ (fun k hk => by cases k <;> first | exact absurd rfl hk | exact ⟨rfl, rfl⟩)
      (fun he => ?_)
    subst he
    exact ⟨sv_cl_ok b i hv.clen hq, rfl⟩
  case hContact =>
    cases hst
    rcases hq : parseAllContactValues b i hv.contacts with ⟨n1, e1, c⟩
    exact ⟨n1, e1, c.lastHVal, { hv with contacts := c }, rfl,
      hoth8 (Or.inl rfl) _ _ _ (fun k => by cases k <;> exact ⟨rfl, rfl⟩)⟩
  case hExpires =>
    cases hst
    rcases hq : parseUIntVal b i hv.expires with ⟨n1, e1, f⟩
    refine ⟨n1, e1, f.sVal, { hv with expires := f }, rfl, ?_⟩
    refine svl_typed_one _ .expires rfl _ _ _ _ (fun k hk => by cases k <;> first | exact absurd rfl hk | exact ⟨rfl, rfl⟩)
      (fun he => ?_)
    subst he
    exact ⟨sv_ui_ok b i hv.expires hq, rfl⟩
  case hPAI =>
    cases hst
    rcases hq : parseAllPAIValues b i hv.pais with ⟨n1, e1, c⟩
    exact ⟨n1, e1, c.lastHVal, { hv with pais := c }, rfl,
      hoth8 (Or.inr rfl) _ _ _ (fun k => by cases k <;> exact ⟨rfl, rfl⟩)⟩

/-! ### (2b) one header line, any state of the header object -/

/-- the generic value states -/
def svG3 (s : HState) : Prop := s = .bodyStart ∨ s = .val ∨ s = .valEnd

theorem svG3_stType {s : HState} (h : svG3 s) : svStType s = none := by
  rcases h with rfl | rfl | rfl <;> rfl

/-- what is known about a header object in the course of a line, relative to kind `k`; `β` = "the flag of the type
    of `k` is set in the list object" (a header of that type has been accepted before) -/
structure SvLine (k : SvKind) (β : Prop) (h : Hdr) (hv : PHdrVals) : Prop where
  /-- suspended inside a value parser: the header has the type of that parser -/
  ty : ∀ t, svStType h.state = some t → h.type = t
  /-- inside the value parser of `k`: no header of that type was accepted before -/
  own : svStType h.state = some k.type → ¬ β
  /-- otherwise a parsed shortcut object means that a header of that type was accepted before -/
  other : svStType h.state ≠ some k.type → k.parsed hv = true → β
  /-- in the generic value states with the type of `k`: a repeated header -/
  gen : svG3 h.state → h.type = k.type → β

/-- what a finished call of ParseHdrLine guarantees -/
structure SvPost (k : SvKind) (β : Prop) (hv : PHdrVals) (e : Err) (h' : Hdr) (hv' : PHdrVals) : Prop where
  keep : β → k.parsed hv' = k.parsed hv ∧ k.span hv' = k.span hv
  ok2 : e = .ok → h'.type = k.type → k.parsed hv' = true
  ok3 : e = .ok → h'.type = k.type → ¬ β → h'.val = k.span hv'
  ok4 : e = .ok → k.parsed hv' = true → β ∨ h'.type = k.type
  more : e = .moreBytes → SvLine k β h' hv'

/-- a header moved within the states without value parser, type unchanged -/
theorem SvLine.move {k : SvKind} {β : Prop} {h h' : Hdr} {hv : PHdrVals} (hL : SvLine k β h hv)
    (hty : h'.type = h.type) (hs' : svStType h'.state = none) (hs : svStType h.state = none)
    (hg : svG3 h'.state → svG3 h.state) : SvLine k β h' hv :=
  ⟨(fun t ht => by rw [hs'] at ht; cases ht), (fun ht => by rw [hs'] at ht; cases ht),
   (fun _ hp => hL.other (by rw [hs]; intro hh; cases hh) hp), (fun g ht => hL.gen (hg g) (by rw [← hty]; exact ht))⟩

/-- a final step that leaves the values object alone -/
theorem svp_same {k : SvKind} {β : Prop} {h h' : Hdr} {hv : PHdrVals} {e : Err} (hL : SvLine k β h hv)
    (hB2 : β → k.parsed hv = true) (hok : e = .ok → svG3 h.state ∧ h'.type = h.type)
    (hmore : e = .moreBytes → SvLine k β h' hv) : SvPost k β hv e h' hv := by
  refine ⟨fun _ => ⟨rfl, rfl⟩, fun he ht => ?_, fun he ht hn => ?_, fun he hp => ?_, hmore⟩
  · exact hB2 (hL.gen (hok he).1 (by rw [← (hok he).2]; exact ht))
  · exact absurd (hL.gen (hok he).1 (by rw [← (hok he).2]; exact ht)) hn
  · exact Or.inl (hL.other (by rw [svG3_stType (hok he).1]; intro hh; cases hh) hp)

/-- a final step made by the value parser of type `ty` -/
theorem svp_typed {k : SvKind} {β : Prop} {hv hv2 : PHdrVals} {e : Err} {V : PField} {ty : Nat} {h' : Hdr}
    {st : HState} (hst : svStType st = some ty) (hU : SvUpd ty hv hv2 e V) (hty : h'.type = ty)
    (hok : e = .ok → h'.val = V) (hmore : e ≠ .ok → h'.state = st)
    (hown : k.type = ty → ¬ β) (hoth : k.type ≠ ty → k.parsed hv = true → β) : SvPost k β hv e h' hv2 := by
  by_cases hk : k.type = ty
  · have hnb := hown hk
    refine ⟨fun hb => absurd hb hnb, fun he _ => ((hU k).2 hk he).1, fun he _ _ => ?_, fun _ _ => Or.inr (by rw [hty, hk]),
      fun he => ?_⟩
    · rw [hok he]; exact ((hU k).2 hk he).2
    · have hs : h'.state = st := hmore (by rw [he]; decide)
      refine ⟨fun t ht => ?_, fun _ => hnb, fun hne => ?_, fun g => ?_⟩
      · rw [hs, hst] at ht; cases ht; exact hty
      · rw [hs, hst, hk] at hne; exact absurd rfl hne
      · rw [hs] at g; rw [svG3_stType g] at hst; cases hst
  · have hsame := (hU k).1 hk
    have hb : k.parsed hv2 = true → β := fun hp => hoth hk (by rw [← hsame.1]; exact hp)
    refine ⟨fun _ => hsame, fun _ ht => absurd (ht.symm.trans hty) hk, fun _ ht => absurd (ht.symm.trans hty) hk,
      fun _ hp => Or.inl (hb hp), fun he => ?_⟩
    have hs : h'.state = st := hmore (by rw [he]; decide)
    refine ⟨fun t ht => ?_, fun ht => ?_, fun _ hp => hb hp, fun g => ?_⟩
    · rw [hs, hst] at ht; cases ht; exact hty
    · rw [hs, hst] at ht; cases ht; exact absurd rfl hk
    · rw [hs] at g; rw [svG3_stType g] at hst; cases hst

/-- one step of ParseHdrLine, relative to kind `k` -/
def SvStepSpec (k : SvKind) (β : Prop) (hv : PHdrVals) : Step HLσ → Prop
  | .cont _ st' => st'.2 = some hv ∧ SvLine k β st'.1 hv
  | .done _ e st' => ∃ hv', st'.2 = some hv' ∧ SvPost k β hv e st'.1 hv'

theorem svs_done_same {k : SvKind} {β : Prop} {h h' : Hdr} {hv : PHdrVals} {e : Err} (n : Nat) (hL : SvLine k β h hv)
    (hB2 : β → k.parsed hv = true) (hok : e = .ok → svG3 h.state ∧ h'.type = h.type)
    (hmore : e = .moreBytes → SvLine k β h' hv) : SvStepSpec k β hv (.done n e (h', some hv)) :=
  ⟨hv, rfl, svp_same hL hB2 hok hmore⟩

/-- the code after the colon -/
theorem svs_afterColon (k : SvKind) (β : Prop) (b : Buf) (i : Nat) (h : Hdr) (hv : PHdrVals)
    (hs : h.state = .bodyStart) (hoth : k.parsed hv = true → β) (hB2 : β → k.parsed hv = true) :
    SvStepSpec k β hv (hlAfterColon b i h (some hv)) := by
  unfold hlAfterColon
  cases hnm : h.name.get? b with
  | none =>
    exact ⟨hv, rfl, ⟨fun _ => ⟨rfl, rfl⟩, (fun he => by cases he), (fun he => by cases he), (fun he => by cases he),
      (fun he => by cases he)⟩⟩
  | some nm =>
    simp only
    rcases hpb : parseBody b i { h with type := getHdrType nm } (some hv) with ⟨n, e, h2, hb2⟩
    obtain ⟨hv2, rfl, hcase⟩ := svl_parseBody b i _ hv hpb
    simp only
    rcases hcase with ⟨rfl, rfl, hgen⟩ | ⟨st, V, hst, rfl, hnp, hU⟩
    · rw [if_neg (by simp [hs])]
      refine ⟨rfl, ⟨fun t ht => ?_, fun ht => ?_, fun _ hp => hoth hp, fun _ ht => hoth (hgen k ht.symm)⟩⟩
      · simp only [hs, svStType] at ht; cases ht
      · simp only [hs, svStType] at ht; cases ht
    · have hne : (st != HState.bodyStart) = true := by
        cases st <;> first | rfl | (simp only [svStType] at hst; cases hst)
      rw [if_pos hne]
      refine ⟨hv2, rfl, svp_typed hst hU ?_ ?_ ?_ (fun hk hb => ?_) (fun _ hp => hoth hp)⟩
      · show (if (e == Err.ok) = true then _ else _ : Hdr).type = _
        split <;> rfl
      · intro he; subst he; rfl
      · intro he
        have : (e == Err.ok) = false := by simpa using he
        simp only [this, Bool.false_eq_true, ↓reduceIte]
      · have h1 := hB2 hb
        rw [hnp k hk] at h1; cases h1

theorem svs_bad {k : SvKind} {β : Prop} {hv : PHdrVals} (n : Nat) (h' : Hdr) :
    SvStepSpec k β hv (.done n .badChar (h', some hv)) :=
  ⟨hv, rfl, ⟨fun _ => ⟨rfl, rfl⟩, (fun he => by cases he), (fun he => by cases he), (fun he => by cases he),
    (fun he => by cases he)⟩⟩

theorem svs_hlName (k : SvKind) (β : Prop) (b : Buf) (i : Nat) (h : Hdr) (hv : PHdrVals) (hL : SvLine k β h hv)
    (hs : h.state = .name) (hB2 : β → k.parsed hv = true) : SvStepSpec k β hv (hlName b i h (some hv)) := by
  have hsn : svStType h.state = none := by rw [hs]; rfl
  have hoth : k.parsed hv = true → β := hL.other (by rw [hsn]; intro hh; cases hh)
  unfold hlName
  simp only
  cases hj : b[skipTokenDelim b i 58]? with
  | none => exact svs_done_same _ hL hB2 (fun he => by cases he) (fun _ => hL)
  | some c =>
    simp only
    by_cases hw : isWS c = true
    · simp only [hw, ↓reduceIte]
      split
      · exact svs_bad _ _
      · exact ⟨rfl, hL.move rfl rfl hsn (fun g => by rcases g with g | g | g <;> cases g)⟩
    · simp only [hw, Bool.false_eq_true, ↓reduceIte]
      by_cases h58 : (c == 58) = true
      · simp only [h58, ↓reduceIte]
        split
        · exact svs_bad _ _
        · exact svs_afterColon k β b _ _ hv rfl hoth hB2
      · simp only [h58, Bool.false_eq_true, ↓reduceIte]
        exact svs_bad _ _

theorem svs_hlValEnd (k : SvKind) (β : Prop) (b : Buf) (i : Nat) (h : Hdr) (hv : PHdrVals) (hL : SvLine k β h hv)
    (hs : svG3 h.state) (hB2 : β → k.parsed hv = true) : SvStepSpec k β hv (hlValEnd b i h (some hv)) := by
  have hsn : svStType h.state = none := svG3_stType hs
  unfold hlValEnd
  rcases hsk : skipLWS b i 0 with ⟨n1, crl, e⟩
  rcases skipLWS_verdicts b i 0 hsk with rfl | rfl | rfl | rfl <;> simp only
  · exact ⟨rfl, hL.move rfl rfl hsn (fun _ => hs)⟩
  · exact svs_done_same _ hL hB2 (fun _ => ⟨hs, rfl⟩) (fun he => by cases he)
  · exact svs_done_same _ hL hB2 (fun he => by cases he) (fun he => by cases he)
  · exact svs_done_same _ hL hB2 (fun he => by cases he) (fun _ => hL)

/-- **one step of ParseHdrLine** -/
theorem svs_hlStep (k : SvKind) (β : Prop) (b : Buf) (i : Nat) (c : UInt8) (h : Hdr) (hv : PHdrVals)
    (hL : SvLine k β h hv) (hB2 : β → k.parsed hv = true) : SvStepSpec k β hv (hlStep b i c (h, some hv)) := by
  unfold hlStep
  simp only
  cases hst : h.state <;> simp only
  case init =>
    have hsn : svStType h.state = none := by rw [hst]; rfl
    have hemp : ∀ n, SvStepSpec k β hv (.done n .empty ({ h with state := .fin }, some hv)) :=
      fun n => svs_done_same n hL hB2 (fun he => by cases he) (fun he => by cases he)
    split
    · split
      · exact svs_done_same _ hL hB2 (fun he => by cases he) (fun _ => hL)
      · split <;> exact hemp _
    · split
      · exact hemp _
      · exact svs_hlName k β b i _ hv
          (hL.move rfl rfl hsn (fun g => by rcases g with g | g | g <;> cases g)) rfl hB2
  case name => exact svs_hlName k β b i h hv hL hst hB2
  case nameEnd =>
    have hsn : svStType h.state = none := by rw [hst]; rfl
    split
    · exact svs_done_same _ hL hB2 (fun he => by cases he) (fun _ => hL)
    · split
      · exact svs_afterColon k β b _ _ hv rfl (hL.other (by rw [hsn]; intro hh; cases hh)) hB2
      · exact svs_bad _ _
  case bodyStart =>
    have hs : svG3 h.state := Or.inl hst
    have hsn : svStType h.state = none := svG3_stType hs
    rcases hsk : skipLWS b i 0 with ⟨n1, crl, e⟩
    rcases skipLWS_verdicts b i 0 hsk with rfl | rfl | rfl | rfl <;> simp only
    · exact ⟨rfl, hL.move rfl rfl hsn (fun _ => hs)⟩
    · exact svs_done_same _ hL hB2 (fun _ => ⟨hs, rfl⟩) (fun he => by cases he)
    · exact svs_done_same _ hL hB2 (fun he => by cases he) (fun he => by cases he)
    · exact svs_done_same _ hL hB2 (fun he => by cases he) (fun _ => hL)
  case val =>
    have hs : svG3 h.state := Or.inr (Or.inl hst)
    have hsn : svStType h.state = none := svG3_stType hs
    split
    · exact svs_done_same _ hL hB2 (fun he => by cases he) (fun _ => hL)
    · exact svs_hlValEnd k β b _ _ hv (hL.move rfl rfl hsn (fun _ => hs)) (Or.inr (Or.inr rfl)) hB2
  case valEnd => exact svs_hlValEnd k β b i h hv hL (Or.inr (Or.inr hst)) hB2
  case fin => exact svs_done_same _ hL hB2 (fun he => by cases he) (fun he => by cases he)
  all_goals
    (have hty : ∃ ty, svStType h.state = some ty := by rw [hst]; exact ⟨_, rfl⟩
     obtain ⟨ty, hsty⟩ := hty
     obtain ⟨n, e, V, hv2, hc, hU⟩ := svl_hlCont b i h hv ty hsty
     rw [hc]
     refine ⟨hv2, rfl, svp_typed hsty hU ?_ ?_ ?_ (fun hk => hL.own (by rw [hsty, hk])) (fun hk => hL.other (by
       rw [hsty]; intro hh; cases hh; exact hk rfl))⟩
     · show (if (e == Err.ok) = true then _ else _ : Hdr).type = _
       split
       · exact hL.ty ty hsty
       · exact hL.ty ty hsty
     · intro he; subst he; rfl
     · intro he
       have : (e == Err.ok) = false := by simpa using he
       simp only [this, Bool.false_eq_true, ↓reduceIte])

theorem svp_err {k : SvKind} {β : Prop} {hv : PHdrVals} {e : Err} (h' : Hdr) (h1 : e ≠ .ok) (h2 : e ≠ .moreBytes) :
    SvPost k β hv e h' hv :=
  ⟨fun _ => ⟨rfl, rfl⟩, (fun he => absurd he h1), (fun he => absurd he h1), (fun he => absurd he h1),
    (fun he => absurd he h2)⟩

/-- **ParseHdrLine with a values object, from ANY state of the header object**, relative to kind `k` -/
theorem svl_parseHdrLine (k : SvKind) (β : Prop) (b : Buf) (o : Nat) (h : Hdr) (hv : PHdrVals)
    (hL : SvLine k β h hv) (hB2 : β → k.parsed hv = true) :
    ∃ hv', (parseHdrLine b o h (some hv)).2.2.2 = some hv' ∧
      SvPost k β hv (parseHdrLine b o h (some hv)).2.1 (parseHdrLine b o h (some hv)).2.2.1 hv' := by
  have key := runLoop_inv hlMachine b (fun _ st => st.2 = some hv ∧ SvLine k β st.1 hv)
    (fun r => ∃ hv', r.2.2.2 = some hv' ∧ SvPost k β hv r.2.1 r.2.2.1 hv')
    (by
      intro i c st i' st' _ hP hs
      obtain ⟨g, gb⟩ := st
      obtain ⟨hP1, hP2⟩ := hP
      simp only at hP1 hP2
      subst hP1
      have := svs_hlStep k β b i c g hv hP2 hB2
      rw [show hlMachine.step b i c (g, some hv) = hlStep b i c (g, some hv) from rfl] at hs
      rw [hs] at this
      exact ⟨fun _ => this, fun _ => ⟨hv, this.1, svp_err _ (fun hh => by cases hh) (fun hh => by cases hh)⟩⟩)
    (by
      intro i c st o2 e2 st2 _ hP hs
      obtain ⟨g, gb⟩ := st
      obtain ⟨hP1, hP2⟩ := hP
      simp only at hP1 hP2
      subst hP1
      have := svs_hlStep k β b i c g hv hP2 hB2
      rw [show hlMachine.step b i c (g, some hv) = hlStep b i c (g, some hv) from rfl] at hs
      rw [hs] at this
      exact this)
    (by
      intro i st _ hP
      exact ⟨hv, hP.1, ⟨fun _ => ⟨rfl, rfl⟩, (fun he => by cases he), (fun he => by cases he),
        (fun he => by cases he), (fun _ => hP.2)⟩⟩)
    o (h, some hv) ⟨rfl, hL⟩
  unfold parseHdrLine
  rcases hrl : runLoop hlMachine b o (h, some hv) with ⟨o1, e1, h1, hb1⟩
  rw [hrl] at key
  exact key

/-! ### (2c) the header block: the first stored header of the kind's type carries the shortcut's span -/

/-- the flag of the kind's type is set in the list object: a header of that type has been accepted -/
def svBit (k : SvKind) (hl : HdrLst) : Prop := hl.pflags.testBit k.type = true

theorem svk_type_lt (k : SvKind) : k.type < 16 := by cases k <;> decide

/-- block-level facts relative to kind `k` -/
structure SvBlk (k : SvKind) (hl : HdrLst) (hv : PHdrVals) : Prop where
  /-- **the first stored header of the type has the span of the shortcut object as its value** -/
  b1 : ∀ j, j < hl.n → j < hl.hdrs.size → hl.hdrs[j]!.type = k.type →
        (∀ i, i < j → hl.hdrs[i]!.type ≠ k.type) → hl.hdrs[j]!.val = k.span hv
  /-- a header of the type was accepted: the shortcut object is parsed -/
  b2 : svBit k hl → k.parsed hv = true
  /-- a header of the type was accepted: one is stored, or the array was full by then -/
  b3 : svBit k hl → (∃ j, j < hl.n ∧ j < hl.hdrs.size ∧ hl.hdrs[j]!.type = k.type) ∨ hl.hdrs.size ≤ hl.n
  /-- a stored header of the type has its flag set -/
  b4 : ∀ j, j < hl.n → j < hl.hdrs.size → hl.hdrs[j]!.type = k.type → svBit k hl

theorem svBit_setCur (k : SvKind) (hl : HdrLst) (g : Hdr) : svBit k (hl.setCur g) ↔ svBit k hl := by
  unfold svBit; rw [(hlSetCur_scalars hl g).1]

theorem svBit_accept (k : SvKind) (hl : HdrLst) (g : Hdr) :
    svBit k ((hl.setCur g).accept g) ↔ (svBit k hl ∨ g.type = k.type) := by
  unfold svBit
  rw [accept_pflags, (hlSetCur_scalars hl g).1, svc_testBit_or _ _ _ (svk_type_lt k)]
  simp

/-- the current header is replaced (end of block, or suspension), values object changed as a line may change it -/
theorem SvBlk.setCur {k : SvKind} {hl : HdrLst} {hv hv' : PHdrVals} (H : SvBlk k hl hv) (g : Hdr)
    (keep : svBit k hl → k.parsed hv' = k.parsed hv ∧ k.span hv' = k.span hv) : SvBlk k (hl.setCur g) hv' := by
  have hget : ∀ j, j < hl.n → (hl.setCur g).hdrs[j]! = hl.hdrs[j]! := fun j hj => hlSetCur_ne hl g j (by omega)
  refine ⟨fun j h1 h2 ht hf => ?_, fun hb => ?_, fun hb => ?_, fun j h1 h2 ht => ?_⟩
  · rw [hlSetCur_n] at h1; rw [hlSetCur_size] at h2
    rw [hget j h1] at ht ⊢
    have hbit := H.b4 j h1 h2 ht
    rw [(keep hbit).2]
    exact H.b1 j h1 h2 ht (fun i hi => by rw [← hget i (by omega)]; exact hf i hi)
  · have hb' := (svBit_setCur k hl g).mp hb
    rw [(keep hb').1]; exact H.b2 hb'
  · have hb' := (svBit_setCur k hl g).mp hb
    rw [hlSetCur_n, hlSetCur_size]
    rcases H.b3 hb' with ⟨j, h1, h2, h3⟩ | h
    · exact Or.inl ⟨j, h1, h2, by rw [hget j h1]; exact h3⟩
    · exact Or.inr h
  · rw [hlSetCur_n] at h1; rw [hlSetCur_size] at h2
    rw [hget j h1] at ht
    exact (svBit_setCur k hl g).mpr (H.b4 j h1 h2 ht)

/-- a header is accepted -/
theorem SvBlk.next {k : SvKind} {hl : HdrLst} {hv hv' : PHdrVals} (H : SvBlk k hl hv) (g : Hdr)
    (P : SvPost k (svBit k hl) hv .ok g hv') : SvBlk k ((hl.setCur g).accept g) hv' := by
  have hn : ((hl.setCur g).accept g).n = hl.n + 1 := by rw [accept_n, hlSetCur_n]
  have hs : ((hl.setCur g).accept g).hdrs.size = hl.hdrs.size := by rw [accept_hdrs, hlSetCur_size]
  have hget : ∀ j, j < hl.n → ((hl.setCur g).accept g).hdrs[j]! = hl.hdrs[j]! := fun j hj => by
    rw [accept_hdrs]; exact hlSetCur_ne hl g j (by omega)
  have hgetn : hl.n < hl.hdrs.size → ((hl.setCur g).accept g).hdrs[hl.n]! = g := fun hin => by
    rw [accept_hdrs]; exact hlSetCur_get_n hl g hin
  refine ⟨fun j h1 h2 ht hf => ?_, fun hb => ?_, fun hb => ?_, fun j h1 h2 ht => ?_⟩
  · rw [hn] at h1; rw [hs] at h2
    rcases Nat.lt_or_ge j hl.n with hlt | hge
    · rw [hget j hlt] at ht ⊢
      have hbit := H.b4 j hlt h2 ht
      rw [(P.keep hbit).2]
      exact H.b1 j hlt h2 ht (fun i hi => by rw [← hget i (by omega)]; exact hf i hi)
    · have hj : j = hl.n := by omega
      subst hj
      rw [hgetn h2] at ht ⊢
      have hnb : ¬ svBit k hl := by
        intro hb
        rcases H.b3 hb with ⟨i, h1', _, h3'⟩ | h
        · exact hf i h1' (by rw [hget i h1']; exact h3')
        · omega
      exact P.ok3 rfl ht hnb
  · rcases (svBit_accept k hl g).mp hb with hb' | ht
    · rw [(P.keep hb').1]; exact H.b2 hb'
    · exact P.ok2 rfl ht
  · rw [hn, hs]
    rcases (svBit_accept k hl g).mp hb with hb' | ht
    · rcases H.b3 hb' with ⟨j, h1, h2, h3⟩ | h
      · exact Or.inl ⟨j, by omega, h2, by rw [hget j h1]; exact h3⟩
      · exact Or.inr (by omega)
    · by_cases hin : hl.n < hl.hdrs.size
      · exact Or.inl ⟨hl.n, by omega, hin, by rw [hgetn hin]; exact ht⟩
      · exact Or.inr (by omega)
  · rw [hn] at h1; rw [hs] at h2
    apply (svBit_accept k hl g).mpr
    rcases Nat.lt_or_ge j hl.n with hlt | hge
    · rw [hget j hlt] at ht; exact Or.inl (H.b4 j hlt h2 ht)
    · have hj : j = hl.n := by omega
      subst hj
      rw [hgetn h2] at ht; exact Or.inr ht

/-- the whole invariant of ParseHeaders between two calls: the block facts, a clean list object, and the line facts of
    the header in progress -/
def SvInv (k : SvKind) (hl : HdrLst) (hv : PHdrVals) : Prop :=
  SvBlk k hl hv ∧ HlsClean hl ∧ SvLine k (svBit k hl) hl.cur hv

theorem HlsClean.setCur' {hl : HdrLst} (hc : HlsClean hl) (g : Hdr) : HlsClean (hl.setCur g) := by
  refine ⟨fun j h1 h2 => ?_, fun h1 => ?_⟩
  · rw [hlSetCur_n] at h1; rw [hlSetCur_size] at h2
    rw [hlSetCur_ne hl g j (by omega)]; exact hc.1 j h1 h2
  · rw [hlSetCur_n, hlSetCur_size] at h1
    rw [hlSetCur_hdr_in hl g h1]; exact hc.2 h1

/-- a new header object: nothing in progress -/
theorem SvLine.new {k : SvKind} {β : Prop} {hv : PHdrVals} (h : k.parsed hv = true → β) : SvLine k β {} hv :=
  ⟨(fun t ht => by cases ht), (fun ht => by cases ht), (fun _ hp => h hp),
   (fun g => by rcases g with g | g | g <;> cases g)⟩

/-- **ParseHeaders with a values object keeps the invariant**: after OK the block facts hold of the result; after
    MoreBytes the whole invariant holds again (so the next call may continue) — any buffer, any offset -/
theorem svb_parseHeaders (k : SvKind) (b : Buf) (offs : Nat) (hl : HdrLst) (hv : PHdrVals) (H : SvInv k hl hv) :
    ∃ hv', (parseHeaders b offs hl (some hv)).2.2.2 = some hv' ∧
      ((parseHeaders b offs hl (some hv)).2.1 = .ok → SvBlk k (parseHeaders b offs hl (some hv)).2.2.1 hv') ∧
      ((parseHeaders b offs hl (some hv)).2.1 = .moreBytes → SvInv k (parseHeaders b offs hl (some hv)).2.2.1 hv') := by
  induction hk : b.size - offs using Nat.strongRecOn generalizing offs hl hv with
  | _ n ih =>
    rw [parseHeaders.eq_1 b offs hl (some hv)]
    by_cases hlt : offs < b.size
    · rw [if_pos hlt]
      obtain ⟨hB, hC, hL⟩ := H
      obtain ⟨hv1, hv1e, hP⟩ := svl_parseHdrLine k (svBit k hl) b offs hl.cur hv hL hB.b2
      rcases hp1 : parseHdrLine b offs hl.cur (some hv) with ⟨n1, e1, g1, v1⟩
      rw [hp1] at hv1e hP
      simp only at hv1e hP
      subst hv1e
      cases e1 <;> simp only
      case ok =>
        by_cases hg : offs < n1
        · rw [if_pos hg]
          have hcl := accept_clean hl g1 hC
          refine ih (b.size - n1) (by omega) n1 _ hv1 ⟨hB.next g1 hP, hcl.1, ?_⟩ rfl
          rw [hcl.2]
          exact SvLine.new (fun hp => (svBit_accept k hl g1).mpr (hP.ok4 rfl hp))
        · rw [if_neg hg]
          exact ⟨hv1, rfl, (fun hh => by cases hh), (fun hh => by cases hh)⟩
      case empty =>
        split
        · exact ⟨hv1, rfl, fun _ => hB.setCur g1 hP.keep, (fun hh => by cases hh)⟩
        · exact ⟨hv1, rfl, (fun hh => by cases hh), (fun hh => by cases hh)⟩
      case moreBytes =>
        refine ⟨hv1, rfl, (fun hh => by cases hh), fun _ => ⟨hB.setCur g1 hP.keep, hC.setCur' g1, ?_⟩⟩
        rw [hlSetCur_cur]
        have hm := hP.more rfl
        exact ⟨hm.ty, (fun ht hb => hm.own ht ((svBit_setCur k hl g1).mp hb)),
          (fun ht hp => (svBit_setCur k hl g1).mpr (hm.other ht hp)),
          (fun g ht => (svBit_setCur k hl g1).mpr (hm.gen g ht))⟩
      all_goals exact ⟨hv1, rfl, (fun hh => by cases hh), (fun hh => by cases hh)⟩
    · rw [if_neg hlt]
      exact ⟨hv, rfl, (fun hh => by cases hh), fun _ => H⟩

/-! ### (2d) the message object -/

/-- the invariant of the message object relative to kind `k`: while the header section is not finished, the invariant
    of ParseHeaders; once it is, the block facts. (Nothing is claimed in the error states: the object must be Reset.) -/
def SvMsg (k : SvKind) (m : PSIPMsg) : Prop :=
  ((m.state = .init ∨ m.state = .fline ∨ m.state = .headers) → SvInv k m.hl m.pv) ∧
  ((m.state = .body ∨ m.state = .fin) → SvBlk k m.hl m.pv)

theorem SvMsg_of_inv {k : SvKind} {m : PSIPMsg} (hT : SvInv k m.hl m.pv) (hs : m.state ≠ .body ∧ m.state ≠ .fin) :
    SvMsg k m :=
  ⟨fun _ => hT, fun h => by rcases h with h | h; exact absurd h hs.1; exact absurd h hs.2⟩

theorem SvMsg_of_blk {k : SvKind} {m : PSIPMsg} (hD : SvBlk k m.hl m.pv)
    (hs : m.state ≠ .init ∧ m.state ≠ .fline ∧ m.state ≠ .headers) : SvMsg k m :=
  ⟨fun h => by rcases h with h | h | h; exact absurd h hs.1; exact absurd h hs.2.1; exact absurd h hs.2.2, fun _ => hD⟩

theorem SvMsg_of_err {k : SvKind} {m : PSIPMsg} (hs : m.state = .err ∨ m.state = .noCLen) : SvMsg k m := by
  refine ⟨fun h => ?_, fun h => ?_⟩
  · rcases hs with hs | hs <;> rw [hs] at h <;> rcases h with h | h | h <;> cases h
  · rcases hs with hs | hs <;> rw [hs] at h <;> rcases h with h | h <;> cases h

theorem svm_msgErr (k : SvKind) (m : PSIPMsg) (o : Nat) (e : Err) (flags : Nat) (H : e = .moreBytes → SvMsg k m) :
    SvMsg k (msgErr m o e flags).2.2 ∧ ((msgErr m o e flags).2.1 = .ok → e = .ok) := by
  unfold msgErr
  split
  · exact ⟨SvMsg_of_err (Or.inl rfl), fun h => h⟩
  · rename_i hne
    have he : e = .moreBytes := by simpa using hne
    split
    · exact ⟨SvMsg_of_err (Or.inl rfl), fun h => by cases h⟩
    · exact ⟨H he, fun h => h⟩

theorem svm_msgBody (k : SvKind) (b : Buf) (o : Nat) (m : PSIPMsg) (flags : Nat) (hD : SvBlk k m.hl m.pv)
    (hst : m.state = .body) :
    SvMsg k (msgBody b o m flags).2.2 ∧ SvBlk k (msgBody b o m flags).2.2.hl (msgBody b o m flags).2.2.pv := by
  have hhl := msgBody_done_pv b o m flags
  have hD' : SvBlk k (msgBody b o m flags).2.2.hl (msgBody b o m flags).2.2.pv := by rw [hhl.1, hhl.2]; exact hD
  refine ⟨SvMsg_of_blk hD' ?_, hD'⟩
  rcases sc_msgBody_state b o m flags hst with h | h | h <;> rw [h] <;>
    exact ⟨(fun hh => by cases hh), (fun hh => by cases hh), (fun hh => by cases hh)⟩

theorem svm_msgHeaders (k : SvKind) (b : Buf) (o : Nat) (m : PSIPMsg) (flags : Nat) (H : SvInv k m.hl m.pv)
    (hst : m.state = .headers) :
    SvMsg k (msgHeaders b o m flags).2.2 ∧
    ((msgHeaders b o m flags).2.1 = .ok →
      SvBlk k (msgHeaders b o m flags).2.2.hl (msgHeaders b o m flags).2.2.pv) := by
  unfold msgHeaders
  obtain ⟨hv', hve, hph⟩ := svb_parseHeaders k b o m.hl m.pv H
  rcases hp : parseHeaders b o m.hl (some m.pv) with ⟨o1, e1, hl1, hb1⟩
  rw [hp] at hve hph
  simp only at hve hph
  subst hve
  have hsb : m.state ≠ .body ∧ m.state ≠ .fin := by
    rw [hst]; exact ⟨(fun hh => by cases hh), (fun hh => by cases hh)⟩
  have herr : ∀ e, e ≠ .ok → (e = .moreBytes → SvInv k hl1 hv') →
      SvMsg k (msgErr { m with hl := hl1, pv := (some hv').getD m.pv } o1 e flags).2.2 ∧
      ((msgErr { m with hl := hl1, pv := (some hv').getD m.pv } o1 e flags).2.1 = .ok →
        SvBlk k (msgErr { m with hl := hl1, pv := (some hv').getD m.pv } o1 e flags).2.2.hl
          (msgErr { m with hl := hl1, pv := (some hv').getD m.pv } o1 e flags).2.2.pv) := by
    intro e hne hT
    have := svm_msgErr k { m with hl := hl1, pv := (some hv').getD m.pv } o1 e flags
      (fun he => SvMsg_of_inv (hT he) hsb)
    exact ⟨this.1, fun hh => absurd (this.2 hh) hne⟩
  cases e1 <;> simp only
  case ok =>
    have := svm_msgBody k b o1 { m with hl := hl1, pv := (some hv').getD m.pv, state := .body } flags (hph.1 rfl) rfl
    exact ⟨this.1, fun _ => this.2⟩
  case moreBytes => exact herr _ (by decide) (fun _ => hph.2 rfl)
  all_goals exact herr _ (by decide) (fun hh => by cases hh)

theorem svm_msgFLine (k : SvKind) (b : Buf) (o : Nat) (m : PSIPMsg) (flags : Nat) (H : SvInv k m.hl m.pv)
    (hst : m.state = .fline) :
    SvMsg k (msgFLine b o m flags).2.2 ∧
    ((msgFLine b o m flags).2.1 = .ok → SvBlk k (msgFLine b o m flags).2.2.hl (msgFLine b o m flags).2.2.pv) := by
  unfold msgFLine
  rcases hp : parseFLine b o m.fl with ⟨o1, e1, fl1⟩
  have hsb : m.state ≠ .body ∧ m.state ≠ .fin := by
    rw [hst]; exact ⟨(fun hh => by cases hh), (fun hh => by cases hh)⟩
  have herr : ∀ e, e ≠ .ok →
      SvMsg k (msgErr { m with fl := fl1 } o1 e flags).2.2 ∧
      ((msgErr { m with fl := fl1 } o1 e flags).2.1 = .ok →
        SvBlk k (msgErr { m with fl := fl1 } o1 e flags).2.2.hl (msgErr { m with fl := fl1 } o1 e flags).2.2.pv) := by
    intro e hne
    have := svm_msgErr k { m with fl := fl1 } o1 e flags (fun _ => SvMsg_of_inv H hsb)
    exact ⟨this.1, fun hh => absurd (this.2 hh) hne⟩
  cases e1 <;> simp only
  case ok => exact svm_msgHeaders k b o1 { m with fl := fl1, state := .headers } flags H rfl
  all_goals exact herr _ (by decide)

/-- **every ParseSIPMsg call keeps the invariant** — any buffer, offset, flags, verdict — and after OK the block facts
    hold of the returned object -/
theorem svm_parseSIPMsg (k : SvKind) (b : Buf) (o : Nat) (m : PSIPMsg) (flags : Nat) (H : SvMsg k m) :
    SvMsg k (parseSIPMsg b o m flags).2.2 ∧
    ((parseSIPMsg b o m flags).2.1 = .ok →
      SvBlk k (parseSIPMsg b o m flags).2.2.hl (parseSIPMsg b o m flags).2.2.pv) := by
  unfold parseSIPMsg
  cases hst : m.state <;> simp only
  case init =>
    exact svm_msgFLine k b o { m with offs := o, state := .fline } flags (H.1 (Or.inl hst)) rfl
  case fline => exact svm_msgFLine k b o m flags (H.1 (Or.inr (Or.inl hst))) hst
  case headers => exact svm_msgHeaders k b o m flags (H.1 (Or.inr (Or.inr hst))) hst
  case body =>
    have := svm_msgBody k b o m flags (H.2 (Or.inl hst)) hst
    exact ⟨this.1, fun _ => this.2⟩
  all_goals
    (have := svm_msgErr k m o .bug flags (fun hh => by cases hh)
     exact ⟨this.1, fun hh => by cases this.2 hh⟩)

/-- a list object with no header accepted and a values object with nothing parsed -/
theorem SvInv_start (k : SvKind) (hl : HdrLst) (hv : PHdrVals) (hn : hl.n = 0) (hp : hl.pflags = 0)
    (hc : HlsClean hl) (hcur : hl.cur = {}) (hnp : k.parsed hv = false) : SvInv k hl hv := by
  have hnb : ¬ svBit k hl := by unfold svBit; rw [hp]; simp
  refine ⟨⟨(fun j h1 => by rw [hn] at h1; cases h1), (fun hb => absurd hb hnb), (fun hb => absurd hb hnb),
    (fun j h1 => by rw [hn] at h1; cases h1)⟩, hc, ?_⟩
  rw [hcur]
  exact SvLine.new (fun hp' => by rw [hnp] at hp'; cases hp')

theorem SvMsg_new (k : SvKind) (len kh kc : Nat) : SvMsg k (initObj len kh kc) := by
  refine SvMsg_of_inv (SvInv_start k _ _ rfl rfl (hsNew_ok kh).1 (hsNew_ok kh).2 (by cases k <;> rfl))
    ⟨(fun hh => by cases hh), (fun hh => by cases hh)⟩

/-- every object produced by Init (whatever it held before; caller arrays of any capacity, cleared, or none) -/
theorem SvMsg_init (k : SvKind) (m0 : PSIPMsg) (len kh kc : Nat) (hdrs cts : Option Unit) :
    SvMsg k (m0.init len (hdrs.map fun _ => Array.replicate kh {}) (cts.map fun _ => Array.replicate kc {})) := by
  have hs : MsgState.init ≠ .body ∧ MsgState.init ≠ .fin := ⟨(fun hh => by cases hh), (fun hh => by cases hh)⟩
  cases hdrs with
  | none => exact SvMsg_of_inv (SvInv_start k _ _ rfl rfl (hsNew_ok 10).1 (hsNew_ok 10).2 (by cases k <;> rfl)) hs
  | some _ => exact SvMsg_of_inv (SvInv_start k _ _ rfl rfl (hsNew_ok kh).1 (hsNew_ok kh).2 (by cases k <;> rfl)) hs

/-- every object produced by Reset, whatever it held before -/
theorem SvMsg_reset (k : SvKind) (m : PSIPMsg) : SvMsg k m.reset := by
  have hs : MsgState.init ≠ .body ∧ MsgState.init ≠ .fin := ⟨(fun hh => by cases hh), (fun hh => by cases hh)⟩
  have hre : m.reset.hl = hsNew m.hl.hdrs.size := by
    show ({ hdrs := (m.hl.reset).hdrs } : HdrLst) = { hdrs := Array.replicate m.hl.hdrs.size {} }
    show ({ hdrs := m.hl.hdrs.map (fun _ => {}) } : HdrLst) = { hdrs := Array.replicate m.hl.hdrs.size {} }
    rw [sc_map_const]
  refine SvMsg_of_inv ?_ hs
  rw [hre]
  exact SvInv_start k _ _ rfl rfl (hsNew_ok _).1 (hsNew_ok _).2 (by cases k <;> rfl)

/-- **at every point of every history of a message object** -/
theorem ScReach.svMsg (k : SvKind) {m : PSIPMsg} (h : ScReach m) : SvMsg k m := by
  induction h with
  | new =>
    exact SvMsg_of_inv (SvInv_start k _ _ rfl rfl (hsNew_ok 0).1 (hsNew_ok 0).2 (by cases k <;> rfl))
      ⟨(fun hh => by cases hh), (fun hh => by cases hh)⟩
  | init m0 len kh kc hdrs cts => exact SvMsg_init k m0 len kh kc hdrs cts
  | @reset m _ _ => exact SvMsg_reset k m
  | parse b o flags _ ih => exact (svm_parseSIPMsg k b o _ flags ih).1

/-! ### (2e) [C05] the shortcut values equal the value of the first stored header of their type -/

/-- `j` is the index of the first stored header of type `t` of the list object (counted and within the array) -/
def SvFirstOf (hl : HdrLst) (t j : Nat) : Prop :=
  j < hl.n ∧ j < hl.hdrs.size ∧ hl.hdrs[j]!.type = t ∧ ∀ i, i < j → hl.hdrs[i]!.type ≠ t

/-- **kind by kind**: in the object returned by a successful ParseSIPMsg call — after ANY history of the object it was
    called on (`SvParsed`), in particular after any chunk schedule from Init with any capacities; no size bound — if a
    header of the kind's type is stored, the shortcut object of the kind is parsed and the `val` of the FIRST stored
    header of that type EQUALS the span the shortcut object reports -/
theorem shortcut_eq_first_header (k : SvKind) (m : PSIPMsg) (hp : SvParsed m) (j : Nat)
    (hj : SvFirstOf m.hl k.type j) : k.parsed m.pv = true ∧ m.hl.hdrs[j]!.val = k.span m.pv := by
  obtain ⟨b, o, m0, flags, o', hR, hr⟩ := hp
  have h := (svm_parseSIPMsg k b o m0 flags (hR.svMsg k)).2
  rw [hr] at h
  have hB : SvBlk k m.hl m.pv := h rfl
  exact ⟨hB.b2 (hB.b4 j hj.1 hj.2.1 hj.2.2.1), hB.b1 j hj.1 hj.2.1 hj.2.2.1 hj.2.2.2⟩

/-- a header of the kind's type was accepted (its type flag is set — also when the array was too small to store it):
    the shortcut object is parsed -/
theorem shortcut_parsed_of_flag (k : SvKind) (m : PSIPMsg) (hp : SvParsed m)
    (hf : m.hl.pflags.testBit k.type = true) : k.parsed m.pv = true := by
  obtain ⟨b, o, m0, flags, o', hR, hr⟩ := hp
  have h := (svm_parseSIPMsg k b o m0 flags (hR.svMsg k)).2
  rw [hr] at h
  exact (h rfl).b2 hf

/-- **[C05] the six shortcut values, spelled out**: From, To, Call-ID, CSeq, Content-Length, Expires -/
theorem shortcut_values_eq (m : PSIPMsg) (hp : SvParsed m) :
    (∀ j, SvFirstOf m.hl HdrFrom j → m.pv.from_.parsed = true ∧ m.hl.hdrs[j]!.val = m.pv.from_.v) ∧
    (∀ j, SvFirstOf m.hl HdrTo j → m.pv.to.parsed = true ∧ m.hl.hdrs[j]!.val = m.pv.to.v) ∧
    (∀ j, SvFirstOf m.hl HdrCallID j → m.pv.callid.parsed = true ∧ m.hl.hdrs[j]!.val = m.pv.callid.callID) ∧
    (∀ j, SvFirstOf m.hl HdrCSeq j → m.pv.cseq.parsed = true ∧ m.hl.hdrs[j]!.val = m.pv.cseq.v) ∧
    (∀ j, SvFirstOf m.hl HdrCLen j → m.pv.clen.parsed = true ∧ m.hl.hdrs[j]!.val = m.pv.clen.sVal) ∧
    (∀ j, SvFirstOf m.hl HdrExpires j → m.pv.expires.parsed = true ∧ m.hl.hdrs[j]!.val = m.pv.expires.sVal) :=
  ⟨shortcut_eq_first_header .from_ m hp, shortcut_eq_first_header .to m hp, shortcut_eq_first_header .callid m hp,
   shortcut_eq_first_header .cseq m hp, shortcut_eq_first_header .clen m hp, shortcut_eq_first_header .expires m hp⟩

/-- … after the first call on an Init object -/
theorem shortcut_values_eq_init (b : Buf) (o : Nat) (m0 : PSIPMsg) (len kh kc : Nat) (hdrs cts : Option Unit)
    (flags : Nat) {o' : Nat} {m' : PSIPMsg}
    (hr : parseSIPMsg b o (m0.init len (hdrs.map fun _ => Array.replicate kh {})
      (cts.map fun _ => Array.replicate kc {})) flags = (o', .ok, m')) (k : SvKind) (j : Nat)
    (hj : SvFirstOf m'.hl k.type j) : k.parsed m'.pv = true ∧ m'.hl.hdrs[j]!.val = k.span m'.pv :=
  shortcut_eq_first_header k m' (svParsed_init b o m0 len kh kc hdrs cts flags hr) j hj

/-- … after every chunk schedule from Init that ends with OK (any list of buffers) -/
theorem shortcut_values_eq_schedule_init (flags : Nat) (o : Nat) (m0 : PSIPMsg) (len kh kc : Nat)
    (hdrs cts : Option Unit) (l : List Buf) {o' : Nat} {m' : PSIPMsg}
    (hr : resumeRun (C01.msgP flags) o
      (m0.init len (hdrs.map fun _ => Array.replicate kh {}) (cts.map fun _ => Array.replicate kc {})) l = (o', .ok, m'))
    (k : SvKind) (j : Nat) (hj : SvFirstOf m'.hl k.type j) :
    k.parsed m'.pv = true ∧ m'.hl.hdrs[j]!.val = k.span m'.pv :=
  shortcut_eq_first_header k m' (svParsed_schedule_init flags o m0 len kh kc hdrs cts l hr) j hj

/-! ### tests / non-vacuity (closed computations by `decide +kernel`; these are examples, not the general claims) -/

/-- test message: a From with trailing blanks and a folded parameter, a second From, To, Call-ID, CSeq, Expires,
    Content-Length (7 headers) -/
def svTestMsg : Buf := "REGISTER sip:a@b SIP/2.0\r\nFrom: \"x\" <sip:a@b> ;tag=a-1  \r\nf: <sip:z@z>;tag=2\r\nTo: <sip:c@d>\r\nCall-ID:   x@1.2.3.4  \r\nCSeq: 17 REGISTER\r\nExpires: 300 \r\nContent-Length: 0\r\n\r\n".toUTF8.data

/-- the parsed message object, header array of `k` entries -/
def svTestM (k : Nat) : PSIPMsg :=
  (parseSIPMsg svTestMsg 0 (({} : PSIPMsg).init 0 ((some ()).map fun _ => Array.replicate k {})
    ((some ()).map fun _ => Array.replicate 2 {})) 0).2.2

/-- test: the hypothesis `SvParsed` holds of the parsed test message -/
theorem svTest_parsed : SvParsed (svTestM 8) := by
  have h : (parseSIPMsg svTestMsg 0 (({} : PSIPMsg).init 0 ((some ()).map fun _ => Array.replicate 8 {})
      ((some ()).map fun _ => Array.replicate 2 {})) 0).2.1 = .ok := by decide +kernel
  refine ⟨svTestMsg, 0, _, 0, (parseSIPMsg svTestMsg 0 (({} : PSIPMsg).init 0
    ((some ()).map fun _ => Array.replicate 8 {}) ((some ()).map fun _ => Array.replicate 2 {})) 0).1,
    ScReach.init {} 0 8 2 (some ()) (some ()), ?_⟩
  unfold svTestM
  generalize parseSIPMsg svTestMsg 0 (({} : PSIPMsg).init 0 ((some ()).map fun _ => Array.replicate 8 {})
      ((some ()).map fun _ => Array.replicate 2 {})) 0 = p at h ⊢
  obtain ⟨p1, p2, p3⟩ := p
  simp only at h
  subst h
  rfl

/-- test: the message parses, and the hypotheses `SvFirstOf` hold at the indices 0 (From), 2 (To), 3, 4, 5, 6 -/
example : (parseSIPMsg svTestMsg 0 (({} : PSIPMsg).init 0 ((some ()).map fun _ => Array.replicate 8 {})
    ((some ()).map fun _ => Array.replicate 2 {})) 0).2.1 = .ok ∧ (svTestM 8).hl.n = 7 ∧
    ((svTestM 8).hl.hdrs.toList.map (fun h => h.type)).take 7 =
      [HdrFrom, HdrFrom, HdrTo, HdrCallID, HdrCSeq, HdrExpires, HdrCLen] := by decide +kernel

/-- test: what the theorem says on it (the repeated From does not matter, trailing blanks are outside both spans) -/
example : (svTestM 8).hl.hdrs[0]!.val = (svTestM 8).pv.from_.v ∧ (svTestM 8).pv.from_.v = ⟨32, 22⟩ ∧
    (svTestM 8).hl.hdrs[1]!.val ≠ (svTestM 8).pv.from_.v ∧
    (svTestM 8).hl.hdrs[3]!.val = (svTestM 8).pv.callid.callID ∧ (svTestM 8).pv.callid.callID.len = 9 ∧
    (svTestM 8).hl.hdrs[4]!.val = (svTestM 8).pv.cseq.v ∧
    (svTestM 8).hl.hdrs[5]!.val = (svTestM 8).pv.expires.sVal ∧
    (svTestM 8).hl.hdrs[6]!.val = (svTestM 8).pv.clen.sVal := by decide +kernel

/-- use of the theorem on the test message: the To header (index 2, after the two From headers); the hypothesis
    `SvFirstOf` is checked by evaluation -/
example : (svTestM 8).pv.to.parsed = true ∧ (svTestM 8).hl.hdrs[2]!.val = (svTestM 8).pv.to.v :=
  shortcut_eq_first_header .to (svTestM 8) svTest_parsed 2 (by unfold SvFirstOf; decide +kernel)

/-- test: an array of 2 stores the two From headers only; To is parsed (flag set) but not stored -/
example : (svTestM 2).hl.n = 7 ∧ (svTestM 2).hl.hdrs.size = 2 ∧ (svTestM 2).pv.to.parsed = true ∧
    (svTestM 2).hl.hdrs[0]!.val = (svTestM 2).pv.from_.v := by decide +kernel

/-! ### (2f) [C05] Contact / P-Asserted-Identity: the running header value (`lastHVal`) covers the values of its line

  Proved (buffers within the 65,535-byte limit, any capacity, value list object idle = between two header lines): after
  the value list of ONE Contact (P-Asserted-Identity) header line was parsed with verdict OK, every value stored from
  that line lies inside the running header value `lastHVal` — which is what ParseHdrLine copies into the `val` of that
  header (`svc_parseBody_contact`, `svc_parseBody_pai`) — unless its `V` is empty.  The values stored before are
  untouched.  The statement for the whole message (association of every stored value with a stored header of the
  type) is NOT proved here. -/

/-- `v` lies inside the span `L` -/
def svInside (L v : PField) : Prop := L.offs ≤ v.offs ∧ v.offs + v.len ≤ L.offs + L.len

/-- one step of the `lastHVal` bookkeeping: the span ended at or before `o`, the new value lies in `[o, next)` -/
theorem sv_lhv_step (L v : PField) (o next : Nat) (hL : L.offs + L.len ≤ o) (h1 : o ≤ v.offs)
    (h2 : v.offs + v.len ≤ next) (h3 : next ≤ 65535) :
    (if L.isEmpty then v else L.extend v.endT).offs + (if L.isEmpty then v else L.extend v.endT).len ≤ next ∧
    svInside (if L.isEmpty then v else L.extend v.endT) v ∧
    (∀ f : PField, f.len = 0 ∨ svInside L f → f.len = 0 ∨ svInside (if L.isEmpty then v else L.extend v.endT) f) := by
  obtain ⟨lo, ll⟩ := L
  obtain ⟨vo, vl⟩ := v
  simp only at hL h1 h2
  by_cases he : ll = 0
  · subst he
    have hemp : (PField.isEmpty ⟨lo, 0⟩) = true := rfl
    simp only [hemp, ↓reduceIte]
    refine ⟨h2, ⟨Nat.le_refl _, Nat.le_refl _⟩, fun f hf => ?_⟩
    rcases hf with hf | ⟨hf1, hf2⟩
    · exact Or.inl hf
    · left
      have hf1' : lo ≤ f.offs := hf1
      have hf2' : f.offs + f.len ≤ lo + 0 := hf2
      omega
  · have hemp : (PField.isEmpty ⟨lo, ll⟩) = false := by
      unfold PField.isEmpty; simpa using he
    simp only [hemp, Bool.false_eq_true, ↓reduceIte]
    have hlen : ((PField.extend ⟨lo, ll⟩ (PField.endT ⟨vo, vl⟩)).len) = vo + vl - lo := by
      show (trunc16 (trunc16 (vo + vl)) + 65536 - lo) % 65536 = vo + vl - lo
      unfold trunc16
      omega
    have hoffs : ((PField.extend ⟨lo, ll⟩ (PField.endT ⟨vo, vl⟩)).offs) = lo := rfl
    refine ⟨by rw [hlen, hoffs]; omega, ⟨by rw [hoffs]; show lo ≤ vo; omega, by
      rw [hlen, hoffs]; show vo + vl ≤ lo + (vo + vl - lo); omega⟩, fun f hf => ?_⟩
    rcases hf with hf | ⟨hf1, hf2⟩
    · exact Or.inl hf
    · right
      have hf1' : lo ≤ f.offs := hf1
      have hf2' : f.offs + f.len ≤ lo + ll := hf2
      exact ⟨by rw [hoffs]; exact hf1', by rw [hlen, hoffs]; omega⟩

/-- the running header value ends at or before `o` and covers every value stored from index `n0` on (empty `V`s
    excepted) -/
def CtSpan (c : PContacts) (n0 o : Nat) : Prop :=
  c.lastHVal.offs + c.lastHVal.len ≤ o ∧
  ∀ i, n0 ≤ i → i < c.n → i < c.vals.size → c.vals[i]!.v.len = 0 ∨ svInside c.lastHVal c.vals[i]!.v

theorem CtSpan.step {c : PContacts} {n0 o : Nat} (H : CtSpan c n0 o) (pf : PFromBody) (next : Nat)
    (h1 : o ≤ pf.v.offs) (h2 : pf.v.offs + pf.v.len ≤ next) (h3 : next ≤ 65535) :
    CtSpan ((c.setCur pf).account pf) n0 next := by
  have hl : ((c.setCur pf).account pf).lastHVal =
      if c.lastHVal.isEmpty then pf.v else c.lastHVal.extend pf.v.endT := by
    rw [account_lhv, (setCur_scalars c pf).2.2.2.1]
  obtain ⟨q1, q2, q3⟩ := sv_lhv_step c.lastHVal pf.v o next H.1 h1 h2 h3
  refine ⟨by rw [hl]; exact q1, fun i hn hi hs => ?_⟩
  rw [account_n, setCur_n] at hi
  rw [account_vals, setCur_size] at hs
  rw [account_vals, hl]
  by_cases hin : i = c.n
  · subst hin
    rw [setCur_get_n c pf hs]
    exact Or.inr q2
  · rw [setCur_vals_ne c pf i (by omega)]
    exact q3 _ (H.2 i hn (by omega) hs)

/-- **the loop of ParseAllContactValues** on an idle object: after OK the running header value covers the values of
    this line and ends at or before the returned offset -/
theorem svc_contactsLoop (b : Buf) (offs : Nat) (c : PContacts) (hfit : b.size ≤ 65535) (ho : offs ≤ b.size)
    (hcl : CtClean c) (hcur : c.cur = {}) (n0 : Nat) (h : CtSpan c n0 offs) :
    (contactsLoop b offs c).2.1 = .ok → CtSpan (contactsLoop b offs c).2.2 n0 (contactsLoop b offs c).1 := by
  induction hk : b.size - offs using Nat.strongRecOn generalizing offs c with
  | _ k ih =>
    rw [contactsLoop]
    rcases hp : parseOneContact b offs c.cur with ⟨next, e1, pf⟩
    have hp' : parseNameAddrPVal HdrContact b offs {} = (next, e1, pf) := by rw [hcur] at hp; exact hp
    have hout := (parseNameAddrPVal_safe HdrContact b offs {} (NaEntry_new b offs ho) hp').1
    have hacc : Err.complete e1 → CtSpan ((c.setCur pf).account pf) n0 next := fun hc =>
      h.step pf next (parseNameAddrPVal_nest_new HdrContact b offs hfit ho hp' hc).2 hout.v (by have := hout.ho; omega)
    cases e1 <;> simp only
    case ok => exact fun _ => hacc (Or.inl rfl)
    case moreValues =>
      have hnx : (if c.n < c.vals.size then (c.setCur pf).account pf
          else { (c.setCur pf).account pf with last := {} }) = c.next pf := rfl
      rw [hnx]
      have hcl' := next_clean c pf hcl
      have hL : CtSpan (c.next pf) n0 next := by
        have := hacc (Or.inr rfl)
        unfold PContacts.next; split
        · exact this
        · exact this
      by_cases hg : offs < next ∧ next ≤ b.size
      · rw [if_pos hg]
        exact ih (b.size - next) (by omega) next (c.next pf) hg.2 hcl'.1 hcl'.2 hL rfl
      · rw [if_neg hg]; exact fun hh => by cases hh
    all_goals exact fun hh => by cases hh

/-- **one Contact header line** (value list object idle, any capacity; `k` = the new header count): after OK every value
    stored from this line — index `c.n` on — lies inside the running header value of the result (empty `V`s excepted),
    which ends at or before the returned offset -/
theorem svc_contact_line (b : Buf) (o : Nat) (c : PContacts) (k : Nat) (hfit : b.size ≤ 65535) (ho : o ≤ b.size)
    (hcl : CtClean c.wrap) (hcur : c.wrap.cur = {}) {o' : Nat} {c' : PContacts}
    (hr : parseAllContactValues b o { c with hNo := k, lastHVal := {} } = (o', .ok, c')) :
    c'.lastHVal.offs + c'.lastHVal.len ≤ o' ∧
    ∀ i, c.n ≤ i → i < c'.n → i < c'.vals.size → c'.vals[i]!.v.len = 0 ∨ svInside c'.lastHVal c'.vals[i]!.v := by
  rw [parseAllContactValues_eq_wrap, bump_wrap] at hr
  have h0 : CtSpan ({ c.wrap with hNo := k, lastHVal := {} } : PContacts) c.n o :=
    ⟨Nat.zero_le _, fun i hn hi _ => by
      have hi' : i < c.wrap.n := hi
      rw [(wrap_scalars c).1] at hi'; omega⟩
  have := svc_contactsLoop b o { c.wrap with hNo := k, lastHVal := {} } hfit ho hcl hcur c.n h0
  rw [hr] at this
  exact this rfl

/-- what the dispatch does for a header of type Contact that is not in the middle of its value list: the value list
    object gets a new header count and an empty running value, ParseAllContactValues runs, and on OK the header's
    `val` is the running header value of the result -/
theorem svc_parseBody_contact (b : Buf) (i : Nat) (h : Hdr) (hv : PHdrVals) (ht : h.type = HdrContact)
    (hs : h.state ≠ .hContact) :
    parseBody b i h (some hv) =
      ((parseAllContactValues b i { hv.contacts with hNo := hv.contacts.hNo + 1, lastHVal := {} }).1,
       (parseAllContactValues b i { hv.contacts with hNo := hv.contacts.hNo + 1, lastHVal := {} }).2.1,
       { h with state := .hContact,
                val := if (parseAllContactValues b i { hv.contacts with hNo := hv.contacts.hNo + 1, lastHVal := {} }).2.1 == .ok
                       then (parseAllContactValues b i { hv.contacts with hNo := hv.contacts.hNo + 1, lastHVal := {} }).2.2.lastHVal
                       else h.val },
       some { hv with contacts := (parseAllContactValues b i { hv.contacts with hNo := hv.contacts.hNo + 1, lastHVal := {} }).2.2 }) := by
  have hs' : (h.state != HState.hContact) = true := by simpa using hs
  unfold parseBody
  simp only [ht, hs', ↓reduceIte]
  rfl

/-- the same for the identity list -/
def PaSpan (c : PPAIs) (n0 o : Nat) : Prop :=
  c.lastHVal.offs + c.lastHVal.len ≤ o ∧
  ∀ i, n0 ≤ i → i < c.n → i < c.vals.size → c.vals[i]!.v.len = 0 ∨ svInside c.lastHVal c.vals[i]!.v

theorem PaSpan.step {c : PPAIs} {n0 o : Nat} (H : PaSpan c n0 o) (pf : PFromBody) (next : Nat)
    (h1 : o ≤ pf.v.offs) (h2 : pf.v.offs + pf.v.len ≤ next) (h3 : next ≤ 65535) :
    PaSpan ((c.setCur pf).account pf) n0 next := by
  have hl : ((c.setCur pf).account pf).lastHVal =
      if c.lastHVal.isEmpty then pf.v else c.lastHVal.extend pf.v.endT := by
    rw [paAccount_lhv, (paSetCur_scalars c pf).2.1]
  obtain ⟨q1, q2, q3⟩ := sv_lhv_step c.lastHVal pf.v o next H.1 h1 h2 h3
  refine ⟨by rw [hl]; exact q1, fun i hn hi hs => ?_⟩
  rw [paAccount_n, paSetCur_n] at hi
  rw [paAccount_vals, paSetCur_size] at hs
  rw [paAccount_vals, hl]
  by_cases hin : i = c.n
  · subst hin
    rw [paSetCur_get_n c pf hs]
    exact Or.inr q2
  · rw [paSetCur_vals_ne c pf i (by omega)]
    exact q3 _ (H.2 i hn (by omega) hs)

/-- **the loop of ParseAllPAIValues** on an idle object -/
theorem svc_paisLoop (b : Buf) (offs : Nat) (c : PPAIs) (hfit : b.size ≤ 65535) (ho : offs ≤ b.size)
    (hcl : PaClean c) (hcur : c.cur = {}) (n0 : Nat) (h : PaSpan c n0 offs) :
    (paisLoop b offs c).2.1 = .ok → PaSpan (paisLoop b offs c).2.2 n0 (paisLoop b offs c).1 := by
  induction hk : b.size - offs using Nat.strongRecOn generalizing offs c with
  | _ k ih =>
    rw [paisLoop]
    rcases hp : parseOnePAI b offs c.cur with ⟨next, e1, pf⟩
    obtain ⟨e0, hp0, hok0, hmv0, _⟩ := parseOnePAI_under b offs c.cur hp
    have hp' : parseNameAddrPVal HdrPAI b offs {} = (next, e0, pf) := by rw [hcur] at hp0; exact hp0
    have hout := (parseNameAddrPVal_safe HdrPAI b offs {} (NaEntry_new b offs ho) hp').1
    have hacc : Err.complete e0 → PaSpan ((c.setCur pf).account pf) n0 next := fun hc =>
      h.step pf next (parseNameAddrPVal_nest_new HdrPAI b offs hfit ho hp' hc).2 hout.v (by have := hout.ho; omega)
    cases e1 <;> simp only
    case ok => exact fun _ => hacc (Or.inl (hok0 rfl))
    case moreValues =>
      have hnx : (if c.n < c.vals.size then (c.setCur pf).account pf
          else { (c.setCur pf).account pf with last := {} }) = c.next pf := rfl
      rw [hnx]
      have hcl' := paNext_clean c pf hcl
      have hL : PaSpan (c.next pf) n0 next := by
        have := hacc (Or.inr (hmv0 rfl))
        unfold PPAIs.next; split
        · exact this
        · exact this
      by_cases hg : offs < next ∧ next ≤ b.size
      · rw [if_pos hg]
        exact ih (b.size - next) (by omega) next (c.next pf) hg.2 hcl'.1 hcl'.2 hL rfl
      · rw [if_neg hg]; exact fun hh => by cases hh
    all_goals exact fun hh => by cases hh

/-- **one P-Asserted-Identity header line** (identity list object idle): after OK every identity stored from this line
    lies inside the running header value of the result (empty `V`s excepted) -/
theorem svc_pai_line (b : Buf) (o : Nat) (c : PPAIs) (k : Nat) (hfit : b.size ≤ 65535) (ho : o ≤ b.size)
    (hcl : PaClean c.wrap) (hcur : c.wrap.cur = {}) {o' : Nat} {c' : PPAIs}
    (hr : parseAllPAIValues b o { c with hNo := k, lastHVal := {} } = (o', .ok, c')) :
    c'.lastHVal.offs + c'.lastHVal.len ≤ o' ∧
    ∀ i, c.n ≤ i → i < c'.n → i < c'.vals.size → c'.vals[i]!.v.len = 0 ∨ svInside c'.lastHVal c'.vals[i]!.v := by
  rw [parseAllPAIValues_eq_wrap, paBump_wrap] at hr
  have h0 : PaSpan ({ c.wrap with hNo := k, lastHVal := {} } : PPAIs) c.n o :=
    ⟨Nat.zero_le _, fun i hn hi _ => by
      have hi' : i < c.wrap.n := hi
      rw [(paWrap_scalars c).1] at hi'; omega⟩
  have := svc_paisLoop b o { c.wrap with hNo := k, lastHVal := {} } hfit ho hcl hcur c.n h0
  rw [hr] at this
  exact this rfl

/-- the dispatch for a header of type P-Asserted-Identity that is not in the middle of its value list -/
theorem svc_parseBody_pai (b : Buf) (i : Nat) (h : Hdr) (hv : PHdrVals) (ht : h.type = HdrPAI)
    (hs : h.state ≠ .hPAI) :
    parseBody b i h (some hv) =
      ((parseAllPAIValues b i { hv.pais with hNo := hv.pais.hNo + 1, lastHVal := {} }).1,
       (parseAllPAIValues b i { hv.pais with hNo := hv.pais.hNo + 1, lastHVal := {} }).2.1,
       { h with state := .hPAI,
                val := if (parseAllPAIValues b i { hv.pais with hNo := hv.pais.hNo + 1, lastHVal := {} }).2.1 == .ok
                       then (parseAllPAIValues b i { hv.pais with hNo := hv.pais.hNo + 1, lastHVal := {} }).2.2.lastHVal
                       else h.val },
       some { hv with pais := (parseAllPAIValues b i { hv.pais with hNo := hv.pais.hNo + 1, lastHVal := {} }).2.2 }) := by
  have hs' : (h.state != HState.hPAI) = true := by simpa using hs
  unfold parseBody
  simp only [ht, hs', ↓reduceIte]
  rfl

/-- **a Contact header line, header and values together**: for a header object of type Contact not in the middle of
    its value list and an idle value list object, if the dispatch ends with OK then the header's `val` is the running
    header value, the header count went up by one, and every value stored from this line lies inside `val` -/
theorem svc_contact_header (b : Buf) (i : Nat) (h : Hdr) (hv : PHdrVals) (hfit : b.size ≤ 65535) (hi : i ≤ b.size)
    (ht : h.type = HdrContact) (hs : h.state ≠ .hContact) (hcl : CtClean hv.contacts.wrap)
    (hcur : hv.contacts.wrap.cur = {}) {n : Nat} {h2 : Hdr} {hv2 : PHdrVals}
    (hr : parseBody b i h (some hv) = (n, .ok, h2, some hv2)) :
    h2.val = hv2.contacts.lastHVal ∧ h2.val.offs + h2.val.len ≤ n ∧
    ∀ j, hv.contacts.n ≤ j → j < hv2.contacts.n → j < hv2.contacts.vals.size →
      hv2.contacts.vals[j]!.v.len = 0 ∨ svInside h2.val hv2.contacts.vals[j]!.v := by
  rw [svc_parseBody_contact b i h hv ht hs] at hr
  rcases hq : parseAllContactValues b i { hv.contacts with hNo := hv.contacts.hNo + 1, lastHVal := {} } with ⟨n1, e1, c⟩
  rw [hq] at hr
  simp only [Prod.mk.injEq] at hr
  obtain ⟨rfl, rfl, rfl, hh⟩ := hr
  have hc : c = hv2.contacts := by cases hh; rfl
  subst hc
  exact ⟨rfl, svc_contact_line b i hv.contacts _ hfit hi hcl hcur hq⟩

/-- **a P-Asserted-Identity header line, header and values together** -/
theorem svc_pai_header (b : Buf) (i : Nat) (h : Hdr) (hv : PHdrVals) (hfit : b.size ≤ 65535) (hi : i ≤ b.size)
    (ht : h.type = HdrPAI) (hs : h.state ≠ .hPAI) (hcl : PaClean hv.pais.wrap)
    (hcur : hv.pais.wrap.cur = {}) {n : Nat} {h2 : Hdr} {hv2 : PHdrVals}
    (hr : parseBody b i h (some hv) = (n, .ok, h2, some hv2)) :
    h2.val = hv2.pais.lastHVal ∧ h2.val.offs + h2.val.len ≤ n ∧
    ∀ j, hv.pais.n ≤ j → j < hv2.pais.n → j < hv2.pais.vals.size →
      hv2.pais.vals[j]!.v.len = 0 ∨ svInside h2.val hv2.pais.vals[j]!.v := by
  rw [svc_parseBody_pai b i h hv ht hs] at hr
  rcases hq : parseAllPAIValues b i { hv.pais with hNo := hv.pais.hNo + 1, lastHVal := {} } with ⟨n1, e1, c⟩
  rw [hq] at hr
  simp only [Prod.mk.injEq] at hr
  obtain ⟨rfl, rfl, rfl, hh⟩ := hr
  have hc : c = hv2.pais := by cases hh; rfl
  subst hc
  exact ⟨rfl, svc_pai_line b i hv.pais _ hfit hi hcl hcur hq⟩

/-- test / non-vacuity: two Contact values on one line into a new list of capacity 3: the running header value
    `[0, 21)` runs from the start of the first `V` (`[0, 9)`) to the end of the last one (`[12, 21)`) -/
example : (parseAllContactValues "<sip:a@b> , <sip:c@d>\r\n\r\n".toUTF8.data 0
      { ({ vals := Array.replicate 3 {} } : PContacts) with hNo := 1, lastHVal := {} }).2.1 = .ok ∧
    (parseAllContactValues "<sip:a@b> , <sip:c@d>\r\n\r\n".toUTF8.data 0
      { ({ vals := Array.replicate 3 {} } : PContacts) with hNo := 1, lastHVal := {} }).2.2.lastHVal = ⟨0, 21⟩ ∧
    ((parseAllContactValues "<sip:a@b> , <sip:c@d>\r\n\r\n".toUTF8.data 0
      { ({ vals := Array.replicate 3 {} } : PContacts) with hNo := 1, lastHVal := {} }).2.2.vals.toList.map
        (fun f => f.v)).take 2 = [⟨0, 9⟩, ⟨12, 9⟩] := by decide +kernel

/-- test: the idle hypotheses hold of a new list object of any capacity -/
example (k : Nat) : CtClean ({ vals := Array.replicate k {} } : PContacts).wrap ∧
    ({ vals := Array.replicate k {} } : PContacts).wrap.cur = {} := by
  have hw : ({ vals := Array.replicate k {} } : PContacts).wrap = { vals := Array.replicate k {} } := by
    unfold PContacts.wrap; simp [PFromBody.parsed]
  rw [hw]
  have hrep : ∀ j, j < k → (Array.replicate k ({} : PFromBody))[j]! = {} := by
    intro j hj; simp [hj]
  refine ⟨⟨fun j _ hj => hrep j (by simpa using hj), fun _ => rfl⟩, ?_⟩
  unfold PContacts.cur
  split
  · rename_i hin; exact hrep _ (by simpa using hin)
  · rfl

end Sipsp
