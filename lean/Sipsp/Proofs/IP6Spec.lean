/-
  Sipsp.Proofs.IP6Spec — IP6Prefix / ContainsIP6: what they accept (a declarative grammar of the address text as the
  code reads it), the value of the address, the verdicts, the rejections.
-/
import Sipsp.Model.Sig
import Sipsp.Proofs.Lex
import Sipsp.Proofs.IP4

namespace Sipsp

/-! ### hex digits and the value of a group -/

/-- `0-9`, `A-F`, `a-f` -/
def I6IsHex (c : UInt8) : Prop :=
  (48 ≤ c.toNat ∧ c.toNat ≤ 57) ∨ (65 ≤ c.toNat ∧ c.toNat ≤ 70) ∨ (97 ≤ c.toNat ∧ c.toNat ≤ 102)

instance (c : UInt8) : Decidable (I6IsHex c) := by unfold I6IsHex; exact inferInstance

/-- value of one hex digit -/
def i6Dig (c : UInt8) : Nat :=
  if c.toNat ≤ 57 then c.toNat - 48 else if c.toNat ≤ 70 then c.toNat - 55 else c.toNat - 87

/-- value of a group of hex digits (most significant first) -/
def i6Val (g : List UInt8) : Nat := g.foldl (fun v c => v * 16 + i6Dig c) 0

/-- at most four hex digits (possibly none) -/
def I6Hex4 (g : List UInt8) : Prop := g.length ≤ 4 ∧ ∀ c ∈ g, I6IsHex c

/-- one group: one to four hex digits -/
def I6Grp (g : List UInt8) : Prop := 1 ≤ g.length ∧ I6Hex4 g

theorem i6_hexDig_nonneg (c : UInt8) : hexDigToI c ≥ 0 ↔ I6IsHex c := by
  unfold hexDigToI I6IsHex
  simp only [ge_iff_le, UInt8.le_iff_toNat_le, Bool.and_eq_true, decide_eq_true_eq]
  have h128 : (128 : UInt8).toNat = 128 := rfl
  have h48 : (48 : UInt8).toNat = 48 := rfl
  have h57 : (57 : UInt8).toNat = 57 := rfl
  have h65 : (65 : UInt8).toNat = 65 := rfl
  have h70 : (70 : UInt8).toNat = 70 := rfl
  have h97 : (97 : UInt8).toNat = 97 := rfl
  have h102 : (102 : UInt8).toNat = 102 := rfl
  simp only [h128, h48, h57, h65, h70, h97, h102]
  split
  · constructor
    · intro h; omega
    · intro h; omega
  · split
    · constructor
      · intro _; omega
      · intro _; omega
    · split
      · constructor
        · intro _; omega
        · intro _; omega
      · split
        · constructor
          · intro _; omega
          · intro _; omega
        · constructor
          · intro h; omega
          · intro h; omega

theorem i6_hexDig_val (c : UInt8) (h : I6IsHex c) : (hexDigToI c).toNat = i6Dig c := by
  unfold hexDigToI i6Dig
  unfold I6IsHex at h
  simp only [ge_iff_le, UInt8.le_iff_toNat_le, Bool.and_eq_true, decide_eq_true_eq]
  have h128 : (128 : UInt8).toNat = 128 := rfl
  have h48 : (48 : UInt8).toNat = 48 := rfl
  have h57 : (57 : UInt8).toNat = 57 := rfl
  have h65 : (65 : UInt8).toNat = 65 := rfl
  have h70 : (70 : UInt8).toNat = 70 := rfl
  have h97 : (97 : UInt8).toNat = 97 := rfl
  have h102 : (102 : UInt8).toNat = 102 := rfl
  simp only [h128, h48, h57, h65, h70, h97, h102]
  split
  · omega
  · split
    · rw [if_pos (by omega)]; simp
    · split
      · rw [if_neg (by omega), if_pos (by omega)]; simp; omega
      · split
        · rw [if_neg (by omega), if_neg (by omega)]; simp; omega
        · omega

theorem i6Dig_lt (c : UInt8) (h : I6IsHex c) : i6Dig c < 16 := by
  unfold i6Dig; unfold I6IsHex at h
  split
  · omega
  · split <;> omega

theorem i6Val_nil : i6Val [] = 0 := rfl

theorem i6Val_snoc (g : List UInt8) (c : UInt8) : i6Val (g ++ [c]) = i6Val g * 16 + i6Dig c := by
  unfold i6Val; rw [List.foldl_append]; rfl

theorem i6Val_lt_aux (g : List UInt8) (h : ∀ c ∈ g, I6IsHex c) (v : Nat) :
    g.foldl (fun v c => v * 16 + i6Dig c) v + 1 ≤ (v + 1) * 16 ^ g.length := by
  induction g generalizing v with
  | nil => simp
  | cons c g ih =>
    rw [List.foldl_cons, List.length_cons, Nat.pow_succ]
    have h1 := ih (fun x hx => h x (List.mem_cons_of_mem _ hx)) (v * 16 + i6Dig c)
    have h2 := i6Dig_lt c (h c List.mem_cons_self)
    have h3 : (v * 16 + i6Dig c + 1) * 16 ^ g.length ≤ ((v + 1) * 16) * 16 ^ g.length :=
      Nat.mul_le_mul_right _ (by omega)
    have h4 : (v + 1) * (16 ^ g.length * 16) = ((v + 1) * 16) * 16 ^ g.length := by
      rw [Nat.mul_comm (16 ^ g.length) 16, Nat.mul_assoc]
    omega

theorem i6Val_lt (g : List UInt8) (h : ∀ c ∈ g, I6IsHex c) : i6Val g < 16 ^ g.length := by
  have := i6Val_lt_aux g h 0
  unfold i6Val
  omega

theorem I6Hex4.val_lt {g : List UInt8} (h : I6Hex4 g) : i6Val g < 65536 := by
  have h1 := i6Val_lt g h.2
  have h2 : 16 ^ g.length ≤ 16 ^ 4 := Nat.pow_le_pow_right (by omega) h.1
  omega

theorem I6Hex4_nil : I6Hex4 [] := ⟨by simp, fun c hc => by cases hc⟩

theorem I6Hex4.snoc {g : List UInt8} (h : I6Hex4 g) (hl : g.length < 4) {c : UInt8} (hc : I6IsHex c) :
    I6Hex4 (g ++ [c]) := by
  refine ⟨by simp; omega, fun x hx => ?_⟩
  rcases List.mem_append.1 hx with hx | hx
  · exact h.2 x hx
  · rw [List.mem_singleton.1 hx]; exact hc

theorem i6_colon_not_hex : ¬ I6IsHex 58 := by decide

/-! ### the text of groups -/

/-- completed groups (each followed by a colon) and the digits of the group being read -/
def i6T : List (List UInt8) → List UInt8 → List UInt8
  | [], cur => cur
  | g :: gs, cur => g ++ 58 :: i6T gs cur

theorem i6T_snoc (gs : List (List UInt8)) (cur : List UInt8) (c : UInt8) :
    i6T gs cur ++ [c] = i6T gs (cur ++ [c]) := by
  induction gs with
  | nil => rfl
  | cons g gs ih => simp only [i6T, List.append_assoc, List.cons_append, ih]

theorem i6T_close (gs : List (List UInt8)) (cur : List UInt8) :
    i6T gs cur ++ [58] = i6T (gs ++ [cur]) [] := by
  induction gs with
  | nil => simp [i6T]
  | cons g gs ih => simp only [i6T, List.append_assoc, List.cons_append, ih]

theorem i6T_app (gs : List (List UInt8)) (cur w : List UInt8) :
    i6T gs cur ++ w = i6T gs (cur ++ w) := by
  induction gs with
  | nil => rfl
  | cons g gs ih => simp only [i6T, List.append_assoc, List.cons_append, ih]

/-- the bytes `[s, o)` of the buffer -/
def i6Seg (b : Buf) (s o : Nat) : List UInt8 := (b.toList.drop s).take (o - s)

theorem i6Seg_self (b : Buf) (s : Nat) : i6Seg b s s = [] := by simp [i6Seg]

theorem i6Seg_snoc {b : Buf} {s o : Nat} {c : UInt8} (h : b[o]? = some c) (hs : s ≤ o) :
    i6Seg b s (o + 1) = i6Seg b s o ++ [c] := by
  unfold i6Seg
  have e : o + 1 - s = (o - s) + 1 := by omega
  rw [e, List.take_add_one]
  congr 1
  rw [List.getElem?_drop]
  have e2 : s + (o - s) = o := by omega
  rw [e2]
  have : b.toList[o]? = some c := by simpa using h
  rw [this]; rfl

/-! ### one step of the scanner -/

theorem i6_loop_none {b : Buf} {o : Nat} (st : IP6St) (h : b[o]? = none) : ip6Loop b o st = .loopEnd o st := by
  rw [ip6Loop]
  split
  · rfl
  · rename_i c hc; rw [h] at hc; cases hc

/-- the scanner at a byte `c`: the body of the loop, with the recursive calls left in place -/
theorem i6_loop_some {b : Buf} {o : Nat} (st : IP6St) {c : UInt8} (h : b[o]? = some c) :
    ip6Loop b o st =
      if c == 58 then
        if st.colonsNo + 1 > 7 && (st.colonsNo + 1 > 8 || (!st.use2 && !st.foundColon)) then
          .gotoEnd o { st with colonsNo := st.colonsNo + 1, err := .badChar }
        else if st.foundColon then
          if st.use2 then .ret o .bad
          else ip6Loop b (o + 1) { st with colonsNo := st.colonsNo + 1, i1 := st.i, i := 0, use2 := true }
        else ip6Loop b (o + 1) { st with colonsNo := st.colonsNo + 1, foundColon := true, i := st.i + 1, digits := 0 }
      else if hexDigToI c ≥ 0 then
        if st.digits + 1 > 4 then .loopEnd o { st with foundColon := false, digits := st.digits + 1, err := .moreValues }
        else if st.i ≥ 8 then .loopEnd o { st with foundColon := false, digits := st.digits + 1, pnc := true }
        else if st.use2 then
          ip6Loop b (o + 1) { st with foundColon := false, digits := st.digits + 1,
                                      a2 := st.a2.set! st.i ((st.a2[st.i]! * 16 + (hexDigToI c).toNat) % 65536) }
        else
          ip6Loop b (o + 1) { st with foundColon := false, digits := st.digits + 1,
                                      a1 := st.a1.set! st.i ((st.a1[st.i]! * 16 + (hexDigToI c).toNat) % 65536) }
      else if st.bracketSt && c == 93 then .loopEnd o { st with bracketEnd := true }
      else .loopEnd o { st with err := .badChar } := by
  rw [ip6Loop]
  split
  · rename_i hc; rw [h] at hc; cases hc
  · rename_i c' hc
    rw [h] at hc; cases hc
    rfl

/-! ### what the scanner state stands for -/

/-- the text read so far, as the scanner sees it: the groups before the "::" (each followed by a colon; the first one
    may be empty: a text that starts with a colon), whether the second colon of "::" was read, the completed groups
    after it (each followed by a colon), and the digits of the group being read -/
structure I6G where
  pre : List (List UInt8) := []
  two : Bool := false
  post : List (List UInt8) := []
  cur : List UInt8 := []

/-- the bytes this stands for -/
def I6G.text (g : I6G) : List UInt8 :=
  if g.two then i6T g.pre [] ++ 58 :: i6T g.post g.cur else i6T g.pre g.cur

/-- number of colons in `text` -/
def I6G.colons (g : I6G) : Nat := g.pre.length + (if g.two then 1 + g.post.length else 0)

structure I6G.WF (g : I6G) : Prop where
  pre4 : ∀ x ∈ g.pre, I6Hex4 x
  preNe : ∀ x ∈ g.pre.drop 1, x ≠ []
  postG : ∀ x ∈ g.post, I6Grp x
  cur4 : I6Hex4 g.cur
  one : g.two = false → g.post = [] ∧ g.pre.length ≤ 7
  tw : g.two = true → g.pre ≠ [] ∧ g.pre.length + 1 + g.post.length ≤ 8

/-- contents of the first word buffer -/
def I6G.v1 (g : I6G) (k : Nat) : Nat :=
  if k < g.pre.length then i6Val g.pre[k]! else if k = g.pre.length ∧ g.two = false then i6Val g.cur else 0

/-- contents of the second word buffer -/
def I6G.v2 (g : I6G) (k : Nat) : Nat :=
  if g.two = false then 0 else if k < g.post.length then i6Val g.post[k]!
  else if k = g.post.length then i6Val g.cur else 0

structure I6Rep (st : IP6St) (g : I6G) : Prop where
  wf : g.WF
  use2 : st.use2 = g.two
  colons : st.colonsNo = g.colons
  idx : st.i = if g.two then g.post.length else g.pre.length
  i1 : g.two = true → st.i1 = g.pre.length
  digits : st.digits = g.cur.length
  fc : st.foundColon = (g.cur.isEmpty && !g.pre.isEmpty)
  s1 : st.a1.size = 8
  s2 : st.a2.size = 8
  a1 : ∀ k, st.a1[k]! = g.v1 k
  a2 : ∀ k, st.a2[k]! = g.v2 k
  pnc : st.pnc = false
  err : st.err = .ok
  bend : st.bracketEnd = false

theorem i6_rep_init (br : Bool) : I6Rep ({ bracketSt := br } : IP6St) {} := by
  refine ⟨⟨?_, ?_, ?_, I6Hex4_nil, ?_, ?_⟩, rfl, rfl, rfl, ?_, rfl, rfl, rfl, rfl, ?_, ?_, rfl, rfl, rfl⟩
  · intro x hx; cases hx
  · intro x hx; cases hx
  · intro x hx; cases hx
  · intro _; exact ⟨rfl, by simp⟩
  · intro h; cases h
  · intro h; cases h
  · intro k
    show (Array.replicate 8 0)[k]! = _
    simp only [I6G.v1, List.length_nil, Nat.not_lt_zero, ↓reduceIte, i6Val_nil]
    rcases Nat.lt_or_ge k 8 with hk | hk
    · simp [hk]
    · simp [hk]
  · intro k
    show (Array.replicate 8 0)[k]! = _
    simp only [I6G.v2, ↓reduceIte]
    rcases Nat.lt_or_ge k 8 with hk | hk
    · simp [hk]
    · simp [hk]

theorem I6Rep.i_lt {st : IP6St} {g : I6G} (h : I6Rep st g) : st.i < 8 := by
  rw [h.idx]
  cases ht : g.two
  · have := (h.wf.one ht).2; simp; omega
  · have := (h.wf.tw ht).2
    have hp : g.pre.length ≠ 0 := fun hh => (h.wf.tw ht).1 (List.eq_nil_of_length_eq_zero hh)
    simp; omega

theorem i6_word {x : Nat} {g : List UInt8} {c : UInt8} (hx : x = i6Val g) (hg : I6Hex4 (g ++ [c])) (hc : I6IsHex c) :
    (x * 16 + (hexDigToI c).toNat) % 65536 = i6Val (g ++ [c]) := by
  rw [i6_hexDig_val c hc, hx, ← i6Val_snoc]
  exact Nat.mod_eq_of_lt hg.val_lt

/-- a hex digit that is accepted extends the current group (before "::") -/
theorem i6_rep_hex1 {st : IP6St} {g : I6G} (h : I6Rep st g) {c : UInt8} (hc : I6IsHex c) (hl : g.cur.length < 4)
    (ht : g.two = false) :
    I6Rep { st with foundColon := false, digits := st.digits + 1,
                    a1 := st.a1.set! st.i ((st.a1[st.i]! * 16 + (hexDigToI c).toNat) % 65536) }
      { g with cur := g.cur ++ [c] } := by
  have hcur := h.wf.cur4.snoc hl hc
  have hi : st.i = g.pre.length := by rw [h.idx, ht]; rfl
  refine ⟨⟨h.wf.pre4, h.wf.preNe, h.wf.postG, hcur, h.wf.one, h.wf.tw⟩, h.use2, h.colons, h.idx, h.i1, ?_, ?_, ?_,
    h.s2, ?_, ?_, h.pnc, h.err, h.bend⟩
  · show st.digits + 1 = (g.cur ++ [c]).length
    rw [h.digits]; simp
  · show false = ((g.cur ++ [c]).isEmpty && !g.pre.isEmpty)
    simp
  · show (st.a1.set! st.i _).size = 8
    simp [h.s1]
  rotate_left
  · intro k
    show st.a2[k]! = I6G.v2 { g with cur := g.cur ++ [c] } k
    rw [h.a2]
    simp only [I6G.v2, ht, ↓reduceIte]
  · intro k
    show (st.a1.set! st.i _)[k]! = I6G.v1 { g with cur := g.cur ++ [c] } k
    by_cases hk : st.i = k
    · subst hk
      rw [set!_get_same _ _ _ (by rw [h.s1]; exact h.i_lt)]
      have hx : st.a1[st.i]! = i6Val g.cur := by
        rw [h.a1, I6G.v1, hi, if_neg (Nat.lt_irrefl _), if_pos ⟨rfl, ht⟩]
      rw [i6_word hx hcur hc]
      simp only [I6G.v1, hi, Nat.lt_irrefl, ↓reduceIte, ht, and_self]
    · rw [set!_get_ne _ _ _ _ hk, h.a1]
      have hk' : ¬ k = g.pre.length := fun e => hk (by rw [hi, e])
      simp only [I6G.v1, hk', false_and, ↓reduceIte]

/-- a hex digit that is accepted extends the current group (after "::") -/
theorem i6_rep_hex2 {st : IP6St} {g : I6G} (h : I6Rep st g) {c : UInt8} (hc : I6IsHex c) (hl : g.cur.length < 4)
    (ht : g.two = true) :
    I6Rep { st with foundColon := false, digits := st.digits + 1,
                    a2 := st.a2.set! st.i ((st.a2[st.i]! * 16 + (hexDigToI c).toNat) % 65536) }
      { g with cur := g.cur ++ [c] } := by
  have hcur := h.wf.cur4.snoc hl hc
  have hi : st.i = g.post.length := by rw [h.idx, ht]; rfl
  refine ⟨⟨h.wf.pre4, h.wf.preNe, h.wf.postG, hcur, h.wf.one, h.wf.tw⟩, h.use2, h.colons, h.idx, h.i1, ?_, ?_, h.s1,
    ?_, ?_, ?_, h.pnc, h.err, h.bend⟩
  · show st.digits + 1 = (g.cur ++ [c]).length
    rw [h.digits]; simp
  · show false = ((g.cur ++ [c]).isEmpty && !g.pre.isEmpty)
    simp
  · show (st.a2.set! st.i _).size = 8
    simp [h.s2]
  · intro k
    show st.a1[k]! = I6G.v1 { g with cur := g.cur ++ [c] } k
    rw [h.a1]
    simp only [I6G.v1, ht, Bool.true_eq_false, and_false, ↓reduceIte]
  · intro k
    show (st.a2.set! st.i _)[k]! = I6G.v2 { g with cur := g.cur ++ [c] } k
    by_cases hk : st.i = k
    · subst hk
      rw [set!_get_same _ _ _ (by rw [h.s2]; exact h.i_lt)]
      have hx : st.a2[st.i]! = i6Val g.cur := by
        rw [h.a2, I6G.v2, hi, if_neg (by rw [ht]; simp), if_neg (Nat.lt_irrefl _), if_pos rfl]
      rw [i6_word hx hcur hc]
      simp only [I6G.v2, hi, Nat.lt_irrefl, ↓reduceIte, ht, Bool.true_eq_false]
    · rw [set!_get_ne _ _ _ _ hk, h.a2]
      have hk' : ¬ k = g.post.length := fun e => hk (by rw [hi, e])
      simp only [I6G.v2, hk', ↓reduceIte]

theorem i6_get_snoc_lt {α : Type} [Inhabited α] (l : List α) (x : α) {k : Nat} (h : k < l.length) :
    (l ++ [x])[k]! = l[k]! := by
  simp [List.getElem?_append_left h]

theorem i6_get_snoc_eq {α : Type} [Inhabited α] (l : List α) (x : α) : (l ++ [x])[l.length]! = x := by
  simp

theorem i6_mem_drop1_snoc {α : Type} {l : List α} {c x : α} (h : x ∈ (l ++ [c]).drop 1) :
    x ∈ l.drop 1 ∨ (x = c ∧ l ≠ []) := by
  cases l with
  | nil => simp at h
  | cons p ps =>
    simp only [List.cons_append, List.drop_succ_cons, List.drop_zero] at h ⊢
    rcases List.mem_append.1 h with h | h
    · exact Or.inl h
    · exact Or.inr ⟨List.mem_singleton.1 h, by simp⟩

/-- a single colon closes the current group (before "::") -/
theorem i6_rep_colon1 {st : IP6St} {g : I6G} (h : I6Rep st g) (ht : g.two = false) (hfc : st.foundColon = false)
    (hlen : g.pre.length + 1 ≤ 7) :
    I6Rep { st with colonsNo := st.colonsNo + 1, foundColon := true, i := st.i + 1, digits := 0 }
      { g with pre := g.pre ++ [g.cur], cur := [] } := by
  have hi : st.i = g.pre.length := by rw [h.idx, ht]; rfl
  have hpost := (h.wf.one ht).1
  refine ⟨⟨?_, ?_, h.wf.postG, I6Hex4_nil, fun _ => ⟨hpost, by simp; omega⟩, fun h2 => ?_⟩, h.use2, ?_, ?_, ?_, rfl,
    ?_, h.s1, h.s2, ?_, ?_, h.pnc, h.err, h.bend⟩
  · intro x hx
    rcases List.mem_append.1 hx with hx | hx
    · exact h.wf.pre4 x hx
    · rw [List.mem_singleton.1 hx]; exact h.wf.cur4
  · intro x hx
    rcases i6_mem_drop1_snoc hx with hx | ⟨hx, hne⟩
    · exact h.wf.preNe x hx
    · rw [hx]
      intro hcur
      have := h.fc
      rw [hfc, hcur] at this
      cases hp : g.pre with
      | nil => exact hne hp
      | cons p ps => rw [hp] at this; simp at this
  · have : g.two = true := h2
    rw [ht] at this; cases this
  · show st.colonsNo + 1 = I6G.colons { g with pre := g.pre ++ [g.cur], cur := [] }
    rw [h.colons]
    simp [I6G.colons, ht]
  · show st.i + 1 = if g.two then g.post.length else (g.pre ++ [g.cur]).length
    rw [hi, ht]; simp
  · intro h2
    have : g.two = true := h2
    rw [ht] at this; cases this
  · show true = (([] : List UInt8).isEmpty && !(g.pre ++ [g.cur]).isEmpty)
    simp
  · intro k
    show st.a1[k]! = I6G.v1 { g with pre := g.pre ++ [g.cur], cur := [] } k
    rw [h.a1]
    simp only [I6G.v1, ht, and_true, List.length_append, List.length_singleton, i6Val_nil]
    rcases Nat.lt_trichotomy k g.pre.length with hk | hk | hk
    · rw [if_pos hk, if_pos (by omega), i6_get_snoc_lt _ _ hk]
    · subst hk
      rw [if_neg (Nat.lt_irrefl _), if_pos rfl, if_pos (by omega), i6_get_snoc_eq]
    · rw [if_neg (by omega), if_neg (by omega), if_neg (by omega)]
      split <;> rfl
  · intro k
    show st.a2[k]! = I6G.v2 { g with pre := g.pre ++ [g.cur], cur := [] } k
    rw [h.a2]
    simp only [I6G.v2, ht, ↓reduceIte]

/-- the second colon of "::" -/
theorem i6_rep_colon2 {st : IP6St} {g : I6G} (h : I6Rep st g) (ht : g.two = false) (hfc : st.foundColon = true) :
    I6Rep { st with colonsNo := st.colonsNo + 1, i1 := st.i, i := 0, use2 := true } { g with two := true } := by
  have hi : st.i = g.pre.length := by rw [h.idx, ht]; rfl
  have hpost := (h.wf.one ht).1
  have hf := h.fc
  rw [hfc] at hf
  have hcur : g.cur = [] := by
    have : g.cur.isEmpty = true := by
      cases hh : g.cur.isEmpty
      · rw [hh] at hf; simp at hf
      · rfl
    exact List.isEmpty_iff.1 this
  have hpre : g.pre ≠ [] := by
    intro hp; rw [hp] at hf; simp at hf
  refine ⟨⟨h.wf.pre4, h.wf.preNe, h.wf.postG, h.wf.cur4, (fun h2 => by cases h2), fun _ => ⟨hpre, ?_⟩⟩, rfl, ?_, ?_,
    fun _ => hi, h.digits, h.fc, h.s1, h.s2, ?_, ?_, h.pnc, h.err, h.bend⟩
  · show g.pre.length + 1 + g.post.length ≤ 8
    have := (h.wf.one ht).2
    rw [hpost]; simp; omega
  · show st.colonsNo + 1 = I6G.colons { g with two := true }
    rw [h.colons]
    simp [I6G.colons, ht, hpost]
  · show 0 = if true then g.post.length else g.pre.length
    rw [hpost]; rfl
  · intro k
    show st.a1[k]! = I6G.v1 { g with two := true } k
    rw [h.a1]
    simp only [I6G.v1, ht, and_true, Bool.true_eq_false, and_false, ↓reduceIte, hcur, i6Val_nil]
    split
    · rfl
    · split <;> rfl
  · intro k
    show st.a2[k]! = I6G.v2 { g with two := true } k
    rw [h.a2]
    simp only [I6G.v2, ht, ↓reduceIte, Bool.true_eq_false, hpost, List.length_nil, Nat.not_lt_zero, hcur, i6Val_nil]
    split <;> rfl

/-- a single colon closes the current group (after "::") -/
theorem i6_rep_colon3 {st : IP6St} {g : I6G} (h : I6Rep st g) (ht : g.two = true) (hfc : st.foundColon = false)
    (hlen : g.pre.length + 1 + g.post.length + 1 ≤ 8) :
    I6Rep { st with colonsNo := st.colonsNo + 1, foundColon := true, i := st.i + 1, digits := 0 }
      { g with post := g.post ++ [g.cur], cur := [] } := by
  have hi : st.i = g.post.length := by rw [h.idx, ht]; rfl
  have hpre := (h.wf.tw ht).1
  have hcur : g.cur ≠ [] := by
    intro hcur
    have := h.fc
    rw [hfc, hcur] at this
    cases hp : g.pre with
    | nil => exact hpre hp
    | cons p ps => rw [hp] at this; simp at this
  refine ⟨⟨h.wf.pre4, h.wf.preNe, ?_, I6Hex4_nil, fun h2 => ?_, fun _ => ⟨hpre, by simp; omega⟩⟩, h.use2, ?_, ?_, h.i1,
    rfl, ?_, h.s1, h.s2, ?_, ?_, h.pnc, h.err, h.bend⟩
  · intro x hx
    rcases List.mem_append.1 hx with hx | hx
    · exact h.wf.postG x hx
    · rw [List.mem_singleton.1 hx]
      exact ⟨by cases hc : g.cur with
                | nil => exact absurd hc hcur
                | cons a as => simp, h.wf.cur4⟩
  · have : g.two = false := h2
    rw [ht] at this; cases this
  · show st.colonsNo + 1 = I6G.colons { g with post := g.post ++ [g.cur], cur := [] }
    rw [h.colons]
    simp [I6G.colons, ht]; omega
  · show st.i + 1 = if g.two then (g.post ++ [g.cur]).length else g.pre.length
    rw [hi, ht]; simp
  · show true = (([] : List UInt8).isEmpty && !g.pre.isEmpty)
    cases hp : g.pre with
    | nil => exact absurd hp hpre
    | cons p ps => simp
  · intro k
    show st.a1[k]! = I6G.v1 { g with post := g.post ++ [g.cur], cur := [] } k
    rw [h.a1]
    simp only [I6G.v1, ht, Bool.true_eq_false, and_false, ↓reduceIte]
  · intro k
    show st.a2[k]! = I6G.v2 { g with post := g.post ++ [g.cur], cur := [] } k
    rw [h.a2]
    simp only [I6G.v2, ht, Bool.true_eq_false, ↓reduceIte, List.length_append, List.length_singleton, i6Val_nil]
    rcases Nat.lt_trichotomy k g.post.length with hk | hk | hk
    · rw [if_pos hk, if_pos (by omega), i6_get_snoc_lt _ _ hk]
    · subst hk
      rw [if_neg (Nat.lt_irrefl _), if_pos rfl, if_pos (by omega), i6_get_snoc_eq]
    · rw [if_neg (by omega), if_neg (by omega), if_neg (by omega)]
      split <;> rfl

/-! ### steps of the scanner in terms of the text read -/

/-- the text after a colon -/
def I6G.colon (g : I6G) : I6G :=
  if g.two then { g with post := g.post ++ [g.cur], cur := [] }
  else if g.cur.isEmpty && !g.pre.isEmpty then { g with two := true }
  else { g with pre := g.pre ++ [g.cur], cur := [] }

/-- the text after a hex digit -/
def I6G.hex (g : I6G) (c : UInt8) : I6G := { g with cur := g.cur ++ [c] }

theorem I6G.text_hex (g : I6G) (c : UInt8) : (g.hex c).text = g.text ++ [c] := by
  unfold I6G.hex I6G.text
  cases g.two
  · simp only [Bool.false_eq_true, ↓reduceIte]; rw [i6T_snoc]
  · simp only [↓reduceIte, List.append_assoc, List.cons_append]; rw [i6T_snoc]

theorem I6G.text_colon (g : I6G) (h : g.two = false → g.post = []) : g.colon.text = g.text ++ [58] := by
  unfold I6G.colon I6G.text
  cases ht : g.two
  · simp only [Bool.false_eq_true, ↓reduceIte]
    have hp := h ht
    cases hf : (g.cur.isEmpty && !g.pre.isEmpty)
    · simp only [Bool.false_eq_true, ↓reduceIte, ht]; rw [i6T_close]
    · simp only [↓reduceIte]
      have hc : g.cur = [] := by
        cases hh : g.cur with
        | nil => rfl
        | cons a as => rw [hh] at hf; simp at hf
      rw [hp, hc]; rfl
  · simp only [↓reduceIte, List.append_assoc, List.cons_append, ht]; rw [i6T_close]

theorem i6_beq58 {c : UInt8} (h : I6IsHex c) : (c == 58) = false := by
  cases hc : c == 58
  · rfl
  · rw [beq_iff_eq] at hc; subst hc; exact absurd h i6_colon_not_hex

theorem i6_step_hex {b : Buf} {o : Nat} {st : IP6St} {g : I6G} {c : UInt8} (h : I6Rep st g) (hb : b[o]? = some c)
    (hc : I6IsHex c) (hl : g.cur.length < 4) :
    ∃ st', ip6Loop b o st = ip6Loop b (o + 1) st' ∧ I6Rep st' (g.hex c) ∧ st'.bracketSt = st.bracketSt := by
  rw [i6_loop_some st hb, i6_beq58 hc]
  simp only [Bool.false_eq_true, ↓reduceIte]
  rw [if_pos ((i6_hexDig_nonneg c).2 hc), if_neg (by rw [h.digits]; omega), if_neg (by have := h.i_lt; omega)]
  cases ht : g.two
  · rw [if_neg (by rw [h.use2, ht]; simp)]
    exact ⟨_, rfl, i6_rep_hex1 h hc hl ht, rfl⟩
  · rw [if_pos (by rw [h.use2, ht])]
    exact ⟨_, rfl, i6_rep_hex2 h hc hl ht, rfl⟩

theorem i6_step_colon {b : Buf} {o : Nat} {st : IP6St} {g : I6G} (h : I6Rep st g) (hb : b[o]? = some 58)
    (hgo : (decide (st.colonsNo + 1 > 7) && (decide (st.colonsNo + 1 > 8) || (!st.use2 && !st.foundColon))) = false)
    (hnr : (st.foundColon && st.use2) = false) :
    ∃ st', ip6Loop b o st = ip6Loop b (o + 1) st' ∧ I6Rep st' g.colon ∧ st'.bracketSt = st.bracketSt := by
  rw [i6_loop_some st hb]
  simp only [beq_self_eq_true, ↓reduceIte, hgo, Bool.false_eq_true]
  have hcol := h.colons
  unfold I6G.colons at hcol
  unfold I6G.colon
  cases ht : g.two
  · have hu : st.use2 = false := by rw [h.use2, ht]
    rw [ht] at hcol
    simp only [Bool.false_eq_true, ↓reduceIte, Nat.add_zero] at hcol
    cases hf : st.foundColon
    · simp only [Bool.false_eq_true, ↓reduceIte]
      rw [← h.fc, hf]
      simp only [Bool.false_eq_true, ↓reduceIte]
      rw [hu, hf] at hgo
      simp at hgo
      exact ⟨_, rfl, i6_rep_colon1 h ht hf (by omega), rfl⟩
    · simp only [↓reduceIte, hu, Bool.false_eq_true]
      rw [← h.fc, hf]
      simp only [↓reduceIte]
      exact ⟨_, rfl, i6_rep_colon2 h ht hf, rfl⟩
  · have hu : st.use2 = true := by rw [h.use2, ht]
    rw [ht] at hcol
    simp only [↓reduceIte] at hcol
    have hf : st.foundColon = false := by
      cases hf : st.foundColon
      · rfl
      · rw [hf, hu] at hnr; simp at hnr
    simp only [hf, Bool.false_eq_true, ↓reduceIte]
    rw [hu, hf] at hgo
    simp at hgo
    exact ⟨_, rfl, i6_rep_colon3 h ht hf (by omega), rfl⟩

end Sipsp
