/-
  Sipsp.Proofs.IP6Spec — IP6Prefix / ContainsIP6 (ip_prefix.go): WHAT they accept. Extension of C20 (which is about
  IPv4); C04 proves only that they never panic.

  The grammar, as the code reads the text (NOT RFC 4291 where the code differs):
    * `I6G` — a text of the scanner: the groups before "::" (each followed by a colon), whether the second colon of
      "::" was read, the completed groups after it, the digits of the group being read; `I6G.text` are its bytes,
      `I6G.WF` says what the parts are (groups of 1-4 hex digits, only the very first group may be empty, at most 7
      colons without "::" and 8 with it), `I6G.Acc` that the address is complete (a "::", or 8 groups with a
      non-empty last one), `I6G.value` the eight 16-bit words (`i6Value pre tail`: groups before, zero words, groups
      after).
    * `I6Addr l v` — the usual notation as far as the code accepts it: 8 groups, or groups "::" groups with at most 7
      groups on either side and at most 8 in all. `I6Addr.toG` / `I6G.toAddr`: the complete texts of the scanner
      are EXACTLY the `I6Addr` texts plus those with a single leading colon (`I6G.Lead`: an empty first group of
      value 0, e.g. ":1:2:3:4:5:6:7", ":1::2") or a single trailing colon after a group that follows the "::"
      (`I6G.Trail`, ignored, e.g. "1::2:"). With 8 groups written the "::" stands for no group ("1:2:3:4:5:6:7::8").
  Proved for every buffer and every start position (`ip6Prefix b = ip6PrefixAt b 0`):
    * `i6_prefixAt_char` (soundness, master form): the scanner reads some well-formed text `g` from the start position
      (after a `[` that is followed by at least one byte) up to a position where it cannot go on (`I6Stops`), and the
      whole result — accept flag, offset, verdict, words, no panic — is the one the decision table `I6Out`
      prescribes for that position, `g`, and the byte found there.
    * `i6_prefixAt_complete` (completeness, master form): conversely for EVERY well-formed `g` whose bytes stand at
      the start position and after which the scanner cannot go on, the result is the one of `I6Out`
      (`i6_reach`: every text of the grammar is read as such).
    * `i6_prefixAt_sound` + `I6AccRes`: an accepting result has a complete address `g`; offset = end of `g` (one more
      when the closing bracket is skipped); Ok = end of input, MoreValues = a fifth hex digit follows / a byte
      follows the closing bracket, BadChar = another byte (or a colon too many) follows, MoreBytes = `[` address and
      end of input (closing bracket missing: ACCEPTED); words = `g.value` — except at a colon too many, where they are
      `g.valueCut` (see below). `i6_prefixAt_accepts_iff`: exactly which texts are accepted.
    * `i6_prefixAt_addr`, `i6_prefixAt_bracketed`: every `I6Addr` text followed by the end / a byte that is neither
      hex nor colon, and every `[` `I6Addr` `]` / `[` `I6Addr` end-of-input, is accepted with exactly its value,
      length and verdict.
    * the decision table on texts, with the returned offset (`i6_prefixAt_eof`, `_colon`, `_hex`, `_close`,
      `_other`; `I6Out.*_inv`, `I6Out.rej_inv`): a third colon in a row or a second "::" — Bad at that colon; a colon
      after 7 colons (no "::") or 8 (with "::") — the address ends there, BadChar (Bad inside brackets); a fifth hex
      digit — MoreValues after a complete address (Bad inside brackets), Bad inside an address; any other byte —
      BadChar after a complete address (Bad inside brackets: unbalanced bracket), Bad inside an address; end of input
      inside an address — MoreBytes (Bad when nothing was read).
    * the words are given as `a.toList = …` for the returned `Array Nat`; `I6G.value_words`, `I6G.valueCut_words`: they
      are eight words, each below 2^16. The model does not have the
      `dst` byte slice (Go writes word j big-endian to dst[2j], dst[2j+1] when len(dst) ≥ 16): NOT stated here.
    * ContainsIP6: `i6_contains_sound` (the reported span starts 1-5 bytes before a colon and IP6Prefix accepts there
      with the reported length and words; no panic), `i6_contains_none` / `i6_containsLoop_none` (completeness in the
      form the code supports: nothing reported ⇒ IP6Prefix rejects at every position tried: for each colon at `d` the
      five positions before it when d ≥ 5, else the positions back to the previous colon / the start),
      `i6_try_some` (the first accepting one of the tried positions is reported).
  Behaviour that looks like a defect of the library (reported, pinned by tests at the end; the theorems state what is
  true):
    * WRONG VALUE: an address with "::" and 8 colons that ends in a group, followed by a ninth colon, is accepted
      (BadChar) but the last group is not copied: "::2:3:4:5:6:7:8:" gives 0:0:2:3:4:5:6:7, "1:2:3:4:5:6:7::8:" gives
      1:2:3:4:5:6:7:0 (`I6G.valueCut`, `i6ExCut`; `I6G.valueCut_eq`: otherwise the value is right).
    * accepted non-addresses: a single leading colon, a single trailing colon after the "::" part, `[` address without
      `]` (MoreBytes but accept = true), and "1:2:3:4:5:6:7:::" (accepted up to the "::", BadChar) while "1:::" is
      rejected.
    * ContainsIP6 never tries a position at or after the first colon of a run, so a Call-ID that STARTS with "::1" or
      "::ffff:…" is not found (tests).
  Not proved: uniqueness of the decomposition `g` of a given text as a stand-alone statement (not needed: the master
  theorems quantify over it on the right side), leftmost/longest statements for ContainsIP6 beyond `i6_try_some`.
-/
import Sipsp.Model.Sig
import Sipsp.Proofs.Lex
import Sipsp.Proofs.IP4
import Sipsp.Proofs.SafeRest

namespace Sipsp

/-! ### hex digits and the value of a group -/

/-- `0-9`, `A-F`, `a-f` -/
def I6IsHex (c : UInt8) : Prop :=
  (48 ≤ c.toNat ∧ c.toNat ≤ 57) ∨ (65 ≤ c.toNat ∧ c.toNat ≤ 70) ∨ (97 ≤ c.toNat ∧ c.toNat ≤ 102)

instance (c : UInt8) : Decidable (I6IsHex c) := by unfold I6IsHex; exact inferInstance

/-- value of one hex digit -/
def i6Dig (c : UInt8) : Nat :=
  if c.toNat ≤ 57 then c.toNat - 48 else if c.toNat ≤ 70 then c.toNat - 55 else c.toNat - 87

/-- value of a group of hex digits (most significant first) -/
def i6Val (g : List UInt8) : Nat := g.foldl (fun v c => v * 16 + i6Dig c) 0

/-- at most four hex digits (possibly none) -/
def I6Hex4 (g : List UInt8) : Prop := g.length ≤ 4 ∧ ∀ c ∈ g, I6IsHex c

/-- one group: one to four hex digits -/
def I6Grp (g : List UInt8) : Prop := 1 ≤ g.length ∧ I6Hex4 g

theorem i6_hexDig_nonneg (c : UInt8) : hexDigToI c ≥ 0 ↔ I6IsHex c := by
  unfold hexDigToI I6IsHex
  simp only [ge_iff_le, UInt8.le_iff_toNat_le, Bool.and_eq_true, decide_eq_true_eq]
  have h128 : (128 : UInt8).toNat = 128 := rfl
  have h48 : (48 : UInt8).toNat = 48 := rfl
  have h57 : (57 : UInt8).toNat = 57 := rfl
  have h65 : (65 : UInt8).toNat = 65 := rfl
  have h70 : (70 : UInt8).toNat = 70 := rfl
  have h97 : (97 : UInt8).toNat = 97 := rfl
  have h102 : (102 : UInt8).toNat = 102 := rfl
  simp only [h128, h48, h57, h65, h70, h97, h102]
  split
  · constructor
    · intro h; omega
    · intro h; omega
  · split
    · constructor
      · intro _; omega
      · intro _; omega
    · split
      · constructor
        · intro _; omega
        · intro _; omega
      · split
        · constructor
          · intro _; omega
          · intro _; omega
        · constructor
          · intro h; omega
          · intro h; omega

theorem i6_hexDig_val (c : UInt8) (h : I6IsHex c) : (hexDigToI c).toNat = i6Dig c := by
  unfold hexDigToI i6Dig
  unfold I6IsHex at h
  simp only [ge_iff_le, UInt8.le_iff_toNat_le, Bool.and_eq_true, decide_eq_true_eq]
  have h128 : (128 : UInt8).toNat = 128 := rfl
  have h48 : (48 : UInt8).toNat = 48 := rfl
  have h57 : (57 : UInt8).toNat = 57 := rfl
  have h65 : (65 : UInt8).toNat = 65 := rfl
  have h70 : (70 : UInt8).toNat = 70 := rfl
  have h97 : (97 : UInt8).toNat = 97 := rfl
  have h102 : (102 : UInt8).toNat = 102 := rfl
  simp only [h128, h48, h57, h65, h70, h97, h102]
  split
  · omega
  · split
    · rw [if_pos (by omega)]; simp
    · split
      · rw [if_neg (by omega), if_pos (by omega)]; simp; omega
      · split
        · rw [if_neg (by omega), if_neg (by omega)]; simp; omega
        · omega

theorem i6Dig_lt (c : UInt8) (h : I6IsHex c) : i6Dig c < 16 := by
  unfold i6Dig; unfold I6IsHex at h
  split
  · omega
  · split <;> omega

theorem i6Val_nil : i6Val [] = 0 := rfl

theorem i6Val_snoc (g : List UInt8) (c : UInt8) : i6Val (g ++ [c]) = i6Val g * 16 + i6Dig c := by
  unfold i6Val; rw [List.foldl_append]; rfl

theorem i6Val_lt_aux (g : List UInt8) (h : ∀ c ∈ g, I6IsHex c) (v : Nat) :
    g.foldl (fun v c => v * 16 + i6Dig c) v + 1 ≤ (v + 1) * 16 ^ g.length := by
  induction g generalizing v with
  | nil => simp
  | cons c g ih =>
    rw [List.foldl_cons, List.length_cons, Nat.pow_succ]
    have h1 := ih (fun x hx => h x (List.mem_cons_of_mem _ hx)) (v * 16 + i6Dig c)
    have h2 := i6Dig_lt c (h c List.mem_cons_self)
    have h3 : (v * 16 + i6Dig c + 1) * 16 ^ g.length ≤ ((v + 1) * 16) * 16 ^ g.length :=
      Nat.mul_le_mul_right _ (by omega)
    have h4 : (v + 1) * (16 ^ g.length * 16) = ((v + 1) * 16) * 16 ^ g.length := by
      rw [Nat.mul_comm (16 ^ g.length) 16, Nat.mul_assoc]
    omega

theorem i6Val_lt (g : List UInt8) (h : ∀ c ∈ g, I6IsHex c) : i6Val g < 16 ^ g.length := by
  have := i6Val_lt_aux g h 0
  unfold i6Val
  omega

theorem I6Hex4.val_lt {g : List UInt8} (h : I6Hex4 g) : i6Val g < 65536 := by
  have h1 := i6Val_lt g h.2
  have h2 : 16 ^ g.length ≤ 16 ^ 4 := Nat.pow_le_pow_right (by omega) h.1
  omega

theorem I6Hex4_nil : I6Hex4 [] := ⟨by simp, fun c hc => by cases hc⟩

theorem I6Hex4.snoc {g : List UInt8} (h : I6Hex4 g) (hl : g.length < 4) {c : UInt8} (hc : I6IsHex c) :
    I6Hex4 (g ++ [c]) := by
  refine ⟨by simp; omega, fun x hx => ?_⟩
  rcases List.mem_append.1 hx with hx | hx
  · exact h.2 x hx
  · rw [List.mem_singleton.1 hx]; exact hc

theorem i6_colon_not_hex : ¬ I6IsHex 58 := by decide

/-! ### the text of groups -/

/-- completed groups (each followed by a colon) and the digits of the group being read -/
def i6T : List (List UInt8) → List UInt8 → List UInt8
  | [], cur => cur
  | g :: gs, cur => g ++ 58 :: i6T gs cur

theorem i6T_snoc (gs : List (List UInt8)) (cur : List UInt8) (c : UInt8) :
    i6T gs cur ++ [c] = i6T gs (cur ++ [c]) := by
  induction gs with
  | nil => rfl
  | cons g gs ih => simp only [i6T, List.append_assoc, List.cons_append, ih]

theorem i6T_close (gs : List (List UInt8)) (cur : List UInt8) :
    i6T gs cur ++ [58] = i6T (gs ++ [cur]) [] := by
  induction gs with
  | nil => simp [i6T]
  | cons g gs ih => simp only [i6T, List.append_assoc, List.cons_append, ih]

theorem i6T_app (gs : List (List UInt8)) (cur w : List UInt8) :
    i6T gs cur ++ w = i6T gs (cur ++ w) := by
  induction gs with
  | nil => rfl
  | cons g gs ih => simp only [i6T, List.append_assoc, List.cons_append, ih]

/-- the bytes `[s, o)` of the buffer -/
def i6Seg (b : Buf) (s o : Nat) : List UInt8 := (b.toList.drop s).take (o - s)

theorem i6Seg_self (b : Buf) (s : Nat) : i6Seg b s s = [] := by simp [i6Seg]

theorem i6Seg_snoc {b : Buf} {s o : Nat} {c : UInt8} (h : b[o]? = some c) (hs : s ≤ o) :
    i6Seg b s (o + 1) = i6Seg b s o ++ [c] := by
  unfold i6Seg
  have e : o + 1 - s = (o - s) + 1 := by omega
  rw [e, List.take_add_one]
  congr 1
  rw [List.getElem?_drop]
  have e2 : s + (o - s) = o := by omega
  rw [e2]
  have : b.toList[o]? = some c := by simpa using h
  rw [this]; rfl

/-! ### one step of the scanner -/

theorem i6_loop_none {b : Buf} {o : Nat} (st : IP6St) (h : b[o]? = none) : ip6Loop b o st = .loopEnd o st := by
  rw [ip6Loop]
  split
  · rfl
  · rename_i c hc; rw [h] at hc; cases hc

/-- the scanner at a byte `c`: the body of the loop, with the recursive calls left in place -/
theorem i6_loop_some {b : Buf} {o : Nat} (st : IP6St) {c : UInt8} (h : b[o]? = some c) :
    ip6Loop b o st =
      if c == 58 then
        if st.colonsNo + 1 > 7 && (st.colonsNo + 1 > 8 || (!st.use2 && !st.foundColon)) then
          .gotoEnd o { st with colonsNo := st.colonsNo + 1, err := .badChar }
        else if st.foundColon then
          if st.use2 then .ret o .bad
          else ip6Loop b (o + 1) { st with colonsNo := st.colonsNo + 1, i1 := st.i, i := 0, use2 := true }
        else ip6Loop b (o + 1) { st with colonsNo := st.colonsNo + 1, foundColon := true, i := st.i + 1, digits := 0 }
      else if hexDigToI c ≥ 0 then
        if st.digits + 1 > 4 then .loopEnd o { st with foundColon := false, digits := st.digits + 1, err := .moreValues }
        else if st.i ≥ 8 then .loopEnd o { st with foundColon := false, digits := st.digits + 1, pnc := true }
        else if st.use2 then
          ip6Loop b (o + 1) { st with foundColon := false, digits := st.digits + 1,
                                      a2 := st.a2.set! st.i ((st.a2[st.i]! * 16 + (hexDigToI c).toNat) % 65536) }
        else
          ip6Loop b (o + 1) { st with foundColon := false, digits := st.digits + 1,
                                      a1 := st.a1.set! st.i ((st.a1[st.i]! * 16 + (hexDigToI c).toNat) % 65536) }
      else if st.bracketSt && c == 93 then .loopEnd o { st with bracketEnd := true }
      else .loopEnd o { st with err := .badChar } := by
  rw [ip6Loop]
  split
  · rename_i hc; rw [h] at hc; cases hc
  · rename_i c' hc
    rw [h] at hc; cases hc
    rfl

/-! ### what the scanner state stands for -/

/-- the text read so far, as the scanner sees it: the groups before the "::" (each followed by a colon; the first one
    may be empty: a text that starts with a colon), whether the second colon of "::" was read, the completed groups
    after it (each followed by a colon), and the digits of the group being read -/
structure I6G where
  pre : List (List UInt8) := []
  two : Bool := false
  post : List (List UInt8) := []
  cur : List UInt8 := []

/-- the bytes this stands for -/
def I6G.text (g : I6G) : List UInt8 :=
  if g.two then i6T g.pre [] ++ 58 :: i6T g.post g.cur else i6T g.pre g.cur

/-- number of colons in `text` -/
def I6G.colons (g : I6G) : Nat := g.pre.length + (if g.two then 1 + g.post.length else 0)

structure I6G.WF (g : I6G) : Prop where
  pre4 : ∀ x ∈ g.pre, I6Hex4 x
  preNe : ∀ x ∈ g.pre.drop 1, x ≠ []
  postG : ∀ x ∈ g.post, I6Grp x
  cur4 : I6Hex4 g.cur
  one : g.two = false → g.post = [] ∧ g.pre.length ≤ 7
  tw : g.two = true → g.pre ≠ [] ∧ g.pre.length + 1 + g.post.length ≤ 8

/-- contents of the first word buffer -/
def I6G.v1 (g : I6G) (k : Nat) : Nat :=
  if k < g.pre.length then i6Val g.pre[k]! else if k = g.pre.length ∧ g.two = false then i6Val g.cur else 0

/-- contents of the second word buffer -/
def I6G.v2 (g : I6G) (k : Nat) : Nat :=
  if g.two = false then 0 else if k < g.post.length then i6Val g.post[k]!
  else if k = g.post.length then i6Val g.cur else 0

structure I6Rep (st : IP6St) (g : I6G) : Prop where
  wf : g.WF
  use2 : st.use2 = g.two
  colons : st.colonsNo = g.colons
  idx : st.i = if g.two then g.post.length else g.pre.length
  i1 : g.two = true → st.i1 = g.pre.length
  digits : st.digits = g.cur.length
  fc : st.foundColon = (g.cur.isEmpty && !g.pre.isEmpty)
  s1 : st.a1.size = 8
  s2 : st.a2.size = 8
  a1 : ∀ k, st.a1[k]! = g.v1 k
  a2 : ∀ k, st.a2[k]! = g.v2 k
  pnc : st.pnc = false
  err : st.err = .ok
  bend : st.bracketEnd = false

theorem i6_rep_init (br : Bool) : I6Rep ({ bracketSt := br } : IP6St) {} := by
  refine ⟨⟨?_, ?_, ?_, I6Hex4_nil, ?_, ?_⟩, rfl, rfl, rfl, ?_, rfl, rfl, rfl, rfl, ?_, ?_, rfl, rfl, rfl⟩
  · intro x hx; cases hx
  · intro x hx; cases hx
  · intro x hx; cases hx
  · intro _; exact ⟨rfl, by simp⟩
  · intro h; cases h
  · intro h; cases h
  · intro k
    show (Array.replicate 8 0)[k]! = _
    simp only [I6G.v1, List.length_nil, Nat.not_lt_zero, ↓reduceIte, i6Val_nil]
    rcases Nat.lt_or_ge k 8 with hk | hk
    · simp [hk]
    · simp [hk]
  · intro k
    show (Array.replicate 8 0)[k]! = _
    simp only [I6G.v2, ↓reduceIte]
    rcases Nat.lt_or_ge k 8 with hk | hk
    · simp [hk]
    · simp [hk]

theorem I6Rep.i_lt {st : IP6St} {g : I6G} (h : I6Rep st g) : st.i < 8 := by
  rw [h.idx]
  cases ht : g.two
  · have := (h.wf.one ht).2; simp; omega
  · have := (h.wf.tw ht).2
    have hp : g.pre.length ≠ 0 := fun hh => (h.wf.tw ht).1 (List.eq_nil_of_length_eq_zero hh)
    simp; omega

theorem i6_word {x : Nat} {g : List UInt8} {c : UInt8} (hx : x = i6Val g) (hg : I6Hex4 (g ++ [c])) (hc : I6IsHex c) :
    (x * 16 + (hexDigToI c).toNat) % 65536 = i6Val (g ++ [c]) := by
  rw [i6_hexDig_val c hc, hx, ← i6Val_snoc]
  exact Nat.mod_eq_of_lt hg.val_lt

/-- a hex digit that is accepted extends the current group (before "::") -/
theorem i6_rep_hex1 {st : IP6St} {g : I6G} (h : I6Rep st g) {c : UInt8} (hc : I6IsHex c) (hl : g.cur.length < 4)
    (ht : g.two = false) :
    I6Rep { st with foundColon := false, digits := st.digits + 1,
                    a1 := st.a1.set! st.i ((st.a1[st.i]! * 16 + (hexDigToI c).toNat) % 65536) }
      { g with cur := g.cur ++ [c] } := by
  have hcur := h.wf.cur4.snoc hl hc
  have hi : st.i = g.pre.length := by rw [h.idx, ht]; rfl
  refine ⟨⟨h.wf.pre4, h.wf.preNe, h.wf.postG, hcur, h.wf.one, h.wf.tw⟩, h.use2, h.colons, h.idx, h.i1, ?_, ?_, ?_,
    h.s2, ?_, ?_, h.pnc, h.err, h.bend⟩
  · show st.digits + 1 = (g.cur ++ [c]).length
    rw [h.digits]; simp
  · show false = ((g.cur ++ [c]).isEmpty && !g.pre.isEmpty)
    simp
  · show (st.a1.set! st.i _).size = 8
    simp [h.s1]
  rotate_left
  · intro k
    show st.a2[k]! = I6G.v2 { g with cur := g.cur ++ [c] } k
    rw [h.a2]
    simp only [I6G.v2, ht, ↓reduceIte]
  · intro k
    show (st.a1.set! st.i _)[k]! = I6G.v1 { g with cur := g.cur ++ [c] } k
    by_cases hk : st.i = k
    · subst hk
      rw [set!_get_same _ _ _ (by rw [h.s1]; exact h.i_lt)]
      have hx : st.a1[st.i]! = i6Val g.cur := by
        rw [h.a1, I6G.v1, hi, if_neg (Nat.lt_irrefl _), if_pos ⟨rfl, ht⟩]
      rw [i6_word hx hcur hc]
      simp only [I6G.v1, hi, Nat.lt_irrefl, ↓reduceIte, ht, and_self]
    · rw [set!_get_ne _ _ _ _ hk, h.a1]
      have hk' : ¬ k = g.pre.length := fun e => hk (by rw [hi, e])
      simp only [I6G.v1, hk', false_and, ↓reduceIte]

/-- a hex digit that is accepted extends the current group (after "::") -/
theorem i6_rep_hex2 {st : IP6St} {g : I6G} (h : I6Rep st g) {c : UInt8} (hc : I6IsHex c) (hl : g.cur.length < 4)
    (ht : g.two = true) :
    I6Rep { st with foundColon := false, digits := st.digits + 1,
                    a2 := st.a2.set! st.i ((st.a2[st.i]! * 16 + (hexDigToI c).toNat) % 65536) }
      { g with cur := g.cur ++ [c] } := by
  have hcur := h.wf.cur4.snoc hl hc
  have hi : st.i = g.post.length := by rw [h.idx, ht]; rfl
  refine ⟨⟨h.wf.pre4, h.wf.preNe, h.wf.postG, hcur, h.wf.one, h.wf.tw⟩, h.use2, h.colons, h.idx, h.i1, ?_, ?_, h.s1,
    ?_, ?_, ?_, h.pnc, h.err, h.bend⟩
  · show st.digits + 1 = (g.cur ++ [c]).length
    rw [h.digits]; simp
  · show false = ((g.cur ++ [c]).isEmpty && !g.pre.isEmpty)
    simp
  · show (st.a2.set! st.i _).size = 8
    simp [h.s2]
  · intro k
    show st.a1[k]! = I6G.v1 { g with cur := g.cur ++ [c] } k
    rw [h.a1]
    simp only [I6G.v1, ht, Bool.true_eq_false, and_false, ↓reduceIte]
  · intro k
    show (st.a2.set! st.i _)[k]! = I6G.v2 { g with cur := g.cur ++ [c] } k
    by_cases hk : st.i = k
    · subst hk
      rw [set!_get_same _ _ _ (by rw [h.s2]; exact h.i_lt)]
      have hx : st.a2[st.i]! = i6Val g.cur := by
        rw [h.a2, I6G.v2, hi, if_neg (by rw [ht]; simp), if_neg (Nat.lt_irrefl _), if_pos rfl]
      rw [i6_word hx hcur hc]
      simp only [I6G.v2, hi, Nat.lt_irrefl, ↓reduceIte, ht, Bool.true_eq_false]
    · rw [set!_get_ne _ _ _ _ hk, h.a2]
      have hk' : ¬ k = g.post.length := fun e => hk (by rw [hi, e])
      simp only [I6G.v2, hk', ↓reduceIte]

theorem i6_get_snoc_lt {α : Type} [Inhabited α] (l : List α) (x : α) {k : Nat} (h : k < l.length) :
    (l ++ [x])[k]! = l[k]! := by
  simp [List.getElem?_append_left h]

theorem i6_get_snoc_eq {α : Type} [Inhabited α] (l : List α) (x : α) : (l ++ [x])[l.length]! = x := by
  simp

theorem i6_mem_drop1_snoc {α : Type} {l : List α} {c x : α} (h : x ∈ (l ++ [c]).drop 1) :
    x ∈ l.drop 1 ∨ (x = c ∧ l ≠ []) := by
  cases l with
  | nil => simp at h
  | cons p ps =>
    simp only [List.cons_append, List.drop_succ_cons, List.drop_zero] at h ⊢
    rcases List.mem_append.1 h with h | h
    · exact Or.inl h
    · exact Or.inr ⟨List.mem_singleton.1 h, by simp⟩

/-- a single colon closes the current group (before "::") -/
theorem i6_rep_colon1 {st : IP6St} {g : I6G} (h : I6Rep st g) (ht : g.two = false) (hfc : st.foundColon = false)
    (hlen : g.pre.length + 1 ≤ 7) :
    I6Rep { st with colonsNo := st.colonsNo + 1, foundColon := true, i := st.i + 1, digits := 0 }
      { g with pre := g.pre ++ [g.cur], cur := [] } := by
  have hi : st.i = g.pre.length := by rw [h.idx, ht]; rfl
  have hpost := (h.wf.one ht).1
  refine ⟨⟨?_, ?_, h.wf.postG, I6Hex4_nil, fun _ => ⟨hpost, by simp; omega⟩, fun h2 => ?_⟩, h.use2, ?_, ?_, ?_, rfl,
    ?_, h.s1, h.s2, ?_, ?_, h.pnc, h.err, h.bend⟩
  · intro x hx
    rcases List.mem_append.1 hx with hx | hx
    · exact h.wf.pre4 x hx
    · rw [List.mem_singleton.1 hx]; exact h.wf.cur4
  · intro x hx
    rcases i6_mem_drop1_snoc hx with hx | ⟨hx, hne⟩
    · exact h.wf.preNe x hx
    · rw [hx]
      intro hcur
      have := h.fc
      rw [hfc, hcur] at this
      cases hp : g.pre with
      | nil => exact hne hp
      | cons p ps => rw [hp] at this; simp at this
  · have : g.two = true := h2
    rw [ht] at this; cases this
  · show st.colonsNo + 1 = I6G.colons { g with pre := g.pre ++ [g.cur], cur := [] }
    rw [h.colons]
    simp [I6G.colons, ht]
  · show st.i + 1 = if g.two then g.post.length else (g.pre ++ [g.cur]).length
    rw [hi, ht]; simp
  · intro h2
    have : g.two = true := h2
    rw [ht] at this; cases this
  · show true = (([] : List UInt8).isEmpty && !(g.pre ++ [g.cur]).isEmpty)
    simp
  · intro k
    show st.a1[k]! = I6G.v1 { g with pre := g.pre ++ [g.cur], cur := [] } k
    rw [h.a1]
    simp only [I6G.v1, ht, and_true, List.length_append, List.length_singleton, i6Val_nil]
    rcases Nat.lt_trichotomy k g.pre.length with hk | hk | hk
    · rw [if_pos hk, if_pos (by omega), i6_get_snoc_lt _ _ hk]
    · subst hk
      rw [if_neg (Nat.lt_irrefl _), if_pos rfl, if_pos (by omega), i6_get_snoc_eq]
    · rw [if_neg (by omega), if_neg (by omega), if_neg (by omega)]
      split <;> rfl
  · intro k
    show st.a2[k]! = I6G.v2 { g with pre := g.pre ++ [g.cur], cur := [] } k
    rw [h.a2]
    simp only [I6G.v2, ht, ↓reduceIte]

/-- the second colon of "::" -/
theorem i6_rep_colon2 {st : IP6St} {g : I6G} (h : I6Rep st g) (ht : g.two = false) (hfc : st.foundColon = true) :
    I6Rep { st with colonsNo := st.colonsNo + 1, i1 := st.i, i := 0, use2 := true } { g with two := true } := by
  have hi : st.i = g.pre.length := by rw [h.idx, ht]; rfl
  have hpost := (h.wf.one ht).1
  have hf := h.fc
  rw [hfc] at hf
  have hcur : g.cur = [] := by
    have : g.cur.isEmpty = true := by
      cases hh : g.cur.isEmpty
      · rw [hh] at hf; simp at hf
      · rfl
    exact List.isEmpty_iff.1 this
  have hpre : g.pre ≠ [] := by
    intro hp; rw [hp] at hf; simp at hf
  refine ⟨⟨h.wf.pre4, h.wf.preNe, h.wf.postG, h.wf.cur4, (fun h2 => by cases h2), fun _ => ⟨hpre, ?_⟩⟩, rfl, ?_, ?_,
    fun _ => hi, h.digits, h.fc, h.s1, h.s2, ?_, ?_, h.pnc, h.err, h.bend⟩
  · show g.pre.length + 1 + g.post.length ≤ 8
    have := (h.wf.one ht).2
    rw [hpost]; simp; omega
  · show st.colonsNo + 1 = I6G.colons { g with two := true }
    rw [h.colons]
    simp [I6G.colons, ht, hpost]
  · show 0 = if true then g.post.length else g.pre.length
    rw [hpost]; rfl
  · intro k
    show st.a1[k]! = I6G.v1 { g with two := true } k
    rw [h.a1]
    simp only [I6G.v1, ht, and_true, Bool.true_eq_false, and_false, ↓reduceIte, hcur, i6Val_nil]
    split
    · rfl
    · split <;> rfl
  · intro k
    show st.a2[k]! = I6G.v2 { g with two := true } k
    rw [h.a2]
    simp only [I6G.v2, ht, ↓reduceIte, Bool.true_eq_false, hpost, List.length_nil, Nat.not_lt_zero, hcur, i6Val_nil]
    split <;> rfl

/-- a single colon closes the current group (after "::") -/
theorem i6_rep_colon3 {st : IP6St} {g : I6G} (h : I6Rep st g) (ht : g.two = true) (hfc : st.foundColon = false)
    (hlen : g.pre.length + 1 + g.post.length + 1 ≤ 8) :
    I6Rep { st with colonsNo := st.colonsNo + 1, foundColon := true, i := st.i + 1, digits := 0 }
      { g with post := g.post ++ [g.cur], cur := [] } := by
  have hi : st.i = g.post.length := by rw [h.idx, ht]; rfl
  have hpre := (h.wf.tw ht).1
  have hcur : g.cur ≠ [] := by
    intro hcur
    have := h.fc
    rw [hfc, hcur] at this
    cases hp : g.pre with
    | nil => exact hpre hp
    | cons p ps => rw [hp] at this; simp at this
  refine ⟨⟨h.wf.pre4, h.wf.preNe, ?_, I6Hex4_nil, fun h2 => ?_, fun _ => ⟨hpre, by simp; omega⟩⟩, h.use2, ?_, ?_, h.i1,
    rfl, ?_, h.s1, h.s2, ?_, ?_, h.pnc, h.err, h.bend⟩
  · intro x hx
    rcases List.mem_append.1 hx with hx | hx
    · exact h.wf.postG x hx
    · rw [List.mem_singleton.1 hx]
      exact ⟨by cases hc : g.cur with
                | nil => exact absurd hc hcur
                | cons a as => simp, h.wf.cur4⟩
  · have : g.two = false := h2
    rw [ht] at this; cases this
  · show st.colonsNo + 1 = I6G.colons { g with post := g.post ++ [g.cur], cur := [] }
    rw [h.colons]
    simp [I6G.colons, ht]; omega
  · show st.i + 1 = if g.two then (g.post ++ [g.cur]).length else g.pre.length
    rw [hi, ht]; simp
  · show true = (([] : List UInt8).isEmpty && !g.pre.isEmpty)
    cases hp : g.pre with
    | nil => exact absurd hp hpre
    | cons p ps => simp
  · intro k
    show st.a1[k]! = I6G.v1 { g with post := g.post ++ [g.cur], cur := [] } k
    rw [h.a1]
    simp only [I6G.v1, ht, Bool.true_eq_false, and_false, ↓reduceIte]
  · intro k
    show st.a2[k]! = I6G.v2 { g with post := g.post ++ [g.cur], cur := [] } k
    rw [h.a2]
    simp only [I6G.v2, ht, Bool.true_eq_false, ↓reduceIte, List.length_append, List.length_singleton, i6Val_nil]
    rcases Nat.lt_trichotomy k g.post.length with hk | hk | hk
    · rw [if_pos hk, if_pos (by omega), i6_get_snoc_lt _ _ hk]
    · subst hk
      rw [if_neg (Nat.lt_irrefl _), if_pos rfl, if_pos (by omega), i6_get_snoc_eq]
    · rw [if_neg (by omega), if_neg (by omega), if_neg (by omega)]
      split <;> rfl

/-! ### steps of the scanner in terms of the text read -/

/-- the text after a colon -/
def I6G.colon (g : I6G) : I6G :=
  if g.two then { g with post := g.post ++ [g.cur], cur := [] }
  else if g.cur.isEmpty && !g.pre.isEmpty then { g with two := true }
  else { g with pre := g.pre ++ [g.cur], cur := [] }

/-- the text after a hex digit -/
def I6G.hex (g : I6G) (c : UInt8) : I6G := { g with cur := g.cur ++ [c] }

theorem I6G.text_hex (g : I6G) (c : UInt8) : (g.hex c).text = g.text ++ [c] := by
  unfold I6G.hex I6G.text
  cases g.two
  · simp only [Bool.false_eq_true, ↓reduceIte]; rw [i6T_snoc]
  · simp only [↓reduceIte, List.append_assoc, List.cons_append]; rw [i6T_snoc]

theorem I6G.text_colon (g : I6G) (h : g.two = false → g.post = []) : g.colon.text = g.text ++ [58] := by
  unfold I6G.colon I6G.text
  cases ht : g.two
  · simp only [Bool.false_eq_true, ↓reduceIte]
    have hp := h ht
    cases hf : (g.cur.isEmpty && !g.pre.isEmpty)
    · simp only [Bool.false_eq_true, ↓reduceIte]; rw [i6T_close]
    · simp only [↓reduceIte]
      have hc : g.cur = [] := by
        cases hh : g.cur with
        | nil => rfl
        | cons a as => rw [hh] at hf; simp at hf
      rw [hp, hc]; rfl
  · simp only [↓reduceIte, List.append_assoc, List.cons_append]; rw [i6T_close]

theorem i6_beq58 {c : UInt8} (h : I6IsHex c) : (c == 58) = false := by
  cases hc : c == 58
  · rfl
  · rw [beq_iff_eq] at hc; subst hc; exact absurd h i6_colon_not_hex

theorem i6_step_hex {b : Buf} {o : Nat} {st : IP6St} {g : I6G} {c : UInt8} (h : I6Rep st g) (hb : b[o]? = some c)
    (hc : I6IsHex c) (hl : g.cur.length < 4) :
    ∃ st', ip6Loop b o st = ip6Loop b (o + 1) st' ∧ I6Rep st' (g.hex c) ∧ st'.bracketSt = st.bracketSt := by
  rw [i6_loop_some st hb, i6_beq58 hc]
  simp only [Bool.false_eq_true, ↓reduceIte]
  rw [if_pos ((i6_hexDig_nonneg c).2 hc), if_neg (by rw [h.digits]; omega), if_neg (by have := h.i_lt; omega)]
  cases ht : g.two
  · rw [if_neg (by rw [h.use2, ht]; simp)]
    exact ⟨_, rfl, i6_rep_hex1 h hc hl ht, rfl⟩
  · rw [if_pos (by rw [h.use2, ht])]
    exact ⟨_, rfl, i6_rep_hex2 h hc hl ht, rfl⟩

theorem i6_step_colon {b : Buf} {o : Nat} {st : IP6St} {g : I6G} (h : I6Rep st g) (hb : b[o]? = some 58)
    (hgo : (decide (st.colonsNo + 1 > 7) && (decide (st.colonsNo + 1 > 8) || (!st.use2 && !st.foundColon))) = false)
    (hnr : (st.foundColon && st.use2) = false) :
    ∃ st', ip6Loop b o st = ip6Loop b (o + 1) st' ∧ I6Rep st' g.colon ∧ st'.bracketSt = st.bracketSt := by
  rw [i6_loop_some st hb]
  simp only [beq_self_eq_true, ↓reduceIte, hgo, Bool.false_eq_true]
  have hcol := h.colons
  unfold I6G.colons at hcol
  by_cases ht : g.two = true
  · have hu : st.use2 = true := by rw [h.use2, ht]
    rw [ht] at hcol
    simp only [↓reduceIte] at hcol
    have hf : st.foundColon = false := by
      cases hf : st.foundColon
      · rfl
      · rw [hf, hu] at hnr; simp at hnr
    have hg : g.colon = { g with post := g.post ++ [g.cur], cur := [] } := by
      unfold I6G.colon; rw [if_pos ht]
    rw [hg, if_neg (by rw [hf]; simp)]
    rw [hu, hf] at hgo
    simp at hgo
    exact ⟨_, rfl, i6_rep_colon3 h ht hf (by omega), rfl⟩
  · have ht : g.two = false := by simpa using ht
    have hu : st.use2 = false := by rw [h.use2, ht]
    rw [ht] at hcol
    simp only [Bool.false_eq_true, ↓reduceIte, Nat.add_zero] at hcol
    by_cases hf : st.foundColon = true
    · have hg : g.colon = { g with two := true } := by
        unfold I6G.colon; rw [if_neg (by rw [ht]; simp), if_pos (by rw [← h.fc]; exact hf)]
      rw [hg, if_pos hf, if_neg (by rw [hu]; simp)]
      exact ⟨_, rfl, i6_rep_colon2 h ht hf, rfl⟩
    · have hf : st.foundColon = false := by simpa using hf
      have hg : g.colon = { g with pre := g.pre ++ [g.cur], cur := [] } := by
        unfold I6G.colon; rw [if_neg (by rw [ht]; simp), if_neg (by rw [← h.fc, hf]; simp)]
      rw [hg, if_neg (by rw [hf]; simp)]
      rw [hu, hf] at hgo
      simp at hgo
      exact ⟨_, rfl, i6_rep_colon1 h ht hf (by omega), rfl⟩

/-- the scanner stops at `o` in state `st`: end of input, a colon that is not accepted, a fifth hex digit, or a byte
    that is neither -/
def I6Halt (b : Buf) (o : Nat) (st : IP6St) : Prop :=
  ∀ c, b[o]? = some c →
    (c = 58 → (decide (st.colonsNo + 1 > 7) && (decide (st.colonsNo + 1 > 8) || (!st.use2 && !st.foundColon))) = true ∨
              (st.foundColon && st.use2) = true) ∧
    (I6IsHex c → 4 ≤ st.digits)

/-- the loop runs up to a position where it stops; the state there stands for the bytes read -/
theorem i6_run (b : Buf) (s : Nat) : ∀ (n o : Nat) (st : IP6St) (g : I6G), b.size - o = n → I6Rep st g → s ≤ o →
    i6Seg b s o = g.text → o = s + g.text.length →
    ∃ o' st' g', I6Rep st' g' ∧ o ≤ o' ∧ i6Seg b s o' = g'.text ∧ st'.bracketSt = st.bracketSt ∧
      ip6Loop b o st = ip6Loop b o' st' ∧ I6Halt b o' st' ∧ o' = s + g'.text.length := by
  intro n
  induction n with
  | zero =>
    intro o st g hn hrep hs htxt hlen
    refine ⟨o, st, g, hrep, Nat.le_refl _, htxt, rfl, rfl, ?_, hlen⟩
    intro c hc
    have := get?_lt hc
    omega
  | succ n ih =>
    intro o st g hn hrep hs htxt hlen
    cases hb : b[o]? with
    | none =>
      refine ⟨o, st, g, hrep, Nat.le_refl _, htxt, rfl, rfl, ?_, hlen⟩
      intro c hc; rw [hb] at hc; cases hc
    | some c =>
      by_cases hhalt : I6Halt b o st
      · exact ⟨o, st, g, hrep, Nat.le_refl _, htxt, rfl, rfl, hhalt, hlen⟩
      · have hstep : ∃ st' g', ip6Loop b o st = ip6Loop b (o + 1) st' ∧ I6Rep st' g' ∧
            st'.bracketSt = st.bracketSt ∧ g'.text = g.text ++ [c] := by
          by_cases h58 : c = 58
          · subst h58
            have hgo : (decide (st.colonsNo + 1 > 7) &&
                (decide (st.colonsNo + 1 > 8) || (!st.use2 && !st.foundColon))) = false := by
              cases hh : (decide (st.colonsNo + 1 > 7) &&
                (decide (st.colonsNo + 1 > 8) || (!st.use2 && !st.foundColon)))
              · rfl
              · exfalso; apply hhalt
                intro c hc; rw [hb] at hc; cases hc
                exact ⟨fun _ => Or.inl hh, fun hx => absurd hx i6_colon_not_hex⟩
            have hnr : (st.foundColon && st.use2) = false := by
              cases hh : (st.foundColon && st.use2)
              · rfl
              · exfalso; apply hhalt
                intro c hc; rw [hb] at hc; cases hc
                exact ⟨fun _ => Or.inr hh, fun hx => absurd hx i6_colon_not_hex⟩
            obtain ⟨st', h1, h2, h3⟩ := i6_step_colon hrep hb hgo hnr
            exact ⟨st', _, h1, h2, h3, g.text_colon (fun ht => (hrep.wf.one ht).1)⟩
          · have hx : I6IsHex c ∧ st.digits < 4 := by
              by_cases hx : I6IsHex c ∧ st.digits < 4
              · exact hx
              · exfalso; apply hhalt
                intro c' hc; rw [hb] at hc; cases hc
                refine ⟨fun e => absurd e h58, fun hh => ?_⟩
                rcases Nat.lt_or_ge st.digits 4 with hd | hd
                · exact absurd ⟨hh, hd⟩ hx
                · exact hd
            obtain ⟨st', h1, h2, h3⟩ := i6_step_hex hrep hb hx.1 (by rw [← hrep.digits]; exact hx.2)
            exact ⟨st', _, h1, h2, h3, g.text_hex c⟩
        obtain ⟨st', g', h1, h2, h3, h4⟩ := hstep
        have hlt := get?_lt hb
        obtain ⟨o', st'', g'', r1, r2, r3, r4, r5, r6, r7⟩ :=
          ih (o + 1) st' g' (by omega) h2 (by omega) (by rw [i6Seg_snoc hb hs, htxt, h4])
            (by rw [h4, List.length_append, List.length_singleton]; omega)
        exact ⟨o', st'', g'', r1, by omega, r3, by rw [r4, h3], by rw [h1, r5], r6, r7⟩

/-! ### the code after the loop -/

/-- the word buffer after the "::" fix-up (`copy(addrBuf1[i1+rest:], addrBuf2[:i])`) -/
def i6Fix (st : IP6St) : Array Nat :=
  if st.use2 then (List.range (min st.i 8)).foldl (fun a k => a.set! (8 - st.i + k) (st.a2[k]!)) st.a1 else st.a1

theorem i6_fold_copy (a1 a2 : Array Nat) (i : Nat) (n : Nat) :
    ((List.range n).foldl (fun a k => a.set! (8 - i + k) (a2[k]!)) a1).size = a1.size ∧
    ∀ k, k < a1.size → ((List.range n).foldl (fun a k => a.set! (8 - i + k) (a2[k]!)) a1)[k]! =
      if 8 - i ≤ k ∧ k < 8 - i + n then a2[k - (8 - i)]! else a1[k]! := by
  induction n with
  | zero =>
    refine ⟨rfl, fun k _ => ?_⟩
    rw [if_neg (by omega)]; rfl
  | succ n ih =>
    rw [List.range_succ, List.foldl_append]
    simp only [List.foldl_cons, List.foldl_nil]
    refine ⟨by rw [← ih.1]; simp, fun k hk => ?_⟩
    by_cases hkn : 8 - i + n = k
    · rw [← hkn, set!_get_same _ _ _ (by rw [ih.1]; omega), if_pos (by omega)]
      congr 1; omega
    · rw [set!_get_ne _ _ _ _ hkn, ih.2 k hk]
      by_cases hc : 8 - i ≤ k ∧ k < 8 - i + n
      · rw [if_pos hc, if_pos (by omega)]
      · rw [if_neg hc, if_neg (by omega)]

theorem i6Fix_val (st : IP6St) (hs : st.a1.size = 8) (hi : st.i ≤ 8) :
    (i6Fix st).size = 8 ∧
    ∀ k, k < 8 → (i6Fix st)[k]! = if st.use2 = true ∧ 8 - st.i ≤ k then st.a2[k - (8 - st.i)]! else st.a1[k]! := by
  unfold i6Fix
  cases hu : st.use2
  · simp only [Bool.false_eq_true, ↓reduceIte, false_and]
    exact ⟨hs, fun _ _ => trivial⟩
  · simp only [↓reduceIte, true_and]
    have := i6_fold_copy st.a1 st.a2 st.i (min st.i 8)
    refine ⟨by rw [this.1, hs], fun k hk => ?_⟩
    rw [this.2 k (by omega)]
    have hm : min st.i 8 = st.i := Nat.min_eq_left hi
    rw [hm]
    by_cases hc : 8 - st.i ≤ k
    · rw [if_pos ⟨hc, by omega⟩, if_pos hc]
    · rw [if_neg (fun h => hc h.1), if_neg hc]

/-- the verdict of an address that is complete: brackets and what stopped the loop -/
def i6Fin (b : Buf) (s o : Nat) (bst bend : Bool) (err : Err) (a : Array Nat) (p : Bool) :
    Bool × Nat × Err × Array Nat × Bool :=
  if err == .ok then
    if bst then
      if bend then (true, o + 1 - s, (if o + 1 < b.size then .moreValues else .ok), a, p)
      else (true, o - s, .moreBytes, a, p)
    else if bend then (true, o - s, .badChar, a, p)
    else (true, o - s, .ok, a, p)
  else if err == .moreValues then
    if bst && !bend then (false, o - s, .bad, a, p) else (true, o - s, err, a, p)
  else if err == .badChar && bst then (false, o - s, .bad, a, p)
  else (true, o - s, err, a, p)

theorem i6_end_acc (b : Buf) (s o : Nat) (st : IP6St) (h1 : (st.digits == 0 && !st.foundColon) = false)
    (h2 : (!st.use2 && (decide (st.colonsNo < 7) || st.digits == 0)) = false) :
    ip6End b s o st = i6Fin b s o st.bracketSt st.bracketEnd st.err (i6Fix st)
      (st.pnc || (st.use2 && decide (st.i > 8))) := by
  unfold ip6End i6Fin i6Fix
  simp only [h1, h2, Bool.false_eq_true, ↓reduceIte]

theorem i6_end_early (b : Buf) (s o : Nat) (st : IP6St)
    (h2 : (!st.use2 && (decide (st.colonsNo < 7) || st.digits == 0)) = true) :
    ip6End b s o st = (false, o - s,
      (if (st.digits == 0 && !st.foundColon) = false ∧ st.err = .ok ∧ st.bracketEnd = false then .moreBytes else .bad),
      st.a1, st.pnc) := by
  unfold ip6End
  simp only [h2, ↓reduceIte]
  cases h1 : (st.digits == 0 && !st.foundColon)
  · simp only [Bool.false_eq_true, ↓reduceIte, true_and]
    cases he : st.err <;> cases hb : st.bracketEnd <;> simp
  · simp only [↓reduceIte, Bool.true_eq_false, false_and]
    cases hb : st.bracketEnd <;> simp

/-! ### the value of the address -/

/-- the eight 16-bit groups: the groups before "::", zero groups, the groups after it -/
def i6Value (pre tail : List (List UInt8)) : List Nat :=
  pre.map i6Val ++ List.replicate (8 - pre.length - tail.length) 0 ++ tail.map i6Val

theorem i6Value_length (pre tail : List (List UInt8)) (h : pre.length + tail.length ≤ 8) :
    (i6Value pre tail).length = 8 := by
  simp [i6Value]; omega

theorem i6Value_get (pre tail : List (List UInt8)) (h : pre.length + tail.length ≤ 8) (k : Nat) (hk : k < 8) :
    (i6Value pre tail)[k]! =
      if k < pre.length then i6Val pre[k]! else if k < 8 - tail.length then 0 else i6Val tail[k - (8 - tail.length)]! := by
  unfold i6Value
  rw [List.append_assoc]
  simp only [List.getElem!_eq_getElem?_getD]
  by_cases h1 : k < pre.length
  · rw [if_pos h1, List.getElem?_append_left (by simpa using h1)]
    simp [h1]
  · rw [if_neg h1, List.getElem?_append_right (by simpa using h1)]
    simp only [List.length_map]
    by_cases h2 : k < 8 - tail.length
    · rw [if_pos h2, List.getElem?_append_left (by simp; omega)]
      rw [List.getElem?_replicate]; split <;> rfl
    · rw [if_neg h2, List.getElem?_append_right (by simp; omega)]
      simp only [List.length_replicate]
      have e : k - pre.length - (8 - pre.length - tail.length) = k - (8 - tail.length) := by omega
      rw [e]
      have h3 : k - (8 - tail.length) < tail.length := by omega
      simp [h3]

theorem i6_toList_eq (a : Array Nat) (l : List Nat) (hs : a.size = l.length) (h : ∀ k, k < l.length → a[k]! = l[k]!) :
    a.toList = l := by
  apply List.ext_getElem
  · simpa using hs
  · intro k h1 h2
    have := h k h2
    simp only [getElem!_pos, h2, hs ▸ h2] at this
    simpa using this
theorem i6_fix_value {st : IP6St} {g : I6G} (hrep : I6Rep st g) (st' : IP6St) (ha1 : st'.a1 = st.a1)
    (ha2 : st'.a2 = st.a2) (hu : st'.use2 = st.use2) (tail : List (List UInt8))
    (hi : g.two = true → st'.i = tail.length) (htail : tail = g.post ∨ tail = g.post ++ [g.cur])
    (hacc : g.two = false → g.pre.length = 7) :
    (i6Fix st').toList = if g.two then i6Value g.pre tail else i6Value (g.pre ++ [g.cur]) [] := by
  by_cases ht : g.two = true
  · rw [if_pos ht]
    have hw := (hrep.wf.tw ht).2
    have htl : tail.length ≤ g.post.length + 1 := by
      rcases htail with h | h <;> rw [h] <;> simp
    have hle : g.pre.length + tail.length ≤ 8 := by omega
    have hfix := i6Fix_val st' (by rw [ha1]; exact hrep.s1) (by rw [hi ht]; omega)
    apply i6_toList_eq
    · rw [hfix.1, i6Value_length _ _ hle]
    · intro k hk
      rw [i6Value_length _ _ hle] at hk
      rw [hfix.2 k hk, i6Value_get _ _ hle k hk, hi ht, ha1, ha2, hu, hrep.use2, hrep.a1, hrep.a2]
      simp only [I6G.v1, I6G.v2, ht, true_and, Bool.true_eq_false, and_false, ↓reduceIte]
      by_cases h1 : k < g.pre.length
      · rw [if_neg (by omega), if_pos h1, if_pos h1]
      · simp only [h1, ↓reduceIte]
        by_cases h2 : k < 8 - tail.length
        · rw [if_neg (by omega), if_pos h2]
        · rw [if_pos (by omega), if_neg h2]
          rcases htail with h | h
          · subst h
            rw [if_pos (by omega)]
          · subst h
            simp only [List.length_append, List.length_singleton] at h2 ⊢
            by_cases h3 : k - (8 - (g.post.length + 1)) < g.post.length
            · rw [if_pos h3, i6_get_snoc_lt _ _ h3]
            · have e : k - (8 - (g.post.length + 1)) = g.post.length := by omega
              rw [e, if_neg (Nat.lt_irrefl _), if_pos rfl, i6_get_snoc_eq]
  · have ht : g.two = false := by simpa using ht
    rw [if_neg (by rw [ht]; simp)]
    have h7 := hacc ht
    have hle : (g.pre ++ [g.cur]).length + ([] : List (List UInt8)).length ≤ 8 := by simp only [List.length_append, List.length_singleton, List.length_nil]; omega
    have hf : i6Fix st' = st.a1 := by
      unfold i6Fix; rw [hu, hrep.use2, ht, ← ha1]; rfl
    apply i6_toList_eq
    · rw [hf, hrep.s1, i6Value_length _ _ hle]
    · intro k hk
      rw [i6Value_length _ _ hle] at hk
      rw [hf, i6Value_get _ _ hle k hk, hrep.a1]
      simp only [I6G.v1, ht, and_true, List.length_append, List.length_singleton, h7]
      have hk8 : k < 7 + 1 := by omega
      rw [if_pos hk8]
      by_cases h1 : k < 7
      · rw [if_pos h1, i6_get_snoc_lt _ _ (by omega)]
      · have e : k = 7 := by omega
        subst e
        rw [if_neg h1, if_pos rfl]
        have := i6_get_snoc_eq g.pre g.cur
        rw [h7] at this; rw [this]

/-! ### complete and incomplete addresses at the end of the loop -/

/-- the address is complete: it has a "::", or eight groups the last of which is not empty -/
def I6G.Acc (g : I6G) : Prop := g.two = true ∨ (g.pre.length = 7 ∧ g.cur ≠ [])

/-- the groups after "::", the one being read included when it has digits -/
def I6G.tail (g : I6G) : List (List UInt8) := if g.cur.isEmpty then g.post else g.post ++ [g.cur]

/-- the eight words of a complete address -/
def I6G.value (g : I6G) : List Nat :=
  if g.two then i6Value g.pre g.tail else i6Value (g.pre ++ [g.cur]) []

/-- the opening bracket is taken only when another byte follows it -/
def i6Br (b : Buf) (s : Nat) : Bool :=
  match b[s]?, b[s + 1]? with
  | some c0, some _ => c0 == 91
  | _, _ => false

/-- what `IP6Prefix` does with the way the loop ended -/
def i6Post (b : Buf) (s : Nat) : IP6Exit → Bool × Nat × Err × Array Nat × Bool
  | .ret o e => (false, o - s, e, Array.replicate 8 0, false)
  | .gotoEnd o st => ip6End b s o st
  | .loopEnd o st => ip6End b s o (if !st.foundColon then { st with i := st.i + 1 } else st)

theorem i6_prefixAt_eq (b : Buf) (s : Nat) :
    ip6PrefixAt b s = i6Post b s (ip6Loop b (if i6Br b s then s + 1 else s) { bracketSt := i6Br b s }) := by
  unfold ip6PrefixAt i6Br
  simp only
  generalize ip6Loop b _ _ = x
  cases x <;> rfl

theorem i6_end_of_acc (b : Buf) (s o : Nat) {st : IP6St} {g : I6G} (hrep : I6Rep st g) (hacc : g.Acc) (stE : IP6St)
    (e1 : stE.a1 = st.a1) (e2 : stE.a2 = st.a2) (eu : stE.use2 = st.use2) (ep : stE.pnc = false)
    (ec : st.colonsNo ≤ stE.colonsNo) (hd : g.two = false → stE.digits ≠ 0)
    (hne : (stE.digits == 0 && !stE.foundColon) = false)
    (tail : List (List UInt8)) (hi : g.two = true → stE.i = tail.length)
    (htail : tail = g.post ∨ tail = g.post ++ [g.cur]) :
    ∃ a, a.toList = (if g.two then i6Value g.pre tail else i6Value (g.pre ++ [g.cur]) []) ∧
      ip6End b s o stE = i6Fin b s o stE.bracketSt stE.bracketEnd stE.err a false := by
  have h7 : g.two = false → g.pre.length = 7 := by
    intro ht
    rcases hacc with h | h
    · rw [ht] at h; cases h
    · exact h.1
  have h2 : (!stE.use2 && (decide (stE.colonsNo < 7) || stE.digits == 0)) = false := by
    rw [eu, hrep.use2]
    cases ht : g.two
    · have hc : 7 ≤ stE.colonsNo := by
        have := hrep.colons
        unfold I6G.colons at this
        rw [ht] at this
        simp only [Bool.false_eq_true, ↓reduceIte, Nat.add_zero] at this
        have := h7 ht
        omega
      have hdd := hd ht
      simp only [Bool.not_false, Bool.true_and, Bool.or_eq_false_iff, decide_eq_false_iff_not, Nat.not_lt,
        beq_eq_false_iff_ne, ne_eq]
      exact ⟨hc, hdd⟩
    · rfl
  have hp : (stE.pnc || (stE.use2 && decide (stE.i > 8))) = false := by
    rw [ep, eu, hrep.use2]
    cases ht : g.two
    · rfl
    · have hw := (hrep.wf.tw ht).2
      have htl : tail.length ≤ g.post.length + 1 := by
        rcases htail with h | h <;> rw [h] <;> simp
      have := hi ht
      simp only [Bool.false_or, Bool.true_and, decide_eq_false_iff_not, Nat.not_lt, ge_iff_le, gt_iff_lt]
      omega
  refine ⟨i6Fix stE, i6_fix_value hrep stE e1 e2 eu tail hi htail h7, ?_⟩
  rw [i6_end_acc b s o stE hne h2, hp]

theorem i6_end_of_rej (b : Buf) (s o : Nat) {st : IP6St} {g : I6G} (hrep : I6Rep st g) (hacc : ¬ g.Acc) (stE : IP6St)
    (e1 : stE.a1 = st.a1) (eu : stE.use2 = st.use2) (ep : stE.pnc = false)
    (ec : stE.colonsNo = st.colonsNo) (hd : g.cur = [] → stE.digits = 0) :
    ip6End b s o stE = (false, o - s,
      (if (stE.digits == 0 && !stE.foundColon) = false ∧ stE.err = .ok ∧ stE.bracketEnd = false then .moreBytes
       else .bad), st.a1, false) := by
  have ht : g.two = false := by
    cases ht : g.two
    · rfl
    · exact absurd (Or.inl ht) hacc
  have h2 : (!stE.use2 && (decide (stE.colonsNo < 7) || stE.digits == 0)) = true := by
    rw [eu, hrep.use2, ht, ec, hrep.colons]
    unfold I6G.colons
    rw [ht]
    simp only [Bool.not_false, Bool.true_and, Bool.false_eq_true, ↓reduceIte, Nat.add_zero, Bool.or_eq_true,
      decide_eq_true_eq, beq_iff_eq]
    have h7 := (hrep.wf.one ht).2
    by_cases hc : g.cur = []
    · exact Or.inr (hd hc)
    · left
      rcases Nat.lt_or_ge g.pre.length 7 with h | h
      · exact h
      · exact absurd (Or.inr ⟨by omega, hc⟩) hacc
  rw [i6_end_early b s o stE h2, e1, ep]


/-- `if !foundColon { i++ }` -/
def i6Bump (st : IP6St) : IP6St := if !st.foundColon then { st with i := st.i + 1 } else st

theorem I6Rep.fc_two {st : IP6St} {g : I6G} (h : I6Rep st g) (ht : g.two = true) : st.foundColon = g.cur.isEmpty := by
  rw [h.fc]
  have := (h.wf.tw ht).1
  cases hp : g.pre with
  | nil => exact absurd hp this
  | cons p ps => simp

theorem I6G.Acc.not_empty {g : I6G} (wf : g.WF) (h : g.Acc) : (g.cur.isEmpty && g.pre.isEmpty) = false := by
  rcases h with h | h
  · have := (wf.tw h).1
    cases hp : g.pre with
    | nil => exact absurd hp this
    | cons p ps => simp
  · cases hc : g.cur with
    | nil => exact absurd hc h.2
    | cons a as => simp

/-- the loop stopped at the end of input, at a closing bracket or at a byte that is no part of an address -/
theorem i6_out_nro (b : Buf) (s o : Nat) {st : IP6St} {g : I6G} (hrep : I6Rep st g) (be : Bool) (e : Err) :
    (g.Acc → ∃ a, a.toList = g.value ∧
      ip6End b s o (i6Bump { st with bracketEnd := be, err := e }) = i6Fin b s o st.bracketSt be e a false) ∧
    (¬ g.Acc → ip6End b s o (i6Bump { st with bracketEnd := be, err := e }) =
      (false, o - s, (if (g.cur.isEmpty && g.pre.isEmpty) = false ∧ e = .ok ∧ be = false then .moreBytes else .bad),
        st.a1, false)) := by
  have hb1 : (i6Bump { st with bracketEnd := be, err := e }).a1 = st.a1 := by unfold i6Bump; split <;> rfl
  have hb2 : (i6Bump { st with bracketEnd := be, err := e }).a2 = st.a2 := by unfold i6Bump; split <;> rfl
  have hbu : (i6Bump { st with bracketEnd := be, err := e }).use2 = st.use2 := by unfold i6Bump; split <;> rfl
  have hbp : (i6Bump { st with bracketEnd := be, err := e }).pnc = st.pnc := by unfold i6Bump; split <;> rfl
  have hbc : (i6Bump { st with bracketEnd := be, err := e }).colonsNo = st.colonsNo := by unfold i6Bump; split <;> rfl
  have hbd : (i6Bump { st with bracketEnd := be, err := e }).digits = st.digits := by unfold i6Bump; split <;> rfl
  have hbf : (i6Bump { st with bracketEnd := be, err := e }).foundColon = st.foundColon := by
    unfold i6Bump; split <;> rfl
  have hbs : (i6Bump { st with bracketEnd := be, err := e }).bracketSt = st.bracketSt := by unfold i6Bump; split <;> rfl
  have hbe : (i6Bump { st with bracketEnd := be, err := e }).bracketEnd = be := by unfold i6Bump; split <;> rfl
  have hber : (i6Bump { st with bracketEnd := be, err := e }).err = e := by unfold i6Bump; split <;> rfl
  have hbi : (i6Bump { st with bracketEnd := be, err := e }).i = if st.foundColon then st.i else st.i + 1 := by
    unfold i6Bump
    cases hf : st.foundColon <;> simp
  have hempty : (st.digits == 0 && !st.foundColon) = (g.cur.isEmpty && g.pre.isEmpty) := by
    rw [hrep.digits, hrep.fc]
    cases hc : g.cur <;> cases hp : g.pre <;> simp
  constructor
  · intro hacc
    have hne := hacc.not_empty hrep.wf
    obtain ⟨a, ha, hend⟩ := i6_end_of_acc b s o hrep hacc (i6Bump { st with bracketEnd := be, err := e }) hb1 hb2 hbu
      (by rw [hbp, hrep.pnc]) (by rw [hbc]; exact Nat.le_refl _)
      (fun ht => by
        rw [hbd, hrep.digits]
        rcases hacc with h | h
        · rw [ht] at h; cases h
        · intro hl; exact h.2 (List.eq_nil_of_length_eq_zero hl))
      (by rw [hbd, hbf, hempty]; exact hne)
      g.tail
      (fun ht => by
        rw [hbi, hrep.fc_two ht, hrep.idx, ht]
        unfold I6G.tail
        cases hc : g.cur.isEmpty <;> simp)
      (by unfold I6G.tail; cases hc : g.cur.isEmpty <;> simp)
    refine ⟨a, ha, ?_⟩
    rw [hend, hbs, hbe, hber]
  · intro hacc
    rw [i6_end_of_rej b s o hrep hacc (i6Bump { st with bracketEnd := be, err := e }) hb1 hbu (by rw [hbp, hrep.pnc]) hbc
      (fun hc => by rw [hbd, hrep.digits, hc]; rfl)]
    rw [hbd, hbf, hempty, hbe, hber]

/-- the loop stopped at a fifth hex digit -/
theorem i6_out_more (b : Buf) (s o : Nat) {st : IP6St} {g : I6G} (hrep : I6Rep st g) (hd : 4 ≤ st.digits) :
    (g.Acc → ∃ a, a.toList = g.value ∧
      ip6End b s o (i6Bump { st with foundColon := false, digits := st.digits + 1, err := .moreValues }) =
        i6Fin b s o st.bracketSt false .moreValues a false) ∧
    (¬ g.Acc → ip6End b s o (i6Bump { st with foundColon := false, digits := st.digits + 1, err := .moreValues }) =
      (false, o - s, .bad, st.a1, false)) := by
  have hcur : g.cur.isEmpty = false := by
    cases hc : g.cur with
    | nil => have := hrep.digits; rw [hc] at this; simp at this; omega
    | cons a as => rfl
  have hb : i6Bump { st with foundColon := false, digits := st.digits + 1, err := .moreValues } =
      { st with foundColon := false, digits := st.digits + 1, err := .moreValues, i := st.i + 1 } := rfl
  rw [hb]
  constructor
  · intro hacc
    obtain ⟨a, ha, hend⟩ := i6_end_of_acc b s o hrep hacc
      { st with foundColon := false, digits := st.digits + 1, err := .moreValues, i := st.i + 1 } rfl rfl rfl hrep.pnc
      (Nat.le_refl _) (fun _ => by show st.digits + 1 ≠ 0; omega)
      (by show (st.digits + 1 == 0 && !false) = false; simp)
      g.tail
      (fun ht => by
        show st.i + 1 = g.tail.length
        rw [hrep.idx, ht]
        unfold I6G.tail
        rw [hcur]; simp)
      (by unfold I6G.tail; rw [hcur]; simp)
    refine ⟨a, ha, ?_⟩
    rw [hend]
    show i6Fin b s o st.bracketSt st.bracketEnd .moreValues a false = _
    rw [hrep.bend]
  · intro hacc
    rw [i6_end_of_rej b s o hrep hacc
      { st with foundColon := false, digits := st.digits + 1, err := .moreValues, i := st.i + 1 } rfl rfl hrep.pnc rfl
      (fun hc => by rw [hc] at hcur; simp at hcur)]
    simp

/-- the loop stopped at a colon that is one too many (`goto end`) -/
theorem i6_out_goto (b : Buf) (s o : Nat) {st : IP6St} {g : I6G} (hrep : I6Rep st g)
    (hgo : (decide (st.colonsNo + 1 > 7) && (decide (st.colonsNo + 1 > 8) || (!st.use2 && !st.foundColon))) = true) :
    g.Acc ∧ g.colons = (if g.two then 8 else 7) ∧ (g.two = false → g.cur ≠ []) ∧
    ∃ a, a.toList = (if g.two then i6Value g.pre g.post else i6Value (g.pre ++ [g.cur]) []) ∧
      ip6End b s o { st with colonsNo := st.colonsNo + 1, err := .badChar } =
        (if st.bracketSt then (false, o - s, .bad, a, false) else (true, o - s, .badChar, a, false)) := by
  have hcol := hrep.colons
  have hcol' := hcol
  unfold I6G.colons at hcol
  have hpre : g.pre ≠ [] := by
    intro hp
    by_cases ht : g.two = true
    · exact (hrep.wf.tw ht).1 hp
    · have ht : g.two = false := by simpa using ht
      rw [ht, hp] at hcol
      simp at hcol
      rw [hcol] at hgo
      simp at hgo
  have hfc : st.foundColon = g.cur.isEmpty := by
    rw [hrep.fc]
    cases hp : g.pre with
    | nil => exact absurd hp hpre
    | cons p ps => simp
  have hacc : g.Acc ∧ g.colons = (if g.two then 8 else 7) ∧ (g.two = false → g.cur ≠ []) := by
    by_cases ht : g.two = true
    · refine ⟨Or.inl ht, ?_, fun h => by rw [ht] at h; cases h⟩
      have := (hrep.wf.tw ht).2
      rw [ht] at hcol
      simp only [↓reduceIte] at hcol
      rw [hrep.use2, ht] at hgo
      simp at hgo
      rw [← hcol', ht]; simp only [↓reduceIte]; omega
    · have ht : g.two = false := by simpa using ht
      have := (hrep.wf.one ht).2
      rw [ht] at hcol
      simp only [Bool.false_eq_true, ↓reduceIte, Nat.add_zero] at hcol
      rw [hrep.use2, ht, hfc] at hgo
      simp at hgo
      have hc : g.cur ≠ [] := by
        intro hc
        have h2 := hgo.2
        rcases h2 with h2 | h2
        · omega
        · rw [hc] at h2; simp at h2
      refine ⟨Or.inr ⟨by omega, hc⟩, ?_, fun _ => hc⟩
      rw [← hcol', ht]; simp only [Bool.false_eq_true, ↓reduceIte]; omega
  refine ⟨hacc.1, hacc.2.1, hacc.2.2, ?_⟩
  obtain ⟨a, ha, hend⟩ := i6_end_of_acc b s o hrep hacc.1 { st with colonsNo := st.colonsNo + 1, err := .badChar }
    rfl rfl rfl hrep.pnc (Nat.le_succ _)
    (fun ht => by
      show st.digits ≠ 0
      rw [hrep.digits]
      intro hl; exact hacc.2.2 ht (List.eq_nil_of_length_eq_zero hl))
    (by
      show (st.digits == 0 && !st.foundColon) = false
      rw [hrep.digits, hfc]
      cases hc : g.cur <;> simp)
    g.post (fun ht => by show st.i = g.post.length; rw [hrep.idx, ht]; rfl) (Or.inl rfl)
  refine ⟨a, ha, ?_⟩
  rw [hend]
  show i6Fin b s o st.bracketSt st.bracketEnd .badChar a false = _
  rw [hrep.bend]
  unfold i6Fin
  cases st.bracketSt <;> simp


/-! ### the result, by the way the loop stopped -/

/-- the value reported when the loop is left at a colon that is one too many: the group being read is NOT copied
    when the address has a "::" -/
def I6G.valueCut (g : I6G) : List Nat :=
  if g.two then i6Value g.pre g.post else i6Value (g.pre ++ [g.cur]) []

/-- **the result of IP6Prefix** when the loop stops at position `o` having read the text `g` (`br`: an opening bracket
    was skipped). One constructor per way of stopping and per verdict. -/
inductive I6Out (b : Buf) (s : Nat) (br : Bool) (o : Nat) (g : I6G) : Bool × Nat × Err × Array Nat × Bool → Prop
  /-- end of input after a complete address: Ok, or MoreBytes when the closing bracket is missing -/
  | eofAcc (hb : b[o]? = none) (hacc : g.Acc) (a : Array Nat) (ha : a.toList = g.value) :
      I6Out b s br o g (true, o - s, (if br then .moreBytes else .ok), a, false)
  /-- end of input inside an address: MoreBytes (Bad when nothing was read) -/
  | eofRej (hb : b[o]? = none) (hacc : ¬ g.Acc) (a : Array Nat) :
      I6Out b s br o g (false, o - s, (if (g.cur.isEmpty && g.pre.isEmpty) = false then .moreBytes else .bad), a, false)
  /-- a colon after the maximal number of colons: the address ends before it (BadChar), Bad inside brackets -/
  | colonMax (hb : b[o]? = some 58) (hacc : g.Acc) (hc : g.colons = if g.two then 8 else 7)
      (hne : g.two = false → g.cur ≠ []) (a : Array Nat) (ha : a.toList = g.valueCut) :
      I6Out b s br o g (if br then (false, o - s, .bad, a, false) else (true, o - s, .badChar, a, false))
  /-- a third colon in a row, or a second "::" -/
  | colonAgain (hb : b[o]? = some 58) (h2 : g.two = true) (hcur : g.cur = []) (hc : g.colons < 8) :
      I6Out b s br o g (false, o - s, .bad, Array.replicate 8 0, false)
  /-- a fifth hex digit after a complete address: MoreValues, Bad inside brackets -/
  | fifthAcc (c : UInt8) (hb : b[o]? = some c) (hx : I6IsHex c) (h4 : g.cur.length = 4) (hacc : g.Acc) (a : Array Nat)
      (ha : a.toList = g.value) :
      I6Out b s br o g (if br then (false, o - s, .bad, a, false) else (true, o - s, .moreValues, a, false))
  /-- a fifth hex digit inside an address -/
  | fifthRej (c : UInt8) (hb : b[o]? = some c) (hx : I6IsHex c) (h4 : g.cur.length = 4) (hacc : ¬ g.Acc)
      (a : Array Nat) : I6Out b s br o g (false, o - s, .bad, a, false)
  /-- the closing bracket after a complete address: the offset is past it; MoreValues when a byte follows, else Ok -/
  | closeAcc (hb : b[o]? = some 93) (hbr : br = true) (hacc : g.Acc) (a : Array Nat) (ha : a.toList = g.value) :
      I6Out b s br o g (true, o + 1 - s, (if o + 1 < b.size then .moreValues else .ok), a, false)
  /-- the closing bracket inside an address -/
  | closeRej (hb : b[o]? = some 93) (hbr : br = true) (hacc : ¬ g.Acc) (a : Array Nat) :
      I6Out b s br o g (false, o - s, .bad, a, false)
  /-- any other byte after a complete address: BadChar, Bad inside brackets -/
  | otherAcc (c : UInt8) (hb : b[o]? = some c) (h58 : c ≠ 58) (hx : ¬ I6IsHex c) (h93 : ¬ (br = true ∧ c = 93))
      (hacc : g.Acc) (a : Array Nat) (ha : a.toList = g.value) :
      I6Out b s br o g (if br then (false, o - s, .bad, a, false) else (true, o - s, .badChar, a, false))
  /-- any other byte inside an address -/
  | otherRej (c : UInt8) (hb : b[o]? = some c) (h58 : c ≠ 58) (hx : ¬ I6IsHex c) (h93 : ¬ (br = true ∧ c = 93))
      (hacc : ¬ g.Acc) (a : Array Nat) : I6Out b s br o g (false, o - s, .bad, a, false)

theorem i6_outcome (b : Buf) (s o : Nat) {st : IP6St} {g : I6G} (hrep : I6Rep st g) (hh : I6Halt b o st) :
    I6Out b s st.bracketSt o g (i6Post b s (ip6Loop b o st)) := by
  cases hb : b[o]? with
  | none =>
    rw [i6_loop_none st hb]
    show I6Out b s st.bracketSt o g (ip6End b s o (i6Bump st))
    have h := i6_out_nro b s o hrep st.bracketEnd st.err
    have e : ({ st with bracketEnd := st.bracketEnd, err := st.err } : IP6St) = st := rfl
    rw [e] at h
    by_cases hacc : g.Acc
    · obtain ⟨a, ha, hend⟩ := h.1 hacc
      rw [hend, hrep.bend, hrep.err]
      have : i6Fin b s o st.bracketSt false .ok a false =
          (true, o - s, (if st.bracketSt then .moreBytes else .ok), a, false) := by
        unfold i6Fin; cases st.bracketSt <;> simp
      rw [this]
      exact .eofAcc hb hacc a ha
    · rw [h.2 hacc, hrep.bend, hrep.err]
      have := I6Out.eofRej (s := s) (br := st.bracketSt) hb hacc st.a1
      simpa using this
  | some c =>
    obtain ⟨h58, hhex⟩ := hh c hb
    rw [i6_loop_some st hb]
    by_cases hc : c = 58
    · subst hc
      simp only [beq_self_eq_true, ↓reduceIte]
      rcases h58 rfl with hgo | hret
      · rw [if_pos hgo]
        show I6Out b s st.bracketSt o g (ip6End b s o _)
        obtain ⟨hacc, hcol, hne, a, ha, hend⟩ := i6_out_goto b s o hrep hgo
        rw [hend]
        have := I6Out.colonMax (s := s) (br := st.bracketSt) hb hacc hcol hne a ha
        cases hbs : st.bracketSt <;> rw [hbs] at this <;> simpa using this
      · by_cases hgo : (decide (st.colonsNo + 1 > 7) &&
            (decide (st.colonsNo + 1 > 8) || (!st.use2 && !st.foundColon))) = true
        · rw [if_pos hgo]
          show I6Out b s st.bracketSt o g (ip6End b s o _)
          obtain ⟨hacc, hcol, hne, a, ha, hend⟩ := i6_out_goto b s o hrep hgo
          rw [hend]
          have := I6Out.colonMax (s := s) (br := st.bracketSt) hb hacc hcol hne a ha
          cases hbs : st.bracketSt <;> rw [hbs] at this <;> simpa using this
        · rw [if_neg hgo]
          simp only [Bool.and_eq_true] at hret
          rw [if_pos hret.1, if_pos hret.2]
          show I6Out b s st.bracketSt o g (false, o - s, .bad, Array.replicate 8 0, false)
          have ht : g.two = true := by rw [← hrep.use2]; exact hret.2
          have hcur : g.cur = [] := by
            have := hrep.fc_two ht
            rw [hret.1] at this
            exact List.isEmpty_iff.1 this.symm
          have hcol : g.colons < 8 := by
            rw [← hrep.colons]
            rw [hret.1, hret.2] at hgo
            simp at hgo
            have := (hrep.wf.tw ht).2
            have h2 := hrep.colons
            unfold I6G.colons at h2
            rw [ht] at h2
            simp only [↓reduceIte] at h2
            omega
          exact .colonAgain hb ht hcur hcol
    · have hc' : (c == 58) = false := by simpa using hc
      rw [hc']
      simp only [Bool.false_eq_true, ↓reduceIte]
      by_cases hx : I6IsHex c
      · have hd := hhex hx
        rw [if_pos ((i6_hexDig_nonneg c).2 hx), if_pos (by omega)]
        show I6Out b s st.bracketSt o g (ip6End b s o (i6Bump _))
        have h4 : g.cur.length = 4 := by
          have := hrep.wf.cur4.1
          have := hrep.digits
          omega
        have h := i6_out_more b s o hrep hd
        by_cases hacc : g.Acc
        · obtain ⟨a, ha, hend⟩ := h.1 hacc
          rw [hend]
          have := I6Out.fifthAcc (s := s) (br := st.bracketSt) c hb hx h4 hacc a ha
          unfold i6Fin
          cases hbs : st.bracketSt <;> rw [hbs] at this <;> simpa using this
        · rw [h.2 hacc]
          exact .fifthRej c hb hx h4 hacc st.a1
      · rw [if_neg (fun h => hx ((i6_hexDig_nonneg c).1 h))]
        by_cases h93 : st.bracketSt = true ∧ c = 93
        · rw [if_pos (by rw [h93.1, h93.2]; rfl)]
          show I6Out b s st.bracketSt o g (ip6End b s o (i6Bump _))
          have h := i6_out_nro b s o hrep true st.err
          have e : ({ st with bracketEnd := true, err := st.err } : IP6St) = { st with bracketEnd := true } := rfl
          rw [e] at h
          have hb' : b[o]? = some 93 := by rw [hb, h93.2]
          by_cases hacc : g.Acc
          · obtain ⟨a, ha, hend⟩ := h.1 hacc
            rw [hend, hrep.err, h93.1]
            have := I6Out.closeAcc (s := s) (br := true) hb' rfl hacc a ha
            unfold i6Fin
            simpa using this
          · rw [h.2 hacc, h93.1]
            have := I6Out.closeRej (s := s) (br := true) hb' rfl hacc st.a1
            simpa using this
        · rw [if_neg (by
            intro hh
            simp only [Bool.and_eq_true, beq_iff_eq] at hh
            exact h93 hh)]
          show I6Out b s st.bracketSt o g (ip6End b s o (i6Bump _))
          have h := i6_out_nro b s o hrep st.bracketEnd .badChar
          have e : ({ st with bracketEnd := st.bracketEnd, err := .badChar } : IP6St) = { st with err := .badChar } := rfl
          rw [e] at h
          by_cases hacc : g.Acc
          · obtain ⟨a, ha, hend⟩ := h.1 hacc
            rw [hend, hrep.bend]
            have := I6Out.otherAcc (s := s) c hb hc hx h93 hacc a ha
            unfold i6Fin
            cases hbs : st.bracketSt <;> rw [hbs] at this <;> simpa using this
          · rw [h.2 hacc]
            have := I6Out.otherRej (s := s) c hb hc hx h93 hacc st.a1
            simpa using this


/-! ### soundness: the scanner's result is the one prescribed for the text it read -/

/-- where the address text starts: after the opening bracket when there is one -/
def i6Start (b : Buf) (s : Nat) : Nat := if i6Br b s then s + 1 else s

theorem I6G.text_init : ({} : I6G).text = [] := rfl

/-- the scanner stops at `o` having read `g`, stated on the text -/
def I6Stops (b : Buf) (o : Nat) (g : I6G) : Prop :=
  ∀ c, b[o]? = some c →
    (c = 58 → g.colons = (if g.two then 8 else 7) ∧ (g.two = false → g.cur ≠ []) ∨ (g.two = true ∧ g.cur = [])) ∧
    (I6IsHex c → g.cur.length = 4)

theorem i6_halt_of_stops {b : Buf} {o : Nat} {st : IP6St} {g : I6G} (hrep : I6Rep st g) (h : I6Stops b o g) :
    I6Halt b o st := by
  intro c hb
  obtain ⟨h1, h2⟩ := h c hb
  refine ⟨fun hc => ?_, fun hx => by rw [hrep.digits, h2 hx]; exact Nat.le_refl _⟩
  have hcol := hrep.colons
  rcases h1 hc with ⟨hmax, hne⟩ | ⟨ht, hcur⟩
  · left
    rw [hcol, hmax, hrep.use2]
    by_cases ht : g.two = true
    · rw [ht]; rfl
    · have ht : g.two = false := by simpa using ht
      have hfc : st.foundColon = false := by
        rw [hrep.fc]
        cases hcc : g.cur with
        | nil => exact absurd hcc (hne ht)
        | cons a as => rfl
      rw [ht, hfc]; rfl
  · by_cases hgo : (decide (st.colonsNo + 1 > 7) &&
        (decide (st.colonsNo + 1 > 8) || (!st.use2 && !st.foundColon))) = true
    · exact Or.inl hgo
    · right
      rw [hrep.fc_two ht, hrep.use2, ht, hcur]; rfl

theorem i6_stops_of_halt {b : Buf} {o : Nat} {st : IP6St} {g : I6G} (hrep : I6Rep st g) (h : I6Halt b o st) :
    I6Stops b o g := by
  intro c hb
  obtain ⟨h1, h2⟩ := h c hb
  refine ⟨fun hc => ?_, fun hx => ?_⟩
  · rcases h1 hc with hgo | hret
    · obtain ⟨_, hcol, hne, _⟩ := i6_out_goto b 0 o hrep hgo
      exact Or.inl ⟨hcol, hne⟩
    · simp only [Bool.and_eq_true] at hret
      have ht : g.two = true := by rw [← hrep.use2]; exact hret.2
      have := hrep.fc_two ht
      rw [hret.1] at this
      exact Or.inr ⟨ht, List.isEmpty_iff.1 this.symm⟩
  · have := h2 hx
    have h4 := hrep.wf.cur4.1
    have := hrep.digits
    omega

/-- **characterisation of IP6Prefix (soundness)**: the scanner reads a text `g` from the start position up to a position
    where it stops, and the result is the one `I6Out` prescribes for that position and `g` -/
theorem i6_prefixAt_char (b : Buf) (s : Nat) :
    ∃ g : I6G, g.WF ∧ i6Seg b (i6Start b s) (i6Start b s + g.text.length) = g.text ∧
      I6Stops b (i6Start b s + g.text.length) g ∧
      I6Out b s (i6Br b s) (i6Start b s + g.text.length) g (ip6PrefixAt b s) := by
  have h0 := i6_rep_init (i6Br b s)
  obtain ⟨o, st, g, hrep, hle, htxt, hbs, hloop, hhalt, hlen⟩ :=
    i6_run b (i6Start b s) _ (i6Start b s) _ _ rfl h0 (Nat.le_refl _) (by rw [i6Seg_self]; rfl) rfl
  subst hlen
  refine ⟨g, hrep.wf, htxt, i6_stops_of_halt hrep hhalt, ?_⟩
  rw [i6_prefixAt_eq]
  have := i6_outcome b s _ hrep hhalt
  rw [hbs] at this
  show I6Out b s (i6Br b s) _ g (i6Post b s (ip6Loop b (i6Start b s) _))
  rw [hloop]
  exact this

/-! ### completeness: every text of the grammar is read as such -/

/-- a colon after `g` is read on (neither one too many nor a second "::") -/
def I6G.colonOk (g : I6G) : Prop :=
  (g.colons + 1 ≤ 7 ∨ (g.colons + 1 ≤ 8 ∧ (g.two = true ∨ (g.cur.isEmpty && !g.pre.isEmpty) = true))) ∧
  ¬ ((g.cur.isEmpty && !g.pre.isEmpty) = true ∧ g.two = true)

theorem i6_snoc_cases {α : Type} (l : List α) : l = [] ∨ ∃ l' x, l = l' ++ [x] := by
  induction l with
  | nil => exact Or.inl rfl
  | cons a as ih =>
    right
    rcases ih with h | ⟨l', x, h⟩
    · exact ⟨[], a, by rw [h]; rfl⟩
    · exact ⟨a :: l', x, by rw [h]; rfl⟩

theorem i6_mem_drop1_of_left {α : Type} {l : List α} {c x : α} (h : x ∈ l.drop 1) : x ∈ (l ++ [c]).drop 1 := by
  cases l with
  | nil => simp at h
  | cons p ps =>
    simp only [List.cons_append, List.drop_succ_cons, List.drop_zero] at h ⊢
    exact List.mem_append_left _ h

/-- every text the scanner can have read, other than the empty one, is a shorter one followed by one byte -/
theorem I6G.pred (g : I6G) (wf : g.WF) (hne : g.text ≠ []) :
    ∃ (g' : I6G) (c : UInt8), g'.WF ∧ g.text = g'.text ++ [c] ∧
      ((I6IsHex c ∧ g'.cur.length < 4 ∧ g = g'.hex c) ∨ (c = 58 ∧ g = g'.colon ∧ g'.colonOk)) := by
  rcases g with ⟨pre, two, post, cur⟩
  obtain ⟨pre4, preNe, postG, cur4, one, tw⟩ := wf
  simp only at pre4 preNe postG cur4 one tw
  rcases i6_snoc_cases cur with hcur | ⟨cur', c, hcur⟩
  · subst hcur
    cases two with
    | true =>
      have htw := tw rfl
      rcases i6_snoc_cases post with hpost | ⟨post', x, hpost⟩
      · subst hpost
        have hg : (⟨pre, true, [], []⟩ : I6G) = (⟨pre, false, [], []⟩ : I6G).colon := by
          unfold I6G.colon
          cases hp : pre with
          | nil => exact absurd hp htw.1
          | cons p ps => simp
        refine ⟨⟨pre, false, [], []⟩, 58, ⟨pre4, preNe, postG, cur4, fun _ => ⟨rfl, ?_⟩, fun h => by cases h⟩, ?_,
          Or.inr ⟨rfl, hg, ?_⟩⟩
        · have := htw.2; simp at this; show pre.length ≤ 7; omega
        · rw [hg]; exact I6G.text_colon _ (fun _ => rfl)
        · have := htw.2
          simp at this
          refine ⟨Or.inr ⟨by unfold I6G.colons; simp; omega, Or.inr ?_⟩, fun h => by cases h.2⟩
          cases hp : pre with
          | nil => exact absurd hp htw.1
          | cons p ps => simp
      · subst hpost
        have hx : I6Grp x := postG x (by simp)
        have hxne : x ≠ [] := by
          intro h; rw [h] at hx; have := hx.1; simp at this
        have hg : (⟨pre, true, post' ++ [x], []⟩ : I6G) = (⟨pre, true, post', x⟩ : I6G).colon := by
          unfold I6G.colon; simp
        refine ⟨⟨pre, true, post', x⟩, 58,
          ⟨pre4, preNe, fun y hy => postG y (by simp [hy]), hx.2, (fun h => by cases h), fun _ => ⟨htw.1, ?_⟩⟩, ?_,
          Or.inr ⟨rfl, hg, ?_⟩⟩
        · have := htw.2; simp at this; show pre.length + 1 + post'.length ≤ 8; omega
        · rw [hg]; exact I6G.text_colon _ (fun h => by cases h)
        · have := htw.2
          simp at this
          refine ⟨Or.inr ⟨by unfold I6G.colons; simp; omega, Or.inl rfl⟩, fun h => ?_⟩
          have h1 := h.1
          cases hxx : x with
          | nil => exact hxne hxx
          | cons a as => rw [hxx] at h1; simp at h1
    | false =>
      have hone := one rfl
      have hpost : post = [] := hone.1
      subst hpost
      rcases i6_snoc_cases pre with hpre | ⟨pre', x, hpre⟩
      · subst hpre
        exact absurd rfl hne
      · subst hpre
        have hx : I6Hex4 x := pre4 x (by simp)
        have hcond : (x.isEmpty && !pre'.isEmpty) = false := by
          cases hp : pre' with
          | nil => simp
          | cons p ps =>
            have : x ≠ [] := preNe x (by rw [hp]; simp)
            cases hxx : x with
            | nil => exact absurd hxx this
            | cons a as => simp
        have hg : (⟨pre' ++ [x], false, [], []⟩ : I6G) = (⟨pre', false, [], x⟩ : I6G).colon := by
          unfold I6G.colon
          simp only [Bool.false_eq_true, ↓reduceIte, hcond]
        refine ⟨⟨pre', false, [], x⟩, 58,
          ⟨fun y hy => pre4 y (by simp [hy]), fun y hy => preNe y (i6_mem_drop1_of_left hy), postG, hx,
            fun _ => ⟨rfl, ?_⟩, fun h => by cases h⟩, ?_, Or.inr ⟨rfl, hg, ?_⟩⟩
        · have := hone.2; simp at this; show pre'.length ≤ 7; omega
        · rw [hg]; exact I6G.text_colon _ (fun _ => rfl)
        · have := hone.2
          simp at this
          exact ⟨Or.inl (by unfold I6G.colons; simp; omega), fun h => by cases h.2⟩
  · subst hcur
    have hc : I6IsHex c := cur4.2 c (by simp)
    have hl : cur'.length < 4 := by have := cur4.1; simp at this; omega
    refine ⟨⟨pre, two, post, cur'⟩, c, ⟨pre4, preNe, postG, ⟨by show cur'.length ≤ 4; omega, fun y hy => cur4.2 y (by simp [hy])⟩, one, tw⟩, ?_,
      Or.inl ⟨hc, hl, rfl⟩⟩
    exact I6G.text_hex ⟨pre, two, post, cur'⟩ c


theorem i6Seg_split {b : Buf} {s n : Nat} {l : List UInt8} {c : UInt8} (hl : l.length = n)
    (h : i6Seg b s (s + (n + 1)) = l ++ [c]) : i6Seg b s (s + n) = l ∧ b[s + n]? = some c := by
  unfold i6Seg at h ⊢
  have e1 : s + (n + 1) - s = n + 1 := by omega
  have e2 : s + n - s = n := by omega
  rw [e1] at h
  rw [e2]
  constructor
  · have : ((b.toList.drop s).take (n + 1)).take n = (l ++ [c]).take n := by rw [h]
    rw [List.take_take, Nat.min_eq_left (Nat.le_succ n)] at this
    rw [this, ← hl]; simp
  · have : ((b.toList.drop s).take (n + 1))[n]? = (l ++ [c])[n]? := by rw [h]
    rw [List.getElem?_take_of_lt (Nat.lt_succ_self n), List.getElem?_drop] at this
    rw [← hl] at this
    simp at this
    rw [hl] at this
    simpa using this

theorem I6G.text_nil {g : I6G} (wf : g.WF) (h : g.text = []) : g = {} := by
  rcases g with ⟨pre, two, post, cur⟩
  cases two with
  | true => unfold I6G.text at h; simp at h
  | false =>
    have hpost : post = [] := (wf.one rfl).1
    unfold I6G.text at h
    simp only [Bool.false_eq_true, ↓reduceIte] at h
    cases pre with
    | nil =>
      have hc : cur = [] := h
      rw [hc, hpost]
    | cons p ps => simp [i6T] at h

theorem i6_colon_conds {st : IP6St} {g : I6G} (hrep : I6Rep st g) (hok : g.colonOk) :
    (decide (st.colonsNo + 1 > 7) && (decide (st.colonsNo + 1 > 8) || (!st.use2 && !st.foundColon))) = false ∧
    (st.foundColon && st.use2) = false := by
  rw [hrep.colons, hrep.use2, hrep.fc]
  obtain ⟨h1, h2⟩ := hok
  constructor
  · rcases h1 with h1 | ⟨h1, h3⟩
    · have : decide (g.colons + 1 > 7) = false := by simp; omega
      rw [this]; rfl
    · have : decide (g.colons + 1 > 8) = false := by simp; omega
      rw [this]
      rcases h3 with h3 | h3
      · rw [h3]; simp
      · rw [h3]; simp
  · cases hf : (g.cur.isEmpty && !g.pre.isEmpty)
    · rfl
    · cases ht : g.two
      · rfl
      · exact absurd ⟨hf, ht⟩ h2

/-- **every text of the grammar is read as such**: when the bytes from `s0` on are the text of `g`, the loop reaches
    the position after them in a state that stands for `g` -/
theorem i6_reach (b : Buf) (s0 : Nat) (br : Bool) : ∀ (n : Nat) (g : I6G), g.text.length = n → g.WF →
    i6Seg b s0 (s0 + n) = g.text →
    ∃ st, ip6Loop b s0 { bracketSt := br } = ip6Loop b (s0 + n) st ∧ I6Rep st g ∧ st.bracketSt = br := by
  intro n
  induction n with
  | zero =>
    intro g hn wf _
    have := I6G.text_nil wf (List.eq_nil_of_length_eq_zero hn)
    subst this
    exact ⟨_, rfl, i6_rep_init br, rfl⟩
  | succ n ih =>
    intro g hn wf hseg
    have hne : g.text ≠ [] := by intro h; rw [h] at hn; cases hn
    obtain ⟨g', c, wf', htxt, hstep⟩ := g.pred wf hne
    have hl' : g'.text.length = n := by
      have := congrArg List.length htxt
      simp at this; omega
    rw [htxt] at hseg
    obtain ⟨hseg', hb⟩ := i6Seg_split hl' hseg
    obtain ⟨st', hloop, hrep', hbs⟩ := ih g' hl' wf' hseg'
    rcases hstep with ⟨hx, hl4, hg⟩ | ⟨h58, hg, hok⟩
    · obtain ⟨st, h1, h2, h3⟩ := i6_step_hex hrep' hb hx hl4
      exact ⟨st, by rw [hloop, h1]; rfl, by rw [hg]; exact h2, by rw [h3, hbs]⟩
    · subst h58
      obtain ⟨hgo, hnr⟩ := i6_colon_conds hrep' hok
      obtain ⟨st, h1, h2, h3⟩ := i6_step_colon hrep' hb hgo hnr
      exact ⟨st, by rw [hloop, h1]; rfl, by rw [hg]; exact h2, by rw [h3, hbs]⟩


/-- **completeness of IP6Prefix**: whenever the bytes from the start position up to `o` are the text of some `g` of
    the grammar and the scanner cannot go on at `o`, the result is the one `I6Out` prescribes for `o`, `g` -/
theorem i6_prefixAt_complete (b : Buf) (s : Nat) (g : I6G) (wf : g.WF)
    (hseg : i6Seg b (i6Start b s) (i6Start b s + g.text.length) = g.text)
    (hstop : I6Stops b (i6Start b s + g.text.length) g) :
    I6Out b s (i6Br b s) (i6Start b s + g.text.length) g (ip6PrefixAt b s) := by
  obtain ⟨st, hloop, hrep, hbs⟩ := i6_reach b (i6Start b s) (i6Br b s) _ g rfl wf hseg
  have := i6_outcome b s _ hrep (i6_halt_of_stops hrep hstop)
  rw [hbs] at this
  rw [i6_prefixAt_eq]
  show I6Out b s (i6Br b s) _ g (i6Post b s (ip6Loop b (i6Start b s) _))
  rw [hloop]
  exact this

/-- what an accepting result looks like -/
def I6AccRes (b : Buf) (s : Nat) (br : Bool) (o : Nat) (g : I6G) (r : Bool × Nat × Err × Array Nat × Bool) : Prop :=
  (b[o]? = none ∧ r.2.1 = o - s ∧ r.2.2.1 = (if br then .moreBytes else .ok) ∧ r.2.2.2.1.toList = g.value) ∨
  (b[o]? = some 58 ∧ br = false ∧ r.2.1 = o - s ∧ r.2.2.1 = .badChar ∧ r.2.2.2.1.toList = g.valueCut ∧
    g.colons = (if g.two then 8 else 7) ∧ (g.two = false → g.cur ≠ [])) ∨
  (∃ c, b[o]? = some c ∧ I6IsHex c ∧ g.cur.length = 4 ∧ br = false ∧ r.2.1 = o - s ∧ r.2.2.1 = .moreValues ∧
    r.2.2.2.1.toList = g.value) ∨
  (b[o]? = some 93 ∧ br = true ∧ r.2.1 = o + 1 - s ∧ r.2.2.1 = (if o + 1 < b.size then .moreValues else .ok) ∧
    r.2.2.2.1.toList = g.value) ∨
  (∃ c, b[o]? = some c ∧ c ≠ 58 ∧ ¬ I6IsHex c ∧ br = false ∧ r.2.1 = o - s ∧ r.2.2.1 = .badChar ∧
    r.2.2.2.1.toList = g.value)

theorem I6Out.acc_inv {b : Buf} {s : Nat} {br : Bool} {o : Nat} {g : I6G} {r : Bool × Nat × Err × Array Nat × Bool}
    (h : I6Out b s br o g r) (hr : r.1 = true) : g.Acc ∧ r.2.2.2.2 = false ∧ I6AccRes b s br o g r := by
  cases h with
  | eofAcc hb hacc a ha => exact ⟨hacc, rfl, Or.inl ⟨hb, rfl, rfl, ha⟩⟩
  | eofRej hb hacc a => cases hr
  | colonMax hb hacc hc hne a ha =>
    cases br with
    | true => cases hr
    | false => exact ⟨hacc, rfl, Or.inr (Or.inl ⟨hb, rfl, rfl, rfl, ha, hc, hne⟩)⟩
  | colonAgain hb h2 hcur hc => cases hr
  | fifthAcc c hb hx h4 hacc a ha =>
    cases br with
    | true => cases hr
    | false => exact ⟨hacc, rfl, Or.inr (Or.inr (Or.inl ⟨c, hb, hx, h4, rfl, rfl, rfl, ha⟩))⟩
  | fifthRej c hb hx h4 hacc a => cases hr
  | closeAcc hb hbr hacc a ha => exact ⟨hacc, rfl, Or.inr (Or.inr (Or.inr (Or.inl ⟨hb, hbr, rfl, rfl, ha⟩)))⟩
  | closeRej hb hbr hacc a => cases hr
  | otherAcc c hb h58 hx h93 hacc a ha =>
    cases br with
    | true => cases hr
    | false => exact ⟨hacc, rfl, Or.inr (Or.inr (Or.inr (Or.inr ⟨c, hb, h58, hx, rfl, rfl, rfl, ha⟩)))⟩
  | otherRej c hb h58 hx h93 hacc a => cases hr

/-- what a rejecting result looks like: the offset is the position where the scanner stopped; at the end of input the
    verdict is MoreBytes (Bad when nothing was read), at a byte it is Bad -/
theorem I6Out.rej_inv {b : Buf} {s : Nat} {br : Bool} {o : Nat} {g : I6G} {r : Bool × Nat × Err × Array Nat × Bool}
    (h : I6Out b s br o g r) (hr : r.1 = false) :
    r.2.1 = o - s ∧ r.2.2.2.2 = false ∧
    ((b[o]? = none ∧ ¬ g.Acc ∧ r.2.2.1 = (if (g.cur.isEmpty && g.pre.isEmpty) = false then .moreBytes else .bad)) ∨
     (b[o]? ≠ none ∧ r.2.2.1 = .bad ∧ (g.Acc → br = true ∨ (b[o]? = some 58 ∧ g.two = true ∧ g.cur = [])))) := by
  cases h with
  | eofAcc hb hacc a ha => cases hr
  | eofRej hb hacc a => exact ⟨rfl, rfl, Or.inl ⟨hb, hacc, rfl⟩⟩
  | colonMax hb hacc hc hne a ha =>
    cases br with
    | true => exact ⟨rfl, rfl, Or.inr ⟨by rw [hb]; simp, rfl, fun _ => Or.inl rfl⟩⟩
    | false => cases hr
  | colonAgain hb h2 hcur hc => exact ⟨rfl, rfl, Or.inr ⟨by rw [hb]; simp, rfl, fun _ => Or.inr ⟨hb, h2, hcur⟩⟩⟩
  | fifthAcc c hb hx h4 hacc a ha =>
    cases br with
    | true => exact ⟨rfl, rfl, Or.inr ⟨by rw [hb]; simp, rfl, fun _ => Or.inl rfl⟩⟩
    | false => cases hr
  | fifthRej c hb hx h4 hacc a => exact ⟨rfl, rfl, Or.inr ⟨by rw [hb]; simp, rfl, fun h => absurd h hacc⟩⟩
  | closeAcc hb hbr hacc a ha => cases hr
  | closeRej hb hbr hacc a => exact ⟨rfl, rfl, Or.inr ⟨by rw [hb]; simp, rfl, fun h => absurd h hacc⟩⟩
  | otherAcc c hb h58 hx h93 hacc a ha =>
    cases br with
    | true => exact ⟨rfl, rfl, Or.inr ⟨by rw [hb]; simp, rfl, fun _ => Or.inl rfl⟩⟩
    | false => cases hr
  | otherRej c hb h58 hx h93 hacc a => exact ⟨rfl, rfl, Or.inr ⟨by rw [hb]; simp, rfl, fun h => absurd h hacc⟩⟩

/-- **soundness of IP6Prefix**: an accepting result comes with a complete address text `g` read from the start
    position (after the opening bracket, if any) up to the position where the scanner stopped; offset, verdict
    and value are those of `I6AccRes` -/
theorem i6_prefixAt_sound (b : Buf) (s : Nat) (h : (ip6PrefixAt b s).1 = true) :
    ∃ g : I6G, g.WF ∧ g.Acc ∧ i6Seg b (i6Start b s) (i6Start b s + g.text.length) = g.text ∧
      I6Stops b (i6Start b s + g.text.length) g ∧ (ip6PrefixAt b s).2.2.2.2 = false ∧
      I6AccRes b s (i6Br b s) (i6Start b s + g.text.length) g (ip6PrefixAt b s) := by
  obtain ⟨g, wf, hseg, hstop, hout⟩ := i6_prefixAt_char b s
  obtain ⟨hacc, hp, hres⟩ := hout.acc_inv h
  exact ⟨g, wf, hacc, hseg, hstop, hp, hres⟩

/-- the scanner stops after a complete address without rejecting it: a colon only after the maximal number of colons,
    a hex digit only as a fifth digit -/
def I6StopsOk (b : Buf) (o : Nat) (g : I6G) : Prop :=
  ∀ c, b[o]? = some c → (c = 58 → g.colons = (if g.two then 8 else 7)) ∧ (I6IsHex c → g.cur.length = 4)

theorem I6StopsOk.stops {b : Buf} {o : Nat} {g : I6G} (h : I6StopsOk b o g) (hacc : g.Acc) : I6Stops b o g := by
  intro c hb
  obtain ⟨h1, h2⟩ := h c hb
  refine ⟨fun hc => Or.inl ⟨h1 hc, fun ht => ?_⟩, h2⟩
  rcases hacc with h | h
  · rw [ht] at h; cases h
  · exact h.2

/-- **IP6Prefix accepts exactly** the texts that begin (after an opening bracket that is followed by at least one byte)
    with a complete address text after which the scanner stops without rejecting, and which — inside brackets — is
    followed by the closing bracket or the end of the input -/
theorem i6_prefixAt_accepts_iff (b : Buf) (s : Nat) :
    (ip6PrefixAt b s).1 = true ↔
      ∃ g : I6G, g.WF ∧ g.Acc ∧ i6Seg b (i6Start b s) (i6Start b s + g.text.length) = g.text ∧
        I6StopsOk b (i6Start b s + g.text.length) g ∧
        (i6Br b s = true → b[i6Start b s + g.text.length]? = none ∨ b[i6Start b s + g.text.length]? = some 93) := by
  constructor
  · intro h
    obtain ⟨g, wf, hacc, hseg, hstop, _, hres⟩ := i6_prefixAt_sound b s h
    refine ⟨g, wf, hacc, hseg, fun c hb => ⟨fun hc => ?_, (hstop c hb).2⟩, fun hbr => ?_⟩
    · subst hc
      rcases hres with h1 | h1 | ⟨c, h1, h2, _⟩ | h1 | ⟨c, h1, h2, _⟩
      · rw [hb] at h1; cases h1.1
      · exact h1.2.2.2.2.2.1
      · rw [hb] at h1; cases h1; exact absurd h2 i6_colon_not_hex
      · rw [hb] at h1; cases h1.1
      · rw [hb] at h1; cases h1; exact absurd rfl h2
    · rcases hres with h1 | h1 | ⟨c, _, _, _, h1, _⟩ | h1 | ⟨c, _, _, _, h1, _⟩
      · exact Or.inl h1.1
      · rw [hbr] at h1; cases h1.2.1
      · rw [hbr] at h1; cases h1
      · exact Or.inr h1.1
      · rw [hbr] at h1; cases h1
  · rintro ⟨g, wf, hacc, hseg, hstop, hbr⟩
    have hout := i6_prefixAt_complete b s g wf hseg (hstop.stops hacc)
    generalize ip6PrefixAt b s = r at hout
    cases hbr' : i6Br b s with
    | false =>
      rw [hbr'] at hout
      cases hout with
      | eofAcc hb hacc a ha => rfl
      | eofRej hb hacc' a => exact absurd hacc hacc'
      | colonMax hb hacc hc hne a ha => rfl
      | colonAgain hb h2 hcur hc =>
        have := (hstop 58 hb).1 rfl
        rw [h2] at this
        simp only [↓reduceIte] at this
        omega
      | fifthAcc c hb hx h4 hacc a ha => rfl
      | fifthRej c hb hx h4 hacc' a => exact absurd hacc hacc'
      | closeAcc hb hbr hacc a ha => rfl
      | closeRej hb hbr hacc' a => exact absurd hacc hacc'
      | otherAcc c hb h58 hx h93 hacc a ha => rfl
      | otherRej c hb h58 hx h93 hacc' a => exact absurd hacc hacc'
    | true =>
      rw [hbr'] at hout
      have hnx := hbr hbr'
      cases hout with
      | eofAcc hb hacc a ha => rfl
      | eofRej hb hacc' a => exact absurd hacc hacc'
      | colonMax hb hacc hc hne a ha => rcases hnx with h | h <;> rw [hb] at h <;> cases h
      | colonAgain hb h2 hcur hc => rcases hnx with h | h <;> rw [hb] at h <;> cases h
      | fifthAcc c hb hx h4 hacc a ha =>
        rcases hnx with h | h <;> rw [hb] at h <;> cases h
        exact absurd hx (by decide)
      | fifthRej c hb hx h4 hacc' a => exact absurd hacc hacc'
      | closeAcc hb hbr hacc a ha => rfl
      | closeRej hb hbr hacc' a => exact absurd hacc hacc'
      | otherAcc c hb h58 hx h93 hacc a ha =>
        rcases hnx with h | h <;> rw [hb] at h <;> cases h
        exact absurd ⟨rfl, rfl⟩ h93
      | otherRej c hb h58 hx h93 hacc' a => exact absurd hacc hacc'


/-! ### the usual notation -/

/-- groups separated by single colons -/
def i6Join : List (List UInt8) → List UInt8
  | [] => []
  | [g] => g
  | g :: g' :: gs => g ++ 58 :: i6Join (g' :: gs)

theorem i6Join_snoc (gs : List (List UInt8)) (x : List UInt8) : i6Join (gs ++ [x]) = i6T gs x := by
  induction gs with
  | nil => rfl
  | cons g gs ih =>
    cases gs with
    | nil => rfl
    | cons g' gs' =>
      show g ++ 58 :: i6Join (g' :: gs' ++ [x]) = g ++ 58 :: i6T (g' :: gs') x
      rw [ih]

theorem i6T_nil_eq (gs : List (List UInt8)) (h : gs ≠ []) : i6T gs [] = i6Join gs ++ [58] := by
  rcases i6_snoc_cases gs with h' | ⟨gs', x, h'⟩
  · exact absurd h' h
  · rw [h', ← i6T_close, i6Join_snoc]

/-- **address texts in the usual notation, as far as the code accepts them, with their value**: eight groups of one
    to four hex digits separated by colons, or groups — "::" — groups with at most seven groups on either side and at
    most eight in all (with eight groups written the "::" stands for no group at all: the code accepts that) -/
inductive I6Addr : List UInt8 → List Nat → Prop
  | full (gs : List (List UInt8)) (h8 : gs.length = 8) (hg : ∀ x ∈ gs, I6Grp x) : I6Addr (i6Join gs) (gs.map i6Val)
  | compressed (pre post : List (List UInt8)) (hpre : ∀ x ∈ pre, I6Grp x) (hpost : ∀ x ∈ post, I6Grp x)
      (h1 : pre.length ≤ 7) (h2 : post.length ≤ 7) (h8 : pre.length + post.length ≤ 8) :
      I6Addr (i6Join pre ++ 58 :: 58 :: i6Join post) (i6Value pre post)

theorem I6Grp.ne_nil {x : List UInt8} (h : I6Grp x) : x ≠ [] := by
  intro hx; rw [hx] at h; have := h.1; simp at this

theorem i6Value_lead (post : List (List UInt8)) (h : post.length ≤ 7) : i6Value [[]] post = i6Value [] post := by
  unfold i6Value
  simp only [List.map_cons, List.map_nil, List.length_cons, List.length_nil, i6Val_nil, Nat.zero_add, Nat.sub_zero,
    List.nil_append, List.cons_append]
  have : 8 - post.length = (8 - 1 - post.length) + 1 := by omega
  rw [this, List.replicate_succ]
  rfl

/-- the text starts with a single colon (an empty first group) -/
def I6G.Lead (g : I6G) : Prop := g.pre.head? = some [] ∧ (g.two = false ∨ 2 ≤ g.pre.length)

/-- the text ends with a single colon after a group that follows the "::" -/
def I6G.Trail (g : I6G) : Prop := g.two = true ∧ g.cur = [] ∧ g.post ≠ []

/-- every address of the usual notation is a complete text of the scanner's grammar, with the same value, without
    a leading or trailing single colon -/
theorem I6Addr.toG {l : List UInt8} {v : List Nat} (h : I6Addr l v) :
    ∃ g : I6G, g.WF ∧ g.Acc ∧ g.text = l ∧ g.value = v ∧ ¬ g.Lead ∧ ¬ g.Trail := by
  cases h with
  | full gs h8 hg =>
    rcases i6_snoc_cases gs with h' | ⟨gs', x, h'⟩
    · rw [h'] at h8; cases h8
    · subst h'
      have hl : gs'.length = 7 := by simp at h8; omega
      have hx : I6Grp x := hg x (by simp)
      refine ⟨⟨gs', false, [], x⟩, ⟨fun y hy => (hg y (by simp [hy])).2, fun y hy => ?_, (fun y hy => by cases hy), hx.2,
        (fun _ => ⟨rfl, by show gs'.length ≤ 7; omega⟩), (fun h => by cases h)⟩, Or.inr ⟨hl, hx.ne_nil⟩, ?_, ?_, ?_, ?_⟩
      · exact (hg y (by simp [List.mem_of_mem_drop hy])).ne_nil
      · show i6T gs' x = _
        rw [i6Join_snoc]
      · show i6Value (gs' ++ [x]) [] = _
        unfold i6Value
        simp [h8]
      · rintro ⟨h1, _⟩
        cases hgs : gs' with
        | nil => rw [hgs] at hl; cases hl
        | cons p ps =>
          have h1' : (p :: ps).head? = some [] := by rw [← hgs]; exact h1
          simp at h1'
          exact (hg p (by simp [hgs])).ne_nil h1'
      · rintro ⟨h1, _⟩; cases h1
  | compressed pre post hpre hpost h1 h2 h8 =>
    -- the groups before "::" as the scanner sees them
    have hpre' : ∃ pre' : List (List UInt8), pre' ≠ [] ∧ i6T pre' [] = i6Join pre ++ [58] ∧
        i6Value pre' post = i6Value pre post ∧ (∀ y ∈ pre', I6Hex4 y) ∧ (∀ y ∈ pre'.drop 1, y ≠ []) ∧
        pre'.length = max pre.length 1 ∧ ¬ (pre'.head? = some [] ∧ 2 ≤ pre'.length) := by
      cases hp : pre with
      | nil =>
        refine ⟨[[]], by simp, rfl, i6Value_lead post h2, ?_, ?_, rfl, ?_⟩
        · intro y hy; rw [List.mem_singleton.1 hy]; exact I6Hex4_nil
        · intro y hy; cases hy
        · rintro ⟨_, h⟩; simp at h
      | cons p ps =>
        refine ⟨p :: ps, by simp, i6T_nil_eq _ (by simp), rfl, fun y hy => (hpre y (by rw [hp]; exact hy)).2,
          fun y hy => (hpre y (by rw [hp]; exact List.mem_of_mem_drop hy)).ne_nil, by simp, ?_⟩
        rintro ⟨h, _⟩
        simp at h
        exact (hpre p (by rw [hp]; simp)).ne_nil h
    obtain ⟨pre', hne, htxt, hval, h4, hnn, hlen, hlead⟩ := hpre'
    have hlen' : pre'.length ≤ 7 ∧ (pre.length ≤ pre'.length) ∧ (pre = [] → pre'.length = 1) ∧
        (pre ≠ [] → pre'.length = pre.length) := by
      refine ⟨by omega, by omega, fun h => by rw [h] at hlen; exact hlen, fun h => ?_⟩
      have : pre.length ≠ 0 := fun hh => h (List.eq_nil_of_length_eq_zero hh)
      omega
    rcases i6_snoc_cases post with hpo | ⟨post', x, hpo⟩
    · subst hpo
      refine ⟨⟨pre', true, [], []⟩, ⟨h4, hnn, (fun y hy => by cases hy), I6Hex4_nil, (fun h => by cases h),
        (fun _ => ⟨hne, by show pre'.length + 1 + 0 ≤ 8; omega⟩)⟩, Or.inl rfl, ?_, ?_, ?_, ?_⟩
      · show i6T pre' [] ++ 58 :: i6T [] [] = _
        rw [htxt]; simp [i6T, i6Join]
      · show i6Value pre' (I6G.tail ⟨pre', true, [], []⟩) = _
        exact hval
      · rintro ⟨h, h'⟩
        rcases h' with h' | h'
        · cases h'
        · exact hlead ⟨h, h'⟩
      · rintro ⟨_, _, h⟩; exact h rfl
    · subst hpo
      have hx : I6Grp x := hpost x (by simp)
      have hpl : post'.length + 1 = (post' ++ [x]).length := by simp
      refine ⟨⟨pre', true, post', x⟩, ⟨h4, hnn, (fun y hy => hpost y (by simp [hy])), hx.2, (fun h => by cases h),
        (fun _ => ⟨hne, ?_⟩)⟩, Or.inl rfl, ?_, ?_, ?_, ?_⟩
      · show pre'.length + 1 + post'.length ≤ 8
        by_cases hp : pre = []
        · have := hlen'.2.2.1 hp; omega
        · have := hlen'.2.2.2 hp; omega
      · show i6T pre' [] ++ 58 :: i6T post' x = _
        rw [htxt, i6Join_snoc]; simp
      · show i6Value pre' (I6G.tail ⟨pre', true, post', x⟩) = _
        have : I6G.tail ⟨pre', true, post', x⟩ = post' ++ [x] := by
          unfold I6G.tail
          cases hxx : x with
          | nil => exact absurd hxx hx.ne_nil
          | cons a as => rfl
        rw [this]; exact hval
      · rintro ⟨h, h'⟩
        rcases h' with h' | h'
        · cases h'
        · exact hlead ⟨h, h'⟩
      · rintro ⟨_, h, _⟩; exact hx.ne_nil h


/-- conversely: a complete text of the scanner's grammar that has neither a leading nor a trailing single colon is an
    address of the usual notation, with the same value. So the texts accepted beyond the usual notation are exactly
    those with a single colon in front (read as an empty first group of value 0) or a single colon at the end of the
    part after "::" (ignored). -/
theorem I6G.toAddr (g : I6G) (wf : g.WF) (hacc : g.Acc) (hl : ¬ g.Lead) (ht : ¬ g.Trail) : I6Addr g.text g.value := by
  rcases g with ⟨pre, two, post, cur⟩
  obtain ⟨pre4, preNe, postG, cur4, one, tw⟩ := wf
  simp only at pre4 preNe postG cur4 one tw
  cases two with
  | false =>
    have h7 : pre.length = 7 ∧ cur ≠ [] := by
      rcases hacc with h | h
      · cases h
      · exact h
    have hgrp : ∀ x ∈ pre ++ [cur], I6Grp x := by
      intro x hx
      rcases List.mem_append.1 hx with hx | hx
      · refine ⟨?_, pre4 x hx⟩
        have hne : x ≠ [] := by
          cases hp : pre with
          | nil => rw [hp] at hx; cases hx
          | cons p ps =>
            rw [hp] at hx
            rcases List.mem_cons.1 hx with hx | hx
            · intro hxe
              apply hl
              refine ⟨?_, Or.inl rfl⟩
              show pre.head? = some []
              rw [hp, ← hxe, hx]; rfl
            · exact preNe x (by rw [hp]; exact hx)
        cases hxx : x with
        | nil => exact absurd hxx hne
        | cons a as => simp
      · rw [List.mem_singleton.1 hx]
        refine ⟨?_, cur4⟩
        cases hc : cur with
        | nil => exact absurd hc h7.2
        | cons a as => simp
    have h8 : (pre ++ [cur]).length = 8 := by simp; omega
    have e1 : (⟨pre, false, post, cur⟩ : I6G).text = i6Join (pre ++ [cur]) := by
      rw [i6Join_snoc]; rfl
    have e2 : (⟨pre, false, post, cur⟩ : I6G).value = (pre ++ [cur]).map i6Val := by
      show i6Value (pre ++ [cur]) [] = _
      unfold i6Value
      simp [h8]
    rw [e1, e2]
    exact .full _ h8 hgrp
  | true =>
    have htw := tw rfl
    -- the groups after "::"
    have hpost : ∃ npost : List (List UInt8), I6G.tail ⟨pre, true, post, cur⟩ = npost ∧ i6T post cur = i6Join npost ∧
        (∀ x ∈ npost, I6Grp x) ∧ npost.length ≤ post.length + 1 := by
      cases hc : cur with
      | nil =>
        have hp : post = [] := by
          cases hpp : post with
          | nil => rfl
          | cons q qs => exact absurd ⟨rfl, hc, by rw [hpp]; simp⟩ ht
        refine ⟨[], ?_, ?_, (fun x hx => by cases hx), by simp⟩
        · rw [hp]; rfl
        · rw [hp]; rfl
      | cons a as =>
        refine ⟨post ++ [a :: as], rfl, (i6Join_snoc _ _).symm, ?_, by simp⟩
        intro x hx
        rcases List.mem_append.1 hx with hx | hx
        · exact postG x hx
        · rw [List.mem_singleton.1 hx]
          exact ⟨by simp, by rw [← hc]; exact cur4⟩
    obtain ⟨npost, htail, hjoin, hgp, hlp⟩ := hpost
    have hpre : ∃ npre : List (List UInt8), i6T pre [] = i6Join npre ++ [58] ∧ i6Value pre npost = i6Value npre npost ∧
        (∀ x ∈ npre, I6Grp x) ∧ npre.length ≤ pre.length := by
      cases hp : pre with
      | nil => exact absurd hp htw.1
      | cons p ps =>
        by_cases hpe : p = []
        · have hps : ps = [] := by
            cases hpp : ps with
            | nil => rfl
            | cons q qs =>
              exfalso; apply hl
              refine ⟨?_, Or.inr ?_⟩
              · show pre.head? = some []
                rw [hp, hpe]; rfl
              · show 2 ≤ pre.length
                rw [hp, hpp]; simp
          subst hpe; subst hps
          refine ⟨[], rfl, i6Value_lead npost ?_, (fun x hx => by cases hx), by simp⟩
          have := htw.2
          rw [hp] at this
          simp at this
          omega
        · refine ⟨p :: ps, i6T_nil_eq _ (by simp), rfl, ?_, Nat.le_refl _⟩
          intro x hx
          have h4 : I6Hex4 x := pre4 x (by rw [hp]; exact hx)
          refine ⟨?_, h4⟩
          have hne : x ≠ [] := by
            rcases List.mem_cons.1 hx with hx | hx
            · rw [hx]; exact hpe
            · exact preNe x (by rw [hp]; exact hx)
          cases hxx : x with
          | nil => exact absurd hxx hne
          | cons a as => simp
    obtain ⟨npre, hpt, hpv, hgpre, hlpre⟩ := hpre
    have e1 : (⟨pre, true, post, cur⟩ : I6G).text = i6Join npre ++ 58 :: 58 :: i6Join npost := by
      show i6T pre [] ++ 58 :: i6T post cur = _
      rw [hpt, hjoin]; simp
    have e2 : (⟨pre, true, post, cur⟩ : I6G).value = i6Value npre npost := by
      show i6Value pre (I6G.tail ⟨pre, true, post, cur⟩) = _
      rw [htail, hpv]
    rw [e1, e2]
    have := htw.2
    have hp1 : 1 ≤ pre.length := by
      cases hp : pre with
      | nil => exact absurd hp htw.1
      | cons p ps => simp
    exact .compressed npre npost hgpre hgp (by omega) (by omega) (by omega)


/-! ### addresses of the usual notation: accepted with their value -/

theorem i6Seg_of_drop {b : Buf} {s : Nat} {l rest : List UInt8} (h : b.toList.drop s = l ++ rest) :
    i6Seg b s (s + l.length) = l ∧ b[s + l.length]? = rest.head? := by
  constructor
  · unfold i6Seg
    rw [h, Nat.add_sub_cancel_left]; simp
  · have : (b.toList.drop s)[l.length]? = (l ++ rest)[l.length]? := by rw [h]
    rw [List.getElem?_drop] at this
    rw [List.getElem?_append_right (Nat.le_refl _), Nat.sub_self] at this
    rw [List.head?_eq_getElem?, ← this]; simp

theorem i6T_bytes (gs : List (List UInt8)) (cur : List UInt8) (hg : ∀ x ∈ gs, I6Hex4 x) (hc : I6Hex4 cur) :
    ∀ c ∈ i6T gs cur, c = 58 ∨ I6IsHex c := by
  induction gs with
  | nil => intro c h; exact Or.inr (hc.2 c h)
  | cons g gs ih =>
    intro c h
    simp only [i6T, List.mem_append, List.mem_cons] at h
    rcases h with h | h | h
    · exact Or.inr ((hg g (by simp)).2 c h)
    · exact Or.inl h
    · exact ih (fun x hx => hg x (by simp [hx])) c h

/-- the text of the grammar consists of colons and hex digits -/
theorem I6G.text_bytes {g : I6G} (wf : g.WF) : ∀ c ∈ g.text, c = 58 ∨ I6IsHex c := by
  intro c h
  unfold I6G.text at h
  by_cases ht : g.two = true
  · rw [if_pos ht] at h
    simp only [List.mem_append, List.mem_cons] at h
    rcases h with h | h | h
    · exact i6T_bytes _ _ wf.pre4 I6Hex4_nil c h
    · exact Or.inl h
    · exact i6T_bytes _ _ (fun x hx => (wf.postG x hx).2) wf.cur4 c h
  · rw [if_neg ht] at h
    exact i6T_bytes _ _ wf.pre4 wf.cur4 c h

theorem I6G.Acc.text_ne {g : I6G} (h : g.Acc) (wf : g.WF) : g.text ≠ [] := by
  intro ht
  have := I6G.text_nil wf ht
  subst this
  rcases h with h | h
  · cases h
  · exact h.2 rfl

/-- no bracket is skipped in front of a text of the grammar -/
theorem i6Br_of_text {b : Buf} {s : Nat} {g : I6G} {rest : List UInt8} (wf : g.WF) (hacc : g.Acc)
    (hd : b.toList.drop s = g.text ++ rest) : i6Br b s = false := by
  have hne := hacc.text_ne wf
  cases ht : g.text with
  | nil => exact absurd ht hne
  | cons c t =>
    have hc : c = 58 ∨ I6IsHex c := g.text_bytes wf c (by rw [ht]; simp)
    have hb : b[s]? = some c := by
      have := (i6Seg_of_drop (l := []) (rest := g.text ++ rest) (by simpa using hd)).2
      rw [ht] at this
      simpa using this
    unfold i6Br
    rw [hb]
    have h91 : (c == 91) = false := by
      rcases hc with hc | hc
      · rw [hc]; rfl
      · cases h : c == 91
        · rfl
        · rw [beq_iff_eq] at h; subst h; exact absurd hc (by decide)
    split
    · rename_i c0 _ h1 _
      cases h1; exact h91
    · rfl

/-- **completeness for the usual notation**: an address followed by the end of the input is accepted with verdict Ok,
    followed by a byte that is neither a hex digit nor a colon with verdict BadChar; the offset is the length of the
    address and the words are its value -/
theorem i6_prefixAt_addr (b : Buf) (s : Nat) {l rest : List UInt8} {v : List Nat} (h : I6Addr l v)
    (hd : b.toList.drop s = l ++ rest) (hrest : ∀ c ∈ rest.head?, c ≠ 58 ∧ ¬ I6IsHex c) :
    ∃ a, a.toList = v ∧
      ip6PrefixAt b s = (true, l.length, (if rest = [] then .ok else .badChar), a, false) := by
  obtain ⟨g, wf, hacc, htxt, hval, _, _⟩ := h.toG
  subst htxt; subst hval
  have hbr := i6Br_of_text wf hacc hd
  have hst : i6Start b s = s := by unfold i6Start; rw [hbr]; rfl
  obtain ⟨hseg, hnx⟩ := i6Seg_of_drop hd
  have hstop : I6Stops b (s + g.text.length) g := by
    intro c hb
    rw [hnx] at hb
    have := hrest c (by rw [hb]; simp)
    exact ⟨fun h => absurd h this.1, fun h => absurd h this.2⟩
  have hout := i6_prefixAt_complete b s g wf (by rw [hst]; exact hseg) (by rw [hst]; exact hstop)
  rw [hst, hbr] at hout
  generalize ip6PrefixAt b s = r at hout
  have hoff : s + g.text.length - s = g.text.length := by omega
  cases hout with
  | eofAcc hb hacc a ha =>
    rw [hnx] at hb
    have : rest = [] := by cases rest with
      | nil => rfl
      | cons c t => cases hb
    exact ⟨a, ha, by rw [hoff, if_pos this]; rfl⟩
  | eofRej hb hacc' a => exact absurd hacc hacc'
  | colonMax hb hacc hc hne a ha =>
    rw [hnx] at hb
    exact absurd rfl (hrest 58 (by rw [hb]; simp)).1
  | colonAgain hb h2 hcur hc =>
    rw [hnx] at hb
    exact absurd rfl (hrest 58 (by rw [hb]; simp)).1
  | fifthAcc c hb hx h4 hacc a ha =>
    rw [hnx] at hb
    exact absurd hx (hrest c (by rw [hb]; simp)).2
  | fifthRej c hb hx h4 hacc' a => exact absurd hacc hacc'
  | closeAcc hb hbr' hacc a ha => cases hbr'
  | closeRej hb hbr' hacc' a => cases hbr'
  | otherAcc c hb h58 hx h93 hacc a ha =>
    rw [hnx] at hb
    have : rest ≠ [] := by intro h; rw [h] at hb; cases hb
    exact ⟨a, ha, by rw [hoff, if_neg this]; rfl⟩
  | otherRej c hb h58 hx h93 hacc' a => exact absurd hacc hacc'


theorem i6Br_of_bracket {b : Buf} {s : Nat} {c : UInt8} {t : List UInt8} (hd : b.toList.drop s = 91 :: c :: t) :
    i6Br b s = true := by
  have h0 : b[s]? = some 91 := by
    have := (i6Seg_of_drop (l := []) (rest := 91 :: c :: t) (by simpa using hd)).2
    simpa using this
  have h1 : b[s + 1]? = some c := by
    have := (i6Seg_of_drop (l := [91]) (rest := c :: t) (by simpa using hd)).2
    simpa using this
  unfold i6Br
  rw [h0, h1]
  rfl

/-- **addresses in brackets**: `[` address `]` is accepted, the offset is past the closing bracket and the verdict
    is Ok at the end of the input, MoreValues when a byte follows; `[` address at the end of the input (closing
    bracket missing) is ALSO accepted, with verdict MoreBytes and the offset at the end -/
theorem i6_prefixAt_bracketed (b : Buf) (s : Nat) {l rest : List UInt8} {v : List Nat} (h : I6Addr l v)
    (hd : b.toList.drop s = 91 :: l ++ rest) (hrest : rest = [] ∨ ∃ t, rest = 93 :: t) :
    ∃ a, a.toList = v ∧
      ip6PrefixAt b s = (if rest = [] then (true, l.length + 1, .moreBytes, a, false)
        else (true, l.length + 2, (if rest = [93] then .ok else .moreValues), a, false)) := by
  obtain ⟨g, wf, hacc, htxt, hval, _, _⟩ := h.toG
  subst htxt; subst hval
  have hne := hacc.text_ne wf
  have hbr : i6Br b s = true := by
    cases ht : g.text with
    | nil => exact absurd ht hne
    | cons c t => rw [ht] at hd; exact i6Br_of_bracket hd
  have hst : i6Start b s = s + 1 := by unfold i6Start; rw [hbr]; rfl
  have hd1 : b.toList.drop (s + 1) = g.text ++ rest := by
    have := congrArg (List.drop 1) hd
    rw [List.drop_drop] at this
    simpa [Nat.add_comm] using this
  obtain ⟨hseg, hnx⟩ := i6Seg_of_drop hd1
  have hstop : I6Stops b (s + 1 + g.text.length) g := by
    intro c hb
    rw [hnx] at hb
    rcases hrest with hr | ⟨t, hr⟩
    · rw [hr] at hb; cases hb
    · rw [hr] at hb
      simp at hb
      subst hb
      exact ⟨(fun h => by cases h), fun h => absurd h (by decide)⟩
  have hout := i6_prefixAt_complete b s g wf (by rw [hst]; exact hseg) (by rw [hst]; exact hstop)
  rw [hst, hbr] at hout
  generalize ip6PrefixAt b s = r at hout
  have hsz : b.size - s = 1 + g.text.length + rest.length := by
    have := congrArg List.length hd
    simp at this
    omega
  have hlt : s < b.size := by
    have := congrArg List.length hd
    simp at this
    omega
  cases hout with
  | eofAcc hb hacc a ha =>
    rw [hnx] at hb
    have hr : rest = [] := by cases rest with
      | nil => rfl
      | cons c t => cases hb
    refine ⟨a, ha, ?_⟩
    rw [if_pos hr]
    have : s + 1 + g.text.length - s = g.text.length + 1 := by omega
    rw [this]; rfl
  | eofRej hb hacc' a => exact absurd hacc hacc'
  | colonMax hb hacc hc hne a ha =>
    rw [hnx] at hb
    rcases hrest with hr | ⟨t, hr⟩ <;> rw [hr] at hb <;> cases hb
  | colonAgain hb h2 hcur hc =>
    rw [hnx] at hb
    rcases hrest with hr | ⟨t, hr⟩ <;> rw [hr] at hb <;> cases hb
  | fifthAcc c hb hx h4 hacc a ha =>
    rw [hnx] at hb
    rcases hrest with hr | ⟨t, hr⟩ <;> rw [hr] at hb <;> cases hb
    exact absurd hx (by decide)
  | fifthRej c hb hx h4 hacc' a => exact absurd hacc hacc'
  | closeAcc hb hbr' hacc a ha =>
    rw [hnx] at hb
    rcases hrest with hr | ⟨t, hr⟩
    · rw [hr] at hb; cases hb
    · refine ⟨a, ha, ?_⟩
      have hrne : rest ≠ [] := by rw [hr]; simp
      rw [if_neg hrne]
      have e1 : s + 1 + g.text.length + 1 - s = g.text.length + 2 := by omega
      rw [e1]
      have hlen : rest.length = t.length + 1 := by rw [hr]; simp
      by_cases ht : t = []
      · have : rest = [93] := by rw [hr, ht]
        rw [if_pos this, if_neg (by rw [hlen, ht] at hsz; simp at hsz; omega)]
      · have : rest ≠ [93] := by rw [hr]; simp [ht]
        have htl : 0 < t.length := List.length_pos_iff.2 ht
        rw [if_neg this, if_pos (by omega)]
  | closeRej hb hbr' hacc' a => exact absurd hacc hacc'
  | otherAcc c hb h58 hx h93 hacc a ha =>
    rw [hnx] at hb
    rcases hrest with hr | ⟨t, hr⟩ <;> rw [hr] at hb <;> cases hb
    exact absurd ⟨rfl, rfl⟩ h93
  | otherRej c hb h58 hx h93 hacc' a => exact absurd hacc hacc'


/-! ### ContainsIP6 -/

/-- IP6Prefix never gives the "Go would panic" indication (also proved, differently, in `SafeRest`) -/
theorem i6_prefixAt_nopanic (b : Buf) (s : Nat) : (ip6PrefixAt b s).2.2.2.2 = false := by
  obtain ⟨g, _, _, _, hout⟩ := i6_prefixAt_char b s
  generalize ip6PrefixAt b s = r at hout
  cases hout <;> first | rfl | (cases i6Br b s <;> rfl)

theorem i6_try_some (b : Buf) (o d : Nat) {r : Nat × Nat × Array Nat × Bool} (h : containsIP6Try b o d = some r) :
    o ≤ r.1 ∧ r.1 < d ∧ r.2.2.2 = false ∧ (∃ e, ip6PrefixAt b r.1 = (true, r.2.1, e, r.2.2.1, false)) ∧
    ∀ k, o ≤ k → k < r.1 → (ip6PrefixAt b k).1 = false := by
  fun_induction containsIP6Try b o d with
  | case1 o hlt nxt e a p hp =>
    cases h
    have hpn := i6_prefixAt_nopanic b o
    rw [hp] at hpn
    have hpn : p = false := hpn
    subst hpn
    exact ⟨Nat.le_refl _, hlt, rfl, ⟨e, hp⟩, fun k h1 h2 => by omega⟩
  | case2 o hlt x1 x2 x3 hp =>
    have hpn := i6_prefixAt_nopanic b o
    rw [hp] at hpn
    cases hpn
  | case3 o hlt hn1 hn2 ih =>
    obtain ⟨h1, h2, h3, h4, h5⟩ := ih h
    refine ⟨by omega, h2, h3, h4, fun k hk1 hk2 => ?_⟩
    rcases Nat.eq_or_lt_of_le hk1 with rfl | hk1'
    · rcases hq : ip6PrefixAt b o with ⟨ok, n1, e1, a1, p1⟩
      cases ok with
      | false => rfl
      | true => exact absurd hq (hn1 n1 e1 a1 p1)
    · exact h5 k (by omega) hk2
  | case4 o hlt => cases h

theorem i6_try_none (b : Buf) (o d : Nat) (h : containsIP6Try b o d = none) :
    ∀ k, o ≤ k → k < d → (ip6PrefixAt b k).1 = false := by
  fun_induction containsIP6Try b o d with
  | case1 o hlt nxt e a p hp => cases h
  | case2 o hlt x1 x2 x3 hp => cases h
  | case3 o hlt hn1 hn2 ih =>
    intro k hk1 hk2
    rcases Nat.eq_or_lt_of_le hk1 with rfl | hk1'
    · rcases hq : ip6PrefixAt b o with ⟨ok, n1, e1, a1, p1⟩
      cases ok with
      | false => rfl
      | true => exact absurd hq (hn1 n1 e1 a1 p1)
    · exact ih h k (by omega) hk2
  | case4 o hlt => intro k h1 h2; omega

/-- the positions ContainsIP6 tries for the colon at `d` when the search was (re)started at `i`: the five positions
    before the colon when there are five, else those from `i` on -/
def I6Tried (i d k : Nat) : Prop := k < d ∧ (if 5 ≤ d then d ≤ k + 5 else i ≤ k)

/-- **ContainsIP6, soundness**: the reported span starts at most five bytes before a colon, IP6Prefix accepts there
    with the reported length and words (so `i6_prefixAt_sound` applies), and no panic is indicated -/
theorem i6_containsLoop_sound (b : Buf) (i : Nat) {o n : Nat} {a : Array Nat} {p : Bool}
    (h : containsIP6Loop b i = some (o, n, a, p)) :
    p = false ∧ (∃ e, ip6PrefixAt b o = (true, n, e, a, false)) ∧
    ∃ d, b[d]? = some 58 ∧ o < d ∧ d ≤ o + 5 := by
  fun_induction containsIP6Loop b i with
  | case1 i hlt hidx => cases h
  | case2 i hlt dOffs hidx offs r htry =>
    cases h
    obtain ⟨h1, h2, h3, h4, _⟩ := i6_try_some b offs dOffs htry
    obtain ⟨hd1, hd2, _⟩ := indexByteFrom_some b i 58 hidx
    refine ⟨h3, h4, dOffs, hd2, h2, ?_⟩
    have h1' : offs ≤ o := h1
    by_cases h5 : dOffs ≥ 5
    · have : offs = dOffs - 5 := by show (if h : dOffs ≥ 5 then dOffs - 5 else i) = _; rw [dif_pos h5]
      omega
    · have h2' : o < dOffs := h2
      omega
  | case3 i hlt dOffs hidx offs htry hg ih => exact ih h
  | case4 i hlt dOffs hidx offs htry hg => cases h
  | case5 i hlt => cases h

/-- **ContainsIP6, completeness in the form the code supports**: when nothing is reported, IP6Prefix rejects at every
    position tried — for every colon at `d ≥ i`: the five positions before it when `d ≥ 5`, else the positions before
    it back to the previous colon (or to `i`) -/
theorem i6_containsLoop_none (b : Buf) (i : Nat) (h : containsIP6Loop b i = none) :
    ∀ d k, i ≤ d → b[d]? = some 58 → k < d → d ≤ k + 5 →
      (5 ≤ d ∨ (i ≤ k ∧ ∀ j, k ≤ j → j < d → b[j]? ≠ some 58)) → (ip6PrefixAt b k).1 = false := by
  fun_induction containsIP6Loop b i with
  | case1 i hlt hidx =>
    intro d k hd hb _ _ _
    exact absurd hb (indexByteFrom_none b i 58 hidx d hd)
  | case2 i hlt dOffs hidx offs r htry => cases h
  | case3 i hlt dOffs hidx offs htry hg ih =>
    intro d k hd hb hk1 hk2 hcond
    obtain ⟨hd1, hd2, hd3⟩ := indexByteFrom_some b i 58 hidx
    rcases Nat.lt_trichotomy d dOffs with hlt' | heq | hgt
    · exact absurd hb (hd3 d hd hlt')
    · subst heq
      apply i6_try_none b offs d htry k ?_ hk1
      by_cases h5 : d ≥ 5
      · have : offs = d - 5 := by show (if h : d ≥ 5 then d - 5 else i) = _; rw [dif_pos h5]
        omega
      · have : offs = i := by show (if h : d ≥ 5 then d - 5 else i) = _; rw [dif_neg h5]
        rcases hcond with hc | hc
        · omega
        · omega
    · apply ih h d k (by omega) hb hk1 hk2
      rcases hcond with hc | hc
      · exact Or.inl hc
      · right
        refine ⟨?_, hc.2⟩
        rcases Nat.lt_or_ge dOffs k with h' | h'
        · omega
        · exact absurd hd2 (hc.2 dOffs h' hgt)
  | case4 i hlt dOffs hidx offs htry hg =>
    obtain ⟨hd1, _, _⟩ := indexByteFrom_some b i 58 hidx
    omega
  | case5 i hlt =>
    intro d k hd hb _ _ _
    have := get?_lt hb
    omega

theorem i6_contains_sound (b : Buf) {o n : Nat} {a : Array Nat} {p : Bool} (h : containsIP6 b = some (o, n, a, p)) :
    p = false ∧ (∃ e, ip6PrefixAt b o = (true, n, e, a, false)) ∧ ∃ d, b[d]? = some 58 ∧ o < d ∧ d ≤ o + 5 :=
  i6_containsLoop_sound b 0 h

theorem i6_contains_none (b : Buf) (h : containsIP6 b = none) :
    ∀ d k, b[d]? = some 58 → k < d → d ≤ k + 5 → (5 ≤ d ∨ ∀ j, k ≤ j → j < d → b[j]? ≠ some 58) →
      (ip6PrefixAt b k).1 = false := by
  intro d k hb h1 h2 hc
  refine i6_containsLoop_none b 0 h d k (Nat.zero_le _) hb h1 h2 ?_
  rcases hc with hc | hc
  · exact Or.inl hc
  · exact Or.inr ⟨Nat.zero_le _, hc⟩


/-! ### the decision table, read by the byte at which the scanner stopped -/

section inv
variable {b : Buf} {s : Nat} {br : Bool} {o : Nat} {g : I6G} {r : Bool × Nat × Err × Array Nat × Bool}

/-- stopped at the end of the input -/
theorem I6Out.eof_inv (h : I6Out b s br o g r) (hb : b[o]? = none) :
    (g.Acc ∧ ∃ a, a.toList = g.value ∧ r = (true, o - s, (if br then .moreBytes else .ok), a, false)) ∨
    (¬ g.Acc ∧ ∃ a, r = (false, o - s, (if (g.cur.isEmpty && g.pre.isEmpty) = false then .moreBytes else .bad), a,
      false)) := by
  cases h with
  | eofAcc hb' hacc a ha => exact Or.inl ⟨hacc, a, ha, rfl⟩
  | eofRej hb' hacc a => exact Or.inr ⟨hacc, a, rfl⟩
  | colonMax hb' hacc hc hne a ha => rw [hb] at hb'; cases hb'
  | colonAgain hb' h2 hcur hc => rw [hb] at hb'; cases hb'
  | fifthAcc c hb' hx h4 hacc a ha => rw [hb] at hb'; cases hb'
  | fifthRej c hb' hx h4 hacc a => rw [hb] at hb'; cases hb'
  | closeAcc hb' hbr hacc a ha => rw [hb] at hb'; cases hb'
  | closeRej hb' hbr hacc a => rw [hb] at hb'; cases hb'
  | otherAcc c hb' h58 hx h93 hacc a ha => rw [hb] at hb'; cases hb'
  | otherRej c hb' h58 hx h93 hacc a => rw [hb] at hb'; cases hb'

/-- stopped at a colon: a third colon in a row / a second "::" is rejected with Bad at that colon; a colon after the
    maximal number of colons ends the address (BadChar; Bad inside brackets) -/
theorem I6Out.colon_inv (h : I6Out b s br o g r) (hb : b[o]? = some 58) :
    (g.two = true ∧ g.cur = [] ∧ g.colons < 8 ∧ r = (false, o - s, .bad, Array.replicate 8 0, false)) ∨
    (g.Acc ∧ g.colons = (if g.two then 8 else 7) ∧ ∃ a, a.toList = g.valueCut ∧
      r = if br then (false, o - s, .bad, a, false) else (true, o - s, .badChar, a, false)) := by
  cases h with
  | eofAcc hb' hacc a ha => rw [hb] at hb'; cases hb'
  | eofRej hb' hacc a => rw [hb] at hb'; cases hb'
  | colonMax hb' hacc hc hne a ha => exact Or.inr ⟨hacc, hc, a, ha, rfl⟩
  | colonAgain hb' h2 hcur hc => exact Or.inl ⟨h2, hcur, hc, rfl⟩
  | fifthAcc c hb' hx h4 hacc a ha => rw [hb] at hb'; cases hb'; exact absurd hx i6_colon_not_hex
  | fifthRej c hb' hx h4 hacc a => rw [hb] at hb'; cases hb'; exact absurd hx i6_colon_not_hex
  | closeAcc hb' hbr hacc a ha => rw [hb] at hb'; cases hb'
  | closeRej hb' hbr hacc a => rw [hb] at hb'; cases hb'
  | otherAcc c hb' h58 hx h93 hacc a ha => rw [hb] at hb'; cases hb'; exact absurd rfl h58
  | otherRej c hb' h58 hx h93 hacc a => rw [hb] at hb'; cases hb'; exact absurd rfl h58

/-- stopped at a hex digit: it is a fifth digit; after a complete address MoreValues (Bad inside brackets), else Bad -/
theorem I6Out.hex_inv (h : I6Out b s br o g r) {c : UInt8} (hb : b[o]? = some c) (hx : I6IsHex c) :
    g.cur.length = 4 ∧
    ((g.Acc ∧ ∃ a, a.toList = g.value ∧
        r = if br then (false, o - s, .bad, a, false) else (true, o - s, .moreValues, a, false)) ∨
     (¬ g.Acc ∧ ∃ a, r = (false, o - s, .bad, a, false))) := by
  cases h with
  | eofAcc hb' hacc a ha => rw [hb] at hb'; cases hb'
  | eofRej hb' hacc a => rw [hb] at hb'; cases hb'
  | colonMax hb' hacc hc hne a ha => rw [hb] at hb'; cases hb'; exact absurd hx i6_colon_not_hex
  | colonAgain hb' h2 hcur hc => rw [hb] at hb'; cases hb'; exact absurd hx i6_colon_not_hex
  | fifthAcc c' hb' hx' h4 hacc a ha => exact ⟨h4, Or.inl ⟨hacc, a, ha, rfl⟩⟩
  | fifthRej c' hb' hx' h4 hacc a => exact ⟨h4, Or.inr ⟨hacc, a, rfl⟩⟩
  | closeAcc hb' hbr hacc a ha => rw [hb] at hb'; cases hb'; exact absurd hx (by decide)
  | closeRej hb' hbr hacc a => rw [hb] at hb'; cases hb'; exact absurd hx (by decide)
  | otherAcc c' hb' h58 hx' h93 hacc a ha => rw [hb] at hb'; cases hb'; exact absurd hx hx'
  | otherRej c' hb' h58 hx' h93 hacc a => rw [hb] at hb'; cases hb'; exact absurd hx hx'

/-- stopped at the closing bracket of a bracketed text -/
theorem I6Out.close_inv (h : I6Out b s br o g r) (hb : b[o]? = some 93) (hbr : br = true) :
    (g.Acc ∧ ∃ a, a.toList = g.value ∧
        r = (true, o + 1 - s, (if o + 1 < b.size then .moreValues else .ok), a, false)) ∨
    (¬ g.Acc ∧ ∃ a, r = (false, o - s, .bad, a, false)) := by
  cases h with
  | eofAcc hb' hacc a ha => rw [hb] at hb'; cases hb'
  | eofRej hb' hacc a => rw [hb] at hb'; cases hb'
  | colonMax hb' hacc hc hne a ha => rw [hb] at hb'; cases hb'
  | colonAgain hb' h2 hcur hc => rw [hb] at hb'; cases hb'
  | fifthAcc c' hb' hx' h4 hacc a ha => rw [hb] at hb'; cases hb'; exact absurd hx' (by decide)
  | fifthRej c' hb' hx' h4 hacc a => rw [hb] at hb'; cases hb'; exact absurd hx' (by decide)
  | closeAcc hb' hbr' hacc a ha => exact Or.inl ⟨hacc, a, ha, rfl⟩
  | closeRej hb' hbr' hacc a => exact Or.inr ⟨hacc, a, rfl⟩
  | otherAcc c' hb' h58 hx' h93 hacc a ha => rw [hb] at hb'; cases hb'; exact absurd ⟨hbr, rfl⟩ h93
  | otherRej c' hb' h58 hx' h93 hacc a => rw [hb] at hb'; cases hb'; exact absurd ⟨hbr, rfl⟩ h93

/-- stopped at any other byte: after a complete address BadChar (Bad inside brackets: unbalanced bracket), else Bad -/
theorem I6Out.other_inv (h : I6Out b s br o g r) {c : UInt8} (hb : b[o]? = some c) (h58 : c ≠ 58) (hx : ¬ I6IsHex c)
    (h93 : ¬ (br = true ∧ c = 93)) :
    (g.Acc ∧ ∃ a, a.toList = g.value ∧
        r = if br then (false, o - s, .bad, a, false) else (true, o - s, .badChar, a, false)) ∨
    (¬ g.Acc ∧ ∃ a, r = (false, o - s, .bad, a, false)) := by
  cases h with
  | eofAcc hb' hacc a ha => rw [hb] at hb'; cases hb'
  | eofRej hb' hacc a => rw [hb] at hb'; cases hb'
  | colonMax hb' hacc hc hne a ha => rw [hb] at hb'; cases hb'; exact absurd rfl h58
  | colonAgain hb' h2 hcur hc => rw [hb] at hb'; cases hb'; exact absurd rfl h58
  | fifthAcc c' hb' hx' h4 hacc a ha => rw [hb] at hb'; cases hb'; exact absurd hx' hx
  | fifthRej c' hb' hx' h4 hacc a => rw [hb] at hb'; cases hb'; exact absurd hx' hx
  | closeAcc hb' hbr' hacc a ha => rw [hb] at hb'; cases hb'; exact absurd ⟨hbr', rfl⟩ h93
  | closeRej hb' hbr' hacc a => rw [hb] at hb'; cases hb'; exact absurd ⟨hbr', rfl⟩ h93
  | otherAcc c' hb' h58' hx' h93' hacc a ha => exact Or.inl ⟨hacc, a, ha, rfl⟩
  | otherRej c' hb' h58' hx' h93' hacc a => exact Or.inr ⟨hacc, a, rfl⟩

end inv


/-! ### the decision table on texts: what IP6Prefix returns for a text of the grammar followed by a given byte -/

theorem i6_prefixAt_eof (b : Buf) (s : Nat) (g : I6G) (wf : g.WF) (hd : b.toList.drop (i6Start b s) = g.text) :
    (g.Acc ∧ ∃ a, a.toList = g.value ∧ ip6PrefixAt b s =
        (true, i6Start b s + g.text.length - s, (if i6Br b s then .moreBytes else .ok), a, false)) ∨
    (¬ g.Acc ∧ ∃ a, ip6PrefixAt b s = (false, i6Start b s + g.text.length - s,
        (if (g.cur.isEmpty && g.pre.isEmpty) = false then .moreBytes else .bad), a, false)) := by
  obtain ⟨hseg, hnx⟩ := i6Seg_of_drop (rest := []) (by simpa using hd)
  have hb : b[i6Start b s + g.text.length]? = none := by simpa using hnx
  exact (i6_prefixAt_complete b s g wf hseg (fun c hc => by rw [hb] at hc; cases hc)).eof_inv hb

/-- **rejections at a colon, with the returned offset**: a third colon in a row or a second "::" — Bad, offset of that
    colon; a colon after the maximal number of colons (7 without "::", 8 with it) — the address ends there: BadChar,
    or Bad inside brackets -/
theorem i6_prefixAt_colon (b : Buf) (s : Nat) (g : I6G) (wf : g.WF) {rest : List UInt8}
    (hd : b.toList.drop (i6Start b s) = g.text ++ 58 :: rest)
    (hc : (g.colons = (if g.two then 8 else 7) ∧ (g.two = false → g.cur ≠ [])) ∨ (g.two = true ∧ g.cur = [])) :
    (g.two = true ∧ g.cur = [] ∧ g.colons < 8 ∧
      ip6PrefixAt b s = (false, i6Start b s + g.text.length - s, .bad, Array.replicate 8 0, false)) ∨
    (g.Acc ∧ g.colons = (if g.two then 8 else 7) ∧ ∃ a, a.toList = g.valueCut ∧
      ip6PrefixAt b s = if i6Br b s then (false, i6Start b s + g.text.length - s, .bad, a, false)
        else (true, i6Start b s + g.text.length - s, .badChar, a, false)) := by
  obtain ⟨hseg, hnx⟩ := i6Seg_of_drop hd
  have hb : b[i6Start b s + g.text.length]? = some 58 := by simpa using hnx
  refine (i6_prefixAt_complete b s g wf hseg (fun c hc' => ?_)).colon_inv hb
  rw [hb] at hc'; cases hc'
  exact ⟨fun _ => hc, fun hx => absurd hx i6_colon_not_hex⟩

/-- **a group of more than four digits**: after a complete address MoreValues with the offset of the fifth digit (Bad
    inside brackets); inside an address Bad -/
theorem i6_prefixAt_hex (b : Buf) (s : Nat) (g : I6G) (wf : g.WF) {c : UInt8} {rest : List UInt8}
    (hd : b.toList.drop (i6Start b s) = g.text ++ c :: rest) (hx : I6IsHex c) (h4 : g.cur.length = 4) :
    (g.Acc ∧ ∃ a, a.toList = g.value ∧
        ip6PrefixAt b s = if i6Br b s then (false, i6Start b s + g.text.length - s, .bad, a, false)
          else (true, i6Start b s + g.text.length - s, .moreValues, a, false)) ∨
     (¬ g.Acc ∧ ∃ a, ip6PrefixAt b s = (false, i6Start b s + g.text.length - s, .bad, a, false)) := by
  obtain ⟨hseg, hnx⟩ := i6Seg_of_drop hd
  have hb : b[i6Start b s + g.text.length]? = some c := by simpa using hnx
  refine ((i6_prefixAt_complete b s g wf hseg (fun c' hc' => ?_)).hex_inv hb hx).2
  rw [hb] at hc'; cases hc'
  exact ⟨fun h58 => by rw [h58] at hx; exact absurd hx i6_colon_not_hex, fun _ => h4⟩

/-- the closing bracket -/
theorem i6_prefixAt_close (b : Buf) (s : Nat) (g : I6G) (wf : g.WF) {rest : List UInt8}
    (hd : b.toList.drop (i6Start b s) = g.text ++ 93 :: rest) (hbr : i6Br b s = true) :
    (g.Acc ∧ ∃ a, a.toList = g.value ∧ ip6PrefixAt b s =
        (true, i6Start b s + g.text.length + 1 - s,
          (if i6Start b s + g.text.length + 1 < b.size then .moreValues else .ok), a, false)) ∨
    (¬ g.Acc ∧ ∃ a, ip6PrefixAt b s = (false, i6Start b s + g.text.length - s, .bad, a, false)) := by
  obtain ⟨hseg, hnx⟩ := i6Seg_of_drop hd
  have hb : b[i6Start b s + g.text.length]? = some 93 := by simpa using hnx
  refine (i6_prefixAt_complete b s g wf hseg (fun c' hc' => ?_)).close_inv hb hbr
  rw [hb] at hc'; cases hc'
  exact ⟨(fun h => by cases h), fun hx => absurd hx (by decide)⟩

/-- **any other byte** (in particular an unbalanced bracket: a bracketed address followed by something else than `]`,
    verdict Bad; a `]` without `[` is just such a byte, verdict BadChar) -/
theorem i6_prefixAt_other (b : Buf) (s : Nat) (g : I6G) (wf : g.WF) {c : UInt8} {rest : List UInt8}
    (hd : b.toList.drop (i6Start b s) = g.text ++ c :: rest) (h58 : c ≠ 58) (hx : ¬ I6IsHex c)
    (h93 : ¬ (i6Br b s = true ∧ c = 93)) :
    (g.Acc ∧ ∃ a, a.toList = g.value ∧
        ip6PrefixAt b s = if i6Br b s then (false, i6Start b s + g.text.length - s, .bad, a, false)
          else (true, i6Start b s + g.text.length - s, .badChar, a, false)) ∨
    (¬ g.Acc ∧ ∃ a, ip6PrefixAt b s = (false, i6Start b s + g.text.length - s, .bad, a, false)) := by
  obtain ⟨hseg, hnx⟩ := i6Seg_of_drop hd
  have hb : b[i6Start b s + g.text.length]? = some c := by simpa using hnx
  refine (i6_prefixAt_complete b s g wf hseg (fun c' hc' => ?_)).other_inv hb h58 hx h93
  rw [hb] at hc'; cases hc'
  exact ⟨fun h => absurd h h58, fun h => absurd h hx⟩

/-- when the group being read is empty or there is no "::", the value reported at a surplus colon is the right one -/
theorem I6G.valueCut_eq (g : I6G) (h : g.two = false ∨ g.cur = []) : g.valueCut = g.value := by
  unfold I6G.valueCut I6G.value I6G.tail
  rcases h with h | h
  · rw [h]; rfl
  · rw [h]; rfl


/-! ### the value consists of eight 16-bit words -/

theorem i6Value_lt (pre tail : List (List UInt8)) (h1 : ∀ x ∈ pre, I6Hex4 x) (h2 : ∀ x ∈ tail, I6Hex4 x) :
    ∀ w ∈ i6Value pre tail, w < 65536 := by
  intro w hw
  unfold i6Value at hw
  simp only [List.mem_append, List.mem_map, List.mem_replicate] at hw
  rcases hw with (⟨x, hx, rfl⟩ | ⟨_, rfl⟩) | ⟨x, hx, rfl⟩
  · exact (h1 x hx).val_lt
  · decide
  · exact (h2 x hx).val_lt

theorem I6G.tail_hex4 {g : I6G} (wf : g.WF) : ∀ x ∈ g.tail, I6Hex4 x := by
  intro x hx
  unfold I6G.tail at hx
  split at hx
  · exact (wf.postG x hx).2
  · rcases List.mem_append.1 hx with h | h
    · exact (wf.postG x h).2
    · rw [List.mem_singleton.1 h]; exact wf.cur4

theorem I6G.tail_length_le (g : I6G) : g.tail.length ≤ g.post.length + 1 := by
  unfold I6G.tail
  split <;> simp

/-- the value of a complete address: eight words, each below 2^16 -/
theorem I6G.value_words {g : I6G} (wf : g.WF) (hacc : g.Acc) : g.value.length = 8 ∧ ∀ w ∈ g.value, w < 65536 := by
  unfold I6G.value
  by_cases ht : g.two = true
  · rw [if_pos ht]
    have := (wf.tw ht).2
    have := g.tail_length_le
    exact ⟨i6Value_length _ _ (by omega), i6Value_lt _ _ wf.pre4 (g.tail_hex4 wf)⟩
  · rw [if_neg ht]
    have h7 : g.pre.length = 7 := by
      rcases hacc with h | h
      · exact absurd h ht
      · exact h.1
    refine ⟨i6Value_length _ _ (by simp; omega), i6Value_lt _ _ ?_ (fun x hx => by cases hx)⟩
    intro x hx
    rcases List.mem_append.1 hx with h | h
    · exact wf.pre4 x h
    · rw [List.mem_singleton.1 h]; exact wf.cur4

theorem I6G.valueCut_words {g : I6G} (wf : g.WF) (hacc : g.Acc) :
    g.valueCut.length = 8 ∧ ∀ w ∈ g.valueCut, w < 65536 := by
  unfold I6G.valueCut
  by_cases ht : g.two = true
  · rw [if_pos ht]
    have := (wf.tw ht).2
    exact ⟨i6Value_length _ _ (by omega), i6Value_lt _ _ wf.pre4 (fun x hx => (wf.postG x hx).2)⟩
  · have := (g.value_words wf hacc)
    unfold I6G.value at this
    rw [if_neg ht] at this ⊢
    exact this

/-! ### tests (closed computations on the model, `decide +kernel`) and non-vacuity of the hypotheses -/

-- the usual notation
example : ip6Prefix "::1".toUTF8.data = (true, 3, .ok, #[0, 0, 0, 0, 0, 0, 0, 1], false) := by decide +kernel
example : ip6Prefix "1::".toUTF8.data = (true, 3, .ok, #[1, 0, 0, 0, 0, 0, 0, 0], false) := by decide +kernel
example : ip6Prefix "::".toUTF8.data = (true, 2, .ok, #[0, 0, 0, 0, 0, 0, 0, 0], false) := by decide +kernel
example : ip6Prefix "1:2:3:4:5:6:7:8".toUTF8.data = (true, 15, .ok, #[1, 2, 3, 4, 5, 6, 7, 8], false) := by
  decide +kernel
example : ip6Prefix "1:2:3:4:5:6:7::".toUTF8.data = (true, 15, .ok, #[1, 2, 3, 4, 5, 6, 7, 0], false) := by
  decide +kernel
example : ip6Prefix "::2:3:4:5:6:7:8".toUTF8.data = (true, 15, .ok, #[0, 2, 3, 4, 5, 6, 7, 8], false) := by
  decide +kernel
example : ip6Prefix "fe80::1%eth0".toUTF8.data = (true, 7, .badChar, #[65152, 0, 0, 0, 0, 0, 0, 1], false) := by
  decide +kernel
-- eight groups written AND a "::" (standing for no group): accepted
example : ip6Prefix "1:2:3:4:5:6:7::8".toUTF8.data = (true, 16, .ok, #[1, 2, 3, 4, 5, 6, 7, 8], false) := by
  decide +kernel
example : ip6Prefix "1:2:3:4:5:6::8:9".toUTF8.data = (true, 16, .ok, #[1, 2, 3, 4, 5, 6, 8, 9], false) := by
  decide +kernel
-- brackets; a missing closing bracket is accepted with MoreBytes
example : ip6Prefix "[::1]".toUTF8.data = (true, 5, .ok, #[0, 0, 0, 0, 0, 0, 0, 1], false) := by decide +kernel
example : ip6Prefix "[::1]x".toUTF8.data = (true, 5, .moreValues, #[0, 0, 0, 0, 0, 0, 0, 1], false) := by
  decide +kernel
example : ip6Prefix "[::1".toUTF8.data = (true, 4, .moreBytes, #[0, 0, 0, 0, 0, 0, 0, 1], false) := by decide +kernel
example : ip6Prefix "[::1x".toUTF8.data = (false, 4, .bad, #[0, 0, 0, 0, 0, 0, 0, 1], false) := by decide +kernel
example : ip6Prefix "::1]".toUTF8.data = (true, 3, .badChar, #[0, 0, 0, 0, 0, 0, 0, 1], false) := by decide +kernel
example : (ip6Prefix "[]".toUTF8.data).1 = false ∧ (ip6Prefix "[".toUTF8.data).1 = false := by decide +kernel
-- too many colons, a second "::", more than four digits
example : ip6Prefix "1:2:3:4:5:6:7:8:9".toUTF8.data = (true, 15, .badChar, #[1, 2, 3, 4, 5, 6, 7, 8], false) := by
  decide +kernel
example : ip6Prefix "1::2::3".toUTF8.data = (false, 5, .bad, #[0, 0, 0, 0, 0, 0, 0, 0], false) := by decide +kernel
example : ip6Prefix "1:::".toUTF8.data = (false, 3, .bad, #[0, 0, 0, 0, 0, 0, 0, 0], false) := by decide +kernel
example : ip6Prefix "12345::".toUTF8.data = (false, 4, .bad, #[4660, 0, 0, 0, 0, 0, 0, 0], false) := by decide +kernel
example : ip6Prefix "abcd::12345".toUTF8.data = (true, 10, .moreValues, #[43981, 0, 0, 0, 0, 0, 0, 4660], false) := by
  decide +kernel
-- no dual IPv6 + IPv4 notation: the address ends before the dot
example : ip6Prefix "::ffff:1.2.3.4".toUTF8.data = (true, 8, .badChar, #[0, 0, 0, 0, 0, 0, 65535, 1], false) := by
  decide +kernel
-- truncated texts
example : ip6Prefix "1:2:3:4:5:6:7:".toUTF8.data = (false, 14, .moreBytes, #[1, 2, 3, 4, 5, 6, 7, 0], false) := by
  decide +kernel
example : (ip6Prefix "1:".toUTF8.data).1 = false ∧ (ip6Prefix ":".toUTF8.data).1 = false ∧
    (ip6Prefix "".toUTF8.data).1 = false := by decide +kernel

/-! #### accepted beyond the usual notation (pinned; see `I6G.Lead`, `I6G.Trail`) -/

-- a single leading colon: an empty first group of value 0
example : ip6Prefix ":1:2:3:4:5:6:7".toUTF8.data = (true, 14, .ok, #[0, 1, 2, 3, 4, 5, 6, 7], false) := by
  decide +kernel
example : ip6Prefix ":1::2".toUTF8.data = (true, 5, .ok, #[0, 1, 0, 0, 0, 0, 0, 2], false) := by decide +kernel
-- a single trailing colon after the "::" part: ignored
example : ip6Prefix "1::2:".toUTF8.data = (true, 5, .ok, #[1, 0, 0, 0, 0, 0, 0, 2], false) := by decide +kernel
example : ip6Prefix "1::2:3:4:5:6:7::".toUTF8.data = (true, 15, .badChar, #[1, 0, 2, 3, 4, 5, 6, 7], false) := by
  decide +kernel
example : ip6Prefix "1:2:3:4:5:6:7:::".toUTF8.data = (true, 15, .badChar, #[1, 2, 3, 4, 5, 6, 7, 0], false) := by
  decide +kernel

/-! #### the value reported at a ninth colon loses the last group (`I6G.valueCut`; looks like a defect of the library) -/

example : ip6Prefix "::2:3:4:5:6:7:8:".toUTF8.data = (true, 15, .badChar, #[0, 0, 2, 3, 4, 5, 6, 7], false) := by
  decide +kernel
example : ip6Prefix "1:2:3:4:5:6:7::8:".toUTF8.data = (true, 16, .badChar, #[1, 2, 3, 4, 5, 6, 7, 0], false) := by
  decide +kernel
/-- the text `::2:3:4:5:6:7:8` as the scanner reads it -/
def i6ExCut : I6G := ⟨[[]], true, [[50], [51], [52], [53], [54], [55]], [56]⟩
example : i6ExCut.text = "::2:3:4:5:6:7:8".toUTF8.data.toList := by decide
example : i6ExCut.value = [0, 2, 3, 4, 5, 6, 7, 8] ∧ i6ExCut.valueCut = [0, 0, 2, 3, 4, 5, 6, 7] := by decide

/-! #### ContainsIP6 -/

example : containsIP6 "x1::2".toUTF8.data = some (1, 4, #[1, 0, 0, 0, 0, 0, 0, 2], false) := by decide +kernel
example : containsIP6 "abcdef::1".toUTF8.data = some (2, 7, #[52719, 0, 0, 0, 0, 0, 0, 1], false) := by decide +kernel
-- an address at the very start that begins with a colon is never tried (no position before the first colon)
example : containsIP6 "::1".toUTF8.data = none ∧ containsIP6 "::ffff:1.2.3.4".toUTF8.data = none := by decide +kernel
example : containsIP6 "1::2::3".toUTF8.data = some (3, 4, #[2, 0, 0, 0, 0, 0, 0, 3], false) := by decide +kernel

/-! #### the hypotheses of the theorems are satisfiable -/

example : I6Addr [58, 58, 49] [0, 0, 0, 0, 0, 0, 0, 1] :=
  I6Addr.compressed [] [[49]] (fun x hx => by cases hx)
    (fun x hx => by rw [List.mem_singleton.1 hx]; exact ⟨by decide, by decide, by decide⟩)
    (by decide) (by decide) (by decide)

example : ∃ a, a.toList = [0, 0, 0, 0, 0, 0, 0, 1] ∧
    ip6PrefixAt "::1 ".toUTF8.data 0 = (true, 3, .badChar, a, false) := by
  have h : I6Addr [58, 58, 49] [0, 0, 0, 0, 0, 0, 0, 1] :=
    I6Addr.compressed [] [[49]] (fun x hx => by cases hx)
      (fun x hx => by rw [List.mem_singleton.1 hx]; exact ⟨by decide, by decide, by decide⟩)
      (by decide) (by decide) (by decide)
  exact i6_prefixAt_addr "::1 ".toUTF8.data 0 (rest := [32]) h (by decide) (by decide)

/-- the text `1::` as the scanner reads it -/
def i6ExDc : I6G := ⟨[[49]], true, [], []⟩

theorem i6ExDc_wf : i6ExDc.WF :=
  ⟨(fun x hx => by rw [List.mem_singleton.1 hx]; exact ⟨by decide, by decide⟩), (fun x hx => by cases hx),
    (fun x hx => by cases hx), I6Hex4_nil, (fun h => by cases h), (fun _ => ⟨by decide, by decide⟩)⟩

-- a third colon after "1::" is rejected with Bad at offset 3 (instance of `i6_prefixAt_colon`, first alternative)
example : ip6PrefixAt "1:::".toUTF8.data 0 = (false, 3, .bad, Array.replicate 8 0, false) := by
  rcases i6_prefixAt_colon "1:::".toUTF8.data 0 i6ExDc i6ExDc_wf (rest := []) (by decide) (Or.inr ⟨rfl, rfl⟩) with
    h | h
  · exact h.2.2.2
  · exact absurd h.2.1 (by decide)


end Sipsp
