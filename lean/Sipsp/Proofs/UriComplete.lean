/-
  Sipsp.Proofs.UriComplete — ParseURI: WHICH texts are accepted (property C14, completeness), the exact
  `accepted ↔ grammar` for sip: / sips:, and error code + position of the common rejections.

  THE GRAMMAR (index based, on the bytes of `b`; byte classes taken from the "ordinary byte" branches of the
  automaton `uriStep`):
    * scheme (`UcSchSip` / `UcSchSips` / `UcSchTel`): the first four bytes are compared after OR-ing 0x20 into each, so
      letters match in either case (and 0x1a passes for the ':' of `sip:` / `tel:`); the ':' of `sips:` is exact;
    * `UcRest b k u` — what stands behind a scheme of `k` bytes, decomposed into the components of `u`:
        - no user-info: host = `UcFirstTok` (first byte none of `[ : ]` but otherwise ANY byte, even `@ ; ?`; then
          no `@ : ; ? [ ]`; note: `&` is allowed here) or `UcBrHost` (`[` … `]`, inside none of `] [ @ ; ? &`);
        - or user-info, '@' at `a`, then host = `UcNameHost` (not empty, no `: ; ? & @`, first byte not `[`; `]` and
          a later `[` ARE allowed) or `UcBrHost`; the user-info is
            `UcUserPlain`: user [`:` password], neither with any of `@ : ; ? [ ]` (first user byte as above), or
            `UcUserBack` (the back-tracking forms: `;` / `?` in front of the '@' belong to the user): a head that the
              automaton first reads as host [and port] (`UcBackHead`: first token | `[…]` | `[…]:digits` of value
              ≤ 65535), the first `;` / `?`, then bytes without `@` and `:`; optionally `:` and a password without
              `@ : ; ?` (brackets allowed here); the user is everything from the scheme to that `:` / the '@';
        - then `UcPo`: optional `:` digits (value = `portNo` ≤ 65535, leading zeros fine, may be empty), optional `;`
          parameters (no `?`, no `@`), optional `?` headers (no `;`, no `@`) up to the end of the input;
    * `UcURI b u` = sip / sips scheme + `UcRest`; `UcTelURI b u` = tel scheme + `UcRest` (`u` = sip-style
      decomposition, number as host).
  PROVED, for every `b` of at most 65,535 bytes (all final theorems carry EXPORT C14):
    * `parseURI_complete` : `UcURI b u → parseURI b {} = (.none, b.size, u, false)` — accepted, consumed to the end,
      no panic, and user, password, host, port, port number, parameters, headers, scheme and type are exactly those
      of the decomposition; `parseURI_complete_gen` (all three types, through `ucOut`), `ucRun_complete` (behind the
      scheme, any start state); covers the forms without user, with user, user:password and all back-tracking forms;
    * `parseURI_sound` : an accepted sip: / sips: text is a text of the grammar and the report is its decomposition
      (new loop invariant `UcSInv` on top of `UInv` / `ULPInv` of UriSpec / UriLink: `ucs_step`, `uriLoop_ucs`,
      `uriFinish_cls`; assembled with `URILayout` and `ULPortOK` in `uc_rest_of_layout`);
    * `parseURI_iff` : `UcURI b u ↔ parseURI b {} = (.none, b.size, u, false) ∧ u.uriType ≠ TELuri`;
      `parseURI_ok_iff` : accepted as sip / sips ↔ `∃ u, UcURI b u`; `UcURI_unique` : the decomposition is unique;
    * tel: — `parseURI_complete_tel` (any text of the grammar behind `tel:`: accepted, host field zero, the number
      reported as user), `parseURI_tel_simple` (`tel:` number [`;` params], no `@ : ; ? [ ]` in the number);
    * rejections (`UcErrAt r e p` = error code `e`, position `p`):
        `parseURI_err_short` (< 5 bytes: ErrURITooShort at len), `parseURI_err_scheme` (≥ 5 bytes, none of the three
        schemes: ErrURIScheme at 4), and behind `scheme [user-info @]` (`UcHostAt`):
        `parseURI_err_empty_host` (end of input or one of `: ; ? & @` where the host must start: ErrURIHost at that
        byte), `parseURI_err_bracket_open` (`[` not closed before the end / before one of `[ @ ; ? &`: ErrURIHost
        there), `parseURI_err_bracket_junk` (byte other than `: ; ?` behind `]`: ErrURIHost at it),
        `parseURI_err_port_char` (non-digit other than `; ?` in the port of `user@host:` or `[…]:` : ErrURIPort at
        it), `parseURI_err_port_big` (digits of value > 65535 closed by `;` `?` or the end: ErrURIPort at the byte
        behind the digits; all host forms).
    * tel: converse — `parseURI_sound_tel`, `parseURI_tel_iff`: accepted as tel: ↔ `∃ u, UcTelURI b u`, the report
      being `u` with the host handed out as user (proved by re-typing: the automaton never reads the URI type
      before the end-of-input switch, `uc_step_retype` / `uc_loop_retype` / `uc_finish_retype`);
  NOT proved here:
    * error code / position of the remaining rejections (`ErrURIBadChar` cases such as a second '@', `[` `]` in a
      user, `;` in the headers (`ErrURIHeaders` at the end), a password without '@');
    * `host:12x` WITHOUT '@' is not covered by `parseURI_err_port_char`, because there the model does not report the
      offending byte: the `x` is taken as the start of a password and the rejection is ErrURIPort at the END of the
      input (`sip:h:12x` → position 9), or ErrURIBadChar at a following `;` / `?` (tests at the end of the file).
  Quirks of the accepted language made explicit by the grammar (tests at the end): `sip:a&b` accepted but
  `sip:u@a&b` rejected; `sip:u@a]b[` accepted; `[` `]` allowed in a password that follows a `;`-user
  (`sip:h;a:[b]@d`) but not in a plain one (`sip:u:[b]@d`); a bracketed text with a port in front of a later '@'
  needs a port ≤ 65535 although it ends up in the user part (`sip:[a]:70000;x@h` → ErrURIPort); `sip:u:1;x@h` is
  rejected (digits + `;` commit `u` as host) while `sip:[a]:1;x@h` is accepted.
-/
import Sipsp.Proofs.UriLink

set_option linter.unusedSimpArgs false
set_option linter.unusedVariables false

namespace Sipsp

/-! ### the part of `parseURI` behind the scheme test -/

/-- `start` of `parseURI`: run the automaton from byte `i` in state `σ`, then the end-of-input switch -/
def ucRun (b : Buf) (i : Nat) (σ : UState) : UErr × Nat × PsipURI × Bool :=
  match uriLoop b i σ with
  | (.none, i, σ) =>
    match uriFinish i σ with
    | (e, p, σ') => (e, p, σ'.u, σ'.pnc)
  | (e, p, σ) => (e, p, σ.u, σ.pnc)

theorem uc_loop_next {b : Buf} {i : Nat} {c : UInt8} {σ σ' : UState} (hc : b[i]? = some c)
    (hs : uriStep i c σ = .next σ') : uriLoop b i σ = uriLoop b (i + 1) σ' := by
  rw [uriLoop]
  split
  · rename_i h; rw [hc] at h; cases h
  · rename_i c' h
    rw [hc] at h
    cases h
    rw [hs]

theorem uc_loop_fail {b : Buf} {i p : Nat} {c : UInt8} {e : UErr} {σ σ' : UState} (hc : b[i]? = some c)
    (hs : uriStep i c σ = .fail e p σ') : uriLoop b i σ = (e, p, σ') := by
  rw [uriLoop]
  split
  · rename_i h; rw [hc] at h; cases h
  · rename_i c' h
    rw [hc] at h
    cases h
    rw [hs]

theorem uc_loop_end {b : Buf} {i : Nat} {σ : UState} (hc : b[i]? = none) : uriLoop b i σ = (.none, i, σ) := by
  rw [uriLoop]
  split
  · rfl
  · rename_i c' h; rw [hc] at h; cases h

theorem ucRun_next {b : Buf} {i : Nat} {c : UInt8} {σ σ' : UState} (hc : b[i]? = some c)
    (hs : uriStep i c σ = .next σ') : ucRun b i σ = ucRun b (i + 1) σ' := by
  unfold ucRun
  rw [uc_loop_next hc hs]

theorem ucRun_fail {b : Buf} {i p : Nat} {c : UInt8} {e : UErr} {σ σ' : UState} (hc : b[i]? = some c)
    (hs : uriStep i c σ = .fail e p σ') (he : e ≠ .none) : ucRun b i σ = (e, p, σ'.u, σ'.pnc) := by
  unfold ucRun
  rw [uc_loop_fail hc hs]
  cases e <;> first | rfl | exact absurd rfl he

theorem ucRun_end {b : Buf} {i : Nat} {σ : UState} (hc : b[i]? = none) :
    ucRun b i σ = ((uriFinish i σ).1, (uriFinish i σ).2.1, (uriFinish i σ).2.2.u, (uriFinish i σ).2.2.pnc) := by
  unfold ucRun
  rw [uc_loop_end hc]

theorem uc_or4 (a b c d a' b' c' d' : Nat) :
    (a ||| b ||| c ||| d) ||| (a' ||| b' ||| c' ||| d') = (a ||| a') ||| (b ||| b') ||| (c ||| c') ||| (d ||| d') := by
  ac_rfl

theorem uc_horner (y0 y1 y2 y3 : Nat) (h0 : y0 < 256) (h1 : y1 < 256) (h2 : y2 < 256) :
    y3 <<< 24 ||| y2 <<< 16 ||| y1 <<< 8 ||| y0 = y3 * 16777216 + y2 * 65536 + y1 * 256 + y0 := by
  have s1 : y3 <<< 24 = (y3 <<< 8) <<< 16 := by rw [← Nat.shiftLeft_add]
  have e1 : y3 <<< 24 ||| y2 <<< 16 = (y3 <<< 8 ||| y2) <<< 16 := by
    rw [Nat.shiftLeft_or_distrib, s1]
  have s2 : ∀ z : Nat, z <<< 16 = (z <<< 8) <<< 8 := fun z => by rw [← Nat.shiftLeft_add]
  have e2 : (y3 <<< 8 ||| y2) <<< 16 ||| y1 <<< 8 = ((y3 <<< 8 ||| y2) <<< 8 ||| y1) <<< 8 := by
    rw [Nat.shiftLeft_or_distrib (a := (y3 <<< 8 ||| y2) <<< 8), s2]
  rw [e1, e2]
  rw [← Nat.shiftLeft_add_eq_or_of_lt (show y2 < 2 ^ 8 by omega),
      ← Nat.shiftLeft_add_eq_or_of_lt (show y1 < 2 ^ 8 by omega),
      ← Nat.shiftLeft_add_eq_or_of_lt (show y0 < 2 ^ 8 by omega)]
  simp only [Nat.shiftLeft_eq]
  omega

/-- a byte with 0x20 OR-ed in (ASCII letters: lower case) -/
def ucLow (c : UInt8) : Nat := c.toNat ||| 32

theorem ucLow_lt (c : UInt8) : ucLow c < 256 := Nat.or_lt_two_pow (n := 8) c.toNat_lt (by omega)

theorem uc_word (b0 b1 b2 b3 : UInt8) :
    (b3.toNat <<< 24 ||| b2.toNat <<< 16 ||| b1.toNat <<< 8 ||| b0.toNat) ||| 0x20202020 =
      ucLow b3 * 16777216 + ucLow b2 * 65536 + ucLow b1 * 256 + ucLow b0 := by
  have e : (0x20202020 : Nat) = 32 <<< 24 ||| 32 <<< 16 ||| 32 <<< 8 ||| 32 := by decide
  rw [e, uc_or4, ← Nat.shiftLeft_or_distrib, ← Nat.shiftLeft_or_distrib, ← Nat.shiftLeft_or_distrib]
  exact uc_horner _ _ _ _ (ucLow_lt _) (ucLow_lt _) (ucLow_lt _)

/-- the scheme word: the first four bytes, each OR-ed with 0x20, little endian -/
def ucWord (b0 b1 b2 b3 : UInt8) : Nat := ucLow b3 * 16777216 + ucLow b2 * 65536 + ucLow b1 * 256 + ucLow b0

def ucStart (t : Nat) (st : US) (k : Nat) : UState := { st := st, u := { uriType := t, scheme := PField.set 0 k } }

theorem uc_parse_unfold {b : Buf} {b0 b1 b2 b3 b4 : UInt8} (h0 : b[0]? = some b0) (h1 : b[1]? = some b1)
    (h2 : b[2]? = some b2) (h3 : b[3]? = some b3) (h4 : b[4]? = some b4) :
    parseURI b {} =
      if ucWord b0 b1 b2 b3 = 980445555 then ucRun b 4 (ucStart SIPuri .initSIP 4)
      else if ucWord b0 b1 b2 b3 = 980182388 then ucRun b 4 (ucStart TELuri .initTEL 4)
      else if ucWord b0 b1 b2 b3 = 1936746867 ∧ b4 = 58 then ucRun b 5 (ucStart SIPSuri .initSIPS 5)
      else (.scheme, 4, {}, false) := by
  unfold parseURI
  rw [h0, h1, h2, h3, h4]
  simp only [uc_word]
  unfold ucWord
  by_cases c1 : ucLow b3 * 16777216 + ucLow b2 * 65536 + ucLow b1 * 256 + ucLow b0 = 980445555
  · rw [if_pos c1, if_pos (by rw [c1]; rfl)]
    rfl
  rw [if_neg c1, if_neg (by simpa [Gen.C.ParseURI_SchSIP] using c1)]
  by_cases c2 : ucLow b3 * 16777216 + ucLow b2 * 65536 + ucLow b1 * 256 + ucLow b0 = 980182388
  · rw [if_pos c2, if_pos (by rw [c2]; rfl)]
    rfl
  rw [if_neg c2, if_neg (by simpa [Gen.C.ParseURI_SchTEL] using c2)]
  by_cases c3 : ucLow b3 * 16777216 + ucLow b2 * 65536 + ucLow b1 * 256 + ucLow b0 = 1936746867
  · rw [if_pos (show (_ == Gen.C.ParseURI_SchSIPS) = true by rw [c3]; rfl)]
    by_cases c4 : b4 = 58
    · rw [if_pos (show (b4 == 58) = true by rw [c4]; rfl), if_pos ⟨c3, c4⟩]
      rfl
    · rw [if_neg (show ¬ (b4 == 58) = true by simpa using c4), if_neg (fun h => c4 h.2)]
      rfl
  · rw [if_neg (show ¬ (_ == Gen.C.ParseURI_SchSIPS) = true by simpa [Gen.C.ParseURI_SchSIPS] using c3),
      if_neg (fun h => c3 h.1)]
    rfl

/-! ### byte classes and ranges -/

/-- every byte of `b` at the positions `[p, q)` is in the class `f` -/
def UcAll (b : Buf) (p q : Nat) (f : UInt8 → Bool) : Prop := ∀ j, p ≤ j → j < q → ∀ c, b[j]? = some c → f c = true

theorem UcAll.sub {b : Buf} {p q p' q' : Nat} {f : UInt8 → Bool} (h : UcAll b p q f) (h1 : p ≤ p') (h2 : q' ≤ q) :
    UcAll b p' q' f := fun j a1 a2 c hc => h j (by omega) (by omega) c hc

/-- ordinary byte of the user / password text: not one of `@ : ; ? [ ]` -/
def ucTok (c : UInt8) : Bool := !(c == 64 || c == 58 || c == 59 || c == 63 || c == 91 || c == 93)
/-- first byte behind the scheme when it does not open a bracketed host: not one of `[ : ]` -/
def ucFirst (c : UInt8) : Bool := !(c == 91 || c == 58 || c == 93)
/-- byte inside `[ … ]`: not one of `] [ @ ; ? &` -/
def ucBrIn (c : UInt8) : Bool := !(c == 93 || c == 91 || c == 64 || c == 59 || c == 63 || c == 38)
/-- byte of a host name behind `@`: not one of `: ; ? & @` -/
def ucHost (c : UInt8) : Bool := !(c == 58 || c == 59 || c == 63 || c == 38 || c == 64)
/-- first byte of a host name behind `@`: also not `[` -/
def ucHost0 (c : UInt8) : Bool := !(c == 91) && ucHost c
/-- parameter byte: not `?` (starts the headers) and not `@` -/
def ucPar (c : UInt8) : Bool := !(c == 63 || c == 64)
/-- header byte: not `;` and not `@` -/
def ucHdr (c : UInt8) : Bool := !(c == 59 || c == 64)
/-- byte of a user part that continues behind its first `;` / `?`: not `@`, not `:` -/
def ucW1 (c : UInt8) : Bool := !(c == 64 || c == 58)
/-- byte of a password behind such a user part: not one of `@ : ; ?` -/
def ucW2 (c : UInt8) : Bool := !(c == 64 || c == 58 || c == 59 || c == 63)

/-! ### scanning a run of bytes of one class -/

theorem ucRun_scan {b : Buf} {f : UInt8 → Bool} (P : Nat → UState → Prop) {j : Nat} (hj : j ≤ b.size)
    (d : Nat) : ∀ (i : Nat) (σ : UState), i + d = j → UcAll b i j f → P i σ →
    (∀ m c σ, i ≤ m → m < j → b[m]? = some c → f c = true → P m σ → ∃ σ', uriStep m c σ = .next σ' ∧ P (m + 1) σ') →
    ∃ σ', ucRun b i σ = ucRun b j σ' ∧ P j σ' := by
  induction d with
  | zero =>
    intro i σ hij _ h _
    have : i = j := by omega
    subst this
    exact ⟨σ, rfl, h⟩
  | succ d ih =>
    intro i σ hij hall h hstep
    have hlt : i < b.size := by omega
    obtain ⟨c, hc⟩ : ∃ c, b[i]? = some c := ⟨b[i], Array.getElem?_eq_getElem hlt⟩
    obtain ⟨σ1, hs1, hP1⟩ := hstep i c σ (Nat.le_refl _) (by omega) hc (hall i (Nat.le_refl _) (by omega) c hc) h
    obtain ⟨σ', hr, hP'⟩ := ih (i + 1) σ1 (by omega) (hall.sub (by omega) (Nat.le_refl _)) hP1
      (fun m c σ a1 a2 => hstep m c σ (by omega) a2)
    exact ⟨σ', by rw [ucRun_next hc hs1, hr], hP'⟩

/-- the same for a state that does not change -/
theorem ucRun_stay {b : Buf} {f : UInt8 → Bool} {i j : Nat} {σ : UState} (hij : i ≤ j) (hj : j ≤ b.size)
    (hall : UcAll b i j f) (hstep : ∀ m c, f c = true → uriStep m c σ = .next σ) : ucRun b i σ = ucRun b j σ := by
  obtain ⟨σ', hr, hP⟩ := ucRun_scan (f := f) (fun _ σ' => σ' = σ) hj (j - i) i σ (by omega) hall rfl
    (fun m c σ1 _ _ _ hf h1 => ⟨σ, by rw [h1]; exact hstep m c hf, rfl⟩)
  rw [hr, hP]


/-! ### the tail of the grammar: `[':' port] [';' params] ['?' headers]` -/

/-- headers from position `p` on: nothing (end of input), or `?` and header bytes up to the end -/
def UcHd (b : Buf) (p : Nat) (hd : PField) : Prop :=
  (p = b.size ∧ hd = ⟨0, 0⟩) ∨
  (b[p]? = some 63 ∧ hd = ⟨p + 1, b.size - (p + 1)⟩ ∧ UcAll b (p + 1) b.size ucHdr)

/-- parameters from position `p` on: none, or `;` and parameter bytes up to `e`; then the headers -/
def UcPa (b : Buf) (p : Nat) (pa hd : PField) : Prop :=
  (pa = ⟨0, 0⟩ ∧ UcHd b p hd) ∨
  (b[p]? = some 59 ∧ ∃ e, p + 1 ≤ e ∧ pa = ⟨p + 1, e - (p + 1)⟩ ∧ UcAll b (p + 1) e ucPar ∧ UcHd b e hd)

/-- port from position `p` on: none (number 0), or `:` and digits up to `e` of value `pn ≤ 65535`; then parameters
    and headers -/
def UcPo (b : Buf) (p : Nat) (po : PField) (pn : Nat) (pa hd : PField) : Prop :=
  (po = ⟨0, 0⟩ ∧ pn = 0 ∧ UcPa b p pa hd) ∨
  (b[p]? = some 58 ∧ ∃ e, p + 1 ≤ e ∧ po = ⟨p + 1, e - (p + 1)⟩ ∧ UcAll b (p + 1) e isDigit ∧
    pn = decOf (digitsOf b (p + 1) e) ∧ pn ≤ 65535 ∧ UcPa b e pa hd)

theorem UcHd.le {b : Buf} {p : Nat} {hd : PField} (h : UcHd b p hd) : p ≤ b.size := by
  rcases h with ⟨h, _⟩ | ⟨h, _⟩
  · omega
  · have := get?_lt h; omega

/-! ### what is reported -/

/-- the report: for tel: the host is handed out as the user -/
def ucOut (u : PsipURI) : PsipURI := if u.uriType == TELuri then { u with user := u.host, host := {} } else u

def ucProj (r : UErr × Nat × UState) : UErr × Nat × PsipURI × Bool := (r.1, r.2.1, r.2.2.u, r.2.2.pnc)

theorem ucRun_end' {b : Buf} {i : Nat} {σ : UState} (hc : i = b.size) : ucRun b i σ = ucProj (uriFinish i σ) := by
  rw [ucRun_end (by rw [hc]; exact Array.getElem?_eq_none (Nat.le_refl _))]
  rfl

theorem uc_fin (i : Nat) (σ : UState) :
    ucProj (if σ.u.uriType == TELuri then (.none, i, { σ with u := { σ.u with user := σ.u.host, host := {} } })
      else (.none, i, σ)) = (.none, i, ucOut σ.u, σ.pnc) := by
  unfold ucOut
  by_cases h : (σ.u.uriType == TELuri) = true
  · rw [if_pos h, if_pos h]; rfl
  · rw [if_neg h, if_neg h]; rfl

/-- reading parameters / headers: the fields of the state that matter from here on -/
def UcParSt (σ : UState) (s : Nat) (u : PsipURI) : Prop :=
  (σ.st = .param0 ∨ σ.st = .param1) ∧ σ.s = s ∧ σ.u = u ∧ σ.pnc = false ∧ σ.errHeaders = false
def UcHdrSt (σ : UState) (s : Nat) (u : PsipURI) : Prop :=
  σ.st = .headers ∧ σ.s = s ∧ σ.u = u ∧ σ.pnc = false ∧ σ.errHeaders = false

theorem uc_par_step {i : Nat} {c : UInt8} {σ : UState} {s : Nat} {u : PsipURI} (h : UcParSt σ s u)
    (hc : ucPar c = true) : ∃ σ', uriStep i c σ = .next σ' ∧ UcParSt σ' s u := by
  simp only [ucPar, Bool.not_eq_true', Bool.or_eq_false_iff] at hc
  obtain ⟨h63, h64⟩ := hc
  rcases σ with ⟨st, s0, fu, po, pn, eh, u0, pnc⟩
  obtain ⟨hst, hs, hu, hp, he⟩ := h
  simp only at hst hs hu hp he
  subst hs hu hp he
  rcases hst with rfl | rfl <;>
  · simp only [uriStep, h63, h64, Bool.false_eq_true, ↓reduceIte]
    repeat' split
    all_goals exact ⟨_, rfl, by simp [UcParSt]⟩

theorem uc_hdr_step {i : Nat} {c : UInt8} {σ : UState} {s : Nat} {u : PsipURI} (h : UcHdrSt σ s u)
    (hc : ucHdr c = true) : ∃ σ', uriStep i c σ = .next σ' ∧ UcHdrSt σ' s u := by
  simp only [ucHdr, Bool.not_eq_true', Bool.or_eq_false_iff] at hc
  obtain ⟨h59, h64⟩ := hc
  rcases σ with ⟨st, s0, fu, po, pn, eh, u0, pnc⟩
  obtain ⟨hst, hs, hu, hp, he⟩ := h
  simp only at hst hs hu hp he
  subst hst hs hu hp he
  simp only [uriStep, h59, h64, Bool.false_eq_true, ↓reduceIte]
  repeat' split
  all_goals exact ⟨_, rfl, by simp [UcHdrSt]⟩

/-- `?` while reading parameters -/
theorem uc_par_63 {i : Nat} {σ : UState} {s : Nat} {u : PsipURI} (h : UcParSt σ s u) (hs : s ≤ i) (hi : i ≤ 65535) :
    ∃ σ', uriStep i 63 σ = .next σ' ∧ UcHdrSt σ' (i + 1) { u with params := ⟨s, i - s⟩ } := by
  rcases σ with ⟨st, s0, fu, po, pn, eh, u0, pnc⟩
  obtain ⟨hst, hs0, hu, hp, he⟩ := h
  simp only at hst hs0 hu hp he
  subst hs0 hu hp he
  have e1 : PField.set s0 i = ⟨s0, i - s0⟩ := uset_eq hs hi
  have e2 : PField.setPanics s0 i = false := usetPanics_eq hs
  rcases hst with rfl | rfl <;>
  · simp +decide only [uriStep, UState.setParams, e1, e2, Bool.false_eq_true, ↓reduceIte]
    repeat' split
    all_goals exact ⟨_, rfl, by simp [UcHdrSt]⟩


/-- closes `ucProj (if tel then … else …) = (…, ucOut u, …)` for an explicit state -/
macro "uc_fin_tac" u:term : tactic => `(tactic|
  (unfold ucOut ucProj
   by_cases ht : (PsipURI.uriType $u == TELuri) = true
   · simp only [ht, ↓reduceIte, Bool.or_false, Bool.or_self]
   · simp only [ht, ↓reduceIte, Bool.or_false, Bool.or_self, Bool.false_eq_true]))

theorem uc_hdr_fin {n : Nat} {σ : UState} {s : Nat} {u : PsipURI} (h : UcHdrSt σ s u) (hs : s ≤ n) (hn : n ≤ 65535) :
    ucProj (uriFinish n σ) = (.none, n, ucOut { u with headers := ⟨s, n - s⟩ }, false) := by
  rcases σ with ⟨st, s0, fu, po, pn, eh, u0, pnc⟩
  obtain ⟨hst, hs0, hu, hp, he⟩ := h
  simp only at hst hs0 hu hp he
  subst hst hs0 hu hp he
  have e1 : PField.set s0 n = ⟨s0, n - s0⟩ := uset_eq hs hn
  have e2 : PField.setPanics s0 n = false := usetPanics_eq hs
  simp only [uriFinish, UState.setHeaders, e1, e2, Bool.false_eq_true, ↓reduceIte]
  uc_fin_tac u0

theorem uc_par_fin {n : Nat} {σ : UState} {s : Nat} {u : PsipURI} (h : UcParSt σ s u) (hs : s ≤ n) (hn : n ≤ 65535) :
    ucProj (uriFinish n σ) = (.none, n, ucOut { u with params := ⟨s, n - s⟩ }, false) := by
  rcases σ with ⟨st, s0, fu, po, pn, eh, u0, pnc⟩
  obtain ⟨hst, hs0, hu, hp, he⟩ := h
  simp only at hst hs0 hu hp he
  subst hs0 hu hp he
  have e1 : PField.set s0 n = ⟨s0, n - s0⟩ := uset_eq hs hn
  have e2 : PField.setPanics s0 n = false := usetPanics_eq hs
  rcases hst with rfl | rfl <;>
  · simp only [uriFinish, UState.setParams, e1, e2, Bool.false_eq_true, ↓reduceIte]
    uc_fin_tac u0

/-- header bytes up to the end of the input -/
theorem uc_run_hdr {b : Buf} {i : Nat} {σ : UState} {s : Nat} {u : PsipURI} (h : UcHdrSt σ s u) (hs : s ≤ i)
    (hi : i ≤ b.size) (hall : UcAll b i b.size ucHdr) (hfit : b.size ≤ 65535) :
    ucRun b i σ = (.none, b.size, ucOut { u with headers := ⟨s, b.size - s⟩ }, false) := by
  obtain ⟨σ', hr, hP⟩ := ucRun_scan (f := ucHdr) (fun _ σ' => UcHdrSt σ' s u) (Nat.le_refl _) (b.size - i) i σ
    (by omega) hall h (fun m c σ1 _ _ _ hf h1 => uc_hdr_step h1 hf)
  rw [hr, ucRun_end' rfl]
  exact uc_hdr_fin hP (by omega) hfit

/-- the three ways on from the end `e` of a component: `;` to the parameters, `?` to the headers, end of input;
    `uX` = the components known once the one ending at `e` has been stored -/
structure UcGate (b : Buf) (e : Nat) (σ : UState) (uX : PsipURI) : Prop where
  par : b[e]? = some 59 → ∃ σ', uriStep e 59 σ = .next σ' ∧ UcParSt σ' (e + 1) uX
  hdr : b[e]? = some 63 → ∃ σ', uriStep e 63 σ = .next σ' ∧ UcHdrSt σ' (e + 1) uX
  fin : e = b.size → ucProj (uriFinish e σ) = (.none, e, ucOut uX, false)

theorem uc_upd_ph (u : PsipURI) (pa hd : PField) (h1 : u.params = pa) (h2 : u.headers = hd) :
    { u with params := pa, headers := hd } = u := by
  rcases u with ⟨a1, a2, a3, a4, a5, a6, a7, a8, a9⟩
  simp only at h1 h2
  subst h1 h2
  rfl

theorem uc_hd_run {b : Buf} {e : Nat} {σ : UState} {uX : PsipURI} {hd : PField} (hfit : b.size ≤ 65535)
    (h63 : b[e]? = some 63 → ∃ σ', uriStep e 63 σ = .next σ' ∧ UcHdrSt σ' (e + 1) uX)
    (hfin : e = b.size → ucProj (uriFinish e σ) = (.none, e, ucOut uX, false))
    (hh0 : uX.headers = ⟨0, 0⟩) (hhd : UcHd b e hd) :
    ucRun b e σ = (.none, b.size, ucOut { uX with headers := hd }, false) := by
  rcases hhd with ⟨he, rfl⟩ | ⟨hc, rfl, hall⟩
  · rw [ucRun_end' he, hfin he, he]
    congr 3
    rcases uX with ⟨a1, a2, a3, a4, a5, a6, a7, a8, a9⟩
    simp only at hh0
    subst hh0
    rfl
  · obtain ⟨σ', hs, hst⟩ := h63 hc
    have hlt := get?_lt hc
    rw [ucRun_next hc hs]
    exact uc_run_hdr hst (Nat.le_refl _) (by omega) hall hfit

theorem uc_gate_run {b : Buf} {e : Nat} {σ : UState} {uX : PsipURI} {pa hd : PField} (hg : UcGate b e σ uX)
    (hfit : b.size ≤ 65535) (hp0 : uX.params = ⟨0, 0⟩) (hh0 : uX.headers = ⟨0, 0⟩) (hpa : UcPa b e pa hd) :
    ucRun b e σ = (.none, b.size, ucOut { uX with params := pa, headers := hd }, false) := by
  rcases hpa with ⟨rfl, hhd⟩ | ⟨hc, e', hle, rfl, hall, hhd⟩
  · have := uc_hd_run hfit hg.hdr hg.fin hh0 hhd
    rw [this]
    congr 3
    rcases uX with ⟨a1, a2, a3, a4, a5, a6, a7, a8, a9⟩
    simp only at hp0
    subst hp0
    rfl
  · obtain ⟨σ1, hs, hst⟩ := hg.par hc
    have hlt := get?_lt hc
    have hle' := hhd.le
    rw [ucRun_next hc hs]
    obtain ⟨σ', hr, hP⟩ := ucRun_scan (f := ucPar) (fun _ σ' => UcParSt σ' (e + 1) uX) hle' (e' - (e + 1)) (e + 1) σ1
      (by omega) hall hst (fun m c σ2 _ _ _ hf h1 => uc_par_step h1 hf)
    rw [hr]
    have := uc_hd_run (uX := { uX with params := ⟨e + 1, e' - (e + 1)⟩ }) (hd := hd) hfit
      (fun hc' => uc_par_63 hP hle (by omega)) (fun he => by rw [he]; exact uc_par_fin hP (by omega) hfit)
      hh0 hhd
    rw [this]


/-- the end of a host read in `host1` / `host6E` -/
theorem uc_gate_host {b : Buf} {e : Nat} {σ : UState} (hst : σ.st = .host1 ∨ σ.st = .host6E) (hs : σ.s ≤ e)
    (he : e ≤ 65535) (hp : σ.pnc = false) (heh : σ.errHeaders = false) :
    UcGate b e σ { σ.u with host := ⟨σ.s, e - σ.s⟩ } := by
  rcases σ with ⟨st, s0, fu, po, pn, eh, u0, pnc⟩
  simp only at hst hs hp heh
  subst hp heh
  have e1 : PField.set s0 e = ⟨s0, e - s0⟩ := uset_eq hs he
  have e2 : PField.setPanics s0 e = false := usetPanics_eq hs
  rcases hst with rfl | rfl <;>
  · refine ⟨fun _ => ?_, fun _ => ?_, fun _ => ?_⟩
    · simp +decide only [uriStep, UState.setHost, e1, e2, ↓reduceIte]
      exact ⟨_, rfl, by simp [UcParSt]⟩
    · simp +decide only [uriStep, UState.setHost, e1, e2, ↓reduceIte]
      exact ⟨_, rfl, by simp [UcHdrSt]⟩
    · simp only [uriFinish, UState.setHost, e1, e2]
      uc_fin_tac u0

/-- the end of a host read in `user` (no '@' seen: what was read is the host) -/
theorem uc_gate_user {b : Buf} {e : Nat} {σ : UState} (hst : σ.st = .user) (hs : σ.s ≤ e)
    (he : e ≤ 65535) (hp : σ.pnc = false) (heh : σ.errHeaders = false) (hfu : σ.foundUser = false) :
    UcGate b e σ { σ.u with host := ⟨σ.s, e - σ.s⟩ } := by
  rcases σ with ⟨st, s0, fu, po, pn, eh, u0, pnc⟩
  simp only at hst hs hp heh hfu
  subst hp heh hst hfu
  have e1 : PField.set s0 e = ⟨s0, e - s0⟩ := uset_eq hs he
  have e2 : PField.setPanics s0 e = false := usetPanics_eq hs
  refine ⟨fun _ => ?_, fun _ => ?_, fun _ => ?_⟩
  · simp +decide only [uriStep, UState.setHost, e1, e2, ↓reduceIte]
    exact ⟨_, rfl, by simp [UcParSt]⟩
  · simp +decide only [uriStep, UState.setHost, e1, e2, ↓reduceIte]
    exact ⟨_, rfl, by simp [UcHdrSt]⟩
  · simp only [uriFinish, UState.setHost, e1, e2, Bool.false_eq_true, ↓reduceIte]
    uc_fin_tac u0

/-- the end of the digits read in `port` -/
theorem uc_gate_port {b : Buf} {e : Nat} {σ : UState} (hst : σ.st = .port) (hs : σ.s ≤ e)
    (he : e ≤ 65535) (hp : σ.pnc = false) (heh : σ.errHeaders = false) (hpn : σ.portNo ≤ 65535) :
    UcGate b e σ { σ.u with port := ⟨σ.s, e - σ.s⟩, portNo := σ.portNo } := by
  rcases σ with ⟨st, s0, fu, po, pn, eh, u0, pnc⟩
  simp only at hst hs hp heh hpn
  subst hp heh hst
  have e1 : PField.set s0 e = ⟨s0, e - s0⟩ := uset_eq hs he
  have e2 : PField.setPanics s0 e = false := usetPanics_eq hs
  have e3 : ¬ pn > 65535 := by omega
  refine ⟨fun _ => ?_, fun _ => ?_, fun _ => ?_⟩
  · simp +decide only [uriStep, UState.setPort, e1, e2, e3, ↓reduceIte]
    exact ⟨_, rfl, by simp [UcParSt]⟩
  · simp +decide only [uriStep, UState.setPort, e1, e2, e3, ↓reduceIte]
    exact ⟨_, rfl, by simp [UcHdrSt]⟩
  · simp only [uriFinish, UState.setPort, e1, e2, e3, Bool.false_eq_true, ↓reduceIte]
    uc_fin_tac u0

/-- the end of the digits read in `pass0` (no '@' seen: they are the port, and the "user" is the host) -/
theorem uc_gate_pass0 {b : Buf} {e : Nat} {σ : UState} (hst : σ.st = .pass0) (hs : σ.s ≤ e)
    (he : e ≤ 65535) (hp : σ.pnc = false) (heh : σ.errHeaders = false) (hpn : σ.portNo ≤ 65535)
    (hfu : σ.foundUser = false) :
    UcGate b e σ { σ.u with port := ⟨σ.s, e - σ.s⟩, portNo := σ.portNo, host := σ.u.user, user := {} } := by
  rcases σ with ⟨st, s0, fu, po, pn, eh, u0, pnc⟩
  simp only at hst hs hp heh hpn hfu
  subst hp heh hst hfu
  have e1 : PField.set s0 e = ⟨s0, e - s0⟩ := uset_eq hs he
  have e2 : PField.setPanics s0 e = false := usetPanics_eq hs
  have e3 : ¬ pn > 65535 := by omega
  refine ⟨fun _ => ?_, fun _ => ?_, fun _ => ?_⟩
  · simp +decide only [uriStep, UState.setPort, e1, e2, e3, ↓reduceIte]
    exact ⟨_, rfl, by simp [UcParSt]⟩
  · simp +decide only [uriStep, UState.setPort, e1, e2, e3, ↓reduceIte]
    exact ⟨_, rfl, by simp [UcHdrSt]⟩
  · simp +decide only [uriFinish, UState.setPort, e1, e2, e3, Bool.false_eq_true, ↓reduceIte, Bool.or_self]
    uc_fin_tac u0


theorem uc_digit_step {m : Nat} {c : UInt8} {σ : UState} (hst : σ.st = .port ∨ σ.st = .pass0) (hc : isDigit c = true) :
    uriStep m c σ = .next { σ with portNo := accPort σ.portNo c } := by
  have h64 : (c == 64) = false := by
    apply Bool.eq_false_iff.mpr; intro h; rw [beq_u8 h] at hc; exact absurd hc (by decide)
  have h59 : (c == 59) = false := by
    apply Bool.eq_false_iff.mpr; intro h; rw [beq_u8 h] at hc; exact absurd hc (by decide)
  have h63 : (c == 63) = false := by
    apply Bool.eq_false_iff.mpr; intro h; rw [beq_u8 h] at hc; exact absurd hc (by decide)
  rcases hst with hst | hst <;>
  · simp only [uriStep, hst, hc, h64, h59, h63, Bool.false_eq_true, ↓reduceIte, Bool.or_self]

/-- a run of digits in `port` / `pass0`: only the accumulator changes -/
theorem uc_run_digits {b : Buf} {i j : Nat} {σ : UState} (hst : σ.st = .port ∨ σ.st = .pass0) (hij : i ≤ j)
    (hj : j ≤ b.size) (hall : UcAll b i j isDigit) :
    ucRun b i σ = ucRun b j { σ with portNo := accPortL σ.portNo (digitsOf b i j) } := by
  obtain ⟨σ', hr, hP⟩ := ucRun_scan (f := isDigit)
    (fun m σ' => i ≤ m ∧ σ' = { σ with portNo := accPortL σ.portNo (digitsOf b i m) }) hj (j - i) i σ
    (by omega) hall ⟨Nat.le_refl _, by rw [digitsOf_self]; rfl⟩
    (fun m c σ1 _ _ hc hf h1 => by
      obtain ⟨hm, rfl⟩ := h1
      refine ⟨_, uc_digit_step (by exact hst) hf, by omega, ?_⟩
      rw [digitsOf_snoc b i m c hm hc, ul_accPortL_snoc])
  rw [hr, hP.2]

/-- the digits of a port of value ≤ 65535 leave exactly that value in the accumulator -/
theorem uc_acc_val {l : List UInt8} (h : decOf l ≤ 65535) : accPortL 0 l = decOf l :=
  (accPortL_spec l 0).1 h

theorem uc_upd_port (u : PsipURI) (h1 : u.port = ⟨0, 0⟩) (h2 : u.portNo = 0) (ho : PField) (pa hd : PField) :
    { u with host := ho, port := ⟨0, 0⟩, portNo := 0, params := pa, headers := hd } =
    { u with host := ho, params := pa, headers := hd } := by
  rcases u with ⟨a1, a2, a3, a4, a5, a6, a7, a8, a9⟩
  simp only at h1 h2
  subst h1 h2
  rfl

/-- from the end `he` of a host read in `host1` / `host6E`: port, parameters, headers -/
theorem uc_tail_host {b : Buf} {he : Nat} {σ : UState} {po pa hd : PField} {pn : Nat}
    (hst : σ.st = .host1 ∨ σ.st = .host6E) (hs : σ.s ≤ he) (hfit : b.size ≤ 65535)
    (hp : σ.pnc = false) (heh : σ.errHeaders = false) (hpn : σ.portNo = 0)
    (h1 : σ.u.port = ⟨0, 0⟩) (h2 : σ.u.portNo = 0) (h3 : σ.u.params = ⟨0, 0⟩) (h4 : σ.u.headers = ⟨0, 0⟩)
    (hpo : UcPo b he po pn pa hd) :
    ucRun b he σ = (.none, b.size,
      ucOut { σ.u with host := ⟨σ.s, he - σ.s⟩, port := po, portNo := pn, params := pa, headers := hd }, false) := by
  rcases hpo with ⟨rfl, rfl, hpa⟩ | ⟨hc, e, hle, rfl, hall, rfl, hle2, hpa⟩
  · have hhe : he ≤ b.size := by
      rcases hpa with ⟨_, hh⟩ | ⟨hc, _⟩
      · exact hh.le
      · have := get?_lt hc; omega
    rw [uc_gate_run (uc_gate_host hst hs (by omega) hp heh) hfit h3 h4 hpa, uc_upd_port _ h1 h2]
  · have hlt := get?_lt hc
    have he' : e ≤ b.size := by
      rcases hpa with ⟨_, hh⟩ | ⟨hc, _⟩
      · exact hh.le
      · have := get?_lt hc; omega
    have e1 : PField.set σ.s he = ⟨σ.s, he - σ.s⟩ := uset_eq hs (by omega)
    have e2 : PField.setPanics σ.s he = false := usetPanics_eq hs
    have hstep : uriStep he 58 σ = .next { σ.setHost σ.s he with st := .port, s := he + 1 } := by
      rcases hst with hst | hst <;> simp +decide only [uriStep, hst, ↓reduceIte]
    rw [ucRun_next hc hstep, uc_run_digits (Or.inl rfl) hle he' hall]
    refine (uc_gate_run (uc_gate_port rfl ?_ (by omega) ?_ ?_ ?_) hfit ?_ ?_ hpa).trans ?_
    · exact hle
    · simp only [UState.setHost, e2, hp, Bool.or_false]
    · exact heh
    · simp only [UState.setHost, hpn]
      rw [uc_acc_val hle2]
      exact hle2
    · exact h3
    · exact h4
    · simp only [UState.setHost, e1, hpn]
      rw [uc_acc_val hle2]


/-- from the end `he` of a host read in `user` (no user-info): port (read in `pass0`), parameters, headers -/
theorem uc_tail_user {b : Buf} {he : Nat} {σ : UState} {po pa hd : PField} {pn : Nat}
    (hst : σ.st = .user) (hs : σ.s ≤ he) (hfit : b.size ≤ 65535)
    (hp : σ.pnc = false) (heh : σ.errHeaders = false) (hpn : σ.portNo = 0) (hfu : σ.foundUser = false)
    (h0 : σ.u.user = ⟨0, 0⟩)
    (h1 : σ.u.port = ⟨0, 0⟩) (h2 : σ.u.portNo = 0) (h3 : σ.u.params = ⟨0, 0⟩) (h4 : σ.u.headers = ⟨0, 0⟩)
    (hpo : UcPo b he po pn pa hd) :
    ucRun b he σ = (.none, b.size,
      ucOut { σ.u with host := ⟨σ.s, he - σ.s⟩, port := po, portNo := pn, params := pa, headers := hd }, false) := by
  rcases hpo with ⟨rfl, rfl, hpa⟩ | ⟨hc, e, hle, rfl, hall, rfl, hle2, hpa⟩
  · have hhe : he ≤ b.size := by
      rcases hpa with ⟨_, hh⟩ | ⟨hc, _⟩
      · exact hh.le
      · have := get?_lt hc; omega
    rw [uc_gate_run (uc_gate_user hst hs (by omega) hp heh hfu) hfit h3 h4 hpa, uc_upd_port _ h1 h2]
  · have hlt := get?_lt hc
    have he' : e ≤ b.size := by
      rcases hpa with ⟨_, hh⟩ | ⟨hc, _⟩
      · exact hh.le
      · have := get?_lt hc; omega
    have e1 : PField.set σ.s he = ⟨σ.s, he - σ.s⟩ := uset_eq hs (by omega)
    have e2 : PField.setPanics σ.s he = false := usetPanics_eq hs
    have hstep : uriStep he 58 σ = .next { σ.setUser σ.s he with st := .pass0, s := he + 1 } := by
      simp +decide only [uriStep, hst, ↓reduceIte]
    rw [ucRun_next hc hstep, uc_run_digits (Or.inr rfl) hle he' hall]
    refine (uc_gate_run (uc_gate_pass0 rfl ?_ (by omega) ?_ ?_ ?_ ?_) hfit ?_ ?_ hpa).trans ?_
    · exact hle
    · simp only [UState.setUser, e2, hp, Bool.or_false]
    · exact heh
    · simp only [UState.setUser, hpn]
      rw [uc_acc_val hle2]
      exact hle2
    · exact hfu
    · exact h3
    · exact h4
    · simp only [UState.setUser, e1, hpn]
      rw [uc_acc_val hle2]
      rcases σ with ⟨st, s0, fu, po0, pn0, eh, u0, pnc⟩
      rcases u0 with ⟨a1, a2, a3, a4, a5, a6, a7, a8, a9⟩
      simp only at h0
      subst h0
      rfl


theorem UcPa.le {b : Buf} {p : Nat} {pa hd : PField} (h : UcPa b p pa hd) : p ≤ b.size := by
  rcases h with ⟨_, hh⟩ | ⟨hc, _⟩
  · exact hh.le
  · have := get?_lt hc; omega

theorem UcPo.le {b : Buf} {p pn : Nat} {po pa hd : PField} (h : UcPo b p po pn pa hd) : p ≤ b.size := by
  rcases h with ⟨_, _, hh⟩ | ⟨hc, _⟩
  · exact hh.le
  · have := get?_lt hc; omega

/-! ### hosts -/

/-- `[ … ]` at `[s, e)`: brackets kept, inside none of `] [ @ ; ? &` -/
def UcBrHost (b : Buf) (s e : Nat) : Prop :=
  b[s]? = some 91 ∧ s + 2 ≤ e ∧ b[e - 1]? = some 93 ∧ UcAll b (s + 1) (e - 1) ucBrIn
/-- a host name behind '@' at `[s, e)`: not empty, no `: ; ? & @`, first byte not `[` -/
def UcNameHost (b : Buf) (s e : Nat) : Prop := s < e ∧ UcAll b s (s + 1) ucHost0 ∧ UcAll b (s + 1) e ucHost
/-- the first token behind the scheme at `[k, e)`: first byte none of `[ : ]` (but any other byte, even `@ ; ?`),
    then no `@ : ; ? [ ]` -/
def UcFirstTok (b : Buf) (k e : Nat) : Prop := k < e ∧ UcAll b k (k + 1) ucFirst ∧ UcAll b (k + 1) e ucTok

theorem uc_user_tok {i : Nat} {c : UInt8} {σ : UState} (hst : σ.st = .user) (hc : ucTok c = true) :
    uriStep i c σ = .next σ := by
  simp only [ucTok, Bool.not_eq_true', Bool.or_eq_false_iff] at hc
  obtain ⟨⟨⟨⟨⟨h1, h2⟩, h3⟩, h4⟩, h5⟩, h6⟩ := hc
  simp only [uriStep, hst, h1, h2, h3, h4, h5, h6, Bool.false_eq_true, ↓reduceIte, Bool.or_self]

theorem uc_host1_stay {i : Nat} {c : UInt8} {σ : UState} (hst : σ.st = .host1) (hc : ucHost c = true) :
    uriStep i c σ = .next σ := by
  simp only [ucHost, Bool.not_eq_true', Bool.or_eq_false_iff] at hc
  obtain ⟨⟨⟨⟨h1, h2⟩, h3⟩, h4⟩, h5⟩ := hc
  simp only [uriStep, hst, h1, h2, h3, h4, h5, Bool.false_eq_true, ↓reduceIte, Bool.or_self]

theorem uc_host61_stay {i : Nat} {c : UInt8} {σ : UState} (hst : σ.st = .host61) (hc : ucBrIn c = true) :
    uriStep i c σ = .next σ := by
  simp only [ucBrIn, Bool.not_eq_true', Bool.or_eq_false_iff] at hc
  obtain ⟨⟨⟨⟨⟨h1, h2⟩, h3⟩, h4⟩, h5⟩, h6⟩ := hc
  simp only [uriStep, hst, h1, h2, h3, h4, h5, h6, Bool.false_eq_true, ↓reduceIte, Bool.or_self]

theorem uc_host0_first {i : Nat} {c : UInt8} {σ : UState} (hst : σ.st = .host0) (hc : ucHost0 c = true) :
    uriStep i c σ = .next { σ with st := .host1 } := by
  simp only [ucHost0, ucHost, Bool.and_eq_true, Bool.not_eq_true', Bool.or_eq_false_iff] at hc
  obtain ⟨h0, ⟨⟨⟨h1, h2⟩, h3⟩, h4⟩, h5⟩ := hc
  simp only [uriStep, hst, h0, h1, h2, h3, h4, h5, Bool.false_eq_true, ↓reduceIte, Bool.or_self]

theorem uc_init_first {i : Nat} {c : UInt8} {σ : UState} (hst : σ.st = .initSIP ∨ σ.st = .initSIPS ∨ σ.st = .initTEL)
    (hc : ucFirst c = true) : uriStep i c σ = .next { σ with st := .user, s := i } := by
  simp only [ucFirst, Bool.not_eq_true', Bool.or_eq_false_iff] at hc
  obtain ⟨⟨h1, h2⟩, h3⟩ := hc
  rcases hst with hst | hst | hst <;>
    simp only [uriStep, hst, h1, h2, h3, Bool.false_eq_true, ↓reduceIte, Bool.or_self]

/-- inside the brackets, from behind `[` to behind `]` -/
theorem uc_run_br {b : Buf} {s e : Nat} {σ : UState} (hst : σ.st = .host61) (hbr : UcBrHost b s e) (he : e ≤ b.size) :
    ucRun b (s + 1) σ = ucRun b e { σ with st := .host6E } := by
  obtain ⟨h91, hle, h93, hall⟩ := hbr
  rw [ucRun_stay (by omega) (by omega) hall (fun m c hf => uc_host61_stay hst hf)]
  have hstep : uriStep (e - 1) 93 σ = .next { σ with st := .host6E } := by
    simp +decide only [uriStep, hst, ↓reduceIte]
  rw [ucRun_next h93 hstep]
  have : e - 1 + 1 = e := by omega
  rw [this]

/-- behind '@': host, port, parameters, headers -/
theorem uc_from_host0 {b : Buf} {hs he : Nat} {σ : UState} {po pa hd : PField} {pn : Nat}
    (hst : σ.st = .host0) (hss : σ.s = hs) (hfit : b.size ≤ 65535)
    (hp : σ.pnc = false) (heh : σ.errHeaders = false) (hpn : σ.portNo = 0)
    (h1 : σ.u.port = ⟨0, 0⟩) (h2 : σ.u.portNo = 0) (h3 : σ.u.params = ⟨0, 0⟩) (h4 : σ.u.headers = ⟨0, 0⟩)
    (hh : UcNameHost b hs he ∨ UcBrHost b hs he) (hpo : UcPo b he po pn pa hd) :
    ucRun b hs σ = (.none, b.size,
      ucOut { σ.u with host := ⟨hs, he - hs⟩, port := po, portNo := pn, params := pa, headers := hd }, false) := by
  have hhe := hpo.le
  subst hss
  rcases hh with ⟨hlt, hf, hall⟩ | hbr
  · obtain ⟨c, hc⟩ : ∃ c, b[σ.s]? = some c := ⟨b[σ.s]'(by omega), Array.getElem?_eq_getElem (by omega)⟩
    rw [ucRun_next hc (uc_host0_first hst (hf σ.s (Nat.le_refl _) (by omega) c hc)),
      ucRun_stay (σ := { σ with st := .host1 }) (by omega) hhe hall (fun m c hf => uc_host1_stay rfl hf)]
    exact uc_tail_host (σ := { σ with st := .host1 }) (Or.inl rfl) (by simp only; omega) hfit hp heh hpn h1 h2 h3 h4 hpo
  · have hstep : uriStep σ.s 91 σ = .next { σ with st := .host61 } := by
      simp +decide only [uriStep, hst, ↓reduceIte]
    rw [ucRun_next hbr.1 hstep, uc_run_br rfl hbr hhe]
    have := hbr.2.1
    exact uc_tail_host (σ := { σ with st := .host6E }) (Or.inr rfl) (by simp only; omega) hfit hp heh hpn h1 h2 h3 h4 hpo

/-- no user-info, bracketed host right behind the scheme -/
theorem uc_from_init_br {b : Buf} {k he : Nat} {σ : UState} {po pa hd : PField} {pn : Nat}
    (hst : σ.st = .initSIP ∨ σ.st = .initSIPS ∨ σ.st = .initTEL) (hfit : b.size ≤ 65535)
    (hp : σ.pnc = false) (heh : σ.errHeaders = false) (hpn : σ.portNo = 0)
    (h1 : σ.u.port = ⟨0, 0⟩) (h2 : σ.u.portNo = 0) (h3 : σ.u.params = ⟨0, 0⟩) (h4 : σ.u.headers = ⟨0, 0⟩)
    (hbr : UcBrHost b k he) (hpo : UcPo b he po pn pa hd) :
    ucRun b k σ = (.none, b.size,
      ucOut { σ.u with host := ⟨k, he - k⟩, port := po, portNo := pn, params := pa, headers := hd }, false) := by
  have hhe := hpo.le
  have hstep : uriStep k 91 σ = .next { σ with st := .host61, s := k } := by
    rcases hst with hst | hst | hst <;> simp +decide only [uriStep, hst, ↓reduceIte]
  rw [ucRun_next hbr.1 hstep, uc_run_br rfl hbr hhe]
  have := hbr.2.1
  exact uc_tail_host (σ := { σ with st := .host6E, s := k }) (Or.inr rfl) (by simp only; omega) hfit hp heh hpn h1 h2 h3 h4 hpo

/-- no user-info, host name right behind the scheme -/
theorem uc_from_init_tok {b : Buf} {k he : Nat} {σ : UState} {po pa hd : PField} {pn : Nat}
    (hst : σ.st = .initSIP ∨ σ.st = .initSIPS ∨ σ.st = .initTEL) (hfit : b.size ≤ 65535)
    (hp : σ.pnc = false) (heh : σ.errHeaders = false) (hpn : σ.portNo = 0) (hfu : σ.foundUser = false)
    (h0 : σ.u.user = ⟨0, 0⟩)
    (h1 : σ.u.port = ⟨0, 0⟩) (h2 : σ.u.portNo = 0) (h3 : σ.u.params = ⟨0, 0⟩) (h4 : σ.u.headers = ⟨0, 0⟩)
    (hh : UcFirstTok b k he) (hpo : UcPo b he po pn pa hd) :
    ucRun b k σ = (.none, b.size,
      ucOut { σ.u with host := ⟨k, he - k⟩, port := po, portNo := pn, params := pa, headers := hd }, false) := by
  have hhe := hpo.le
  obtain ⟨hlt, hf, hall⟩ := hh
  obtain ⟨c, hc⟩ : ∃ c, b[k]? = some c := ⟨b[k]'(by omega), Array.getElem?_eq_getElem (by omega)⟩
  rw [ucRun_next hc (uc_init_first hst (hf k (Nat.le_refl _) (by omega) c hc)),
    ucRun_stay (σ := { σ with st := .user, s := k }) (by omega) hhe hall (fun m c hf => uc_user_tok rfl hf)]
  exact uc_tail_user (σ := { σ with st := .user, s := k }) rfl (by simp only; omega) hfit hp heh hpn hfu h0 h1 h2 h3 h4 hpo


/-! ### the user-info in front of '@' -/

/-- the state right behind the '@' at `a`: user and password stored, everything else blank -/
def UcHost0St (σ : UState) (a t k : Nat) (us pw : PField) : Prop :=
  σ.st = .host0 ∧ σ.s = a + 1 ∧ σ.portNo = 0 ∧ σ.errHeaders = false ∧ σ.pnc = false ∧
  σ.u = { uriType := t, scheme := ⟨0, k⟩, user := us, pass := pw }

/-- the state right behind the scheme -/
def UcInitSt (σ : UState) (t k : Nat) : Prop :=
  (σ.st = .initSIP ∨ σ.st = .initSIPS ∨ σ.st = .initTEL) ∧ σ.foundUser = false ∧ σ.passOffs = 0 ∧ σ.portNo = 0 ∧
  σ.errHeaders = false ∧ σ.pnc = false ∧ σ.u = { uriType := t, scheme := ⟨0, k⟩ }

/-- reading a password behind `user:` (`pass0` while only digits were seen, then `pass1`) -/
def UcPassSt (σ : UState) (s : Nat) (u : PsipURI) : Prop :=
  (σ.st = .pass0 ∨ (σ.st = .pass1 ∧ σ.portNo = 0)) ∧ σ.s = s ∧ σ.u = u ∧ σ.pnc = false ∧ σ.errHeaders = false

theorem uc_pass_step {i : Nat} {c : UInt8} {σ : UState} {s : Nat} {u : PsipURI} (h : UcPassSt σ s u)
    (hc : ucTok c = true) : ∃ σ', uriStep i c σ = .next σ' ∧ UcPassSt σ' s u := by
  simp only [ucTok, Bool.not_eq_true', Bool.or_eq_false_iff] at hc
  obtain ⟨⟨⟨⟨⟨h1, h2⟩, h3⟩, h4⟩, h5⟩, h6⟩ := hc
  rcases σ with ⟨st, s0, fu, po, pn, eh, u0, pnc⟩
  obtain ⟨hst, hs, hu, hp, he⟩ := h
  simp only at hst hs hu hp he
  subst hs hu hp he
  rcases hst with rfl | ⟨rfl, rfl⟩
  · simp only [uriStep, h1, h2, h3, h4, h5, h6, Bool.false_eq_true, ↓reduceIte, Bool.or_self]
    split
    · exact ⟨_, rfl, by simp [UcPassSt]⟩
    · exact ⟨_, rfl, by simp [UcPassSt]⟩
  · simp only [uriStep, h1, h2, h3, h4, h5, h6, Bool.false_eq_true, ↓reduceIte, Bool.or_self]
    exact ⟨_, rfl, by simp [UcPassSt]⟩

theorem uc_pass_at {i : Nat} {σ : UState} {s t k : Nat} {us : PField} (h : UcPassSt σ s { uriType := t, scheme := ⟨0, k⟩, user := us })
    (hs : s ≤ i) (hi : i ≤ 65535) :
    ∃ σ', uriStep i 64 σ = .next σ' ∧ UcHost0St σ' i t k us ⟨s, i - s⟩ := by
  rcases σ with ⟨st, s0, fu, po, pn, eh, u0, pnc⟩
  obtain ⟨hst, hs0, hu, hp, he⟩ := h
  simp only at hst hs0 hu hp he
  subst hs0 hu hp he
  have e1 : PField.set s0 i = ⟨s0, i - s0⟩ := uset_eq hs hi
  have e2 : PField.setPanics s0 i = false := usetPanics_eq hs
  rcases hst with rfl | ⟨rfl, rfl⟩ <;>
  · simp +decide only [uriStep, UState.setPass, e1, e2, ↓reduceIte]
    exact ⟨_, rfl, by simp [UcHost0St]⟩

theorem uc_user_at {i : Nat} {σ : UState} {t k : Nat} (hst : σ.st = .user) (hs : σ.s = k) (hk : k ≤ i) (hi : i ≤ 65535)
    (hpn : σ.portNo = 0) (heh : σ.errHeaders = false) (hp : σ.pnc = false)
    (hu : σ.u = { uriType := t, scheme := ⟨0, k⟩ }) :
    ∃ σ', uriStep i 64 σ = .next σ' ∧ UcHost0St σ' i t k ⟨k, i - k⟩ ⟨0, 0⟩ := by
  rcases σ with ⟨st, s0, fu, po, pn, eh, u0, pnc⟩
  simp only at hst hs hpn heh hp hu
  subst hst hs hpn heh hp hu
  have e1 : PField.set s0 i = ⟨s0, i - s0⟩ := uset_eq hk hi
  have e2 : PField.setPanics s0 i = false := usetPanics_eq hk
  simp +decide only [uriStep, UState.setUser, e1, e2, ↓reduceIte]
  exact ⟨_, rfl, by simp [UcHost0St]⟩

theorem uc_user_colon {i : Nat} {σ : UState} {t k : Nat} (hst : σ.st = .user) (hs : σ.s = k) (hk : k ≤ i) (hi : i ≤ 65535)
    (heh : σ.errHeaders = false) (hp : σ.pnc = false)
    (hu : σ.u = { uriType := t, scheme := ⟨0, k⟩ }) :
    ∃ σ', uriStep i 58 σ = .next σ' ∧ UcPassSt σ' (i + 1) { uriType := t, scheme := ⟨0, k⟩, user := ⟨k, i - k⟩ } := by
  rcases σ with ⟨st, s0, fu, po, pn, eh, u0, pnc⟩
  simp only at hst hs heh hp hu
  subst hst hs heh hp hu
  have e1 : PField.set s0 i = ⟨s0, i - s0⟩ := uset_eq hk hi
  have e2 : PField.setPanics s0 i = false := usetPanics_eq hk
  simp +decide only [uriStep, UState.setUser, e1, e2, ↓reduceIte]
  exact ⟨_, rfl, by simp [UcPassSt]⟩

/-- user-info of the plain kind in front of the '@' at `a`: `user` or `user:password`, neither containing any of
    `@ : ; ? [ ]` (the very first byte of the user may be `@ ; ?`) -/
def UcUserPlain (b : Buf) (k a : Nat) (us pw : PField) : Prop :=
  ∃ ue, UcFirstTok b k ue ∧ us = ⟨k, ue - k⟩ ∧
    ((ue = a ∧ pw = ⟨0, 0⟩) ∨
     (b[ue]? = some 58 ∧ ue + 1 ≤ a ∧ pw = ⟨ue + 1, a - (ue + 1)⟩ ∧ UcAll b (ue + 1) a ucTok))

theorem uc_run_user_plain {b : Buf} {k a t : Nat} {σ : UState} {us pw : PField} (hi : UcInitSt σ t k)
    (hfit : b.size ≤ 65535) (hat : b[a]? = some 64) (hu : UcUserPlain b k a us pw) :
    ∃ σ', ucRun b k σ = ucRun b (a + 1) σ' ∧ UcHost0St σ' a t k us pw := by
  have halt := get?_lt hat
  obtain ⟨ue, ⟨hlt, hf, hall⟩, rfl, hrest⟩ := hu
  obtain ⟨hst, hfu, hpo, hpn, heh, hp, hu0⟩ := hi
  have hue : ue ≤ a := by
    rcases hrest with ⟨h, _⟩ | ⟨_, h, _⟩ <;> omega
  obtain ⟨c, hc⟩ : ∃ c, b[k]? = some c := ⟨b[k]'(by omega), Array.getElem?_eq_getElem (by omega)⟩
  rw [ucRun_next hc (uc_init_first hst (hf k (Nat.le_refl _) (by omega) c hc)),
    ucRun_stay (σ := { σ with st := .user, s := k }) (by omega) (by omega) hall (fun m c hf => uc_user_tok rfl hf)]
  rcases hrest with ⟨rfl, rfl⟩ | ⟨h58, hle, rfl, hall2⟩
  · obtain ⟨σ', hs', hh⟩ := uc_user_at (σ := { σ with st := .user, s := k }) (i := ue) (k := k) rfl rfl (Nat.le_of_lt hlt) (by omega) hpn heh hp hu0
    exact ⟨σ', ucRun_next hat hs', hh⟩
  · obtain ⟨σ1, hs1, hh1⟩ := uc_user_colon (σ := { σ with st := .user, s := k }) (i := ue) (k := k) rfl rfl (Nat.le_of_lt hlt) (by omega) heh hp hu0
    obtain ⟨σ2, hr2, hh2⟩ := ucRun_scan (f := ucTok) (fun _ σ' => UcPassSt σ' (ue + 1) _) (Nat.le_of_lt halt)
      (a - (ue + 1)) (ue + 1) σ1 (by omega) hall2 hh1 (fun m c σ2 _ _ _ hf h1 => uc_pass_step h1 hf)
    obtain ⟨σ3, hs3, hh3⟩ := uc_pass_at hh2 hle (by omega)
    exact ⟨σ3, by rw [ucRun_next h58 hs1, hr2, ucRun_next hat hs3], hh3⟩


/-! #### back-tracking: a user part that contains `;` or `?` is first read as host / parameters / headers -/

/-- in parameters / headers with no '@' seen and no `:` remembered; `i` = next byte -/
def UcBackSt (σ : UState) (t k i : Nat) : Prop :=
  (σ.st = .param0 ∨ σ.st = .param1 ∨ σ.st = .headers) ∧ σ.foundUser = false ∧ σ.passOffs = 0 ∧
  σ.u.host.offs = k ∧ σ.u.scheme = ⟨0, k⟩ ∧ σ.u.uriType = t ∧ σ.pnc = false ∧ σ.s ≤ i

/-- the same with the first `:` remembered at `q` -/
def UcBack2St (σ : UState) (t k q : Nat) : Prop :=
  (σ.st = .param0 ∨ σ.st = .param1 ∨ σ.st = .headers) ∧ σ.foundUser = false ∧ σ.passOffs = q ∧
  σ.u.host.offs = k ∧ σ.u.scheme = ⟨0, k⟩ ∧ σ.u.uriType = t ∧ σ.pnc = false

theorem uc_back_step {i : Nat} {c : UInt8} {σ : UState} {t k : Nat} (h : UcBackSt σ t k i) (hc : ucW1 c = true) :
    ∃ σ', uriStep i c σ = .next σ' ∧ UcBackSt σ' t k (i + 1) := by
  simp only [ucW1, Bool.not_eq_true', Bool.or_eq_false_iff] at hc
  obtain ⟨h64, h58⟩ := hc
  rcases σ with ⟨st, s0, fu, po, pn, eh, u0, pnc⟩
  obtain ⟨hst, hfu, hpo, hho, hsc, hty, hp, hs⟩ := h
  simp only at hst hfu hpo hho hsc hty hp hs
  subst hfu hpo hp
  have e2 : PField.setPanics s0 i = false := usetPanics_eq hs
  rcases hst with rfl | rfl | rfl <;>
  · simp +decide only [uriStep, UState.setParams, e2, h64, h58, Bool.false_eq_true, ↓reduceIte]
    repeat' split
    all_goals exact ⟨_, rfl, by simp [UcBackSt, hho, hsc, hty] <;> omega⟩

theorem uc_back_colon {i : Nat} {σ : UState} {t k : Nat} (h : UcBackSt σ t k i) (hi : i ≠ 0) :
    ∃ σ', uriStep i 58 σ = .next σ' ∧ UcBack2St σ' t k i := by
  rcases σ with ⟨st, s0, fu, po, pn, eh, u0, pnc⟩
  obtain ⟨hst, hfu, hpo, hho, hsc, hty, hp, hs⟩ := h
  simp only at hst hfu hpo hho hsc hty hp hs
  subst hfu hpo hp
  rcases hst with rfl | rfl | rfl <;>
  · simp +decide only [uriStep, ↓reduceIte]
    exact ⟨_, rfl, by simp [UcBack2St, hho, hsc, hty]⟩

theorem uc_back2_step {i : Nat} {c : UInt8} {σ : UState} {t k q : Nat} (h : UcBack2St σ t k q) (hc : ucW2 c = true) :
    ∃ σ', uriStep i c σ = .next σ' ∧ UcBack2St σ' t k q := by
  simp only [ucW2, Bool.not_eq_true', Bool.or_eq_false_iff] at hc
  obtain ⟨⟨⟨h64, h58⟩, h59⟩, h63⟩ := hc
  rcases σ with ⟨st, s0, fu, po, pn, eh, u0, pnc⟩
  obtain ⟨hst, hfu, hpo, hho, hsc, hty, hp⟩ := h
  simp only at hst hfu hpo hho hsc hty hp
  subst hfu hpo hp
  rcases hst with rfl | rfl | rfl <;>
  · simp only [uriStep, h64, h58, h59, h63, Bool.false_eq_true, ↓reduceIte]
    exact ⟨_, rfl, by simp [UcBack2St, hho, hsc, hty]⟩

theorem uc_u_eq (u : PsipURI) (t k : Nat) (us pw : PField) (h1 : u.uriType = t) (h2 : u.scheme = ⟨0, k⟩) :
    ({ uriType := u.uriType, scheme := u.scheme, user := us, pass := pw, host := {}, port := {}, params := {},
       headers := {}, portNo := 0 } : PsipURI) = { uriType := t, scheme := ⟨0, k⟩, user := us, pass := pw } := by
  rw [h1, h2]

/-- '@' with no `:` remembered: all that was read since the scheme is the user -/
theorem uc_back_at {i : Nat} {σ : UState} {t k : Nat} (h : UcBackSt σ t k i) (hk : k ≤ i) (hi : i ≤ 65535) :
    ∃ σ', uriStep i 64 σ = .next σ' ∧ UcHost0St σ' i t k ⟨k, i - k⟩ ⟨0, 0⟩ := by
  rcases σ with ⟨st, s0, fu, po, pn, eh, u0, pnc⟩
  obtain ⟨hst, hfu, hpo, hho, hsc, hty, hp, hs⟩ := h
  simp only at hst hfu hpo hho hsc hty hp hs
  subst hfu hpo hp
  have e1 : PField.set k i = ⟨k, i - k⟩ := uset_eq hk hi
  have e2 : PField.setPanics k i = false := usetPanics_eq hk
  rcases hst with rfl | rfl | rfl <;>
  · simp +decide only [uriStep, uAtInParams, UState.setUser, hho, e1, e2, ↓reduceIte]
    exact ⟨_, rfl, by simp [UcHost0St, hsc, hty]⟩

/-- '@' with the first `:` remembered at `q`: user in front of it, password behind it -/
theorem uc_back2_at {i : Nat} {σ : UState} {t k q : Nat} (h : UcBack2St σ t k q) (hq : q ≠ 0) (hk : k ≤ q)
    (hqi : q + 1 ≤ i) (hi : i ≤ 65535) :
    ∃ σ', uriStep i 64 σ = .next σ' ∧ UcHost0St σ' i t k ⟨k, q - k⟩ ⟨q + 1, i - (q + 1)⟩ := by
  have e1 : PField.set k q = ⟨k, q - k⟩ := uset_eq hk (by omega)
  have e2 : PField.setPanics k q = false := usetPanics_eq hk
  have e3 : PField.set (q + 1) i = ⟨q + 1, i - (q + 1)⟩ := uset_eq hqi hi
  have e4 : PField.setPanics (q + 1) i = false := usetPanics_eq hqi
  have e5 : (q != 0) = true := by simpa using hq
  rcases σ with ⟨st, s0, fu, po, pn, eh, u0, pnc⟩
  obtain ⟨hst, hfu, hpo, hho, hsc, hty, hp⟩ := h
  simp only at hst hfu hpo hho hsc hty hp
  subst hfu hpo hp
  rcases hst with rfl | rfl | rfl <;>
  · simp +decide only [uriStep, uAtInParams, UState.setUser, UState.setPass, hho, e1, e2, e3, e4, e5, ↓reduceIte]
    exact ⟨_, rfl, by simp [UcHost0St, hsc, hty]⟩


/-- what stands in front of the first `;` / `?` (at `d`) of such a user part: a first token, a bracketed text, or a
    bracketed text with `:` and digits of value ≤ 65535 (it is first read as host and port) -/
def UcBackHead (b : Buf) (k d : Nat) : Prop :=
  UcFirstTok b k d ∨ UcBrHost b k d ∨
  (∃ e, UcBrHost b k e ∧ b[e]? = some 58 ∧ e + 1 ≤ d ∧ UcAll b (e + 1) d isDigit ∧
    decOf (digitsOf b (e + 1) d) ≤ 65535)

/-- `;` / `?` at `d` behind a host-like text read in `user` / `host6E`, or behind its port -/
theorem uc_back_entry {d : Nat} {c : UInt8} {σ : UState} {t k : Nat} (hc : c = 59 ∨ c = 63)
    (hst : ((σ.st = .user ∨ σ.st = .host6E) ∧ σ.s = k) ∨ (σ.st = .port ∧ σ.u.host.offs = k ∧ σ.portNo ≤ 65535))
    (hs : σ.s ≤ d) (hd : d ≤ 65535)
    (hfu : σ.foundUser = false) (hpo : σ.passOffs = 0) (hp : σ.pnc = false)
    (hsc : σ.u.scheme = ⟨0, k⟩) (hty : σ.u.uriType = t) :
    ∃ σ', uriStep d c σ = .next σ' ∧ UcBackSt σ' t k (d + 1) := by
  rcases σ with ⟨st, s0, fu, po, pn, eh, u0, pnc⟩
  simp only at hst hs hfu hpo hp hsc hty
  subst hfu hpo hp
  have e1 : PField.set s0 d = ⟨s0, d - s0⟩ := uset_eq hs hd
  have e2 : PField.setPanics s0 d = false := usetPanics_eq hs
  rcases hst with ⟨hst, rfl⟩ | ⟨rfl, hho, hpn⟩
  · rcases hst with rfl | rfl <;> rcases hc with rfl | rfl <;>
    · simp +decide only [uriStep, UState.setHost, e1, e2, ↓reduceIte]
      exact ⟨_, rfl, by simp [UcBackSt, hsc, hty]⟩
  · have e3 : ¬ pn > 65535 := by omega
    rcases hc with rfl | rfl <;>
    · simp +decide only [uriStep, UState.setPort, e1, e2, e3, ↓reduceIte]
      exact ⟨_, rfl, by simp [UcBackSt, hsc, hty, hho]⟩

theorem uc_run_back_head {b : Buf} {k d t : Nat} {c : UInt8} {σ : UState} (hi : UcInitSt σ t k)
    (hfit : b.size ≤ 65535) (hk : k ≤ 65535) (hh : UcBackHead b k d) (hc : c = 59 ∨ c = 63) (hd : b[d]? = some c) :
    ∃ σ', ucRun b k σ = ucRun b (d + 1) σ' ∧ UcBackSt σ' t k (d + 1) := by
  have hdlt := get?_lt hd
  obtain ⟨hst, hfu, hpo, hpn, heh, hp, hu0⟩ := hi
  have hsc : σ.u.scheme = ⟨0, k⟩ := by rw [hu0]
  have hty : σ.u.uriType = t := by rw [hu0]
  rcases hh with ⟨hlt, hf, hall⟩ | hbr | ⟨e, hbr, h58, hle, hall, hval⟩
  · obtain ⟨c0, hc0⟩ : ∃ c, b[k]? = some c := ⟨b[k]'(by omega), Array.getElem?_eq_getElem (by omega)⟩
    obtain ⟨σ', hs', hb'⟩ := uc_back_entry (σ := { σ with st := .user, s := k }) (d := d) (t := t) (k := k) hc
      (Or.inl ⟨Or.inl rfl, rfl⟩) (Nat.le_of_lt hlt) (by omega) hfu hpo hp hsc hty
    exact ⟨σ', by
      rw [ucRun_next hc0 (uc_init_first hst (hf k (Nat.le_refl _) (by omega) c0 hc0)),
        ucRun_stay (σ := { σ with st := .user, s := k }) (by omega) (by omega) hall (fun m c hf => uc_user_tok rfl hf),
        ucRun_next hd hs'], hb'⟩
  · have hstep : uriStep k 91 σ = .next { σ with st := .host61, s := k } := by
      rcases hst with hst | hst | hst <;> simp +decide only [uriStep, hst, ↓reduceIte]
    have := hbr.2.1
    obtain ⟨σ', hs', hb'⟩ := uc_back_entry (σ := { σ with st := .host6E, s := k }) (d := d) (t := t) (k := k) hc
      (Or.inl ⟨Or.inr rfl, rfl⟩) (by simp only; omega) (by omega) hfu hpo hp hsc hty
    exact ⟨σ', by rw [ucRun_next hbr.1 hstep, uc_run_br rfl hbr (by omega), ucRun_next hd hs'], hb'⟩
  · have hstep : uriStep k 91 σ = .next { σ with st := .host61, s := k } := by
      rcases hst with hst | hst | hst <;> simp +decide only [uriStep, hst, ↓reduceIte]
    have := hbr.2.1
    have hstep2 : uriStep e 58 { σ with st := .host6E, s := k } =
        .next { ({ σ with st := .host6E, s := k } : UState).setHost k e with st := .port, s := e + 1 } := by
      simp +decide only [uriStep, ↓reduceIte]
    have e1 : PField.set k e = ⟨k, e - k⟩ := uset_eq (by omega) (by omega)
    have e2 : PField.setPanics k e = false := usetPanics_eq (by omega)
    obtain ⟨σ', hs', hb'⟩ := uc_back_entry
      (σ := { ({ ({ σ with st := .host6E, s := k } : UState).setHost k e with st := .port, s := e + 1 } : UState) with
        portNo := accPortL 0 (digitsOf b (e + 1) d) }) (d := d) (t := t) (k := k) hc
      (Or.inr ⟨rfl, by simp only [UState.setHost, e1], by simp only; rw [uc_acc_val hval]; exact hval⟩)
      (by simp only; omega) (by omega) hfu hpo (by simp only [UState.setHost, e2, hp, Bool.or_false]) hsc hty
    refine ⟨σ', ?_, hb'⟩
    rw [ucRun_next hbr.1 hstep, uc_run_br rfl hbr (by omega), ucRun_next h58 hstep2,
      uc_run_digits (Or.inl rfl) hle (by omega) hall]
    simp only [UState.setHost, hpn]
    simp only [UState.setHost, hpn] at hs'
    rw [ucRun_next hd hs']


/-- user-info that contains `;` or `?`, in front of the '@' at `a`: a head (`UcBackHead`), the `;` / `?` at `d`, then
    text without `@` and `:` up to `ue`; the user is everything from the scheme to `ue`; behind it either the '@', or
    `:` and a password without `@ : ; ?` -/
def UcUserBack (b : Buf) (k a : Nat) (us pw : PField) : Prop :=
  ∃ d ue, UcBackHead b k d ∧ (b[d]? = some 59 ∨ b[d]? = some 63) ∧ d + 1 ≤ ue ∧ UcAll b (d + 1) ue ucW1 ∧
    us = ⟨k, ue - k⟩ ∧
    ((ue = a ∧ pw = ⟨0, 0⟩) ∨
     (b[ue]? = some 58 ∧ ue + 1 ≤ a ∧ pw = ⟨ue + 1, a - (ue + 1)⟩ ∧ UcAll b (ue + 1) a ucW2))

theorem UcBackHead.lt {b : Buf} {k d : Nat} (h : UcBackHead b k d) : k < d := by
  rcases h with ⟨h, _⟩ | ⟨_, h, _⟩ | ⟨e, ⟨_, h, _⟩, _, h2, _⟩ <;> omega

theorem uc_run_user_back {b : Buf} {k a t : Nat} {σ : UState} {us pw : PField} (hi : UcInitSt σ t k)
    (hfit : b.size ≤ 65535) (hat : b[a]? = some 64) (hu : UcUserBack b k a us pw) :
    ∃ σ', ucRun b k σ = ucRun b (a + 1) σ' ∧ UcHost0St σ' a t k us pw := by
  have halt := get?_lt hat
  obtain ⟨d, ue, hh, hd, hle, hall, rfl, hrest⟩ := hu
  have hkd := hh.lt
  have hue : ue ≤ a := by
    rcases hrest with ⟨h, _⟩ | ⟨_, h, _⟩ <;> omega
  obtain ⟨c, hc, hdc⟩ : ∃ c, (c = 59 ∨ c = 63) ∧ b[d]? = some c := by
    rcases hd with h | h
    · exact ⟨59, Or.inl rfl, h⟩
    · exact ⟨63, Or.inr rfl, h⟩
  obtain ⟨σ1, hr1, hb1⟩ := uc_run_back_head hi hfit (by omega) hh hc hdc
  obtain ⟨σ2, hr2, hb2⟩ := ucRun_scan (f := ucW1) (fun m σ' => UcBackSt σ' t k m) (show ue ≤ b.size by omega)
    (ue - (d + 1)) (d + 1) σ1 (by omega) hall hb1 (fun m c σ2 _ _ _ hf h1 => uc_back_step h1 hf)
  rcases hrest with ⟨rfl, rfl⟩ | ⟨h58, hle2, rfl, hall2⟩
  · obtain ⟨σ3, hs3, hh3⟩ := uc_back_at hb2 (by omega) (by omega)
    exact ⟨σ3, by rw [hr1, hr2, ucRun_next hat hs3], hh3⟩
  · obtain ⟨σ3, hs3, hb3⟩ := uc_back_colon hb2 (by omega)
    obtain ⟨σ4, hr4, hb4⟩ := ucRun_scan (f := ucW2) (fun _ σ' => UcBack2St σ' t k ue) (Nat.le_of_lt halt)
      (a - (ue + 1)) (ue + 1) σ3 (by omega) hall2 hb3 (fun m c σ5 _ _ _ hf h1 => uc_back2_step h1 hf)
    obtain ⟨σ5, hs5, hh5⟩ := uc_back2_at hb4 (by omega) (by omega) hle2 (by omega)
    exact ⟨σ5, by rw [hr1, hr2, ucRun_next h58 hs3, hr4, ucRun_next hat hs5], hh5⟩

/-! ### the grammar of what stands behind the scheme, and completeness -/

/-- the text of `b` behind a scheme of `k` bytes, decomposed into the components of `u` -/
def UcRest (b : Buf) (k : Nat) (u : PsipURI) : Prop :=
  (u.user = ⟨0, 0⟩ ∧ u.pass = ⟨0, 0⟩ ∧
    ∃ he, (UcFirstTok b k he ∨ UcBrHost b k he) ∧ u.host = ⟨k, he - k⟩ ∧
      UcPo b he u.port u.portNo u.params u.headers) ∨
  (∃ a he, b[a]? = some 64 ∧ (UcUserPlain b k a u.user u.pass ∨ UcUserBack b k a u.user u.pass) ∧
    (UcNameHost b (a + 1) he ∨ UcBrHost b (a + 1) he) ∧ u.host = ⟨a + 1, he - (a + 1)⟩ ∧
      UcPo b he u.port u.portNo u.params u.headers)

/-- `b` is a URI of type `t` with a scheme of `k` bytes and the components `u` -/
def UcComp (b : Buf) (t k : Nat) (u : PsipURI) : Prop := u.uriType = t ∧ u.scheme = ⟨0, k⟩ ∧ UcRest b k u

theorem uc_u_build (u : PsipURI) (t k : Nat) (h1 : u.uriType = t) (h2 : u.scheme = ⟨0, k⟩) (ho : PField)
    (h3 : u.host = ho) :
    ({ ({ uriType := t, scheme := ⟨0, k⟩, user := u.user, pass := u.pass } : PsipURI) with
        host := ho, port := u.port, portNo := u.portNo, params := u.params, headers := u.headers }) = u := by
  rcases u with ⟨a1, a2, a3, a4, a5, a6, a7, a8, a9⟩
  simp only at h1 h2 h3
  subst h1 h2 h3
  rfl

/-- **completeness, behind the scheme**: from the state right behind the scheme, a text of the grammar is accepted
    with exactly its components -/
theorem ucRun_complete {b : Buf} {t k : Nat} {σ : UState} {u : PsipURI} (hi : UcInitSt σ t k)
    (hfit : b.size ≤ 65535) (hu : UcComp b t k u) : ucRun b k σ = (.none, b.size, ucOut u, false) := by
  obtain ⟨hty, hsc, hrest⟩ := hu
  have hi0 := hi
  obtain ⟨hst, hfu, hpo, hpn, heh, hp, hu0⟩ := hi
  rcases hrest with ⟨hus, hpw, he, hh, hho, hpo'⟩ | ⟨a, he, hat, hup, hh, hho, hpo'⟩
  · have hb : ({ σ.u with host := ⟨k, he - k⟩, port := u.port, portNo := u.portNo, params := u.params, headers := u.headers } : PsipURI) = u := by
      rw [hu0]
      have := uc_u_build u t k hty hsc _ hho
      rw [hus, hpw] at this
      exact this
    rcases hh with hh | hh
    · rw [uc_from_init_tok hst hfit hp heh hpn hfu (by rw [hu0]) (by rw [hu0]) (by rw [hu0]) (by rw [hu0]) (by rw [hu0])
        hh hpo', hb]
    · rw [uc_from_init_br hst hfit hp heh hpn (by rw [hu0]) (by rw [hu0]) (by rw [hu0]) (by rw [hu0]) hh hpo', hb]
  · obtain ⟨σ', hr, hs'⟩ : ∃ σ', ucRun b k σ = ucRun b (a + 1) σ' ∧ UcHost0St σ' a t k u.user u.pass := by
      rcases hup with hup | hup
      · exact uc_run_user_plain hi0 hfit hat hup
      · exact uc_run_user_back hi0 hfit hat hup
    obtain ⟨g1, g2, g3, g4, g5, g6⟩ := hs'
    rw [hr, uc_from_host0 g1 g2 hfit g5 g4 g3 (by rw [g6]) (by rw [g6]) (by rw [g6]) (by rw [g6]) hh hpo', g6,
      uc_u_build u t k hty hsc _ hho]


/-! ### the scheme -/

/-- the first four bytes, letters in either case (each byte is compared after OR-ing 0x20 into it, which also lets
    0x1a pass for ':') -/
def UcSch4 (b : Buf) (c0 c1 c2 c3 : Nat) : Prop :=
  ∃ b0 b1 b2 b3, b[0]? = some b0 ∧ b[1]? = some b1 ∧ b[2]? = some b2 ∧ b[3]? = some b3 ∧
    ucLow b0 = c0 ∧ ucLow b1 = c1 ∧ ucLow b2 = c2 ∧ ucLow b3 = c3

/-- `sip:` -/
def UcSchSip (b : Buf) : Prop := UcSch4 b 115 105 112 58
/-- `tel:` -/
def UcSchTel (b : Buf) : Prop := UcSch4 b 116 101 108 58
/-- `sips:` (the ':' is compared exactly) -/
def UcSchSips (b : Buf) : Prop := UcSch4 b 115 105 112 115 ∧ b[4]? = some 58

/-- `b` starts with the scheme of URI type `t`, which has `k` bytes, and has at least one more byte -/
def UcScheme (b : Buf) (t k : Nat) : Prop :=
  (t = SIPuri ∧ k = 4 ∧ UcSchSip b) ∨ (t = TELuri ∧ k = 4 ∧ UcSchTel b) ∨ (t = SIPSuri ∧ k = 5 ∧ UcSchSips b)

theorem ucWord_eq (b0 b1 b2 b3 : UInt8) (c0 c1 c2 c3 : Nat) (h0 : c0 < 256) (h1 : c1 < 256) (h2 : c2 < 256)
    (h3 : c3 < 256) :
    ucWord b0 b1 b2 b3 = c3 * 16777216 + c2 * 65536 + c1 * 256 + c0 ↔
      ucLow b0 = c0 ∧ ucLow b1 = c1 ∧ ucLow b2 = c2 ∧ ucLow b3 = c3 := by
  unfold ucWord
  have := ucLow_lt b0
  have := ucLow_lt b1
  have := ucLow_lt b2
  have := ucLow_lt b3
  constructor
  · intro h; omega
  · intro h; omega

theorem ucStart_init (t k : Nat) (st : US) (hst : st = .initSIP ∨ st = .initSIPS ∨ st = .initTEL) (hk : k ≤ 65535) :
    UcInitSt (ucStart t st k) t k := by
  unfold ucStart UcInitSt
  rw [uset_eq (Nat.zero_le _) hk]
  exact ⟨hst, rfl, rfl, rfl, rfl, rfl, rfl⟩

/-- with the scheme in place and one more byte, `parseURI` is the automaton run from behind the scheme -/
theorem uc_parse_run {b : Buf} {t k : Nat} (h : UcScheme b t k) (hsz : k < b.size) :
    ∃ σ, UcInitSt σ t k ∧ parseURI b {} = ucRun b k σ := by
  rcases h with ⟨rfl, rfl, b0, b1, b2, b3, h0, h1, h2, h3, hl⟩ | ⟨rfl, rfl, b0, b1, b2, b3, h0, h1, h2, h3, hl⟩ |
    ⟨rfl, rfl, ⟨b0, b1, b2, b3, h0, h1, h2, h3, hl⟩, h4⟩
  · obtain ⟨b4, h4⟩ : ∃ c, b[4]? = some c := ⟨b[4]'(by omega), Array.getElem?_eq_getElem (by omega)⟩
    refine ⟨_, ucStart_init SIPuri 4 .initSIP (Or.inl rfl) (by omega), ?_⟩
    rw [uc_parse_unfold h0 h1 h2 h3 h4, if_pos ((ucWord_eq b0 b1 b2 b3 115 105 112 58 (by omega) (by omega) (by omega) (by omega)).mpr hl)]
  · obtain ⟨b4, h4⟩ : ∃ c, b[4]? = some c := ⟨b[4]'(by omega), Array.getElem?_eq_getElem (by omega)⟩
    refine ⟨_, ucStart_init TELuri 4 .initTEL (Or.inr (Or.inr rfl)) (by omega), ?_⟩
    have hw := (ucWord_eq b0 b1 b2 b3 116 101 108 58 (by omega) (by omega) (by omega) (by omega)).mpr hl
    rw [uc_parse_unfold h0 h1 h2 h3 h4, if_neg (by rw [hw]; decide), if_pos hw]
  · refine ⟨_, ucStart_init SIPSuri 5 .initSIPS (Or.inr (Or.inl rfl)) (by omega), ?_⟩
    have hw := (ucWord_eq b0 b1 b2 b3 115 105 112 115 (by omega) (by omega) (by omega) (by omega)).mpr hl
    rw [uc_parse_unfold h0 h1 h2 h3 h4, if_neg (by rw [hw]; decide), if_neg (by rw [hw]; decide), if_pos ⟨hw, rfl⟩]

theorem UcRest.lt {b : Buf} {k : Nat} {u : PsipURI} (h : UcRest b k u) : k < b.size := by
  rcases h with ⟨_, _, he, hh, _, hpo⟩ | ⟨a, he, hat, hup, _⟩
  · have := hpo.le
    rcases hh with ⟨h, _⟩ | ⟨_, h, _⟩ <;> omega
  · have := get?_lt hat
    rcases hup with ⟨ue, ⟨h1, _⟩, _, h2⟩ | ⟨d, ue, hh, _, h1, _, _, h2⟩
    · rcases h2 with ⟨h, _⟩ | ⟨_, h, _⟩ <;> omega
    · have := hh.lt
      rcases h2 with ⟨h, _⟩ | ⟨_, h, _⟩ <;> omega

/-- the grammar of sip: and sips: URIs with their components: scheme, then `UcRest` -/
def UcURI (b : Buf) (u : PsipURI) : Prop :=
  (UcSchSip b ∧ UcComp b SIPuri 4 u) ∨ (UcSchSips b ∧ UcComp b SIPSuri 5 u)

/-- the grammar of tel: URIs: `u` holds the sip-style decomposition (the number as host) -/
def UcTelURI (b : Buf) (u : PsipURI) : Prop := UcSchTel b ∧ UcComp b TELuri 4 u

/-- **EXPORT C14 — completeness, all URI types**: a text of the grammar (≤ 65,535 bytes) is accepted, consumed to
    the end, never panics, and the report is exactly the decomposition `u` (for tel: with the host handed out as
    the user, `ucOut`) -/
theorem parseURI_complete_gen (b : Buf) (hfit : b.size ≤ 65535) (t k : Nat) (u : PsipURI) (hs : UcScheme b t k)
    (hu : UcComp b t k u) : parseURI b {} = (.none, b.size, ucOut u, false) := by
  obtain ⟨σ, hi, hr⟩ := uc_parse_run hs hu.2.2.lt
  rw [hr]
  exact ucRun_complete hi hfit hu

/-- **EXPORT C14 — completeness for sip: / sips:**: a text of the grammar is accepted with exactly the components
    user, password, host, port, port number, parameters, headers and type of its decomposition -/
theorem parseURI_complete (b : Buf) (hfit : b.size ≤ 65535) (u : PsipURI) (hu : UcURI b u) :
    parseURI b {} = (.none, b.size, u, false) := by
  rcases hu with ⟨hs, hc⟩ | ⟨hs, hc⟩
  · rw [parseURI_complete_gen b hfit SIPuri 4 u (Or.inl ⟨rfl, rfl, hs⟩) hc]
    unfold ucOut
    rw [hc.1, if_neg (by decide)]
  · rw [parseURI_complete_gen b hfit SIPSuri 5 u (Or.inr (Or.inr ⟨rfl, rfl, hs⟩)) hc]
    unfold ucOut
    rw [hc.1, if_neg (by decide)]

/-- **EXPORT C14 — completeness for tel:**: accepted; the host field is empty and the number is reported as user -/
theorem parseURI_complete_tel (b : Buf) (hfit : b.size ≤ 65535) (u : PsipURI) (hu : UcTelURI b u) :
    parseURI b {} = (.none, b.size, { u with user := u.host, host := {} }, false) := by
  rw [parseURI_complete_gen b hfit TELuri 4 u (Or.inr (Or.inl ⟨rfl, rfl, hu.1⟩)) hu.2]
  unfold ucOut
  rw [hu.2.1, if_pos (by decide)]


/-! ### rejections: error code and position -/

/-- **EXPORT C14 — shorter than the shortest scheme plus one byte**: `ErrURITooShort` at the end of the input -/
theorem parseURI_err_short (b : Buf) (h : b.size < 5) : parseURI b {} = (.tooShort, b.size, {}, false) := by
  have h4 : b[4]? = none := Array.getElem?_eq_none (by omega)
  unfold parseURI
  split
  · rename_i hh; rw [h4] at hh; cases hh
  · rfl

/-- **EXPORT C14 — unknown scheme** (at least five bytes, not `sip:` / `sips:` / `tel:` in any letter case):
    `ErrURIScheme`, position 4 -/
theorem parseURI_err_scheme (b : Buf) (h5 : 5 ≤ b.size) (h1 : ¬ UcSchSip b) (h2 : ¬ UcSchTel b) (h3 : ¬ UcSchSips b) :
    parseURI b {} = (.scheme, 4, {}, false) := by
  obtain ⟨b0, h0⟩ : ∃ c, b[0]? = some c := ⟨b[0]'(by omega), Array.getElem?_eq_getElem (by omega)⟩
  obtain ⟨b1, g1⟩ : ∃ c, b[1]? = some c := ⟨b[1]'(by omega), Array.getElem?_eq_getElem (by omega)⟩
  obtain ⟨b2, g2⟩ : ∃ c, b[2]? = some c := ⟨b[2]'(by omega), Array.getElem?_eq_getElem (by omega)⟩
  obtain ⟨b3, g3⟩ : ∃ c, b[3]? = some c := ⟨b[3]'(by omega), Array.getElem?_eq_getElem (by omega)⟩
  obtain ⟨b4, g4⟩ : ∃ c, b[4]? = some c := ⟨b[4]'(by omega), Array.getElem?_eq_getElem (by omega)⟩
  rw [uc_parse_unfold h0 g1 g2 g3 g4, if_neg, if_neg, if_neg]
  · intro ⟨hw, h58⟩
    exact h3 ⟨⟨b0, b1, b2, b3, h0, g1, g2, g3,
      (ucWord_eq b0 b1 b2 b3 115 105 112 115 (by omega) (by omega) (by omega) (by omega)).mp hw⟩, by rw [g4, h58]⟩
  · intro hw
    exact h2 ⟨b0, b1, b2, b3, h0, g1, g2, g3,
      (ucWord_eq b0 b1 b2 b3 116 101 108 58 (by omega) (by omega) (by omega) (by omega)).mp hw⟩
  · intro hw
    exact h1 ⟨b0, b1, b2, b3, h0, g1, g2, g3,
      (ucWord_eq b0 b1 b2 b3 115 105 112 58 (by omega) (by omega) (by omega) (by omega)).mp hw⟩

/-- error code and position of a run -/
def UcErrAt (r : UErr × Nat × PsipURI × Bool) (e : UErr) (p : Nat) : Prop := r.1 = e ∧ r.2.1 = p

theorem uc_err_fail {b : Buf} {i p : Nat} {c : UInt8} {e : UErr} {σ σ' : UState} (hc : b[i]? = some c)
    (hs : uriStep i c σ = .fail e p σ') (he : e ≠ .none) : UcErrAt (ucRun b i σ) e p := by
  rw [ucRun_fail hc hs he]
  exact ⟨rfl, rfl⟩

/-- where a host may start: right behind the scheme, or behind the '@' that closes a user-info of the grammar -/
def UcHostAt (b : Buf) (k hs : Nat) : Prop :=
  hs = k ∨ ∃ a us pw, hs = a + 1 ∧ b[a]? = some 64 ∧ (UcUserPlain b k a us pw ∨ UcUserBack b k a us pw)

/-- the state in which the host is about to be read -/
def UcHostSt (σ : UState) (k hs : Nat) : Prop :=
  ((σ.st = .host0 ∧ σ.s = hs ∧ k < hs) ∨ ((σ.st = .initSIP ∨ σ.st = .initSIPS ∨ σ.st = .initTEL) ∧ hs = k)) ∧
  σ.portNo = 0

theorem UcUserPlain.lt {b : Buf} {k a : Nat} {us pw : PField} (h : UcUserPlain b k a us pw) : k < a := by
  obtain ⟨ue, ⟨h1, _⟩, _, h2⟩ := h
  rcases h2 with ⟨h, _⟩ | ⟨_, h, _⟩ <;> omega

theorem UcUserBack.lt {b : Buf} {k a : Nat} {us pw : PField} (h : UcUserBack b k a us pw) : k < a := by
  obtain ⟨d, ue, hh, _, h1, _, _, h2⟩ := h
  have := hh.lt
  rcases h2 with ⟨h, _⟩ | ⟨_, h, _⟩ <;> omega

theorem uc_run_host_at {b : Buf} {k hs t : Nat} {σ : UState} (hi : UcInitSt σ t k) (hfit : b.size ≤ 65535)
    (h : UcHostAt b k hs) : ∃ σ', ucRun b k σ = ucRun b hs σ' ∧ UcHostSt σ' k hs := by
  rcases h with rfl | ⟨a, us, pw, rfl, hat, hu⟩
  · exact ⟨σ, rfl, Or.inr ⟨hi.1, rfl⟩, hi.2.2.2.1⟩
  · have hlt : k < a := by
      rcases hu with hu | hu
      · exact hu.lt
      · exact hu.lt
    obtain ⟨σ', hr, hs'⟩ : ∃ σ', ucRun b k σ = ucRun b (a + 1) σ' ∧ UcHost0St σ' a t k us pw := by
      rcases hu with hu | hu
      · exact uc_run_user_plain hi hfit hat hu
      · exact uc_run_user_back hi hfit hat hu
    exact ⟨σ', hr, Or.inl ⟨hs'.1, hs'.2.1, by omega⟩, hs'.2.2.1⟩


/-! #### empty host, brackets -/

theorem uc_err_host0 {b : Buf} {k hs : Nat} {σ : UState} (h : UcHostSt σ k hs) (hk : k < hs) :
    (hs = b.size → UcErrAt (ucRun b hs σ) .host hs) ∧
    (∀ c, b[hs]? = some c → (c = 58 ∨ c = 59 ∨ c = 63 ∨ c = 38 ∨ c = 64) → UcErrAt (ucRun b hs σ) .host hs) := by
  obtain ⟨hst, _⟩ := h
  have hst0 : σ.st = .host0 := by
    rcases hst with ⟨h, _⟩ | ⟨_, h⟩
    · exact h
    · omega
  constructor
  · intro he
    rw [ucRun_end' he]
    simp only [uriFinish, hst0]
    exact ⟨rfl, rfl⟩
  · intro c hc hcc
    refine uc_err_fail (σ' := σ) hc ?_ (by decide)
    rcases hcc with rfl | rfl | rfl | rfl | rfl <;> simp +decide only [uriStep, hst0, ↓reduceIte]

/-- `[` read at the host start: now inside the brackets -/
theorem uc_host_open {b : Buf} {k hs : Nat} {σ : UState} (h : UcHostSt σ k hs) (h91 : b[hs]? = some 91) :
    ∃ σ', ucRun b hs σ = ucRun b (hs + 1) σ' ∧ σ'.st = .host61 ∧ σ'.s = hs ∧ σ'.portNo = 0 := by
  obtain ⟨hst, hpn⟩ := h
  rcases hst with ⟨hst, hs', _⟩ | ⟨hst, rfl⟩
  · refine ⟨{ σ with st := .host61 }, ucRun_next h91 ?_, rfl, hs', hpn⟩
    simp +decide only [uriStep, hst, ↓reduceIte]
  · refine ⟨{ σ with st := .host61, s := hs }, ucRun_next h91 ?_, rfl, rfl, hpn⟩
    rcases hst with hst | hst | hst <;> simp +decide only [uriStep, hst, ↓reduceIte]

/-- `[` without `]`: `ErrURIHost` at the end of the input, or at the first of `[ @ ; ? &` inside the brackets -/
theorem uc_err_br_open {b : Buf} {k hs p : Nat} {σ : UState} (h : UcHostSt σ k hs) (h91 : b[hs]? = some 91)
    (hp : hs + 1 ≤ p) (hall : UcAll b (hs + 1) p ucBrIn)
    (hend : p = b.size ∨ ∃ c, b[p]? = some c ∧ (c = 91 ∨ c = 64 ∨ c = 59 ∨ c = 63 ∨ c = 38)) :
    UcErrAt (ucRun b hs σ) .host p := by
  obtain ⟨σ1, hr, hst, _, _⟩ := uc_host_open h h91
  have hpb : p ≤ b.size := by
    rcases hend with h | ⟨c, hc, _⟩
    · omega
    · have := get?_lt hc; omega
  rw [hr, ucRun_stay hp hpb hall (fun m c hf => uc_host61_stay hst hf)]
  rcases hend with he | ⟨c, hc, hcc⟩
  · rw [ucRun_end' he]
    simp only [uriFinish, hst]
    exact ⟨rfl, rfl⟩
  · refine uc_err_fail (σ' := σ1) hc ?_ (by decide)
    rcases hcc with rfl | rfl | rfl | rfl | rfl <;> simp +decide only [uriStep, hst, ↓reduceIte]

/-- behind the closing `]` only `:` `;` `?` or the end may follow: anything else is `ErrURIHost` at that byte -/
theorem uc_err_br_junk {b : Buf} {k hs he : Nat} {c : UInt8} {σ : UState} (h : UcHostSt σ k hs)
    (hbr : UcBrHost b hs he) (hc : b[he]? = some c) (h58 : c ≠ 58) (h59 : c ≠ 59) (h63 : c ≠ 63) :
    UcErrAt (ucRun b hs σ) .host he := by
  obtain ⟨σ1, hr, hst, _, _⟩ := uc_host_open h hbr.1
  have := get?_lt hc
  rw [hr, uc_run_br hst hbr (by omega)]
  refine uc_err_fail (σ' := { σ1 with st := .host6E }) hc ?_ (by decide)
  have e1 : (c == 58) = false := by simpa using h58
  have e2 : (c == 59) = false := by simpa using h59
  have e3 : (c == 63) = false := by simpa using h63
  simp only [uriStep, e1, e2, e3, Bool.false_eq_true, ↓reduceIte]

/-! #### the port -/

/-- host behind '@' or bracketed host, then ':' : the port is read in state `port` -/
theorem uc_run_to_port {b : Buf} {k hs he : Nat} {σ : UState} (h : UcHostSt σ k hs)
    (hh : (k < hs ∧ UcNameHost b hs he) ∨ UcBrHost b hs he) (h58 : b[he]? = some 58) :
    ∃ σp, ucRun b hs σ = ucRun b (he + 1) σp ∧ σp.st = .port ∧ σp.portNo = 0 := by
  have hlt := get?_lt h58
  rcases hh with ⟨hk, hlt', hf, hall⟩ | hbr
  · obtain ⟨hst, hpn⟩ := h
    have hst0 : σ.st = .host0 := by
      rcases hst with ⟨h, _⟩ | ⟨_, h⟩
      · exact h
      · omega
    obtain ⟨c, hc⟩ : ∃ c, b[hs]? = some c := ⟨b[hs]'(by omega), Array.getElem?_eq_getElem (by omega)⟩
    refine ⟨{ ({ σ with st := .host1 } : UState).setHost σ.s he with st := .port, s := he + 1 }, ?_, rfl, hpn⟩
    rw [ucRun_next hc (uc_host0_first hst0 (hf hs (Nat.le_refl _) (by omega) c hc)),
      ucRun_stay (σ := { σ with st := .host1 }) (by omega) (by omega) hall (fun m c hf => uc_host1_stay rfl hf)]
    refine ucRun_next h58 ?_
    simp +decide only [uriStep, ↓reduceIte]
  · obtain ⟨σ1, hr, hst, _, hpn⟩ := uc_host_open h hbr.1
    refine ⟨{ ({ σ1 with st := .host6E } : UState).setHost σ1.s he with st := .port, s := he + 1 }, ?_, rfl, hpn⟩
    rw [hr, uc_run_br hst hbr (by omega)]
    refine ucRun_next h58 ?_
    simp +decide only [uriStep, ↓reduceIte]

/-- host name right behind the scheme, then ':' : what follows is read in state `pass0` (port or password) -/
theorem uc_run_to_pass0 {b : Buf} {k he : Nat} {σ : UState} (h : UcHostSt σ k k) (hh : UcFirstTok b k he)
    (h58 : b[he]? = some 58) : ∃ σp, ucRun b k σ = ucRun b (he + 1) σp ∧ σp.st = .pass0 ∧ σp.portNo = 0 := by
  have hlt := get?_lt h58
  obtain ⟨hst, hpn⟩ := h
  have hst0 : σ.st = .initSIP ∨ σ.st = .initSIPS ∨ σ.st = .initTEL := by
    rcases hst with ⟨_, _, h⟩ | ⟨h, _⟩
    · omega
    · exact h
  obtain ⟨hlt', hf, hall⟩ := hh
  obtain ⟨c, hc⟩ : ∃ c, b[k]? = some c := ⟨b[k]'(by omega), Array.getElem?_eq_getElem (by omega)⟩
  refine ⟨{ ({ σ with st := .user, s := k } : UState).setUser k he with st := .pass0, s := he + 1 }, ?_, rfl, hpn⟩
  rw [ucRun_next hc (uc_init_first hst0 (hf k (Nat.le_refl _) (by omega) c hc)),
    ucRun_stay (σ := { σ with st := .user, s := k }) (by omega) (by omega) hall (fun m c hf => uc_user_tok rfl hf)]
  refine ucRun_next h58 ?_
  simp +decide only [uriStep, ↓reduceIte]

/-- a byte that is neither a digit nor `;` / `?` in the port: `ErrURIPort` at that byte -/
theorem uc_err_port_char {b : Buf} {i p : Nat} {c : UInt8} {σ : UState} (hst : σ.st = .port) (hip : i ≤ p)
    (hall : UcAll b i p isDigit) (hc : b[p]? = some c) (hd : isDigit c = false) (h59 : c ≠ 59) (h63 : c ≠ 63) :
    UcErrAt (ucRun b i σ) .port p := by
  have := get?_lt hc
  rw [uc_run_digits (Or.inl hst) hip (by omega) hall]
  refine uc_err_fail (σ' := { σ with portNo := accPortL σ.portNo (digitsOf b i p) }) hc ?_ (by decide)
  have e2 : (c == 59) = false := by simpa using h59
  have e3 : (c == 63) = false := by simpa using h63
  simp only [uriStep, hst, hd, e2, e3, Bool.false_eq_true, ↓reduceIte, Bool.or_self]

/-- digits of value above 65535, closed by `;` / `?` or the end of the input: `ErrURIPort` at that position -/
theorem uc_err_port_big {b : Buf} {i p : Nat} {σ : UState} (hst : σ.st = .port ∨ σ.st = .pass0) (hpn : σ.portNo = 0)
    (hip : i ≤ p) (hall : UcAll b i p isDigit) (hbig : decOf (digitsOf b i p) > 65535)
    (hend : p = b.size ∨ b[p]? = some 59 ∨ b[p]? = some 63) : UcErrAt (ucRun b i σ) .port p := by
  have hpb : p ≤ b.size := by
    rcases hend with h | h | h
    · omega
    · have := get?_lt h; omega
    · have := get?_lt h; omega
  have hacc : accPortL σ.portNo (digitsOf b i p) > 65535 := by
    rw [hpn]; exact (accPortL_spec _ 0).2 hbig
  rw [uc_run_digits hst hip hpb hall]
  rcases hend with he | hc | hc
  · rw [ucRun_end' he]
    rcases hst with hst | hst
    · simp only [uriFinish, hst, UState.setPort, hacc, ↓reduceIte]
      exact ⟨rfl, rfl⟩
    · simp only [uriFinish, hst, UState.setPort, hacc, ↓reduceIte]
      split <;> exact ⟨rfl, rfl⟩
  · rcases hst with hst | hst
    · refine uc_err_fail (σ' := ({ σ with portNo := accPortL σ.portNo (digitsOf b i p) } : UState).setPort σ.s p) hc ?_ (by decide)
      simp +decide only [uriStep, hst, UState.setPort, hacc, ↓reduceIte]
    · refine uc_err_fail (σ' := ({ σ with portNo := accPortL σ.portNo (digitsOf b i p) } : UState).setPort σ.s p) hc ?_ (by decide)
      simp +decide only [uriStep, hst, UState.setPort, hacc, ↓reduceIte]
  · rcases hst with hst | hst
    · refine uc_err_fail (σ' := ({ σ with portNo := accPortL σ.portNo (digitsOf b i p) } : UState).setPort σ.s p) hc ?_ (by decide)
      simp +decide only [uriStep, hst, UState.setPort, hacc, ↓reduceIte]
    · refine uc_err_fail (σ' := ({ σ with portNo := accPortL σ.portNo (digitsOf b i p) } : UState).setPort σ.s p) hc ?_ (by decide)
      simp +decide only [uriStep, hst, UState.setPort, hacc, ↓reduceIte]

/-! #### the same for `parseURI` -/

theorem UcHostAt.lt {b : Buf} {k hs : Nat} (h : UcHostAt b k hs) (h2 : k < hs ∨ hs < b.size) : k < b.size := by
  rcases h with rfl | ⟨a, us, pw, rfl, hat, hu⟩
  · omega
  · have := get?_lt hat
    rcases hu with hu | hu
    · have := hu.lt; omega
    · have := hu.lt; omega

theorem uc_parse_host_at {b : Buf} {t k hs : Nat} (hsch : UcScheme b t k) (hfit : b.size ≤ 65535) (hk : k < b.size)
    (hat : UcHostAt b k hs) : ∃ σ, UcHostSt σ k hs ∧ parseURI b {} = ucRun b hs σ := by
  obtain ⟨σ0, hi, hr⟩ := uc_parse_run hsch hk
  obtain ⟨σ, hr2, hs'⟩ := uc_run_host_at hi hfit hat
  exact ⟨σ, hs', by rw [hr, hr2]⟩

/-- **EXPORT C14 — empty host** behind `scheme user-info @`: the input ends there, or one of `: ; ? & @` follows:
    `ErrURIHost`, position = that byte (= the length of the input when it ends there) -/
theorem parseURI_err_empty_host (b : Buf) (hfit : b.size ≤ 65535) {t k hs : Nat} (hsch : UcScheme b t k)
    (hat : UcHostAt b k hs) (hk : k < hs)
    (hend : hs = b.size ∨ ∃ c, b[hs]? = some c ∧ (c = 58 ∨ c = 59 ∨ c = 63 ∨ c = 38 ∨ c = 64)) :
    UcErrAt (parseURI b {}) .host hs := by
  obtain ⟨σ, hs', hr⟩ := uc_parse_host_at hsch hfit (hat.lt (Or.inl hk)) hat
  rw [hr]
  rcases hend with he | ⟨c, hc, hcc⟩
  · exact (uc_err_host0 hs' hk).1 he
  · exact (uc_err_host0 hs' hk).2 c hc hcc

/-- **EXPORT C14 — `]` missing**: a host that opens with `[` (right behind the scheme or behind the '@') and is
    not closed before the end of the input or before one of `[ @ ; ? &`: `ErrURIHost` at that position -/
theorem parseURI_err_bracket_open (b : Buf) (hfit : b.size ≤ 65535) {t k hs p : Nat} (hsch : UcScheme b t k)
    (hat : UcHostAt b k hs) (h91 : b[hs]? = some 91) (hp : hs + 1 ≤ p) (hall : UcAll b (hs + 1) p ucBrIn)
    (hend : p = b.size ∨ ∃ c, b[p]? = some c ∧ (c = 91 ∨ c = 64 ∨ c = 59 ∨ c = 63 ∨ c = 38)) :
    UcErrAt (parseURI b {}) .host p := by
  obtain ⟨σ, hs', hr⟩ := uc_parse_host_at hsch hfit (hat.lt (Or.inr (get?_lt h91))) hat
  rw [hr]
  exact uc_err_br_open hs' h91 hp hall hend

/-- **EXPORT C14 — text behind `]`** other than `:` `;` `?`: `ErrURIHost` at that byte -/
theorem parseURI_err_bracket_junk (b : Buf) (hfit : b.size ≤ 65535) {t k hs he : Nat} {c : UInt8}
    (hsch : UcScheme b t k) (hat : UcHostAt b k hs) (hbr : UcBrHost b hs he) (hc : b[he]? = some c)
    (h58 : c ≠ 58) (h59 : c ≠ 59) (h63 : c ≠ 63) : UcErrAt (parseURI b {}) .host he := by
  obtain ⟨σ, hs', hr⟩ := uc_parse_host_at hsch hfit (hat.lt (Or.inr (get?_lt hbr.1))) hat
  rw [hr]
  exact uc_err_br_junk hs' hbr hc h58 h59 h63

/-- **EXPORT C14 — non-digit in the port** (host behind '@', or bracketed host; then ':' and digits up to `p`):
    a byte at `p` that is neither a digit nor `;` / `?` gives `ErrURIPort` at `p` -/
theorem parseURI_err_port_char (b : Buf) (hfit : b.size ≤ 65535) {t k hs he p : Nat} {c : UInt8}
    (hsch : UcScheme b t k) (hat : UcHostAt b k hs)
    (hh : (k < hs ∧ UcNameHost b hs he) ∨ UcBrHost b hs he) (h58 : b[he]? = some 58) (hp : he + 1 ≤ p)
    (hall : UcAll b (he + 1) p isDigit) (hc : b[p]? = some c) (hd : isDigit c = false) (h59 : c ≠ 59) (h63 : c ≠ 63) :
    UcErrAt (parseURI b {}) .port p := by
  have hklt : k < b.size := by
    rcases hh with ⟨h, _⟩ | h
    · exact hat.lt (Or.inl h)
    · exact hat.lt (Or.inr (get?_lt h.1))
  obtain ⟨σ, hs', hr⟩ := uc_parse_host_at hsch hfit hklt hat
  obtain ⟨σp, hr2, hst, _⟩ := uc_run_to_port hs' hh h58
  rw [hr, hr2]
  exact uc_err_port_char hst hp hall hc hd h59 h63

/-- **EXPORT C14 — port above 65535** (any host of the grammar; then ':' and digits up to `p` whose value exceeds
    65535, closed by `;` / `?` or the end of the input): `ErrURIPort` at `p` (the byte behind the digits) -/
theorem parseURI_err_port_big (b : Buf) (hfit : b.size ≤ 65535) {t k hs he p : Nat}
    (hsch : UcScheme b t k) (hat : UcHostAt b k hs)
    (hh : (k < hs ∧ UcNameHost b hs he) ∨ UcBrHost b hs he ∨ (hs = k ∧ UcFirstTok b k he))
    (h58 : b[he]? = some 58) (hp : he + 1 ≤ p)
    (hall : UcAll b (he + 1) p isDigit) (hbig : decOf (digitsOf b (he + 1) p) > 65535)
    (hend : p = b.size ∨ b[p]? = some 59 ∨ b[p]? = some 63) : UcErrAt (parseURI b {}) .port p := by
  have hklt : k < b.size := by
    rcases hh with ⟨h, _⟩ | h | ⟨rfl, h, _⟩
    · exact hat.lt (Or.inl h)
    · exact hat.lt (Or.inr (get?_lt h.1))
    · have := get?_lt h58; omega
  obtain ⟨σ, hs', hr⟩ := uc_parse_host_at hsch hfit hklt hat
  rw [hr]
  rcases hh with h | h | ⟨rfl, h⟩
  · obtain ⟨σp, hr2, hst, hpn⟩ := uc_run_to_port hs' (Or.inl h) h58
    rw [hr2]
    exact uc_err_port_big (Or.inl hst) hpn hp hall hbig hend
  · obtain ⟨σp, hr2, hst, hpn⟩ := uc_run_to_port hs' (Or.inr h) h58
    rw [hr2]
    exact uc_err_port_big (Or.inl hst) hpn hp hall hbig hend
  · obtain ⟨σp, hr2, hst, hpn⟩ := uc_run_to_pass0 hs' h h58
    rw [hr2]
    exact uc_err_port_big (Or.inr hst) hpn hp hall hbig hend


/-! ### soundness of the grammar: every accepted sip: / sips: text is a text of the grammar -/

theorem UcAll.snoc {b : Buf} {p i : Nat} {f : UInt8 → Bool} {c : UInt8} (h : UcAll b p i f) (hc : b[i]? = some c)
    (hf : f c = true) : UcAll b p (i + 1) f := by
  intro j h1 h2 c' hc'
  by_cases hji : j = i
  · subst hji
    rw [hc] at hc'
    cases hc'
    exact hf
  · exact h j h1 (by omega) c' hc'

theorem UcAll.nil (b : Buf) {p q : Nat} (f : UInt8 → Bool) (h : q ≤ p) : UcAll b p q f :=
  fun j h1 h2 => absurd h2 (by omega)

theorem UcAll.one {b : Buf} {i : Nat} {f : UInt8 → Bool} {c : UInt8} (hc : b[i]? = some c) (hf : f c = true) :
    UcAll b i (i + 1) f := (UcAll.nil b f (Nat.le_refl i)).snoc hc hf

theorem UcAll.mono {b : Buf} {p q : Nat} {f g : UInt8 → Bool} (h : UcAll b p q f) (hfg : ∀ c, f c = true → g c = true) :
    UcAll b p q g := fun j h1 h2 c hc => hfg c (h j h1 h2 c hc)

theorem uc_digit_tok (c : UInt8) (h : isDigit c = true) : ucTok c = true := by
  have h1 : c ≠ 64 := by intro e; rw [e] at h; exact absurd h (by decide)
  have h2 : c ≠ 58 := by intro e; rw [e] at h; exact absurd h (by decide)
  have h3 : c ≠ 59 := by intro e; rw [e] at h; exact absurd h (by decide)
  have h4 : c ≠ 63 := by intro e; rw [e] at h; exact absurd h (by decide)
  have h5 : c ≠ 91 := by intro e; rw [e] at h; exact absurd h (by decide)
  have h6 : c ≠ 93 := by intro e; rw [e] at h; exact absurd h (by decide)
  simp [ucTok, h1, h2, h3, h4, h5, h6]

/-- the position behind the first `;` / `?` that follows the host (and port) -/
def ucD1 (σ : UState) : Nat := if σ.u.params.offs = 0 then σ.s else σ.u.params.offs

/-- the bytes of a field are of the class (an absent field, `⟨0, 0⟩`, has none) -/
def UcFld (b : Buf) (f : PField) (cls : UInt8 → Bool) : Prop := UcAll b f.offs (f.offs + f.len) cls

/-- a user-info of the grammar ends with the '@' right in front of `hs` -/
def UcUinfo (b : Buf) (k : Nat) (us pw : PField) (hs : Nat) : Prop :=
  ∃ a, hs = a + 1 ∧ b[a]? = some 64 ∧ (UcUserPlain b k a us pw ∨ UcUserBack b k a us pw)

/-- scheme-to-host part of `UcRest`; `he` = end of the host -/
def UcHostOK (b : Buf) (k : Nat) (us pw ho : PField) (he : Nat) : Prop :=
  (us = ⟨0, 0⟩ ∧ pw = ⟨0, 0⟩ ∧ (UcFirstTok b k he ∨ UcBrHost b k he) ∧ ho = ⟨k, he - k⟩) ∨
  (∃ a, b[a]? = some 64 ∧ (UcUserPlain b k a us pw ∨ UcUserBack b k a us pw) ∧
    (UcNameHost b (a + 1) he ∨ UcBrHost b (a + 1) he) ∧ ho = ⟨a + 1, he - (a + 1)⟩)

theorem UcRest_iff (b : Buf) (k : Nat) (u : PsipURI) :
    UcRest b k u ↔ ∃ he, UcHostOK b k u.user u.pass u.host he ∧ UcPo b he u.port u.portNo u.params u.headers := by
  constructor
  · rintro (⟨h1, h2, he, h3, h4, h5⟩ | ⟨a, he, h1, h2, h3, h4, h5⟩)
    · exact ⟨he, Or.inl ⟨h1, h2, h3, h4⟩, h5⟩
    · exact ⟨he, Or.inr ⟨a, h1, h2, h3, h4⟩, h5⟩
  · rintro ⟨he, (⟨h1, h2, h3, h4⟩ | ⟨a, h1, h2, h3, h4⟩), h5⟩
    · exact Or.inl ⟨h1, h2, he, h3, h4, h5⟩
    · exact Or.inr ⟨a, he, h1, h2, h3, h4, h5⟩

/-- while no '@' has been seen in parameters / headers: what was read so far can still become a user part -/
def UcBack (b : Buf) (k i : Nat) (σ : UState) : Prop :=
  σ.foundUser = false →
    UcBackHead b k (ucD1 σ - 1) ∧ (b[ucD1 σ - 1]? = some 59 ∨ b[ucD1 σ - 1]? = some 63) ∧ 1 ≤ ucD1 σ ∧ ucD1 σ ≤ i ∧
    (σ.passOffs = 0 → UcAll b (ucD1 σ) i ucW1) ∧
    (σ.passOffs ≠ 0 → ucD1 σ ≤ σ.passOffs ∧ UcAll b (ucD1 σ) σ.passOffs ucW1 ∧ UcAll b (σ.passOffs + 1) i ucW2)

/-- byte classes of what has been read, per state (rides on `UInv`) -/
def UcSInv (b : Buf) (k i : Nat) (σ : UState) : Prop :=
  match σ.st with
  | .user => UcAll b k (k + 1) ucFirst ∧ UcAll b (k + 1) i ucTok
  | .pass0 => UcFirstTok b k (k + σ.u.user.len) ∧ UcAll b σ.s i isDigit
  | .pass1 => UcFirstTok b k (k + σ.u.user.len) ∧ UcAll b σ.s i ucTok
  | .host0 => UcUinfo b k σ.u.user σ.u.pass σ.s
  | .host1 => UcUinfo b k σ.u.user σ.u.pass σ.s ∧ UcAll b σ.s (σ.s + 1) ucHost0 ∧ UcAll b (σ.s + 1) i ucHost
  | .host61 => (σ.foundUser = true → UcUinfo b k σ.u.user σ.u.pass σ.s) ∧ σ.s < i ∧ b[σ.s]? = some 91 ∧
      UcAll b (σ.s + 1) i ucBrIn
  | .host6E => (σ.foundUser = true → UcUinfo b k σ.u.user σ.u.pass σ.s) ∧ UcBrHost b σ.s i
  | .port => UcHostOK b k σ.u.user σ.u.pass σ.u.host (σ.u.host.offs + σ.u.host.len) ∧ UcAll b σ.s i isDigit ∧
      (σ.foundUser = false → UcBrHost b k (σ.u.host.offs + σ.u.host.len))
  | .param0 | .param1 => UcHostOK b k σ.u.user σ.u.pass σ.u.host (σ.u.host.offs + σ.u.host.len) ∧
      UcFld b σ.u.port isDigit ∧ UcAll b σ.s i ucPar ∧ UcBack b k i σ
  | .headers => UcHostOK b k σ.u.user σ.u.pass σ.u.host (σ.u.host.offs + σ.u.host.len) ∧
      UcFld b σ.u.port isDigit ∧ UcFld b σ.u.params ucPar ∧ (σ.errHeaders = false → UcAll b σ.s i ucHdr) ∧
      UcBack b k i σ
  | _ => True

def UcSStepOK (b : Buf) (k i : Nat) : UStep → Prop
  | .next σ' => UcSInv b k (i + 1) σ'
  | .fail _ _ _ => True

theorem ucs_init {b : Buf} {t k i : Nat} {σ : UState} {c : UInt8} (h : UInv b t k i σ)
    (hst : σ.st = .initSIP ∨ σ.st = .initSIPS ∨ σ.st = .initTEL)
    (hc : b[i]? = some c) : UcSStepOK b k i (uriStep i c σ) := by
  obtain ⟨hsch, hty, hp, hk, hi, hfit, hI⟩ := h
  unfold UStInv at hI
  have hI' : i = k ∧ σ.foundUser = false := by
    rcases hst with hst | hst | hst <;> (rw [hst] at hI; exact ⟨hI.1, hI.2.1⟩)
  obtain ⟨hik, hfu⟩ := hI'
  subst hik
  unfold uriStep
  rcases hst with hst | hst | hst <;>
  · rw [hst]
    simp only
    by_cases h91 : (c == 91) = true
    · simp only [h91, ↓reduceIte]
      cases beq_u8 h91
      unfold UcSStepOK UcSInv
      simp only
      exact ⟨(fun hf => by rw [hfu] at hf; cases hf), by omega, hc, UcAll.nil b _ (Nat.le_refl _)⟩
    simp only [h91, Bool.false_eq_true, ↓reduceIte]
    by_cases hbr : (c == 58 || c == 93) = true
    · simp only [hbr, ↓reduceIte]
      trivial
    simp only [hbr, Bool.false_eq_true, ↓reduceIte]
    unfold UcSStepOK UcSInv
    simp only
    refine ⟨UcAll.one hc ?_, UcAll.nil b _ (Nat.le_refl _)⟩
    simp only [Bool.or_eq_true, not_or, Bool.not_eq_true] at hbr
    simp [ucFirst, h91, hbr.1, hbr.2]


theorem uc_back_fresh {b : Buf} {k d : Nat} {σ' : UState} (hh : UcBackHead b k d)
    (hd : b[d]? = some 59 ∨ b[d]? = some 63) (hD : ucD1 σ' = d + 1) (hpo : σ'.passOffs = 0) :
    UcBack b k (d + 1) σ' := by
  intro _
  rw [hD]
  refine ⟨hh, hd, by omega, by omega, fun _ => UcAll.nil b _ (Nat.le_refl _), fun h => absurd hpo h⟩

theorem ucs_user {b : Buf} {t k i : Nat} {σ : UState} {c : UInt8} (h : UInv b t k i σ) (hs : UcSInv b k i σ)
    (hst : σ.st = .user) (hc : b[i]? = some c) : UcSStepOK b k i (uriStep i c σ) := by
  obtain ⟨hsch, hty, hp, hk, hi, hfit, hI⟩ := h
  have hlt := get?_lt hc
  unfold UStInv at hI
  rw [hst] at hI
  simp only at hI
  obtain ⟨hs0, hki, hfu, hpo, ⟨hu0, hp0⟩, hh0, hpt0, hpa0, hhd0⟩ := hI
  unfold UcSInv at hs
  rw [hst] at hs
  simp only at hs
  obtain ⟨A1, A2⟩ := hs
  have hft : UcFirstTok b k i := ⟨hki, A1, A2⟩
  have hset : PField.set σ.s i = ⟨k, i - k⟩ := by rw [hs0]; exact uset_eq (by omega) (by omega)
  have e : k + (i - k) = i := by omega
  unfold uriStep
  rw [hst]
  simp only
  by_cases h64 : (c == 64) = true
  · simp only [h64, ↓reduceIte]
    cases beq_u8 h64
    unfold UcSStepOK UcSInv
    simp only [UState.setUser, hset]
    exact ⟨i, rfl, hc, Or.inl ⟨i, hft, rfl, Or.inl ⟨rfl, hp0⟩⟩⟩
  simp only [h64, Bool.false_eq_true, ↓reduceIte]
  by_cases h58 : (c == 58) = true
  · simp only [h58, ↓reduceIte]
    unfold UcSStepOK UcSInv
    simp only [UState.setUser, hset, e]
    exact ⟨hft, UcAll.nil b _ (Nat.le_refl _)⟩
  simp only [h58, Bool.false_eq_true, ↓reduceIte]
  by_cases h59 : (c == 59) = true
  · simp only [h59, ↓reduceIte]
    cases beq_u8 h59
    unfold UcSStepOK UcSInv
    simp only [UState.setHost, hset, e, hpt0]
    refine ⟨Or.inl ⟨hu0, hp0, Or.inl hft, rfl⟩, UcAll.nil b _ (by simp), UcAll.nil b _ (Nat.le_refl _), ?_⟩
    exact uc_back_fresh (Or.inl hft) (Or.inl hc) (by simp only [ucD1, hpa0, ↓reduceIte]) hpo
  simp only [h59, Bool.false_eq_true, ↓reduceIte]
  by_cases h63 : (c == 63) = true
  · simp only [h63, ↓reduceIte]
    cases beq_u8 h63
    unfold UcSStepOK UcSInv
    simp only [UState.setHost, hset, e, hpt0, hpa0]
    refine ⟨Or.inl ⟨hu0, hp0, Or.inl hft, rfl⟩, UcAll.nil b _ (by simp), UcAll.nil b _ (by simp),
      fun _ => UcAll.nil b _ (Nat.le_refl _), ?_⟩
    exact uc_back_fresh (Or.inl hft) (Or.inr hc) (by simp only [ucD1, hpa0, ↓reduceIte]) hpo
  simp only [h63, Bool.false_eq_true, ↓reduceIte]
  by_cases hbr : (c == 91 || c == 93) = true
  · simp only [hbr, ↓reduceIte]
    trivial
  simp only [hbr, Bool.false_eq_true, ↓reduceIte]
  unfold UcSStepOK UcSInv
  simp only [hst]
  refine ⟨A1, A2.snoc hc ?_⟩
  simp only [Bool.or_eq_true, not_or, Bool.not_eq_true] at hbr
  simp only [Bool.not_eq_true] at h64 h58 h59 h63
  simp [ucTok, h64, h58, h59, h63, hbr.1, hbr.2]

theorem ucs_pass {b : Buf} {t k i : Nat} {σ : UState} {c : UInt8} (h : UInv b t k i σ) (hs : UcSInv b k i σ)
    (hst : σ.st = .pass0 ∨ σ.st = .pass1) (hc : b[i]? = some c) : UcSStepOK b k i (uriStep i c σ) := by
  obtain ⟨hsch, hty, hp, hk, hi, hfit, hI⟩ := h
  have hlt := get?_lt hc
  unfold UStInv at hI
  have hI' : σ.foundUser = false ∧ σ.passOffs = 0 ∧ σ.u.user.offs = k ∧ 0 < σ.u.user.len ∧
      b[k + σ.u.user.len]? = some 58 ∧ σ.s = k + σ.u.user.len + 1 ∧ σ.s ≤ i ∧ σ.u.pass = ⟨0, 0⟩ ∧ Blank4 σ.u := by
    rcases hst with hst | hst <;> (rw [hst] at hI; exact hI)
  clear hI
  obtain ⟨hfu, hpo, huo, hul, hcol, hs0, hsi, hp0, hh0, hpt0, hpa0, hhd0⟩ := hI'
  unfold UcSInv at hs
  have hs' : UcFirstTok b k (k + σ.u.user.len) ∧ UcAll b σ.s i ucTok := by
    rcases hst with hst | hst
    · rw [hst] at hs; exact ⟨hs.1, hs.2.mono uc_digit_tok⟩
    · rw [hst] at hs; exact hs
  obtain ⟨hft, A2⟩ := hs'
  have hDig : σ.st = .pass0 → UcAll b σ.s i isDigit := by
    intro hst0
    rw [hst0] at hs
    exact hs.2
  have hset : PField.set σ.s i = ⟨σ.s, i - σ.s⟩ := uset_eq hsi (by omega)
  have hue : σ.u.user = ⟨k, k + σ.u.user.len - k⟩ := by
    have : k + σ.u.user.len - k = σ.u.user.len := by omega
    rw [this, ← huo]
  have hat : ∀ pn, c = 64 →
      UcSStepOK b k i (.next { σ.setPass σ.s i with portNo := pn, st := .host0, foundUser := true, s := i + 1 }) := by
    intro pn hc64
    subst hc64
    unfold UcSStepOK UcSInv
    simp only [UState.setPass, hset]
    exact ⟨i, rfl, hc, Or.inl ⟨k + σ.u.user.len, hft, hue, Or.inr ⟨hcol, by omega, by rw [hs0], by rw [← hs0]; exact A2⟩⟩⟩
  unfold uriStep
  rcases hst with hst | hst
  · rw [hst]
    simp only
    by_cases h64 : (c == 64) = true
    · simp only [h64, ↓reduceIte]
      exact hat 0 (beq_u8 h64)
    simp only [h64, Bool.false_eq_true, ↓reduceIte]
    by_cases hsq : (c == 59 || c == 63) = true
    · simp only [hsq, ↓reduceIte]
      simp only [UState.setPort, hset]
      by_cases hbig : σ.portNo > 65535
      · simp only [hbig, ↓reduceIte]
        trivial
      simp only [hbig, ↓reduceIte]
      have hD : UcAll b σ.s i isDigit := hDig hst
      have hok : UcHostOK b k ⟨0, 0⟩ σ.u.pass σ.u.user (σ.u.user.offs + σ.u.user.len) := by
        rw [huo]
        exact Or.inl ⟨rfl, hp0, Or.inl hft, hue⟩
      have e : σ.s + (i - σ.s) = i := by omega
      by_cases h59 : (c == 59) = true
      · simp only [h59, ↓reduceIte]
        unfold UcSStepOK UcSInv
        simp only
        refine ⟨hok, ?_, UcAll.nil b _ (Nat.le_refl _), fun hf => by cases hf⟩
        unfold UcFld
        simp only [e]
        exact hD
      · simp only [h59, Bool.false_eq_true, ↓reduceIte]
        unfold UcSStepOK UcSInv
        simp only [hpa0]
        refine ⟨hok, ?_, UcAll.nil b _ (by simp), fun _ => UcAll.nil b _ (Nat.le_refl _), fun hf => by cases hf⟩
        unfold UcFld
        simp only [e]
        exact hD
    simp only [hsq, Bool.false_eq_true, ↓reduceIte]
    by_cases hdg : isDigit c = true
    · simp only [hdg, ↓reduceIte]
      unfold UcSStepOK UcSInv
      simp only [hst]
      exact ⟨hft, (hDig hst).snoc hc hdg⟩
    simp only [hdg, Bool.false_eq_true, ↓reduceIte]
    by_cases hbr : (c == 91 || c == 93 || c == 58) = true
    · simp only [hbr, ↓reduceIte]
      trivial
    simp only [hbr, Bool.false_eq_true, ↓reduceIte]
    unfold UcSStepOK UcSInv
    simp only
    refine ⟨hft, A2.snoc hc ?_⟩
    simp only [Bool.or_eq_true, not_or, Bool.not_eq_true] at hbr hsq
    simp only [Bool.not_eq_true] at h64
    simp [ucTok, h64, hsq.1, hsq.2, hbr.1.1, hbr.1.2, hbr.2]
  · rw [hst]
    simp only
    by_cases h64 : (c == 64) = true
    · simp only [h64, ↓reduceIte]
      exact hat σ.portNo (beq_u8 h64)
    simp only [h64, Bool.false_eq_true, ↓reduceIte]
    by_cases hbr : (c == 59 || c == 63 || c == 91 || c == 93 || c == 58) = true
    · simp only [hbr, ↓reduceIte]
      trivial
    simp only [hbr, Bool.false_eq_true, ↓reduceIte]
    unfold UcSStepOK UcSInv
    simp only [hst]
    refine ⟨hft, A2.snoc hc ?_⟩
    simp only [Bool.or_eq_true, not_or, Bool.not_eq_true] at hbr
    simp only [Bool.not_eq_true] at h64
    simp [ucTok, h64, hbr.1.1.1.1, hbr.1.1.1.2, hbr.1.1.2, hbr.1.2, hbr.2]


theorem ucs_host0 {b : Buf} {t k i : Nat} {σ : UState} {c : UInt8} (h : UInv b t k i σ) (hs : UcSInv b k i σ)
    (hst : σ.st = .host0) (hc : b[i]? = some c) : UcSStepOK b k i (uriStep i c σ) := by
  obtain ⟨hsch, hty, hp, hk, hi, hfit, hI⟩ := h
  unfold UStInv at hI
  rw [hst] at hI
  simp only at hI
  obtain ⟨hfu, hs0, hup, hbl⟩ := hI
  unfold UcSInv at hs
  rw [hst] at hs
  simp only at hs
  unfold uriStep
  rw [hst]
  simp only
  by_cases h91 : (c == 91) = true
  · simp only [h91, ↓reduceIte]
    cases beq_u8 h91
    unfold UcSStepOK UcSInv
    simp only
    exact ⟨fun _ => hs, by omega, by rw [hs0]; exact hc, UcAll.nil b _ (by omega)⟩
  simp only [h91, Bool.false_eq_true, ↓reduceIte]
  by_cases hbr : (c == 58 || c == 59 || c == 63 || c == 38 || c == 64) = true
  · simp only [hbr, ↓reduceIte]
    trivial
  simp only [hbr, Bool.false_eq_true, ↓reduceIte]
  unfold UcSStepOK UcSInv
  simp only
  refine ⟨hs, ?_, UcAll.nil b _ (by omega)⟩
  rw [hs0]
  refine UcAll.one hc ?_
  simp only [Bool.or_eq_true, not_or, Bool.not_eq_true] at hbr
  simp only [Bool.not_eq_true] at h91
  simp [ucHost0, ucHost, h91, hbr.1.1.1.1, hbr.1.1.1.2, hbr.1.1.2, hbr.1.2, hbr.2]

/-- the three ways a host ends inside the input (shared by host1 / host6E) -/
theorem ucs_hostEnd {b : Buf} {k i : Nat} {σ : UState} (hlt : i < b.size) (hfit : b.size ≤ 65535)
    (hs : σ.s < i) (hbl : Blank4 σ.u)
    (hok : UcHostOK b k σ.u.user σ.u.pass ⟨σ.s, i - σ.s⟩ i)
    (hund : σ.foundUser = false → σ.passOffs = 0 ∧ UcBrHost b k i) :
    (b[i]? = some 58 → UcSStepOK b k i (.next { σ.setHost σ.s i with st := .port, s := i + 1 })) ∧
    (b[i]? = some 59 → UcSStepOK b k i (.next { σ.setHost σ.s i with st := .param0, s := i + 1 })) ∧
    (b[i]? = some 63 → UcSStepOK b k i (.next { σ.setHost σ.s i with st := .headers, s := i + 1 })) := by
  obtain ⟨hh0, hpt0, hpa0, hhd0⟩ := hbl
  have hset : PField.set σ.s i = ⟨σ.s, i - σ.s⟩ := uset_eq (by omega) (by omega)
  have e : σ.s + (i - σ.s) = i := by omega
  refine ⟨?_, ?_, ?_⟩
  · intro hc
    unfold UcSStepOK UcSInv
    simp only [UState.setHost, hset, e]
    exact ⟨hok, UcAll.nil b _ (Nat.le_refl _), fun hf => (hund hf).2⟩
  · intro hc
    unfold UcSStepOK UcSInv
    simp only [UState.setHost, hset, e, hpt0]
    refine ⟨hok, UcAll.nil b _ (by simp), UcAll.nil b _ (Nat.le_refl _), ?_⟩
    intro hf
    exact uc_back_fresh (Or.inr (Or.inl (hund hf).2)) (Or.inl hc) (by simp only [ucD1, hpa0, ↓reduceIte]) (hund hf).1 hf
  · intro hc
    unfold UcSStepOK UcSInv
    simp only [UState.setHost, hset, e, hpt0, hpa0]
    refine ⟨hok, UcAll.nil b _ (by simp), UcAll.nil b _ (by simp), fun _ => UcAll.nil b _ (Nat.le_refl _), ?_⟩
    intro hf
    exact uc_back_fresh (Or.inr (Or.inl (hund hf).2)) (Or.inr hc) (by simp only [ucD1, hpa0, ↓reduceIte]) (hund hf).1 hf

theorem ucs_host1 {b : Buf} {t k i : Nat} {σ : UState} {c : UInt8} (h : UInv b t k i σ) (hs : UcSInv b k i σ)
    (hst : σ.st = .host1) (hc : b[i]? = some c) : UcSStepOK b k i (uriStep i c σ) := by
  obtain ⟨hsch, hty, hp, hk, hi, hfit, hI⟩ := h
  have hlt := get?_lt hc
  unfold UStInv at hI
  rw [hst] at hI
  simp only at hI
  obtain ⟨hfu, hs0, hup, hbl⟩ := hI
  unfold UcSInv at hs
  rw [hst] at hs
  simp only at hs
  obtain ⟨⟨a, ha, hat, hui⟩, B1, B2⟩ := hs
  have hok : UcHostOK b k σ.u.user σ.u.pass ⟨σ.s, i - σ.s⟩ i := by
    refine Or.inr ⟨a, hat, hui, Or.inl ?_, by rw [ha]⟩
    rw [← ha]
    exact ⟨hs0, B1, B2⟩
  obtain ⟨e58, e59, e63⟩ := ucs_hostEnd (k := k) hlt hfit hs0 hbl hok (fun hf => by rw [hfu] at hf; cases hf)
  unfold uriStep
  rw [hst]
  simp only
  by_cases h58 : (c == 58) = true
  · simp only [h58, ↓reduceIte]
    cases beq_u8 h58
    exact e58 hc
  simp only [h58, Bool.false_eq_true, ↓reduceIte]
  by_cases h59 : (c == 59) = true
  · simp only [h59, ↓reduceIte]
    cases beq_u8 h59
    exact e59 hc
  simp only [h59, Bool.false_eq_true, ↓reduceIte]
  by_cases h63 : (c == 63) = true
  · simp only [h63, ↓reduceIte]
    cases beq_u8 h63
    exact e63 hc
  simp only [h63, Bool.false_eq_true, ↓reduceIte]
  by_cases hbr : (c == 38 || c == 64) = true
  · simp only [hbr, ↓reduceIte]
    trivial
  simp only [hbr, Bool.false_eq_true, ↓reduceIte]
  unfold UcSStepOK UcSInv
  simp only [hst]
  refine ⟨⟨a, ha, hat, hui⟩, B1, B2.snoc hc ?_⟩
  simp only [Bool.or_eq_true, not_or, Bool.not_eq_true] at hbr
  simp only [Bool.not_eq_true] at h58 h59 h63
  simp [ucHost, h58, h59, h63, hbr.1, hbr.2]

theorem ucs_host61 {b : Buf} {t k i : Nat} {σ : UState} {c : UInt8} (h : UInv b t k i σ) (hs : UcSInv b k i σ)
    (hst : σ.st = .host61) (hc : b[i]? = some c) : UcSStepOK b k i (uriStep i c σ) := by
  unfold UcSInv at hs
  rw [hst] at hs
  simp only at hs
  obtain ⟨hui, hsi, h91, C⟩ := hs
  unfold uriStep
  rw [hst]
  simp only
  by_cases h93 : (c == 93) = true
  · simp only [h93, ↓reduceIte]
    cases beq_u8 h93
    unfold UcSStepOK UcSInv
    simp only
    exact ⟨hui, h91, by omega, by simpa using hc, by simpa using C⟩
  simp only [h93, Bool.false_eq_true, ↓reduceIte]
  by_cases hbr : (c == 91 || c == 64 || c == 59 || c == 63 || c == 38) = true
  · simp only [hbr, ↓reduceIte]
    trivial
  simp only [hbr, Bool.false_eq_true, ↓reduceIte]
  unfold UcSStepOK UcSInv
  simp only [hst]
  refine ⟨hui, by omega, h91, C.snoc hc ?_⟩
  simp only [Bool.or_eq_true, not_or, Bool.not_eq_true] at hbr
  simp only [Bool.not_eq_true] at h93
  simp [ucBrIn, h93, hbr.1.1.1.1, hbr.1.1.1.2, hbr.1.1.2, hbr.1.2, hbr.2]

theorem ucs_host6E {b : Buf} {t k i : Nat} {σ : UState} {c : UInt8} (h : UInv b t k i σ) (hs : UcSInv b k i σ)
    (hst : σ.st = .host6E) (hc : b[i]? = some c) : UcSStepOK b k i (uriStep i c σ) := by
  obtain ⟨hsch, hty, hp, hk, hi, hfit, hI⟩ := h
  have hlt := get?_lt hc
  unfold UStInv at hI
  rw [hst] at hI
  simp only at hI
  obtain ⟨hs0, hup, hbl, hund⟩ := hI
  unfold UcSInv at hs
  rw [hst] at hs
  simp only at hs
  obtain ⟨hui, hbr⟩ := hs
  have hok : UcHostOK b k σ.u.user σ.u.pass ⟨σ.s, i - σ.s⟩ i := by
    by_cases hfu : σ.foundUser = true
    · obtain ⟨a, ha, hat, hu⟩ := hui hfu
      refine Or.inr ⟨a, hat, hu, Or.inr ?_, by rw [ha]⟩
      rw [← ha]
      exact hbr
    · have hfu' : σ.foundUser = false := by simpa using hfu
      obtain ⟨_, ⟨hu0, hp0⟩, hsk⟩ := hund hfu'
      refine Or.inl ⟨hu0, hp0, Or.inr ?_, by rw [hsk]⟩
      rw [← hsk]
      exact hbr
  obtain ⟨e58, e59, e63⟩ := ucs_hostEnd (k := k) hlt hfit hs0 hbl hok (fun hf => by
    obtain ⟨h1, _, h3⟩ := hund hf
    exact ⟨h1, by rw [← h3]; exact hbr⟩)
  unfold uriStep
  rw [hst]
  simp only
  by_cases h58 : (c == 58) = true
  · simp only [h58, ↓reduceIte]
    cases beq_u8 h58
    exact e58 hc
  simp only [h58, Bool.false_eq_true, ↓reduceIte]
  by_cases h59 : (c == 59) = true
  · simp only [h59, ↓reduceIte]
    cases beq_u8 h59
    exact e59 hc
  simp only [h59, Bool.false_eq_true, ↓reduceIte]
  by_cases h63 : (c == 63) = true
  · simp only [h63, ↓reduceIte]
    cases beq_u8 h63
    exact e63 hc
  simp only [h63, Bool.false_eq_true, ↓reduceIte]
  trivial


theorem ucs_port {b : Buf} {t k i : Nat} {σ : UState} {c : UInt8} (h : UInv b t k i σ) (hpi : ULPInv b i σ)
    (hs : UcSInv b k i σ) (hst : σ.st = .port) (hc : b[i]? = some c) : UcSStepOK b k i (uriStep i c σ) := by
  obtain ⟨hsch, hty, hp, hk, hi, hfit, hI⟩ := h
  have hlt := get?_lt hc
  unfold UStInv at hI
  rw [hst] at hI
  simp only at hI
  obtain ⟨hup, hhl, hcol, hs0, hsi, hpt0, hpa0, hhd0, hund⟩ := hI
  unfold ULPInv at hpi
  rw [hst] at hpi
  simp only at hpi
  obtain ⟨_, _, hacc⟩ := hpi
  unfold UcSInv at hs
  rw [hst] at hs
  simp only at hs
  obtain ⟨hok, D, hbr⟩ := hs
  have hset : PField.set σ.s i = ⟨σ.s, i - σ.s⟩ := uset_eq hsi (by omega)
  have e : σ.s + (i - σ.s) = i := by omega
  unfold uriStep
  rw [hst]
  simp only
  by_cases hdg : isDigit c = true
  · simp only [hdg, ↓reduceIte]
    unfold UcSStepOK UcSInv
    simp only [hst]
    exact ⟨hok, D.snoc hc hdg, hbr⟩
  simp only [hdg, Bool.false_eq_true, ↓reduceIte]
  by_cases hsq : (c == 59 || c == 63) = true
  · simp only [hsq, ↓reduceIte]
    simp only [UState.setPort, hset]
    by_cases hbig : σ.portNo > 65535
    · simp only [hbig, ↓reduceIte]
      trivial
    simp only [hbig, ↓reduceIte]
    have hval : decOf (digitsOf b (σ.u.host.offs + σ.u.host.len + 1) i) ≤ 65535 := by
      rw [← hs0]
      by_cases hb' : decOf (digitsOf b σ.s i) > 65535
      · have := (accPortL_spec (digitsOf b σ.s i) 0).2 hb'
        omega
      · omega
    have hfld : UcFld b ⟨σ.s, i - σ.s⟩ isDigit := by
      unfold UcFld
      simp only [e]
      exact D
    have hback : ∀ σ' : UState, σ'.foundUser = σ.foundUser → σ'.passOffs = σ.passOffs → ucD1 σ' = i + 1 →
        (b[i]? = some 59 ∨ b[i]? = some 63) → UcBack b k (i + 1) σ' := by
      intro σ' h1 h2 h3 h4 hf
      rw [h1] at hf
      obtain ⟨g1, _, _⟩ := hund hf
      refine uc_back_fresh ?_ h4 h3 (by rw [h2, g1]) (by rw [h1]; exact hf)
      refine Or.inr (Or.inr ⟨_, hbr hf, hcol, by omega, ?_, hval⟩)
      rw [← hs0]
      exact D
    by_cases h59 : (c == 59) = true
    · simp only [h59, ↓reduceIte]
      cases beq_u8 h59
      unfold UcSStepOK UcSInv
      simp only
      exact ⟨hok, hfld, UcAll.nil b _ (Nat.le_refl _),
        hback _ rfl rfl (by simp only [ucD1, hpa0, ↓reduceIte]) (Or.inl hc)⟩
    · simp only [h59, Bool.false_eq_true, ↓reduceIte]
      have h63 : c = 63 := by
        have : (c == 63) = true := by simpa [h59] using hsq
        exact beq_u8 this
      subst h63
      unfold UcSStepOK UcSInv
      simp only [hpa0]
      exact ⟨hok, hfld, UcAll.nil b _ (by simp), fun _ => UcAll.nil b _ (Nat.le_refl _),
        hback _ rfl rfl (by simp only [ucD1, hpa0, ↓reduceIte]) (Or.inr hc)⟩
  simp only [hsq, Bool.false_eq_true, ↓reduceIte]
  trivial


theorem UcBack.found {b : Buf} {k j : Nat} {σ' : UState} (h : σ'.foundUser = true) : UcBack b k j σ' := by
  intro hf
  rw [h] at hf
  cases hf

theorem UcBack.step {b : Buf} {k i : Nat} {c : UInt8} {σ σ' : UState} (h : UcBack b k i σ) (hc : b[i]? = some c)
    (hf : σ'.foundUser = σ.foundUser) (hpo : σ'.passOffs = σ.passOffs) (hD : ucD1 σ' = ucD1 σ)
    (h1 : σ.passOffs = 0 → ucW1 c = true) (h2 : σ.passOffs ≠ 0 → ucW2 c = true) : UcBack b k (i + 1) σ' := by
  unfold UcBack at *
  rw [hf, hpo, hD]
  intro hh
  obtain ⟨g1, g2, g3, g4, g5, g6⟩ := h hh
  refine ⟨g1, g2, g3, by omega, fun h0 => (g5 h0).snoc hc (h1 h0), fun hne => ?_⟩
  obtain ⟨g7, g8, g9⟩ := g6 hne
  exact ⟨g7, g8, g9.snoc hc (h2 hne)⟩

theorem UcBack.mark {b : Buf} {k i : Nat} {σ σ' : UState} (h : UcBack b k i σ) (hfu : σ.foundUser = false)
    (hp0 : σ.passOffs = 0) (hpo : σ'.passOffs = i) (hD : ucD1 σ' = ucD1 σ) : UcBack b k (i + 1) σ' := by
  unfold UcBack at *
  rw [hpo, hD]
  intro _
  obtain ⟨g1, g2, g3, g4, g5, g6⟩ := h hfu
  exact ⟨g1, g2, g3, by omega, fun h0 => absurd h0 (by omega), fun _ => ⟨g4, g5 hp0, UcAll.nil b _ (Nat.le_refl _)⟩⟩

/-- the '@' found in parameters / headers: what was read is a user-info of the grammar -/
theorem ucs_at {b : Buf} {k i : Nat} {σ : UState} (hlt : i < b.size) (hfit : b.size ≤ 65535) (hk : 0 < k)
    (hund : Undecided b k i σ) (hend : σ.u.host.offs + σ.u.host.len < i) (hbk : UcBack b k i σ)
    (hc : b[i]? = some 64) : UcSStepOK b k i (uAtInParams i σ) := by
  unfold uAtInParams
  by_cases hfu : σ.foundUser = false
  · obtain ⟨⟨hu0, hp0⟩, hho, hpc⟩ := hund hfu
    obtain ⟨g1, g2, g3, g4, g5, g6⟩ := hbk hfu
    have hd1 : ucD1 σ - 1 + 1 = ucD1 σ := by omega
    simp only [hfu, beq_self_eq_true, ↓reduceIte]
    by_cases hpo : σ.passOffs = 0
    · have hne : (σ.passOffs != 0) = false := by simp [hpo]
      simp only [hne, Bool.false_eq_true, ↓reduceIte]
      have hset : PField.set σ.u.host.offs i = ⟨k, i - k⟩ := by rw [hho]; exact uset_eq (by omega) (by omega)
      unfold UcSStepOK UcSInv
      simp only [UState.setUser, hset]
      refine ⟨i, rfl, hc, Or.inr ⟨ucD1 σ - 1, i, g1, g2, by omega, ?_, rfl, Or.inl ⟨rfl, rfl⟩⟩⟩
      rw [hd1]
      exact g5 hpo
    · have hne : (σ.passOffs != 0) = true := by simp [hpo]
      simp only [hne, ↓reduceIte]
      obtain ⟨hpa, hpb, hpcol⟩ := hpc hpo
      obtain ⟨g7, g8, g9⟩ := g6 hpo
      have hset : PField.set σ.u.host.offs σ.passOffs = ⟨k, σ.passOffs - k⟩ := by
        rw [hho]; exact uset_eq (by omega) (by omega)
      have hset2 : PField.set (σ.passOffs + 1) i = ⟨σ.passOffs + 1, i - (σ.passOffs + 1)⟩ :=
        uset_eq (by omega) (by omega)
      unfold UcSStepOK UcSInv
      simp only [UState.setUser, UState.setPass, hset, hset2]
      refine ⟨i, rfl, hc, Or.inr ⟨ucD1 σ - 1, σ.passOffs, g1, g2, by omega, ?_, rfl,
        Or.inr ⟨hpcol, by omega, rfl, g9⟩⟩⟩
      rw [hd1]
      exact g8
  · have hfu' : σ.foundUser = true := by simpa using hfu
    simp only [hfu', Bool.true_eq_false, beq_iff_eq, ↓reduceIte]
    trivial


theorem ucs_param {b : Buf} {t k i : Nat} {σ : UState} {c : UInt8} (h : UInv b t k i σ) (hs : UcSInv b k i σ)
    (hst : σ.st = .param0 ∨ σ.st = .param1) (hc : b[i]? = some c) : UcSStepOK b k i (uriStep i c σ) := by
  obtain ⟨hsch, hty, hp, hk, hi, hfit, hI⟩ := h
  have hlt := get?_lt hc
  have hI' : UserPart b k σ.u.user σ.u.pass σ.u.host.offs ∧ 0 < σ.u.host.len ∧
      USep b (σ.u.host.offs + σ.u.host.len) σ.u.port 58 ∧
      b[uafter (σ.u.host.offs + σ.u.host.len) σ.u.port]? = some 59 ∧
      σ.s = uafter (σ.u.host.offs + σ.u.host.len) σ.u.port + 1 ∧ σ.s ≤ i ∧
      σ.u.params = ⟨0, 0⟩ ∧ σ.u.headers = ⟨0, 0⟩ ∧ Undecided b k i σ := by
    unfold UStInv at hI
    rcases hst with hst | hst <;> (rw [hst] at hI; exact hI)
  obtain ⟨h1, h2, h3, h4, h5, h6, h7, h8, hund⟩ := hI'
  have hs' : UcHostOK b k σ.u.user σ.u.pass σ.u.host (σ.u.host.offs + σ.u.host.len) ∧
      UcFld b σ.u.port isDigit ∧ UcAll b σ.s i ucPar ∧ UcBack b k i σ := by
    unfold UcSInv at hs
    rcases hst with hst | hst <;> (rw [hst] at hs; exact hs)
  obtain ⟨hok, hfp, P, hbk⟩ := hs'
  have hend : σ.u.host.offs + σ.u.host.len < i := by
    have := h3.le_uafter
    omega
  have hfcases : σ.foundUser = false ∨ σ.foundUser = true := by cases σ.foundUser <;> simp
  have hpcases : (σ.passOffs != 0) = false ∧ σ.passOffs = 0 ∨ (σ.passOffs != 0) = true ∧ σ.passOffs ≠ 0 := by
    by_cases hpo : σ.passOffs = 0
    · exact Or.inl ⟨by simp [hpo], hpo⟩
    · exact Or.inr ⟨by simp [hpo], hpo⟩
  /- a step that stays in the parameters -/
  have stay : ∀ σ' : UState, (σ'.st = .param0 ∨ σ'.st = .param1) → σ'.u = σ.u → σ'.s = σ.s → ucPar c = true →
      UcBack b k (i + 1) σ' → UcSStepOK b k i (.next σ') := by
    intro σ' hst' hu hss hpc hb'
    show UcSInv b k (i + 1) σ'
    unfold UcSInv
    rcases hst' with hst' | hst' <;>
    · rw [hst']
      simp only
      rw [hu, hss]
      exact ⟨hok, hfp, P.snoc hc hpc, hb'⟩
  unfold uriStep
  rcases hst with hst | hst <;>
  · rw [hst]
    simp only
    by_cases h64 : (c == 64) = true
    · simp only [h64, ↓reduceIte]
      cases beq_u8 h64
      exact ucs_at hlt hfit hk hund hend hbk hc
    simp only [h64, Bool.false_eq_true, ↓reduceIte]
    have n64 : (c == 64) = false := by simpa using h64
    by_cases h58 : (c == 58) = true
    · simp only [h58, ↓reduceIte]
      cases beq_u8 h58
      rcases hfcases with hfu | hfu
      · rcases hpcases with ⟨hne, hpo⟩ | ⟨hne, hpo⟩
        · simp only [hfu, hne, beq_self_eq_true, Bool.false_eq_true, ↓reduceIte]
          exact stay _ (Or.inr rfl) rfl rfl (by decide) (hbk.mark hfu hpo rfl rfl)
        · simp only [hfu, hne, beq_self_eq_true, ↓reduceIte]
          exact stay _ (Or.inr rfl) rfl rfl (by decide) (UcBack.found rfl)
      · simp only [hfu, Bool.true_eq_false, beq_iff_eq, ↓reduceIte]
        exact stay _ (Or.inr rfl) rfl rfl (by decide) (UcBack.found rfl)
    simp only [h58, Bool.false_eq_true, ↓reduceIte]
    have n58 : (c == 58) = false := by simpa using h58
    by_cases h59 : (c == 59) = true
    · simp only [h59, ↓reduceIte]
      cases beq_u8 h59
      rcases hpcases with ⟨hne, hpo⟩ | ⟨hne, hpo⟩
      · simp only [hne, Bool.false_eq_true, ↓reduceIte]
        exact stay _ (Or.inl rfl) rfl rfl (by decide)
          (hbk.step hc rfl rfl rfl (fun _ => by decide) (fun h0 => absurd hpo h0))
      · simp only [hne, ↓reduceIte]
        exact stay _ (Or.inl rfl) rfl rfl (by decide) (UcBack.found rfl)
    simp only [h59, Bool.false_eq_true, ↓reduceIte]
    have n59 : (c == 59) = false := by simpa using h59
    by_cases h63 : (c == 63) = true
    · simp only [h63, ↓reduceIte]
      cases beq_u8 h63
      have hset : PField.set σ.s i = ⟨σ.s, i - σ.s⟩ := uset_eq h6 (by omega)
      have e : σ.s + (i - σ.s) = i := by omega
      have hs0 : σ.s ≠ 0 := by omega
      have hfpar : UcFld b ⟨σ.s, i - σ.s⟩ ucPar := by
        unfold UcFld
        simp only [e]
        exact P
      rcases hpcases with ⟨hne, hpo⟩ | ⟨hne, hpo⟩
      · simp only [UState.setParams, hne, Bool.false_eq_true, ↓reduceIte]
        unfold UcSStepOK UcSInv
        simp only [hset]
        refine ⟨hok, hfp, hfpar, fun _ => UcAll.nil b _ (Nat.le_refl _), ?_⟩
        refine hbk.step hc rfl rfl ?_ (fun _ => by decide) (fun h0 => absurd hpo h0)
        simp only [ucD1, h7, hs0, ↓reduceIte]
      · simp only [UState.setParams, hne, ↓reduceIte]
        unfold UcSStepOK UcSInv
        simp only [hset]
        exact ⟨hok, hfp, hfpar, fun _ => UcAll.nil b _ (Nat.le_refl _), UcBack.found rfl⟩
    simp only [h63, Bool.false_eq_true, ↓reduceIte]
    have n63 : (c == 63) = false := by simpa using h63
    exact stay _ (Or.inr rfl) rfl rfl (by simp [ucPar, n63, n64])
      (hbk.step hc rfl rfl rfl (fun _ => by simp [ucW1, n64, n58]) (fun _ => by simp [ucW2, n64, n58, n59, n63]))


theorem ucs_headers {b : Buf} {t k i : Nat} {σ : UState} {c : UInt8} (h : UInv b t k i σ) (hs : UcSInv b k i σ)
    (hst : σ.st = .headers) (hc : b[i]? = some c) : UcSStepOK b k i (uriStep i c σ) := by
  obtain ⟨hsch, hty, hp, hk, hi, hfit, hI⟩ := h
  have hlt := get?_lt hc
  unfold UStInv at hI
  rw [hst] at hI
  simp only at hI
  obtain ⟨h1, h2, h3, h4, h5, h6, h7, h8, hund⟩ := hI
  unfold UcSInv at hs
  rw [hst] at hs
  simp only at hs
  obtain ⟨hok, hfp, hfpar, E, hbk⟩ := hs
  have hend : σ.u.host.offs + σ.u.host.len < i := by
    have := h3.le_uafter
    have := h4.le_uafter
    omega
  have hfcases : σ.foundUser = false ∨ σ.foundUser = true := by cases σ.foundUser <;> simp
  have hpcases : (σ.passOffs != 0) = false ∧ σ.passOffs = 0 ∨ (σ.passOffs != 0) = true ∧ σ.passOffs ≠ 0 := by
    by_cases hpo : σ.passOffs = 0
    · exact Or.inl ⟨by simp [hpo], hpo⟩
    · exact Or.inr ⟨by simp [hpo], hpo⟩
  have stay : ∀ σ' : UState, σ'.st = .headers → σ'.u = σ.u → σ'.s = σ.s →
      (σ'.errHeaders = false → σ.errHeaders = false ∧ ucHdr c = true) →
      UcBack b k (i + 1) σ' → UcSStepOK b k i (.next σ') := by
    intro σ' hst' hu hss he' hb'
    show UcSInv b k (i + 1) σ'
    unfold UcSInv
    rw [hst']
    simp only
    rw [hu, hss]
    exact ⟨hok, hfp, hfpar, fun h0 => (E (he' h0).1).snoc hc (he' h0).2, hb'⟩
  unfold uriStep
  rw [hst]
  simp only
  by_cases h64 : (c == 64) = true
  · simp only [h64, ↓reduceIte]
    cases beq_u8 h64
    exact ucs_at hlt hfit hk hund hend hbk hc
  simp only [h64, Bool.false_eq_true, ↓reduceIte]
  have n64 : (c == 64) = false := by simpa using h64
  by_cases h59 : (c == 59) = true
  · simp only [h59, ↓reduceIte]
    cases beq_u8 h59
    by_cases hbad : (σ.foundUser || σ.passOffs != 0) = true
    · simp only [hbad, ↓reduceIte]
      trivial
    · simp only [hbad, Bool.false_eq_true, ↓reduceIte]
      have hpo : σ.passOffs = 0 := by
        rcases hpcases with ⟨_, h0⟩ | ⟨hne, _⟩
        · exact h0
        · exfalso; apply hbad; simp [hne]
      exact stay _ rfl rfl rfl (fun h0 => by cases h0)
        (hbk.step hc rfl rfl rfl (fun _ => by decide) (fun h0 => absurd hpo h0))
  simp only [h59, Bool.false_eq_true, ↓reduceIte]
  have n59 : (c == 59) = false := by simpa using h59
  have hhdr : ucHdr c = true := by simp [ucHdr, n59, n64]
  by_cases h58 : (c == 58) = true
  · simp only [h58, ↓reduceIte]
    cases beq_u8 h58
    rcases hfcases with hfu | hfu
    · rcases hpcases with ⟨hne, hpo⟩ | ⟨hne, hpo⟩
      · simp only [hfu, hne, beq_self_eq_true, Bool.false_eq_true, ↓reduceIte]
        exact stay _ rfl rfl rfl (fun h0 => ⟨h0, hhdr⟩) (hbk.mark hfu hpo rfl rfl)
      · simp only [hfu, hne, beq_self_eq_true, ↓reduceIte]
        exact stay _ rfl rfl rfl (fun h0 => ⟨h0, hhdr⟩) (UcBack.found rfl)
    · simp only [hfu, Bool.true_eq_false, beq_iff_eq, ↓reduceIte]
      exact stay _ hst rfl rfl (fun h0 => ⟨h0, hhdr⟩) (UcBack.found hfu)
  simp only [h58, Bool.false_eq_true, ↓reduceIte]
  have n58 : (c == 58) = false := by simpa using h58
  by_cases h63 : (c == 63) = true
  · simp only [h63, ↓reduceIte]
    cases beq_u8 h63
    rcases hpcases with ⟨hne, hpo⟩ | ⟨hne, hpo⟩
    · simp only [hne, Bool.false_eq_true, ↓reduceIte]
      exact stay _ hst rfl rfl (fun h0 => ⟨h0, hhdr⟩)
        (hbk.step hc rfl rfl rfl (fun _ => by decide) (fun h0 => absurd hpo h0))
    · simp only [hne, ↓reduceIte]
      exact stay _ rfl rfl rfl (fun h0 => ⟨h0, hhdr⟩) (UcBack.found rfl)
  simp only [h63, Bool.false_eq_true, ↓reduceIte]
  have n63 : (c == 63) = false := by simpa using h63
  exact stay _ hst rfl rfl (fun h0 => ⟨h0, hhdr⟩)
    (hbk.step hc rfl rfl rfl (fun _ => by simp [ucW1, n64, n58]) (fun _ => by simp [ucW2, n64, n58, n59, n63]))

/-- **one step preserves the byte-class invariant** -/
theorem ucs_step {b : Buf} {t k i : Nat} {σ : UState} {c : UInt8} (h : UInv b t k i σ) (hpi : ULPInv b i σ)
    (hs : UcSInv b k i σ) (hc : b[i]? = some c) : UcSStepOK b k i (uriStep i c σ) := by
  rcases hst : σ.st with _ | _ | _ | _ | _ | _ | _ | _ | _ | _ | _ | _ | _ | _ | _ | _ | _ | _
  case initSIP => exact ucs_init h (Or.inl hst) hc
  case initSIPS => exact ucs_init h (Or.inr (Or.inl hst)) hc
  case initTEL => exact ucs_init h (Or.inr (Or.inr hst)) hc
  case user => exact ucs_user h hs hst hc
  case pass0 => exact ucs_pass h hs (Or.inl hst) hc
  case pass1 => exact ucs_pass h hs (Or.inr hst) hc
  case host0 => exact ucs_host0 h hs hst hc
  case host1 => exact ucs_host1 h hs hst hc
  case host61 => exact ucs_host61 h hs hst hc
  case host6E => exact ucs_host6E h hs hst hc
  case port => exact ucs_port h hpi hs hst hc
  case param0 => exact ucs_param h hs (Or.inl hst) hc
  case param1 => exact ucs_param h hs (Or.inr hst) hc
  case headers => exact ucs_headers h hs hst hc
  all_goals
    exfalso
    have := h.2.2.2.2.2.2
    unfold UStInv at this
    rw [hst] at this
    exact this

theorem uriLoop_ucs {b : Buf} {t k : Nat} (i : Nat) (σ : UState) (h : UInv b t k i σ) (hpi : ULPInv b i σ)
    (ha : UcSInv b k i σ) : (uriLoop b i σ).1 = .none → UcSInv b k b.size (uriLoop b i σ).2.2 := by
  fun_induction uriLoop b i σ with
  | case1 i σ hb =>
    have hge := get?_none_ge hb
    have hi : i ≤ b.size := h.2.2.2.2.1
    have : i = b.size := by omega
    subst this
    exact fun _ => ha
  | case2 i σ c hb σ' hstep ih =>
    have hok := uriStep_ok h hb
    have hpo := ustep_portinv h hpi hb
    have hat := ucs_step h hpi ha hb
    rw [hstep] at hok hat hpo
    exact ih hok hpo hat
  | case3 i σ c hb e p σ' hstep =>
    have hok := uriStep_ok h hb
    rw [hstep] at hok
    exact fun h0 => absurd h0 hok.1


/-- byte classes of the reported components -/
def UcCls (b : Buf) (k : Nat) (u : PsipURI) : Prop :=
  UcHostOK b k u.user u.pass u.host (u.host.offs + u.host.len) ∧ UcFld b u.port isDigit ∧
  UcFld b u.params ucPar ∧ UcFld b u.headers ucHdr

theorem uc_mk_hd {b : Buf} {p : Nat} {hd : PField} (h : USep b p hd 63) (hf : UcFld b hd ucHdr)
    (hend : uafter p hd = b.size) : UcHd b p hd := by
  rcases h with rfl | ⟨hc, ho⟩
  · exact Or.inl ⟨hend, rfl⟩
  · rw [uafter_present ho] at hend
    rcases hd with ⟨o, l⟩
    simp only at ho hend
    subst ho
    unfold UcFld at hf
    simp only at hf
    refine Or.inr ⟨hc, ?_, ?_⟩
    · have : l = b.size - (p + 1) := by omega
      rw [this]
    · rw [← hend]; exact hf

theorem uc_mk_pa {b : Buf} {p : Nat} {pa hd : PField} (h : USep b p pa 59) (hf : UcFld b pa ucPar)
    (hh : UcHd b (uafter p pa) hd) : UcPa b p pa hd := by
  rcases h with rfl | ⟨hc, ho⟩
  · exact Or.inl ⟨rfl, hh⟩
  · rw [uafter_present ho] at hh
    rcases pa with ⟨o, l⟩
    simp only at ho hh
    subst ho
    unfold UcFld at hf
    simp only at hf
    refine Or.inr ⟨hc, p + 1 + l, by omega, ?_, hf, hh⟩
    have : p + 1 + l - (p + 1) = l := by omega
    rw [this]

theorem uc_mk_po {b : Buf} {p pn : Nat} {po pa hd : PField} (h : USep b p po 58) (hf : UcFld b po isDigit)
    (hv : pn = decOf (digitsOf b po.offs (po.offs + po.len))) (hle : pn ≤ 65535)
    (hh : UcPa b (uafter p po) pa hd) : UcPo b p po pn pa hd := by
  rcases h with rfl | ⟨hc, ho⟩
  · refine Or.inl ⟨rfl, ?_, hh⟩
    rw [hv]
    simp only [Nat.add_zero, digitsOf_self]
    rfl
  · rw [uafter_present ho] at hh
    rcases po with ⟨o, l⟩
    simp only at ho hh hv
    subst ho
    unfold UcFld at hf
    simp only at hf
    refine Or.inr ⟨hc, p + 1 + l, by omega, ?_, hf, hv, hle, hh⟩
    have : p + 1 + l - (p + 1) = l := by omega
    rw [this]

/-- layout + byte classes + port value = the grammar -/
theorem uc_rest_of_layout {b : Buf} {k : Nat} {u : PsipURI} (hl : URILayout b k u) (hc : UcCls b k u)
    (hp : ULPortOK b u) : UcRest b k u := by
  obtain ⟨_, _, _, h1, h2, h3, hend⟩ := hl
  obtain ⟨c1, c2, c3, c4⟩ := hc
  obtain ⟨_, p2, p3⟩ := hp
  rw [UcRest_iff]
  exact ⟨_, c1, uc_mk_po h1 c2 p2 p3 (uc_mk_pa h2 c3 (uc_mk_hd h3 c4 hend))⟩


theorem uc_fin_nontel {n : Nat} {σx : UState} (ht : σx.u.uriType ≠ TELuri) :
    (if σx.u.uriType == TELuri then
        ((.none : UErr), n, { σx with u := { σx.u with user := σx.u.host, host := {} } })
      else (.none, n, σx)) = (.none, n, σx) := by
  rw [if_neg]
  intro h
  exact ht (by simpa using h)

theorem UcFld.zero (b : Buf) (f : UInt8 → Bool) : UcFld b ⟨0, 0⟩ f := UcAll.nil b f (Nat.le_refl _)

theorem uriFinish_cls {b : Buf} {t k : Nat} {σ : UState} (h : UInv b t k b.size σ) (hs : UcSInv b k b.size σ)
    (ht : t ≠ TELuri) : (uriFinish b.size σ).1 = .none → UcCls b k (uriFinish b.size σ).2.2.u := by
  obtain ⟨hsch, hty, hp, hk, hi, hfit, hI⟩ := h
  have ht' : σ.u.uriType ≠ TELuri := by rw [hty]; exact ht
  have hcond : (σ.u.uriType == TELuri) = false := by simpa using ht'
  unfold UStInv at hI
  unfold UcSInv at hs
  rcases hst : σ.st with _ | _ | _ | _ | _ | _ | _ | _ | _ | _ | _ | _ | _ | _ | _ | _ | _ | _ <;>
    rw [hst] at hI hs <;> simp only at hI hs
  case initSIP => unfold uriFinish; rw [hst]; intro h0; cases h0
  case initSIPS => unfold uriFinish; rw [hst]; intro h0; cases h0
  case initTEL => unfold uriFinish; rw [hst]; intro h0; cases h0
  case host0 => unfold uriFinish; rw [hst]; intro h0; cases h0
  case host61 => unfold uriFinish; rw [hst]; intro h0; cases h0
  case pass1 =>
    unfold uriFinish
    rw [hst]
    have : (US.pass1 == US.pass1) = true := by decide
    simp only [this, Bool.or_true, ↓reduceIte]
    intro h0; cases h0
  case user =>
    obtain ⟨hs0, hki, hfu, hpo, ⟨hu0, hp0⟩, hh0, hpt0, hpa0, hhd0⟩ := hI
    obtain ⟨A1, A2⟩ := hs
    have hset : PField.set σ.s b.size = ⟨k, b.size - k⟩ := by rw [hs0]; exact uset_eq (by omega) (by omega)
    have e : k + (b.size - k) = b.size := by omega
    unfold uriFinish
    rw [hst]
    simp only [hfu, UState.setHost, hset, hcond, Bool.false_eq_true, ↓reduceIte]
    intro _
    unfold UcCls
    simp only [e, hpt0, hpa0, hhd0]
    exact ⟨Or.inl ⟨hu0, hp0, Or.inl ⟨hki, A1, A2⟩, rfl⟩, UcFld.zero b _, UcFld.zero b _, UcFld.zero b _⟩
  case pass0 =>
    obtain ⟨hfu, hpo, huo, hul, hcol, hs0, hsi, hp0, hh0, hpt0, hpa0, hhd0⟩ := hI
    obtain ⟨hft, D⟩ := hs
    have hset : PField.set σ.s b.size = ⟨σ.s, b.size - σ.s⟩ := uset_eq hsi (by omega)
    have e : σ.s + (b.size - σ.s) = b.size := by omega
    have hue : σ.u.user = ⟨k, k + σ.u.user.len - k⟩ := by
      have : k + σ.u.user.len - k = σ.u.user.len := by omega
      rw [this, ← huo]
    unfold uriFinish
    rw [hst]
    have : (US.pass0 == US.pass1) = false := by decide
    simp only [this, hfu, Bool.or_false, Bool.false_eq_true, ↓reduceIte]
    simp only [UState.setPort, hset]
    by_cases hbig : σ.portNo > 65535
    · simp only [hbig, ↓reduceIte]
      intro h0; cases h0
    simp only [hbig, hcond, Bool.false_eq_true, ↓reduceIte]
    intro _
    unfold UcCls
    simp only [hpa0, hhd0]
    refine ⟨?_, ?_, UcFld.zero b _, UcFld.zero b _⟩
    · rw [huo]
      exact Or.inl ⟨rfl, hp0, Or.inl hft, hue⟩
    · unfold UcFld
      simp only [e]
      exact D
  case host1 =>
    obtain ⟨hfu, hs0, hup, hh0, hpt0, hpa0, hhd0⟩ := hI
    obtain ⟨⟨a, ha, hat, hui⟩, B1, B2⟩ := hs
    have hset : PField.set σ.s b.size = ⟨σ.s, b.size - σ.s⟩ := uset_eq (by omega) (by omega)
    have e : σ.s + (b.size - σ.s) = b.size := by omega
    unfold uriFinish
    rw [hst]
    simp only [UState.setHost, hset, hcond, Bool.false_eq_true, ↓reduceIte]
    intro _
    unfold UcCls
    simp only [e, hpt0, hpa0, hhd0]
    refine ⟨Or.inr ⟨a, hat, hui, Or.inl ?_, by rw [ha]⟩, UcFld.zero b _, UcFld.zero b _, UcFld.zero b _⟩
    rw [← ha]
    exact ⟨hs0, B1, B2⟩
  case host6E =>
    obtain ⟨hs0, hup, ⟨hh0, hpt0, hpa0, hhd0⟩, hund⟩ := hI
    obtain ⟨hui, hbr⟩ := hs
    have hset : PField.set σ.s b.size = ⟨σ.s, b.size - σ.s⟩ := uset_eq (by omega) (by omega)
    have e : σ.s + (b.size - σ.s) = b.size := by omega
    unfold uriFinish
    rw [hst]
    simp only [UState.setHost, hset, hcond, Bool.false_eq_true, ↓reduceIte]
    intro _
    unfold UcCls
    simp only [e, hpt0, hpa0, hhd0]
    refine ⟨?_, UcFld.zero b _, UcFld.zero b _, UcFld.zero b _⟩
    by_cases hfu : σ.foundUser = true
    · obtain ⟨a, ha, hat, hu⟩ := hui hfu
      refine Or.inr ⟨a, hat, hu, Or.inr ?_, by rw [ha]⟩
      rw [← ha]
      exact hbr
    · have hfu' : σ.foundUser = false := by simpa using hfu
      obtain ⟨_, ⟨hu0, hp0⟩, hsk⟩ := hund hfu'
      refine Or.inl ⟨hu0, hp0, Or.inr ?_, by rw [hsk]⟩
      rw [← hsk]
      exact hbr
  case port =>
    obtain ⟨hup, hhl, hcol, hs0, hsi, hpt0, hpa0, hhd0, _⟩ := hI
    obtain ⟨hok, D, _⟩ := hs
    have hset : PField.set σ.s b.size = ⟨σ.s, b.size - σ.s⟩ := uset_eq hsi (by omega)
    have e : σ.s + (b.size - σ.s) = b.size := by omega
    unfold uriFinish
    rw [hst]
    simp only [UState.setPort, hset]
    by_cases hbig : σ.portNo > 65535
    · simp only [hbig, ↓reduceIte]
      intro h0; cases h0
    simp only [hbig, hcond, Bool.false_eq_true, ↓reduceIte]
    intro _
    unfold UcCls
    simp only [hpa0, hhd0]
    refine ⟨hok, ?_, UcFld.zero b _, UcFld.zero b _⟩
    unfold UcFld
    simp only [e]
    exact D
  case param0 =>
    obtain ⟨h1, h2, h3, h4, h5, h6, h7, h8, _⟩ := hI
    obtain ⟨hok, hfp, P, _⟩ := hs
    have hset : PField.set σ.s b.size = ⟨σ.s, b.size - σ.s⟩ := uset_eq h6 (by omega)
    have e : σ.s + (b.size - σ.s) = b.size := by omega
    unfold uriFinish
    rw [hst]
    simp only [UState.setParams, hset, hcond, Bool.false_eq_true, ↓reduceIte]
    intro _
    unfold UcCls
    simp only [h8]
    refine ⟨hok, hfp, ?_, UcFld.zero b _⟩
    unfold UcFld
    simp only [e]
    exact P
  case param1 =>
    obtain ⟨h1, h2, h3, h4, h5, h6, h7, h8, _⟩ := hI
    obtain ⟨hok, hfp, P, _⟩ := hs
    have hset : PField.set σ.s b.size = ⟨σ.s, b.size - σ.s⟩ := uset_eq h6 (by omega)
    have e : σ.s + (b.size - σ.s) = b.size := by omega
    unfold uriFinish
    rw [hst]
    simp only [UState.setParams, hset, hcond, Bool.false_eq_true, ↓reduceIte]
    intro _
    unfold UcCls
    simp only [h8]
    refine ⟨hok, hfp, ?_, UcFld.zero b _⟩
    unfold UcFld
    simp only [e]
    exact P
  case headers =>
    obtain ⟨h1, h2, h3, h4, h5, h6, h7, h8, _⟩ := hI
    obtain ⟨hok, hfp, hfpar, E, _⟩ := hs
    have hset : PField.set σ.s b.size = ⟨σ.s, b.size - σ.s⟩ := uset_eq h7 (by omega)
    have e : σ.s + (b.size - σ.s) = b.size := by omega
    unfold uriFinish
    rw [hst]
    simp only [UState.setHeaders, hset]
    by_cases herr : σ.errHeaders = true
    · simp only [herr, ↓reduceIte]
      intro h0; cases h0
    simp only [herr, hcond, Bool.false_eq_true, ↓reduceIte]
    intro _
    unfold UcCls
    simp only
    refine ⟨hok, hfp, hfpar, ?_⟩
    unfold UcFld
    simp only [e]
    exact E (by simpa using herr)


theorem ucRun_cls {b : Buf} {t k : Nat} {σ0 : UState} (h : UInv b t k k σ0) (hpi : ULPInv b k σ0)
    (hs : UcSInv b k k σ0) (ht : t ≠ TELuri) : (ucRun b k σ0).1 = .none → UcCls b k (ucRun b k σ0).2.2.1 := by
  unfold ucRun
  have hl := uriLoop_ok k σ0 h
  have hla := uriLoop_ucs k σ0 h hpi hs
  rcases hq : uriLoop b k σ0 with ⟨e, i, σ⟩
  rw [hq] at hl hla
  simp only at hl hla
  by_cases he : e = .none
  · subst he
    obtain ⟨hi, hinv⟩ := hl.1 rfl
    subst hi
    exact fun hacc => uriFinish_cls hinv (hla rfl) ht hacc
  · intro hacc
    exfalso
    apply he
    cases e <;> first | rfl | exact hacc

/-- an accepted run of type sip / sips from behind the scheme: the report is a decomposition of the grammar -/
theorem ucRun_sound {b : Buf} {t k : Nat} (st : US) (hst : st = .initSIP ∨ st = .initSIPS ∨ st = .initTEL)
    (hk : 0 < k) (hk2 : k ≤ b.size) (hfit : b.size ≤ 65535) (ht : t ≠ TELuri)
    (hacc : (ucRun b k (ucStart t st k)).1 = .none) : UcComp b t k (ucRun b k (ucStart t st k)).2.2.1 := by
  have hinv : UInv b t k k (ucStart t st k) := uinv_start b t k st hst hk hk2 hfit
  have hpi : ULPInv b k (ucStart t st k) := by
    rcases hst with rfl | rfl | rfl <;> exact ⟨rfl, rfl⟩
  have hs : UcSInv b k k (ucStart t st k) := by
    rcases hst with rfl | rfl | rfl <;> trivial
  have hcls := ucRun_cls hinv hpi hs ht hacc
  have hres : UResOK b t k (ucRun b k (ucStart t st k)) := ustart_ok hinv
  have hport : ULPortOK b (ucRun b k (ucStart t st k)).2.2.1 := ustart_portinv hinv hpi hacc
  obtain ⟨_, u0, hl, hty, hu⟩ := hres.2.2 hacc
  rw [if_neg ht] at hu
  rw [hu] at hcls hport ⊢
  exact ⟨hty, hl.1, uc_rest_of_layout hl hcls hport⟩

/-- **EXPORT C14 — soundness of the grammar**: every accepted sip: / sips: text (≤ 65,535 bytes) is a text of the
    grammar, and the reported components are its decomposition -/
theorem parseURI_sound (b : Buf) (hfit : b.size ≤ 65535) (hacc : (parseURI b {}).1 = .none)
    (hsip : (parseURI b {}).2.2.1.uriType ≠ TELuri) : UcURI b (parseURI b {}).2.2.1 := by
  by_cases h5 : b.size < 5
  · rw [parseURI_err_short b h5] at hacc
    cases hacc
  obtain ⟨b0, h0⟩ : ∃ c, b[0]? = some c := ⟨b[0]'(by omega), Array.getElem?_eq_getElem (by omega)⟩
  obtain ⟨b1, g1⟩ : ∃ c, b[1]? = some c := ⟨b[1]'(by omega), Array.getElem?_eq_getElem (by omega)⟩
  obtain ⟨b2, g2⟩ : ∃ c, b[2]? = some c := ⟨b[2]'(by omega), Array.getElem?_eq_getElem (by omega)⟩
  obtain ⟨b3, g3⟩ : ∃ c, b[3]? = some c := ⟨b[3]'(by omega), Array.getElem?_eq_getElem (by omega)⟩
  obtain ⟨b4, g4⟩ : ∃ c, b[4]? = some c := ⟨b[4]'(by omega), Array.getElem?_eq_getElem (by omega)⟩
  have hunf := uc_parse_unfold h0 g1 g2 g3 g4
  by_cases c1 : ucWord b0 b1 b2 b3 = 980445555
  · rw [if_pos c1] at hunf
    rw [hunf] at hacc hsip ⊢
    exact Or.inl ⟨⟨b0, b1, b2, b3, h0, g1, g2, g3,
      (ucWord_eq b0 b1 b2 b3 115 105 112 58 (by omega) (by omega) (by omega) (by omega)).mp c1⟩,
      ucRun_sound .initSIP (Or.inl rfl) (by omega) (by omega) hfit (by decide) hacc⟩
  rw [if_neg c1] at hunf
  by_cases c2 : ucWord b0 b1 b2 b3 = 980182388
  · rw [if_pos c2] at hunf
    rw [hunf] at hacc hsip
    exfalso
    apply hsip
    have hinv : UInv b TELuri 4 4 (ucStart TELuri .initTEL 4) :=
      uinv_start b TELuri 4 .initTEL (Or.inr (Or.inr rfl)) (by omega) (by omega) hfit
    have hres : UResOK b TELuri 4 (ucRun b 4 (ucStart TELuri .initTEL 4)) := ustart_ok hinv
    obtain ⟨_, u0, hl, hty, hu⟩ := hres.2.2 hacc
    rw [hu, if_pos rfl]
    exact hty
  rw [if_neg c2] at hunf
  by_cases c3 : ucWord b0 b1 b2 b3 = 1936746867 ∧ b4 = 58
  · rw [if_pos c3] at hunf
    rw [hunf] at hacc hsip ⊢
    have hsz : 5 ≤ b.size := by omega
    refine Or.inr ⟨⟨⟨b0, b1, b2, b3, h0, g1, g2, g3,
      (ucWord_eq b0 b1 b2 b3 115 105 112 115 (by omega) (by omega) (by omega) (by omega)).mp c3.1⟩, ?_⟩,
      ucRun_sound .initSIPS (Or.inr (Or.inl rfl)) (by omega) hsz hfit (by decide) hacc⟩
    rw [g4, c3.2]
  · rw [if_neg c3] at hunf
    rw [hunf] at hacc
    cases hacc

/-- **EXPORT C14 — `parseURI_ok_iff`**: a text of at most 65,535 bytes is accepted as a sip: / sips: URI with the
    report `u` exactly when `u` is a decomposition of the text according to the grammar `UcURI` -/
theorem parseURI_iff (b : Buf) (hfit : b.size ≤ 65535) (u : PsipURI) :
    UcURI b u ↔ (parseURI b {} = (.none, b.size, u, false) ∧ u.uriType ≠ TELuri) := by
  constructor
  · intro h
    refine ⟨parseURI_complete b hfit u h, ?_⟩
    rcases h with ⟨_, h, _⟩ | ⟨_, h, _⟩ <;> (rw [h]; decide)
  · intro ⟨h, ht⟩
    have hacc : (parseURI b {}).1 = .none := by rw [h]
    have hu : (parseURI b {}).2.2.1 = u := by rw [h]
    have := parseURI_sound b hfit hacc (by rw [hu]; exact ht)
    rw [hu] at this
    exact this

/-- **EXPORT C14 — which texts are accepted**: exactly the texts of the grammar -/
theorem parseURI_ok_iff (b : Buf) (hfit : b.size ≤ 65535) :
    ((parseURI b {}).1 = .none ∧ (parseURI b {}).2.2.1.uriType ≠ TELuri) ↔ ∃ u, UcURI b u := by
  constructor
  · intro ⟨hacc, ht⟩
    exact ⟨_, parseURI_sound b hfit hacc ht⟩
  · intro ⟨u, hu⟩
    obtain ⟨h, ht⟩ := (parseURI_iff b hfit u).mp hu
    rw [h]
    exact ⟨rfl, ht⟩

/-- **EXPORT C14 — the decomposition is unique** -/
theorem UcURI_unique (b : Buf) (hfit : b.size ≤ 65535) (u u' : PsipURI) (h : UcURI b u) (h' : UcURI b u') : u = u' := by
  have e1 := parseURI_complete b hfit u h
  have e2 := parseURI_complete b hfit u' h'
  rw [e1] at e2
  injection e2 with _ e3
  injection e3 with _ e4
  injection e4


/-! ### tel: in its usual form -/

/-- **EXPORT C14 — tel:** `tel:` number `[;params]` with no `@ : ? [ ]` in the number and no `?`, `@` in the
    parameters: accepted, the host field is empty, the user field is the number, the parameters follow -/
theorem parseURI_tel_simple (b : Buf) (hfit : b.size ≤ 65535) (hs : UcSchTel b) (he : Nat) (pa : PField)
    (hnum : UcFirstTok b 4 he) (hpa : UcPa b he pa ⟨0, 0⟩) :
    parseURI b {} = (.none, b.size,
      { uriType := TELuri, scheme := ⟨0, 4⟩, user := ⟨4, he - 4⟩, host := ⟨0, 0⟩, params := pa }, false) := by
  have := parseURI_complete_tel b hfit
    { uriType := TELuri, scheme := ⟨0, 4⟩, host := ⟨4, he - 4⟩, params := pa }
    ⟨hs, rfl, rfl, Or.inl ⟨rfl, rfl, he, Or.inl hnum, rfl, Or.inl ⟨rfl, rfl, hpa⟩⟩⟩
  rw [this]

/-! ### tests / non-vacuity -/

/-- executable form of `UcAll`, for closed examples -/
def ucAllB (b : Buf) (p q : Nat) (f : UInt8 → Bool) : Bool :=
  (List.range' p (q - p)).all (fun j => match b[j]? with | some c => f c | none => true)

theorem ucAll_of_check {b : Buf} {p q : Nat} {f : UInt8 → Bool} (h : ucAllB b p q f = true) : UcAll b p q f := by
  intro j h1 h2 c hc
  have := List.all_eq_true.mp h j (List.mem_range'_1.mpr ⟨h1, by omega⟩)
  simp only [hc] at this
  exact this


-- non-vacuity, built by hand: `sip:u:p@h:5060;a?b` is a text of the grammar with these components
-- (every leaf is a closed computation, `decide +kernel`)
example : UcURI "sip:u:p@h:5060;a?b".toUTF8.data
    { uriType := SIPuri, scheme := ⟨0, 4⟩, user := ⟨4, 1⟩, pass := ⟨6, 1⟩, host := ⟨8, 1⟩, port := ⟨10, 4⟩,
      portNo := 5060, params := ⟨15, 1⟩, headers := ⟨17, 1⟩ } :=
  Or.inl ⟨⟨115, 105, 112, 58, by decide +kernel, by decide +kernel, by decide +kernel, by decide +kernel,
      by decide +kernel, by decide +kernel, by decide +kernel, by decide +kernel⟩,
    rfl, rfl, Or.inr ⟨7, 9, by decide +kernel,
      Or.inl ⟨5, ⟨by decide, ucAll_of_check (by decide +kernel), ucAll_of_check (by decide +kernel)⟩, rfl,
        Or.inr ⟨by decide +kernel, by decide, rfl, ucAll_of_check (by decide +kernel)⟩⟩,
      Or.inl ⟨by decide, ucAll_of_check (by decide +kernel), ucAll_of_check (by decide +kernel)⟩, rfl,
      Or.inr ⟨by decide +kernel, 14, by decide, rfl, ucAll_of_check (by decide +kernel), by decide +kernel, by decide,
        Or.inr ⟨by decide +kernel, 16, by decide, rfl, ucAll_of_check (by decide +kernel),
          Or.inr ⟨by decide +kernel, by decide +kernel, ucAll_of_check (by decide +kernel)⟩⟩⟩⟩⟩

-- hence (completeness) it is accepted with exactly these components
example : parseURI "sip:u:p@h:5060;a?b".toUTF8.data {} = (.none, 18,
    { uriType := SIPuri, scheme := ⟨0, 4⟩, user := ⟨4, 1⟩, pass := ⟨6, 1⟩, host := ⟨8, 1⟩, port := ⟨10, 4⟩,
      portNo := 5060, params := ⟨15, 1⟩, headers := ⟨17, 1⟩ }, false) := by decide +kernel

-- non-vacuity of the back-tracking part of the grammar (through `parseURI_iff`, right to left): `;` `?` `:` in
-- front of the '@' belong to user / password, the host is bracketed
example : UcURI "sip:u;x?y:p@[::1]:5060;a=b?c=d".toUTF8.data
    { uriType := SIPuri, scheme := ⟨0, 4⟩, user := ⟨4, 5⟩, pass := ⟨10, 1⟩, host := ⟨12, 5⟩, port := ⟨18, 4⟩,
      params := ⟨23, 3⟩, headers := ⟨27, 3⟩, portNo := 5060 } :=
  (parseURI_iff _ (by decide +kernel) _).mpr ⟨by decide +kernel, by decide⟩
-- a bracketed text with a port, taken back as user part by a later '@'
example : UcURI "sip:[a]:1;x@h".toUTF8.data
    { uriType := SIPuri, scheme := ⟨0, 4⟩, user := ⟨4, 7⟩, host := ⟨12, 1⟩ } :=
  (parseURI_iff _ (by decide +kernel) _).mpr ⟨by decide +kernel, by decide⟩
-- sips, upper case, no user
example : ∃ u, UcURI "SIPS:h".toUTF8.data u :=
  (parseURI_ok_iff _ (by decide +kernel)).mp ⟨by decide +kernel, by decide +kernel⟩
-- quirks of the accepted language that the grammar has to contain (tests)
example : (parseURI "sip:a&b".toUTF8.data {}).1 = .none ∧ (parseURI "sip:u@a&b".toUTF8.data {}).1 = .badChar := by
  decide +kernel
example : (parseURI "sip:u@a]b[".toUTF8.data {}).2.2.1.host = ⟨6, 4⟩ := by decide +kernel
example : (parseURI "sip:h;a:[b]@d".toUTF8.data {}).1 = .none ∧ (parseURI "sip:u:[b]@d".toUTF8.data {}).1 = .badChar := by
  decide +kernel
example : (parseURI "sip:[a]:1;x@h".toUTF8.data {}).1 = .none ∧
    (parseURI "sip:[a]:70000;x@h".toUTF8.data {}).1 = .port ∧ (parseURI "sip:u:1;x@h".toUTF8.data {}).1 = .badChar := by
  decide +kernel

-- tel: (hypotheses of `parseURI_tel_simple` met by `tel:+123;x=y`)
example : parseURI "tel:+123;x=y".toUTF8.data {} = (.none, 12,
    { uriType := TELuri, scheme := ⟨0, 4⟩, user := ⟨4, 4⟩, host := ⟨0, 0⟩, params := ⟨9, 3⟩ }, false) :=
  parseURI_tel_simple _ (by decide +kernel)
    ⟨116, 101, 108, 58, by decide +kernel, by decide +kernel, by decide +kernel, by decide +kernel,
      by decide +kernel, by decide +kernel, by decide +kernel, by decide +kernel⟩ 8 ⟨9, 3⟩
    ⟨by decide, ucAll_of_check (by decide +kernel), ucAll_of_check (by decide +kernel)⟩
    (Or.inr ⟨by decide +kernel, 12, by decide, rfl, ucAll_of_check (by decide +kernel),
      Or.inl ⟨by decide +kernel, rfl⟩⟩)

-- rejections: the hypotheses of the error theorems are met by concrete inputs
example : UcErrAt (parseURI "sip:u@h:99999;x".toUTF8.data {}) .port 13 :=
  parseURI_err_port_big _ (by decide +kernel) (t := SIPuri) (k := 4) (hs := 6) (he := 7)
    (Or.inl ⟨rfl, rfl, 115, 105, 112, 58, by decide +kernel, by decide +kernel, by decide +kernel, by decide +kernel,
      by decide +kernel, by decide +kernel, by decide +kernel, by decide +kernel⟩)
    (Or.inr ⟨5, ⟨4, 1⟩, ⟨0, 0⟩, rfl, by decide +kernel,
      Or.inl ⟨5, ⟨by decide, ucAll_of_check (by decide +kernel), ucAll_of_check (by decide +kernel)⟩, rfl,
        Or.inl ⟨rfl, rfl⟩⟩⟩)
    (Or.inl ⟨by decide, by decide, ucAll_of_check (by decide +kernel), ucAll_of_check (by decide +kernel)⟩)
    (by decide +kernel) (by decide) (ucAll_of_check (by decide +kernel)) (by decide +kernel)
    (Or.inr (Or.inl (by decide +kernel)))
example : UcErrAt (parseURI "sip:[::1;x".toUTF8.data {}) .host 8 :=
  parseURI_err_bracket_open _ (by decide +kernel) (t := SIPuri) (k := 4) (hs := 4)
    (Or.inl ⟨rfl, rfl, 115, 105, 112, 58, by decide +kernel, by decide +kernel, by decide +kernel, by decide +kernel,
      by decide +kernel, by decide +kernel, by decide +kernel, by decide +kernel⟩)
    (Or.inl rfl) (by decide +kernel) (by decide) (ucAll_of_check (by decide +kernel))
    (Or.inr ⟨59, by decide +kernel, Or.inr (Or.inr (Or.inl rfl))⟩)
example : parseURI "sip".toUTF8.data {} = (.tooShort, 3, {}, false) := parseURI_err_short _ (by decide +kernel)
-- the shapes of the error theorems on more inputs (tests)
example : (parseURI "sip:u@".toUTF8.data {}).1 = .host ∧ (parseURI "sip:u@".toUTF8.data {}).2.1 = 6 ∧
    (parseURI "sip:u@h:12x".toUTF8.data {}).1 = .port ∧ (parseURI "sip:u@h:12x".toUTF8.data {}).2.1 = 10 ∧
    (parseURI "http://x".toUTF8.data {}).1 = .scheme ∧ (parseURI "http://x".toUTF8.data {}).2.1 = 4 := by decide +kernel
-- NOT the offending byte: without '@' a non-digit behind `host:` is taken as the start of a password, and the
-- rejection comes at the end of the input (or at the next `;` `?`, as `ErrURIBadChar`)
example : (parseURI "sip:h:12x".toUTF8.data {}).1 = .port ∧ (parseURI "sip:h:12x".toUTF8.data {}).2.1 = 9 ∧
    (parseURI "sip:h:12x;y".toUTF8.data {}).1 = .badChar ∧ (parseURI "sip:h:12x;y".toUTF8.data {}).2.1 = 9 := by
  decide +kernel


/-! ### tel: the converse, by re-typing (the automaton never looks at the URI type before the very end) -/

def ucRetype (t' : Nat) (σ : UState) : UState := { σ with u := { σ.u with uriType := t' } }

def ucRetypeStep (t' : Nat) : UStep → UStep
  | .next σ => .next (ucRetype t' σ)
  | .fail e p σ => .fail e p (ucRetype t' σ)

theorem uc_step_retype (t' i : Nat) (c : UInt8) (σ : UState) :
    uriStep i c (ucRetype t' σ) = ucRetypeStep t' (uriStep i c σ) := by
  rcases σ with ⟨st, s, fu, po, pn, eh, u, pnc⟩
  by_cases hpo : (po != 0) = true <;> by_cases hbig : pn > 65535 <;> cases fu <;> cases st <;>
    simp only [uriStep, uAtInParams, ucRetype, UState.setHost, UState.setUser, UState.setPass,
      UState.setPort, UState.setParams, hpo, hbig, Bool.false_eq_true, ↓reduceIte, beq_self_eq_true,
      Bool.true_eq_false, beq_iff_eq, Bool.or_false, Bool.or_true, Bool.false_or, Bool.true_or] <;>
    (repeat' split) <;> rfl

theorem uc_loop_retype (t' : Nat) (b : Buf) (i : Nat) (σ : UState) :
    uriLoop b i (ucRetype t' σ) = ((uriLoop b i σ).1, (uriLoop b i σ).2.1, ucRetype t' (uriLoop b i σ).2.2) := by
  fun_induction uriLoop b i σ with
  | case1 i σ hb => rw [uc_loop_end hb]
  | case2 i σ c hb σ' hstep ih =>
    have : uriStep i c (ucRetype t' σ) = .next (ucRetype t' σ') := by rw [uc_step_retype, hstep]; rfl
    rw [uc_loop_next hb this, ih]
  | case3 i σ c hb e p σ' hstep =>
    have : uriStep i c (ucRetype t' σ) = .fail e p (ucRetype t' σ') := by rw [uc_step_retype, hstep]; rfl
    rw [uc_loop_fail hb this]

/-- the end-of-input switch for a tel: state and for the same state typed sip: same verdict; the tel report is the
    sip report with the host handed out as user -/
theorem uc_finish_retype (n : Nat) (σ : UState) (hty : σ.u.uriType = TELuri) :
    (uriFinish n σ).1 = (uriFinish n (ucRetype SIPuri σ)).1 ∧
    ((uriFinish n σ).1 = .none →
      (uriFinish n σ).2.2.u = telSwap { (uriFinish n (ucRetype SIPuri σ)).2.2.u with uriType := TELuri } ∧
      (uriFinish n σ).2.2.pnc = (uriFinish n (ucRetype SIPuri σ)).2.2.pnc) := by
  rcases σ with ⟨st, s, fu, po, pn, eh, u, pnc⟩
  rcases u with ⟨a1, a2, a3, a4, a5, a6, a7, a8, a9⟩
  simp only at hty
  subst hty
  cases st <;> cases fu <;> cases eh <;>
    simp +decide only [uriFinish, ucRetype, UState.setHost, UState.setPort, UState.setParams, UState.setHeaders,
      Bool.false_eq_true, ↓reduceIte, Bool.or_false, Bool.or_true, Bool.false_or, Bool.true_or, telSwap] <;>
    (repeat' split) <;> simp +decide [telSwap]

theorem uc_run_retype {b : Buf} {k : Nat} {σ : UState} (h : UInv b TELuri k k σ) (hacc : (ucRun b k σ).1 = .none) :
    (ucRun b k (ucRetype SIPuri σ)).1 = .none ∧
    (ucRun b k σ).2.2.1 = telSwap { (ucRun b k (ucRetype SIPuri σ)).2.2.1 with uriType := TELuri } := by
  have hl := uriLoop_ok k σ h
  revert hacc
  unfold ucRun
  rw [uc_loop_retype]
  rcases hq : uriLoop b k σ with ⟨e, i, σ'⟩
  rw [hq] at hl
  simp only at hl
  by_cases he : e = .none
  · subst he
    obtain ⟨_, hinv⟩ := hl.1 rfl
    have hty : σ'.u.uriType = TELuri := hinv.2.1
    obtain ⟨f1, f2⟩ := uc_finish_retype i σ' hty
    simp only
    intro hacc
    exact ⟨by rw [← f1]; exact hacc, (f2 hacc).1⟩
  · intro hacc
    exfalso
    apply he
    cases e <;> first | rfl | exact hacc

theorem UcComp.retype {b : Buf} {t t' k : Nat} {u : PsipURI} (h : UcComp b t k u) :
    UcComp b t' k { u with uriType := t' } := ⟨rfl, h.2.1, h.2.2⟩

/-- **EXPORT C14 — soundness of the grammar for tel:**: an accepted tel: text is a text of the grammar; the report
    is its decomposition with the host (the number) handed out as the user -/
theorem parseURI_sound_tel (b : Buf) (hfit : b.size ≤ 65535) (hacc : (parseURI b {}).1 = .none)
    (htel : (parseURI b {}).2.2.1.uriType = TELuri) :
    ∃ u, UcTelURI b u ∧ (parseURI b {}).2.2.1 = { u with user := u.host, host := {} } := by
  by_cases h5 : b.size < 5
  · rw [parseURI_err_short b h5] at hacc
    cases hacc
  obtain ⟨b0, h0⟩ : ∃ c, b[0]? = some c := ⟨b[0]'(by omega), Array.getElem?_eq_getElem (by omega)⟩
  obtain ⟨b1, g1⟩ : ∃ c, b[1]? = some c := ⟨b[1]'(by omega), Array.getElem?_eq_getElem (by omega)⟩
  obtain ⟨b2, g2⟩ : ∃ c, b[2]? = some c := ⟨b[2]'(by omega), Array.getElem?_eq_getElem (by omega)⟩
  obtain ⟨b3, g3⟩ : ∃ c, b[3]? = some c := ⟨b[3]'(by omega), Array.getElem?_eq_getElem (by omega)⟩
  obtain ⟨b4, g4⟩ : ∃ c, b[4]? = some c := ⟨b[4]'(by omega), Array.getElem?_eq_getElem (by omega)⟩
  have hunf := uc_parse_unfold h0 g1 g2 g3 g4
  have nontel : ∀ (t k : Nat) (st : US), (st = .initSIP ∨ st = .initSIPS ∨ st = .initTEL) → 0 < k → k ≤ b.size →
      t ≠ TELuri → (ucRun b k (ucStart t st k)).1 = .none → (ucRun b k (ucStart t st k)).2.2.1.uriType ≠ TELuri := by
    intro t k st hst hk hk2 ht ha
    rw [(ucRun_sound st hst hk hk2 hfit ht ha).1]
    exact ht
  by_cases c1 : ucWord b0 b1 b2 b3 = 980445555
  · rw [if_pos c1] at hunf
    rw [hunf] at hacc htel
    exact absurd htel (nontel SIPuri 4 .initSIP (Or.inl rfl) (by omega) (by omega) (by decide) hacc)
  rw [if_neg c1] at hunf
  by_cases c2 : ucWord b0 b1 b2 b3 = 980182388
  · rw [if_pos c2] at hunf
    rw [hunf] at hacc ⊢
    have hinv : UInv b TELuri 4 4 (ucStart TELuri .initTEL 4) :=
      uinv_start b TELuri 4 .initTEL (Or.inr (Or.inr rfl)) (by omega) (by omega) hfit
    obtain ⟨ha2, hu⟩ := uc_run_retype hinv hacc
    have hcomp := ucRun_sound (t := SIPuri) .initTEL (Or.inr (Or.inr rfl)) (by omega) (by omega) hfit (by decide) ha2
    refine ⟨{ (ucRun b 4 (ucStart SIPuri .initTEL 4)).2.2.1 with uriType := TELuri },
      ⟨⟨b0, b1, b2, b3, h0, g1, g2, g3,
        (ucWord_eq b0 b1 b2 b3 116 101 108 58 (by omega) (by omega) (by omega) (by omega)).mp c2⟩, hcomp.retype⟩, ?_⟩
    rw [hu]
    rfl
  rw [if_neg c2] at hunf
  by_cases c3 : ucWord b0 b1 b2 b3 = 1936746867 ∧ b4 = 58
  · rw [if_pos c3] at hunf
    rw [hunf] at hacc htel
    exact absurd htel (nontel SIPSuri 5 .initSIPS (Or.inr (Or.inl rfl)) (by omega) (by omega) (by decide) hacc)
  · rw [if_neg c3] at hunf
    rw [hunf] at hacc
    cases hacc

/-- **EXPORT C14 — which texts are accepted as tel:**: exactly the texts of the grammar behind `tel:` -/
theorem parseURI_tel_iff (b : Buf) (hfit : b.size ≤ 65535) :
    ((parseURI b {}).1 = .none ∧ (parseURI b {}).2.2.1.uriType = TELuri) ↔ ∃ u, UcTelURI b u := by
  constructor
  · intro ⟨hacc, ht⟩
    obtain ⟨u, hu, _⟩ := parseURI_sound_tel b hfit hacc ht
    exact ⟨u, hu⟩
  · intro ⟨u, hu⟩
    rw [parseURI_complete_tel b hfit u hu]
    exact ⟨rfl, hu.2.1⟩


-- tel: with user-info: accepted, hence a text of the grammar behind `tel:` (test / non-vacuity of `parseURI_tel_iff`)
example : ∃ u, UcTelURI "tel:a:b@c".toUTF8.data u :=
  (parseURI_tel_iff _ (by decide +kernel)).mp ⟨by decide +kernel, by decide +kernel⟩

-- the hypotheses of `parseURI_err_scheme` and `parseURI_err_empty_host` are met by concrete inputs
example : parseURI "http://x".toUTF8.data {} = (.scheme, 4, {}, false) :=
  parseURI_err_scheme _ (by decide +kernel)
    (by rintro ⟨b0, _, _, _, h0, _, _, _, hl, _⟩
        have e : some b0 = some (104 : UInt8) := h0.symm.trans (by decide +kernel)
        cases e
        exact absurd hl (by decide))
    (by rintro ⟨b0, _, _, _, h0, _, _, _, hl, _⟩
        have e : some b0 = some (104 : UInt8) := h0.symm.trans (by decide +kernel)
        cases e
        exact absurd hl (by decide))
    (by rintro ⟨⟨b0, _, _, _, h0, _, _, _, hl, _⟩, _⟩
        have e : some b0 = some (104 : UInt8) := h0.symm.trans (by decide +kernel)
        cases e
        exact absurd hl (by decide))
example : UcErrAt (parseURI "sip:u@".toUTF8.data {}) .host 6 :=
  parseURI_err_empty_host _ (by decide +kernel) (t := SIPuri) (k := 4) (hs := 6)
    (Or.inl ⟨rfl, rfl, 115, 105, 112, 58, by decide +kernel, by decide +kernel, by decide +kernel, by decide +kernel,
      by decide +kernel, by decide +kernel, by decide +kernel, by decide +kernel⟩)
    (Or.inr ⟨5, ⟨4, 1⟩, ⟨0, 0⟩, rfl, by decide +kernel,
      Or.inl ⟨5, ⟨by decide, ucAll_of_check (by decide +kernel), ucAll_of_check (by decide +kernel)⟩, rfl,
        Or.inl ⟨rfl, rfl⟩⟩⟩)
    (by decide) (Or.inl (by decide +kernel))


end Sipsp
