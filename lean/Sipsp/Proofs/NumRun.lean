/-
  Sipsp.Proofs.NumRun — run-level exactness of the numeric header values: when ParseUIntVal / ParseCLenVal /
  ParseCSeqVal succeed, the reported number is the decimal value of the digit string the reported field points to.
-/
import Sipsp.Proofs.Num
import Sipsp.Proofs.SafeVals

namespace Sipsp

theorem decFrom_snoc (n : Nat) (l : List UInt8) (c : UInt8) : decFrom n (l ++ [c]) = decFrom n l * 10 + dval c := by
  induction l generalizing n with
  | nil => simp [decFrom]
  | cons x xs ih => simp only [List.cons_append, decFrom_cons]; exact ih _

/-- the bytes at `[s, e)` as a list -/
def digitsOf (b : Buf) (s e : Nat) : List UInt8 := (b.extract s e).toList

theorem digitsOf_snoc (b : Buf) (s i : Nat) (c : UInt8) (hs : s ≤ i) (hb : b[i]? = some c) :
    digitsOf b s (i + 1) = digitsOf b s i ++ [c] := by
  have hlt := get?_lt hb
  unfold digitsOf
  rw [Array.extract_succ_right (by omega) hlt, Array.toList_push]
  congr 2
  have := Array.getElem?_eq_getElem hlt
  rw [this] at hb; exact Option.some.inj hb

theorem digitsOf_self (b : Buf) (i : Nat) : digitsOf b i i = [] := by
  unfold digitsOf; simp

theorem isDigit_B {c : UInt8} (h : isDigit c = true) : IsDigitB c := by
  simp only [isDigit, Bool.and_eq_true, decide_eq_true_eq] at h
  have h1 := h.1; have h2 := h.2
  rw [UInt8.le_iff_toNat_le] at h1 h2
  exact ⟨h1, h2⟩

/-- a finished (or value-complete) object: its field is a non-empty digit string and the number is its value -/
def NumDone (b : Buf) (fld : PField) (v : Nat) : Prop :=
  ∃ s e, fld = ⟨s, e - s⟩ ∧ s < e ∧ e ≤ b.size ∧ AllDigits (digitsOf b s e) ∧ v = decOf (digitsOf b s e)

structure ClNum (b : Buf) (i : Nat) (st : PUIntBody) : Prop where
  found : st.state = .found →
    st.soffs < i ∧ AllDigits (digitsOf b st.soffs i) ∧ st.uiVal = decOf (digitsOf b st.soffs i)
  done : (st.state = .fend ∨ st.state = .fin) → NumDone b st.sVal st.uiVal

theorem pfield_set_eq (s e : Nat) (hse : s ≤ e) (he : e ≤ 65535) : PField.set s e = ⟨s, e - s⟩ := by
  unfold PField.set trunc16
  rw [Nat.mod_eq_of_lt (by omega), Nat.mod_eq_of_lt (by omega)]

theorem clStep_num (b : Buf) (i : Nat) (c : UInt8) (st : PUIntBody) (hfit : b.size ≤ 65535) (hb : b[i]? = some c)
    (hi : i ≤ b.size) (h : ClNum b i st) :
    StepAll2 (fun n s => n ≤ b.size ∧ ClNum b n s) (fun _ e s => e = .ok → NumDone b s.sVal s.uiVal)
      (clStep b i c st) := by
  have hlt := get?_lt hb
  -- `lwsStd` from a state that is not in the middle of the digits
  have key : ∀ s1 : PUIntBody, s1.state ≠ .found → ClNum b i s1 →
      StepAll2 (fun n s => n ≤ b.size ∧ ClNum b n s) (fun _ e s => e = .ok → NumDone b s.sVal s.uiVal)
        (lwsStd b i s1 clEOH id) := by
    intro s1 hnf h1
    refine lwsStd_all2 b i s1 clEOH id _ _ hi (fun n _ a2 => ⟨a2, (fun hh => absurd hh hnf), h1.done⟩)
      (fun n _ _ hh => by cases hh) (fun n _ _ hh => by cases hh) (fun n crl _ _ _ => ?_)
    unfold clEOH
    cases hst : s1.state <;> simp only
    case fend => intro _; exact h1.done (Or.inl hst)
    case found => exact absurd hst hnf
    all_goals (intro hh; cases hh)
  unfold clStep
  by_cases hl : isLWSch c = true
  · simp only [hl, ↓reduceIte]
    cases hst : st.state <;> simp only
    case found =>
      obtain ⟨h1, h2, h3⟩ := h.found hst
      refine key _ (fun hh => by cases hh) ⟨(fun hh => by cases hh), fun _ => ?_⟩
      show NumDone b (PField.set st.soffs i) st.uiVal
      exact ⟨st.soffs, i, pfield_set_eq _ _ (by omega) (by omega), h1, hi, h2, h3⟩
    case fin => exact ⟨by omega, (fun hh => by rw [hst] at hh; cases hh), h.done⟩
    all_goals exact key st (by rw [hst]; decide) h
  · simp only [hl, Bool.false_eq_true, ↓reduceIte]
    by_cases hd : isDigit c = true
    · simp only [hd, ↓reduceIte]
      cases hst : st.state <;> simp only
      case init =>
        refine ⟨by omega, (fun _ => ⟨by show i < i + 1; omega, ?_, ?_⟩), (fun hh => by rcases hh with hh | hh <;> cases hh)⟩
        · show AllDigits (digitsOf b i (i + 1))
          rw [digitsOf_snoc b i i c (Nat.le_refl _) hb, digitsOf_self]
          intro x hx; simp at hx; subst hx; exact isDigit_B hd
        · show c.toNat - 48 = decOf (digitsOf b i (i + 1))
          rw [digitsOf_snoc b i i c (Nat.le_refl _) hb, digitsOf_self]
          simp [decOf, decFrom, dval_def]
      case found =>
        obtain ⟨h1, h2, h3⟩ := h.found hst
        split
        · intro hh; cases hh
        · refine ⟨by omega, (fun _ => ⟨by show st.soffs < i + 1; omega, ?_, ?_⟩), (fun hh => by rcases hh with hh | hh <;> cases hh)⟩
          · show AllDigits (digitsOf b st.soffs (i + 1))
            rw [digitsOf_snoc b st.soffs i c (by omega) hb]
            intro x hx
            rcases List.mem_append.mp hx with hx | hx
            · exact h2 x hx
            · simp at hx; subst hx; exact isDigit_B hd
          · show st.uiVal * 10 + (c.toNat - 48) = decOf (digitsOf b st.soffs (i + 1))
            rw [digitsOf_snoc b st.soffs i c (by omega) hb, decOf, decFrom_snoc, ← decOf, ← h3, dval_def]
      case fend => intro hh; cases hh
      case fin => exact ⟨by omega, (fun hh => by rw [hst] at hh; cases hh), h.done⟩
    · simp only [hd, Bool.false_eq_true, ↓reduceIte]
      intro hh; cases hh

/-- **ParseUIntVal (= ParseExpiresVal): on success the number is the decimal value of the reported digit string** -/
theorem parseUIntVal_exact (b : Buf) (o : Nat) (st : PUIntBody) (hfit : b.size ≤ 65535) (ho : o ≤ b.size)
    (h : ClNum b o st) {o' : Nat} {st' : PUIntBody} (hr : parseUIntVal b o st = (o', .ok, st')) :
    NumDone b st'.sVal st'.uiVal := by
  unfold parseUIntVal at hr
  split at hr
  · rename_i hf; cases hr; exact h.done (Or.inr hf)
  · have := runLoop_safe2 clMachine b (fun n s => n ≤ b.size ∧ ClNum b n s)
      (fun _ e s => e = .ok → NumDone b s.sVal s.uiVal) cl_progress
      (fun i c s hb hs => clStep_num b i c s hfit hb hs.1 hs.2) (fun i s _ hh => by cases hh) o st ⟨ho, h⟩
    rw [hr] at this
    exact this rfl

theorem ClNum_new (b : Buf) (o : Nat) : ClNum b o {} :=
  ⟨(fun hh => by cases hh), (fun hh => by rcases hh with hh | hh <;> cases hh)⟩

/-- … hence also ParseCLenVal -/
theorem parseCLenVal_exact (b : Buf) (o : Nat) (st : PUIntBody) (hfit : b.size ≤ 65535) (ho : o ≤ b.size)
    (h : ClNum b o st) {o' : Nat} {st' : PUIntBody} (hr : parseCLenVal b o st = (o', .ok, st')) :
    NumDone b st'.sVal st'.uiVal := by
  unfold parseCLenVal at hr
  rcases hp : parseUIntVal b o st with ⟨o1, e1, s1⟩
  rw [hp] at hr
  cases e1 <;> simp only at hr
  case ok =>
    split at hr
    · cases hr
    · cases hr; exact parseUIntVal_exact b o st hfit ho h hp
  all_goals cases hr

/-- the reported field really holds those digits -/
theorem NumDone.get {b : Buf} {fld : PField} {v : Nat} (h : NumDone b fld v) (hfit : b.size ≤ 65535) :
    ∃ d, fld.get? b = some d ∧ d.size ≥ 1 ∧ AllDigits d.toList ∧ v = decOf d.toList := by
  obtain ⟨s, e, rfl, h1, h2, h3, h4⟩ := h
  have := field_get?_some b ⟨s, e - s⟩ (by unfold PField.inside; simp only; omega) hfit
  obtain ⟨d, hd⟩ := this
  have hd' : d = b.extract s e := by
    unfold PField.get? PField.endT trunc16 at hd
    simp only at hd
    rw [Nat.mod_eq_of_lt (by omega)] at hd
    rw [if_pos ⟨by omega, by omega⟩] at hd
    have : s + (e - s) = e := by omega
    rw [this] at hd
    exact (Option.some.inj hd).symm
  subst hd'
  refine ⟨_, hd, by simp [Array.size_extract]; omega, h3, h4⟩

/-! ### CSeq number -/

structure CsNum (b : Buf) (i : Nat) (st : PCSeqBody) : Prop where
  found : st.state = .foundDigit →
    st.soffs < i ∧ AllDigits (digitsOf b st.soffs i) ∧ st.cseqNo = decOf (digitsOf b st.soffs i)
  done : (st.state ≠ .init ∧ st.state ≠ .foundDigit) → NumDone b st.cseq st.cseqNo

theorem csFinish_num (b : Buf) (st : PCSeqBody) (n crl : Nat) (h : NumDone b st.cseq st.cseqNo) :
    NumDone b (csFinish st b n crl).2.2.cseq (csFinish st b n crl).2.2.cseqNo := by
  unfold csFinish
  simp only
  split
  · exact h
  · split <;> exact h

theorem csStep_num (b : Buf) (i : Nat) (c : UInt8) (st : PCSeqBody) (hfit : b.size ≤ 65535) (hb : b[i]? = some c)
    (hi : i ≤ b.size) (h : CsNum b i st) :
    StepAll2 (fun n s => n ≤ b.size ∧ CsNum b n s) (fun _ e s => e = .ok → NumDone b s.cseq s.cseqNo)
      (csStep b i c st) := by
  have hlt := get?_lt hb
  have key : ∀ s1 : PCSeqBody, s1.state ≠ .foundDigit → CsNum b i s1 →
      StepAll2 (fun n s => n ≤ b.size ∧ CsNum b n s) (fun _ e s => e = .ok → NumDone b s.cseq s.cseqNo)
        (lwsStd b i s1 (csEOH b) id) := by
    intro s1 hnf h1
    refine lwsStd_all2 b i s1 (csEOH b) id _ _ hi (fun n _ a2 => ⟨a2, (fun hh => absurd hh hnf), h1.done⟩)
      (fun n _ _ hh => by cases hh) (fun n _ _ hh => by cases hh) (fun n crl _ _ _ => ?_)
    unfold csEOH
    cases hst : s1.state <;> simp only
    case fend => intro _; exact csFinish_num b s1 n crl (h1.done ⟨by rw [hst]; decide, by rw [hst]; decide⟩)
    case foundMethod =>
      intro _
      exact csFinish_num b (csSetMethod s1 i) n crl (h1.done ⟨by rw [hst]; decide, by rw [hst]; decide⟩)
    all_goals (intro hh; cases hh)
  have hkeep : ∀ x : PCSeqBody, x.cseq = st.cseq → x.cseqNo = st.cseqNo → x.state ≠ .init → x.state ≠ .foundDigit →
      (st.state ≠ .init ∧ st.state ≠ .foundDigit) → ∀ n, CsNum b n x := by
    intro x e1 e2 e3 e4 hs n
    exact ⟨fun hh => absurd hh e4, fun _ => by rw [e1, e2]; exact h.done hs⟩
  unfold csStep
  by_cases hl : isLWSch c = true
  · simp only [hl, ↓reduceIte]
    cases hst : st.state <;> simp only
    case foundDigit =>
      obtain ⟨h1, h2, h3⟩ := h.found hst
      refine key _ (fun hh => by cases hh) ⟨(fun hh => by cases hh), fun _ => ?_⟩
      show NumDone b (PField.set st.soffs i) st.cseqNo
      exact ⟨st.soffs, i, pfield_set_eq _ _ (by omega) (by omega), h1, hi, h2, h3⟩
    case foundMethod =>
      exact key { csSetMethod st i with state := .fend } (fun hh => by cases hh)
        (hkeep { csSetMethod st i with state := .fend } rfl rfl (fun hh => by cases hh) (fun hh => by cases hh)
          ⟨by rw [hst]; decide, by rw [hst]; decide⟩ i)
    case fin => exact ⟨by omega, (fun hh => by rw [hst] at hh; cases hh), h.done⟩
    all_goals exact key st (by rw [hst]; decide) h
  · simp only [hl, Bool.false_eq_true, ↓reduceIte]
    by_cases hd : isDigit c = true
    · simp only [hd, ↓reduceIte]
      cases hst : st.state <;> simp only
      case init =>
        refine ⟨by omega, (fun _ => ⟨by show i < i + 1; omega, ?_, ?_⟩), (fun hh => absurd rfl hh.2)⟩
        · show AllDigits (digitsOf b i (i + 1))
          rw [digitsOf_snoc b i i c (Nat.le_refl _) hb, digitsOf_self]
          intro x hx; simp at hx; subst hx; exact isDigit_B hd
        · show c.toNat - 48 = decOf (digitsOf b i (i + 1))
          rw [digitsOf_snoc b i i c (Nat.le_refl _) hb, digitsOf_self]
          simp [decOf, decFrom, dval_def]
      case foundDigit =>
        obtain ⟨h1, h2, h3⟩ := h.found hst
        split
        · intro hh; cases hh
        · refine ⟨by omega, (fun _ => ⟨by show st.soffs < i + 1; omega, ?_, ?_⟩), (fun hh => absurd rfl hh.2)⟩
          · show AllDigits (digitsOf b st.soffs (i + 1))
            rw [digitsOf_snoc b st.soffs i c (by omega) hb]
            intro x hx
            rcases List.mem_append.mp hx with hx | hx
            · exact h2 x hx
            · simp at hx; subst hx; exact isDigit_B hd
          · show st.cseqNo * 10 + (c.toNat - 48) = decOf (digitsOf b st.soffs (i + 1))
            rw [digitsOf_snoc b st.soffs i c (by omega) hb, decOf, decFrom_snoc, ← decOf, ← h3, dval_def]
      case endDigit =>
        exact ⟨by omega, hkeep { st with state := .foundMethod, soffs := i } rfl rfl (fun hh => by cases hh)
          (fun hh => by cases hh) ⟨by rw [hst]; decide, by rw [hst]; decide⟩ _⟩
      case foundMethod => exact ⟨by omega, (fun hh => by rw [hst] at hh; cases hh), h.done⟩
      case fend => intro hh; cases hh
      case fin => exact ⟨by omega, (fun hh => by rw [hst] at hh; cases hh), h.done⟩
    · simp only [hd, Bool.false_eq_true, ↓reduceIte]
      cases hst : st.state <;> simp only
      case endDigit =>
        exact ⟨by omega, hkeep { st with state := .foundMethod, soffs := i } rfl rfl (fun hh => by cases hh)
          (fun hh => by cases hh) ⟨by rw [hst]; decide, by rw [hst]; decide⟩ _⟩
      case foundMethod => exact ⟨by omega, (fun hh => by rw [hst] at hh; cases hh), h.done⟩
      case fin => exact ⟨by omega, (fun hh => by rw [hst] at hh; cases hh), h.done⟩
      all_goals (intro hh; cases hh)

/-- **ParseCSeqVal: on success the CSeq number is the decimal value of the reported digit string** -/
theorem parseCSeqVal_exact (b : Buf) (o : Nat) (st : PCSeqBody) (hfit : b.size ≤ 65535) (ho : o ≤ b.size)
    (h : CsNum b o st) (hni : st.state = .fin → NumDone b st.cseq st.cseqNo)
    {o' : Nat} {st' : PCSeqBody} (hr : parseCSeqVal b o st = (o', .ok, st')) :
    NumDone b st'.cseq st'.cseqNo := by
  unfold parseCSeqVal at hr
  split at hr
  · rename_i hf; cases hr; exact hni hf
  · have := runLoop_safe2 csMachine b (fun n s => n ≤ b.size ∧ CsNum b n s)
      (fun _ e s => e = .ok → NumDone b s.cseq s.cseqNo) cs_progress
      (fun i c s hb hs => csStep_num b i c s hfit hb hs.1 hs.2) (fun i s _ hh => by cases hh) o st ⟨ho, h⟩
    rw [hr] at this
    exact this rfl

theorem CsNum_new (b : Buf) (o : Nat) : CsNum b o {} :=
  ⟨(fun hh => by cases hh), (fun hh => absurd rfl hh.1)⟩

end Sipsp
