/-
  Sipsp.Proofs.HdrSpec — a grammar of header lines (name, optional white space, colon, linear white space with folds,
  value tokens, line end in any of the three accepted forms) and the proof that ParseHdrLine decomposes every line of
  that grammar exactly as written.
-/
import Sipsp.Proofs.FLineSpec
import Sipsp.Proofs.HeadersL2
import Sipsp.Proofs.CapacityMsg

namespace Sipsp

/-! ### lexical layer -/

/-- a line end at `p`: CR LF, a lone CR or a lone LF; `e` is the offset after it (the byte after it is present:
    the parser has to look at it to tell a folded line from the end of the header) -/
inductive Eol (b : Buf) : Nat → Nat → Prop
  | crlf (p : Nat) : b[p]? = some 13 → b[p + 1]? = some 10 → Eol b p (p + 2)
  | cr (p : Nat) (c : UInt8) : b[p]? = some 13 → b[p + 1]? = some c → c ≠ 10 → Eol b p (p + 1)
  | lf (p : Nat) (c : UInt8) : b[p]? = some 10 → b[p + 1]? = some c → Eol b p (p + 1)

theorem Eol.skipCRLF {b : Buf} {p e : Nat} (h : Eol b p e) : skipCRLF b p = (e, e - p, .ok) := by
  cases h with
  | crlf h0 h1 => unfold Sipsp.skipCRLF; rw [h1, h0]; simp
  | cr c h0 h1 hc =>
    unfold Sipsp.skipCRLF; rw [h1, h0]
    have : (c == 10) = false := by simpa using hc
    simp [this]
  | lf c h0 h1 => unfold Sipsp.skipCRLF; rw [h1, h0]; simp

theorem Eol.first {b : Buf} {p e : Nat} (h : Eol b p e) :
    ∃ c, b[p]? = some c ∧ isWS c = false ∧ isCRLFch c = true ∧ isLWSch c = true := by
  cases h with
  | crlf h0 h1 => exact ⟨13, h0, by decide, by decide, by decide⟩
  | cr c h0 h1 hc => exact ⟨13, h0, by decide, by decide, by decide⟩
  | lf c h0 h1 => exact ⟨10, h0, by decide, by decide, by decide⟩

theorem Eol.gt {b : Buf} {p e : Nat} (h : Eol b p e) : p < e ∧ e ≤ p + 2 := by
  cases h <;> omega

/-- linear white space from `i` to `n`: spaces / tabs and folds (a line end followed by a space or tab) -/
inductive Lws (b : Buf) : Nat → Nat → Prop
  | nil (i : Nat) : Lws b i i
  | ws (i n : Nat) (c : UInt8) : b[i]? = some c → isWS c = true → Lws b (i + 1) n → Lws b i n
  | fold (i e n : Nat) (c2 : UInt8) : Eol b i e → b[e]? = some c2 → isWS c2 = true → Lws b (e + 1) n → Lws b i n

theorem Lws.le {b : Buf} {i n : Nat} (h : Lws b i n) : i ≤ n := by
  induction h with
  | nil i => exact Nat.le_refl _
  | ws i n c _ _ _ ih => omega
  | fold i e n c2 he _ _ _ ih => have := he.gt; omega

/-- the first byte of a non-empty stretch of linear white space is a white-space or line-end byte -/
theorem Lws.first {b : Buf} {i n : Nat} (h : Lws b i n) (hlt : i < n) : ∃ c, b[i]? = some c ∧ isLWSch c = true := by
  cases h with
  | nil i => omega
  | ws i n c hc hw _ =>
    refine ⟨c, hc, ?_⟩
    unfold isWS at hw; unfold isLWSch
    simp only [Bool.or_eq_true] at hw ⊢
    rcases hw with hw | hw
    · exact Or.inl (Or.inl (Or.inl hw))
    · exact Or.inl (Or.inl (Or.inr hw))
  | fold i e n c2 he _ _ _ => obtain ⟨c, h1, _, _, h4⟩ := he.first; exact ⟨c, h1, h4⟩

theorem lws_split {c : UInt8} (h : isLWSch c = false) : isWS c = false ∧ isCRLFch c = false := by
  unfold isLWSch at h; unfold isWS isCRLFch
  simp only [Bool.or_eq_false_iff] at h ⊢
  exact ⟨⟨h.1.1.1, h.1.1.2⟩, ⟨h.1.2, h.2⟩⟩

/-- skipLWS skips exactly the linear white space in front of a byte that is not white space / line end -/
theorem skipLWS_of_lws {b : Buf} {i n : Nat} (h : Lws b i n) {c : UInt8} (hn : b[n]? = some c)
    (hc : isLWSch c = false) : skipLWS b i 0 = (n, 0, .ok) := by
  induction h with
  | nil i => exact skipLWS_other hn (lws_split hc).1 (lws_split hc).2
  | ws i n c1 h1 hw _ ih => rw [skipLWS_ws h1 hw]; exact ih hn
  | fold i e n c2 he h2 hw2 _ ih =>
    obtain ⟨c0, h0, hw0, hcr0, _⟩ := he.first
    rw [skipLWS_crlf_ws h0 hw0 hcr0 he.skipCRLF h2 hw2]; exact ih hn

/-- … and reports the end of the header when the white space is followed by a line end that is not a fold -/
theorem skipLWS_of_lws_eol {b : Buf} {i p e : Nat} (h : Lws b i p) (he : Eol b p e) {c2 : UInt8}
    (h2 : b[e]? = some c2) (hw2 : isWS c2 = false) : skipLWS b i 0 = (p, e - p, .eoh) := by
  induction h with
  | nil i =>
    obtain ⟨c0, h0, hw0, hcr0, _⟩ := he.first
    exact skipLWS_crlf_eoh h0 hw0 hcr0 he.skipCRLF h2 hw2
  | ws i n c1 h1 hw _ ih => rw [skipLWS_ws h1 hw]; exact ih he
  | fold i e' n c3 he' h3 hw3 _ ih =>
    obtain ⟨c0, h0, hw0, hcr0, _⟩ := he'.first
    rw [skipLWS_crlf_ws h0 hw0 hcr0 he'.skipCRLF h3 hw3]; exact ih he

/-- the bytes at `[i, j)` are present, none is white space, a line end or the delimiter -/
def NameRun (b : Buf) (i j : Nat) : Prop :=
  ∀ k, i ≤ k → k < j → ∃ c, b[k]? = some c ∧ isLWSch c = false ∧ c ≠ 58

/-- the bytes at `[i, j)` are spaces or tabs -/
def WsRun (b : Buf) (i j : Nat) : Prop := ∀ k, i ≤ k → k < j → ∃ c, b[k]? = some c ∧ isWS c = true

theorem skipTokenDelim_run (b : Buf) (i j : Nat) (hij : i ≤ j) (hr : NameRun b i j) {c : UInt8}
    (hj : b[j]? = some c) (hc : isLWSch c = true ∨ c = 58) : skipTokenDelim b i 58 = j := by
  induction hk : j - i generalizing i with
  | zero =>
    have : i = j := by omega
    subst this
    exact skipTokenDelim_eq_self hj (by rcases hc with hc | hc <;> simp [hc])
  | succ k ih =>
    obtain ⟨c1, h1, h2, h3⟩ := hr i (Nat.le_refl _) (by omega)
    rw [skipTokenDelim_step h1 (by simp [h2, h3])]
    exact ih (i + 1) (by omega) (fun k' hk1 hk2 => hr k' (by omega) hk2) (by omega)

theorem skipWS_run (b : Buf) (i j : Nat) (hij : i ≤ j) (hr : WsRun b i j) {c : UInt8}
    (hj : b[j]? = some c) (hc : isWS c = false) : skipWS b i = j := by
  induction hk : j - i generalizing i with
  | zero =>
    have : i = j := by omega
    subst this
    exact skipWS_eq_self hj hc
  | succ k ih =>
    obtain ⟨c1, h1, h2⟩ := hr i (Nat.le_refl _) (by omega)
    rw [skipWS_step h1 h2]
    exact ih (i + 1) (by omega) (fun k' hk1 hk2 => hr k' (by omega) hk2) (by omega)

/-! ### the value -/

/-- the value of a header: tokens separated by linear white space (folds included); `v` is its first byte, `ve` the
    end of its last token, `p` the position of the line end that finishes the header -/
inductive ValRun (b : Buf) : Nat → Nat → Nat → Prop
  | last (v j p : Nat) : TokenRun b v j → v < j → Lws b j p → ValRun b v j p
  | cons (v j v2 ve p : Nat) (c : UInt8) : TokenRun b v j → v < j → Lws b j v2 → j < v2 → b[v2]? = some c →
      isLWSch c = false → ValRun b v2 ve p → ValRun b v ve p

theorem extend_eq (f : PField) (e : Nat) (h1 : f.offs ≤ e) (h2 : e ≤ 65535) : f.extend e = ⟨f.offs, e - f.offs⟩ := by
  unfold PField.extend trunc16
  congr 1
  omega

theorem ValRun.bounds {b : Buf} {v ve p : Nat} (h : ValRun b v ve p) : v < ve ∧ ve ≤ p := by
  induction h with
  | last v j p _ h1 h2 => exact ⟨h1, h2.le⟩
  | cons v j v2 ve p c _ h1 h2 h3 _ _ _ ih => have := h2.le; omega

/-- the token `[v, j)` followed by white space / a line end: what the `hVal` state does from `v+1` -/
theorem hl_token (b : Buf) (hb : Option PHdrVals) (v j : Nat) (ht : TokenRun b v j) (hvj : v < j) {cj : UInt8}
    (hj : b[j]? = some cj) (hcj : isLWSch cj = true) (h : Hdr) (hst : h.state = .val) (hvo : h.val.offs ≤ v)
    (hp : h.pnc = false) (hfit : b.size ≤ 65535) :
    ∃ c, b[v + 1]? = some c ∧
      hlStep b (v + 1) c (h, hb) =
        hlValEnd b j { h with val := ⟨h.val.offs, j - h.val.offs⟩, state := .valEnd } hb := by
  have hjl := get?_lt hj
  have hsk : skipToken b (v + 1) = j :=
    skipToken_run b (v + 1) j (by omega) (fun k h1 h2 => ht k (by omega) h2) hj hcj
  have hc1 : ∃ c, b[v + 1]? = some c := by
    by_cases h1 : v + 1 < j
    · obtain ⟨c, hc, _⟩ := ht (v + 1) (by omega) h1; exact ⟨c, hc⟩
    · have : v + 1 = j := by omega
      rw [this]; exact ⟨cj, hj⟩
  obtain ⟨c, hc⟩ := hc1
  refine ⟨c, hc, ?_⟩
  unfold hlStep
  simp only [hst]
  rw [hsk, hj]
  simp only
  have hxp : h.val.extendPanics j = false := by unfold PField.extendPanics; simp; omega
  rw [extend_eq h.val j (by omega) (by omega), hp, hxp]
  rfl

/-- **the value loop**: from the second byte of the value, in state `hVal`, the loop walks over all tokens and folds
    and finishes at the line end with the value extended to the end of the last token -/
theorem hl_val_run (b : Buf) (hb : Option PHdrVals) {v ve p : Nat} (H : ValRun b v ve p) {e : Nat} (he : Eol b p e)
    {c2 : UInt8} (h2 : b[e]? = some c2) (hw2 : isWS c2 = false) (hfit : b.size ≤ 65535) :
    ∀ (h : Hdr), h.state = .val → h.val.offs ≤ v → h.pnc = false →
      runLoop hlMachine b (v + 1) (h, hb) =
        (e, .ok, ({ h with val := ⟨h.val.offs, ve - h.val.offs⟩, state := .fin }, hb)) := by
  induction H with
  | last v j p ht hvj hl =>
    intro h hst hvo hp
    have hjp := hl.le
    have hj : ∃ cj, b[j]? = some cj ∧ isLWSch cj = true := by
      by_cases h1 : j < p
      · exact hl.first h1
      · have : j = p := by omega
        subst this
        obtain ⟨c0, h0, _, _, h4⟩ := he.first; exact ⟨c0, h0, h4⟩
    obtain ⟨cj, hj, hcj⟩ := hj
    obtain ⟨c, hc, hstep⟩ := hl_token b hb v j ht hvj hj hcj h hst hvo hp hfit
    have hgt := he.gt
    refine runLoop_done hlMachine hc ?_
    change hlStep b (v + 1) c (h, hb) = _
    rw [hstep]
    unfold hlValEnd
    rw [skipLWS_of_lws_eol hl he h2 hw2]
    simp only
    have : p + (e - p) = e := by omega
    rw [this]
  | cons v j v2 ve p c3 ht hvj hl hjv hc3 hl3 _ ih =>
    intro h hst hvo hp
    obtain ⟨cj, hj, hcj⟩ := hl.first hjv
    obtain ⟨c, hc, hstep⟩ := hl_token b hb v j ht hvj hj hcj h hst hvo hp hfit
    have hcont : hlStep b (v + 1) c (h, hb) =
        .cont (v2 + 1) ({ h with val := ⟨h.val.offs, j - h.val.offs⟩, state := .val }, hb) := by
      rw [hstep]
      unfold hlValEnd
      rw [skipLWS_of_lws hl hc3 hl3]
    rw [runLoop_cont hlMachine hc (by exact hcont), if_pos (by omega)]
    have := ih he { h with val := ⟨h.val.offs, j - h.val.offs⟩, state := .val } rfl (by show h.val.offs ≤ v2; omega) hp
    rw [this]

/-! ### the whole line -/

/-- header types whose value is not handed to a dedicated value parser -/
def IsOther (t : Nat) : Prop :=
  t ≠ HdrFrom ∧ t ≠ HdrTo ∧ t ≠ HdrCallID ∧ t ≠ HdrCSeq ∧ t ≠ HdrCLen ∧ t ≠ HdrContact ∧ t ≠ HdrExpires ∧ t ≠ HdrPAI

/-- the generic treatment: no values object, or a header type without a dedicated value parser -/
theorem parseBody_generic (b : Buf) (o : Nat) (h : Hdr) (hb : Option PHdrVals) (hg : hb = none ∨ IsOther h.type) :
    parseBody b o h hb = (o, .ok, h, hb) := by
  unfold parseBody
  cases hb with
  | none => rfl
  | some hv =>
    rcases hg with hg | hg
    · cases hg
    · obtain ⟨h1, h2, h3, h4, h5, h6, h7, h8⟩ := hg
      have e1 : (h.type == HdrFrom) = false := by simpa using h1
      have e2 : (h.type == HdrTo) = false := by simpa using h2
      have e3 : (h.type == HdrCallID) = false := by simpa using h3
      have e4 : (h.type == HdrCSeq) = false := by simpa using h4
      have e5 : (h.type == HdrCLen) = false := by simpa using h5
      have e6 : (h.type == HdrContact) = false := by simpa using h6
      have e7 : (h.type == HdrExpires) = false := by simpa using h7
      have e8 : (h.type == HdrPAI) = false := by simpa using h8
      simp only [e1, e2, e3, e4, e5, e6, e7, e8, Bool.false_eq_true, ↓reduceIte]

theorem ValRun.first {b : Buf} {v ve p : Nat} (h : ValRun b v ve p) : ∃ c, b[v]? = some c ∧ isLWSch c = false := by
  cases h with
  | last v j p ht hvj _ => exact ht v (Nat.le_refl _) hvj
  | cons v j v2 ve p c ht hvj _ _ _ _ _ => exact ht v (Nat.le_refl _) hvj

/-- the header object at the various points of a line: type, name `[o, n)`, value, state -/
def hdrAt (t o n : Nat) (v : PField) (st : HState) : Hdr := { type := t, name := ⟨o, n - o⟩, val := v, state := st }

/-- after the colon: classification of the name, generic dispatch, and on to the value -/
theorem hlAfterColon_spec (b : Buf) (o n i : Nat) (hb : Option PHdrVals) (hon : o < n) (hn : n ≤ b.size)
    (hfit : b.size ≤ 65535) (hg : hb = none ∨ IsOther (getHdrType (b.extract o n))) :
    hlAfterColon b i (hdrAt 0 o n {} .bodyStart) hb =
      .cont i (hdrAt (getHdrType (b.extract o n)) o n {} .bodyStart, hb) := by
  unfold hlAfterColon hdrAt
  have hget : PField.get? b ⟨o, n - o⟩ = some (b.extract o n) := by
    have := field_get? b o (n - o) (by omega) hfit
    rw [this]; congr 2; omega
  simp only [hget]
  rw [parseBody_generic b i _ hb hg]
  rfl

/-- **ParseHdrLine decomposes a header line as written**: name `[o, n)`, optional spaces / tabs up to the colon at
    `c`, linear white space (folds included), a value of one or more tokens starting at `v` whose last token ends at
    `ve`, optional white space, and a line end at `p` (CR LF, lone CR or lone LF, the next byte not being a space or
    tab). The parser reports the name, the value from its first to its last non-white-space byte, the type of the
    name, and the offset after the line end. -/
theorem parseHdrLine_spec (b : Buf) (o n c v ve p e : Nat) (hb : Option PHdrVals) (hfit : b.size ≤ 65535)
    (hname : NameRun b o n) (hon : o < n) (hws : WsRun b n c) (hnc : n ≤ c) (hcolon : b[c]? = some 58)
    (hlws : Lws b (c + 1) v) (hval : ValRun b v ve p) (he : Eol b p e) {c2 : UInt8} (h2 : b[e]? = some c2)
    (hw2 : isWS c2 = false) (hg : hb = none ∨ IsOther (getHdrType (b.extract o n))) :
    parseHdrLine b o {} hb =
      (e, .ok, hdrAt (getHdrType (b.extract o n)) o n ⟨v, ve - v⟩ .fin, hb) := by
  have hcl := get?_lt hcolon
  have hcv := hlws.le
  obtain ⟨cv, hv, hcvl⟩ := hval.first
  have hvl := get?_lt hv
  -- the first byte of the name
  obtain ⟨c0, h0, hl0, _⟩ := hname o (Nat.le_refl _) hon
  have hc013 : (c0 == 13) = false := by
    unfold isLWSch at hl0; simp only [Bool.or_eq_false_iff] at hl0; exact hl0.1.2
  have hc010 : (c0 == 10) = false := by
    unfold isLWSch at hl0; simp only [Bool.or_eq_false_iff] at hl0; exact hl0.2
  -- the byte that ends the name
  have hnend : ∃ cn, b[n]? = some cn ∧ ((isWS cn = true ∧ n < c) ∨ (cn = 58 ∧ n = c)) := by
    by_cases h1 : n < c
    · obtain ⟨cn, hcn, hw⟩ := hws n (Nat.le_refl _) h1; exact ⟨cn, hcn, Or.inl ⟨hw, h1⟩⟩
    · have : n = c := by omega
      exact ⟨58, by rw [this]; exact hcolon, Or.inr ⟨rfl, this⟩⟩
  obtain ⟨cn, hcn, hcase⟩ := hnend
  have hstop : isLWSch cn = true ∨ cn = 58 := by
    rcases hcase with ⟨hw, _⟩ | ⟨h58, _⟩
    · left
      unfold isWS at hw; unfold isLWSch
      simp only [Bool.or_eq_true] at hw ⊢
      rcases hw with hw | hw
      · exact Or.inl (Or.inl (Or.inl hw))
      · exact Or.inl (Or.inl (Or.inr hw))
    · exact Or.inr h58
  have hsk : skipTokenDelim b o 58 = n := skipTokenDelim_run b o n (by omega) hname hcn hstop
  have hnm : (PField.set o o).extend n = ⟨o, n - o⟩ := set_extend o n (by omega) (by omega)
  have hxp : (PField.set o o).extendPanics n = false := by
    unfold PField.extendPanics PField.set trunc16; simp; have := Nat.mod_le o 65536; omega
  have hne : (({ offs := o, len := n - o } : PField).isEmpty) = false := by
    unfold PField.isEmpty; simp; omega
  -- the state after the colon
  have hafter := hlAfterColon_spec b o n (c + 1) hb hon (by omega) hfit hg
  -- the value part, from the byte after the colon
  have hrest : runLoop hlMachine b (c + 1) (hdrAt (getHdrType (b.extract o n)) o n {} .bodyStart, hb) =
      (e, .ok, hdrAt (getHdrType (b.extract o n)) o n ⟨v, ve - v⟩ .fin, hb) := by
    have hc1 : ∃ x, b[c + 1]? = some x := by
      by_cases h1 : c + 1 < v
      · obtain ⟨x, hx, _⟩ := hlws.first h1; exact ⟨x, hx⟩
      · have : c + 1 = v := by omega
        rw [this]; exact ⟨cv, hv⟩
    obtain ⟨x, hx⟩ := hc1
    have hstep : hlStep b (c + 1) x (hdrAt (getHdrType (b.extract o n)) o n {} .bodyStart, hb) =
        .cont (v + 1) (hdrAt (getHdrType (b.extract o n)) o n (PField.set v v) .val, hb) := by
      unfold hlStep hdrAt
      simp only
      rw [skipLWS_of_lws hlws hv hcvl]
    rw [runLoop_cont hlMachine hx (by exact hstep), if_pos (by omega)]
    have hoffs : (PField.set v v).offs = v := by unfold PField.set; exact trunc16_id (by omega)
    have := hl_val_run b hb hval he h2 hw2 hfit (hdrAt (getHdrType (b.extract o n)) o n (PField.set v v) .val) rfl
      (by show (PField.set v v).offs ≤ v; rw [hoffs]; exact Nat.le_refl _) rfl
    rw [this]
    show (e, Err.ok, hdrAt (getHdrType (b.extract o n)) o n ⟨(PField.set v v).offs, ve - (PField.set v v).offs⟩ .fin, hb) = _
    rw [hoffs]
  unfold parseHdrLine
  -- the name
  rcases hcase with ⟨hw, hlt⟩ | ⟨h58, heq⟩
  · -- white space before the colon
    have hw58 : (cn == 58) = false := by
      unfold isWS at hw; simp only [Bool.or_eq_true, beq_iff_eq] at hw
      rcases hw with hw | hw <;> (rw [hw]; decide)
    have hstep1 : hlStep b o c0 (({} : Hdr), hb) = .cont (n + 1) (hdrAt 0 o n {} .nameEnd, hb) := by
      unfold hlStep hdrAt
      simp only [hc013, hc010, Bool.false_eq_true, ↓reduceIte]
      unfold hlName
      simp only [hsk, hcn, hw, ↓reduceIte, hnm, hxp, hne, Bool.false_eq_true, Bool.or_self]
    rw [runLoop_cont hlMachine h0 (by exact hstep1), if_pos (by omega)]
    have hn1 : ∃ y, b[n + 1]? = some y := by
      by_cases h1 : n + 1 < c
      · obtain ⟨y, hy, _⟩ := hws (n + 1) (by omega) h1; exact ⟨y, hy⟩
      · have : n + 1 = c := by omega
        rw [this]; exact ⟨58, hcolon⟩
    obtain ⟨y, hy⟩ := hn1
    have hskw : skipWS b (n + 1) = c :=
      skipWS_run b (n + 1) c (by omega) (fun k h1 h2 => hws k (by omega) h2) hcolon (by decide)
    have hstep2 : hlStep b (n + 1) y (hdrAt 0 o n {} .nameEnd, hb) =
        .cont (c + 1) (hdrAt (getHdrType (b.extract o n)) o n {} .bodyStart, hb) := by
      unfold hlStep
      show (match (hdrAt 0 o n {} .nameEnd).state with | _ => _) = _
      unfold hdrAt
      simp only [hskw, hcolon, beq_self_eq_true, ↓reduceIte]
      exact hafter
    rw [runLoop_cont hlMachine hy (by exact hstep2), if_pos (by omega), hrest]
  · -- the colon right after the name
    subst heq
    subst h58
    have hstep1 : hlStep b o c0 (({} : Hdr), hb) =
        .cont (n + 1) (hdrAt (getHdrType (b.extract o n)) o n {} .bodyStart, hb) := by
      unfold hlStep
      simp only [hc013, hc010, Bool.false_eq_true, ↓reduceIte]
      unfold hlName
      have hw58 : isWS (58 : UInt8) = false := by decide
      simp only [hsk, hcn, hw58, beq_self_eq_true, ↓reduceIte, hnm, hxp, hne, Bool.false_eq_true, Bool.or_self]
      exact hafter
    rw [runLoop_cont hlMachine h0 (by exact hstep1), if_pos (by omega), hrest]

/-- … and a header with an empty value: after the colon only linear white space up to the line end; the value is
    reported as not set -/
theorem parseHdrLine_spec_empty (b : Buf) (o n c p e : Nat) (hb : Option PHdrVals) (hfit : b.size ≤ 65535)
    (hname : NameRun b o n) (hon : o < n) (hws : WsRun b n c) (hnc : n ≤ c) (hcolon : b[c]? = some 58)
    (hlws : Lws b (c + 1) p) (he : Eol b p e) {c2 : UInt8} (h2 : b[e]? = some c2)
    (hw2 : isWS c2 = false) (hg : hb = none ∨ IsOther (getHdrType (b.extract o n))) :
    parseHdrLine b o {} hb = (e, .ok, hdrAt (getHdrType (b.extract o n)) o n {} .fin, hb) := by
  have hcl := get?_lt hcolon
  have hcv := hlws.le
  obtain ⟨cp, hp, _, _, hpl⟩ := he.first
  obtain ⟨c0, h0, hl0, _⟩ := hname o (Nat.le_refl _) hon
  have hc013 : (c0 == 13) = false := by
    unfold isLWSch at hl0; simp only [Bool.or_eq_false_iff] at hl0; exact hl0.1.2
  have hc010 : (c0 == 10) = false := by
    unfold isLWSch at hl0; simp only [Bool.or_eq_false_iff] at hl0; exact hl0.2
  have hnend : ∃ cn, b[n]? = some cn ∧ ((isWS cn = true ∧ n < c) ∨ (cn = 58 ∧ n = c)) := by
    by_cases h1 : n < c
    · obtain ⟨cn, hcn, hw⟩ := hws n (Nat.le_refl _) h1; exact ⟨cn, hcn, Or.inl ⟨hw, h1⟩⟩
    · have : n = c := by omega
      exact ⟨58, by rw [this]; exact hcolon, Or.inr ⟨rfl, this⟩⟩
  obtain ⟨cn, hcn, hcase⟩ := hnend
  have hstop : isLWSch cn = true ∨ cn = 58 := by
    rcases hcase with ⟨hw, _⟩ | ⟨h58, _⟩
    · left
      unfold isWS at hw; unfold isLWSch
      simp only [Bool.or_eq_true] at hw ⊢
      rcases hw with hw | hw
      · exact Or.inl (Or.inl (Or.inl hw))
      · exact Or.inl (Or.inl (Or.inr hw))
    · exact Or.inr h58
  have hsk : skipTokenDelim b o 58 = n := skipTokenDelim_run b o n (by omega) hname hcn hstop
  have hnm : (PField.set o o).extend n = ⟨o, n - o⟩ := set_extend o n (by omega) (by omega)
  have hxp : (PField.set o o).extendPanics n = false := by
    unfold PField.extendPanics PField.set trunc16; simp; have := Nat.mod_le o 65536; omega
  have hne : (({ offs := o, len := n - o } : PField).isEmpty) = false := by
    unfold PField.isEmpty; simp; omega
  have hafter := hlAfterColon_spec b o n (c + 1) hb hon (by omega) hfit hg
  have hgt := he.gt
  have hrest : runLoop hlMachine b (c + 1) (hdrAt (getHdrType (b.extract o n)) o n {} .bodyStart, hb) =
      (e, .ok, hdrAt (getHdrType (b.extract o n)) o n {} .fin, hb) := by
    have hc1 : ∃ x, b[c + 1]? = some x := by
      by_cases h1 : c + 1 < p
      · obtain ⟨x, hx, _⟩ := hlws.first h1; exact ⟨x, hx⟩
      · have : c + 1 = p := by omega
        rw [this]; exact ⟨cp, hp⟩
    obtain ⟨x, hx⟩ := hc1
    refine runLoop_done hlMachine hx ?_
    show hlStep b (c + 1) x (hdrAt (getHdrType (b.extract o n)) o n {} .bodyStart, hb) = _
    unfold hlStep hdrAt
    simp only
    rw [skipLWS_of_lws_eol hlws he h2 hw2]
    simp only
    have : p + (e - p) = e := by omega
    rw [this]
  unfold parseHdrLine
  rcases hcase with ⟨hw, hlt⟩ | ⟨h58, heq⟩
  · have hstep1 : hlStep b o c0 (({} : Hdr), hb) = .cont (n + 1) (hdrAt 0 o n {} .nameEnd, hb) := by
      unfold hlStep hdrAt
      simp only [hc013, hc010, Bool.false_eq_true, ↓reduceIte]
      unfold hlName
      simp only [hsk, hcn, hw, ↓reduceIte, hnm, hxp, hne, Bool.false_eq_true, Bool.or_self]
    rw [runLoop_cont hlMachine h0 (by exact hstep1), if_pos (by omega)]
    have hn1 : ∃ y, b[n + 1]? = some y := by
      by_cases h1 : n + 1 < c
      · obtain ⟨y, hy, _⟩ := hws (n + 1) (by omega) h1; exact ⟨y, hy⟩
      · have : n + 1 = c := by omega
        rw [this]; exact ⟨58, hcolon⟩
    obtain ⟨y, hy⟩ := hn1
    have hskw : skipWS b (n + 1) = c :=
      skipWS_run b (n + 1) c (by omega) (fun k h1 h2 => hws k (by omega) h2) hcolon (by decide)
    have hstep2 : hlStep b (n + 1) y (hdrAt 0 o n {} .nameEnd, hb) =
        .cont (c + 1) (hdrAt (getHdrType (b.extract o n)) o n {} .bodyStart, hb) := by
      unfold hlStep
      show (match (hdrAt 0 o n {} .nameEnd).state with | _ => _) = _
      unfold hdrAt
      simp only [hskw, hcolon, beq_self_eq_true, ↓reduceIte]
      exact hafter
    rw [runLoop_cont hlMachine hy (by exact hstep2), if_pos (by omega), hrest]
  · subst heq
    subst h58
    have hstep1 : hlStep b o c0 (({} : Hdr), hb) =
        .cont (n + 1) (hdrAt (getHdrType (b.extract o n)) o n {} .bodyStart, hb) := by
      unfold hlStep
      simp only [hc013, hc010, Bool.false_eq_true, ↓reduceIte]
      unfold hlName
      have hw58 : isWS (58 : UInt8) = false := by decide
      simp only [hsk, hcn, hw58, beq_self_eq_true, ↓reduceIte, hnm, hxp, hne, Bool.false_eq_true, Bool.or_self]
      exact hafter
    rw [runLoop_cont hlMachine h0 (by exact hstep1), if_pos (by omega), hrest]

/-! ### the header block -/

/-- a well-formed header line at `[o, e)` and the header it denotes (with a value, or with an empty value) -/
def HdrLineAt (b : Buf) (o e : Nat) (h : Hdr) : Prop :=
  (∃ n c v ve p, ∃ c2 : UInt8, NameRun b o n ∧ o < n ∧ WsRun b n c ∧ n ≤ c ∧ b[c]? = some 58 ∧ Lws b (c + 1) v ∧
    ValRun b v ve p ∧ Eol b p e ∧ b[e]? = some c2 ∧ isWS c2 = false ∧
    h = hdrAt (getHdrType (b.extract o n)) o n ⟨v, ve - v⟩ .fin) ∨
  (∃ n c p, ∃ c2 : UInt8, NameRun b o n ∧ o < n ∧ WsRun b n c ∧ n ≤ c ∧ b[c]? = some 58 ∧ Lws b (c + 1) p ∧
    Eol b p e ∧ b[e]? = some c2 ∧ isWS c2 = false ∧ h = hdrAt (getHdrType (b.extract o n)) o n {} .fin)

theorem HdrLineAt.gt {b : Buf} {o e : Nat} {h : Hdr} (H : HdrLineAt b o e h) : o < e ∧ e < b.size := by
  rcases H with ⟨n, c, v, ve, p, c2, _, h1, _, h2, _, h3, h4, h5, h6, _, _⟩ | ⟨n, c, p, c2, _, h1, _, h2, _, h3, h5, h6, _, _⟩
  · have := h3.le; have := h4.bounds; have := h5.gt; have := get?_lt h6; omega
  · have := h3.le; have := h5.gt; have := get?_lt h6; omega

theorem HdrLineAt.parse {b : Buf} {o e : Nat} {h : Hdr} (H : HdrLineAt b o e h) (hb : Option PHdrVals)
    (hfit : b.size ≤ 65535) (hg : hb = none ∨ IsOther h.type) : parseHdrLine b o {} hb = (e, .ok, h, hb) := by
  rcases H with ⟨n, c, v, ve, p, c2, h1, h2, h3, h4, h5, h6, h7, h8, h9, h10, rfl⟩ |
    ⟨n, c, p, c2, h1, h2, h3, h4, h5, h6, h8, h9, h10, rfl⟩
  · exact parseHdrLine_spec b o n c v ve p e hb hfit h1 h2 h3 h4 h5 h6 h7 h8 h9 h10 hg
  · exact parseHdrLine_spec_empty b o n c p e hb hfit h1 h2 h3 h4 h5 h6 h8 h9 h10 hg

/-- the empty line that ends the block: CR LF, CR followed by another byte, or LF -/
inductive EmptyLine (b : Buf) : Nat → Nat → Prop
  | crlf (o : Nat) : b[o]? = some 13 → b[o + 1]? = some 10 → EmptyLine b o (o + 2)
  | cr (o : Nat) (c : UInt8) : b[o]? = some 13 → b[o + 1]? = some c → c ≠ 10 → EmptyLine b o (o + 1)
  | lf (o : Nat) : b[o]? = some 10 → EmptyLine b o (o + 1)

theorem EmptyLine.parse {b : Buf} {o e : Nat} (H : EmptyLine b o e) (hb : Option PHdrVals) :
    parseHdrLine b o {} hb = (e, .empty, { state := .fin }, hb) ∧ o < b.size := by
  unfold parseHdrLine
  cases H with
  | crlf h0 h1 =>
    refine ⟨?_, get?_lt h0⟩
    rw [runLoop_done hlMachine h0 (o := o + 2) (e := .empty) (st' := ({ state := .fin }, hb))
      (by show hlStep b o 13 (({} : Hdr), hb) = _; unfold hlStep; simp only [beq_self_eq_true, ↓reduceIte, h1])]
  | cr c h0 h1 hc =>
    refine ⟨?_, get?_lt h0⟩
    have : (c == 10) = false := by simpa using hc
    rw [runLoop_done hlMachine h0 (o := o + 1) (e := .empty) (st' := ({ state := .fin }, hb))
      (by show hlStep b o 13 (({} : Hdr), hb) = _; unfold hlStep; simp only [beq_self_eq_true, ↓reduceIte, h1, this, Bool.false_eq_true])]
  | lf h0 =>
    refine ⟨?_, get?_lt h0⟩
    rw [runLoop_done hlMachine h0 (o := o + 1) (e := .empty) (st' := ({ state := .fin }, hb))
      (by show hlStep b o 10 (({} : Hdr), hb) = _; unfold hlStep
          have : ((10 : UInt8) == 13) = false := by decide
          simp only [this, Bool.false_eq_true, ↓reduceIte, beq_self_eq_true])]

/-- a header block: well-formed lines one after the other, then the empty line; `hs` are the headers denoted -/
inductive HdrBlock (b : Buf) : Nat → List Hdr → Nat → Prop
  | nil (o e : Nat) : EmptyLine b o e → HdrBlock b o [] e
  | cons (o e1 e : Nat) (h : Hdr) (hs : List Hdr) : HdrLineAt b o e1 h → HdrBlock b e1 hs e → HdrBlock b o (h :: hs) e

/-- what ParseHeaders does with the list object for the headers `hs`, in order -/
def HdrLst.acceptAll (hl : HdrLst) (hs : List Hdr) : HdrLst := hs.foldl (fun l h => (l.setCur h).accept h) hl

theorem accept_clean (hl : HdrLst) (h : Hdr) (hc : HlsClean hl) :
    HlsClean ((hl.setCur h).accept h) ∧ ((hl.setCur h).accept h).cur = {} := by
  have hn : ((hl.setCur h).accept h).n = hl.n + 1 := by rw [accept_n, hlSetCur_n]
  have hs : ((hl.setCur h).accept h).hdrs.size = hl.hdrs.size := by rw [accept_hdrs, hlSetCur_size]
  have hk : ∀ k, hl.n < k → k < hl.hdrs.size → ((hl.setCur h).accept h).hdrs[k]! = {} := by
    intro k h1 h2; rw [accept_hdrs, hlSetCur_ne hl h k (by omega)]; exact hc.1 k h1 h2
  have hh : ((hl.setCur h).accept h).hdr = {} := by
    rw [accept_hdr, hlSetCur_n, hlSetCur_size]
    split
    · rename_i hin; rw [hlSetCur_hdr_in hl h hin]; exact hc.2 hin
    · rfl
  refine ⟨⟨fun k h1 h2 => ?_, fun _ => hh⟩, ?_⟩
  · rw [hn] at h1; rw [hs] at h2; exact hk k (by omega) h2
  · unfold HdrLst.cur
    rw [hn, hs]
    split
    · rename_i hin; exact hk _ (by omega) hin
    · exact hh

/-- **ParseHeaders on a well-formed block**: one header per line, in order, then the end of the block -/
theorem parseHeaders_block (b : Buf) (hb : Option PHdrVals) (hfit : b.size ≤ 65535) {o e : Nat} {hs : List Hdr}
    (H : HdrBlock b o hs e) :
    ∀ (hl : HdrLst), HlsClean hl → hl.cur = {} → (hb = none ∨ ∀ h ∈ hs, IsOther h.type) →
      parseHeaders b o hl hb =
        (e, (if (hl.acceptAll hs).n > 0 then Err.ok else Err.empty), (hl.acceptAll hs).setCur { state := .fin }, hb) := by
  induction H with
  | nil o e he =>
    intro hl _ hcur _
    obtain ⟨hp, hlt⟩ := he.parse hb
    rw [parseHeaders, if_pos hlt, hcur, hp]
    simp only [HdrLst.acceptAll, List.foldl_nil]
    by_cases hn : hl.n > 0 <;> simp only [hn, ↓reduceIte]
  | cons o e1 e h hs hline _ ih =>
    intro hl hc hcur hg
    have hgt := hline.gt
    have hp := hline.parse hb hfit (by
      rcases hg with hg | hg
      · exact Or.inl hg
      · exact Or.inr (hg h List.mem_cons_self))
    rw [parseHeaders, if_pos (by omega), hcur, hp]
    simp only
    rw [if_pos hgt.1]
    have hcl := accept_clean hl h hc
    rw [ih _ hcl.1 hcl.2 (by
      rcases hg with hg | hg
      · exact Or.inl hg
      · exact Or.inr (fun x hx => hg x (List.mem_cons_of_mem _ hx)))]
    rfl

/-! ### what the list object records for a sequence of accepted headers -/

theorem acceptAll_cons (hl : HdrLst) (h : Hdr) (hs : List Hdr) :
    hl.acceptAll (h :: hs) = ((hl.setCur h).accept h).acceptAll hs := rfl

/-- **the count includes the headers that did not fit the caller's array** -/
theorem acceptAll_n (hl : HdrLst) (hs : List Hdr) : (hl.acceptAll hs).n = hl.n + hs.length := by
  induction hs generalizing hl with
  | nil => rfl
  | cons h hs ih => rw [acceptAll_cons, ih, accept_n, hlSetCur_n, List.length_cons]; omega

theorem acceptAll_size (hl : HdrLst) (hs : List Hdr) : (hl.acceptAll hs).hdrs.size = hl.hdrs.size := by
  induction hs generalizing hl with
  | nil => rfl
  | cons h hs ih => rw [acceptAll_cons, ih, accept_hdrs, hlSetCur_size]

theorem acceptAll_keep (hl : HdrLst) (hs : List Hdr) (j : Nat) (hj : j < hl.n) :
    (hl.acceptAll hs).hdrs[j]! = hl.hdrs[j]! := by
  induction hs generalizing hl with
  | nil => rfl
  | cons h hs ih =>
    rw [acceptAll_cons, ih _ (by rw [accept_n, hlSetCur_n]; omega), accept_hdrs, hlSetCur_ne hl h j (by omega)]

/-- **the stored headers are the headers of the block, in order** (those that fit the caller's array) -/
theorem acceptAll_stored (hl : HdrLst) (hs : List Hdr) (k : Nat) (hk : k < hs.length)
    (hin : hl.n + k < hl.hdrs.size) : (hl.acceptAll hs).hdrs[hl.n + k]! = hs[k] := by
  induction hs generalizing hl k with
  | nil => cases hk
  | cons h hs ih =>
    rw [acceptAll_cons]
    cases k with
    | zero =>
      show (((hl.setCur h).accept h).acceptAll hs).hdrs[hl.n]! = h
      rw [acceptAll_keep ((hl.setCur h).accept h) hs hl.n (by rw [accept_n, hlSetCur_n]; omega), accept_hdrs]
      exact hlSetCur_get_n hl h (by omega)
    | succ k =>
      have := ih ((hl.setCur h).accept h) k (by simpa using hk)
        (by rw [accept_n, hlSetCur_n, accept_hdrs, hlSetCur_size]; omega)
      rw [accept_n, hlSetCur_n] at this
      have e : hl.n + (k + 1) = hl.n + 1 + k := by omega
      rw [e, this]; rfl

/-- **the type-flag set is the set of types seen** (16-bit flag word) -/
theorem acceptAll_pflags (hl : HdrLst) (hs : List Hdr) (t : Nat) (ht : t < 16) (h0 : hl.pflags < 65536) :
    (hl.acceptAll hs).pflags.testBit t = (hl.pflags.testBit t || hs.any (fun h => h.type == t)) := by
  induction hs generalizing hl with
  | nil => simp [HdrLst.acceptAll]
  | cons h hs ih =>
    rw [acceptAll_cons, ih _ (by rw [accept_pflags]; exact Nat.mod_lt _ (by decide))]
    rw [accept_pflags, (hlSetCur_scalars hl h).1]
    have e16 : (65536 : Nat) = 2 ^ 16 := by decide
    rw [e16, Nat.testBit_mod_two_pow, Nat.testBit_or, Nat.testBit_shiftLeft]
    simp only [ht, decide_true, Bool.true_and, List.any_cons]
    have : (decide (t ≥ h.type) && Nat.testBit 1 (t - h.type)) = (h.type == t) := by
      by_cases he : h.type = t
      · subst he; simp
      · have hne : (h.type == t) = false := by simpa using he
        rw [hne]
        by_cases hge : t ≥ h.type
        · have h1 : t - h.type ≠ 0 := by omega
          have h2 : Nat.testBit 1 (t - h.type) = false := by
            cases hq : Nat.testBit 1 (t - h.type) with
            | false => rfl
            | true => exact absurd (Nat.testBit_one_eq_true_iff_self_eq_zero.mp hq) h1
          simp [hge, h2]
        · simp [hge]
    rw [this, Bool.or_assoc]

theorem setHdr_get (hl : HdrLst) (x : Hdr) (j : Nat) (hj : j < hl.h.size) :
    (hl.setHdr x).h[j]! = if x.type ≥ 1 ∧ x.type - 1 = j ∧ hl.h[j]!.missing = true then x else hl.h[j]! := by
  unfold HdrLst.setHdr
  by_cases hc : (decide (x.type ≥ 1) && decide (x.type - 1 < hl.h.size)) = true
  · rw [if_pos hc]
    simp only [Bool.and_eq_true, decide_eq_true_eq] at hc
    have hget : hl.h[x.type - 1]? = some hl.h[x.type - 1]! := by
      simp [Array.getElem!_eq_getD, Array.getD_eq_getD_getElem?, Array.getElem?_eq_getElem hc.2]
    rw [hget]
    simp only
    by_cases hm : hl.h[x.type - 1]!.missing = true
    · rw [if_pos hm]
      by_cases hjt : x.type - 1 = j
      · subst hjt
        rw [if_pos ⟨hc.1, rfl, hm⟩]
        simp [Array.set!_eq_setIfInBounds, Array.getElem!_eq_getD, Array.getD_eq_getD_getElem?,
          Array.getElem?_setIfInBounds_self_of_lt hc.2]
      · rw [if_neg (fun hh => hjt hh.2.1)]
        simp [Array.set!_eq_setIfInBounds, Array.getElem!_eq_getD, Array.getD_eq_getD_getElem?,
          Array.getElem?_setIfInBounds_ne hjt]
    · rw [if_neg hm]
      by_cases hjt : x.type - 1 = j
      · subst hjt; rw [if_neg (fun hh => hm hh.2.2)]
      · rw [if_neg (fun hh => hjt hh.2.1)]
  · rw [if_neg hc]
    have : ¬ (x.type ≥ 1 ∧ x.type - 1 = j ∧ hl.h[j]!.missing = true) := by
      intro hh
      apply hc
      simp only [Bool.and_eq_true, decide_eq_true_eq]
      exact ⟨hh.1, by rw [hh.2.1]; exact hj⟩
    rw [if_neg this]

theorem setHdr_h_size (hl : HdrLst) (x : Hdr) : (hl.setHdr x).h.size = hl.h.size := by
  unfold HdrLst.setHdr
  repeat' split
  all_goals first | rfl | simp

theorem accept_h (hl : HdrLst) (x : Hdr) :
    ((hl.setCur x).accept x).h = (({ hl with pflags := (hl.pflags ||| (1 <<< x.type)) % 65536 } : HdrLst).setHdr x).h := by
  have s := hlSetCur_scalars hl x
  have := accept_h_congr (hl.setCur x) hl x s.2
  rw [this]
  unfold HdrLst.accept
  dsimp only
  split <;> rfl

/-- **the first-of-type table holds the first header of each type** (for a table slot that was empty before) -/
theorem acceptAll_first (hl : HdrLst) (hs : List Hdr) (j : Nat) (hj : j < hl.h.size)
    (hm : hl.h[j]!.missing = true) :
    (hl.acceptAll hs).h[j]! = (match hs.find? (fun h => h.type == j + 1) with | some h => h | none => hl.h[j]!) ∧
    (hl.acceptAll hs).h.size = hl.h.size := by
  induction hs generalizing hl with
  | nil => exact ⟨rfl, rfl⟩
  | cons x hs ih =>
    rw [acceptAll_cons]
    have hsz : ((hl.setCur x).accept x).h.size = hl.h.size := by rw [accept_h, setHdr_h_size]
    have hget : ((hl.setCur x).accept x).h[j]! = if x.type ≥ 1 ∧ x.type - 1 = j ∧ hl.h[j]!.missing = true then x else hl.h[j]! := by
      rw [accept_h]; exact setHdr_get _ x j hj
    by_cases hx : x.type = j + 1
    · -- this header takes the slot; later ones of the same type do not replace it
      have hfind : (x :: hs).find? (fun h => h.type == j + 1) = some x := by simp [List.find?, hx]
      rw [hfind]
      have hnow : ((hl.setCur x).accept x).h[j]! = x := by
        rw [hget, if_pos ⟨by omega, by omega, hm⟩]
      have hnm : x.missing = false := by unfold Hdr.missing HdrNone; simp; omega
      -- once filled, the slot stays
      have hstay : ∀ (l : HdrLst) (ys : List Hdr), j < l.h.size → l.h[j]!.missing = false →
          (l.acceptAll ys).h[j]! = l.h[j]! ∧ (l.acceptAll ys).h.size = l.h.size := by
        intro l ys
        induction ys generalizing l with
        | nil => intro _ _; exact ⟨rfl, rfl⟩
        | cons y ys ihy =>
          intro hjl hml
          rw [acceptAll_cons]
          have h1 : ((l.setCur y).accept y).h[j]! = l.h[j]! := by
            rw [accept_h]
            have := setHdr_get ({ l with pflags := (l.pflags ||| (1 <<< y.type)) % 65536 } : HdrLst) y j hjl
            rw [this, if_neg (fun hh => by
              have h3 : l.h[j]!.missing = true := hh.2.2
              rw [hml] at h3; exact absurd h3 (by decide))]
          have h2 : ((l.setCur y).accept y).h.size = l.h.size := by rw [accept_h, setHdr_h_size]
          have := ihy ((l.setCur y).accept y) (by rw [h2]; exact hjl) (by rw [h1]; exact hml)
          exact ⟨by rw [this.1, h1], by rw [this.2, h2]⟩
      have := hstay ((hl.setCur x).accept x) hs (by rw [hsz]; exact hj) (by rw [hnow]; exact hnm)
      exact ⟨by rw [this.1, hnow], by rw [this.2, hsz]⟩
    · have hfind : (x :: hs).find? (fun h => h.type == j + 1) = hs.find? (fun h => h.type == j + 1) := by
        have : (x.type == j + 1) = false := by simpa using hx
        simp [List.find?, this]
      rw [hfind]
      have hnow : ((hl.setCur x).accept x).h[j]! = hl.h[j]! := by
        rw [hget, if_neg (fun hh => hx (by omega))]
      have := ih ((hl.setCur x).accept x) (by rw [hsz]; exact hj) (by rw [hnow]; exact hm)
      exact ⟨by rw [this.1, hnow], by rw [this.2, hsz]⟩

end Sipsp
