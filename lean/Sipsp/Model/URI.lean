/-
  Sipsp.Model.URI — sipuri.go: ParseURI, Long/Short/Flat/Truncate/AdjustOffs, URICmp*,
  and URIParamsLstEq/URIParamsEq, URIHdrsLstEq/URIHdrsEq.
-/
import Sipsp.Model.Params

namespace Sipsp

inductive UErr where
  | none | badChar | scheme | host | port | headers | tooShort | bad | bug
  deriving DecidableEq, Repr, Inhabited

def UErr.toNat : UErr → Nat
  | .none => 0 | .badChar => 1 | .scheme => 2 | .host => 3 | .port => 4 | .headers => 5
  | .tooShort => 6 | .bad => 7 | .bug => 8

def UErr.name : UErr → String
  | .none => "NoURIErr" | .badChar => "ErrURIBadChar" | .scheme => "ErrURIScheme" | .host => "ErrURIHost"
  | .port => "ErrURIPort" | .headers => "ErrURIHeaders" | .tooShort => "ErrURITooShort" | .bad => "ErrURIBad"
  | .bug => "ErrURIBug"

def INVALIDuri : Nat := 0
def SIPuri : Nat := 1
def SIPSuri : Nat := 2
def TELuri : Nat := 3

structure PsipURI where
  uriType : Nat := 0
  scheme : PField := {}
  user : PField := {}
  pass : PField := {}
  host : PField := {}
  port : PField := {}
  params : PField := {}
  headers : PField := {}
  portNo : Nat := 0
  deriving DecidableEq, Repr, Inhabited

inductive US where
  | init | initSIP | initSIPS | initTEL | sip | sips | tel | user | pass0 | pass1
  | host0 | host1 | host61 | host6E | port | param0 | param1 | headers
  deriving DecidableEq, Repr, Inhabited

structure UState where
  st : US := .init
  s : Nat := 0
  foundUser : Bool := false
  passOffs : Nat := 0
  portNo : Nat := 0
  errHeaders : Bool := false
  u : PsipURI := {}
  pnc : Bool := false
  deriving Repr, Inhabited

inductive UStep where
  | next (σ : UState)
  | fail (e : UErr) (pos : Nat) (σ : UState)

def UState.setHost (σ : UState) (s e : Nat) : UState :=
  { σ with u := { σ.u with host := PField.set s e }, pnc := σ.pnc || PField.setPanics s e }
def UState.setUser (σ : UState) (s e : Nat) : UState :=
  { σ with u := { σ.u with user := PField.set s e }, pnc := σ.pnc || PField.setPanics s e }
def UState.setPass (σ : UState) (s e : Nat) : UState :=
  { σ with u := { σ.u with pass := PField.set s e }, pnc := σ.pnc || PField.setPanics s e }
def UState.setPort (σ : UState) (s e : Nat) : UState :=
  { σ with u := { σ.u with port := PField.set s e }, pnc := σ.pnc || PField.setPanics s e }
def UState.setParams (σ : UState) (s e : Nat) : UState :=
  { σ with u := { σ.u with params := PField.set s e }, pnc := σ.pnc || PField.setPanics s e }
def UState.setHeaders (σ : UState) (s e : Nat) : UState :=
  { σ with u := { σ.u with headers := PField.set s e }, pnc := σ.pnc || PField.setPanics s e }

/-- `portNo = portNo*10 + int(c-'0')` guarded by `portNo <= 65535` -/
def accPort (p : Nat) (c : UInt8) : Nat := if p ≤ 65535 then p * 10 + (c.toNat - 48) else p

/-- the '@' branch shared by uParam0/uParam1 and uHeaders -/
def uAtInParams (i : Nat) (σ : UState) : UStep :=
  if σ.foundUser == false then
    let σ1 := if σ.passOffs != 0 then
                (σ.setUser σ.u.host.offs σ.passOffs).setPass (σ.passOffs + 1) i
              else
                let σa := σ.setUser σ.u.host.offs i
                { σa with u := { σa.u with pass := {} } }
    .next { σ1 with foundUser := true, errHeaders := false, st := .host0, s := i + 1, portNo := 0,
                    u := { σ1.u with host := {}, port := {}, portNo := 0, params := {}, headers := {} } }
  else .fail .badChar i σ

/-- one iteration of the `for ; i < len(uri); i++` loop. -/
def uriStep (i : Nat) (c : UInt8) (σ : UState) : UStep :=
  match σ.st with
  | .initSIP | .initSIPS | .initTEL =>
    if c == 91 then .next { σ with st := .host61, s := i }
    else if c == 58 || c == 93 then .fail .badChar i σ
    else .next { σ with st := .user, s := i }
  | .user =>
    if c == 64 then .next { σ.setUser σ.s i with st := .host0, foundUser := true, s := i + 1 }
    else if c == 58 then .next { σ.setUser σ.s i with st := .pass0, s := i + 1 }
    else if c == 59 then .next { σ.setHost σ.s i with st := .param0, s := i + 1 }
    else if c == 63 then .next { σ.setHost σ.s i with st := .headers, s := i + 1 }
    else if c == 91 || c == 93 then .fail .badChar i σ
    else .next σ
  | .pass0 =>
    if c == 64 then
      .next { σ.setPass σ.s i with portNo := 0, st := .host0, foundUser := true, s := i + 1 }
    else if c == 59 || c == 63 then
      let σ1 := σ.setPort σ.s i
      if σ1.portNo > 65535 then .fail .port i σ1
      else
        .next { σ1 with u := { σ1.u with portNo := σ1.portNo, host := σ1.u.user, user := {} },
                        foundUser := true, s := i + 1,
                        st := if c == 59 then .param0 else .headers }
    else if isDigit c then .next { σ with portNo := accPort σ.portNo c }
    else if c == 91 || c == 93 || c == 58 then .fail .badChar i σ
    else .next { σ with portNo := 0, st := .pass1 }
  | .pass1 =>
    if c == 64 then .next { σ.setPass σ.s i with st := .host0, foundUser := true, s := i + 1 }
    else if c == 59 || c == 63 || c == 91 || c == 93 || c == 58 then .fail .badChar i σ
    else .next σ
  | .host0 =>
    if c == 91 then .next { σ with st := .host61 }
    else if c == 58 || c == 59 || c == 63 || c == 38 || c == 64 then .fail .host i σ
    else .next { σ with st := .host1 }
  | .host1 =>
    if c == 58 then .next { σ.setHost σ.s i with st := .port, s := i + 1 }
    else if c == 59 then .next { σ.setHost σ.s i with st := .param0, s := i + 1 }
    else if c == 63 then .next { σ.setHost σ.s i with st := .headers, s := i + 1 }
    else if c == 38 || c == 64 then .fail .badChar i σ
    else .next σ
  | .host61 =>
    if c == 93 then .next { σ with st := .host6E }
    else if c == 91 || c == 64 || c == 59 || c == 63 || c == 38 then .fail .host i σ
    else .next σ
  | .host6E =>
    if c == 58 then .next { σ.setHost σ.s i with st := .port, s := i + 1 }
    else if c == 59 then .next { σ.setHost σ.s i with st := .param0, s := i + 1 }
    else if c == 63 then .next { σ.setHost σ.s i with st := .headers, s := i + 1 }
    else .fail .host i σ
  | .port =>
    if isDigit c then .next { σ with portNo := accPort σ.portNo c }
    else if c == 59 || c == 63 then
      let σ1 := σ.setPort σ.s i
      if σ1.portNo > 65535 then .fail .port i σ1
      else .next { σ1 with u := { σ1.u with portNo := σ1.portNo }, s := i + 1,
                           st := if c == 59 then .param0 else .headers }
    else .fail .port i σ
  | .param0 | .param1 =>
    if c == 64 then uAtInParams i σ
    else if c == 58 then
      let σ1 := if σ.foundUser == false then
                  if σ.passOffs != 0 then { σ with foundUser := true, passOffs := 0 }
                  else { σ with passOffs := i }
                else σ
      .next { σ1 with st := .param1 }
    else if c == 59 then
      let σ1 := if σ.passOffs != 0 then { σ with passOffs := 0, foundUser := true } else σ
      .next { σ1 with st := .param0 }
    else if c == 63 then
      let σ1 := { σ.setParams σ.s i with st := .headers, s := i + 1 }
      .next (if σ1.passOffs != 0 then { σ1 with passOffs := 0, foundUser := true } else σ1)
    else .next { σ with st := .param1 }
  | .headers =>
    if c == 64 then uAtInParams i σ
    else if c == 59 then
      if σ.foundUser || σ.passOffs != 0 then .fail .badChar i σ
      else .next { σ with errHeaders := true }
    else if c == 58 then
      if σ.foundUser == false then
        if σ.passOffs != 0 then .next { σ with foundUser := true, passOffs := 0 }
        else .next { σ with passOffs := i }
      else .next σ
    else if c == 63 then
      if σ.passOffs != 0 then .next { σ with foundUser := true, passOffs := 0 } else .next σ
    else .next σ
  | _ => .next σ

def uriLoop (b : Buf) (i : Nat) (σ : UState) : UErr × Nat × UState :=
  match hb : b[i]? with
  | none => (.none, i, σ)
  | some c =>
    match uriStep i c σ with
    | .next σ' => uriLoop b (i + 1) σ'
    | .fail e p σ' => (e, p, σ')
termination_by b.size - i
decreasing_by
  have hi : i < b.size := by
    rcases Nat.lt_or_ge i b.size with h | h
    · exact h
    · rw [Array.getElem?_eq_none h] at hb; cases hb
  omega

/-- the `switch state` after the loop; `i = len(uri)`. -/
def uriFinish (i : Nat) (σ : UState) : UErr × Nat × UState :=
  let fin (σ : UState) : UErr × Nat × UState :=
    if σ.u.uriType == TELuri then (.none, i, { σ with u := { σ.u with user := σ.u.host, host := {} } })
    else (.none, i, σ)
  match σ.st with
  | .init | .initTEL | .initSIP | .initSIPS => (.tooShort, i, σ)
  | .user => if σ.foundUser then (.bad, i, σ) else fin { σ.setHost σ.s i with st := .host0 }
  | .pass0 | .pass1 =>
    if σ.foundUser || σ.st == .pass1 then (.port, i, σ)
    else
      let σ1 := σ.setPort σ.s i
      if σ1.portNo > 65535 then (.port, i, σ1)
      else fin { σ1 with u := { σ1.u with portNo := σ1.portNo, host := σ1.u.user, user := {} } }
  | .host1 | .host6E => fin (σ.setHost σ.s i)
  | .host0 | .host61 => (.host, i, σ)
  | .port =>
    let σ1 := σ.setPort σ.s i
    if σ1.portNo > 65535 then (.port, i, σ1)
    else fin { σ1 with u := { σ1.u with portNo := σ1.portNo } }
  | .param0 | .param1 => fin (σ.setParams σ.s i)
  | .headers =>
    let σ1 := σ.setHeaders σ.s i
    if σ1.errHeaders then (.headers, i, σ1) else fin σ1
  | _ => (.bug, i, σ)

/-- `ParseURI(uri, puri)`: (err, pos, puri', panicked). -/
def parseURI (b : Buf) (pu : PsipURI) : UErr × Nat × PsipURI × Bool :=
  match b[0]?, b[1]?, b[2]?, b[3]?, b[4]? with
  | some b0, some b1, some b2, some b3, some b4 =>
    let sch := ((b3.toNat <<< 24) ||| (b2.toNat <<< 16) ||| (b1.toNat <<< 8) ||| b0.toNat) ||| 0x20202020
    let start (t : Nat) (st : US) (schLen : Nat) : UErr × Nat × PsipURI × Bool :=
      let u0 := { pu with uriType := t, scheme := PField.set 0 (schLen + 1) }
      match uriLoop b (schLen + 1) { st := st, u := u0 } with
      | (.none, i, σ) =>
        match uriFinish i σ with
        | (e, p, σ') => (e, p, σ'.u, σ'.pnc)
      | (e, p, σ) => (e, p, σ.u, σ.pnc)
    if sch == Gen.C.ParseURI_SchSIP then start SIPuri .initSIP 3
    else if sch == Gen.C.ParseURI_SchTEL then start TELuri .initTEL 3
    else if sch == Gen.C.ParseURI_SchSIPS then
      if b4 == 58 then start SIPSuri .initSIPS 4
      else (.scheme, 4, { pu with uriType := INVALIDuri }, false)
    else (.scheme, 4, { pu with uriType := INVALIDuri }, false)
  | _, _, _, _, _ => (.tooShort, b.size, pu, false)

/-! ### views -/

def setFrom (u : PsipURI) (f : PField) : PField × Bool :=
  (PField.set u.scheme.offs f.endT, PField.setPanics u.scheme.offs f.endT)

/-- `Long()`: (field, panicked) -/
def PsipURI.long (u : PsipURI) : PField × Bool :=
  if u.headers.len > 0 then setFrom u u.headers
  else if u.params.len > 0 then setFrom u u.params
  else if u.port.len > 0 then setFrom u u.port
  else if u.host.len > 0 then setFrom u u.host
  else if u.pass.len > 0 then
    -- tel: the number (kept in User) comes after the password
    if u.user.len > 0 && u.user.endT > u.pass.endT then setFrom u u.user else setFrom u u.pass
  else if u.user.len > 0 then setFrom u u.user
  else ({}, false)

/-- `Short()` -/
def PsipURI.short (u : PsipURI) : PField × Bool :=
  if u.port.len > 0 then setFrom u u.port
  else if u.host.len > 0 then setFrom u u.host
  else if u.user.len > 0 then setFrom u u.user
  else ({}, false)

def PsipURI.truncate (u : PsipURI) : PsipURI := { u with params := {}, headers := {} }

/-- `Flat(buf)`: `none` = panic -/
def PsipURI.flat (u : PsipURI) (b : Buf) : Option Buf :=
  let (r, p) := u.long
  if p then none else r.get? b

/-- relocate one component: `f.Offs = f.Offs - start + offs` (uint16), returns the new `last` -/
def adjField (f : PField) (start offs : Nat) (last : Nat) : PField × Nat :=
  if f.offs != 0 then
    let o := (f.offs + 65536 - start + offs) % 65536
    ({ f with offs := o }, trunc16 (o + f.len))
  else (f, last)

def ulenStep (ulen start : Nat) (f : PField) : Nat :=
  if f.offs != 0 && (f.offs + f.len + 65536 - start) % 65536 > ulen then (f.offs + f.len + 65536 - start) % 65536 else ulen

/-- `AdjustOffs(newpos)`: (ok, u', panicked). -/
def PsipURI.adjustOffs (u : PsipURI) (np : PField) : Bool × PsipURI × Bool :=
  let offs := np.offs
  let end_ := trunc16 (offs + np.len)
  -- `if end < offs { return false }`: the new position does not fit in the 16 bit offsets (fix 1a8b02b)
  if end_ < offs then (false, u, false) else
  let sum := trunc16 (u.scheme.len + u.user.len + u.pass.len + u.host.len + u.port.len +
                      u.params.len + u.headers.len)
  if sum > np.len then (false, u, false)
  else
    let start := u.scheme.offs
    let ulen := [u.user, u.pass, u.host, u.port, u.params, u.headers].foldl (fun a f => ulenStep a start f) u.scheme.len
    if ulen > np.len then (false, u, false)
    else
      let (user, l1) := adjField u.user start offs offs
      let (pass, l2) := adjField u.pass start offs l1
      let (host, l3) := adjField u.host start offs l2
      let (port, l4) := adjField u.port start offs l3
      let (params, l5) := adjField u.params start offs l4
      let (headers, l6) := adjField u.headers start offs l5
      let u' := { u with scheme := { u.scheme with offs := offs }, user := user, pass := pass, host := host,
                         port := port, params := params, headers := headers }
      (true, u', decide (l6 > end_))

/-! ### comparison -/

def URICmpSkipPort : Nat := 1
def URICmpSkipScheme : Nat := 2
def URICmpSkipUser : Nat := 4
def URICmpSkipPass : Nat := 8
def URICmpSkipParams : Nat := 16
def URICmpSkipHeaders : Nat := 32

/-- `URICmpShort`; `none` = a `Get` panicked. Go evaluates the `&&` chain left to right with short
    circuit, so a `Get` is only evaluated when everything before it was true. -/
def uriCmpShort (u1 : PsipURI) (b1 : Buf) (u2 : PsipURI) (b2 : Buf) (flags : Nat) : Option Bool :=
  if !(hasFlag flags URICmpSkipScheme || u1.uriType == u2.uriType) then some false
  else if !(hasFlag flags URICmpSkipPort || u1.portNo == u2.portNo) then some false
  else
    let userOk : Option Bool :=
      if hasFlag flags URICmpSkipUser then some true
      else match u1.user.get? b1, u2.user.get? b2 with
        | some x, some y => some (bytesEq x y)
        | _, _ => none
    match userOk with
    | none => none
    | some false => some false
    | some true =>
      let passOk : Option Bool :=
        if hasFlag flags URICmpSkipPass then some true
        else match u1.pass.get? b1, u2.pass.get? b2 with
          | some x, some y => some (bytesEq x y)
          | _, _ => none
      match passOk with
      | none => none
      | some false => some false
      | some true =>
        match u1.host.get? b1, u2.host.get? b2 with
        | some x, some y => some (cmpEq x y)
        | _, _ => none

/-- inner `j` loop of `URIParamsLstEq`: `some false` = mismatch found; `some true` = continue -/
def paramsEqInner (p1 : URIParam) (b1 : Buf) (b2 : Buf) : List URIParam → Option Bool
  | [] => some true
  | p2 :: rest =>
    if p1.t == p2.t then
      let nameOk : Option Bool :=
        if p1.t != URIParamOtherF then some true
        else match p1.param.name.get? b1, p2.param.name.get? b2 with
          | some x, some y => some (cmpEq x y)
          | _, _ => none
      match nameOk with
      | none => none
      | some true =>
        match p1.param.val.get? b1, p2.param.val.get? b2 with
        | some x, some y => some (cmpEq x y)   -- then `break`
        | _, _ => none
      | some false => paramsEqInner p1 b1 b2 rest
    else paramsEqInner p1 b1 b2 rest

def paramsEqOuter (b1 b2 : Buf) (l2 : List URIParam) : List URIParam → Option Bool
  | [] => some true
  | p1 :: rest =>
    match paramsEqInner p1 b1 b2 l2 with
    | none => none
    | some false => some false
    | some true => paramsEqOuter b1 b2 l2 rest

/-- `URIParamsLstEq` -/
def uriParamsLstEq (l1 : URIParamsLst) (b1 : Buf) (l2 : URIParamsLst) (b2 : Buf) : Option Bool :=
  let bmask := URIParamUserF ||| URIParamTTLF ||| URIParamMethodF ||| URIParamMaddrF
  if (l1.types &&& bmask) != (l2.types &&& bmask) then some false
  else paramsEqOuter b1 b2 ((l2.params.toList).take l2.pNo) ((l1.params.toList).take l1.pNo)

def errOkOrEOH (e : Err) : Bool := e == .ok || e == .eoh

/-- `URIParamsEq(buf1, offs1, buf2, offs2)`: (result, err); `none` = panic -/
def uriParamsEq (b1 : Buf) (o1 : Nat) (b2 : Buf) (o2 : Nat) : Option (Bool × Err) :=
  let flags := POptTokURIParamF ||| POptInputEndF
  let fresh : URIParamsLst := { params := Array.replicate 100 {} }
  match parseAllURIParams b1 o1 fresh flags with
  | (_, _, e1, l1) =>
    if l1.pnc then none
    else if !errOkOrEOH e1 then some (false, e1)
    else
      match parseAllURIParams b2 o2 fresh flags with
      | (_, _, e2, l2) =>
        if l2.pnc then none
        else if !errOkOrEOH e2 then some (false, e2)
        else (uriParamsLstEq l1 b1 l2 b2).map (fun r => (r, Err.ok))

/-- inner loop of `URIHdrsLstEq`: found? -/
def hdrsEqInner (h1 : PTokParam) (b1 b2 : Buf) : List PTokParam → Option Bool
  | [] => some false
  | h2 :: rest =>
    match h1.name.get? b1, h2.name.get? b2 with
    | some x, some y =>
      if cmpEq x y then
        match h1.val.get? b1, h2.val.get? b2 with
        | some vx, some vy => some (cmpEq vx vy)   -- mismatch: `break` with found=false
        | _, _ => none
      else hdrsEqInner h1 b1 b2 rest
    | _, _ => none

def hdrsEqOuter (b1 b2 : Buf) (l2 : List PTokParam) : List PTokParam → Option Bool
  | [] => some true
  | h1 :: rest =>
    match hdrsEqInner h1 b1 b2 l2 with
    | none => none
    | some false => some false
    | some true => hdrsEqOuter b1 b2 l2 rest

/-- `URIHdrsLstEq` -/
def uriHdrsLstEq (l1 : URIHdrsLst) (b1 : Buf) (l2 : URIHdrsLst) (b2 : Buf) : Option Bool :=
  if l1.hNo != l2.hNo then some false
  else hdrsEqOuter b1 b2 ((l2.hdrs.toList).take l2.hNo) ((l1.hdrs.toList).take l1.hNo)

/-- `URIHdrsEq` -/
def uriHdrsEq (b1 : Buf) (o1 : Nat) (b2 : Buf) (o2 : Nat) : Option (Bool × Err) :=
  let flags := POptTokURIHdrF ||| POptInputEndF
  let fresh : URIHdrsLst := { hdrs := Array.replicate 100 {} }
  match parseAllURIHdrs b1 o1 fresh flags with
  | (_, _, e1, l1) =>
    if !errOkOrEOH e1 then some (false, e1)
    else
      match parseAllURIHdrs b2 o2 fresh flags with
      | (_, _, e2, l2) =>
        if !errOkOrEOH e2 then some (false, e2)
        else (uriHdrsLstEq l1 b1 l2 b2).map (fun r => (r, Err.ok))

/-- `URICmp`: `none` = panic. -/
def uriCmp (u1 : PsipURI) (b1 : Buf) (u2 : PsipURI) (b2 : Buf) (flags : Nat) : Option Bool :=
  match uriCmpShort u1 b1 u2 b2 flags with
  | none => none
  | some r0 =>
    let r1 : Option Bool :=
      if r0 && !hasFlag flags URICmpSkipParams then
        match u1.params.get? b1, u2.params.get? b2 with
        | some p1, some p2 => (uriParamsEq p1 0 p2 0).map (·.1)
        | _, _ => none
      else some r0
    match r1 with
    | none => none
    | some r1 =>
      if r1 && !hasFlag flags URICmpSkipHeaders then
        match u1.headers.get? b1, u2.headers.get? b2 with
        | some h1, some h2 => (uriHdrsEq h1 0 h2 0).map (·.1)
        | _, _ => none
      else some r1

/-- `URIParseCmp(raw1, raw2, flags, r1, r2)`: (result, err, which, r1', r2') with `r1'`/`r2'` the values
    stored through the out-pointers (`none` = not written); outer `none` = panic. -/
def uriParseCmp (raw1 raw2 : Buf) (flags : Nat) :
    Option (Bool × UErr × Nat × Option PsipURI × Option PsipURI) :=
  match parseURI raw1 {} with
  | (e1, _, u1, p1) =>
    if p1 then none
    else if e1 != .none then some (false, e1, 0, none, none)
    else
      match parseURI raw2 {} with
      | (e2, _, u2, p2) =>
        if p2 then none
        else if e2 != .none then some (false, e2, 1, some u1, none)
        else (uriCmp u1 raw1 u2 raw2 flags).map (fun r => (r, UErr.none, 0, some u1, some u2))

end Sipsp
