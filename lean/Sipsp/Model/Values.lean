/-
  Sipsp.Model.Values — parse_callid.go, parse_clen.go, parse_expires.go, parse_cseq.go
-/
import Sipsp.Model.Lex
import Sipsp.Model.Tables

namespace Sipsp

/-- the recurring Go pattern
```
n, crl, err = skipLWS(buf, i, 0)
if err == 0 { i = n; continue }
if err == ErrHdrEOH { goto endOfHdr }
if err == ErrHdrMoreBytes { i = n; goto moreBytes }
return n, err
```
`eoh st i n crl` is the code at label `endOfHdr`; `mb` is what `moreBytes:` does to the object. -/
def lwsStd {σ : Type} (b : Buf) (i : Nat) (st : σ)
    (eoh : σ → Nat → Nat → Nat → Nat × Err × σ) (mb : σ → σ) : Step σ :=
  match skipLWS b i 0 with
  | (n, _, .ok) => .cont n st
  | (n, crl, .eoh) => let r := eoh st i n crl; .done r.1 r.2.1 r.2.2
  | (n, _, .moreBytes) => .done n .moreBytes (mb st)
  | (n, _, e) => .done n e st

/-! ### Call-ID -/

inductive CIState where | init | found | fend | fin
  deriving DecidableEq, Repr, Inhabited

structure PCallIDBody where
  callID : PField := {}
  state : CIState := .init
  soffs : Nat := 0
  pnc : Bool := false
  deriving DecidableEq, Repr, Inhabited

def ciSetCallID (st : PCallIDBody) (i : Nat) : PCallIDBody :=
  { st with callID := PField.set st.soffs i, pnc := st.pnc || PField.setPanics st.soffs i }

def ciEOH (st : PCallIDBody) (i n crl : Nat) : Nat × Err × PCallIDBody :=
  match st.state with
  | .fend => (n + crl, .ok, { st with state := .fin, soffs := 0 })
  | .found => (n + crl, .ok, { ciSetCallID st i with state := .fin, soffs := 0 })
  | .init => (n + crl, .bad, st)
  | .fin => (n + crl, .bug, st)

def ciStep (b : Buf) (i : Nat) (c : UInt8) (st : PCallIDBody) : Step PCallIDBody :=
  if isLWSch c then
    match st.state with
    | .found => lwsStd b i { ciSetCallID st i with state := .fend } ciEOH id
    | .init => lwsStd b i st ciEOH id
    | .fend => lwsStd b i st ciEOH id
    | .fin => .cont (i + 1) st
  else
    match st.state with
    | .init => .cont (i + 1) { st with state := .found, soffs := i }
    | .fend => .done i .badChar st
    | .found => .cont (i + 1) st
    | .fin => .cont (i + 1) st

def ciMachine : Machine PCallIDBody :=
  { step := ciStep, eob := fun _ i st => (i, .moreBytes, st) }

/-- `ParseCallIDVal`. -/
def parseCallIDVal (b : Buf) (offs : Nat) (st : PCallIDBody) : Nat × Err × PCallIDBody :=
  if st.state = .fin then (offs, .ok, st) else runLoop ciMachine b offs st

def PCallIDBody.parsed (s : PCallIDBody) : Bool := s.state == .fin

/-! ### unsigned integer values (Content-Length, Expires) -/

inductive CLState where | init | found | fend | fin
  deriving DecidableEq, Repr, Inhabited

structure PUIntBody where
  uiVal : Nat := 0        -- uint32
  sVal : PField := {}
  state : CLState := .init
  soffs : Nat := 0
  pnc : Bool := false
  deriving DecidableEq, Repr, Inhabited

def clSetSVal (st : PUIntBody) (i : Nat) : PUIntBody :=
  { st with sVal := PField.set st.soffs i, pnc := st.pnc || PField.setPanics st.soffs i }

def clEOH (st : PUIntBody) (i n crl : Nat) : Nat × Err × PUIntBody :=
  match st.state with
  | .fend => (n + crl, .ok, { st with state := .fin, soffs := 0 })
  | .found => (n + crl, .ok, { clSetSVal st i with state := .fin, soffs := 0 })
  | .init => (n + crl, .bad, st)
  | .fin => (n + crl, .bug, st)

def clStep (b : Buf) (i : Nat) (c : UInt8) (st : PUIntBody) : Step PUIntBody :=
  if isLWSch c then
    match st.state with
    | .found => lwsStd b i { clSetSVal st i with state := .fend } clEOH id
    | .init => lwsStd b i st clEOH id
    | .fend => lwsStd b i st clEOH id
    | .fin => .cont (i + 1) st
  else if isDigit c then
    match st.state with
    | .init => .cont (i + 1) { st with state := .found, soffs := i, uiVal := c.toNat - 48 }
    | .found =>
      let v := st.uiVal * 10 + (c.toNat - 48)
      if v > 4294967295 then .done i .numTooBig st
      else .cont (i + 1) { st with uiVal := v }
    | .fend => .done i .badChar st
    | .fin => .cont (i + 1) st
  else .done i .badChar st

def clMachine : Machine PUIntBody :=
  { step := clStep, eob := fun _ i st => (i, .moreBytes, st) }

/-- `ParseUIntVal` (= `ParseExpiresVal`). -/
def parseUIntVal (b : Buf) (offs : Nat) (st : PUIntBody) : Nat × Err × PUIntBody :=
  if st.state = .fin then (offs, .ok, st) else runLoop clMachine b offs st

def MaxCLenValueSize : Nat := 9
def MaxClenValue : Nat := 16777216

/-- `ParseCLenVal`. -/
def parseCLenVal (b : Buf) (offs : Nat) (st : PUIntBody) : Nat × Err × PUIntBody :=
  match parseUIntVal b offs st with
  | (o, .ok, st') =>
    if st'.sVal.len > MaxCLenValueSize || st'.uiVal > MaxClenValue then (st'.sVal.offs, .numTooBig, st')
    else (o, .ok, st')
  | r => r

def PUIntBody.parsed (s : PUIntBody) : Bool := s.state == .fin

/-! ### CSeq -/

inductive CSState where | init | foundDigit | endDigit | foundMethod | fend | fin
  deriving DecidableEq, Repr, Inhabited

structure PCSeqBody where
  cseqNo : Nat := 0     -- uint32
  methodNo : Nat := 0
  cseq : PField := {}
  method : PField := {}
  v : PField := {}
  state : CSState := .init
  soffs : Nat := 0
  pnc : Bool := false
  deriving DecidableEq, Repr, Inhabited

def MaxCSeqNValueSize : Nat := 10

def csSetMethod (st : PCSeqBody) (i : Nat) : PCSeqBody :=
  { st with method := PField.set st.soffs i, v := st.v.extend i,
            pnc := st.pnc || PField.setPanics st.soffs i || st.v.extendPanics i }

def csFinish (st : PCSeqBody) (b : Buf) (n crl : Nat) : Nat × Err × PCSeqBody :=
  let st1 := { st with state := .fin }
  if st1.cseq.len > MaxCSeqNValueSize || st1.cseqNo > 4294967295 then (st1.cseq.offs, .numTooBig, st1)
  else
    match st1.method.get? b with
    | none => (n + crl, .ok, { st1 with soffs := 0, pnc := true })
    | some nm => (n + crl, .ok, { st1 with soffs := 0, methodNo := getMethodNo nm })

def csEOH (b : Buf) (st : PCSeqBody) (i n crl : Nat) : Nat × Err × PCSeqBody :=
  match st.state with
  | .fend => csFinish st b n crl
  | .foundMethod => csFinish (csSetMethod st i) b n crl
  | .init => (n + crl, .bad, st)
  | .foundDigit => (n + crl, .bad, st)
  | .endDigit => (n + crl, .bad, st)
  | .fin => (n + crl, .bug, st)

def csStep (b : Buf) (i : Nat) (c : UInt8) (st : PCSeqBody) : Step PCSeqBody :=
  if isLWSch c then
    match st.state with
    | .foundDigit =>
      lwsStd b i { st with cseq := PField.set st.soffs i, v := PField.set st.soffs i, state := .endDigit,
                           pnc := st.pnc || PField.setPanics st.soffs i } (csEOH b) id
    | .foundMethod => lwsStd b i { csSetMethod st i with state := .fend } (csEOH b) id
    | .init => lwsStd b i st (csEOH b) id
    | .endDigit => lwsStd b i st (csEOH b) id
    | .fend => lwsStd b i st (csEOH b) id
    | .fin => .cont (i + 1) st
  else if isDigit c then
    match st.state with
    | .init => .cont (i + 1) { st with state := .foundDigit, soffs := i, cseqNo := c.toNat - 48 }
    | .foundDigit =>
      let v := st.cseqNo * 10 + (c.toNat - 48)
      if v > 4294967295 then .done i .numTooBig st
      else .cont (i + 1) { st with cseqNo := v }
    | .endDigit => .cont (i + 1) { st with state := .foundMethod, soffs := i }
    | .foundMethod => .cont (i + 1) st
    | .fend => .done i .badChar st
    | .fin => .cont (i + 1) st
  else
    match st.state with
    | .init => .done i .badChar st
    | .foundDigit => .done i .badChar st
    | .endDigit => .cont (i + 1) { st with state := .foundMethod, soffs := i }
    | .foundMethod => .cont (i + 1) st
    | .fend => .done i .badChar st
    | .fin => .cont (i + 1) st

def csMachine : Machine PCSeqBody :=
  { step := csStep, eob := fun _ i st => (i, .moreBytes, st) }

/-- `ParseCSeqVal`. -/
def parseCSeqVal (b : Buf) (offs : Nat) (st : PCSeqBody) : Nat × Err × PCSeqBody :=
  if st.state = .fin then (offs, .ok, st) else runLoop csMachine b offs st

def PCSeqBody.parsed (s : PCSeqBody) : Bool := s.state == .fin

end Sipsp
