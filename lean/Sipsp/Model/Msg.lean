/-
  Sipsp.Model.Msg — parse_contact.go, parse_pai.go, parse_headers.go, parse_msg.go
-/
import Sipsp.Model.FLine
import Sipsp.Model.NameAddr

namespace Sipsp

/-! ### Contacts (parse_contact.go) -/

structure PContacts where
  vals : Array PFromBody := #[]
  n : Nat := 0
  hNo : Nat := 0
  maxExpires : Nat := 0
  minExpires : Nat := 0
  lastHVal : PField := {}
  last : PFromBody := {}
  first : PFromBody := {}
  pnc : Bool := false
  deriving Repr, Inhabited

def PContacts.vNo (c : PContacts) : Nat := if c.n > c.vals.size then c.vals.size else c.n
def PContacts.more (c : PContacts) : Bool := c.n > c.vals.size
def PContacts.isEmpty (c : PContacts) : Bool := c.n == 0
def PContacts.parsed (c : PContacts) : Bool := c.n > 0

/-- `GetContact(n)` for `n ≥ 0`: `none` = nil. -/
def PContacts.getContact (c : PContacts) (k : Nat) : Option PFromBody :=
  if c.vNo > k then c.vals[k]?
  else if c.isEmpty then none
  else if c.n == k + 1 then some c.last
  else if k == 0 then some c.first
  else none

/-- clear `a[0 .. min(n, size-1)]` (the `Reset` loops after the fix) -/
def clearUpTo {α : Type} (a : Array α) (z : α) (n : Nat) : Array α :=
  (List.range (min (n + 1) a.size)).foldl (fun acc i => acc.set! i z) a

def PContacts.reset (c : PContacts) : PContacts :=
  { vals := clearUpTo c.vals {} c.n }

def PContacts.init (c : PContacts) (vals : Array PFromBody) : PContacts := { c with vals := vals }

/-- the element being filled: `&c.Vals[c.N]` or `&c.last` -/
def PContacts.cur (c : PContacts) : PFromBody :=
  if c.n < c.vals.size then c.vals[c.n]! else c.last
def PContacts.setCur (c : PContacts) (pf : PFromBody) : PContacts :=
  if c.n < c.vals.size then { c with vals := c.vals.set! c.n pf } else { c with last := pf }

/-- bookkeeping after a value was parsed (`case 0, ErrHdrMoreValues:`), before `c.N++` effects on `cur` -/
def PContacts.account (c : PContacts) (pf : PFromBody) : PContacts :=
  let c1 := if c.n == 0 then { c with minExpires := 4294967295 } else c
  let c2 := if c1.lastHVal.isEmpty then { c1 with lastHVal := pf.v }
            else { c1 with lastHVal := c1.lastHVal.extend pf.v.endT,
                           pnc := c1.pnc || c1.lastHVal.extendPanics pf.v.endT }
  let c3 := { c2 with n := c2.n + 1 }
  let c4 := if c3.maxExpires < pf.expires then { c3 with maxExpires := pf.expires } else c3
  let c5 := if c4.minExpires > pf.expires then { c4 with minExpires := pf.expires } else c4
  if c5.n == 1 && c5.vals.size == 0 then { c5 with first := pf } else c5

def contactsLoop (b : Buf) (offs : Nat) (c : PContacts) : Nat × Err × PContacts :=
  let inArr := c.n < c.vals.size
  match parseOneContact b offs c.cur with
  | (next, .ok, pf) => (next, .ok, (c.setCur pf).account pf)
  | (next, .moreValues, pf) =>
    let c1 := (c.setCur pf).account pf
    let c2 := if inArr then c1 else { c1 with last := {} }
    if offs < next ∧ next ≤ b.size then contactsLoop b next c2 else (next, .lbug, c2)
  | (next, .moreBytes, pf) => (next, .moreBytes, c.setCur pf)
  | (next, e, pf) => (next, e, if inArr then c.setCur pf else { c with last := {} })
termination_by b.size - offs
decreasing_by omega

/-- `ParseAllContactValues`. -/
def parseAllContactValues (b : Buf) (offs : Nat) (c : PContacts) : Nat × Err × PContacts :=
  let c0 := if c.n ≥ c.vals.size && c.last.parsed then { c with last := {} } else c
  contactsLoop b offs c0

/-! ### P-Asserted-Identity (parse_pai.go) -/

structure PPAIs where
  vals : Array PFromBody := #[{}, {}]     -- `[2]PFromBody`
  n : Nat := 0
  hNo : Nat := 0
  lastHVal : PField := {}
  last : PFromBody := {}
  pnc : Bool := false
  deriving Repr, Inhabited

def PPAIs.vNo (c : PPAIs) : Nat := if c.n > c.vals.size then c.vals.size else c.n
def PPAIs.more (c : PPAIs) : Bool := c.n > c.vals.size
def PPAIs.isEmpty (c : PPAIs) : Bool := c.n == 0
def PPAIs.parsed (c : PPAIs) : Bool := c.n > 0
def PPAIs.getPAI (c : PPAIs) (k : Nat) : Option PFromBody := if c.vNo > k then c.vals[k]? else none
def PPAIs.reset (_ : PPAIs) : PPAIs := {}

def PPAIs.cur (c : PPAIs) : PFromBody := if c.n < c.vals.size then c.vals[c.n]! else c.last
def PPAIs.setCur (c : PPAIs) (pf : PFromBody) : PPAIs :=
  if c.n < c.vals.size then { c with vals := c.vals.set! c.n pf } else { c with last := pf }

def PPAIs.account (c : PPAIs) (pf : PFromBody) : PPAIs :=
  let c2 := if c.lastHVal.isEmpty then { c with lastHVal := pf.v }
            else { c with lastHVal := c.lastHVal.extend pf.v.endT,
                          pnc := c.pnc || c.lastHVal.extendPanics pf.v.endT }
  { c2 with n := c2.n + 1 }

def paisLoop (b : Buf) (offs : Nat) (c : PPAIs) : Nat × Err × PPAIs :=
  let inArr := c.n < c.vals.size
  match parseOnePAI b offs c.cur with
  | (next, .ok, pf) => (next, .ok, (c.setCur pf).account pf)
  | (next, .moreValues, pf) =>
    let c1 := (c.setCur pf).account pf
    let c2 := if inArr then c1 else { c1 with last := {} }
    if offs < next ∧ next ≤ b.size then paisLoop b next c2 else (next, .lbug, c2)
  | (next, .moreBytes, pf) => (next, .moreBytes, c.setCur pf)
  | (next, e, pf) => (next, e, if inArr then c.setCur pf else { c with last := {} })
termination_by b.size - offs
decreasing_by omega

/-- `ParseAllPAIValues`. -/
def parseAllPAIValues (b : Buf) (offs : Nat) (c : PPAIs) : Nat × Err × PPAIs :=
  let c0 := if c.n ≥ c.vals.size && c.last.parsed then { c with last := {} } else c
  paisLoop b offs c0

/-! ### headers (parse_headers.go) -/

inductive HState where
  | init | name | nameEnd | bodyStart | val | valEnd
  | hFrom | hTo | hCallID | hCSeq | hCLen | hContact | hExpires | hPAI | fin
  deriving DecidableEq, Repr, Inhabited

structure Hdr where
  type : Nat := 0
  name : PField := {}
  val : PField := {}
  state : HState := .init
  pnc : Bool := false
  deriving DecidableEq, Repr, Inhabited

def Hdr.missing (h : Hdr) : Bool := h.type == HdrNone

structure PHdrVals where
  from_ : PFromBody := {}
  to : PFromBody := {}
  callid : PCallIDBody := {}
  cseq : PCSeqBody := {}
  clen : PUIntBody := {}
  contacts : PContacts := {}
  pais : PPAIs := {}
  expires : PUIntBody := {}
  deriving Repr, Inhabited

/-- `PHdrVals.Reset()` (keeps the caller's contact array). -/
def PHdrVals.reset (hv : PHdrVals) : PHdrVals := { contacts := hv.contacts.reset }

def PHdrVals.init (hv : PHdrVals) (cbuf : Array PFromBody) : PHdrVals :=
  { hv.reset with contacts := hv.reset.contacts.init cbuf }

/-- `MaxExpires()` -/
def PHdrVals.maxExpires (hv : PHdrVals) : Nat × Bool :=
  let (m, ok) := if hv.contacts.parsed then (hv.contacts.maxExpires, true) else (0, false)
  if hv.expires.parsed then ((if m < hv.expires.uiVal then hv.expires.uiVal else m), true) else (m, ok)

abbrev HLσ := Hdr × Option PHdrVals

/-- the `parseBody` closure of `ParseHdrLine`; returns (n, err, h, hb). -/
def parseBody (b : Buf) (o : Nat) (h : Hdr) (hb : Option PHdrVals) : Nat × Err × Hdr × Option PHdrVals :=
  match hb with
  | none => (o, .ok, h, none)
  | some hv =>
    if h.type == HdrFrom then
      if !hv.from_.parsed then
        match parseFromVal b o hv.from_ with
        | (n, e, f) => (n, e, { h with state := .hFrom, val := if e == .ok then f.v else h.val },
                        some { hv with from_ := f })
      else (o, .ok, h, hb)
    else if h.type == HdrTo then
      if !hv.to.parsed then
        match parseNameAddrPVal HdrTo b o hv.to with
        | (n, e, f) => (n, e, { h with state := .hTo, val := if e == .ok then f.v else h.val },
                        some { hv with to := f })
      else (o, .ok, h, hb)
    else if h.type == HdrCallID then
      if !hv.callid.parsed then
        match parseCallIDVal b o hv.callid with
        | (n, e, f) => (n, e, { h with state := .hCallID, val := if e == .ok then f.callID else h.val },
                        some { hv with callid := f })
      else (o, .ok, h, hb)
    else if h.type == HdrCSeq then
      if !hv.cseq.parsed then
        match parseCSeqVal b o hv.cseq with
        | (n, e, f) => (n, e, { h with state := .hCSeq, val := if e == .ok then f.v else h.val },
                        some { hv with cseq := f })
      else (o, .ok, h, hb)
    else if h.type == HdrCLen then
      if !hv.clen.parsed then
        match parseCLenVal b o hv.clen with
        | (n, e, f) => (n, e, { h with state := .hCLen, val := if e == .ok then f.sVal else h.val },
                        some { hv with clen := f })
      else (o, .ok, h, hb)
    else if h.type == HdrContact then
      let c0 := if h.state != .hContact then { hv.contacts with hNo := hv.contacts.hNo + 1, lastHVal := {} }
                else hv.contacts
      match parseAllContactValues b o c0 with
      | (n, e, c) => (n, e, { h with state := .hContact, val := if e == .ok then c.lastHVal else h.val },
                      some { hv with contacts := c })
    else if h.type == HdrExpires then
      if !hv.expires.parsed then
        match parseUIntVal b o hv.expires with
        | (n, e, f) => (n, e, { h with state := .hExpires, val := if e == .ok then f.sVal else h.val },
                        some { hv with expires := f })
      else (o, .ok, h, hb)
    else if h.type == HdrPAI then
      let c0 := if h.state != .hPAI then { hv.pais with hNo := hv.pais.hNo + 1, lastHVal := {} }
                else hv.pais
      match parseAllPAIValues b o c0 with
      | (n, e, c) => (n, e, { h with state := .hPAI, val := if e == .ok then c.lastHVal else h.val },
                      some { hv with pais := c })
    else (o, .ok, h, hb)

/-- after the ':' (position `i` = first byte after it): `Type = GetHdrType(...)`, `parseBody`, and the
    `if h.state != hBodyStart { ... return }` test. `h.state` is already `hBodyStart`. -/
def hlAfterColon (b : Buf) (i : Nat) (h : Hdr) (hb : Option PHdrVals) : Step HLσ :=
  match h.name.get? b with
  | none => .done i .badChar ({ h with pnc := true }, hb)
  | some nm =>
    let h1 := { h with type := getHdrType nm }
    match parseBody b i h1 hb with
    | (n, e, h2, hb2) =>
      if h2.state != .bodyStart then
        .done n e ((if e == .ok then { h2 with state := .fin } else h2), hb2)
      else .cont i (h2, hb2)

/-- `case hName:` with `i` the loop position. -/
def hlName (b : Buf) (i : Nat) (h : Hdr) (hb : Option PHdrVals) : Step HLσ :=
  let j := skipTokenDelim b i 58
  match b[j]? with
  | none => .done j .moreBytes (h, hb)
  | some c =>
    if isWS c then
      let h1 := { h with state := .nameEnd, name := h.name.extend j, pnc := h.pnc || h.name.extendPanics j }
      if h1.name.isEmpty then .done j .badChar (h1, hb) else .cont (j + 1) (h1, hb)
    else if c == 58 then
      let h1 := { h with state := .bodyStart, name := h.name.extend j, pnc := h.pnc || h.name.extendPanics j }
      if h1.name.isEmpty then .done j .badChar (h1, hb) else hlAfterColon b (j + 1) h1 hb
    else .done j .badChar (h, hb)

/-- `case hValEnd:` -/
def hlValEnd (b : Buf) (i : Nat) (h : Hdr) (hb : Option PHdrVals) : Step HLσ :=
  match skipLWS b i 0 with
  | (n, _, .ok) => .cont (n + 1) ({ h with state := .val }, hb)
  | (n, crl, .eoh) => .done (n + crl) .ok ({ h with state := .fin }, hb)
  | (n, _, e) => .done n e (h, hb)

/-- continuation of a header-specific value parser (`case hFrom:` … `case hPAI:`) -/
def hlCont (b : Buf) (i : Nat) (h : Hdr) (hb : Option PHdrVals) : Step HLσ :=
  match hb with
  | none => .done i .bug ({ h with pnc := true }, none)   -- Go: nil interface method call panics
  | some hv =>
    match h.state with
    | .hFrom =>
      match parseFromVal b i hv.from_ with
      | (n, e, f) => .done n e ((if e == .ok then { h with val := f.v, state := .fin } else h), some { hv with from_ := f })
    | .hTo =>
      match parseNameAddrPVal HdrTo b i hv.to with
      | (n, e, f) => .done n e ((if e == .ok then { h with val := f.v, state := .fin } else h), some { hv with to := f })
    | .hCallID =>
      match parseCallIDVal b i hv.callid with
      | (n, e, f) => .done n e ((if e == .ok then { h with val := f.callID, state := .fin } else h), some { hv with callid := f })
    | .hCSeq =>
      match parseCSeqVal b i hv.cseq with
      | (n, e, f) => .done n e ((if e == .ok then { h with val := f.v, state := .fin } else h), some { hv with cseq := f })
    | .hCLen =>
      match parseCLenVal b i hv.clen with
      | (n, e, f) => .done n e ((if e == .ok then { h with val := f.sVal, state := .fin } else h), some { hv with clen := f })
    | .hContact =>
      match parseAllContactValues b i hv.contacts with
      | (n, e, c) => .done n e ((if e == .ok then { h with val := c.lastHVal, state := .fin } else h), some { hv with contacts := c })
    | .hExpires =>
      match parseUIntVal b i hv.expires with
      | (n, e, f) => .done n e ((if e == .ok then { h with val := f.sVal, state := .fin } else h), some { hv with expires := f })
    | .hPAI =>
      match parseAllPAIValues b i hv.pais with
      | (n, e, c) => .done n e ((if e == .ok then { h with val := c.lastHVal, state := .fin } else h), some { hv with pais := c })
    | _ => .done i .bug (h, hb)

def hlStep (b : Buf) (i : Nat) (c : UInt8) (st : HLσ) : Step HLσ :=
  let (h, hb) := st
  match h.state with
  | .init =>
    if c == 13 then
      match b[i + 1]? with
      | none => .done i .moreBytes (h, hb)
      | some c1 =>
        if c1 == 10 then .done (i + 2) .empty ({ h with state := .fin }, hb)
        else .done (i + 1) .empty ({ h with state := .fin }, hb)
    else if c == 10 then .done (i + 1) .empty ({ h with state := .fin }, hb)
    else hlName b i { h with state := .name, name := PField.set i i } hb
  | .name => hlName b i h hb
  | .nameEnd =>
    let j := skipWS b i
    match b[j]? with
    | none => .done j .moreBytes (h, hb)
    | some c1 =>
      if c1 == 58 then hlAfterColon b (j + 1) { h with state := .bodyStart } hb
      else .done j .badChar (h, hb)
  | .bodyStart =>
    match skipLWS b i 0 with
    | (n, _, .ok) => .cont (n + 1) ({ h with state := .val, val := PField.set n n }, hb)
    | (n, crl, .eoh) => .done (n + crl) .ok ({ h with state := .fin }, hb)
    | (n, _, e) => .done n e (h, hb)
  | .val =>
    let j := skipToken b i
    match b[j]? with
    | none => .done j .moreBytes (h, hb)
    | some _ =>
      hlValEnd b j { h with val := h.val.extend j, pnc := h.pnc || h.val.extendPanics j, state := .valEnd } hb
  | .valEnd => hlValEnd b i h hb
  | .fin => .done i .bug (h, hb)
  | _ => hlCont b i h hb

def hlMachine : Machine HLσ :=
  { step := hlStep, eob := fun _ i st => (i, .moreBytes, st) }

/-- `ParseHdrLine(buf, offs, h, hb)`. -/
def parseHdrLine (b : Buf) (offs : Nat) (h : Hdr) (hb : Option PHdrVals) : Nat × Err × Hdr × Option PHdrVals :=
  match runLoop hlMachine b offs (h, hb) with
  | (o, e, (h', hb')) => (o, e, h', hb')

structure HdrLst where
  pflags : Nat := 0
  n : Nat := 0
  hdrs : Array Hdr := #[]
  h : Array Hdr := Array.replicate 13 {}
  hdr : Hdr := {}
  deriving Repr, Inhabited

/-- `HdrLst.Reset()`: clears the whole caller array. -/
def HdrLst.reset (hl : HdrLst) : HdrLst := { hdrs := hl.hdrs.map (fun _ => {}) }

/-- `GetHdr(t)`: `none` = nil. -/
def HdrLst.getHdr (hl : HdrLst) (t : Nat) : Option Hdr :=
  if t > HdrNone && t < HdrOther then hl.h[t - 1]? else none

/-- `SetHdr(newhdr)`. -/
def HdrLst.setHdr (hl : HdrLst) (nh : Hdr) : HdrLst :=
  if nh.type ≥ 1 && nh.type - 1 < hl.h.size then
    match hl.h[nh.type - 1]? with
    | some old => if old.missing then { hl with h := hl.h.set! (nh.type - 1) nh } else hl
    | none => hl
  else hl

def HdrLst.cur (hl : HdrLst) : Hdr := if hl.n < hl.hdrs.size then hl.hdrs[hl.n]! else hl.hdr
def HdrLst.setCur (hl : HdrLst) (h : Hdr) : HdrLst :=
  if hl.n < hl.hdrs.size then { hl with hdrs := hl.hdrs.set! hl.n h } else { hl with hdr := h }

/-- `case 0:` of ParseHeaders, `h` is the header just parsed (already stored with `setCur`). -/
def HdrLst.accept (hl : HdrLst) (h : Hdr) : HdrLst :=
  let inArr := hl.n < hl.hdrs.size
  let hl1 := { hl with pflags := (hl.pflags ||| (1 <<< h.type)) % 65536 }
  let hl2 := hl1.setHdr h
  let hl3 := if inArr then hl2 else { hl2 with hdr := {} }
  { hl3 with n := hl3.n + 1 }

/-- `ParseHeaders(buf, offs, hl, hb)`. -/
def parseHeaders (b : Buf) (offs : Nat) (hl : HdrLst) (hb : Option PHdrVals) : Nat × Err × HdrLst × Option PHdrVals :=
  if offs < b.size then
    match parseHdrLine b offs hl.cur hb with
    | (n, .ok, h, hb') =>
      let hl' := (hl.setCur h).accept h
      if offs < n then parseHeaders b n hl' hb' else (n, .lbug, hl', hb')
    | (n, .empty, h, hb') => if hl.n > 0 then (n, .ok, hl.setCur h, hb') else (n, .empty, hl.setCur h, hb')
    | (n, e, h, hb') => (n, e, hl.setCur h, hb')
  else (offs, .moreBytes, hl, hb)
termination_by b.size - offs
decreasing_by omega

/-! ### whole message (parse_msg.go) -/

inductive MsgState where
  | init | fline | headers | body | err | noCLen | fin
  deriving DecidableEq, Repr, Inhabited

def SIPMsgSkipBodyF : Nat := 1
def SIPMsgCLenReqF : Nat := 2
def SIPMsgNoMoreDataF : Nat := 4

structure PSIPMsg where
  fl : PFLine := {}
  pv : PHdrVals := {}
  hl : HdrLst := {}
  body : PField := {}
  /-- `len(msg.Buf)`; `Buf` always is a prefix `buf[0:bufLen]` of the parsed buffer (or what Init got) -/
  bufLen : Nat := 0
  /-- `RawMsg = Buf[rawOffs : rawOffs+rawLen]` -/
  rawOffs : Nat := 0
  rawLen : Nat := 0
  state : MsgState := .init
  offs : Nat := 0
  pnc : Bool := false
  deriving Repr, Inhabited

/-- `PSIPMsg.Reset()`. -/
def PSIPMsg.reset (m : PSIPMsg) : PSIPMsg :=
  { bufLen := m.bufLen,
    hl := { hdrs := m.hl.reset.hdrs },
    pv := { contacts := { vals := m.pv.reset.contacts.vals } } }

/-- `PSIPMsg.Init(msg, hdrs, contacts)`; `none` = nil (use the private 10-element arrays, which
    `Reset` has just zeroed as part of `*m = PSIPMsg{}`). -/
def PSIPMsg.init (m : PSIPMsg) (msgLen : Nat) (hdrs : Option (Array Hdr)) (contacts : Option (Array PFromBody)) : PSIPMsg :=
  let m1 := m.reset
  { m1 with bufLen := msgLen,
            hl := { m1.hl with hdrs := hdrs.getD (Array.replicate 10 {}) },
            pv := { m1.pv with contacts := m1.pv.contacts.init (contacts.getD (Array.replicate 10 {})) } }

def PSIPMsg.parsed (m : PSIPMsg) : Bool := m.state == .fin
def PSIPMsg.isErr (m : PSIPMsg) : Bool := m.state == .err
def PSIPMsg.request (m : PSIPMsg) : Bool := m.fl.request
def PSIPMsg.method (m : PSIPMsg) : Nat := if m.request then m.fl.methodNo else m.pv.cseq.methodNo

/-- `msg.Buf = buf[0:o]; msg.RawMsg = msg.Buf[msg.offs:o]` -/
def PSIPMsg.setBufs (m : PSIPMsg) (b : Buf) (o : Nat) : PSIPMsg :=
  { m with bufLen := o, rawOffs := m.offs, rawLen := o - m.offs,
           pnc := m.pnc || decide (o > b.size) || decide (m.offs > o) }

/-- labels errFL / errHL / errBUG -/
def msgErr (m : PSIPMsg) (o : Nat) (e : Err) (flags : Nat) : Nat × Err × PSIPMsg :=
  if e != .moreBytes then (o, e, { m with state := .err })
  else if hasFlag flags SIPMsgNoMoreDataF then (o, .trunc, { m with state := .err })
  else (o, e, m)

/-- label `end:` -/
def msgEnd (m : PSIPMsg) (b : Buf) (o : Nat) : Nat × Err × PSIPMsg :=
  let m1 := { m with body := m.body.extend o, pnc := m.pnc || m.body.extendPanics o }
  (o, .ok, { m1.setBufs b o with state := .fin })

/-- `case SIPMsgBody:` -/
def msgBody (b : Buf) (o : Nat) (m : PSIPMsg) (flags : Nat) : Nat × Err × PSIPMsg :=
  let m1 := { m with body := PField.set o o }
  if hasFlag flags SIPMsgSkipBodyF then
    if hasFlag flags SIPMsgCLenReqF && !m1.pv.clen.parsed then
      (o, .noCLen, { m1.setBufs b o with state := .noCLen })
    else msgEnd { m1 with state := .fin } b o
  else if m1.pv.clen.parsed then
    if o + m1.pv.clen.uiVal > b.size then
      if hasFlag flags SIPMsgNoMoreDataF then msgEnd m1 b b.size
      else (o, .moreBytes, m1)
    else msgEnd m1 b (o + m1.pv.clen.uiVal)
  else if hasFlag flags SIPMsgCLenReqF then msgEnd m1 b o
  else msgEnd m1 b b.size

/-- `case SIPMsgHeaders:` (falls through to the body) -/
def msgHeaders (b : Buf) (o : Nat) (m : PSIPMsg) (flags : Nat) : Nat × Err × PSIPMsg :=
  match parseHeaders b o m.hl (some m.pv) with
  | (o', .ok, hl, hb) => msgBody b o' { m with hl := hl, pv := hb.getD m.pv, state := .body } flags
  | (o', e, hl, hb) => msgErr { m with hl := hl, pv := hb.getD m.pv } o' e flags

/-- `case SIPMsgFLine:` -/
def msgFLine (b : Buf) (o : Nat) (m : PSIPMsg) (flags : Nat) : Nat × Err × PSIPMsg :=
  match parseFLine b o m.fl with
  | (o', .ok, fl) => msgHeaders b o' { m with fl := fl, state := .headers } flags
  | (o', e, fl) => msgErr { m with fl := fl } o' e flags

/-- `ParseSIPMsg(buf, offs, msg, flags)`. -/
def parseSIPMsg (b : Buf) (offs : Nat) (m : PSIPMsg) (flags : Nat) : Nat × Err × PSIPMsg :=
  match m.state with
  | .init => msgFLine b offs { m with offs := offs, state := .fline } flags
  | .fline => msgFLine b offs m flags
  | .headers => msgHeaders b offs m flags
  | .body => msgBody b offs m flags
  | _ => msgErr m offs .bug flags

end Sipsp
