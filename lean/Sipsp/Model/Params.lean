/-
  Sipsp.Model.Params — parse_params.go (SkipQuoted, tokAllowedChar, ParseTokenParam),
  parse_uri_params.go, parse_uri_hdrs.go
-/
import Sipsp.Model.Lex
import Sipsp.Model.Tables

namespace Sipsp

/-! ### SkipQuoted -/

def sqStep (b : Buf) (i : Nat) (c : UInt8) (_ : Unit) : Step Unit :=
  if c == 34 then .done (i + 1) .ok ()
  else if c == 92 then
    match b[i + 1]? with
    | some c1 => if isCRLFch c1 then .done (i + 1) .badChar () else .cont (i + 2) ()
    | none => .done i .moreBytes ()
  else if c == 10 || c == 13 || c == 127 then .done i .badChar ()
  else if c < 33 && c != 32 && c != 9 then .done i .badChar ()
  else .cont (i + 1) ()

def sqMachine : Machine Unit := { step := sqStep, eob := fun _ i _ => (i, .moreBytes, ()) }

/-- `SkipQuoted(buf, offs)`. -/
def skipQuoted (b : Buf) (offs : Nat) : Nat × Err :=
  let r := runLoop sqMachine b offs ()
  (r.1, r.2.1)

/-! ### tokAllowedChar -/

def tokAllowedChar (c : UInt8) (flags : Nat) : Bool :=
  if c ≤ 32 || c ≥ 127 then false
  else if (48 ≤ c && c ≤ 57) || (65 ≤ c && c ≤ 90) || (97 ≤ c && c ≤ 122) then true
  else if c == 45 || c == 95 || c == 46 || c == 33 || c == 126 || c == 42 || c == 39 ||
          c == 40 || c == 41 || c == 37 then true
  else if c == 91 || c == 93 || c == 47 || c == 58 || c == 43 || c == 36 then true
  else if c == 38 then hasFlag flags POptTokURIParamF
  else if c == 63 then !hasFlag flags POptTokURIParamF
  else false

/-! ### ParseTokenParam -/

inductive TPState where
  | init | name | fEq | fVal | val | fSep | fNxt | initNxtVal | quotedVal | err | fin
  deriving DecidableEq, Repr, Inhabited

structure PTokParam where
  all : PField := {}
  name : PField := {}
  val : PField := {}
  state : TPState := .init
  pnc : Bool := false
  deriving DecidableEq, Repr, Inhabited

def PTokParam.isEmpty (p : PTokParam) : Bool := p.all.isEmpty

def tpSep (flags : Nat) : UInt8 :=
  if hasFlag flags (POptParamAmpSepF ||| POptTokURIHdrF) then 38 else 59
def tpTerm (flags : Nat) : UInt8 :=
  if hasFlag flags (POptTokQmTermF ||| POptTokURIParamF) then 63
  else if hasFlag flags POptTokCommaTermF then 44
  else 0

def PTokParam.extName (p : PTokParam) (e : Nat) : PTokParam :=
  { p with name := p.name.extend e, pnc := p.pnc || p.name.extendPanics e }
def PTokParam.extAll (p : PTokParam) (e : Nat) : PTokParam :=
  { p with all := p.all.extend e, pnc := p.pnc || p.all.extendPanics e }
def PTokParam.extVal (p : PTokParam) (e : Nat) : PTokParam :=
  { p with val := p.val.extend e, pnc := p.pnc || p.val.extendPanics e }

/-- label `endOfHdr` -/
def tpEOH (p : PTokParam) (n crl : Nat) : Nat × Err × PTokParam :=
  match p.state with
  | .init | .initNxtVal => (n + crl, .eoh, p)
  | .fNxt | .name | .fEq | .fVal | .val | .fSep => (n + crl, .eoh, { p with state := .fin })
  | _ => (n + crl, .bug, { p with state := .err })

/-- label `moreBytes` (the `POptInputEndF` handling included) -/
def tpMoreBytes (b : Buf) (flags : Nat) (p : PTokParam) (i : Nat) : Nat × Err × PTokParam :=
  if hasFlag flags POptInputEndF then
    match p.state with
    | .init | .initNxtVal | .fNxt | .fSep | .fVal | .fEq => tpEOH p b.size 0
    | .name => tpEOH ((p.extName i).extAll i) b.size 0
    | .val => tpEOH ((p.extVal i).extAll i) b.size 0
    | .quotedVal => (i, .moreBytes, p)
    | _ => (i, .bug, p)
  else (i, .moreBytes, p)

def stepOfRes {σ : Type} (r : Nat × Err × σ) : Step σ := .done r.1 r.2.1 r.2.2

/-- the whitespace pattern of ParseTokenParam: `upd` is applied to the object once skipLWS did not
    ask for more bytes (state advance of the `paramName` / `paramVal` cases). -/
def tpLWS (b : Buf) (flags : Nat) (i : Nat) (p : PTokParam) (upd : PTokParam → PTokParam) : Step PTokParam :=
  match skipLWS b i flags with
  | (_, _, .moreBytes) => stepOfRes (tpMoreBytes b flags p i)
  | (n, _, .ok) => .cont n (upd p)
  | (n, crl, .eoh) => stepOfRes (tpEOH (upd p) n crl)
  | (n, _, e) => .done n e (upd p)

/-- `POptTokSpTermF`: a new token after whitespace ends the parameter (paramFSep version, with the
    previous-byte test; `offs` is the offset the call was started with). -/
def tpSpTermSep (b : Buf) (offs i : Nat) (p : PTokParam) : Step PTokParam :=
  let p1 := { p with state := .fin }
  if i ≥ offs + 1 then
    match b[i - 1]? with
    | some c => if isLWSch c then .done (i - 1) .ok p1 else .done i .ok p1
    | none => .done i .ok p1
  else .done i .ok p1

/-- same in paramFEq (no previous-byte test in the source) -/
def tpSpTermEq (offs i : Nat) (p : PTokParam) : Step PTokParam :=
  if i ≥ offs + 1 then .done (i - 1) .ok { p with state := .fin } else .done i .ok { p with state := .fin }

def tpStep (flags offs : Nat) (b : Buf) (i : Nat) (c : UInt8) (p : PTokParam) : Step PTokParam :=
  let sep := tpSep flags
  let term := tpTerm flags
  match p.state with
  | .init | .initNxtVal | .fNxt =>
    if isLWSch c then tpLWS b flags i p id
    else if c == sep then .cont (i + 1) p
    else if p.state == .fNxt && c == term && term != 0 then .done i .ok { p with state := .fin }
    else if !tokAllowedChar c flags then .done i .badChar { p with state := .err }
    else if p.state == .fNxt then .done i .moreValues { p with state := .initNxtVal }
    else .cont (i + 1) { p with state := .name, name := PField.set i i, all := PField.set i i }
  | .name =>
    if isLWSch c then tpLWS b flags i p (fun p => { (p.extName i).extAll i with state := .fEq })
    else if c == 61 then .cont (i + 1) { (p.extName i).extAll (i + 1) with state := .fVal }
    else if c == term && term != 0 then .done i .ok { (p.extName i).extAll i with state := .fin }
    else if c == sep then .cont (i + 1) { (p.extName i).extAll i with state := .fNxt }
    else if !tokAllowedChar c flags then .done i .badChar { p with state := .err }
    else .cont (i + 1) p
  | .fEq =>
    if isLWSch c then tpLWS b flags i p id
    else if c == 61 then .cont (i + 1) { p with state := .fVal }
    else if c == term && term != 0 then .done i .ok { p with state := .fin }
    else if c == sep then .cont (i + 1) { p with state := .fNxt }
    else if !tokAllowedChar c flags then .done i .badChar { p with state := .err }
    else if hasFlag flags POptTokSpTermF then tpSpTermEq offs i p
    else .done i .badChar { p with state := .err }
  | .fVal =>
    if isLWSch c then tpLWS b flags i p id
    else if c == 34 then
      .cont (i + 1) { ({ p with val := PField.set i i }).extAll i with state := .quotedVal }
    else if c == term && term != 0 then .done i .ok { p with val := PField.set i i, state := .fin }
    else if c == sep then
      .cont (i + 1) { ({ p with val := PField.set i i }).extAll i with state := .fNxt }
    else if !tokAllowedChar c flags then .done i .badChar { p with state := .err }
    else .cont (i + 1) { ({ p with val := PField.set i i }).extAll i with state := .val }
  | .val =>
    if isLWSch c then tpLWS b flags i p (fun p => { (p.extVal i).extAll i with state := .fSep })
    else if c == term && term != 0 then .done i .ok { (p.extVal i).extAll i with state := .fin }
    else if c == sep then .cont (i + 1) { (p.extVal i).extAll i with state := .fNxt }
    else if !tokAllowedChar c flags then .done i .badChar { p with state := .err }
    else .cont (i + 1) p
  | .quotedVal =>
    match skipQuoted b i with
    | (n, .moreBytes) => stepOfRes (tpMoreBytes b flags p n)
    | (n, .ok) => .cont n { (p.extVal n).extAll n with state := .fSep }
    | (n, .eoh) => stepOfRes (tpEOH p n 0)
    | (n, e) => .done n e p
  | .fSep =>
    if isLWSch c then tpLWS b flags i p id
    else if c == term && term != 0 then .done i .ok { p with state := .fin }
    else if c == sep then .cont (i + 1) { p with state := .fNxt }
    else if !tokAllowedChar c flags then .done i .badChar { p with state := .err }
    else if hasFlag flags POptTokSpTermF then tpSpTermSep b offs i p
    else .done i .badChar { p with state := .err }
  | .err | .fin => .cont (i + 1) p

def tpMachine (flags offs : Nat) : Machine PTokParam :=
  { step := tpStep flags offs, eob := fun b i p => tpMoreBytes b flags p i }

/-- `ParseTokenParam(buf, offs, param, flags)`. -/
def parseTokenParam (b : Buf) (offs : Nat) (p : PTokParam) (flags : Nat) : Nat × Err × PTokParam :=
  if p.state = .fin then (offs, .ok, p) else runLoop (tpMachine flags offs) b offs p

/-! ### URI parameter list -/

structure URIParam where
  param : PTokParam := {}
  t : Nat := 0
  deriving DecidableEq, Repr, Inhabited

structure URIParamsLst where
  params : Array URIParam := #[]
  n : Nat := 0
  types : Nat := 0
  tmp : URIParam := {}
  pnc : Bool := false
  deriving Repr, Inhabited

def clearUpToP {α : Type} (a : Array α) (z : α) (n : Nat) : Array α :=
  (List.range (min (n + 1) a.size)).foldl (fun acc i => acc.set! i z) a

def URIParamsLst.reset (l : URIParamsLst) : URIParamsLst := { params := clearUpToP l.params {} l.n }
def URIParamsLst.pNo (l : URIParamsLst) : Nat := if l.n > l.params.size then l.params.size else l.n
def URIParamsLst.more (l : URIParamsLst) : Bool := l.n > l.params.size
def URIParamsLst.isEmpty (l : URIParamsLst) : Bool := l.n == 0
def URIParamsLst.cur (l : URIParamsLst) : URIParam := if l.n < l.params.size then l.params[l.n]! else l.tmp
def URIParamsLst.setCur (l : URIParamsLst) (p : URIParam) : URIParamsLst :=
  if l.n < l.params.size then { l with params := l.params.set! l.n p } else { l with tmp := p }

def uriParamsLoop (b : Buf) (offs : Nat) (l : URIParamsLst) (flags vNo : Nat) : Nat × Nat × Err × URIParamsLst :=
  let inArr := l.n < l.params.size
  let p := l.cur
  match parseTokenParam b offs p.param flags with
  | (next, e, tp) =>
    if e == .ok || e == .moreValues || e == .eoh then
      match tp.name.get? b with
      | none => (next, vNo, e, { l.setCur { p with param := tp } with pnc := true })
      | some nm =>
        let t := uriParamResolve nm
        let l1 := l.setCur { param := tp, t := t }
        let l2 := { l1 with types := l1.types ||| t, n := l1.n + 1 }
        let l3 := if inArr then l2 else { l2 with tmp := {} }
        if e == .moreValues then
          -- a resumed call may report "more values" at its own start offset (it was suspended right
          -- after a separator); the next element then starts in its initial state
          if next ≤ b.size ∧ (offs < next ∨ (offs = next ∧ p.param.state = .fNxt ∧ l3.cur.param.state ≠ .fNxt)) then
            uriParamsLoop b next l3 flags (vNo + 1)
          else (next, vNo + 1, .lbug, l3)
        else (next, vNo + 1, e, l3)
    else if e == .moreBytes then (next, vNo, e, l.setCur { p with param := tp })
    else (next, vNo, e, l.setCur {})
termination_by 2 * (b.size - offs) + (if l.cur.param.state = .fNxt then 1 else 0)
decreasing_by
  rename_i h
  rcases h with ⟨h1, h2 | ⟨h2, h3, h4⟩⟩
  · split <;> split <;> omega
  · subst h2; simp only [p] at h3; rw [if_pos h3, if_neg h4]; omega

/-- `ParseAllURIParams(buf, offs, l, flags)`: (offset, values parsed in this call, err). -/
def parseAllURIParams (b : Buf) (offs : Nat) (l : URIParamsLst) (flags : Nat) : Nat × Nat × Err × URIParamsLst :=
  uriParamsLoop b offs l (flags ||| POptParamSemiSepF) 0

/-! ### URI header list -/

structure URIHdrsLst where
  hdrs : Array PTokParam := #[]
  n : Nat := 0
  tmp : PTokParam := {}
  deriving Repr, Inhabited

def URIHdrsLst.reset (l : URIHdrsLst) : URIHdrsLst := { hdrs := clearUpToP l.hdrs {} l.n }
def URIHdrsLst.hNo (l : URIHdrsLst) : Nat := if l.n > l.hdrs.size then l.hdrs.size else l.n
def URIHdrsLst.more (l : URIHdrsLst) : Bool := l.n > l.hdrs.size
def URIHdrsLst.isEmpty (l : URIHdrsLst) : Bool := l.n == 0
def URIHdrsLst.cur (l : URIHdrsLst) : PTokParam := if l.n < l.hdrs.size then l.hdrs[l.n]! else l.tmp
def URIHdrsLst.setCur (l : URIHdrsLst) (p : PTokParam) : URIHdrsLst :=
  if l.n < l.hdrs.size then { l with hdrs := l.hdrs.set! l.n p } else { l with tmp := p }

def uriHdrsLoop (b : Buf) (offs : Nat) (l : URIHdrsLst) (flags vNo : Nat) : Nat × Nat × Err × URIHdrsLst :=
  let inArr := l.n < l.hdrs.size
  match parseTokenParam b offs l.cur flags with
  | (next, e, tp) =>
    if e == .ok || e == .moreValues || e == .eoh then
      let l1 := l.setCur tp
      let l2 := { l1 with n := l1.n + 1 }
      let l3 := if inArr then l2 else { l2 with tmp := {} }
      if e == .moreValues then
        if next ≤ b.size ∧ (offs < next ∨ (offs = next ∧ l.cur.state = .fNxt ∧ l3.cur.state ≠ .fNxt)) then
          uriHdrsLoop b next l3 flags (vNo + 1)
        else (next, vNo + 1, .lbug, l3)
      else (next, vNo + 1, e, l3)
    else if e == .moreBytes then (next, vNo, e, l.setCur tp)
    else (next, vNo, e, l.setCur {})
termination_by 2 * (b.size - offs) + (if l.cur.state = .fNxt then 1 else 0)
decreasing_by
  rename_i h
  rcases h with ⟨h1, h2 | ⟨h2, h3, h4⟩⟩
  · split <;> split <;> omega
  · subst h2; rw [if_pos h3, if_neg h4]; omega

/-- `ParseAllURIHdrs(buf, offs, l, flags)`. -/
def parseAllURIHdrs (b : Buf) (offs : Nat) (l : URIHdrsLst) (flags : Nat) : Nat × Nat × Err × URIHdrsLst :=
  uriHdrsLoop b offs l (flags ||| POptParamAmpSepF ||| POptTokURIHdrF) 0

end Sipsp
