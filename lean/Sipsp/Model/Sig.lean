/-
  Sipsp.Model.Sig — ip_prefix.go, hex2i.go (hexDigToI), msg_sig.go
-/
import Sipsp.Model.Msg
import Sipsp.Model.Params

namespace Sipsp

/-! ### IPv4 (ip_prefix.go) -/

structure IP4St where
  ip : Array Nat := #[0, 0, 0, 0]
  pos : Nat := 0
  digits : Nat := 0
  deriving Repr, Inhabited

/-- `IP4Prefix(buf[start:], dst)`; `o` is absolute; returns (ok, o - start, err, ip). -/
def ip4Loop (b : Buf) (start o : Nat) (st : IP4St) : Bool × Nat × Err × Array Nat :=
  match hb : b[o]? with
  | none =>
    if st.pos < 3 || st.digits == 0 then (false, o - start, .moreBytes, st.ip)
    else (true, o - start, .ok, st.ip)
  | some c =>
    if isDigit c then
      let cur := st.ip[st.pos]!
      if st.digits + 1 > 3 || cur * 10 + (c.toNat - 48) > 255 then
        if st.pos < 3 then (false, o - start, .bad, st.ip)
        else (true, o - start, .moreValues, st.ip)
      else
        ip4Loop b start (o + 1) { st with digits := st.digits + 1, ip := st.ip.set! st.pos (cur * 10 + (c.toNat - 48)) }
    else if c == 46 then
      if st.digits == 0 then (false, o - start, .bad, st.ip)
      else if st.pos + 1 > 3 then (true, o - start, .badChar, st.ip)
      else ip4Loop b start (o + 1) { st with pos := st.pos + 1, digits := 0, ip := st.ip.set! (st.pos + 1) 0 }
    else
      if st.pos < 3 || st.digits == 0 then (false, o - start, .bad, st.ip)
      else (true, o - start, .badChar, st.ip)
termination_by b.size - o
decreasing_by
  all_goals
    have hi : o < b.size := by
      rcases Nat.lt_or_ge o b.size with h | h
      · exact h
      · rw [Array.getElem?_eq_none h] at hb; cases hb
    omega

def ip4PrefixAt (b : Buf) (start : Nat) : Bool × Nat × Err × Array Nat := ip4Loop b start start {}

/-- `IP4Prefix(buf, dst)` -/
def ip4Prefix (b : Buf) : Bool × Nat × Err × Array Nat := ip4PrefixAt b 0

/-- the inner `for o := offs; o < dOffs; o++` of ContainsIP4 -/
def containsIP4Try (b : Buf) (o dOffs : Nat) : Option (Nat × Nat × Array Nat) :=
  if o < dOffs then
    match ip4PrefixAt b o with
    | (true, nxt, _, ip) => some (o, nxt, ip)
    | _ => containsIP4Try b (o + 1) dOffs
  else none
termination_by dOffs - o

def containsIP4Loop (b : Buf) (i : Nat) : Option (Nat × Nat × Array Nat) :=
  if i < b.size then
    match hidx : indexByteFrom b i 46 with
    | none => none
    | some dOffs =>
      let offs := if dOffs ≥ 3 then dOffs - 3 else i
      match containsIP4Try b offs dOffs with
      | some r => some r
      | none => if i < dOffs + 1 then containsIP4Loop b (dOffs + 1) else none
  else none
termination_by b.size - i
decreasing_by omega

/-- `ContainsIP4(buf, dst)`: `some (offs, len, ip)` or `none` (= false,0,0). -/
def containsIP4 (b : Buf) : Option (Nat × Nat × Array Nat) := containsIP4Loop b 0

/-! ### IPv6 -/

def hexDigToI (c : UInt8) : Int :=
  if c ≥ 128 then -1   -- any negative value; only the sign is used
  else if 48 ≤ c && c ≤ 57 then (c.toNat - 48 : Nat)
  else if 65 ≤ c && c ≤ 70 then (c.toNat - 65 + 10 : Nat)
  else if 97 ≤ c && c ≤ 102 then (c.toNat - 97 + 10 : Nat)
  else -1

structure IP6St where
  a1 : Array Nat := Array.replicate 8 0
  a2 : Array Nat := Array.replicate 8 0
  use2 : Bool := false
  i : Nat := 0
  i1 : Nat := 0
  colonsNo : Nat := 0
  foundColon : Bool := false
  digits : Nat := 0
  bracketSt : Bool := false
  bracketEnd : Bool := false
  err : Err := .ok
  pnc : Bool := false
  deriving Repr, Inhabited

inductive IP6Exit where
  | loopEnd (o : Nat) (st : IP6St)          -- loop finished or `break`: runs `if !foundColon { i++ }`
  | gotoEnd (o : Nat) (st : IP6St)          -- `goto end`
  | ret (o : Nat) (e : Err)                 -- early `return false, o, e`

def ip6Loop (b : Buf) (o : Nat) (st : IP6St) : IP6Exit :=
  match hb : b[o]? with
  | none => .loopEnd o st
  | some c =>
    if c == 58 then
      let st1 := { st with colonsNo := st.colonsNo + 1 }
      if st1.colonsNo > 7 && (st1.colonsNo > 8 || (!st1.use2 && !st1.foundColon)) then
        .gotoEnd o { st1 with err := .badChar }
      else if st1.foundColon then
        if st1.use2 then .ret o .bad
        else ip6Loop b (o + 1) { st1 with i1 := st1.i, i := 0, use2 := true }
      else ip6Loop b (o + 1) { st1 with foundColon := true, i := st1.i + 1, digits := 0 }
    else
      let v := hexDigToI c
      if v ≥ 0 then
        let st1 := { st with foundColon := false, digits := st.digits + 1 }
        if st1.digits > 4 then .loopEnd o { st1 with err := .moreValues }
        else if st1.i ≥ 8 then .loopEnd o { st1 with pnc := true }
        else if st1.use2 then
          ip6Loop b (o + 1) { st1 with a2 := st1.a2.set! st1.i ((st1.a2[st1.i]! * 16 + v.toNat) % 65536) }
        else
          ip6Loop b (o + 1) { st1 with a1 := st1.a1.set! st1.i ((st1.a1[st1.i]! * 16 + v.toNat) % 65536) }
      else if st.bracketSt && c == 93 then .loopEnd o { st with bracketEnd := true }
      else .loopEnd o { st with err := .badChar }
termination_by b.size - o
decreasing_by
  all_goals
    have hi : o < b.size := by
      rcases Nat.lt_or_ge o b.size with h | h
      · exact h
      · rw [Array.getElem?_eq_none h] at hb; cases hb
    omega

/-- code from label `end:` on. Returns (res, o, err, addr, panicked). -/
def ip6End (b : Buf) (start o : Nat) (st : IP6St) : Bool × Nat × Err × Array Nat × Bool :=
  let (res, err) :=
    if st.digits == 0 && !st.foundColon then (false, if !st.bracketEnd then Err.moreBytes else Err.bad)
    else (true, st.err)
  let early : Option (Bool × Nat × Err × Array Nat × Bool) :=
    if !st.use2 && (st.colonsNo < 7 || st.digits == 0) then
      if err != .ok || st.bracketEnd then some (false, o - start, .bad, st.a1, st.pnc)
      else some (false, o - start, .moreBytes, st.a1, st.pnc)
    else none
  match early with
  | some r => r
  | none =>
    -- copy(addrBuf1[i1+rest:], addrBuf2[:i]) with rest = 8 - i - i1, i.e. to positions 8-i ..
    let a1 := if st.use2 then
                (List.range (min st.i 8)).foldl (fun a k => a.set! (8 - st.i + k) (st.a2[k]!)) st.a1
              else st.a1
    let pnc := st.pnc || (st.use2 && decide (st.i > 8))
    if err == .ok then
      if st.bracketSt then
        if st.bracketEnd then
          let o' := o + 1
          (res, o' - start, (if o' < b.size then .moreValues else .ok), a1, pnc)
        else (res, o - start, .moreBytes, a1, pnc)
      else if st.bracketEnd then (res, o - start, .badChar, a1, pnc)
      else (res, o - start, .ok, a1, pnc)
    else if err == .moreValues then
      if st.bracketSt && !st.bracketEnd then (false, o - start, .bad, a1, pnc) else (res, o - start, err, a1, pnc)
    else if err == .badChar && st.bracketSt then (false, o - start, .bad, a1, pnc)
    else (res, o - start, err, a1, pnc)

/-- `IP6Prefix(buf[start:], dst)` -/
def ip6PrefixAt (b : Buf) (start : Nat) : Bool × Nat × Err × Array Nat × Bool :=
  let br := match b[start]?, b[start + 1]? with
            | some c0, some _ => c0 == 91
            | _, _ => false
  let st0 : IP6St := { bracketSt := br }
  match ip6Loop b (if br then start + 1 else start) st0 with
  | .ret o e => (false, o - start, e, st0.a1, false)
  | .gotoEnd o st => ip6End b start o st
  | .loopEnd o st => ip6End b start o (if !st.foundColon then { st with i := st.i + 1 } else st)

def ip6Prefix (b : Buf) := ip6PrefixAt b 0

def containsIP6Try (b : Buf) (o dOffs : Nat) : Option (Nat × Nat × Array Nat × Bool) :=
  if o < dOffs then
    match ip6PrefixAt b o with
    | (true, nxt, _, a, p) => some (o, nxt, a, p)
    | (false, _, _, _, true) => some (o, 0, #[], true)   -- panic
    | _ => containsIP6Try b (o + 1) dOffs
  else none
termination_by dOffs - o

def containsIP6Loop (b : Buf) (i : Nat) : Option (Nat × Nat × Array Nat × Bool) :=
  if i < b.size then
    match indexByteFrom b i 58 with
    | none => none
    | some dOffs =>
      let offs := if dOffs ≥ 5 then dOffs - 5 else i
      match containsIP6Try b offs dOffs with
      | some r => some r
      | none => if i < dOffs + 1 then containsIP6Loop b (dOffs + 1) else none
  else none
termination_by b.size - i
decreasing_by omega

/-- `ContainsIP6(buf, dst)` -/
def containsIP6 (b : Buf) : Option (Nat × Nat × Array Nat × Bool) := containsIP6Loop b 0

/-! ### string signatures (msg_sig.go) -/

def SigIPStartF : Nat := 1
def SigIPEndF : Nat := 2
def SigIPMiddleF : Nat := 4
def SigHasAtF : Nat := 8
def SigHasDotF : Nat := 16
def SigHasColonF : Nat := 32
def SigHasDashF : Nat := 64
def SigHasStarF : Nat := 128
def SigHasDivF : Nat := 256
def SigHasPlusF : Nat := 512
def SigHasEqF : Nat := 1024
def SigHasUnderF : Nat := 2048
def SigHasPipeF : Nat := 4096
def SigHexEncF : Nat := 8192
def SigB64EncF : Nat := 16384
def SigDigBlocksF : Nat := 32768

def resCharSigFlag (c : UInt8) : Nat :=
  if c == 64 then SigHasAtF else if c == 46 then SigHasDotF else if c == 58 then SigHasColonF
  else if c == 45 then SigHasDashF else if c == 95 then SigHasUnderF else if c == 42 then SigHasStarF
  else if c == 43 then SigHasPlusF else if c == 47 then SigHasDivF else if c == 61 then SigHasEqF
  else if c == 124 then SigHasPipeF else 0

structure SSt where
  sig : Nat := 0
  sep : UInt8 := 0
  sepNo : Nat := 0
  hexMConsec : Nat := 0
  hexConsec : Nat := 0
  hexBlocks : Nat := 0
  base64 : Bool := true
  hex : Bool := true
  dec : Bool := true
  fLower : Bool := false
  fUpper : Bool := false
  skipChrs : Nat := 0
  deriving Repr, Inhabited

def SSt.closeBlock (s : SSt) : SSt :=
  if s.hexConsec > 0 then
    { s with hexBlocks := s.hexBlocks + 1,
             hexMConsec := if s.hexConsec > s.hexMConsec then s.hexConsec else s.hexMConsec,
             hexConsec := 0 }
  else s

/-- one iteration of the loop of `getStrCharsSig` at index `i` (`c = s[i]`, `nxt = s[i+1]?`, `len = len(s)`) -/
def strSigStep (len skipOffs skipLen i : Nat) (c : UInt8) (nxt : Option UInt8) (s : SSt) : SSt :=
  if i ≥ skipOffs && i < skipOffs + skipLen then s
  else
    let s := if i == skipOffs + skipLen then s.closeBlock else s
    let f := resCharSigFlag c
    if f != 0 then
      let s := { s with sig := s.sig ||| f }
      if skipLen == 0 || (i != skipOffs + skipLen && i + 1 != skipOffs) then
        let s := if s.base64 && !(c == 43 || c == 47 || c == 61) then { s with base64 := false }
                 else if s.base64 && c == 61 then
                   if !(i + 1 == len || (i + 2 == len && nxt == some 61)) then { s with base64 := false } else s
                 else s
        let s := if s.sep == 0 then { s with sep := c, sepNo := s.sepNo + 1 }
                 else if s.sep == c then { s with sepNo := s.sepNo + 1 } else s
        let s := if i > 0 && s.sep != c then { s with dec := false, hex := false } else s
        s.closeBlock
      else
        let s := if i == skipOffs + skipLen then s.closeBlock else s
        { s with skipChrs := s.skipChrs + 1 }
    else if !isDigit c then
      let s := { s with dec := false }
      let isHexL := (65 ≤ c && c ≤ 70) || (97 ≤ c && c ≤ 102)
      let s := if !isHexL then
                 let s := { s with hex := false }
                 if !((69 ≤ c && c ≤ 90) || (101 ≤ c && c ≤ 122)) then { s with base64 := false } else s
               else { s with hexConsec := s.hexConsec + 1 }
      if 97 ≤ c && c ≤ 122 then { s with fLower := true }
      else if 65 ≤ c && c ≤ 90 then { s with fUpper := true } else s
    else { s with hexConsec := s.hexConsec + 1 }

def strSigLoop (b : Buf) (skipOffs skipLen : Nat) : Nat → List UInt8 → SSt → SSt
  | _, [], s => s
  | i, c :: rest, s => strSigLoop b skipOffs skipLen (i + 1) rest (strSigStep b.size skipOffs skipLen i c rest.head? s)

/-- `getStrCharsSig(s, skipOffs, skipLen)`: (sig, skipChrs) -/
def getStrCharsSig (b : Buf) (skipOffs skipLen : Nat) : Nat × Nat :=
  let s := (strSigLoop b skipOffs skipLen 0 b.toList {}).closeBlock
  let l : Int := (b.size : Int) - skipLen - s.skipChrs - s.sepNo
  let sig :=
    if l ≥ 8 then
      if (s.dec || s.hex) &&
         (s.sep == 0 || (s.hexMConsec ≥ 8 || (s.hexMConsec > 0 && s.hexBlocks ≥ 4))) &&
         !(s.fLower && s.fUpper) then
        (s.sig ||| SigHexEncF) ||| (if s.sep != 0 then SigDigBlocksF else 0)
      else if s.base64 && l % 4 == 0 then s.sig ||| SigB64EncF
      else s.sig
    else s.sig
  (sig, s.skipChrs)

/-- `GetCallIDSig(cid)`: (sig, CidSLen, panicked) -/
def getCallIDSig (cid : Buf) : Nat × Nat × Bool :=
  let (hasIP, ipOffs, ipLen, pnc) : Bool × Nat × Nat × Bool :=
    match containsIP4 cid with
    | some (o, l, _) => (true, o, l, false)
    | none =>
      match containsIP6 cid with
      | some (o, l, _, p) => (true, o, l, p)
      | none => (false, 0, 0, false)
  let sig0 := if hasIP then
                if ipOffs == 0 then SigIPStartF
                else if ipOffs + ipLen == cid.size then SigIPEndF else SigIPMiddleF
              else 0
  let (s, skipChrs) := getStrCharsSig cid ipOffs ipLen
  let clen : Int := (((cid.size : Int) - ipLen - skipChrs) + 3) / 4
  let clen := if clen > 255 then 255 else clen
  (sig0 ||| s, clen.toNat % 256, pnc)

def sBranch : List UInt8 := [98, 114, 97, 110, 99, 104]
def sBrPrefix : List UInt8 := [122, 57, 104, 71, 52, 98, 75]

def viaBrFlags : Nat := POptParamSemiSepF ||| POptTokCommaTermF ||| POptInputEndF

def viaBrLoop (b : Buf) (offs : Nat) : Nat × Nat × Bool :=
  match parseTokenParam b offs {} viaBrFlags with
  | (next, e, p) =>
    if p.pnc then (0, 0, true)
    else if e == .ok || e == .moreValues || e == .eoh then
      let isBranch : Option Bool :=
        if p.name.len == 6 then (p.name.get? b).map (fun nm => cmpEqL nm sBranch) else some false
      match isBranch with
      | none => (0, 0, true)
      | some true =>
        if p.val.len > 0 then
          match p.val.get? b with
          | none => (0, 0, true)
          | some val =>
            if val.size > 7 && cmpEqL (val.extract 0 7) sBrPrefix then
              ((getStrCharsSig (val.extract 7 val.size) 0 0).1, val.size - 7, false)
            else ((getStrCharsSig val 0 0).1, val.size, false)
        else (0, 0, false)
      | some false =>
        if e == .moreValues then
          if offs < next ∧ next ≤ b.size then viaBrLoop b next else (0, 0, false)
        else (0, 0, false)
    else (0, 0, false)
termination_by b.size - offs
decreasing_by omega

/-- `GetViaBrSig(viab)`: (sig, sigLen, panicked) -/
def getViaBrSig (b : Buf) : Nat × Nat × Bool :=
  match indexByteFrom b 0 59 with
  | none => (0, 0, false)
  | some o => viaBrLoop b (o + 1)

/-! ### header signature ids and the message signature -/

def HdrSigIdCMask : Nat := 8

/-- `hdr2SigId[t]` as built by `init()` -/
def hdr2SigId (t : Nat) : Nat :=
  match Gen.sigHdrs.findIdx? (· == t) with
  | some i => i
  | none => 255

/-- `GetHdrSigId(h)` -/
def getHdrSigId (h : Hdr) : Nat × Err :=
  if h.type ≥ HdrOther + 1 then (255, .bug)
  else
    let s := hdr2SigId h.type
    if s != 255 then
      if h.name.len == 1 then (HdrSigIdCMask ||| s, .ok) else (s, .ok)
    else (255, .bad)

def sigHdrsFlags : Nat := Gen.sigHdrs.foldl (fun a t => a ||| (1 <<< t)) 0

structure MsgSig where
  method : Nat := 0
  cidSLen : Nat := 0
  cidSig : Nat := 0
  fromSig : Nat := 0
  viaBSig : Nat := 0
  hdrSig : List Nat := []      -- the first HdrSigLen entries
  deriving DecidableEq, Repr, Inhabited

structure SigLoopSt where
  sig : MsgSig
  seen : Nat := 0
  pnc : Bool := false

/-- the `for _, h := range msg.HL.Hdrs` loop; `some` = early `return sig, ErrHdrOk` -/
def msgSigLoop (mbuf : Buf) (pflags : Nat) : List Hdr → SigLoopSt → SigLoopSt × Bool
  | [], st => (st, false)
  | h :: rest, st =>
    let bit := (1 <<< h.type) % 65536
    if st.seen &&& bit == 0 then
      let st1 := { st with seen := st.seen ||| bit }
      let st2 :=
        if h.type == HdrVia then
          match h.val.get? mbuf with
          | none => { st1 with pnc := true }
          | some v => let (s, _, p) := getViaBrSig v
                      { st1 with sig := { st1.sig with viaBSig := s }, pnc := st1.pnc || p }
        else st1
      let (s, e) := getHdrSigId h
      let (st3, full) :=
        if e == .ok && (h.type != HdrContact || st2.sig.method == MInvite) then
          let st3 := { st2 with sig := { st2.sig with hdrSig := st2.sig.hdrSig ++ [s] } }
          (st3, decide (st3.sig.hdrSig.length ≥ Gen.C.NoSigHdrs))
        else (st2, false)
      if full then (st3, true)
      else if pflags &&& sigHdrsFlags == st3.seen then (st3, true)
      else msgSigLoop mbuf pflags rest st3
    else msgSigLoop mbuf pflags rest st

/-- the body of `GetMsgSig(msg)` behind its completeness guard; `b` is the buffer `msg.Buf` is a prefix of.
    (sig, err, panicked) -/
def getMsgSigCore (m : PSIPMsg) (b : Buf) : MsgSig × Err × Bool :=
  if !m.request then ({}, .empty, false)
  else
    let mbuf := b.extract 0 m.bufLen
    match m.pv.callid.callID.get? mbuf, m.pv.from_.tag.get? mbuf with
    | some cid, some tag =>
      let (cs, cl, p1) := getCallIDSig cid
      let sig0 : MsgSig := { method := m.fl.methodNo, cidSig := cs, cidSLen := cl,
                             fromSig := (getStrCharsSig tag 0 0).1 }
      match msgSigLoop mbuf m.hl.pflags m.hl.hdrs.toList { sig := sig0, pnc := p1 } with
      | (st, true) => (st.sig, .ok, st.pnc)
      | (st, false) =>
        if m.hl.n > m.hl.hdrs.size then (st.sig, .trunc, st.pnc) else (st.sig, .ok, st.pnc)
    | _, _ => ({}, .ok, true)


/-- `GetMsgSig(msg)`: no signature for a reply, and none (verdict "empty", nothing is read) for a message that is not
    completely parsed — `msg.Buf` is set only at the end (library repair F24); otherwise the core -/
def getMsgSig (m : PSIPMsg) (b : Buf) : MsgSig × Err × Bool :=
  if !m.request then ({}, .empty, false)
  else if !(m.state == .fin || m.state == .noCLen) then ({}, .empty, false)
  else getMsgSigCore m b

def hexDigit (n : Nat) : Char := "0123456789abcdef".toList.getD (n % 16) '0'

def hex4 (v : Nat) : List Char :=
  [hexDigit (v / 4096 % 16), hexDigit (v / 256 % 16), hexDigit (v / 16 % 16), hexDigit (v % 16)]

/-- `MsgSig.String()` -/
def MsgSig.toStr (s : MsgSig) : String :=
  if s.method == MUndef && s.hdrSig.length == 0 then ""
  else
    let m := (if s.method ≥ 16 then ['E'] else []) ++ [hexDigit (s.method % 16)]
    let hs := s.hdrSig.foldl (fun acc h => acc ++ (if h ≥ 16 then ['E'] else []) ++ [hexDigit (h % 16)]) []
    String.ofList (m ++ hs ++ ['I'] ++ hex4 s.cidSig ++ [hexDigit (s.cidSLen / 16 % 16), hexDigit (s.cidSLen % 16)] ++
      ['F'] ++ hex4 s.fromSig ++ ['V'] ++ hex4 s.viaBSig)

end Sipsp
