/-
  Sipsp.Model.NameAddr — parse_from.go: ParseNameAddrPVal, setFromParamVal, pUInt64Val,
  multipleValsOk.
-/
import Sipsp.Model.Values

namespace Sipsp

inductive FBState where
  | init | nameOrURI | nameOrURIEnd | name | quoted | uri | uriFound
  | newPossibleParam | possibleParamName | possibleParamNameEnd
  | newParam | paramName | paramNameEnd | newParamVal | paramVal | paramValEnd
  | newPossibleVal | possibleVal | possibleValEnd | quotedVal | quotedPossibleVal
  | tagT | tagA | tagG | tagEq | tagVal | pTagT | pTagA | pTagG | pTagEq | pTagVal
  | star | fin
  deriving DecidableEq, Repr, Inhabited

structure PFromBody where
  name : PField := {}
  uri : PField := {}
  tag : PField := {}
  star : Bool := false
  lr : Bool := false
  hasExpires : Bool := false
  type : Nat := 0
  q : Nat := 0            -- uint16
  expires : Nat := 0      -- uint32
  params : PField := {}
  v : PField := {}
  paramErr : Err := .ok
  errOffs : Nat := 0      -- OffsT
  state : FBState := .init
  soffs : Nat := 0
  pstart : Nat := 0
  pend : Nat := 0
  vstart : Nat := 0
  vend : Nat := 0
  /-- ghost: the Go local `s` while a call is running (0 between calls) -/
  s : Nat := 0
  pnc : Bool := false
  deriving DecidableEq, Repr, Inhabited

/-- `multipleValsOk(h)`; case list regenerated from the source. -/
def multipleValsOk (h : Nat) : Bool := Gen.multipleVals.contains h

/-! #### pUInt64Val (saturating) -/

def maxU64 : Nat := 18446744073709551615

def pUInt64Aux : List UInt8 → Nat → Err → Nat × Err
  | [], n, e => (n, e)
  | c :: cs, n, e =>
    if c < 48 || c > 57 then (n, .valNotNumber)
    else
      let d := c.toNat - 48
      if n > (maxU64 - d) / 10 then pUInt64Aux cs maxU64 .valTooLong
      else pUInt64Aux cs (n * 10 + d) e

def pUInt64Val (l : List UInt8) : Nat × Err := pUInt64Aux l 0 .ok

/-! #### setFromParamVal -/

def sTag : List UInt8 := [116, 97, 103]
def sExpires : List UInt8 := [101, 120, 112, 105, 114, 101, 115]
def sQ : List UInt8 := [113]

def PFromBody.clearPV (pf : PFromBody) : PFromBody :=
  { pf with pstart := 0, pend := 0, vstart := 0, vend := 0 }

/-- the `q` branch; `val = buf[vstart:vend]` -/
def setQ (pf : PFromBody) (val : List UInt8) : PFromBody :=
  let k := (val.takeWhile (· != 46)).length      -- i - vstart
  if val.length - k ≤ 4 then
    let (u, e1) := pUInt64Val (val.take k)
    let (d, e2) := if e1 == .ok && k < val.length then pUInt64Val (val.drop (k + 1)) else (0, e1)
    if e2 == .ok then
      if u > 1 || d > 999 || (u == 1 && d > 0) then
        { pf with paramErr := .valBad, errOffs := trunc16 pf.vstart }
      else
        let nd := val.length - (k + 1)
        let d' := if k < val.length && nd == 1 then d * 100
                  else if k < val.length && nd == 2 then d * 10 else d
        { pf with q := (u * 1000 + d') % 65536 }
    else { pf with paramErr := e2, errOffs := trunc16 pf.vstart }
  else { pf with paramErr := .valTooLong, errOffs := trunc16 pf.vend }

def setExpires (pf : PFromBody) (val : List UInt8) : PFromBody :=
  let (exp, _) := pUInt64Val val
  { pf with hasExpires := true, expires := if exp < 4294967295 then exp else 4294967295 }

/-- `setFromParamVal(buf, pf)` (its return value is ignored by every caller). -/
def setFromParamVal (b : Buf) (pf : PFromBody) : PFromBody :=
  if pf.pstart < pf.pend && pf.vstart < pf.vend then
    match slice? b pf.pstart pf.pend, slice? b pf.vstart pf.vend with
    | some nm, some val =>
      if cmpEqL nm sTag then
        ({ pf with tag := PField.set pf.vstart pf.vend }).clearPV
      else if cmpEqL nm sExpires then (setExpires pf val.toList).clearPV
      else if cmpEqL nm sQ then (setQ pf val.toList).clearPV
      else if cmpEqL nm sLr then ({ pf with lr := true }).clearPV
      else pf.clearPV
    | _, _ => ({ pf with pnc := true }).clearPV
  else if pf.pstart < pf.pend && pf.vstart == pf.vend then
    match slice? b pf.pstart pf.pend with
    | some nm => if cmpEqL nm sLr then ({ pf with lr := true }).clearPV else pf.clearPV
    | none => ({ pf with pnc := true }).clearPV
  else ({ pf with paramErr := .valBad, errOffs := trunc16 pf.vstart }).clearPV

/-! #### field updates with panic tracking -/

def PFromBody.setURI (pf : PFromBody) (s e : Nat) : PFromBody :=
  { pf with uri := PField.set s e, pnc := pf.pnc || PField.setPanics s e }
def PFromBody.setName (pf : PFromBody) (s e : Nat) : PFromBody :=
  { pf with name := PField.set s e, pnc := pf.pnc || PField.setPanics s e }
def PFromBody.setV (pf : PFromBody) (s e : Nat) : PFromBody :=
  { pf with v := PField.set s e, pnc := pf.pnc || PField.setPanics s e }
def PFromBody.extV (pf : PFromBody) (e : Nat) : PFromBody :=
  { pf with v := pf.v.extend e, pnc := pf.pnc || pf.v.extendPanics e }
def PFromBody.extParams (pf : PFromBody) (e : Nat) : PFromBody :=
  { pf with params := pf.params.extend e, pnc := pf.pnc || pf.params.extendPanics e }
/-- `pfrom.URI.Reset(); pfrom.Params.Reset(); pfrom.Tag.Reset()` -/
def PFromBody.resetUPT (pf : PFromBody) : PFromBody :=
  { pf with uri := {}, params := {}, tag := {} }
/-- `moreBytes:` `pfrom.soffs = s` -/
def PFromBody.saveS (pf : PFromBody) : PFromBody := { pf with soffs := pf.s }

/-! #### label `endOfHdr` -/

def naFinish (h : Nat) (pf : PFromBody) (n crl : Nat) (retOk : Err) : Nat × Err × PFromBody :=
  (n + crl, retOk, { pf with state := .fin, soffs := 0, type := h })

/-- the parameter-name states at `endOfHdr` (with the value-less parameter fix). -/
def naEOHParamName (b : Buf) (pf : PFromBody) (i : Nat) : PFromBody :=
  let pf1 := if pf.state == .paramName || pf.state == .possibleParamName then { pf with pend := i } else pf
  let pf2 := if pf1.pstart < pf1.pend then setFromParamVal b pf1 else pf1
  let pf3 := if pf2.params.offs != 0 then pf2.extParams i else pf2
  pf3.extV i

def naEOHVal (b : Buf) (pf : PFromBody) (i : Nat) : PFromBody :=
  ((setFromParamVal b { pf with vend := i }).extParams i).extV i

def naEOH (h : Nat) (b : Buf) (pf : PFromBody) (i n crl : Nat) (retOk : Err) : Nat × Err × PFromBody :=
  match pf.state with
  | .uriFound | .nameOrURIEnd => naFinish h pf n crl retOk
  | .nameOrURI => naFinish h ((pf.setURI pf.s i).extV i) n crl retOk
  | .newParam | .paramNameEnd | .newPossibleParam | .possibleParamNameEnd
  | .paramName | .possibleParamName => naFinish h (naEOHParamName b pf i) n crl retOk
  | .paramValEnd | .possibleValEnd =>
    naFinish h (((setFromParamVal b pf).extParams i).extV i) n crl retOk
  | .newParamVal | .newPossibleVal => naFinish h (naEOHVal b { pf with vstart := i } i) n crl retOk
  | .paramVal | .possibleVal => naFinish h (naEOHVal b pf i) n crl retOk
  | .star => naFinish h { pf with star := true, uri := pf.v } n crl retOk
  | .init | .name | .uri | .quoted | .quotedVal | .quotedPossibleVal => (n + crl, .bad, pf)
  | _ => (n + crl, .bug, pf)

/-- `goto moreValues` -/
def naMoreValues (h : Nat) (b : Buf) (pf : PFromBody) (i : Nat) : Step PFromBody :=
  let r := naEOH h b pf i i 1 .moreValues
  .done r.1 r.2.1 r.2.2

/-- the standard LWS pattern of this parser -/
def naLWS (h : Nat) (b : Buf) (i : Nat) (pf : PFromBody) : Step PFromBody :=
  lwsStd b i pf (fun st i n crl => naEOH h b st i n crl .ok) PFromBody.saveS

/-! #### the loop body, one function per `case` group -/

/-- `case fbInit, fbName, fbNameOrURI, fbNameOrURIEnd:` -/
def naStepA (h : Nat) (b : Buf) (i : Nat) (c : UInt8) (pf : PFromBody) : Step PFromBody :=
  if isLWSch c then
    if pf.state == .nameOrURI then
      naLWS h b i { (pf.setURI pf.s i).extV i with state := .nameOrURIEnd }
    else naLWS h b i pf
  else if c == 44 then -- ','
    if multipleValsOk h then naMoreValues h b pf i else .cont (i + 1) pf
  else if c == 60 then -- '<'
    if pf.state != .init then
      .cont (i + 1) { (pf.setName pf.s i).resetUPT with s := i + 1, state := .uri }
    else .cont (i + 1) { pf.setV i i with s := i + 1, state := .uri }
  else if c == 34 then -- '"'
    if pf.state == .init then .cont (i + 1) { pf.setV i i with s := i, state := .quoted }
    else .cont (i + 1) { pf.resetUPT with state := .quoted }
  else if c == 59 then -- ';'
    if pf.state == .nameOrURI then
      .cont (i + 1) { (pf.setURI pf.s i).extV (i + 1) with s := i + 1, state := .newPossibleParam }
    else if pf.state == .nameOrURIEnd then .cont (i + 1) { pf with state := .newPossibleParam }
    else .done i .badChar pf
  else if c == 62 then .done i .badChar pf -- '>'
  else if c == 42 then -- '*'
    if pf.state == .init then .cont (i + 1) { pf.setV i (i + 1) with s := i, state := .star }
    else .cont (i + 1) pf
  else
    if pf.state == .init then .cont (i + 1) { pf.setV i i with s := i, state := .nameOrURI }
    else if pf.state == .nameOrURIEnd then .cont (i + 1) { pf.resetUPT with state := .name }
    else .cont (i + 1) pf

/-- `case fbQuoted, fbQuotedVal, fbQuotedPossibleVal:` -/
def naStepQ (h : Nat) (b : Buf) (i : Nat) (c : UInt8) (pf : PFromBody) : Step PFromBody :=
  if c == 34 then
    if pf.state == .quoted then .cont (i + 1) { pf with state := .name }
    else if pf.state == .quotedVal then .cont (i + 1) { pf with state := .paramVal }
    else .cont (i + 1) { pf with state := .possibleVal }
  else if c == 92 then -- '\\'
    match b[i + 1]? with
    | some c1 => if isCRLFch c1 then .done (i + 1) .badChar pf else .cont (i + 2) pf
    | none => .done i .moreBytes pf.saveS
  else if isLWSch c then naLWS h b i pf
  else .cont (i + 1) pf

/-- `case fbURI:` -/
def naStepU (i : Nat) (c : UInt8) (pf : PFromBody) : Step PFromBody :=
  if c == 62 then .cont (i + 1) { (pf.setURI pf.s i).extV (i + 1) with state := .uriFound }
  else if c == 60 || isLWSch c then .done i .badChar pf
  else .cont (i + 1) pf

/-- `case fbURIFound:` -/
def naStepUF (h : Nat) (b : Buf) (i : Nat) (c : UInt8) (pf : PFromBody) : Step PFromBody :=
  if isLWSch c then naLWS h b i pf
  else if c == 44 then
    if multipleValsOk h then naMoreValues h b pf i else .cont (i + 1) pf
  else if c == 59 then .cont (i + 1) { pf with state := .newParam, s := 0 }
  else .cont (i + 1) pf

/-- state advance after whitespace in a parameter name -/
def naNameWS (pf : PFromBody) (i : Nat) : PFromBody :=
  if pf.state == .paramName then { pf with state := .paramNameEnd, pend := i }
  else if pf.state == .possibleParamName then { pf with state := .possibleParamNameEnd, pend := i }
  else pf

/-- first character of a parameter name: `fbNewParam -> fbParamName` (and the "possible" twin) -/
def naParamStart (pf : PFromBody) (i : Nat) : PFromBody :=
  if pf.state == .newParam then { pf with state := .paramName, pstart := i }
  else if pf.state == .newPossibleParam then { pf with state := .possibleParamName, pstart := i }
  else pf

/-- `if pfrom.Params.Offs == 0 { pfrom.Params.Offs = OffsT(i) }` -/
def naParamsOffs (pf : PFromBody) (i : Nat) : PFromBody :=
  if pf.params.offs == 0 then { pf with params := { pf.params with offs := trunc16 i } } else pf

/-- `case fbNewParam, fbNewPossibleParam, fbParamName, fbPossibleParamName:` -/
def naStepP (h : Nat) (b : Buf) (i : Nat) (c : UInt8) (pf : PFromBody) : Step PFromBody :=
  if isLWSch c then
    match skipLWS b i 0 with
    | (_, _, .moreBytes) => .done i .moreBytes pf.saveS
    | (n, _, .ok) => .cont n (naNameWS pf i)
    | (n, crl, .eoh) => let r := naEOH h b (naNameWS pf i) i n crl .ok; .done r.1 r.2.1 r.2.2
    | (n, _, e) => .done n e (naNameWS pf i)
  else if c == 44 then
    if multipleValsOk h then naMoreValues h b pf i else .cont (i + 1) pf
  else if c == 61 then -- '='
    if pf.state == .paramName then
      .cont (i + 1) { pf with state := .newParamVal, pend := i, vstart := i + 1 }
    else if pf.state == .possibleParamName then
      .cont (i + 1) { pf with state := .newPossibleVal, pend := i, vstart := i + 1 }
    else .done i .badChar pf
  else if c == 60 || c == 62 then .done i .badChar pf
  else if c == 59 then
    if pf.state == .paramName then
      .cont (i + 1) (setFromParamVal b { pf with state := .newParam, pend := i })
    else if pf.state == .possibleParamName then
      .cont (i + 1) (setFromParamVal b { pf with state := .newPossibleParam, pend := i })
    else .cont (i + 1) pf
  else .cont (i + 1) (naParamsOffs (naParamStart pf i) i)

/-- the new `case ','` of the `*NameEnd` / `*ValEnd` states: value ends before the whitespace -/
def naCommaAfterWS (h : Nat) (b : Buf) (pf : PFromBody) (i e : Nat) : Step PFromBody :=
  if multipleValsOk h then
    let r := naEOH h b pf e i 1 .moreValues
    .done r.1 r.2.1 r.2.2
  else .done i .badChar pf

/-- `case fbParamNameEnd, fbPossibleParamNameEnd:` -/
def naStepPE (h : Nat) (b : Buf) (i : Nat) (c : UInt8) (pf : PFromBody) : Step PFromBody :=
  if c == 61 then
    if pf.state == .paramNameEnd then .cont (i + 1) { pf with state := .newParamVal, vstart := i + 1 }
    else .cont (i + 1) { pf with state := .newPossibleVal, vstart := i + 1 }
  else if c == 59 then
    if pf.state == .paramNameEnd then .cont (i + 1) (setFromParamVal b { pf with state := .newParam })
    else .cont (i + 1) (setFromParamVal b { pf with state := .newPossibleParam })
  else if c == 44 then naCommaAfterWS h b pf i pf.pend
  else .done i .badChar pf

/-- state/offset update after whitespace in a parameter value -/
def naValWS (pf : PFromBody) (i n : Nat) (ok : Bool) : PFromBody :=
  match pf.state with
  | .newParamVal | .newPossibleVal => if ok then { pf with vstart := n } else pf
  | .paramVal => { pf with state := .paramValEnd, vend := i }
  | .possibleVal => { pf with state := .possibleValEnd, vend := i }
  | _ => pf

/-- `case fbNewParamVal, fbNewPossibleVal, fbParamVal, fbPossibleVal:` -/
def naStepV (h : Nat) (b : Buf) (i : Nat) (c : UInt8) (pf : PFromBody) : Step PFromBody :=
  if isLWSch c then
    match skipLWS b i 0 with
    | (_, _, .moreBytes) => .done i .moreBytes pf.saveS
    | (n, _, .ok) => .cont n (naValWS pf i n true)
    | (n, crl, .eoh) => let r := naEOH h b (naValWS pf i n false) i n crl .ok; .done r.1 r.2.1 r.2.2
    | (n, _, e) => .done n e (naValWS pf i n false)
  else if c == 44 then
    if multipleValsOk h then naMoreValues h b pf i else .cont (i + 1) pf
  else if c == 59 then
    if pf.state == .newParamVal || pf.state == .paramVal then
      .cont (i + 1) (setFromParamVal b { pf with state := .newParam, vend := i })
    else .cont (i + 1) (setFromParamVal b { pf with state := .newPossibleParam, vend := i })
  else if c == 61 || c == 60 || c == 62 then .done i .badChar pf
  else if c == 34 then
    if pf.state == .paramVal then .cont (i + 1) { pf with state := .quotedVal }
    else if pf.state == .newParamVal then .cont (i + 1) { pf with state := .quotedVal, vstart := i }
    else if pf.state == .possibleVal then .cont (i + 1) { pf with state := .quotedPossibleVal }
    else .cont (i + 1) { pf with state := .quotedPossibleVal, vstart := i }
  else
    if pf.state == .newParamVal then .cont (i + 1) { pf with state := .paramVal, vstart := i }
    else if pf.state == .newPossibleVal then .cont (i + 1) { pf with state := .possibleVal, vstart := i }
    else .cont (i + 1) pf

/-- `case fbParamValEnd, fbPossibleValEnd:` -/
def naStepVE (h : Nat) (b : Buf) (i : Nat) (c : UInt8) (pf : PFromBody) : Step PFromBody :=
  if c == 59 then
    if pf.state == .paramValEnd then .cont (i + 1) (setFromParamVal b { pf with state := .newParam })
    else .cont (i + 1) (setFromParamVal b { pf with state := .newPossibleParam })
  else if c == 44 then naCommaAfterWS h b pf i pf.vend
  else .done i .badChar pf

/-- `case fbStar:` -/
def naStepStar (h : Nat) (b : Buf) (i : Nat) (c : UInt8) (pf : PFromBody) : Step PFromBody :=
  if isLWSch c then naLWS h b i pf else .done i .badChar pf

def naStep (h : Nat) (b : Buf) (i : Nat) (c : UInt8) (pf : PFromBody) : Step PFromBody :=
  match pf.state with
  | .init | .name | .nameOrURI | .nameOrURIEnd => naStepA h b i c pf
  | .quoted | .quotedVal | .quotedPossibleVal => naStepQ h b i c pf
  | .uri => naStepU i c pf
  | .uriFound => naStepUF h b i c pf
  | .newParam | .newPossibleParam | .paramName | .possibleParamName => naStepP h b i c pf
  | .paramNameEnd | .possibleParamNameEnd => naStepPE h b i c pf
  | .newParamVal | .newPossibleVal | .paramVal | .possibleVal => naStepV h b i c pf
  | .paramValEnd | .possibleValEnd => naStepVE h b i c pf
  | .star => naStepStar h b i c pf
  | _ => .cont (i + 1) pf

def naMachine (h : Nat) : Machine PFromBody :=
  { step := naStep h, eob := fun _ i pf => (i, .moreBytes, pf.saveS) }

/-- what the call leaves in the object besides the loop's work: the local `s` is gone; `pfrom.soffs` was
    written only at `moreBytes:` (`= s`) and at the successful end (`= 0`), so on every other exit it still
    holds the value it had when the call started. -/
def naExit (entrySoffs : Nat) (e : Err) (p : PFromBody) : PFromBody :=
  if e == .moreBytes || e == .ok || e == .moreValues then { p with s := 0 }
  else { p with s := 0, soffs := entrySoffs }

/-- `ParseNameAddrPVal(h, buf, offs, pfrom)`. The Go loop never reads `pfrom.soffs` after loading it into
    the local `s`; the model therefore runs the loop with the field cleared and `naExit` puts back what Go
    leaves there (identical final object in every case). -/
def parseNameAddrPVal (h : Nat) (b : Buf) (offs : Nat) (pf : PFromBody) : Nat × Err × PFromBody :=
  if pf.state = .fin then (offs, .ok, pf)
  else
    let r := runLoop (naMachine h) b offs { pf with s := pf.soffs, soffs := 0 }
    (r.1, r.2.1, naExit pf.soffs r.2.1 r.2.2)

def parseFromVal (b : Buf) (offs : Nat) (pf : PFromBody) := parseNameAddrPVal HdrFrom b offs pf
def parseOneContact (b : Buf) (offs : Nat) (pf : PFromBody) := parseNameAddrPVal HdrContact b offs pf

/-- `ParseOnePAI`. -/
def parseOnePAI (b : Buf) (offs : Nat) (pf : PFromBody) : Nat × Err × PFromBody :=
  match parseNameAddrPVal HdrPAI b offs pf with
  | (n, e, pf') => if (e == .ok || e == .moreValues) && pf'.star then (n, .valBad, pf') else (n, e, pf')

def PFromBody.parsed (pf : PFromBody) : Bool := pf.state == .fin
def PFromBody.isEmpty (pf : PFromBody) : Bool := pf.state == .init
def PFromBody.pending (pf : PFromBody) : Bool := pf.state != .fin && pf.state != .init

end Sipsp
