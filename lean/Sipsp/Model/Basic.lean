/-
  Sipsp.Model.Basic — common types of the hand-written executable model of
  github.com/intuitivelabs/sipsp.  Core Lean only (no Mathlib) so that the
  driver links as a native executable.

  Conventions (DESIGN.md §4):
  * buffers are `Array UInt8`, Go `buf[i]` guarded by a length test is
    `match b[i]? with | none => <else branch> | some c => …`;
  * offsets are `Nat`; `PField` applies Go's `uint16` truncation;
  * a Go panic is recorded in a sticky ghost flag (`pnc`) of the object being
    parsed, never totalised away silently.
-/

namespace Sipsp

abbrev Buf := Array UInt8

/-- Go `ErrorHdr`, same order as the `const` block of parse_errors.go
    (tied to the source by `Sipsp.Tie`). -/
inductive Err where
  | ok | eoh | empty | moreBytes | moreValues | noCR | badChar | params | bad
  | valNotNumber | valTooLong | valBad | numTooBig | trunc | noCLen | bug
  | convBug | tooManyVals
  /-- model artefact: the generic loop driver saw no progress (never reachable,
      see `Proofs`); it has no Go counterpart. -/
  | lbug
  deriving DecidableEq, Repr, Inhabited

def Err.toNat : Err → Nat
  | .ok => 0 | .eoh => 1 | .empty => 2 | .moreBytes => 3 | .moreValues => 4
  | .noCR => 5 | .badChar => 6 | .params => 7 | .bad => 8 | .valNotNumber => 9
  | .valTooLong => 10 | .valBad => 11 | .numTooBig => 12 | .trunc => 13
  | .noCLen => 14 | .bug => 15 | .convBug => 16 | .tooManyVals => 17
  | .lbug => 99

def Err.name : Err → String
  | .ok => "ErrHdrOk" | .eoh => "ErrHdrEOH" | .empty => "ErrHdrEmpty"
  | .moreBytes => "ErrHdrMoreBytes" | .moreValues => "ErrHdrMoreValues"
  | .noCR => "ErrHdrNoCR" | .badChar => "ErrHdrBadChar" | .params => "ErrHdrParams"
  | .bad => "ErrHdrBad" | .valNotNumber => "ErrHdrValNotNumber"
  | .valTooLong => "ErrHdrValTooLong" | .valBad => "ErrHdrValBad"
  | .numTooBig => "ErrHdrNumTooBig" | .trunc => "ErrHdrTrunc" | .noCLen => "ErrHdrNoCLen"
  | .bug => "ErrHdrBug" | .convBug => "ErrConvBug" | .tooManyVals => "ErrHdrTooManyVals"
  | .lbug => "MODEL-LOOP-BUG"

/-- Go `uint16(x)` for a non-negative `x`. -/
@[inline] def trunc16 (x : Nat) : Nat := x % 65536

theorem trunc16_of_lt {x : Nat} (h : x < 65536) : trunc16 x = x := Nat.mod_eq_of_lt h

/-- Go `PField{Offs, Len OffsT}`. -/
structure PField where
  offs : Nat := 0
  len  : Nat := 0
  deriving DecidableEq, Repr, Inhabited

namespace PField

def zero : PField := {}

/-- `p.Set(start, end)`; Go panics (after assigning) iff `end < start`, see `setPanics`. -/
@[inline] def set (s e : Nat) : PField := ⟨trunc16 s, trunc16 (e - s)⟩
@[inline] def setPanics (s e : Nat) : Bool := decide (e < s)

/-- `p.Extend(newEnd)`: `p.Len = OffsT(newEnd) - p.Offs` in uint16 arithmetic. -/
@[inline] def extend (p : PField) (e : Nat) : PField :=
  ⟨p.offs, (trunc16 e + 65536 - p.offs) % 65536⟩
@[inline] def extendPanics (p : PField) (e : Nat) : Bool := decide (e < p.offs)

@[inline] def isEmpty (p : PField) : Bool := p.len == 0

/-- end offset as computed by Go in uint16 arithmetic (`f.Offs+f.Len`). -/
@[inline] def endT (p : PField) : Nat := trunc16 (p.offs + p.len)

/-- `buf[f.Offs : f.Offs+f.Len]`; `none` = Go panics (slice bounds out of range). -/
def get? (b : Buf) (p : PField) : Option Buf :=
  if p.offs ≤ p.endT ∧ p.endT ≤ b.size then some (b.extract p.offs p.endT) else none

end PField

/-! ### character classes -/

def chSP : UInt8 := 32
def chHT : UInt8 := 9
def chCR : UInt8 := 13
def chLF : UInt8 := 10

@[inline] def isWS (c : UInt8) : Bool := c == 32 || c == 9
@[inline] def isCRLFch (c : UInt8) : Bool := c == 13 || c == 10
@[inline] def isLWSch (c : UInt8) : Bool := c == 32 || c == 9 || c == 13 || c == 10
@[inline] def isDigit (c : UInt8) : Bool := 48 ≤ c && c ≤ 57

/-- Go slice expression `b[lo:hi]` on a slice of length `b.size`; `none` = panic. -/
def slice? (b : Buf) (lo hi : Nat) : Option Buf :=
  if lo ≤ hi ∧ hi ≤ b.size then some (b.extract lo hi) else none

/-! ### POptFlags (parse_utils.go) -/
abbrev POpt := Nat
def POptTokCommaTermF : Nat := 1
def POptTokQmTermF : Nat := 2
def POptTokSpTermF : Nat := 4
def POptInputEndF : Nat := 8
def POptParamSemiSepF : Nat := 16
def POptParamAmpSepF : Nat := 32
def POptTokURIParamF : Nat := 64
def POptTokURIHdrF : Nat := 128

@[inline] def hasFlag (flags f : Nat) : Bool := (flags &&& f) != 0

/-! ### generic loop driver (DESIGN §5.1) -/

inductive Step (σ : Type) where
  | cont (i : Nat) (st : σ)
  | done (o : Nat) (e : Err) (st : σ)

structure Machine (σ : Type) where
  /-- one iteration of the Go `for i < len(buf)` loop at position `i`, `c = buf[i]` -/
  step : Buf → Nat → UInt8 → σ → Step σ
  /-- the exit taken when `i == len(buf)` -/
  eob  : Buf → Nat → σ → Nat × Err × σ

def runLoop {σ : Type} (m : Machine σ) (b : Buf) (i : Nat) (st : σ) : Nat × Err × σ :=
  match hb : b[i]? with
  | none   => m.eob b i st
  | some c =>
    match m.step b i c st with
    | .cont i' st' => if i < i' then runLoop m b i' st' else (i, Err.lbug, st')
    | .done o e st' => (o, e, st')
termination_by b.size - i
decreasing_by
  have : i < b.size := by
    rcases Nat.lt_or_ge i b.size with h | h
    · exact h
    · rw [Array.getElem?_eq_none h] at hb; cases hb
  omega

end Sipsp
