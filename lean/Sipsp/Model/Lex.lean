/-
  Sipsp.Model.Lex — parse_utils.go: skipCRLF, skipLWS, skipWS, skipToken,
  skipTokenDelim, skipLine.
-/
import Sipsp.Model.Basic

namespace Sipsp

/-- parse_utils.go `skipCRLF`: returns (offset, crlf length, err). -/
def skipCRLF (b : Buf) (i : Nat) : Nat × Nat × Err :=
  match b[i+1]? with
  | none =>
    match b[i]? with
    | some c => if c != 13 && c != 10 then (i, 0, .noCR) else (i, 0, .moreBytes)
    | none => (i, 0, .moreBytes)
  | some c1 =>
    match b[i]? with
    | none => (i, 0, .noCR) -- unreachable: i < i+1 < len
    | some c0 =>
      if c0 == 13 then
        if c1 == 10 then (i + 2, 2, .ok) else (i + 1, 1, .ok)
      else if c0 == 10 then (i + 1, 1, .ok)
      else (i, 0, .noCR)

theorem skipCRLF_ok_gt {b : Buf} {i n crl : Nat} (h : skipCRLF b i = (n, crl, Err.ok)) : i < n := by
  unfold skipCRLF at h
  split at h
  · split at h
    · split at h <;> simp at h
    · simp at h
  · split at h
    · simp at h
    · split at h
      · split at h <;> (simp at h; omega)
      · split at h
        · simp at h; omega
        · simp at h

/-- parse_utils.go `skipLWS`. -/
def skipLWS (b : Buf) (i : Nat) (flags : Nat) : Nat × Nat × Err :=
  match hb : b[i]? with
  | none => (i, 0, .moreBytes)
  | some c =>
    if isWS c then skipLWS b (i + 1) flags
    else if isCRLFch c then
      match hs : skipCRLF b i with
      | (n, crl, .ok) =>
        match b[n]? with
        | none => if hasFlag flags POptInputEndF then (n, 0, .eoh) else (i, 0, .moreBytes)
        | some c2 => if isWS c2 then skipLWS b (n + 1) flags else (i, crl, .eoh)
      | (n, crl, e) => (n, crl, e)
    else (i, 0, .ok)
termination_by b.size - i
decreasing_by
  all_goals
    have hi : i < b.size := by
      rcases Nat.lt_or_ge i b.size with h | h
      · exact h
      · rw [Array.getElem?_eq_none h] at hb; cases hb
  · omega
  · have := skipCRLF_ok_gt hs; omega

/-- parse_utils.go `skipWS`. -/
def skipWS (b : Buf) (i : Nat) : Nat :=
  match hb : b[i]? with
  | none => i
  | some c => if isWS c then skipWS b (i + 1) else i
termination_by b.size - i
decreasing_by
  have hi : i < b.size := by
    rcases Nat.lt_or_ge i b.size with h | h
    · exact h
    · rw [Array.getElem?_eq_none h] at hb; cases hb
  omega

/-- parse_utils.go `skipToken`. -/
def skipToken (b : Buf) (i : Nat) : Nat :=
  match hb : b[i]? with
  | none => i
  | some c => if isLWSch c then i else skipToken b (i + 1)
termination_by b.size - i
decreasing_by
  have hi : i < b.size := by
    rcases Nat.lt_or_ge i b.size with h | h
    · exact h
    · rw [Array.getElem?_eq_none h] at hb; cases hb
  omega

/-- parse_utils.go `skipTokenDelim`. -/
def skipTokenDelim (b : Buf) (i : Nat) (delim : UInt8) : Nat :=
  match hb : b[i]? with
  | none => i
  | some c => if isLWSch c || c == delim then i else skipTokenDelim b (i + 1) delim
termination_by b.size - i
decreasing_by
  have hi : i < b.size := by
    rcases Nat.lt_or_ge i b.size with h | h
    · exact h
    · rw [Array.getElem?_eq_none h] at hb; cases hb
  omega

/-- the scanning part of parse_utils.go `skipLine`. -/
def skipToEOL (b : Buf) (i : Nat) : Nat :=
  match hb : b[i]? with
  | none => i
  | some c => if isCRLFch c then i else skipToEOL b (i + 1)
termination_by b.size - i
decreasing_by
  have hi : i < b.size := by
    rcases Nat.lt_or_ge i b.size with h | h
    · exact h
    · rw [Array.getElem?_eq_none h] at hb; cases hb
  omega

/-- parse_utils.go `skipLine`. -/
def skipLine (b : Buf) (i : Nat) : Nat × Nat × Err := skipCRLF b (skipToEOL b i)

end Sipsp
