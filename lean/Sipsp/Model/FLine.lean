/-
  Sipsp.Model.FLine — parse_fline.go
-/
import Sipsp.Model.Lex
import Sipsp.Model.Tables

namespace Sipsp

inductive FLState where
  | init | reqMethod | reqURI | reqVer | rplStatus | rplReason | crlf | fin
  deriving DecidableEq, Repr, Inhabited

def FLState.toNat : FLState → Nat
  | .init => 0 | .reqMethod => 1 | .reqURI => 2 | .reqVer => 3 | .rplStatus => 4
  | .rplReason => 5 | .crlf => 6 | .fin => 7

structure PFLine where
  status : Nat := 0
  methodNo : Nat := 0
  method : PField := {}
  uri : PField := {}
  version : PField := {}
  statusCode : PField := {}
  reason : PField := {}
  state : FLState := .init
  /-- ghost: a Go panic happened while this object was being filled -/
  pnc : Bool := false
  deriving DecidableEq, Repr, Inhabited

def sipVerSP : List UInt8 := [83, 73, 80, 47, 50, 46, 48, 32]

/-- `case flCRLF:` -/
def flCRLF (b : Buf) (i : Nat) (pl : PFLine) : Nat × Err × PFLine :=
  match skipCRLF b i with
  | (e, _, .ok) => (e, .ok, { pl with state := .fin })
  | (e, _, err) => (e, err, pl)

/-- `case flReqVer:` (falls through to flCRLF) -/
def flReqVer (b : Buf) (i : Nat) (pl : PFLine) : Nat × Err × PFLine :=
  let j := skipToken b i
  match b[j]? with
  | none => (j, .moreBytes, pl)
  | some c =>
    if c != 13 && c != 10 then (j, .badChar, pl)
    else
      let pl1 := { pl with version := pl.version.extend j,
                           pnc := pl.pnc || pl.version.extendPanics j }
      if pl1.version.isEmpty then (j, .badChar, pl1)
      else flCRLF b j { pl1 with state := .crlf }

/-- `case flReqURI:` -/
def flReqURI (b : Buf) (i : Nat) (pl : PFLine) : Nat × Err × PFLine :=
  let j := skipToken b i
  match b[j]? with
  | none => (j, .moreBytes, pl)
  | some c =>
    if c != 32 then (j, .badChar, pl)
    else
      let pl1 := { pl with uri := pl.uri.extend j, pnc := pl.pnc || pl.uri.extendPanics j }
      if pl1.uri.isEmpty then (j, .badChar, pl1)
      else flReqVer b (j + 1) { pl1 with state := .reqVer, version := PField.set (j + 1) (j + 1) }

/-- `case flReqMethod:` -/
def flReqMethod (b : Buf) (i : Nat) (pl : PFLine) : Nat × Err × PFLine :=
  let j := skipToken b i
  match b[j]? with
  | none => (j, .moreBytes, pl)
  | some c =>
    if c != 32 then (j, .badChar, pl)
    else
      let pl1 := { pl with method := pl.method.extend j, pnc := pl.pnc || pl.method.extendPanics j }
      if pl1.method.isEmpty then (j, .badChar, pl1)
      else
        match pl1.method.get? b with
        | none => (j, .badChar, { pl1 with pnc := true })
        | some nm =>
          flReqURI b (j + 1)
            { pl1 with methodNo := getMethodNo nm, state := .reqURI, uri := PField.set (j + 1) (j + 1) }

/-- `case flRplReason:` and the tail of the reply branch of `flInit`. -/
def flRplReason (b : Buf) (i : Nat) (pl : PFLine) : Nat × Err × PFLine :=
  match skipLine b i with
  | (e, crl, .ok) =>
    (e, .ok, { pl with reason := pl.reason.extend (e - crl),
                       pnc := pl.pnc || pl.reason.extendPanics (e - crl), state := .fin })
  | (e, _, err) => (e, err, pl)

/-- reply branch of `flInit`, `i` points after "SIP/2.0 ". -/
def flReply (b : Buf) (i0 l : Nat) (pl : PFLine) : Nat × Err × PFLine :=
  let pl1 := { pl with version := PField.set i0 (i0 + l - 1), state := .rplStatus }
  let i := i0 + l
  match b[i]?, b[i+1]?, b[i+2]?, b[i+3]? with
  | some d0, some d1, some d2, some sp =>
    if sp != 32 || !(isDigit d0 && isDigit d1 && isDigit d2) then (i, .badChar, pl1)
    else
      let pl2 := { pl1 with statusCode := PField.set i (i + 3),
                            status := (d0.toNat - 48) * 100 + (d1.toNat - 48) * 10 + (d2.toNat - 48),
                            reason := PField.set (i + 4) (i + 4), state := .rplReason }
      flRplReason b (i + 4) pl2
  | _, _, _, _ => (i, .badChar, { pl1 with pnc := true }) -- Go: index out of range (excluded by the length test)

/-- `ParseFLine(buf, offs, pl)`. -/
def parseFLine (b : Buf) (offs : Nat) (pl : PFLine) : Nat × Err × PFLine :=
  match pl.state with
  | .init =>
    if b.size - offs < 14 then (offs, .moreBytes, pl)
    else
      match bcPrefix sipVerSP (b.extract offs (offs + 8)).toList with
      | (l, true) => flReply b offs l pl
      | (_, false) =>
        flReqMethod b offs { pl with state := .reqMethod, method := PField.set offs offs }
  | .reqMethod => flReqMethod b offs pl
  | .reqURI => flReqURI b offs pl
  | .reqVer => flReqVer b offs pl
  | .crlf => flCRLF b offs pl
  | .rplReason => flRplReason b offs pl
  | .rplStatus => (offs, .ok, { pl with state := .fin })  -- no case in the Go switch: falls to endOk
  | .fin => (offs, .ok, { pl with state := .fin })

/-- `Request()`: no status (0) AND no status-code text — a reply always has one, also `000` (fix 07883de) -/
def PFLine.request (pl : PFLine) : Bool := pl.status == 0 && pl.statusCode.len == 0
def PFLine.parsed (pl : PFLine) : Bool := pl.state == .fin
def PFLine.isEmpty (pl : PFLine) : Bool := pl.state == .init
def PFLine.pending (pl : PFLine) : Bool := pl.state != .fin && pl.state != .init

end Sipsp
