/-
  Sipsp.Model.Tables — bytescase (ByteToLower, CmpEq, Prefix), bytes.Equal,
  bytes.IndexByte, GetHdrType, GetMethodNo, SIPMethod.Name, URIParamResolve.
  The name tables and hash widths come from the REGENERATED `Sipsp.Generated.Facts`.
-/
import Sipsp.Model.Bytescase
import Sipsp.Generated.Facts

namespace Sipsp

/-! ### header names (parse_headers.go) -/

def HdrNone : Nat := 0
def HdrFrom : Nat := 1
def HdrTo : Nat := 2
def HdrCallID : Nat := 3
def HdrCSeq : Nat := 4
def HdrVia : Nat := 5
def HdrMaxFwd : Nat := 6
def HdrCLen : Nat := 7
def HdrContact : Nat := 8
def HdrExpires : Nat := 9
def HdrUA : Nat := 10
def HdrRecordRoute : Nat := 11
def HdrRoute : Nat := 12
def HdrPAI : Nat := 13
def HdrOther : Nat := 14

/-- `hashHdrName` / `hashMthName` for a non-empty name. -/
def hashName (bitsLen bitsFChar : Nat) (first : UInt8) (len : Nat) : Nat :=
  ((byteToLower first).toNat &&& ((1 <<< bitsFChar) - 1)) |||
    ((len &&& ((1 <<< bitsLen) - 1)) <<< bitsFChar)

def hashNameL (bitsLen bitsFChar : Nat) (n : List UInt8) : Nat :=
  match n with
  | [] => 0   -- Go would panic (n[0]); never used: callers guard / table names are non-empty
  | c :: _ => hashName bitsLen bitsFChar c n.length

/-- the bucket `hdrNameLookup[h]` built by `init()`: table entries with that hash, in table order. -/
def hdrBucket (h : Nat) : List (List UInt8 × Nat) :=
  Gen.hdrName2Type.filter (fun e => hashNameL Gen.C.hnBitsLen Gen.C.hnBitsFChar e.1 == h)

def lookupCI (name : Buf) : List (List UInt8 × Nat) → Option Nat
  | [] => none
  | e :: es => if cmpEqL name e.1 then some e.2 else lookupCI name es

/-- `GetHdrType(name)`. -/
def getHdrType (name : Buf) : Nat :=
  match name[0]? with
  | none => HdrOther
  | some c =>
    match lookupCI name (hdrBucket (hashName Gen.C.hnBitsLen Gen.C.hnBitsFChar c name.size)) with
    | some t => t
    | none => HdrOther

/-! ### methods (parse_method.go) -/

def MUndef : Nat := 0
def MInvite : Nat := 2
def MOther : Nat := 15

/-- `Method2Name[m]` as an array indexed by method number (keyed composite literal). -/
def method2NameAt (m : Nat) : List UInt8 :=
  match Gen.method2Name.find? (fun e => e.1 == m) with
  | some e => e.2
  | none => []

/-- `SIPMethod.Name()`. -/
def methodName (m : Nat) : List UInt8 :=
  if m > MOther then method2NameAt MUndef else method2NameAt m

/-- `init()` registers methods `MUndef+1 .. MOther-1`, in numeric order. -/
def mthEntries : List (List UInt8 × Nat) :=
  (List.range (MOther - 1)).map (fun k => (method2NameAt (k + 1), k + 1))

def mthBucket (h : Nat) : List (List UInt8 × Nat) :=
  mthEntries.filter (fun e => hashNameL Gen.C.mthBitsLen Gen.C.mthBitsFChar e.1 == h)

def lookupExact (name : Buf) : List (List UInt8 × Nat) → Option Nat
  | [] => none
  | e :: es => if bytesEqL name e.1 then some e.2 else lookupExact name es

/-- `GetMethodNo(buf)`. -/
def getMethodNo (name : Buf) : Nat :=
  match name[0]? with
  | none => MOther
  | some c =>
    match lookupExact name (mthBucket (hashName Gen.C.mthBitsLen Gen.C.mthBitsFChar c name.size)) with
    | some t => t
    | none => MOther

/-! ### URIParamResolve (parse_uri_params.go) -/

def URIParamNone : Nat := 0
def URIParamTransportF : Nat := 1
def URIParamUserF : Nat := 2
def URIParamMethodF : Nat := 4
def URIParamTTLF : Nat := 8
def URIParamMaddrF : Nat := 16
def URIParamLRF : Nat := 32
def URIParamOtherF : Nat := 64

def sTransport : List UInt8 := [116, 114, 97, 110, 115, 112, 111, 114, 116]
def sLr : List UInt8 := [108, 114]
def sMaddr : List UInt8 := [109, 97, 100, 100, 114]
def sUser : List UInt8 := [117, 115, 101, 114]
def sMethod : List UInt8 := [109, 101, 116, 104, 111, 100]
def sTtl : List UInt8 := [116, 116, 108]

def uriParamResolve (n : Buf) : Nat :=
  if cmpEqL n sTransport then URIParamTransportF
  else if cmpEqL n sLr then URIParamLRF
  else if cmpEqL n sMaddr then URIParamMaddrF
  else if cmpEqL n sUser then URIParamUserF
  else if cmpEqL n sMethod then URIParamMethodF
  else if cmpEqL n sTtl then URIParamTTLF
  else URIParamOtherF

end Sipsp
