/-
  Sipsp.Model.Tables — bytescase (ByteToLower, CmpEq, Prefix), bytes.Equal,
  bytes.IndexByte, GetHdrType, GetMethodNo, SIPMethod.Name, URIParamResolve.
  The name tables and hash widths come from the REGENERATED `Sipsp.Generated.Facts`.
-/
import Sipsp.Model.Basic
import Sipsp.Generated.Facts

namespace Sipsp

/-! ### bytescase@v1.0.2 (modelled from its source, bit-twiddling included) -/

/-- `(((0x40 - uint32(b)) & (uint32(b) - 0x5b)) >> 26) & 0x20` -/
def upperMask (b : UInt8) : UInt32 :=
  ((((0x40 : UInt32) - b.toUInt32) &&& (b.toUInt32 - 0x5b)) >>> 26) &&& 0x20

/-- `((((0x40-v)&(v-0x5b)) | ((0x60-v)&(v-0x7b))) >> 26) & 0x20` -/
def letterMask (v : UInt8) : UInt8 :=
  ((((((0x40 : UInt32) - v.toUInt32) &&& (v.toUInt32 - 0x5b)) |||
     (((0x60 : UInt32) - v.toUInt32) &&& (v.toUInt32 - 0x7b))) >>> 26) &&& 0x20).toUInt8

def byteToLower (b : UInt8) : UInt8 := b ||| (upperMask b).toUInt8

/-- one byte position of `CmpEq`/`Prefix`: `v|m == w|m` with `m = letterMask v`. -/
@[inline] def eqFold (v w : UInt8) : Bool := (v ||| letterMask v) == (w ||| letterMask v)

def cmpEqAux : List UInt8 → List UInt8 → Bool
  | [], [] => true
  | v :: vs, w :: ws => eqFold v w && cmpEqAux vs ws
  | _, _ => false

/-- `bytescase.CmpEq(s1, s2)`. -/
def cmpEq (s1 s2 : Buf) : Bool :=
  s1.size == s2.size && cmpEqAux s1.toList s2.toList

def cmpEqL (s1 : Buf) (s2 : List UInt8) : Bool :=
  s1.size == s2.length && cmpEqAux s1.toList s2

/-- `bytescase.Prefix(prefix, s)` for the only use in sipsp: returns (len, match).
    Go iterates over `s` (v = s[i]) and masks with the letter mask of `v`. -/
def prefixAux : List UInt8 → List UInt8 → Nat → Nat × Bool
  | [], _, i => (i, true)           -- i >= plen
  | _ :: _, [], i => (i, true)      -- s exhausted (cannot happen: plen ≤ len s)
  | p :: ps, v :: vs, i => if eqFold v p then prefixAux ps vs (i + 1) else (i, false)

def bcPrefix (pfx : List UInt8) (s : List UInt8) : Nat × Bool :=
  if pfx.length > s.length then (0, false) else prefixAux pfx s 0

/-- `bytes.Equal`. -/
def bytesEqL (a : Buf) (l : List UInt8) : Bool := a.toList == l
def bytesEq (a c : Buf) : Bool := a.toList == c.toList

/-- `bytes.IndexByte(b[from:], c)` as an absolute index. -/
def indexByteFrom (b : Buf) (i : Nat) (c : UInt8) : Option Nat :=
  match hb : b[i]? with
  | none => none
  | some x => if x == c then some i else indexByteFrom b (i + 1) c
termination_by b.size - i
decreasing_by
  have hi : i < b.size := by
    rcases Nat.lt_or_ge i b.size with h | h
    · exact h
    · rw [Array.getElem?_eq_none h] at hb; cases hb
  omega

/-! ### header names (parse_headers.go) -/

def HdrNone : Nat := 0
def HdrFrom : Nat := 1
def HdrTo : Nat := 2
def HdrCallID : Nat := 3
def HdrCSeq : Nat := 4
def HdrVia : Nat := 5
def HdrMaxFwd : Nat := 6
def HdrCLen : Nat := 7
def HdrContact : Nat := 8
def HdrExpires : Nat := 9
def HdrUA : Nat := 10
def HdrRecordRoute : Nat := 11
def HdrRoute : Nat := 12
def HdrPAI : Nat := 13
def HdrOther : Nat := 14

/-- `hashHdrName` / `hashMthName` for a non-empty name. -/
def hashName (bitsLen bitsFChar : Nat) (first : UInt8) (len : Nat) : Nat :=
  ((byteToLower first).toNat &&& ((1 <<< bitsFChar) - 1)) |||
    ((len &&& ((1 <<< bitsLen) - 1)) <<< bitsFChar)

def hashNameL (bitsLen bitsFChar : Nat) (n : List UInt8) : Nat :=
  match n with
  | [] => 0   -- Go would panic (n[0]); never used: callers guard / table names are non-empty
  | c :: _ => hashName bitsLen bitsFChar c n.length

/-- the bucket `hdrNameLookup[h]` built by `init()`: table entries with that hash, in table order. -/
def hdrBucket (h : Nat) : List (List UInt8 × Nat) :=
  Gen.hdrName2Type.filter (fun e => hashNameL Gen.C.hnBitsLen Gen.C.hnBitsFChar e.1 == h)

def lookupCI (name : Buf) : List (List UInt8 × Nat) → Option Nat
  | [] => none
  | e :: es => if cmpEqL name e.1 then some e.2 else lookupCI name es

/-- `GetHdrType(name)`. -/
def getHdrType (name : Buf) : Nat :=
  match name[0]? with
  | none => HdrOther
  | some c =>
    match lookupCI name (hdrBucket (hashName Gen.C.hnBitsLen Gen.C.hnBitsFChar c name.size)) with
    | some t => t
    | none => HdrOther

/-! ### methods (parse_method.go) -/

def MUndef : Nat := 0
def MInvite : Nat := 2
def MOther : Nat := 15

/-- `Method2Name[m]` as an array indexed by method number (keyed composite literal). -/
def method2NameAt (m : Nat) : List UInt8 :=
  match Gen.method2Name.find? (fun e => e.1 == m) with
  | some e => e.2
  | none => []

/-- `SIPMethod.Name()`. -/
def methodName (m : Nat) : List UInt8 :=
  if m > MOther then method2NameAt MUndef else method2NameAt m

/-- `init()` registers methods `MUndef+1 .. MOther-1`, in numeric order. -/
def mthEntries : List (List UInt8 × Nat) :=
  (List.range (MOther - 1)).map (fun k => (method2NameAt (k + 1), k + 1))

def mthBucket (h : Nat) : List (List UInt8 × Nat) :=
  mthEntries.filter (fun e => hashNameL Gen.C.mthBitsLen Gen.C.mthBitsFChar e.1 == h)

def lookupExact (name : Buf) : List (List UInt8 × Nat) → Option Nat
  | [] => none
  | e :: es => if bytesEqL name e.1 then some e.2 else lookupExact name es

/-- `GetMethodNo(buf)`. -/
def getMethodNo (name : Buf) : Nat :=
  match name[0]? with
  | none => MOther
  | some c =>
    match lookupExact name (mthBucket (hashName Gen.C.mthBitsLen Gen.C.mthBitsFChar c name.size)) with
    | some t => t
    | none => MOther

/-! ### URIParamResolve (parse_uri_params.go) -/

def URIParamNone : Nat := 0
def URIParamTransportF : Nat := 1
def URIParamUserF : Nat := 2
def URIParamMethodF : Nat := 4
def URIParamTTLF : Nat := 8
def URIParamMaddrF : Nat := 16
def URIParamLRF : Nat := 32
def URIParamOtherF : Nat := 64

def sTransport : List UInt8 := [116, 114, 97, 110, 115, 112, 111, 114, 116]
def sLr : List UInt8 := [108, 114]
def sMaddr : List UInt8 := [109, 97, 100, 100, 114]
def sUser : List UInt8 := [117, 115, 101, 114]
def sMethod : List UInt8 := [109, 101, 116, 104, 111, 100]
def sTtl : List UInt8 := [116, 116, 108]

def uriParamResolve (n : Buf) : Nat :=
  if cmpEqL n sTransport then URIParamTransportF
  else if cmpEqL n sLr then URIParamLRF
  else if cmpEqL n sMaddr then URIParamMaddrF
  else if cmpEqL n sUser then URIParamUserF
  else if cmpEqL n sMethod then URIParamMethodF
  else if cmpEqL n sTtl then URIParamTTLF
  else URIParamOtherF

end Sipsp
