/-
  Sipsp.Model.Bytescase — github.com/intuitivelabs/bytescase@v1.0.2 (ByteToLower, CmpEq, Prefix),
  bytes.Equal, bytes.IndexByte; modelled from their source, bit-twiddling included.
  (No dependency on the regenerated facts.)
-/
import Sipsp.Model.Basic

namespace Sipsp

/-! ### bytescase@v1.0.2 (modelled from its source, bit-twiddling included) -/

/-- `(((0x40 - uint32(b)) & (uint32(b) - 0x5b)) >> 26) & 0x20` -/
def upperMask (b : UInt8) : UInt32 :=
  ((((0x40 : UInt32) - b.toUInt32) &&& (b.toUInt32 - 0x5b)) >>> 26) &&& 0x20

/-- `((((0x40-v)&(v-0x5b)) | ((0x60-v)&(v-0x7b))) >> 26) & 0x20` -/
def letterMask (v : UInt8) : UInt8 :=
  ((((((0x40 : UInt32) - v.toUInt32) &&& (v.toUInt32 - 0x5b)) |||
     (((0x60 : UInt32) - v.toUInt32) &&& (v.toUInt32 - 0x7b))) >>> 26) &&& 0x20).toUInt8

def byteToLower (b : UInt8) : UInt8 := b ||| (upperMask b).toUInt8

/-- one byte position of `CmpEq`/`Prefix`: `v|m == w|m` with `m = letterMask v`. -/
@[inline] def eqFold (v w : UInt8) : Bool := (v ||| letterMask v) == (w ||| letterMask v)

def cmpEqAux : List UInt8 → List UInt8 → Bool
  | [], [] => true
  | v :: vs, w :: ws => eqFold v w && cmpEqAux vs ws
  | _, _ => false

/-- `bytescase.CmpEq(s1, s2)`. -/
def cmpEq (s1 s2 : Buf) : Bool :=
  s1.size == s2.size && cmpEqAux s1.toList s2.toList

def cmpEqL (s1 : Buf) (s2 : List UInt8) : Bool :=
  s1.size == s2.length && cmpEqAux s1.toList s2

/-- `bytescase.Prefix(prefix, s)` for the only use in sipsp: returns (len, match).
    Go iterates over `s` (v = s[i]) and masks with the letter mask of `v`. -/
def prefixAux : List UInt8 → List UInt8 → Nat → Nat × Bool
  | [], _, i => (i, true)           -- i >= plen
  | _ :: _, [], i => (i, true)      -- s exhausted (cannot happen: plen ≤ len s)
  | p :: ps, v :: vs, i => if eqFold v p then prefixAux ps vs (i + 1) else (i, false)

def bcPrefix (pfx : List UInt8) (s : List UInt8) : Nat × Bool :=
  if pfx.length > s.length then (0, false) else prefixAux pfx s 0

/-- `bytes.Equal`. -/
def bytesEqL (a : Buf) (l : List UInt8) : Bool := a.toList == l
def bytesEq (a c : Buf) : Bool := a.toList == c.toList

/-- `bytes.IndexByte(b[from:], c)` as an absolute index. -/
def indexByteFrom (b : Buf) (i : Nat) (c : UInt8) : Option Nat :=
  match hb : b[i]? with
  | none => none
  | some x => if x == c then some i else indexByteFrom b (i + 1) c
termination_by b.size - i
decreasing_by
  have hi : i < b.size := by
    rcases Nat.lt_or_ge i b.size with h | h
    · exact h
    · rw [Array.getElem?_eq_none h] at hb; cases hb
  omega


end Sipsp
