/-
  Sipsp.TieFuncsDep — translator tie for the DEPENDENCY github.com/intuitivelabs/bytescase (a separate module so that a
  sandbox without that module in its cache only loses this part of the soft obligation).
-/
import Sipsp.TieFuncs
import Sipsp.Model.Bytescase

namespace Sipsp.TieFuncs
open Sipsp

/-! ### the dependency `github.com/intuitivelabs/bytescase` (the version pinned by the repository's go.mod, read from the
module cache): its scalar leaf `ByteToLower`, the letter-case fold under every case-insensitive comparison -/

set_option maxRecDepth 20000 in
private theorem lower_table : ∀ n, n < 256 →
    Gen.F.bytescase_ByteToLower (UInt8.ofNat n) = byteToLower (UInt8.ofNat n) := by
  decide +kernel

-- TIE: bytescase.ByteToLower
/-- `bytescase.ByteToLower` (branch-free bit arithmetic on uint32) as translated from the dependency's source = the
    model's `byteToLower`, for every byte -/
theorem byteToLower_tie (b : UInt8) : Gen.F.bytescase_ByteToLower b = byteToLower b :=
  u8_cases (fun b => Gen.F.bytescase_ByteToLower b = byteToLower b) lower_table b

/-- and it is what it should be: upper-case ASCII letters get bit 5 set, every other byte is unchanged -/
theorem byteToLower_spec (b : UInt8) :
    Gen.F.bytescase_ByteToLower b = if (65 ≤ b && b ≤ 90) then b ||| 32 else b := by
  refine u8_cases (fun b => Gen.F.bytescase_ByteToLower b = if (65 ≤ b && b ≤ 90) then b ||| 32 else b) ?_ b
  decide +kernel

end Sipsp.TieFuncs
