/-
  Sipsp.TieFuncs — the second tie between model and code: leaf functions TRANSLATED from the Go sources on every run
  (/verif/extract/funcs.go → Sipsp/Generated/Funcs.lean, namespace `Sipsp.Gen.F`) are proved equal to the functions of
  the hand-written model, for ALL arguments. For these functions the model is therefore not merely compared with the
  implementation on generated inputs: the kernel re-checks, against what the source says now, that the model computes
  the same function as the translated source text. Trusted here: the translator (funcs.go, a loop-free scalar subset
  of Go) and `Sipsp.GoSem`.
  Methods with a pointer receiver to a STRUCT whose scalar fields they assign are translated as "fields in, assigned
  fields out"; a `panic(...)` statement is `none`.
  A SCANNING LOOP `for ; cond; i++ { }` becomes a recursive function over explicit fuel (len(buf) + 1); running out of
  fuel is `none`, so a tie `= some …` also shows that the loop ends within its fuel; a call of an already translated
  function is a call of its translation.
  Functions that READ a byte slice (`len`, `buf[i]`) are translated into `Option`: `none` is Go's index-out-of-range
  panic; the tie then also says that the function never panics.
  Finite domains are settled by `decide` over the whole domain (complete: such a proof can only fail when the two
  functions really differ); 64-bit flag words are first reduced to the one bit the function looks at.
  This module is built by the check as a SOFT obligation: when a function leaves the translatable subset or a tie no
  longer checks, the check says so in its evidence and falls back on the differential correspondence for that
  function (which is exhaustive for these leaves: all 256 bytes × both flag values, all header types), so a harmless
  rewrite of a leaf cannot raise an alarm by itself.
-/
import Sipsp.Generated.Funcs
import Sipsp.Model.Sig
import Sipsp.Model.URI
import Sipsp.Model.Lex
import Sipsp.Proofs.Scan

namespace Sipsp.TieFuncs
open Sipsp

/-- every byte is `UInt8.ofNat` of a number below 256 -/
theorem u8_cases (p : UInt8 → Prop) (h : ∀ n, n < 256 → p (UInt8.ofNat n)) (c : UInt8) : p c := by
  have := h c.toNat c.toNat_lt
  simpa using this

/-- the one bit of the option word that `tokAllowedChar` looks at, on both sides -/
private theorem flag_bit (flags : UInt64) :
    hasFlag flags.toNat POptTokURIParamF = ((flags &&& (64 : UInt64)) != (0 : UInt64)) := by
  unfold hasFlag POptTokURIParamF
  have h1 : (flags &&& (64 : UInt64)).toNat = flags.toNat &&& 64 := by simp
  by_cases h : (flags &&& (64 : UInt64)) = 0
  · have h2 : flags.toNat &&& 64 = 0 := by rw [← h1, h]; rfl
    rw [h, h2]; rfl
  · have h2 : flags.toNat &&& 64 ≠ 0 := by
      intro h0; apply h; apply UInt64.toNat_inj.mp; rw [h1, h0]; rfl
    have e1 : ((flags.toNat &&& 64) != 0) = true := by simpa using h2
    have e2 : ((flags &&& (64 : UInt64)) != 0) = true := by simpa using h
    rw [e1, e2]

/-- the translated function depends on the option word only through that bit -/
private theorem gen_dep (c : UInt8) (flags : UInt64) :
    Gen.F.tokAllowedChar c flags =
      Gen.F.tokAllowedChar c (if ((flags &&& (64 : UInt64)) != (0 : UInt64)) then 64 else 0) := by
  unfold Gen.F.tokAllowedChar
  by_cases h : ((flags &&& (64 : UInt64)) != (0 : UInt64)) = true
  · have e : (((64 : UInt64) &&& 64) != 0) = true := by decide
    simp only [h, if_true, e]
  · have h' : ((flags &&& (64 : UInt64)) != (0 : UInt64)) = false := by simpa using h
    have e : (((0 : UInt64) &&& 64) != 0) = false := by decide
    simp only [h', Bool.false_eq_true, if_false, e]

private theorem mod_dep (c : UInt8) (flags : Nat) :
    Sipsp.tokAllowedChar c flags = Sipsp.tokAllowedChar c (if hasFlag flags POptTokURIParamF then 64 else 0) := by
  unfold Sipsp.tokAllowedChar
  by_cases h : hasFlag flags POptTokURIParamF = true
  · have e : hasFlag 64 POptTokURIParamF = true := by decide
    simp only [h, if_true, e]
  · have h' : hasFlag flags POptTokURIParamF = false := by simpa using h
    have e : hasFlag 0 POptTokURIParamF = false := by decide
    simp only [h', Bool.false_eq_true, if_false, e]

set_option maxRecDepth 20000 in
/-- the whole finite table: 256 bytes × the two values of the bit -/
private theorem tok_table : ∀ n, n < 256 → ∀ bit : Bool,
    Gen.F.tokAllowedChar (UInt8.ofNat n) (if bit then 64 else 0) =
      Sipsp.tokAllowedChar (UInt8.ofNat n) (if bit then 64 else 0) := by
  decide +kernel

-- TIE: tokAllowedChar
/-- `tokAllowedChar` (parse_params.go) as translated from the source = the model's function, for every byte and every
    64-bit option word. -/
theorem tokAllowedChar_tie (c : UInt8) (flags : UInt64) :
    Gen.F.tokAllowedChar c flags = Sipsp.tokAllowedChar c flags.toNat := by
  rw [gen_dep, mod_dep, flag_bit]
  have := u8_cases (fun c => ∀ bit : Bool, Gen.F.tokAllowedChar c (if bit then 64 else 0) =
      Sipsp.tokAllowedChar c (if bit then 64 else 0)) tok_table c ((flags &&& (64 : UInt64)) != (0 : UInt64))
  simpa using this

set_option maxRecDepth 20000 in
private theorem res_table : ∀ n, n < 256 →
    (Gen.F.resCharSigFlag (UInt8.ofNat n)).toNat = Sipsp.resCharSigFlag (UInt8.ofNat n) := by
  decide +kernel

-- TIE: resCharSigFlag
/-- `resCharSigFlag` (msg_sig.go), every byte -/
theorem resCharSigFlag_tie (c : UInt8) : (Gen.F.resCharSigFlag c).toNat = Sipsp.resCharSigFlag c :=
  u8_cases (fun c => (Gen.F.resCharSigFlag c).toNat = Sipsp.resCharSigFlag c) res_table c

set_option maxRecDepth 20000 in
private theorem mv_small : ∀ n, n < 256 → Gen.F.multipleValsOk (UInt16.ofNat n) = Sipsp.multipleValsOk n := by
  decide +kernel

private theorem mv_big (h : UInt16) (hb : h.toNat ≥ 256) :
    Gen.F.multipleValsOk h = Sipsp.multipleValsOk h.toNat := by
  have ne : ∀ k : UInt16, k.toNat < 256 → (h == k) = false := by
    intro k hk; apply beq_false_of_ne; intro e; rw [e] at hb; omega
  unfold Gen.F.multipleValsOk Sipsp.multipleValsOk
  rw [ne 8 (by decide), ne 11 (by decide), ne 12 (by decide), ne 13 (by decide)]
  have hall : ∀ x ∈ Gen.multipleVals, x < 256 := by decide
  have : Gen.multipleVals.contains h.toNat = false := by
    cases hc : Gen.multipleVals.contains h.toNat
    · rfl
    · have hm : h.toNat ∈ Gen.multipleVals := by simpa using hc
      have := hall _ hm; omega
  rw [this]; rfl

-- TIE: multipleValsOk
/-- `multipleValsOk` (parse_from.go): every 16-bit header type -/
theorem multipleValsOk_tie (h : UInt16) : Gen.F.multipleValsOk h = Sipsp.multipleValsOk h.toNat := by
  by_cases hb : h.toNat ≥ 256
  · exact mv_big h hb
  · have := mv_small h.toNat (by omega)
    simpa using this

private theorem natcast_beq0 (n : Nat) : (((n : Int)) == 0) = (n == 0) := by
  cases n with
  | zero => rfl
  | succ k =>
    have h1 : (((k+1 : Nat) : Int) == 0) = false := by
      apply beq_false_of_ne; omega
    have h2 : ((k+1) == 0) = false := by simp
    rw [h1, h2]

private theorem natcast_pos (n : Nat) : decide ((n : Int) > 0) = decide (n > 0) := by
  by_cases h : n > 0
  · have : (n : Int) > 0 := by omega
    simp [h, this]
  · have : ¬ (n : Int) > 0 := by omega
    simp [h, this]

-- TIE: PField.Empty
/-- `PField.Empty` (parse_types.go) -/
theorem pfieldEmpty_tie (l : UInt16) : Gen.F.PField_Empty l = ({ offs := 0, len := l.toNat } : PField).isEmpty := by
  unfold Gen.F.PField_Empty PField.isEmpty
  by_cases h : l = 0
  · subst h; rfl
  · have h2 : l.toNat ≠ 0 := by
      intro h0; apply h; apply UInt16.toNat_inj.mp; rw [h0]; rfl
    have e1 : (l == 0) = false := beq_false_of_ne h
    have e2 : (l.toNat == 0) = false := beq_false_of_ne h2
    rw [e1]; exact e2.symm

-- TIE: PContacts.Empty
/-- the `N == 0` / `N > 0` predicates of the value lists (parse_contact.go, parse_pai.go, parse_uri_*.go) -/
theorem contactsEmpty_tie (c : PContacts) : Gen.F.PContacts_Empty (Int.ofNat c.n) = c.isEmpty := natcast_beq0 c.n
-- TIE: PContacts.Parsed
theorem contactsParsed_tie (c : PContacts) : Gen.F.PContacts_Parsed (Int.ofNat c.n) = c.parsed := natcast_pos c.n
-- TIE: PPAIs.Empty
theorem paisEmpty_tie (c : PPAIs) : Gen.F.PPAIs_Empty (Int.ofNat c.n) = c.isEmpty := natcast_beq0 c.n
-- TIE: PPAIs.Parsed
theorem paisParsed_tie (c : PPAIs) : Gen.F.PPAIs_Parsed (Int.ofNat c.n) = c.parsed := natcast_pos c.n
-- TIE: URIParamsLst.Empty
theorem uriParamsEmpty_tie (l : URIParamsLst) : Gen.F.URIParamsLst_Empty (Int.ofNat l.n) = l.isEmpty :=
  natcast_beq0 l.n
-- TIE: URIHdrsLst.Empty
theorem uriHdrsEmpty_tie (l : URIHdrsLst) : Gen.F.URIHdrsLst_Empty (Int.ofNat l.n) = l.isEmpty := natcast_beq0 l.n

/-- `HdrFlags.Set` (parse_headers.go) = the bookkeeping step of the model's ParseHeaders (`pflags ||| 1 <<< type`,
    reduced to 16 bits), for every flag word and every header type below 16 (the library's types are 0..14) -/
theorem hdrFlagsSet_tie (f t : UInt16) (ht : t.toNat < 16) :
    (Gen.F.HdrFlags_Set f t).toNat = (f.toNat ||| (1 <<< t.toNat)) % 65536 := by
  unfold Gen.F.HdrFlags_Set GoSem.shl16
  have : ¬ t.toNat ≥ 16 := by omega
  simp only [this, if_false]
  simp only [UInt16.toNat_or, UInt16.toNat_shiftLeft, UInt16.toNat_ofNat', UInt16.toNat_one]
  have hf := f.toNat_lt
  have h16 : t.toNat % 2 ^ 16 = t.toNat := Nat.mod_eq_of_lt (by omega)
  have h2 : (65536 : Nat) = 2 ^ 16 := by decide
  simp only [h16]
  rw [Nat.mod_eq_of_lt ht, h2, Nat.or_mod_two_pow, Nat.mod_eq_of_lt (by omega : f.toNat < 2 ^ 16)]

/-- beyond the width Go's shift gives 0: `Set` with a type ≥ 16 leaves the word unchanged -/
theorem hdrFlagsSet_wide (f t : UInt16) (ht : t.toNat ≥ 16) : Gen.F.HdrFlags_Set f t = f := by
  unfold Gen.F.HdrFlags_Set GoSem.shl16
  simp [ht]

private theorem or_shift_wide (f t : Nat) (hf : f < 65536) (ht : t ≥ 16) : (f ||| (1 <<< t)) % 65536 = f := by
  have h2 : (65536 : Nat) = 2 ^ 16 := by decide
  rw [h2, Nat.or_mod_two_pow, Nat.mod_eq_of_lt (by omega : f < 2 ^ 16)]
  have : (1 <<< t) % 2 ^ 16 = 0 := by
    rw [Nat.one_shiftLeft]
    obtain ⟨k, rfl⟩ : ∃ k, t = 16 + k := ⟨t - 16, by omega⟩
    rw [Nat.pow_add]
    exact Nat.mul_mod_right _ _
  rw [this]; simp

-- TIE: HdrFlags.Set
/-- **`HdrFlags.Set` for EVERY flag word and EVERY 16-bit header type** = the expression the model's ParseHeaders uses
    for its bookkeeping step (`(pflags ||| 1 <<< type) % 65536`, Model/Msg.lean `parseHeaders`; the same expression,
    reduced mod 65536, is the `bit` of Model/Sig.lean `msgSigLoop`) -/
theorem hdrFlagsSet_tie_all (f t : UInt16) :
    (Gen.F.HdrFlags_Set f t).toNat = (f.toNat ||| (1 <<< t.toNat)) % 65536 := by
  by_cases ht : t.toNat < 16
  · exact hdrFlagsSet_tie f t ht
  · rw [hdrFlagsSet_wide f t (by omega), or_shift_wide f.toNat t.toNat f.toNat_lt (by omega)]

/-- `HdrFlags.Test` after `Set` of the same type (< 16) is true -/
theorem hdrFlagsTest_after_set (f t : UInt16) (ht : t.toNat < 16) :
    Gen.F.HdrFlags_Test (Gen.F.HdrFlags_Set f t) t = true := by
  unfold Gen.F.HdrFlags_Test Gen.F.HdrFlags_Set GoSem.shl16
  have : ¬ t.toNat ≥ 16 := by omega
  simp only [this, if_false]
  have hne : ((1 : UInt16) <<< UInt16.ofNat t.toNat) ≠ 0 := by
    have : UInt16.ofNat t.toNat = t := by simp
    rw [this]
    revert ht
    refine (fun (h : t.toNat < 16) => ?_)
    have : t = UInt16.ofNat t.toNat := by simp
    rw [this]
    have key : ∀ n, n < 16 → ((1 : UInt16) <<< UInt16.ofNat n) ≠ 0 := by decide
    exact key _ h
  have e : ((f ||| (1 : UInt16) <<< UInt16.ofNat t.toNat) &&& (1 : UInt16) <<< UInt16.ofNat t.toNat)
      = (1 : UInt16) <<< UInt16.ofNat t.toNat := by
    apply UInt16.eq_of_toBitVec_eq
    simp only [UInt16.toBitVec_and, UInt16.toBitVec_or]
    ext i hi
    simp only [BitVec.getElem_and, BitVec.getElem_or]
    cases (f.toBitVec)[i] <;> simp
  rw [e]
  exact bne_iff_ne.mpr hne

/-! ### state predicates: `Parsed()` / `Empty()` / `Pending()` / `Err()` / `Missing()`

The model's parser states are inductive types without numbers (the numbering is not observable). To tie the Go predicates,
which compare the numeric state with a constant, each constructor is numbered here by the REGENERATED constant OF THE SAME
NAME (`ciFound` ↦ `Gen.C.ciFound` …), the numbering is shown injective (no two states share a number, so a predicate on
numbers cannot conflate states), and the translated predicate applied to the number of a state is proved equal to the
model's predicate on the state. If `Parsed()` were changed to test another constant, or two constants were given the same
value, these theorems would fail. -/

/-- the Go numbering of the model's states: each constructor is numbered by the REGENERATED constant of the same name -/
def ciNum : CIState → Nat
  | .init => Gen.C.ciInit | .found => Gen.C.ciFound | .fend => Gen.C.ciEnd | .fin => Gen.C.ciFIN
def clNum : CLState → Nat
  | .init => Gen.C.clInit | .found => Gen.C.clFound | .fend => Gen.C.clEnd | .fin => Gen.C.clFIN
def csNum : CSState → Nat
  | .init => Gen.C.csInit | .foundDigit => Gen.C.csFoundDigit | .endDigit => Gen.C.csEndDigit
  | .foundMethod => Gen.C.csFoundMethod | .fend => Gen.C.csEnd | .fin => Gen.C.csFIN
def flNum : FLState → Nat
  | .init => Gen.C.flInit | .reqMethod => Gen.C.flReqMethod | .reqURI => Gen.C.flReqURI | .reqVer => Gen.C.flReqVer
  | .rplStatus => Gen.C.flRplStatus | .rplReason => Gen.C.flRplReason | .crlf => Gen.C.flCRLF | .fin => Gen.C.flFIN
def msgNum : MsgState → Nat
  | .init => Gen.C.SIPMsgInit | .fline => Gen.C.SIPMsgFLine | .headers => Gen.C.SIPMsgHeaders | .body => Gen.C.SIPMsgBody
  | .err => Gen.C.SIPMsgErr | .noCLen => Gen.C.SIPMsgNoCLen | .fin => Gen.C.SIPMsgFIN

theorem ciNum_inj (a b : CIState) : ciNum a = ciNum b → a = b := by cases a <;> cases b <;> decide
theorem clNum_inj (a b : CLState) : clNum a = clNum b → a = b := by cases a <;> cases b <;> decide
theorem csNum_inj (a b : CSState) : csNum a = csNum b → a = b := by cases a <;> cases b <;> decide
theorem flNum_inj (a b : FLState) : flNum a = flNum b → a = b := by cases a <;> cases b <;> decide
theorem msgNum_inj (a b : MsgState) : msgNum a = msgNum b → a = b := by cases a <;> cases b <;> decide
theorem flNum_is_toNat (s : FLState) : flNum s = s.toNat := by cases s <;> decide

-- TIE: PCallIDBody.Parsed
theorem callidParsed_tie (s : PCallIDBody) : Gen.F.PCallIDBody_Parsed (UInt8.ofNat (ciNum s.state)) = s.parsed := by
  unfold PCallIDBody.parsed; cases s.state <;> decide
-- TIE: PCallIDBody.Empty
theorem callidEmpty_tie (st : CIState) : Gen.F.PCallIDBody_Empty (UInt8.ofNat (ciNum st)) = (st == .init) := by
  cases st <;> decide
-- TIE: PCallIDBody.Pending
theorem callidPending_tie (st : CIState) :
    Gen.F.PCallIDBody_Pending (UInt8.ofNat (ciNum st)) = (st != .fin && st != .init) := by cases st <;> decide
-- TIE: PUIntBody.Parsed
theorem uintParsed_tie (s : PUIntBody) : Gen.F.PUIntBody_Parsed (UInt8.ofNat (clNum s.state)) = s.parsed := by
  unfold PUIntBody.parsed; cases s.state <;> decide
-- TIE: PUIntBody.Empty
theorem uintEmpty_tie (st : CLState) : Gen.F.PUIntBody_Empty (UInt8.ofNat (clNum st)) = (st == .init) := by
  cases st <;> decide
-- TIE: PUIntBody.Pending
theorem uintPending_tie (st : CLState) :
    Gen.F.PUIntBody_Pending (UInt8.ofNat (clNum st)) = (st != .fin && st != .init) := by cases st <;> decide
-- TIE: PCSeqBody.Parsed
theorem cseqParsed_tie (s : PCSeqBody) : Gen.F.PCSeqBody_Parsed (UInt8.ofNat (csNum s.state)) = s.parsed := by
  unfold PCSeqBody.parsed; cases s.state <;> decide
-- TIE: PCSeqBody.Empty
theorem cseqEmpty_tie (st : CSState) : Gen.F.PCSeqBody_Empty (UInt8.ofNat (csNum st)) = (st == .init) := by
  cases st <;> decide
-- TIE: PCSeqBody.Pending
theorem cseqPending_tie (st : CSState) :
    Gen.F.PCSeqBody_Pending (UInt8.ofNat (csNum st)) = (st != .fin && st != .init) := by cases st <;> decide
-- TIE: PFLine.Parsed
theorem flineParsed_tie (pl : PFLine) : Gen.F.PFLine_Parsed (UInt8.ofNat (flNum pl.state)) = pl.parsed := by
  unfold PFLine.parsed; cases pl.state <;> decide
-- TIE: PFLine.Empty
theorem flineEmpty_tie (pl : PFLine) : Gen.F.PFLine_Empty (UInt8.ofNat (flNum pl.state)) = pl.isEmpty := by
  unfold PFLine.isEmpty; cases pl.state <;> decide
-- TIE: PFLine.Pending
theorem flinePending_tie (pl : PFLine) : Gen.F.PFLine_Pending (UInt8.ofNat (flNum pl.state)) = pl.pending := by
  unfold PFLine.pending; cases pl.state <;> decide
-- TIE: PSIPMsg.Parsed
theorem msgParsed_tie (m : PSIPMsg) : Gen.F.PSIPMsg_Parsed (UInt8.ofNat (msgNum m.state)) = m.parsed := by
  unfold PSIPMsg.parsed; cases m.state <;> decide
-- TIE: PSIPMsg.Err
theorem msgErr_tie (st : MsgState) : Gen.F.PSIPMsg_Err (UInt8.ofNat (msgNum st)) = (st == .err) := by
  cases st <;> decide
def fbNum : FBState → Nat
  | .init => Gen.C.fbInit
  | .nameOrURI => Gen.C.fbNameOrURI
  | .nameOrURIEnd => Gen.C.fbNameOrURIEnd
  | .name => Gen.C.fbName
  | .quoted => Gen.C.fbQuoted
  | .uri => Gen.C.fbURI
  | .uriFound => Gen.C.fbURIFound
  | .newPossibleParam => Gen.C.fbNewPossibleParam
  | .possibleParamName => Gen.C.fbPossibleParamName
  | .possibleParamNameEnd => Gen.C.fbPossibleParamNameEnd
  | .newParam => Gen.C.fbNewParam
  | .paramName => Gen.C.fbParamName
  | .paramNameEnd => Gen.C.fbParamNameEnd
  | .newParamVal => Gen.C.fbNewParamVal
  | .paramVal => Gen.C.fbParamVal
  | .paramValEnd => Gen.C.fbParamValEnd
  | .newPossibleVal => Gen.C.fbNewPossibleVal
  | .possibleVal => Gen.C.fbPossibleVal
  | .possibleValEnd => Gen.C.fbPossibleValEnd
  | .quotedVal => Gen.C.fbQuotedVal
  | .quotedPossibleVal => Gen.C.fbQuotedPossibleVal
  | .tagT => Gen.C.fbTagT
  | .tagA => Gen.C.fbTagA
  | .tagG => Gen.C.fbTagG
  | .tagEq => Gen.C.fbTagEq
  | .tagVal => Gen.C.fbTagVal
  | .pTagT => Gen.C.fbPTagT
  | .pTagA => Gen.C.fbPTagA
  | .pTagG => Gen.C.fbPTagG
  | .pTagEq => Gen.C.fbPTagEq
  | .pTagVal => Gen.C.fbPTagVal
  | .star => Gen.C.fbStar
  | .fin => Gen.C.fbFIN
theorem fbNum_inj (a b : FBState) : fbNum a = fbNum b → a = b := by
  intro h
  cases a <;> cases b <;> first | rfl | (exact absurd h (by decide))
-- TIE: PFromBody.Parsed
theorem fromParsed_tie (pf : PFromBody) : Gen.F.PFromBody_Parsed (UInt8.ofNat (fbNum pf.state)) = pf.parsed := by
  unfold PFromBody.parsed; cases pf.state <;> decide
-- TIE: PFromBody.Empty
theorem fromEmpty_tie (pf : PFromBody) : Gen.F.PFromBody_Empty (UInt8.ofNat (fbNum pf.state)) = pf.isEmpty := by
  unfold PFromBody.isEmpty; cases pf.state <;> decide
-- TIE: PFromBody.Pending
theorem fromPending_tie (pf : PFromBody) : Gen.F.PFromBody_Pending (UInt8.ofNat (fbNum pf.state)) = pf.pending := by
  unfold PFromBody.pending; cases pf.state <;> decide
-- TIE: Hdr.Missing
theorem hdrMissing_tie (h : Hdr) (ht : h.type < 65536) : Gen.F.Hdr_Missing (UInt16.ofNat h.type) = h.missing := by
  unfold Gen.F.Hdr_Missing Hdr.missing HdrNone
  by_cases h0 : h.type = 0
  · simp [h0]
  · have : UInt16.ofNat h.type ≠ 0 := by
      intro e; apply h0
      have := congrArg UInt16.toNat e
      simpa [UInt16.toNat_ofNat', Nat.mod_eq_of_lt ht] using this
    have e1 : (UInt16.ofNat h.type == 0) = false := beq_false_of_ne this
    have e2 : (h.type == 0) = false := beq_false_of_ne h0
    rw [e1, e2]

/-! ### methods that assign struct fields and may panic: `PField.Set`, `PField.Extend` -/

private theorem ofInt16_nat (n : Nat) : GoSem.ofInt16 (Int.ofNat n) = UInt16.ofNat (n % 65536) := by
  unfold GoSem.ofInt16
  have : ((Int.ofNat n) % 65536).toNat = n % 65536 := by
    have h : (Int.ofNat n) % 65536 = Int.ofNat (n % 65536) := by simp
    rw [h]; rfl
  rw [this]

-- TIE: PField.Set
/-- **`PField.Set(start, end)` (parse_types.go)**: the translated method — a pointer receiver to a struct becomes "fields
    in, assigned fields out", Go's `panic("invalid range")` becomes `none` — panics exactly when the model's `setPanics`
    says so (`end < start`) and otherwise stores exactly the model's field (16-bit truncation of the offset and of the
    length), for all natural `start`, `end`. This is the site every parser reports its spans through. -/
theorem set_tie (o l : UInt16) (s e : Nat) :
    Gen.F.PField_Set o l (Int.ofNat s) (Int.ofNat e) =
      if PField.setPanics s e then none
      else some (UInt16.ofNat (PField.set s e).offs, UInt16.ofNat (PField.set s e).len) := by
  unfold Gen.F.PField_Set PField.setPanics PField.set
  simp only [Option.bind_some]
  by_cases h : e < s
  · have hd : decide ((Int.ofNat e : Int) < Int.ofNat s) = true := by
      apply decide_eq_true; show (e : Int) < (s : Int); omega
    simp [hd, h]
  · have hd : decide ((Int.ofNat e : Int) < Int.ofNat s) = false := by
      apply decide_eq_false; show ¬ (e : Int) < (s : Int); omega
    have hsub : (Int.ofNat e - Int.ofNat s) = Int.ofNat (e - s) := by
      show (e : Int) - (s : Int) = ((e - s : Nat) : Int); omega
    rw [hsub, ofInt16_nat, ofInt16_nat]
    simp [hd, h, trunc16]

-- TIE: PField.Extend
/-- **`PField.Extend(newEnd)`**: panics exactly when `extendPanics` says so (`newEnd < Offs`), otherwise the new length is
    the model's (uint16 subtraction), for every field with a 16-bit offset and every natural `newEnd` -/
theorem extend_tie (l : UInt16) (p : PField) (e : Nat) (hp : p.offs < 65536) :
    Gen.F.PField_Extend l (UInt16.ofNat p.offs) (Int.ofNat e) =
      if p.extendPanics e then none else some (UInt16.ofNat (p.extend e).len) := by
  unfold Gen.F.PField_Extend PField.extendPanics PField.extend
  have ho : (UInt16.ofNat p.offs).toNat = p.offs := by simp [UInt16.toNat_ofNat', Nat.mod_eq_of_lt hp]
  simp only [Option.bind_some, ho]
  by_cases h : e < p.offs
  · have hd : decide ((Int.ofNat e : Int) < Int.ofNat p.offs) = true := by
      apply decide_eq_true; show (e : Int) < (p.offs : Int); omega
    rw [hd]; simp [h]
  · have hd : decide ((Int.ofNat e : Int) < Int.ofNat p.offs) = false := by
      apply decide_eq_false; show ¬ (e : Int) < (p.offs : Int); omega
    rw [hd, ofInt16_nat]
    simp only [h, Bool.false_eq_true, if_false, decide_false]
    congr 1
    apply UInt16.toNat_inj.mp
    simp only [UInt16.toNat_sub, UInt16.toNat_ofNat', trunc16]
    have h1 : e % 65536 % 2 ^ 16 = e % 65536 := by omega
    have h2 : p.offs % 2 ^ 16 = p.offs := by omega
    rw [h1, h2]
    omega

/-! ### a function that reads a slice: `skipCRLF` -/

private theorem idx_nat (b : Buf) (k : Nat) : GoSem.idx? b (Int.ofNat k) = b[k]? := by
  unfold GoSem.idx?
  have h : ¬ ((k : Int) < 0) := by omega
  simp [h]

private theorem idx_nat1 (b : Buf) (k : Nat) : GoSem.idx? b (Int.ofNat k + 1) = b[k+1]? := by
  have : (Int.ofNat k + 1) = Int.ofNat (k+1) := by simp
  rw [this, idx_nat]

/-- the Go error code (`ErrorHdr`, a uint32) of a model verdict -/
def errU32 (e : Err) : UInt32 := UInt32.ofNat e.toNat

private theorem ge_nat (i n : Nat) : decide ((Int.ofNat i + 1 : Int) ≥ Int.ofNat n) = decide (n ≤ i + 1) := by
  apply decide_eq_decide.mpr
  constructor <;> intro h
  · have h' : (n : Int) ≤ (i : Int) + 1 := h
    omega
  · show (n : Int) ≤ (i : Int) + 1
    omega

private theorem lt_nat (i n : Nat) : decide ((Int.ofNat i : Int) < Int.ofNat n) = decide (i < n) := by
  apply decide_eq_decide.mpr
  constructor <;> intro h
  · have h' : (i : Int) < (n : Int) := h
    omega
  · show (i : Int) < (n : Int)
    omega

-- TIE: skipCRLF
/-- **`skipCRLF` (parse_utils.go), the line-end recogniser under every parser of the library**: the translated source —
    with Go's index-out-of-range panic made explicit as `none` — never panics and returns exactly the model's triple
    (offset after the line end, its length, verdict), for every buffer and every start offset ≥ 0. -/
theorem skipCRLF_tie (b : Buf) (i : Nat) :
    Gen.F.skipCRLF b (Int.ofNat i) =
      some (Int.ofNat (skipCRLF b i).1, Int.ofNat (skipCRLF b i).2.1, errU32 (skipCRLF b i).2.2) := by
  unfold Gen.F.skipCRLF skipCRLF
  simp only [Option.bind_some, idx_nat, idx_nat1, ge_nat, lt_nat]
  by_cases h1 : i + 1 < b.size
  · have h0 : i < b.size := by omega
    have e1 : b[i+1]? = some b[i+1] := Array.getElem?_eq_getElem h1
    have e0 : b[i]? = some b[i] := Array.getElem?_eq_getElem h0
    have hc : decide (b.size ≤ i + 1) = false := by simp; omega
    rw [e1, e0]
    simp only [hc, Option.bind_some]
    generalize b[i] = c0
    generalize b[i+1] = c1
    by_cases a : c0 = 13
    · subst a
      by_cases a1 : c1 = 10
      · subst a1; simp [errU32, Err.toNat]
      · simp [a1, errU32, Err.toNat]
    · by_cases a' : c0 = 10
      · subst a'; simp [errU32, Err.toNat]
      · simp [a, a', errU32, Err.toNat]
  · have e1 : b[i+1]? = none := Array.getElem?_eq_none (by omega)
    have hc : decide (b.size ≤ i + 1) = true := by simp; omega
    rw [e1]
    simp only [hc, if_true]
    by_cases h0 : i < b.size
    · have e0 : b[i]? = some b[i] := Array.getElem?_eq_getElem h0
      have hd : decide (i < b.size) = true := by simp [h0]
      rw [e0]
      simp only [hd, if_true, Option.bind_some]
      generalize b[i] = c0
      by_cases a : c0 = 13
      · subst a; simp [errU32, Err.toNat]
      · by_cases a' : c0 = 10
        · subst a'; simp [errU32, Err.toNat]
        · simp [a, a', errU32, Err.toNat]
    · have e0 : b[i]? = none := Array.getElem?_eq_none (by omega)
      have hd : decide (i < b.size) = false := by simp [h0]
      rw [e0]
      simp [hd, errU32, Err.toNat]

/-! ### `Request()` / `Method()` / `PTokParam.Empty()`: paths of field selections and calls of translated methods

`PFLine.Request` is the site of defect F22 (a status line with code 000 was reported as a request): the repaired source
text is what is translated here, and it is proved to be the model's `request`. -/

private theorem u16_beq0 (n : Nat) (h : n < 65536) : (UInt16.ofNat n == 0) = (n == 0) := by
  by_cases h0 : n = 0
  · subst h0; rfl
  · have : UInt16.ofNat n ≠ 0 := by
      intro e; apply h0
      have := congrArg UInt16.toNat e
      simpa [UInt16.toNat_ofNat', Nat.mod_eq_of_lt h] using this
    rw [beq_false_of_ne this, beq_false_of_ne h0]

-- TIE: PFLine.Request
theorem flineRequest_tie (pl : PFLine) (hs : pl.status < 65536) (hl : pl.statusCode.len < 65536) :
    Gen.F.PFLine_Request (UInt16.ofNat pl.status) (UInt16.ofNat pl.statusCode.len) = pl.request := by
  unfold Gen.F.PFLine_Request Gen.F.PField_Empty PFLine.request
  rw [u16_beq0 _ hs, u16_beq0 _ hl]
-- TIE: PTokParam.Empty
theorem tokparamEmpty_tie (p : PTokParam) (hl : p.all.len < 65536) :
    Gen.F.PTokParam_Empty (UInt16.ofNat p.all.len) = p.isEmpty := by
  unfold Gen.F.PTokParam_Empty Gen.F.PField_Empty PTokParam.isEmpty PField.isEmpty
  rw [u16_beq0 _ hl]
-- TIE: PSIPMsg.Request
theorem msgRequest_tie (m : PSIPMsg) (hs : m.fl.status < 65536) (hl : m.fl.statusCode.len < 65536) :
    Gen.F.PSIPMsg_Request (UInt16.ofNat m.fl.status) (UInt16.ofNat m.fl.statusCode.len) = m.request := by
  unfold Gen.F.PSIPMsg_Request PSIPMsg.request
  exact flineRequest_tie m.fl hs hl
-- TIE: PSIPMsg.Method
theorem msgMethod_tie (m : PSIPMsg) (hs : m.fl.status < 65536) (hl : m.fl.statusCode.len < 65536) :
    Gen.F.PSIPMsg_Method (UInt8.ofNat m.pv.cseq.methodNo) (UInt8.ofNat m.fl.methodNo) (UInt16.ofNat m.fl.status)
      (UInt16.ofNat m.fl.statusCode.len) = UInt8.ofNat m.method := by
  unfold Gen.F.PSIPMsg_Method PSIPMsg.method
  rw [msgRequest_tie m hs hl]
  by_cases h : m.request = true <;> simp [h]

/-! ### the capacity accessors `VNo / PNo / HNo / More` (the caller's array enters as its length) -/

private theorem gt_nat (a b : Nat) : decide ((Int.ofNat a : Int) > Int.ofNat b) = decide (a > b) := by
  apply decide_eq_decide.mpr
  constructor <;> intro h
  · have h' : (a : Int) > (b : Int) := h
    omega
  · show (a : Int) > (b : Int)
    omega

-- TIE: PContacts.VNo
theorem contactsVNo_tie (c : PContacts) : Gen.F.PContacts_VNo (Int.ofNat c.n) c.vals.size = Int.ofNat c.vNo := by
  unfold Gen.F.PContacts_VNo PContacts.vNo
  rw [gt_nat]
  by_cases h : c.n > c.vals.size <;> simp [h]
-- TIE: PContacts.More
theorem contactsMore_tie (c : PContacts) : Gen.F.PContacts_More (Int.ofNat c.n) c.vals.size = c.more := by
  unfold Gen.F.PContacts_More PContacts.more; rw [gt_nat]
-- TIE: PPAIs.VNo
theorem paisVNo_tie (c : PPAIs) (h2 : c.vals.size = 2) : Gen.F.PPAIs_VNo (Int.ofNat c.n) = Int.ofNat c.vNo := by
  unfold Gen.F.PPAIs_VNo PPAIs.vNo
  have e : ((2 : Int)) = Int.ofNat 2 := rfl
  rw [e, gt_nat, h2]
  by_cases h : c.n > 2 <;> simp [h]
-- TIE: PPAIs.More
theorem paisMore_tie (c : PPAIs) (h2 : c.vals.size = 2) : Gen.F.PPAIs_More (Int.ofNat c.n) = c.more := by
  unfold Gen.F.PPAIs_More PPAIs.more
  have e : ((2 : Int)) = Int.ofNat 2 := rfl
  rw [e, gt_nat, h2]
-- TIE: URIParamsLst.PNo
theorem uriParamsPNo_tie (l : URIParamsLst) : Gen.F.URIParamsLst_PNo (Int.ofNat l.n) l.params.size = Int.ofNat l.pNo := by
  unfold Gen.F.URIParamsLst_PNo URIParamsLst.pNo
  rw [gt_nat]
  by_cases h : l.n > l.params.size <;> simp [h]
-- TIE: URIParamsLst.More
theorem uriParamsMore_tie (l : URIParamsLst) : Gen.F.URIParamsLst_More (Int.ofNat l.n) l.params.size = l.more := by
  unfold Gen.F.URIParamsLst_More URIParamsLst.more; rw [gt_nat]
-- TIE: URIHdrsLst.HNo
theorem uriHdrsHNo_tie (l : URIHdrsLst) : Gen.F.URIHdrsLst_HNo (Int.ofNat l.n) l.hdrs.size = Int.ofNat l.hNo := by
  unfold Gen.F.URIHdrsLst_HNo URIHdrsLst.hNo
  rw [gt_nat]
  by_cases h : l.n > l.hdrs.size <;> simp [h]
-- TIE: URIHdrsLst.More
theorem uriHdrsMore_tie (l : URIHdrsLst) : Gen.F.URIHdrsLst_More (Int.ofNat l.n) l.hdrs.size = l.more := by
  unfold Gen.F.URIHdrsLst_More URIHdrsLst.more; rw [gt_nat]

/-! ### scanning loops: `skipWS`, `skipToken`, `skipTokenDelim`, `skipLine` -/

private theorem succ_nat (i : Nat) : (Int.ofNat i + 1 : Int) = Int.ofNat (i + 1) := by simp

/-- one unfolding of the fuelled loop at a natural position, with the condition as a function of the byte -/
theorem skipWS_loop_step (b : Buf) (n i : Nat) :
    Gen.F.skipWS_loop1 b (n + 1) (Int.ofNat i) =
      match b[i]? with
      | none => some (Int.ofNat i)
      | some c => if isWS c then Gen.F.skipWS_loop1 b n (Int.ofNat (i + 1)) else some (Int.ofNat i) := by
  rw [Gen.F.skipWS_loop1]
  simp only [Option.bind_some, idx_nat, lt_nat, succ_nat]
  by_cases hi : i < b.size
  · have e0 : b[i]? = some b[i] := Array.getElem?_eq_getElem hi
    have hd : decide (i < b.size) = true := by simp [hi]
    rw [e0]
    simp only [hd, if_true, Option.bind_some]
    generalize b[i] = c
    cases h32 : (c == 32) <;> cases h9 : (c == 9) <;> simp [isWS, h32, h9]
  · have e0 : b[i]? = none := Array.getElem?_eq_none (by omega)
    have hd : decide (i < b.size) = false := by simp [hi]
    rw [e0]
    simp [hd]

theorem skipWS_loop_tie (b : Buf) (i : Nat) : ∀ fuel, b.size - i < fuel →
    Gen.F.skipWS_loop1 b fuel (Int.ofNat i) = some (Int.ofNat (skipWS b i)) := by
  fun_induction skipWS b i with
  | case1 i hb =>
    intro fuel h
    cases fuel with
    | zero => omega
    | succ n => rw [skipWS_loop_step, hb]
  | case2 i c hb hl ih =>
    intro fuel h
    cases fuel with
    | zero => omega
    | succ n =>
      rw [skipWS_loop_step, hb]
      simp only [hl, if_true]
      exact ih n (by have := get?_lt hb; omega)
  | case3 i c hb hl =>
    intro fuel h
    cases fuel with
    | zero => omega
    | succ n =>
      rw [skipWS_loop_step, hb]
      simp [hl]

-- TIE: skipWS
/-- **`skipWS` (parse_utils.go), a scanning LOOP**: the translated loop — a recursive function over explicit fuel
    `len(buf) + 1` — finishes within its fuel, never indexes out of range and returns the model's offset, for every
    buffer and every start offset -/
theorem skipWS_tie (b : Buf) (i : Nat) : Gen.F.skipWS b (Int.ofNat i) = some (Int.ofNat (skipWS b i)) := by
  unfold Gen.F.skipWS
  rw [skipWS_loop_tie b i (b.size + 1) (by omega)]
  rfl

theorem skipToken_loop_step (b : Buf) (n i : Nat) :
    Gen.F.skipToken_loop1 b (n + 1) (Int.ofNat i) =
      match b[i]? with
      | none => some (Int.ofNat i)
      | some c => if isLWSch c then some (Int.ofNat i) else Gen.F.skipToken_loop1 b n (Int.ofNat (i + 1)) := by
  rw [Gen.F.skipToken_loop1]
  simp only [Option.bind_some, idx_nat, lt_nat, succ_nat]
  by_cases hi : i < b.size
  · have e0 : b[i]? = some b[i] := Array.getElem?_eq_getElem hi
    have hd : decide (i < b.size) = true := by simp [hi]
    rw [e0]
    simp only [hd, if_true, Option.bind_some]
    generalize b[i] = c
    cases h32 : (c == 32) <;> cases h9 : (c == 9) <;> cases h13 : (c == 13) <;> cases h10 : (c == 10) <;>
      simp [isLWSch, bne, h32, h9, h13, h10]
  · have e0 : b[i]? = none := Array.getElem?_eq_none (by omega)
    have hd : decide (i < b.size) = false := by simp [hi]
    rw [e0]
    simp [hd]

theorem skipToken_loop_tie (b : Buf) (i : Nat) : ∀ fuel, b.size - i < fuel →
    Gen.F.skipToken_loop1 b fuel (Int.ofNat i) = some (Int.ofNat (skipToken b i)) := by
  fun_induction skipToken b i with
  | case1 i hb =>
    intro fuel h
    cases fuel with
    | zero => omega
    | succ n => rw [skipToken_loop_step, hb]
  | case2 i c hb hl =>
    intro fuel h
    cases fuel with
    | zero => omega
    | succ n => rw [skipToken_loop_step, hb]; simp [hl]
  | case3 i c hb hl ih =>
    intro fuel h
    cases fuel with
    | zero => omega
    | succ n =>
      rw [skipToken_loop_step, hb]
      simp only [hl, Bool.false_eq_true, if_false]
      exact ih n (by have := get?_lt hb; omega)

-- TIE: skipToken
/-- **`skipToken` (parse_utils.go), a scanning LOOP**: the translated loop — a recursive function over explicit fuel
    `len(buf) + 1` — finishes within its fuel, never indexes out of range and returns the model's offset, for every
    buffer and every start offset -/
theorem skipToken_tie (b : Buf) (i : Nat) : Gen.F.skipToken b (Int.ofNat i) = some (Int.ofNat (skipToken b i)) := by
  unfold Gen.F.skipToken
  rw [skipToken_loop_tie b i (b.size + 1) (by omega)]
  rfl

theorem skipTokenDelim_loop_step (b : Buf) (d : UInt8) (n i : Nat) :
    Gen.F.skipTokenDelim_loop1 b d (n + 1) (Int.ofNat i) =
      match b[i]? with
      | none => some (Int.ofNat i)
      | some c => if isLWSch c || c == d then some (Int.ofNat i)
                  else Gen.F.skipTokenDelim_loop1 b d n (Int.ofNat (i + 1)) := by
  rw [Gen.F.skipTokenDelim_loop1]
  simp only [Option.bind_some, idx_nat, lt_nat, succ_nat]
  by_cases hi : i < b.size
  · have e0 : b[i]? = some b[i] := Array.getElem?_eq_getElem hi
    have hd : decide (i < b.size) = true := by simp [hi]
    rw [e0]
    simp only [hd, if_true, Option.bind_some]
    generalize b[i] = c
    cases h32 : (c == 32) <;> cases h9 : (c == 9) <;> cases h13 : (c == 13) <;> cases h10 : (c == 10) <;>
      cases hdl : (c == d) <;> simp [isLWSch, bne, h32, h9, h13, h10, hdl]
  · have e0 : b[i]? = none := Array.getElem?_eq_none (by omega)
    have hd : decide (i < b.size) = false := by simp [hi]
    rw [e0]
    simp [hd]

theorem skipTokenDelim_loop_tie (b : Buf) (i : Nat) (d : UInt8) : ∀ fuel, b.size - i < fuel →
    Gen.F.skipTokenDelim_loop1 b d fuel (Int.ofNat i) = some (Int.ofNat (skipTokenDelim b i d)) := by
  fun_induction skipTokenDelim b i d with
  | case1 i hb =>
    intro fuel h
    cases fuel with
    | zero => omega
    | succ n => rw [skipTokenDelim_loop_step, hb]
  | case2 i c hb hl =>
    intro fuel h
    cases fuel with
    | zero => omega
    | succ n => rw [skipTokenDelim_loop_step, hb]; simp [hl]
  | case3 i c hb hl ih =>
    intro fuel h
    cases fuel with
    | zero => omega
    | succ n =>
      rw [skipTokenDelim_loop_step, hb]
      simp only [hl, Bool.false_eq_true, if_false]
      exact ih n (by have := get?_lt hb; omega)

-- TIE: skipTokenDelim
/-- **`skipTokenDelim` (parse_utils.go), a scanning LOOP**: the translated loop — a recursive function over explicit fuel
    `len(buf) + 1` — finishes within its fuel, never indexes out of range and returns the model's offset, for every
    buffer and every start offset -/
theorem skipTokenDelim_tie (b : Buf) (i : Nat) (d : UInt8) :
    Gen.F.skipTokenDelim b (Int.ofNat i) d = some (Int.ofNat (skipTokenDelim b i d)) := by
  unfold Gen.F.skipTokenDelim
  rw [skipTokenDelim_loop_tie b i d (b.size + 1) (by omega)]
  rfl

theorem skipLine_loop_step (b : Buf) (n i : Nat) :
    Gen.F.skipLine_loop1 b (n + 1) (Int.ofNat i) =
      match b[i]? with
      | none => some (Int.ofNat i)
      | some c => if isCRLFch c then some (Int.ofNat i) else Gen.F.skipLine_loop1 b n (Int.ofNat (i + 1)) := by
  rw [Gen.F.skipLine_loop1]
  simp only [Option.bind_some, idx_nat, lt_nat, succ_nat]
  by_cases hi : i < b.size
  · have e0 : b[i]? = some b[i] := Array.getElem?_eq_getElem hi
    have hd : decide (i < b.size) = true := by simp [hi]
    rw [e0]
    simp only [hd, if_true, Option.bind_some]
    generalize b[i] = c
    cases h13 : (c == 13) <;> cases h10 : (c == 10) <;> simp [isCRLFch, bne, h13, h10]
  · have e0 : b[i]? = none := Array.getElem?_eq_none (by omega)
    have hd : decide (i < b.size) = false := by simp [hi]
    rw [e0]
    simp [hd]

theorem skipLine_loop_tie (b : Buf) (i : Nat) : ∀ fuel, b.size - i < fuel →
    Gen.F.skipLine_loop1 b fuel (Int.ofNat i) = some (Int.ofNat (skipToEOL b i)) := by
  fun_induction skipToEOL b i with
  | case1 i hb =>
    intro fuel h
    cases fuel with
    | zero => omega
    | succ n => rw [skipLine_loop_step, hb]
  | case2 i c hb hl =>
    intro fuel h
    cases fuel with
    | zero => omega
    | succ n => rw [skipLine_loop_step, hb]; simp [hl]
  | case3 i c hb hl ih =>
    intro fuel h
    cases fuel with
    | zero => omega
    | succ n =>
      rw [skipLine_loop_step, hb]
      simp only [hl, Bool.false_eq_true, if_false]
      exact ih n (by have := get?_lt hb; omega)

-- TIE: skipLine
/-- **`skipLine` (parse_utils.go)**: a scanning loop followed by a CALL of the translated `skipCRLF` = the model's
    `skipLine` (skip to the line end, then recognise it), for every buffer and every start offset -/
theorem skipLine_tie (b : Buf) (i : Nat) :
    Gen.F.skipLine b (Int.ofNat i) =
      some (Int.ofNat (skipLine b i).1, Int.ofNat (skipLine b i).2.1, errU32 (skipLine b i).2.2) := by
  unfold Gen.F.skipLine skipLine
  rw [skipLine_loop_tie b i (b.size + 1) (by omega)]
  simp only [Option.bind_some]
  rw [skipCRLF_tie]
  rfl

end Sipsp.TieFuncs
