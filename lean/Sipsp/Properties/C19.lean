/-
  Property C19 — the message signature depends only on what it is documented to fingerprint.

  Model: `getMsgSigCore m b` (Sipsp/Model/Sig.lean, GetMsgSig of msg_sig.go) for a parsed-message object `m` whose `Buf` is
  the prefix `b[0 : m.bufLen]`, and `MsgSig.toStr`. Everything below is proved for ALL message objects `m` (any stored
  header list of any length, any flag word, any header count `n`, any field offsets) and ALL buffers; there is no size
  bound and no assumption that `m` came out of the parser other than the hypotheses spelled out in each statement.

  The VIEW of a message (`view m b`) keeps of every stored header only a `SigKey`: its type, whether the name is one
  byte long (compact form), and — for Via headers — the bytes of its value. `firsts m b` = `sigFirsts [] (view m b)` is
  the view restricted to the eight fingerprinted types (Call-ID, Contact, CSeq, From, Max-Forwards, To, Via,
  User-Agent) at their FIRST occurrence; `firsts_*` pin it down declaratively (a sub-sequence of the view, only
  fingerprinted types, no type twice, and for each fingerprinted type exactly the first header of that type).

  Proved for ALL inputs:
  (1) `reply_no_signature`, `reply_renders_empty`: a reply gives the zero signature with verdict Empty (rendered "").
  (2) `at_most_eight`, `entries_below_16`: at most eight header entries, each a 4-bit value (position in the table,
      plus 8 for the compact form), for every message object.
  (3) `factorisation`: for a request whose Call-ID and From-tag fields lie inside the buffer and whose flag word covers
      the fingerprinted stored types (`Covered`; see `covered_bookkeeping` / `covered_header_block` and NOT proved),
        signature = `sigOfView method callid-bytes fromtag-bytes (firsts m b)`
      i.e. method; Call-ID class/length (`getCallIDSig`) and From-tag class (`getStrCharsSig`) of those byte strings;
      one entry per first occurrence, in order, Contact only for INVITE (`sigOfView_hdrSig`); the branch class of the
      first Via's value (`sigOfView_viaBSig`). Neither early exit of the loop (eight entries / all flagged types seen)
      changes the result. The "Go would panic" flag factors the same way.
      `same_view_same_signature`: two message objects over two buffers with the same method, the same Call-ID and
      From-tag bytes and the same `firsts` have the same signature — whatever else differs (other headers, their
      values, repeated headers, offsets, header count, array size, flag word).
      `same_view_same_result`: with NO hypothesis on the flag word the whole result is a function of request /
      method / Call-ID bytes / From-tag bytes / flag word / "count exceeds array" and the unrestricted view.
      `Covered` cannot be dropped from `factorisation` (last test: a flag word that lacks a stored type cuts the loop).
      Corollaries on the stored header list (`edit_*`, message level; `view_*`, view level):
      (3a) `edit_insert_other`: inserting (or removing) a header of a non-fingerprinted type anywhere;
           `edit_padding`: any number of them, e.g. the cleared tail entries of a larger header array;
      (3b) `edit_insert_repeat`: inserting (or removing) a header whose type occurred earlier in the list;
      (3c) `edit_change_other`: replacing a non-fingerprinted header by any other non-fingerprinted header (value,
           name, type); `edit_change_value`: changing anything of ANY header but its type, the compactness of its
           name and (for Via) its value bytes — in particular the value of every non-Via header.
  (4) `render_shape`: unless method and entries are both empty (then ""), the text is
        value(method) value(entry)* 'I' hhhh hh 'F' hhhh 'V' hhhh
      where a value is one lower-case hex digit, preceded by 'E' if it does not fit (≥ 16); `render_length_bounds`
      (18 + n ≤ length ≤ 19 + 2n), `render_alphabet` (only 0-9a-f and E I F V); `render_of_signature`: for what
      `getMsgSigCore` returns with a method number below 16 the text is exactly 18 + n ≤ 26 characters, one digit per value.
  (5) `truncated_or_same`: if the header count exceeds the array, the verdict is Trunc, or else the whole result
      (signature, verdict, panic flag) is the one obtained with ANY longer array extending the stored one;
      `trunc_only_when_too_small`, `verdict_cases`, `fits_ok`.

  (6) composition with C01 and C13, carried out in Lean (`Sipsp.Proofs.SigCompose`): `sig_chunking` (every chunk
      schedule from Init that ends with OK gives the object — hence signature, verdict and panic flag — of the fresh
      one-shot call), `sig_chunking_whole` (a complete message cut anywhere = one call on the whole buffer, given that
      the earlier prefixes are incomplete: without Content-Length the body runs to the end of the completing call's
      buffer), `sig_two_schedules`; `sig_capacity_fit` (two header-array capacities that both hold all headers: the
      identical result), `sig_capacity_small` (an array too small against a larger one: Trunc, or exactly the same
      result — both occur), `sig_capacity` (both, for two runs from Init with any capacities over any chunk schedule).

  Scope notes (found by a sceptical review): "replies yield no signature" is `reply_no_signature` under
  `m.request = false`; C08 `reply_iff` shows that this holds for EVERY accepted status line, code `000` included (before
  the repair F22 / 07883de the code decided by `Status == 0` and the status line `SIP/2.0 000 x` got a signature). The
  `edit_*` corollaries compare `getMsgSigCore (withHdrs m …)` with `getMsgSigCore m` on one frozen buffer / values object: they are
  statements about the stored header LIST; the statement about two parsed messages is `same_view_same_signature
  (_unconditional)` (its hypotheses are equalities of `get?` Options — both `none` is allowed and means both fields
  unreadable, which (8) + C04 exclude after a successful parse). `sig_chunking*` / `sig_capacity` assume zeroed caller
  arrays and buffers ≤ 65,535 bytes; `sig_capacity` the same recorded length and cap1 ≤ cap2.
  Note on names: since the library repair F24 `GetMsgSig` first checks that the message is completely parsed (else
  "empty"); the model's `getMsgSig` is that guard in front of `getMsgSigCore`, and every theorem of this file is stated
  about `getMsgSigCore`; `sig_is_core_when_complete`: for a message in the final state (every successfully parsed
  message: C05 `layout_*`) `getMsgSig = getMsgSigCore`, so they are theorems about GetMsgSig of a parsed message;
  `sig_guard_transparent(_schedule)`: after a call / any chunk schedule that ends with OK, `getMsgSig = getMsgSigCore`
  on every buffer — no hypothesis on the object; `sig_guard_transparent_noclen`.
  NOT proved here:
  * no theorem relates two BYTE messages that differ by an inserted / removed / changed header line (that composition —
    C07 / HdrTyped blocks + C11 shifts + `same_view_same_signature_unconditional` — is carried out by the metamorphic oracle);
  (8) the coverage hypothesis discharged (`Sipsp.Proofs.SigCovered`): `covered_any_values(_new)`: after ParseHeaders
      says OK — ANY values object, typed headers included, any capacity — the flag word covers the fingerprinted stored
      types; `covered_after_parse`, `covered_after_history`, `covered_schedule_init`: `Covered m` after EVERY successful
      ParseSIPMsg (one call, any history of Init / parse / Reset, any chunk schedule); hence
      `factorisation_unconditional` and `same_view_same_signature_unconditional`: two successfully parsed requests with
      the same method, Call-ID and From-tag bytes and first occurrences have the same signature — no side condition
      on flag words or field positions left.
  (7) what the character-class functions compute (`Sipsp.Proofs.SigChars`): `strsig_eq`, `strsig_bits`,
      `strsig_class_bit`, `strsig_no_other_bit`: getStrCharsSig of any byte string = an explicit list function; bit
      3..12 is set iff the reserved byte `@ . : - * / + = _ |` of that bit occurs; bits 13–15 are the hex / base64 /
      digit-block guesses (length and position dependent — NOT order independent: `GGGGGGGG=` is flagged base64, its
      permutation `=GGGGGGGG` is not); no other bit is ever set; `strsig_perm_low`, `strsig_append_low` (the class bits
      are order independent and additive); `strsig_span(_bit)` (with an excluded address span); `viabr_no_semicolon`,
      `viabr_first_semicolon`, `viabr_glist`, `viabr_first_branch`, `viabr_no_branch`: GetViaBrSig reads the parameters
      after the first ';', the FIRST parameter named `branch` (any letter case) decides, its value minus the magic
      cookie (stripped case-insensitively, only when something follows it) is classified, a later `branch` is ignored,
      no `branch` / empty value gives the empty signature; `same_classes_same_signature`: two covered requests that
      agree on method, first occurrences with form, Call-ID class AND short length, From-tag class and first-Via
      branch class have the same signature.
      Observed: the signature also contains the Call-ID short length (length without the address, in units of 4), so
      "a function of the classes" holds with that length counted as part of the Call-ID's class.
  Observed (true of the Go code as well): every visited type, fingerprinted or not, is recorded in the loop's `seen`
  word, so the "all flagged types seen" exit can fire only before the first non-fingerprinted header (type < 16,
  which includes an unused, cleared array entry); afterwards a
  too-small array yields Trunc even when every fingerprinted header was stored (see the second test (5) below). This is
  within the documented behaviour ("same signature or truncated indication").
  Model tied to msg_sig.go by the correspondence check.
-/
import Sipsp.Proofs.SigSpec
import Sipsp.Proofs.SigCompose
import Sipsp.Proofs.SigChars
import Sipsp.Proofs.SigCovered
import Sipsp.Proofs.SigGuard
import Sipsp.Proofs.SigGuardSafe

namespace Sipsp.C19
open Sipsp

/-! ### the view -/

/-- `msg.Buf` -/
def msgBuf (m : PSIPMsg) (b : Buf) : Buf := b.extract 0 m.bufLen

/-- the view of the stored headers: (type, compact name?, Via value bytes) of each -/
def view (m : PSIPMsg) (b : Buf) : List SigKey := m.hl.hdrs.toList.map (hdrKey (msgBuf m b))

/-- the view restricted to fingerprinted types at their first occurrence -/
def firsts (m : PSIPMsg) (b : Buf) : List SigKey := sigFirsts [] (view m b)

/-- the signature as a function of method, Call-ID bytes, From-tag bytes and the restricted view -/
def sigOfView (method : Nat) (cid tag : Buf) (fs : List SigKey) : MsgSig :=
  sigApply fs (sigInit method cid tag).sig

/-- the flag word covers the fingerprinted types of the stored headers -/
def Covered (m : PSIPMsg) : Prop := FlagsCover m.hl.pflags m.hl.hdrs.toList

/-- the same message object with another stored header list / header count -/
def withHdrs (m : PSIPMsg) (hs : List Hdr) (n : Nat) : PSIPMsg :=
  { m with hl := { m.hl with hdrs := hs.toArray, n := n } }

theorem sigOfView_fixed (method : Nat) (cid tag : Buf) (fs : List SigKey) :
    (sigOfView method cid tag fs).method = method ∧
    (sigOfView method cid tag fs).cidSig = (getCallIDSig cid).1 ∧
    (sigOfView method cid tag fs).cidSLen = (getCallIDSig cid).2.1 ∧
    (sigOfView method cid tag fs).fromSig = (getStrCharsSig tag 0 0).1 := ⟨rfl, rfl, rfl, rfl⟩

/-- one entry per element of the restricted view, in order: position of the type in the table, plus 8 for the
    compact form; Contact counts only for INVITE -/
theorem sigOfView_hdrSig (method : Nat) (cid tag : Buf) (fs : List SigKey) :
    (sigOfView method cid tag fs).hdrSig =
      fs.flatMap (fun k => if isSigType k.type && (k.type != HdrContact || method == MInvite)
                           then [sigEntry k.type k.compact] else []) := by
  show [] ++ fs.flatMap (fun k => k.entry method) = _
  rw [List.nil_append]; rfl

/-- the Via part: branch class of the value of the first Via (0 without a Via, or if its field is outside) -/
theorem sigOfView_viaBSig (method : Nat) (cid tag : Buf) (fs : List SigKey) :
    (sigOfView method cid tag fs).viaBSig =
      match fs.find? (fun k => k.type == HdrVia) with
      | some k => k.viaSig 0
      | none => 0 := rfl

/-! ### (1) replies -/

theorem reply_no_signature (m : PSIPMsg) (b : Buf) (h : m.request = false) :
    getMsgSigCore m b = ({}, .empty, false) := getMsgSig_reply m b h

theorem reply_renders_empty (m : PSIPMsg) (b : Buf) (h : m.request = false) : (getMsgSigCore m b).1.toStr = "" := by
  rw [getMsgSig_reply m b h]; exact toStr_empty _ ⟨rfl, rfl⟩

/-! ### (2) at most eight entries, all of them 4-bit values -/

theorem at_most_eight (m : PSIPMsg) (b : Buf) : (getMsgSigCore m b).1.hdrSig.length ≤ 8 := by
  cases hr : m.request
  · rw [getMsgSig_reply m b hr]; exact Nat.zero_le _
  · cases hc : m.pv.callid.callID.get? (b.extract 0 m.bufLen) with
    | none => rw [getMsgSig_outside m b hr (Or.inl hc)]; exact Nat.zero_le _
    | some cid =>
      cases ht : m.pv.from_.tag.get? (b.extract 0 m.bufLen) with
      | none => rw [getMsgSig_outside m b hr (Or.inr ht)]; exact Nat.zero_le _
      | some tag =>
        rw [getMsgSig_request m b hr cid tag hc ht]
        exact msgSigLoop_len_le _ _ _ _ (show 0 < 8 by decide)

theorem entries_below_16 (m : PSIPMsg) (b : Buf) : ∀ e ∈ (getMsgSigCore m b).1.hdrSig, e < 16 := by
  cases hr : m.request
  · rw [getMsgSig_reply m b hr]; intro e he; cases he
  · cases hc : m.pv.callid.callID.get? (b.extract 0 m.bufLen) with
    | none => rw [getMsgSig_outside m b hr (Or.inl hc)]; intro e he; cases he
    | some cid =>
      cases ht : m.pv.from_.tag.get? (b.extract 0 m.bufLen) with
      | none => rw [getMsgSig_outside m b hr (Or.inr ht)]; intro e he; cases he
      | some tag =>
        rw [getMsgSig_request m b hr cid tag hc ht]
        exact msgSigLoop_entries_lt _ _ _ _ (by intro e he; cases he)

/-! ### (3) factorisation through the restricted view -/

theorem factorisation (m : PSIPMsg) (b : Buf) (hr : m.request = true) (cid tag : Buf)
    (hc : m.pv.callid.callID.get? (msgBuf m b) = some cid) (ht : m.pv.from_.tag.get? (msgBuf m b) = some tag)
    (hcov : Covered m) :
    (getMsgSigCore m b).1 = sigOfView m.fl.methodNo cid tag (firsts m b) ∧
    (getMsgSigCore m b).2.2 = ((getCallIDSig cid).2.2 || (firsts m b).any (fun k => k.viaPnc)) := by
  rw [getMsgSig_request m b hr cid tag hc ht]
  exact msgSigLoop_view (b.extract 0 m.bufLen) m.hl.pflags m.hl.hdrs.toList m.fl.methodNo cid tag hcov

/-- the restricted view is a sub-sequence of the view (order is kept) … -/
theorem firsts_sublist (m : PSIPMsg) (b : Buf) : (firsts m b).Sublist (view m b) := sigFirsts_sublist _ _

/-- … of fingerprinted types only … -/
theorem firsts_fingerprinted (m : PSIPMsg) (b : Buf) : ∀ k ∈ firsts m b, k.type ∈ Gen.sigHdrs :=
  fun k hk => (isSigType_iff _).mp (sigFirsts_isSig _ _ k hk)

/-- … no type twice … -/
theorem firsts_distinct (m : PSIPMsg) (b : Buf) : (firsts m b).Pairwise (fun a c => a.type ≠ c.type) :=
  sigFirsts_pairwise _ _

/-- … holding, for every fingerprinted type, exactly the first stored header of that type -/
theorem firsts_first_of_type (m : PSIPMsg) (b : Buf) (t : Nat) (ht : t ∈ Gen.sigHdrs) :
    (firsts m b).find? (fun k => k.type == t) = (view m b).find? (fun k => k.type == t) :=
  sigFirsts_find [] _ t ((isSigType_iff t).mpr ht) rfl

/-- two message objects (two buffers) with the same method, Call-ID bytes, From-tag bytes and restricted view have
    the same signature (and the same "Go would panic" flag) -/
theorem same_view_same_signature (m m' : PSIPMsg) (b b' : Buf) (hr : m.request = true) (hr' : m'.request = true)
    (cid tag : Buf)
    (hc : m.pv.callid.callID.get? (msgBuf m b) = some cid) (ht : m.pv.from_.tag.get? (msgBuf m b) = some tag)
    (hc' : m'.pv.callid.callID.get? (msgBuf m' b') = some cid) (ht' : m'.pv.from_.tag.get? (msgBuf m' b') = some tag)
    (hcov : Covered m) (hcov' : Covered m')
    (hmeth : m'.fl.methodNo = m.fl.methodNo) (hview : firsts m' b' = firsts m b) :
    (getMsgSigCore m' b').1 = (getMsgSigCore m b).1 ∧ (getMsgSigCore m' b').2.2 = (getMsgSigCore m b).2.2 := by
  have h1 := factorisation m b hr cid tag hc ht hcov
  have h2 := factorisation m' b' hr' cid tag hc' ht' hcov'
  rw [h1.1, h1.2, h2.1, h2.2, hmeth, hview]
  exact ⟨rfl, rfl⟩

/-- without any hypothesis on the flag word: the whole result is a function of request / method / Call-ID bytes /
    From-tag bytes / flag word / "count exceeds array" and the (unrestricted) view — nothing else of the stored
    headers is read (not the name bytes, not the value of any non-Via header, no parser state) -/
theorem same_view_same_result (m m' : PSIPMsg) (b b' : Buf) (hr : m'.request = m.request)
    (hmeth : m'.fl.methodNo = m.fl.methodNo)
    (hc : m'.pv.callid.callID.get? (msgBuf m' b') = m.pv.callid.callID.get? (msgBuf m b))
    (ht : m'.pv.from_.tag.get? (msgBuf m' b') = m.pv.from_.tag.get? (msgBuf m b))
    (hpf : m'.hl.pflags = m.hl.pflags)
    (hn : (m'.hl.n > m'.hl.hdrs.size) ↔ (m.hl.n > m.hl.hdrs.size))
    (hview : view m' b' = view m b) : getMsgSigCore m' b' = getMsgSigCore m b := by
  cases hq : m.request
  · rw [getMsgSig_reply m b hq, getMsgSig_reply m' b' (hr.trans hq)]
  · cases hcc : m.pv.callid.callID.get? (b.extract 0 m.bufLen) with
    | none =>
      rw [getMsgSig_outside m b hq (Or.inl hcc), getMsgSig_outside m' b' (hr.trans hq) (Or.inl (hc.trans hcc))]
    | some cid =>
      cases htt : m.pv.from_.tag.get? (b.extract 0 m.bufLen) with
      | none =>
        rw [getMsgSig_outside m b hq (Or.inr htt), getMsgSig_outside m' b' (hr.trans hq) (Or.inr (ht.trans htt))]
      | some tag =>
        rw [getMsgSig_request m b hq cid tag hcc htt,
          getMsgSig_request m' b' (hr.trans hq) cid tag (hc.trans hcc) (ht.trans htt), hmeth, hpf,
          msgSigLoop_congr_keys (b'.extract 0 m'.bufLen) (b.extract 0 m.bufLen) m.hl.pflags m'.hl.hdrs.toList
            m.hl.hdrs.toList _ hview]
        by_cases h1 : m.hl.n > m.hl.hdrs.size
        · simp only [h1, hn.mpr h1]
        · have h2 : ¬ m'.hl.n > m'.hl.hdrs.size := fun h => h1 (hn.mp h)
          simp only [h1, h2]

/-! #### view-level corollaries -/

theorem view_insert_other (l1 l2 : List SigKey) (x : SigKey) (hx : x.type ∉ Gen.sigHdrs) :
    sigFirsts [] (l1 ++ x :: l2) = sigFirsts [] (l1 ++ l2) :=
  sigFirsts_insert_nosig [] l1 l2 x (by
    cases h : isSigType x.type
    · rfl
    · exact absurd ((isSigType_iff _).mp h) hx)

theorem view_insert_repeat (l1 l2 : List SigKey) (x : SigKey) (hx : ∃ k ∈ l1, k.type = x.type) :
    sigFirsts [] (l1 ++ x :: l2) = sigFirsts [] (l1 ++ l2) :=
  sigFirsts_insert_repeat [] l1 l2 x (Or.inr hx)

theorem view_change_other (l1 l2 : List SigKey) (x x' : SigKey) (hx : x.type ∉ Gen.sigHdrs)
    (hx' : x'.type ∉ Gen.sigHdrs) : sigFirsts [] (l1 ++ x' :: l2) = sigFirsts [] (l1 ++ x :: l2) := by
  rw [view_insert_other l1 l2 x hx, view_insert_other l1 l2 x' hx']

/-! #### message-level corollaries: editing the stored header list of one message object -/

/-- general form: any other stored list with the same restricted view (and covered by the same flag word) -/
theorem edit_same_firsts (m : PSIPMsg) (b : Buf) (hs' : List Hdr) (n' : Nat) (hcov : Covered m)
    (hcov' : FlagsCover m.hl.pflags hs')
    (hv : sigFirsts [] (hs'.map (hdrKey (msgBuf m b))) = sigFirsts [] (m.hl.hdrs.toList.map (hdrKey (msgBuf m b)))) :
    (getMsgSigCore (withHdrs m hs' n') b).1 = (getMsgSigCore m b).1 ∧
    (getMsgSigCore (withHdrs m hs' n') b).2.2 = (getMsgSigCore m b).2.2 := by
  have hreq : (withHdrs m hs' n').request = m.request := rfl
  cases hr : m.request
  · rw [getMsgSig_reply m b hr, getMsgSig_reply _ b (hreq.trans hr)]; exact ⟨rfl, rfl⟩
  · cases hc : m.pv.callid.callID.get? (b.extract 0 m.bufLen) with
    | none =>
      rw [getMsgSig_outside m b hr (Or.inl hc), getMsgSig_outside _ b (hreq.trans hr) (Or.inl hc)]
      exact ⟨rfl, rfl⟩
    | some cid =>
      cases ht : m.pv.from_.tag.get? (b.extract 0 m.bufLen) with
      | none =>
        rw [getMsgSig_outside m b hr (Or.inr ht), getMsgSig_outside _ b (hreq.trans hr) (Or.inr ht)]
        exact ⟨rfl, rfl⟩
      | some tag =>
        have h1 := factorisation m b hr cid tag hc ht hcov
        have h2 := factorisation (withHdrs m hs' n') b (hreq.trans hr) cid tag hc ht (by
          show FlagsCover m.hl.pflags hs'.toArray.toList
          rw [List.toList_toArray]; exact hcov')
        have hf : firsts (withHdrs m hs' n') b = firsts m b := by
          show sigFirsts [] (hs'.toArray.toList.map (hdrKey (msgBuf m b))) = _
          rw [List.toList_toArray]; exact hv
        rw [h1.1, h1.2, h2.1, h2.2, hf]
        exact ⟨rfl, rfl⟩

/-- (3a) inserting a header of a non-fingerprinted type anywhere does not change the signature
    (read right-to-left: removing one) -/
theorem edit_insert_other (m : PSIPMsg) (b : Buf) (l1 l2 : List Hdr) (x : Hdr) (n' : Nat) (hcov : Covered m)
    (hl : m.hl.hdrs.toList = l1 ++ l2) (hx : x.type ∉ Gen.sigHdrs) :
    (getMsgSigCore (withHdrs m (l1 ++ x :: l2) n') b).1 = (getMsgSigCore m b).1 ∧
    (getMsgSigCore (withHdrs m (l1 ++ x :: l2) n') b).2.2 = (getMsgSigCore m b).2.2 := by
  apply edit_same_firsts m b _ n' hcov
  · intro h hh hs
    rcases List.mem_append.mp hh with h1 | h1
    · exact hcov h (by rw [hl]; exact List.mem_append_left _ h1) hs
    · rcases List.mem_cons.mp h1 with e | h2
      · subst e; exact absurd ((isSigType_iff _).mp hs) hx
      · exact hcov h (by rw [hl]; exact List.mem_append_right _ h2) hs
  · rw [hl, List.map_append, List.map_append, List.map_cons]
    exact view_insert_other _ _ _ hx

/-- (3a, many) … any number of them, e.g. cleared entries at the end of a larger header array -/
theorem edit_padding (m : PSIPMsg) (b : Buf) (l1 pad l2 : List Hdr) (n' : Nat) (hcov : Covered m)
    (hl : m.hl.hdrs.toList = l1 ++ l2) (hp : ∀ x ∈ pad, x.type ∉ Gen.sigHdrs) :
    (getMsgSigCore (withHdrs m (l1 ++ pad ++ l2) n') b).1 = (getMsgSigCore m b).1 ∧
    (getMsgSigCore (withHdrs m (l1 ++ pad ++ l2) n') b).2.2 = (getMsgSigCore m b).2.2 := by
  apply edit_same_firsts m b _ n' hcov
  · intro h hh hs
    rcases List.mem_append.mp hh with h1 | h1
    · rcases List.mem_append.mp h1 with h2 | h2
      · exact hcov h (by rw [hl]; exact List.mem_append_left _ h2) hs
      · exact absurd ((isSigType_iff _).mp hs) (hp h h2)
    · exact hcov h (by rw [hl]; exact List.mem_append_right _ h1) hs
  · rw [hl, List.map_append, List.map_append, List.map_append]
    apply sigFirsts_insert_nosig_list
    intro k hk
    obtain ⟨x, hx, rfl⟩ := List.mem_map.mp hk
    cases h : isSigType (hdrKey (msgBuf m b) x).type
    · rfl
    · exact absurd ((isSigType_iff _).mp h) (hp x hx)

/-- (3b) inserting a header whose type occurred earlier in the list (a repeated fingerprinted header, or any other
    repeated header) does not change the signature -/
theorem edit_insert_repeat (m : PSIPMsg) (b : Buf) (l1 l2 : List Hdr) (x : Hdr) (n' : Nat) (hcov : Covered m)
    (hl : m.hl.hdrs.toList = l1 ++ l2) (hx : ∃ h ∈ l1, h.type = x.type) :
    (getMsgSigCore (withHdrs m (l1 ++ x :: l2) n') b).1 = (getMsgSigCore m b).1 ∧
    (getMsgSigCore (withHdrs m (l1 ++ x :: l2) n') b).2.2 = (getMsgSigCore m b).2.2 := by
  obtain ⟨h0, hh0, ht0⟩ := hx
  apply edit_same_firsts m b _ n' hcov
  · intro h hh hs
    rcases List.mem_append.mp hh with h1 | h1
    · exact hcov h (by rw [hl]; exact List.mem_append_left _ h1) hs
    · rcases List.mem_cons.mp h1 with e | h2
      · subst e
        rw [← ht0] at hs ⊢
        exact hcov h0 (by rw [hl]; exact List.mem_append_left _ hh0) hs
      · exact hcov h (by rw [hl]; exact List.mem_append_right _ h2) hs
  · rw [hl, List.map_append, List.map_append, List.map_cons]
    exact view_insert_repeat _ _ _ ⟨hdrKey (msgBuf m b) h0, List.mem_map.mpr ⟨h0, hh0, rfl⟩, ht0⟩

/-- (3c) replacing a non-fingerprinted header by any other non-fingerprinted header (other value, other name, other
    non-fingerprinted type) does not change the signature -/
theorem edit_change_other (m : PSIPMsg) (b : Buf) (l1 l2 : List Hdr) (x x' : Hdr) (n' : Nat) (hcov : Covered m)
    (hl : m.hl.hdrs.toList = l1 ++ x :: l2) (hx : x.type ∉ Gen.sigHdrs) (hx' : x'.type ∉ Gen.sigHdrs) :
    (getMsgSigCore (withHdrs m (l1 ++ x' :: l2) n') b).1 = (getMsgSigCore m b).1 ∧
    (getMsgSigCore (withHdrs m (l1 ++ x' :: l2) n') b).2.2 = (getMsgSigCore m b).2.2 := by
  apply edit_same_firsts m b _ n' hcov
  · intro h hh hs
    rcases List.mem_append.mp hh with h1 | h1
    · exact hcov h (by rw [hl]; exact List.mem_append_left _ h1) hs
    · rcases List.mem_cons.mp h1 with e | h2
      · subst e; exact absurd ((isSigType_iff _).mp hs) hx'
      · exact hcov h (by rw [hl]; exact List.mem_append_right _ (List.mem_cons_of_mem _ h2)) hs
  · rw [hl, List.map_append, List.map_append, List.map_cons, List.map_cons]
    exact view_change_other _ _ _ _ hx hx'

/-- (3c') changing anything of ANY stored header except its type, the compactness of its name and — for a Via — the
    bytes of its value: in particular the value (offsets, bytes) of every non-Via header, fingerprinted or not -/
theorem edit_change_value (m : PSIPMsg) (b : Buf) (l1 l2 : List Hdr) (x x' : Hdr) (n' : Nat) (hcov : Covered m)
    (hl : m.hl.hdrs.toList = l1 ++ x :: l2) (ht : x'.type = x.type)
    (hn : (x'.name.len == 1) = (x.name.len == 1))
    (hv : x.type = HdrVia → x'.val.get? (msgBuf m b) = x.val.get? (msgBuf m b)) :
    (getMsgSigCore (withHdrs m (l1 ++ x' :: l2) n') b).1 = (getMsgSigCore m b).1 ∧
    (getMsgSigCore (withHdrs m (l1 ++ x' :: l2) n') b).2.2 = (getMsgSigCore m b).2.2 := by
  apply edit_same_firsts m b _ n' hcov
  · intro h hh hs
    rcases List.mem_append.mp hh with h1 | h1
    · exact hcov h (by rw [hl]; exact List.mem_append_left _ h1) hs
    · rcases List.mem_cons.mp h1 with e | h2
      · subst e
        rw [ht] at hs ⊢
        exact hcov x (by rw [hl]; exact List.mem_append_right _ List.mem_cons_self) hs
      · exact hcov h (by rw [hl]; exact List.mem_append_right _ (List.mem_cons_of_mem _ h2)) hs
  · rw [hl, List.map_append, List.map_append, List.map_cons, List.map_cons,
      hdrKey_congr (msgBuf m b) x x' ht hn hv]

/-! ### where `Covered` comes from -/

/-- the bookkeeping ParseHeaders performs on the list object (store the header, set its type flag, count it —
    `HdrLst.acceptAll`, then the end-of-block entry) yields a covered list from every empty, clean list object, for
    EVERY sequence of accepted headers and every array size (also a too small one) -/
theorem covered_bookkeeping (hl : HdrLst) (hs : List Hdr) (h0 : hl.n = 0) (hp : hl.pflags < 65536)
    (hc : HlsClean hl) :
    FlagsCover ((hl.acceptAll hs).setCur { state := .fin }).pflags
      ((hl.acceptAll hs).setCur { state := .fin }).hdrs.toList := acceptAll_covered hl hs h0 hp hc

/-- … hence ParseHeaders' result is covered on every header block of the C07 grammar (generic treatment, as in C07
    `header_block`) -/
theorem covered_header_block (b : Buf) (hb : Option PHdrVals) (hfit : b.size ≤ 65535) (o e : Nat) (hs : List Hdr)
    (H : HdrBlock b o hs e) (hl : HdrLst) (hc : HlsClean hl) (hcur : hl.cur = {}) (h0 : hl.n = 0)
    (hp : hl.pflags < 65536) (hg : hb = none ∨ ∀ h ∈ hs, IsOther h.type) :
    FlagsCover (parseHeaders b o hl hb).2.2.1.pflags (parseHeaders b o hl hb).2.2.1.hdrs.toList := by
  rw [parseHeaders_block b hb hfit H hl hc hcur hg]
  exact acceptAll_covered hl hs h0 hp hc

/-- non-vacuity: a fresh list object with a cleared array of any size meets the hypotheses on `hl` -/
example (k : Nat) : HlsClean ({ hdrs := Array.replicate k {} } : HdrLst) ∧
    ({ hdrs := Array.replicate k {} } : HdrLst).cur = {} ∧ ({ hdrs := Array.replicate k {} } : HdrLst).n = 0 ∧
    ({ hdrs := Array.replicate k {} } : HdrLst).pflags < 65536 := by
  refine ⟨⟨fun j _ hj => ?_, fun _ => rfl⟩, ?_, rfl, (show 0 < 65536 by decide)⟩
  · have hj' : j < k := by simpa using hj
    simp [hj']
  · unfold HdrLst.cur
    by_cases hk : 0 < k
    · simp [hk]
    · simp [hk]

/-! ### (4) the text rendering -/

/-- the characters that can occur -/
def sigAlphabet : List Char := "0123456789abcdef".toList ++ ['E', 'I', 'F', 'V']

theorem render_empty (s : MsgSig) (h : s.method = MUndef ∧ s.hdrSig = []) : s.toStr = "" := toStr_empty s h

/-- shape: value(method) value(entry)* 'I' hhhh hh 'F' hhhh 'V' hhhh, with `sigCh v` = optional 'E' + one hex digit
    and `sigTail s` the 17-character tail (`sigTail_shape`) -/
theorem render_shape (s : MsgSig) (h : ¬ (s.method = MUndef ∧ s.hdrSig = [])) :
    s.toStr = String.ofList (sigCh s.method ++ s.hdrSig.flatMap sigCh ++ sigTail s) := toStr_eq s h

theorem sigTail_shape (s : MsgSig) :
    sigTail s = ['I'] ++ hex4 s.cidSig ++ [hexDigit (s.cidSLen / 16 % 16), hexDigit (s.cidSLen % 16)] ++
      ['F'] ++ hex4 s.fromSig ++ ['V'] ++ hex4 s.viaBSig ∧ (sigTail s).length = 17 ∧
    (∀ v, (hex4 v).length = 4) := ⟨rfl, sigTail_length s, fun _ => rfl⟩

theorem render_length_bounds (s : MsgSig) (h : ¬ (s.method = MUndef ∧ s.hdrSig = [])) :
    18 + s.hdrSig.length ≤ s.toStr.length ∧ s.toStr.length ≤ 19 + 2 * s.hdrSig.length := by
  rw [toStr_eq s h, String.length_ofList, List.length_append, List.length_append, sigTail_length]
  have h1 := sigCh_length s.method
  have h2 := flatMap_sigCh_length s.hdrSig
  omega

theorem render_alphabet (s : MsgSig) : ∀ c ∈ s.toStr.toList, c ∈ sigAlphabet := by
  have hhex : ∀ n, hexDigit n ∈ sigAlphabet := fun n => List.mem_append_left _ (hexDigit_mem n)
  have hE : 'E' ∈ sigAlphabet := List.mem_append_right _ (by decide)
  have hch : ∀ v, ∀ c ∈ sigCh v, c ∈ sigAlphabet := by
    intro v c hc
    unfold sigCh at hc
    rcases List.mem_append.mp hc with h1 | h1
    · split at h1
      · rw [List.mem_singleton.mp h1]; exact hE
      · cases h1
    · rw [List.mem_singleton.mp h1]; exact hhex _
  have h4 : ∀ v, ∀ c ∈ hex4 v, c ∈ sigAlphabet := by
    intro v c hc
    simp only [hex4, List.mem_cons, List.not_mem_nil, or_false] at hc
    rcases hc with e | e | e | e <;> rw [e] <;> exact hhex _
  by_cases h : s.method = MUndef ∧ s.hdrSig = []
  · rw [toStr_empty s h]; intro c hc; simp at hc
  · rw [toStr_eq s h, String.toList_ofList]
    intro c hc
    rcases List.mem_append.mp hc with h1 | h1
    · rcases List.mem_append.mp h1 with h2 | h2
      · exact hch _ c h2
      · obtain ⟨v, _, hv⟩ := List.mem_flatMap.mp h2
        exact hch v c hv
    · unfold sigTail at h1
      simp only [List.mem_append, List.mem_cons, List.not_mem_nil, or_false] at h1
      rcases h1 with ((((((e | h1) | e | e) | e) | h1) | e) | h1)
      · rw [e]; exact List.mem_append_right _ (by decide)
      · exact h4 _ c h1
      · rw [e]; exact hhex _
      · rw [e]; exact hhex _
      · rw [e]; exact List.mem_append_right _ (by decide)
      · exact h4 _ c h1
      · rw [e]; exact List.mem_append_right _ (by decide)
      · exact h4 _ c h1

/-- what `getMsgSigCore` returns renders with exactly one hex digit per value when the method number is below 16 (the
    parser's method numbers are 1 … 15): 18 + (number of entries) ≤ 26 characters -/
theorem render_of_signature (m : PSIPMsg) (b : Buf) (hm : (getMsgSigCore m b).1.method < 16)
    (h : ¬ ((getMsgSigCore m b).1.method = MUndef ∧ (getMsgSigCore m b).1.hdrSig = [])) :
    (getMsgSigCore m b).1.toStr =
      String.ofList ([hexDigit (getMsgSigCore m b).1.method] ++ (getMsgSigCore m b).1.hdrSig.map hexDigit ++
        sigTail (getMsgSigCore m b).1) ∧
    (getMsgSigCore m b).1.toStr.length = 18 + (getMsgSigCore m b).1.hdrSig.length ∧
    (getMsgSigCore m b).1.toStr.length ≤ 26 := by
  have he := entries_below_16 m b
  have h8 := at_most_eight m b
  have hs : (getMsgSigCore m b).1.toStr =
      String.ofList ([hexDigit (getMsgSigCore m b).1.method] ++ (getMsgSigCore m b).1.hdrSig.map hexDigit ++
        sigTail (getMsgSigCore m b).1) := by
    rw [toStr_eq _ h, sigCh_small _ hm, flatMap_sigCh_small _ he]
  refine ⟨hs, ?_⟩
  rw [hs, String.length_ofList, List.length_append, List.length_append, sigTail_length, List.length_map,
    List.length_singleton]
  omega

/-! ### (5) header array too small -/

theorem verdict_cases (m : PSIPMsg) (b : Buf) :
    (getMsgSigCore m b).2.1 = .ok ∨ (getMsgSigCore m b).2.1 = .trunc ∨ (getMsgSigCore m b).2.1 = .empty := by
  cases hr : m.request
  · rw [getMsgSig_reply m b hr]; exact Or.inr (Or.inr rfl)
  · cases hc : m.pv.callid.callID.get? (b.extract 0 m.bufLen) with
    | none => rw [getMsgSig_outside m b hr (Or.inl hc)]; exact Or.inl rfl
    | some cid =>
      cases ht : m.pv.from_.tag.get? (b.extract 0 m.bufLen) with
      | none => rw [getMsgSig_outside m b hr (Or.inr ht)]; exact Or.inl rfl
      | some tag =>
        rw [getMsgSig_request m b hr cid tag hc ht]
        dsimp only
        split
        · exact Or.inl rfl
        · split
          · exact Or.inr (Or.inl rfl)
          · exact Or.inl rfl

theorem trunc_only_when_too_small (m : PSIPMsg) (b : Buf) (h : (getMsgSigCore m b).2.1 = .trunc) :
    m.request = true ∧ m.hl.n > m.hl.hdrs.size := by
  cases hr : m.request
  · rw [getMsgSig_reply m b hr] at h; cases h
  · refine ⟨rfl, ?_⟩
    cases hc : m.pv.callid.callID.get? (b.extract 0 m.bufLen) with
    | none => rw [getMsgSig_outside m b hr (Or.inl hc)] at h; cases h
    | some cid =>
      cases ht : m.pv.from_.tag.get? (b.extract 0 m.bufLen) with
      | none => rw [getMsgSig_outside m b hr (Or.inr ht)] at h; cases h
      | some tag =>
        rw [getMsgSig_request m b hr cid tag hc ht] at h
        dsimp only at h
        split at h
        · cases h
        · split at h
          · assumption
          · cases h

/-- all headers fit: a request never gets the truncated indication -/
theorem fits_ok (m : PSIPMsg) (b : Buf) (hr : m.request = true) (hn : m.hl.n ≤ m.hl.hdrs.size) :
    (getMsgSigCore m b).2.1 = .ok := by
  rcases verdict_cases m b with h | h | h
  · exact h
  · have := (trunc_only_when_too_small m b h).2; omega
  · cases hc : m.pv.callid.callID.get? (b.extract 0 m.bufLen) with
    | none => rw [getMsgSig_outside m b hr (Or.inl hc)]
    | some cid =>
      cases ht : m.pv.from_.tag.get? (b.extract 0 m.bufLen) with
      | none => rw [getMsgSig_outside m b hr (Or.inr ht)]
      | some tag =>
        rw [getMsgSig_request m b hr cid tag hc ht] at h
        dsimp only at h
        split at h
        · cases h
        · split at h <;> cases h

/-- more headers than the array holds: the verdict is Trunc, or else the result — signature, verdict and panic flag —
    is the one obtained with ANY longer array that extends the stored one (so nothing was missed) -/
theorem truncated_or_same (m : PSIPMsg) (b : Buf) (hn : m.hl.n > m.hl.hdrs.size) :
    (getMsgSigCore m b).2.1 = .trunc ∨
    ∀ (extra : List Hdr) (n' : Nat), getMsgSigCore (withHdrs m (m.hl.hdrs.toList ++ extra) n') b = getMsgSigCore m b := by
  cases hr : m.request
  · right; intro extra n'
    rw [getMsgSig_reply m b hr, getMsgSig_reply _ b (show (withHdrs m _ n').request = false from hr)]
  · cases hc : m.pv.callid.callID.get? (b.extract 0 m.bufLen) with
    | none =>
      right; intro extra n'
      rw [getMsgSig_outside m b hr (Or.inl hc),
        getMsgSig_outside _ b (show (withHdrs m _ n').request = true from hr) (Or.inl hc)]
    | some cid =>
      cases ht : m.pv.from_.tag.get? (b.extract 0 m.bufLen) with
      | none =>
        right; intro extra n'
        rw [getMsgSig_outside m b hr (Or.inr ht),
          getMsgSig_outside _ b (show (withHdrs m _ n').request = true from hr) (Or.inr ht)]
      | some tag =>
        cases hex : (msgSigLoop (b.extract 0 m.bufLen) m.hl.pflags m.hl.hdrs.toList
            (sigInit m.fl.methodNo cid tag)).2
        · left
          rw [getMsgSig_request m b hr cid tag hc ht]
          simp only [hex, Bool.false_eq_true, ↓reduceIte, hn]
        · right; intro extra n'
          rw [getMsgSig_request m b hr cid tag hc ht,
            getMsgSig_request _ b (show (withHdrs m _ n').request = true from hr) cid tag hc ht]
          have e : (withHdrs m (m.hl.hdrs.toList ++ extra) n').hl.hdrs.toList = m.hl.hdrs.toList ++ extra := by
            show (m.hl.hdrs.toList ++ extra).toArray.toList = _
            rw [List.toList_toArray]
          have hp : (withHdrs m (m.hl.hdrs.toList ++ extra) n').hl.pflags = m.hl.pflags := rfl
          have hb : (withHdrs m (m.hl.hdrs.toList ++ extra) n').bufLen = m.bufLen := rfl
          have hm : (withHdrs m (m.hl.hdrs.toList ++ extra) n').fl.methodNo = m.fl.methodNo := rfl
          rw [e, hp, hb, hm, msgSigLoop_append_exit _ _ _ extra _ hex]
          simp only [hex, ↓reduceIte]

/-! ### tests / non-vacuity (`decide +kernel` on one concrete message; these are examples, not the general claims) -/

/-- INVITE with Via, Subject (not fingerprinted), compact From, To, Call-ID, CSeq, a second Via, Content-Length -/
def exMsg : Buf := "INVITE sip:a@b SIP/2.0\r\nVia: SIP/2.0/UDP h;branch=z9hG4bK-a.b\r\nSubject: x\r\nf: <sip:a@b>;tag=a-1\r\nTo: <sip:c@d>\r\nCall-ID: x@1.2.3.4\r\nCSeq: 1 INVITE\r\nVia: SIP/2.0/UDP h2\r\nContent-Length: 0\r\n\r\n".toUTF8.data

/-- the parsed message object, with a header array of `k` entries -/
def exM (k : Nat) : PSIPMsg :=
  (parseSIPMsg exMsg 0 (({} : PSIPMsg).init 0 (some (Array.replicate k {})) none) 0).2.2

/-- test: the hypotheses of `factorisation` hold for the parsed message (array of 10) -/
example : (exM 10).request = true ∧
    (exM 10).pv.callid.callID.get? (msgBuf (exM 10) exMsg) = some "x@1.2.3.4".toUTF8.data ∧
    (exM 10).pv.from_.tag.get? (msgBuf (exM 10) exMsg) = some "a-1".toUTF8.data := by decide +kernel

theorem exCovered : Covered (exM 10) := by unfold Covered FlagsCover; decide +kernel

/-- test: its restricted view: Via, From (compact), To, Call-ID, CSeq — no Subject, no second Via, no Content-Length,
    none of the two unused array entries -/
example : (firsts (exM 10) exMsg).map (fun k => (k.type, k.compact)) =
    [(HdrVia, false), (HdrFrom, true), (HdrTo, false), (HdrCallID, false), (HdrCSeq, false)] := by decide +kernel

/-- test: its signature -/
example : getMsgSigCore (exM 10) exMsg =
    ({ method := 2, cidSLen := 1, cidSig := 10, fromSig := 64, viaBSig := 80, hdrSig := [6, 11, 5, 0, 2] },
     .ok, false) := by decide +kernel

/-- test: the rendering of that signature: 18 + 5 characters -/
example : ({ method := 2, cidSLen := 1, cidSig := 10, fromSig := 64, viaBSig := 80,
             hdrSig := [6, 11, 5, 0, 2] } : MsgSig).toStr = "26b502I000a01F0040V0050" := by decide +kernel

/-- test (5): an array of 3 for 8 headers: truncated indication, entries of the stored part only -/
example : (exM 3).hl.n = 8 ∧ (exM 3).hl.hdrs.size = 3 ∧ getMsgSigCore (exM 3) exMsg =
    ({ method := 2, cidSLen := 1, cidSig := 10, fromSig := 64, viaBSig := 80, hdrSig := [6, 11] },
     .trunc, false) := by decide +kernel

/-- test (5), the observation of the header comment: an array of 6 holds every fingerprinted header of the message
    (the signature is complete), still the verdict is Trunc — the non-fingerprinted Subject header sits in `seen` -/
example : getMsgSigCore (exM 6) exMsg =
    ({ method := 2, cidSLen := 1, cidSig := 10, fromSig := 64, viaBSig := 80, hdrSig := [6, 11, 5, 0, 2] },
     .trunc, false) := by decide +kernel

/-- test (1): a parsed status line is not a request -/
example : ({ fl := (parseFLine "SIP/2.0 200 OK\r\nX".toUTF8.data 0 {}).2.2 } : PSIPMsg).request = false := by
  decide +kernel

/-- use of (3a): an extra header of type "other" (e.g. another Subject) at position 2, any count -/
example (x : Hdr) (hx : x.type = HdrOther) (n' : Nat) :
    (getMsgSigCore (withHdrs (exM 10) ((exM 10).hl.hdrs.toList.take 2 ++ x :: (exM 10).hl.hdrs.toList.drop 2) n')
      exMsg).1 = (getMsgSigCore (exM 10) exMsg).1 :=
  (edit_insert_other (exM 10) exMsg _ _ x n' exCovered (List.take_append_drop 2 _).symm
    (by rw [hx]; decide)).1

/-- test: `Covered` is needed in `factorisation` — a hand-made object whose flag word has the From bit only, with
    From and To stored: the loop stops after From ("all flagged types seen") -/
def exUncovered : PSIPMsg :=
  { hl := { pflags := 2, n := 2, hdrs := #[{ type := HdrFrom, name := ⟨0, 4⟩ }, { type := HdrTo, name := ⟨0, 2⟩ }] } }

example : (getMsgSigCore exUncovered #[]).1.hdrSig = [3] ∧
    (sigOfView 0 #[] #[] (firsts exUncovered #[])).hdrSig = [3, 5] := by decide +kernel

/-! ### composition with chunking (C01) and capacities (C13) (proved in `Sipsp.Proofs.SigCompose`) -/

/-- **every chunk schedule from Init that ends with OK** gives the object — hence the signature, verdict and panic
    flag of GetMsgSig on any buffer — that the fresh one-shot calls on the same prefixes give -/
theorem sig_chunking : type_of% @Sipsp.sc_sig_chunking := @Sipsp.sc_sig_chunking

/-- **a complete message handed over in ANY number of pieces** (each earlier piece boundary leaves an incomplete
    message: the one-shot verdict on that prefix is MoreBytes; the whole buffer `B` = last element parses OK): the
    chain of resumed calls returns exactly what ONE call on `B` returns — offset, verdict, object — and so
    GetMsgSig gives the same signature, verdict and panic flag -/
theorem sig_chunking_whole : type_of% @Sipsp.sc_sig_chunking_whole := @Sipsp.sc_sig_chunking_whole

/-- … hence two different ways of cutting the same complete message give the same signature (and the same object) -/
theorem sig_two_schedules : type_of% @Sipsp.sc_sig_two_schedules := @Sipsp.sc_sig_two_schedules

/-- **(3a) two header arrays that both hold all headers of the message**: the same signature, verdict (OK) and panic
    flag. `MsgDone` is the relation the capacity theorems (C13) establish between the results of two runs with
    different capacities; `ScDone` holds after every successful parse (`sc_parseSIPMsg`, `sc_resumeRun`). -/
theorem sig_capacity_fit : type_of% @Sipsp.sc_sig_fit := @Sipsp.sc_sig_fit

/-- **(3b) a header array too small for the message** compared with any array at least as large (too small as well, or
    large enough): GetMsgSig gives the explicit truncated indication, or else exactly the same result — signature,
    verdict, panic flag — as with the larger array -/
theorem sig_capacity_small : type_of% @Sipsp.sc_sig_small := @Sipsp.sc_sig_small

/-- **(3) capacities, any chunk schedule, from Init**: two runs over the same chunk schedule on objects initialised
    with ANY two header / contact capacities (or none = the private arrays of 10), the first one ending with OK:
    the second one ends with OK at the same offset with the same header count `n`; the arrays keep their capacities;
    * if both capacities hold all `n` headers, GetMsgSig gives the same result (signature, verdict OK, panic flag);
    * if the first capacity is too small and the second is not smaller, GetMsgSig on the first object gives the
      truncated indication, or else exactly the result on the second object. -/
theorem sig_capacity : type_of% @Sipsp.sc_sig_capacity := @Sipsp.sc_sig_capacity

/-! ### what the character-class functions compute (proved in `Sipsp.Proofs.SigChars`) -/

/-- **`getStrCharsSig s 0 0` is `scSig s`, for every byte string** (no extra bytes skipped) -/
theorem strsig_eq : type_of% @Sipsp.getStrCharsSig_eq := @Sipsp.getStrCharsSig_eq

/-- **the bits of `scSig`**: bits 3–12 are the class bits; bit 13 (hex encoding), bit 15 (digit blocks), bit 14
    (base64) as stated; no other bit -/
theorem strsig_bits : type_of% @Sipsp.scSig_testBit := @Sipsp.scSig_testBit

/-- **class bits of `getStrCharsSig s 0 0`**: the bit of a reserved byte is set iff the byte occurs in `s` -/
theorem strsig_class_bit : type_of% @Sipsp.getStrCharsSig_class_bit := @Sipsp.getStrCharsSig_class_bit

/-- bits 0–2 (the IP-position bits) and bits above 15 are never set by `getStrCharsSig s 0 0` -/
theorem strsig_no_other_bit : type_of% @Sipsp.getStrCharsSig_no_other_bit := @Sipsp.getStrCharsSig_no_other_bit

/-- order independence of the class bits (bits 0–12): permuting the bytes does not change them. The three
    encoding bits 13–15 ARE positional (see the examples below). -/
theorem strsig_perm_low : type_of% @Sipsp.getStrCharsSig_perm_low := @Sipsp.getStrCharsSig_perm_low

/-- monotonicity under concatenation, class bits: the class bits of `s ++ t` are the union of those of `s`, `t` -/
theorem strsig_append_low : type_of% @Sipsp.getStrCharsSig_append_low := @Sipsp.getStrCharsSig_append_low

/-- the result of `getStrCharsSig` with any excluded span: the class of the bytes outside the span, possibly with
    some of the three encoding flags (bits 13–15); and the count of skipped neighbours -/
theorem strsig_span : type_of% @Sipsp.getStrCharsSig_span := @Sipsp.getStrCharsSig_span

/-- **class bits with an excluded span**: for k = 3 … 12 the bit is set iff the corresponding reserved byte occurs
    OUTSIDE the span; bits 0–2 are never set -/
theorem strsig_span_bit : type_of% @Sipsp.getStrCharsSig_span_bit := @Sipsp.getStrCharsSig_span_bit

/-- no `;` in the Via value: no parameters, empty signature -/
theorem viabr_no_semicolon : type_of% @Sipsp.getViaBrSig_no_semicolon := @Sipsp.getViaBrSig_no_semicolon

/-- the parameters are read from the byte after the FIRST `;` -/
theorem viabr_first_semicolon : type_of% @Sipsp.getViaBrSig_first_semicolon := @Sipsp.getViaBrSig_first_semicolon

/-- **`GetViaBrSig` on a Via value `sent-protocol sent-by ; params`** (first `;` at `s`, then a parameter list of the
    C17 grammar with separator `;`, ended by `,` or the end of the value): the signature is that of the value of
    the FIRST parameter called `branch` (case-insensitive), without the magic cookie; an empty or missing value, or
    no such parameter, gives the empty signature; a later `branch` is ignored; Go does not panic -/
theorem viabr_glist : type_of% @Sipsp.getViaBrSig_glist := @Sipsp.getViaBrSig_glist

/-- a later `branch` is ignored: the result depends only on the list up to and including the first `branch` -/
theorem viabr_first_branch : type_of% @Sipsp.scViaResult_first := @Sipsp.scViaResult_first

theorem viabr_no_branch : type_of% @Sipsp.scViaResult_none := @Sipsp.scViaResult_none

/-- **C19 in its own words**: two requests that agree on the method, on the first occurrences of the fingerprinted
    headers (type and long / compact form, in order), on the Call-ID signature and short length, on the From-tag
    signature and on the branch signature of the first Via have the same signature — whatever the bytes of
    Call-ID, From-tag and Via are, and whatever else differs -/
theorem same_classes_same_signature : type_of% @Sipsp.getMsgSig_same_classes := @Sipsp.getMsgSig_same_classes

/-! ### the coverage hypothesis discharged for every parser output (proved in `Sipsp.Proofs.SigCovered`) -/

/-- **(1) `Covered` after ParseHeaders, ANY values object** (typed headers included; no size bound): the list object
    satisfies the two invariants (`ScTail`: the slots after the current one are untouched and the current one has no
    type while in its initial state; `SvCov`) — every new / reset list of any capacity does, and so does a list
    returned by a suspended call; if ParseHeaders says OK the flag word covers every fingerprinted stored type -/
theorem covered_any_values : type_of% @Sipsp.covered_any_values := @Sipsp.covered_any_values

/-- … for a new list object of any capacity `k` -/
theorem covered_any_values_new : type_of% @Sipsp.covered_any_values_new := @Sipsp.covered_any_values_new

/-- **`Covered` after one successful ParseSIPMsg call** on an object satisfying the invariants (any buffer, offset,
    flags; the call may complete a message suspended earlier) -/
theorem covered_after_parse : type_of% @Sipsp.covered_parseSIPMsg := @Sipsp.covered_parseSIPMsg

/-- **after ANY history of the object** (no size bound, no legitimacy hypothesis: the flag word and the stored types
    are kept consistent by every call) -/
theorem covered_after_history : type_of% @Sipsp.covered_after_history := @Sipsp.covered_after_history

/-- **every chunk schedule from Init that ends with OK** -/
theorem covered_schedule_init : type_of% @Sipsp.covered_schedule_init := @Sipsp.covered_schedule_init

/-- **factorisation for every successfully parsed request** (C19 `factorisation` without `Covered`) -/
theorem factorisation_unconditional : type_of% @Sipsp.svc_factorisation := @Sipsp.svc_factorisation

/-- **two successfully parsed requests** (each the result of a successful call after any history — in particular of
    any chunk schedule from Init, with any capacities) with the same method, the same Call-ID and From-tag bytes and
    the same restricted view have the same signature and the same "Go would panic" flag: no side condition on the
    flag words left -/
theorem same_view_same_signature_unconditional : type_of% @Sipsp.svc_same_view_same_signature := @Sipsp.svc_same_view_same_signature

/-! ### GetMsgSig = completeness guard + core (proved in `Sipsp.Proofs.SigGuard`) -/

/-- on a completely parsed message (final state, or the "Content-Length required but missing" end state) the signature
    function is its core -/
theorem sig_is_core_when_complete : type_of% @Sipsp.getMsgSig_complete := @Sipsp.getMsgSig_complete

/-- a reply never has a signature -/
theorem sig_reply_empty : type_of% @Sipsp.getMsgSig_reply_empty := @Sipsp.getMsgSig_reply_empty

/-! ### the completeness guard is transparent for completed messages (proved in `Sipsp.Proofs.SigGuardSafe`) -/

/-- **after OK, GetMsgSig IS the function all the signature theorems are about** (any call, any object, any buffer
    handed to the signature function) -/
theorem sig_guard_transparent : type_of% @Sipsp.sig_guard_transparent := @Sipsp.sig_guard_transparent

/-- **every chunk schedule that ends with OK** (any start object, any buffers): GetMsgSig is its core on the result -/
theorem sig_guard_transparent_schedule : type_of% @Sipsp.sig_guard_transparent_schedule := @Sipsp.sig_guard_transparent_schedule

/-- … and after "Content-Length required but missing" -/
theorem sig_guard_transparent_noclen : type_of% @Sipsp.sig_guard_transparent_noCLen := @Sipsp.sig_guard_transparent_noCLen

end Sipsp.C19
