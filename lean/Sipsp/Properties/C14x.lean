/-
  Property C14 - extension file: theorems of this property that are proved in layers which themselves import
  Sipsp/Properties/C14.lean (message-level compositions, audit lemmas). Same namespace as the main file; the check
  audits both files together.
-/
import Sipsp.Properties.C14
import Sipsp.Proofs.AuditExamples

namespace Sipsp.C14
open Sipsp

/-! ### a bare scheme (proved in `Sipsp.Proofs.AuditExamples`) -/

/-- **(B)(iii) the scheme alone, `sips:` (any letter case), 5 bytes**: `ErrURITooShort` at position 5 (the end of the
    input); the URI object has the type and the scheme field already filled in. (`sip:` and `tel:` alone are 4 bytes:
    `C14.err_too_short` gives `ErrURITooShort` at position 4 with the object untouched.) -/
theorem err_bare_sips : type_of% @Sipsp.ae_parseURI_bare_sips := @Sipsp.ae_parseURI_bare_sips

/-- the scheme alone, all three: error code and position -/
theorem err_bare_scheme : type_of% @Sipsp.ae_parseURI_bare_scheme := @Sipsp.ae_parseURI_bare_scheme

end Sipsp.C14
