/-
  Property C01 — resumed whole-message parsing equals parsing the same bytes from scratch.

  Statement proved (`schedule_msg`): for EVERY growing sequence of buffer prefixes c1 < c2 < … < ck (every way of
  cutting the stream: any number of cuts, anywhere — inside CR LF, folded lines, quoted strings, escapes, numbers,
  parameter names, the blank line), all within the documented 65,535-byte limit, every parse-flag combination,
  every caller-supplied header / contact capacity (or none), every start offset inside the first chunk, and every
  byte string (well-formed, malformed, truncated): the chain of calls in which each call resumes from the offset
  returned by the previous one, on the same message object, returns
    * the same verdict and the same offset as ONE call on a freshly initialised object given the same prefix, and
    * the same message object: exactly the same whenever the verdict is not an error (everything the caller can
      read back — first line, header list and first-of-type shortcuts, From/To/Call-ID/CSeq/Content-Length/Expires/
      Contact/P-Asserted-Identity values, body, raw message), and after an error verdict the same up to the
      name-addr parsers' unexported saved restart offset `soffs` (`msgObs`; no exported accessor reads it).
  Since the sequence is arbitrary, this covers every intermediate call (cut the sequence after that call).
  `resume_msg` is the one-step law, which moreover allows the flags to change between calls (e.g. the
  no-more-data flag on the last call).

  Modelled rather than verified: the Lean model `parseSIPMsg` is tied to parse_msg.go etc. by the correspondence
  check (same sessions run on the Go code and on this model) and by the regenerated facts in `Sipsp.Tie`.
  Extension file `Properties/C01x.lean` (theorems from `Sipsp.Proofs.MsgLastFlags`, a layer that imports this file): the
  flags of the LAST call may differ — `schedule_msg_last_flags(_init)`: for every growing sequence of prefixes, every flag
  word `f` for the calls before the last and every `f'` for the last (no hypothesis on either), the chain equals the
  fresh calls on the same buffers (same offset, verdict, object up to the observation after an error);
  `schedule_msg_last_flags_more`, `schedule_msg_last_nmd`: with the no-more-data flag on the final call only, the chain
  returns what ONE call with the flag on the whole input returns (side condition: no earlier buffer is already a
  complete body-to-end message; tests show it and "earlier calls do not carry the flag" are needed);
  `schedule_msg_truncated_body`: a message whose body is shorter than its Content-Length, fed in pieces, is reported OK
  with the truncated body when the final call carries the flag, and ends with MoreBytes at the body start without it;
  `flags_switch`: a definitive result without the no-more-data flag is also the result with it.
-/
import Sipsp.Proofs.MsgL2

namespace Sipsp.C01
open Sipsp

/-- one step: after MoreBytes, the next call (any flags) on any extension equals a fresh call on that extension -/
theorem resume_msg (b s : Buf) (o : Nat) (m : PSIPMsg) (flags flags' : Nat) (hok : msgOK2 b o m)
    (hfit : b.size ≤ 65535) {o' : Nat} {m' : PSIPMsg}
    (hr : parseSIPMsg b o m flags = (o', Err.moreBytes, m')) :
    RR msgObs (parseSIPMsg (b ++ s) o' m' flags') (parseSIPMsg (b ++ s) o m flags') ∧
      msgOK2 (b ++ s) o' m' ∧ o' ≤ b.size :=
  parseSIPMsg_resume b s o m flags flags' hok hfit hr

/-- … with exact equality of the whole result whenever the fresh call's verdict is not an error -/
theorem resume_msg_exact (b s : Buf) (o : Nat) (m : PSIPMsg) (flags flags' : Nat) (hok : msgOK2 b o m)
    (hfit : b.size ≤ 65535) {o' : Nat} {m' : PSIPMsg}
    (hr : parseSIPMsg b o m flags = (o', Err.moreBytes, m'))
    (hg : Err.goesOn (parseSIPMsg (b ++ s) o m flags').2.1) :
    parseSIPMsg (b ++ s) o' m' flags' = parseSIPMsg (b ++ s) o m flags' :=
  (parseSIPMsg_resume b s o m flags flags' hok hfit hr).1.eq hg

/-- the message parser with fixed flags, as a streaming parser -/
def msgP (flags : Nat) : Parser PSIPMsg := fun b o m => parseSIPMsg b o m flags

theorem resumable_msg (flags : Nat) : ResumableRC (msgP flags) msgOK2 msgObs (fun b => b.size ≤ 65535) := by
  intro b s o st o' st' hC hI hr
  have := parseSIPMsg_resume b s o st flags flags hI hC hr
  exact ⟨this.1, this.2.1⟩

/-- **C01**: every chunk schedule, from any legitimate message object -/
theorem schedule_msg (flags : Nat) (o : Nat) (m : PSIPMsg) (l : List Buf) (hg : Growing l)
    (hfit : ∀ x ∈ l, x.size ≤ 65535) (h0 : ∀ b ∈ l.head?, msgOK2 b o m) :
    RR msgObs (resumeRun (msgP flags) o m l) (oneShotRun (msgP flags) o m l) :=
  resumeRun_eq_oneShotRC (msgP flags) msgOK2 msgObs _ (resumable_msg flags) o m l hg hfit h0

/-- **C01 from Init**: any previous contents of the object, ZEROED caller arrays of any capacity (or none) — Go's Init does
    not clear a caller-supplied array, so "like new" presupposes a cleared one -/
theorem schedule_msg_init (flags : Nat) (o : Nat) (m0 : PSIPMsg) (len kh kc : Nat) (hdrs cts : Option Unit)
    (l : List Buf) (hg : Growing l) (hfit : ∀ x ∈ l, x.size ≤ 65535) (ho : ∀ b ∈ l.head?, o ≤ b.size) :
    let m := m0.init len (hdrs.map fun _ => Array.replicate kh {}) (cts.map fun _ => Array.replicate kc {})
    RR msgObs (resumeRun (msgP flags) o m l) (oneShotRun (msgP flags) o m l) :=
  schedule_msg flags o _ l hg hfit (fun b hb => msgOK2_init b o (ho b hb) m0 len kh kc hdrs cts)

/-- the verdict and the offset of the chain of resumed calls are those of the fresh calls -/
theorem schedule_msg_verdict (flags : Nat) (o : Nat) (m : PSIPMsg) (l : List Buf) (hg : Growing l)
    (hfit : ∀ x ∈ l, x.size ≤ 65535) (h0 : ∀ b ∈ l.head?, msgOK2 b o m) :
    (resumeRun (msgP flags) o m l).1 = (oneShotRun (msgP flags) o m l).1 ∧
    (resumeRun (msgP flags) o m l).2.1 = (oneShotRun (msgP flags) o m l).2.1 :=
  let h := schedule_msg flags o m l hg hfit h0; ⟨h.1, h.2.1⟩

/-- … and on success (or any other non-error verdict) the whole object is the same -/
theorem schedule_msg_object (flags : Nat) (o : Nat) (m : PSIPMsg) (l : List Buf) (hg : Growing l)
    (hfit : ∀ x ∈ l, x.size ≤ 65535) (h0 : ∀ b ∈ l.head?, msgOK2 b o m)
    (hv : Err.goesOn (oneShotRun (msgP flags) o m l).2.1) :
    resumeRun (msgP flags) o m l = oneShotRun (msgP flags) o m l :=
  (schedule_msg flags o m l hg hfit h0).eq hv

/-! ### non-vacuity: a concrete message cut in two -/
def exMsg : Buf := "OPTIONS sip:a@b SIP/2.0\r\nCall-ID: x\r\nCSeq: 1 OPTIONS\r\nFrom: <sip:a@b>;tag=1\r\nTo: <sip:c@d>\r\nContent-Length: 0\r\n\r\n".toUTF8.data
def exInit : PSIPMsg := ({} : PSIPMsg).init 0 none none

example : (parseSIPMsg (exMsg.extract 0 40) 0 exInit 0).2.1 = Err.moreBytes := by decide +kernel
example : (parseSIPMsg exMsg 0 exInit 0).2.1 = Err.ok := by decide +kernel
example : msgOK2 (exMsg.extract 0 40) 0 exInit :=
  msgOK2_init _ 0 (Nat.zero_le _) {} 0 0 0 none none

end Sipsp.C01
