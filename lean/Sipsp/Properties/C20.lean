/-
  Property C20 — IPv4 detection is sound and complete; decoded address bytes are exact.

  Proved here for texts of ANY length (the property's quantifier enumerates lengths up to 10–11 and samples longer
  ones):
    * `contains_iff`  : ContainsIP4 reports an address ⇔ the text contains a substring of four dot-separated groups
                        of one to three digits, each at most 255 (`IsIP4`);
    * `contains_span` : the span it reports is such a substring, and its four groups are the returned bytes;
    * `prefix_iff`    : IP4Prefix accepts ⇔ the text starts with such a group sequence;
    * `prefix_span`, `prefix_indications` : the accepted prefix is a group sequence with the returned bytes, and the
                        verdict tells what follows it: end of input (Ok), a digit (MoreValues), another byte (BadChar).
    * `prefix_is_longest`, `prefix_stops_at_first_bad_byte`, `contains_span_is_longest`,
      `contains_span_cannot_grow`, `contains_is_leftmost` : the accepted prefix / reported span is the LONGEST group
      sequence at that position, the byte after it (when there is one and the verdict is not Ok) cannot extend any
      group sequence whatever follows, and ContainsIP4 reports the leftmost position at which a match starts.
  The Call-ID signature (`Sipsp.Proofs.SigChars`): `contains_iff_leftmost_longest` (ContainsIP4 reports exactly the
  leftmost dotted quad, taken as long as possible), `callid_ip4_bits`: for that quad `[o, o+n)` exactly one position bit
  is set — bit 0 iff it starts the Call-ID, bit 1 iff it ends it (and does not start it), bit 2 otherwise —, bits 3–12 are
  the classes of the bytes OUTSIDE the quad; `callid_ip4_len` (the short length counts the bytes outside the address and
  its reserved neighbours, in units of 4, capped at 255); `callid_noip`, `callid_flags_need_ip` (position bits only
  when an IPv4 or IPv6 address is reported), `callid_ip6` (the IPv6 fallback in terms of the model's ContainsIP6).
  Not proved: ContainsIP6 / IP6Prefix address correctness (no property asks for it; safety is C04).
  Model tied to ip_prefix.go by the correspondence check (functions `ip4prefix`, `containsip4`).
-/
import Sipsp.Proofs.IP4
import Sipsp.Proofs.IP4Longest
import Sipsp.Proofs.SigChars

namespace Sipsp.C20
open Sipsp

/-- the text contains an address somewhere -/
def HasIP4 (b : Buf) : Prop := ∃ p l t a0 a1 a2 a3, IsIP4 l a0 a1 a2 a3 ∧ b.toList.drop p = l ++ t

theorem contains_iff (b : Buf) : (containsIP4 b).isSome = true ↔ HasIP4 b := by
  constructor
  · intro h
    rcases hc : containsIP4 b with _ | ⟨o, n, ip⟩
    · rw [hc] at h; cases h
    · have := containsIP4_some b hc
      exact ⟨o, (b.toList.drop o).take n, (b.toList.drop o).drop n, _, _, _, _, this.2,
        (List.take_append_drop n _).symm⟩
  · intro h
    rcases hc : containsIP4 b with _ | r
    · exact absurd h (containsIP4_none b hc)
    · rfl

theorem contains_span (b : Buf) {o n : Nat} {ip : Array Nat} (h : containsIP4 b = some (o, n, ip)) :
    o + n ≤ b.size ∧ IsIP4 ((b.toList.drop o).take n) ip[0]! ip[1]! ip[2]! ip[3]! := by
  have := containsIP4_some b h
  refine ⟨?_, this.2⟩
  have h1 := this.1
  simp only [List.length_drop, Array.length_toList] at h1
  have hpos : 0 < n := by
    obtain ⟨g0, g1, g2, g3, he, h0, _⟩ := this.2
    have hl := congrArg List.length he
    simp only [List.length_take, List.length_drop, Array.length_toList, List.length_append, List.length_cons] at hl
    have := h0.1
    omega
  omega

theorem prefix_iff (b : Buf) :
    (ip4Prefix b).1 = true ↔ ∃ l t a0 a1 a2 a3, IsIP4 l a0 a1 a2 a3 ∧ b.toList = l ++ t := by
  unfold ip4Prefix
  constructor
  · intro h
    rcases hp : ip4PrefixAt b 0 with ⟨ok, n, e, ip⟩
    rw [hp] at h
    simp only at h
    subst h
    have := ip4PrefixAt_sound b 0 hp
    exact ⟨(b.toList.drop 0).take n, (b.toList.drop 0).drop n, _, _, _, _, this.2.1,
      by simpa using (List.take_append_drop n b.toList).symm⟩
  · rintro ⟨l, t, a0, a1, a2, a3, h1, h2⟩
    exact ip4PrefixAt_complete b 0 l t a0 a1 a2 a3 h1 (by simpa using h2)

theorem prefix_span (b : Buf) {n : Nat} {e : Err} {ip : Array Nat} (h : ip4Prefix b = (true, n, e, ip)) :
    n ≤ b.size ∧ IsIP4 (b.toList.take n) ip[0]! ip[1]! ip[2]! ip[3]! := by
  have := ip4PrefixAt_sound b 0 h
  exact ⟨by simpa using this.1, by simpa using this.2.1⟩

theorem prefix_indications (b : Buf) {n : Nat} {e : Err} {ip : Array Nat} (h : ip4Prefix b = (true, n, e, ip)) :
    (e = .ok ∨ e = .moreValues ∨ e = .badChar) ∧
    (e = .ok → n = b.size) ∧
    (e = .moreValues → ∃ c, b[n]? = some c ∧ IsDigitB c) ∧
    (e = .badChar → ∃ c, b[n]? = some c ∧ ¬ IsDigitB c) := by
  have := ip4PrefixAt_sound b 0 h
  refine ⟨this.2.2.1, fun he => by simpa using this.2.2.2.1 he, fun he => ?_, fun he => ?_⟩
  · obtain ⟨c, hc, hd⟩ := this.2.2.2.2.1 he
    exact ⟨c, by simpa using hc, hd⟩
  · obtain ⟨c, hc, hd⟩ := this.2.2.2.2.2 he
    exact ⟨c, by simpa using hc, hd⟩

/-- the accepted length is exactly the maximum: `take n` is a group sequence with the returned bytes, and no prefix
    of the text that is a group sequence is longer -/
theorem prefix_is_longest (b : Buf) {n : Nat} {e : Err} {ip : Array Nat} (h : ip4Prefix b = (true, n, e, ip)) :
    (n ≤ b.size ∧ IsIP4 (b.toList.take n) ip[0]! ip[1]! ip[2]! ip[3]!) ∧
      ∀ m, m ≤ b.size → (∃ a0 a1 a2 a3, IsIP4 (b.toList.take m) a0 a1 a2 a3) → m ≤ n := ip4Prefix_is_max b h

/-- "stops at the first byte that cannot extend it": with a verdict other than Ok, the accepted bytes followed by the
    next byte do not begin any group sequence, whatever is appended -/
theorem prefix_stops_at_first_bad_byte (b : Buf) {n : Nat} {e : Err} {ip : Array Nat}
    (h : ip4Prefix b = (true, n, e, ip)) (he : e ≠ .ok) (u : List UInt8) (a0 a1 a2 a3 : Nat) :
    ¬ IsIP4 (b.toList.take (n + 1) ++ u) a0 a1 a2 a3 := ip4Prefix_stop_byte b h he u a0 a1 a2 a3

theorem contains_span_is_longest (b : Buf) {o n : Nat} {ip : Array Nat} (h : containsIP4 b = some (o, n, ip))
    (l t : List UInt8) (a0 a1 a2 a3 : Nat) (hl : IsIP4 l a0 a1 a2 a3) (hd : b.toList.drop o = l ++ t) :
    l.length ≤ n := containsIP4_longest b h l t a0 a1 a2 a3 hl hd

theorem contains_span_cannot_grow (b : Buf) {o n : Nat} {ip : Array Nat} (h : containsIP4 b = some (o, n, ip))
    (hlt : o + n < b.size) (u : List UInt8) (a0 a1 a2 a3 : Nat) :
    ¬ IsIP4 ((b.toList.drop o).take (n + 1) ++ u) a0 a1 a2 a3 := containsIP4_stop_byte b h hlt u a0 a1 a2 a3

theorem contains_is_leftmost (b : Buf) {o n : Nat} {ip : Array Nat} (h : containsIP4 b = some (o, n, ip))
    (p : Nat) (l t : List UInt8) (a0 a1 a2 a3 : Nat) (hl : IsIP4 l a0 a1 a2 a3) (hd : b.toList.drop p = l ++ t) :
    o ≤ p := containsIP4_leftmost b h p l t a0 a1 a2 a3 hl hd


/-! ### non-vacuity -/
example : ip4Prefix "10.0.255.7".toUTF8.data = (true, 10, .ok, #[10, 0, 255, 7]) := by decide +kernel
example : IsIP4 ("10.0.255.7".toUTF8.data.toList.take 10) 10 0 255 7 :=
  (prefix_span "10.0.255.7".toUTF8.data (n := 10) (e := .ok) (ip := #[10, 0, 255, 7]) (by decide +kernel)).2
example : containsIP4 "x256.1.1.1".toUTF8.data = some (2, 8, #[56, 1, 1, 1]) := by decide +kernel

/-! ### the Call-ID signature: IP position flags (proved in `Sipsp.Proofs.SigChars`) -/

/-- ContainsIP4 reports exactly the leftmost dotted quad, as long as possible -/
theorem contains_iff_leftmost_longest : type_of% @Sipsp.scContainsIP4_iff_ll := @Sipsp.scContainsIP4_iff_ll

/-- **IP-position flags of the Call-ID signature, IPv4**: when the Call-ID contains a dotted quad, let `[o, o+n)` be
    its leftmost occurrence (as long as possible). Then exactly one of the three position bits is set: bit 0 iff it
    starts the Call-ID, bit 1 iff it does not but ends it, bit 2 otherwise. Bits 3–12 are the class bits of the
    bytes OUTSIDE `[o, o+n)`. No "Go would panic" indication. -/
theorem callid_ip4_bits : type_of% @Sipsp.getCallIDSig_ip4_bits := @Sipsp.getCallIDSig_ip4_bits

/-- **the short length of the Call-ID signature, IPv4**: a quarter (rounded up, at most 255) of the length of the
    Call-ID without the leftmost dotted quad and without the reserved byte directly before it and the reserved
    byte directly after it (when there are such bytes) -/
theorem callid_ip4_len : type_of% @Sipsp.getCallIDSig_ip4_len := @Sipsp.getCallIDSig_ip4_len

/-- **no address**: without a dotted quad and with ContainsIP6 finding nothing, no position bit is set and the
    signature is that of the whole Call-ID (`scSig`); the short length is a quarter of the length, at most 255 -/
theorem callid_noip : type_of% @Sipsp.getCallIDSig_noip_eq := @Sipsp.getCallIDSig_noip_eq

/-- the position bits are set only when ContainsIP4 or ContainsIP6 reports an address -/
theorem callid_flags_need_ip : type_of% @Sipsp.getCallIDSig_flags_need_ip := @Sipsp.getCallIDSig_flags_need_ip

theorem callid_ip6 : type_of% @Sipsp.getCallIDSig_ip6 := @Sipsp.getCallIDSig_ip6

end Sipsp.C20
