/-
  Property C14 — URI parsing is a lossless, ordered decomposition.

  Proved here for ALL byte strings `b` of at most 65,535 bytes (the documented maximum; needed because field
  offsets are 16 bit), parsed with `ParseURI` into a zero `PsipURI`, in any scheme letter case:
    * `never_panics`, `position_inside` : ParseURI never panics and the returned position is ≤ len(b) for every
      outcome (so every rejection reports an error position inside the input);
    * `accepted_consumes_all` : an accepted URI is consumed completely (returned offset = len(b));
    * `accepted_shape` : an accepted URI has type sip / sips / tel with scheme field `[0,4)` / `[0,5)` / `[0,4)`;
      the byte closing the scheme is ':' for sips; for sip and tel it is ':' or 0x1a (see below);
    * `sip_layout` : for an accepted sip: / sips: URI the reported components satisfy `URILayout b k u`:
      scheme = [0,k); then either no user and no password and the host starts at k, or the user starts at k, is not
      empty, is followed by an optional ':' password, then '@', then the host; the host is not empty; then an
      optional ':' port, an optional ';' parameters, an optional '?' headers; every present component starts exactly
      one byte after the previous one ends, that byte being the right delimiter, and the last one ends at len(b).
      "Present" means offset ≠ 0 (a present port / parameters / headers / password may be empty: `sip:h:`, `sip:u:@h`);
    * `sip_order` : hence the present components lie inside the buffer, start at or after the scheme, and are pairwise
      disjoint and strictly ordered user < password < host < port < parameters < headers;
    * `sip_lossless` : joining scheme, [user [':' password] '@'], host, [':' port], [';' parameters], ['?' headers]
      gives back the input byte for byte (`urender b u = b`, an equation on `Array.extract`s);
    * `sip_fields_readable` : `Get` on each of the seven fields does not panic and returns that slice;
    * `tel_layout` : for an accepted tel: URI the host field is zero and the result is the sip-style decomposition
      `u0` (which satisfies `URILayout b 4 u0`) with `u0.host` handed out as the user; `tel_lossless` : when the number
      starts right after the scheme (user offset 4: no '@' re-attribution took place) scheme ++ user ++ optional
      parts reproduce the input; `tel_fields_readable` : `Get` works on all fields;
    * `at_is_last`, `sip_at_is_last`, `sip_no_user_no_at` : which '@' splits — in an accepted URI there is no '@' at or
      after the start of the reported host, i.e. the '@' that closes the user-info is the LAST '@' of the input, so
      every ';' '?' ':' in front of it lies in user[:password] (by `sip_layout`) and none of the host, port, parameters,
      headers contains an '@'; when no user is reported the input has no '@' at all after the first byte behind the
      scheme (that first byte is not examined for '@': `sip:@h` has host `@h`);
    * `bracket_host`, `sip_bracket_host` : a reported host that starts with '[' ends with ']' (brackets are kept).
  The back-tracking of the automaton (text first taken as host / port / parameters / headers and re-attributed to
  user / password when '@' shows up: `foundUser`, `passOffs`, `errHeaders`) is covered: the theorems hold for every
  accepted input, whichever path the automaton took (loop invariants `UInv`, `UAtInv`, `UBrInv` in
  Sipsp/Proofs/UriSpec.lean).

  COMPLETENESS and the exact iff (`Sipsp.Proofs.UriComplete`, byte classes taken from the automaton's ordinary-byte
  branches): `complete` — every text of the grammar `UcURI` (scheme in any letter case; optional user[:password]@ with
  the ';' / '?' / "host:port;params" back-tracking forms; host = token run or `[…]`; optional :port with value ≤ 65535;
  optional ;params; optional ?headers) is accepted with exactly the stated components; `sound_grammar`, `accepted_iff`,
  `ok_iff`: a text is accepted as sip: / sips: IF AND ONLY IF it is a `UcURI`, `decomposition_unique`; tel:
  (`tel_complete`, `tel_simple`, `tel_sound`, `tel_iff`: exact iff as well; Host empty, User = the number);
  error code AND position for the rejection shapes a user meets: `err_too_short`, `err_scheme`, `err_empty_host`,
  `err_bracket_open`, `err_bracket_junk` (at the offending byte or the end of input), `err_port_char` (at the
  non-digit; hosts behind '@' and bracketed hosts), `err_port_big` (at the byte behind the digits).
  EVERY rejection (`Sipsp.Proofs.UriErrors`): `err_first_char`, `err_user_bracket`, `err_pass_char`, `err_pass_no_at`,
  `err_pass_end`, `err_host_at`, `err_second_at`, `err_committed_at`, `err_headers_semi` — the remaining rejection
  shapes with code and position; `total`: every input ≤ 65,535 bytes is accepted (then a text of the grammar), too
  short, without a known scheme (always reported at position 4), or rejected behind a scheme — at the end of the input
  with the whole text described, or at the byte at the reported position with the text in front of it described;
  `reject_inside`: a reported position inside the input is 4 (scheme) or points at a byte of an explicit finite set per
  error code (BadChar: `: ] [ ; ? @ &`; host: `: ; ? & @ [` or junk behind `]`; port: a non-digit) — never at an
  innocent byte; `reject_end`; `scheme_case_stable`. Positions that are NOT at the offending byte (all pinned as tests):
  a bad scheme is always reported at 4; `token:text` without '@' with a non-digit in the text is reported at the END
  (`sip:h:12x` → 9) or at a following ';' / '?'; a ';' inside the headers without user-info is reported at the END.
  NOT proved: the converse of the rejection shapes as one statement (each alternative but the last is the hypothesis
  of an `err_*` theorem).
  Observed (all pinned as tests in UriComplete): `sip:h:12x` reports the port error at the END of the input (without
  '@' the non-digit starts a password); `sip:a&b` is accepted with host `a&b` but `sip:u@a&b` is rejected;
  `sip:u@a]b[` is accepted; `sip:u:1;x@h` is rejected while `sip:[a]:1;x@h` is accepted; for tel: URIs containing
  '@' the user-info part is dropped from the report, so no tiling is claimed there.
  Quirks of the code visible in the statements: the scheme test ORs 0x20 into the first four bytes, so 0x1a is
  accepted in place of ':' after `sip` / `tel` (`USchEnd`); the first byte after the scheme is only checked for
  ':' ']' '[' and otherwise taken as ordinary text, even '@' ';' '?' (`sip:@h` has host `@h`).
  Model tied to sipuri.go by the correspondence check.
  SCOPE NOTES after the second sceptical review (AB1): "EVERY rejection" — the last alternative of `UeShape` and the
  headers alternative of `UeEndShape` are necessary conditions only; the reject sets of host and port are not finite sets
  of bytes (host: junk behind `]`; port: any non-digit).
-/
import Sipsp.Proofs.UriSpec
import Sipsp.Proofs.UriComplete
import Sipsp.Proofs.UriErrors

namespace Sipsp.C14
open Sipsp

/-- (c) ParseURI does not panic, whatever the input -/
theorem never_panics (b : Buf) (hfit : b.size ≤ 65535) : (parseURI b {}).2.2.2 = false :=
  (parseURI_ok b hfit).2.1

/-- (d) accepted or rejected, the reported position lies inside the input -/
theorem position_inside (b : Buf) (hfit : b.size ≤ 65535) : (parseURI b {}).2.1 ≤ b.size :=
  (parseURI_ok b hfit).1

/-- (a) an accepted URI is consumed completely -/
theorem accepted_consumes_all (b : Buf) (hfit : b.size ≤ 65535) (hacc : (parseURI b {}).1 = .none) :
    (parseURI b {}).2.1 = b.size :=
  ((parseURI_ok b hfit).2.2 hacc).1

/-- the accepted URI types, the scheme field and the byte that closes the scheme -/
theorem accepted_shape (b : Buf) (hfit : b.size ≤ 65535) (hacc : (parseURI b {}).1 = .none) :
    ((parseURI b {}).2.2.1.uriType = SIPuri ∧ (parseURI b {}).2.2.1.scheme = ⟨0, 4⟩ ∧ USchEnd b) ∨
    ((parseURI b {}).2.2.1.uriType = TELuri ∧ (parseURI b {}).2.2.1.scheme = ⟨0, 4⟩ ∧ USchEnd b) ∨
    ((parseURI b {}).2.2.1.uriType = SIPSuri ∧ (parseURI b {}).2.2.1.scheme = ⟨0, 5⟩ ∧ b[4]? = some 58) := by
  obtain ⟨_, t, k, u0, hk, hl, hty, hu⟩ := (parseURI_ok b hfit).2.2 hacc
  rw [hu]
  rcases hk with ⟨rfl, rfl, h3⟩ | ⟨rfl, rfl, h3⟩ | ⟨rfl, rfl, h4⟩
  · rw [if_neg (by decide)]
    exact Or.inl ⟨hty, hl.1, h3⟩
  · rw [if_pos rfl]
    exact Or.inr (Or.inl ⟨hty, hl.1, h3⟩)
  · rw [if_neg (by decide)]
    exact Or.inr (Or.inr ⟨hty, hl.1, h4⟩)

/-- (b) sip: and sips: — the reported components tile the input (`k` = scheme length with its ':') -/
theorem sip_layout (b : Buf) (hfit : b.size ≤ 65535) (hacc : (parseURI b {}).1 = .none)
    (hsip : (parseURI b {}).2.2.1.uriType ≠ TELuri) :
    ∃ k, (k = 4 ∨ k = 5) ∧ URILayout b k (parseURI b {}).2.2.1 := by
  obtain ⟨_, t, k, u0, hk, hl, hty, hu⟩ := (parseURI_ok b hfit).2.2 hacc
  have ht : t ≠ TELuri := by
    intro ht
    apply hsip
    rw [hu, if_pos ht]
    exact hty.trans ht
  rw [hu, if_neg ht]
  rcases hk with ⟨_, rfl, _⟩ | ⟨rfl, _, _⟩ | ⟨_, rfl, _⟩
  · exact ⟨4, Or.inl rfl, hl⟩
  · exact absurd rfl ht
  · exact ⟨5, Or.inr rfl, hl⟩

/-- (b), (c) ordered, disjoint, inside the buffer -/
theorem sip_order (b : Buf) (hfit : b.size ≤ 65535) (hacc : (parseURI b {}).1 = .none)
    (hsip : (parseURI b {}).2.2.1.uriType ≠ TELuri) :
    ∃ k, (k = 4 ∨ k = 5) ∧
      (parseURI b {}).2.2.1.scheme = ⟨0, k⟩ ∧ k ≤ b.size ∧
      0 < (parseURI b {}).2.2.1.host.len ∧ k ≤ (parseURI b {}).2.2.1.host.offs ∧
      (∀ f ∈ [(parseURI b {}).2.2.1.user, (parseURI b {}).2.2.1.pass, (parseURI b {}).2.2.1.host,
              (parseURI b {}).2.2.1.port, (parseURI b {}).2.2.1.params, (parseURI b {}).2.2.1.headers],
        f.offs + f.len ≤ b.size ∧ (f.offs ≠ 0 → k ≤ f.offs)) ∧
      List.Pairwise UBefore
        [(parseURI b {}).2.2.1.user, (parseURI b {}).2.2.1.pass, (parseURI b {}).2.2.1.host,
         (parseURI b {}).2.2.1.port, (parseURI b {}).2.2.1.params, (parseURI b {}).2.2.1.headers] := by
  obtain ⟨k, hk, hl⟩ := sip_layout b hfit hacc hsip
  exact ⟨k, hk, hl.order (by omega)⟩

/-- (b) nothing dropped, nothing duplicated: the components joined with their delimiters are the input -/
theorem sip_lossless (b : Buf) (hfit : b.size ≤ 65535) (hacc : (parseURI b {}).1 = .none)
    (hsip : (parseURI b {}).2.2.1.uriType ≠ TELuri) : urender b (parseURI b {}).2.2.1 = b := by
  obtain ⟨k, hk, hl⟩ := sip_layout b hfit hacc hsip
  exact hl.join (by omega)

/-- (c) every field can be read back with `Get` -/
theorem sip_fields_readable (b : Buf) (hfit : b.size ≤ 65535) (hacc : (parseURI b {}).1 = .none)
    (hsip : (parseURI b {}).2.2.1.uriType ≠ TELuri) :
    ∀ f ∈ [(parseURI b {}).2.2.1.scheme, (parseURI b {}).2.2.1.user, (parseURI b {}).2.2.1.pass,
           (parseURI b {}).2.2.1.host, (parseURI b {}).2.2.1.port, (parseURI b {}).2.2.1.params,
           (parseURI b {}).2.2.1.headers],
      PField.get? b f = some (b.extract f.offs (f.offs + f.len)) := by
  obtain ⟨k, hk, hl⟩ := sip_layout b hfit hacc hsip
  exact hl.get (by omega) hfit

/-- (d) tel: — the host is empty and the number is what the sip-style decomposition `u0` calls the host -/
theorem tel_layout (b : Buf) (hfit : b.size ≤ 65535) (hacc : (parseURI b {}).1 = .none)
    (htel : (parseURI b {}).2.2.1.uriType = TELuri) :
    (parseURI b {}).2.2.1.host = ⟨0, 0⟩ ∧
    ∃ u0, URILayout b 4 u0 ∧ (parseURI b {}).2.2.1 = telSwap u0 ∧ (parseURI b {}).2.2.1.user = u0.host := by
  obtain ⟨_, t, k, u0, hk, hl, hty, hu⟩ := (parseURI_ok b hfit).2.2 hacc
  have ht : t = TELuri := by
    rcases hk with ⟨rfl, _, _⟩ | ⟨rfl, _, _⟩ | ⟨rfl, _, _⟩
    · rw [hu, if_neg (by decide)] at htel
      exact hty.symm.trans htel
    · rfl
    · rw [hu, if_neg (by decide)] at htel
      exact hty.symm.trans htel
  have hk4 : k = 4 := by
    rcases hk with ⟨_, rfl, _⟩ | ⟨_, rfl, _⟩ | ⟨rfl, _, _⟩
    · rfl
    · rfl
    · exact absurd ht (by decide)
  subst hk4
  rw [hu, if_pos ht]
  exact ⟨rfl, u0, hl, rfl, rfl⟩

/-- (d) tel: with the number right after the scheme: scheme ++ number ++ optional parts is the input -/
theorem tel_lossless (b : Buf) (hfit : b.size ≤ 65535) (hacc : (parseURI b {}).1 = .none)
    (htel : (parseURI b {}).2.2.1.uriType = TELuri) (h4 : (parseURI b {}).2.2.1.user.offs = 4) :
    utelRender b (parseURI b {}).2.2.1 = b := by
  obtain ⟨_, u0, hl, hu, huser⟩ := tel_layout b hfit hacc htel
  rw [huser] at h4
  rw [hu]
  exact hl.tel_join (by omega) h4

/-- (c) tel: every field can be read back with `Get` -/
theorem tel_fields_readable (b : Buf) (hfit : b.size ≤ 65535) (hacc : (parseURI b {}).1 = .none)
    (htel : (parseURI b {}).2.2.1.uriType = TELuri) :
    ∀ f ∈ [(parseURI b {}).2.2.1.scheme, (parseURI b {}).2.2.1.user, (parseURI b {}).2.2.1.pass,
           (parseURI b {}).2.2.1.host, (parseURI b {}).2.2.1.port, (parseURI b {}).2.2.1.params,
           (parseURI b {}).2.2.1.headers],
      PField.get? b f = some (b.extract f.offs (f.offs + f.len)) := by
  obtain ⟨hh, u0, hl, hu, huser⟩ := tel_layout b hfit hacc htel
  have hg := hl.get (by omega) hfit
  intro f hf
  rw [hu] at hf
  simp only [telSwap, List.mem_cons, List.not_mem_nil, or_false] at hf
  rcases hf with rfl | rfl | rfl | rfl | rfl | rfl | rfl
  · exact hg _ (by simp)
  · exact hg _ (by simp)
  · exact hg _ (by simp)
  · exact field_get? b 0 0 (Nat.zero_le _) hfit
  · exact hg _ (by simp)
  · exact hg _ (by simp)
  · exact hg _ (by simp)

/-! ### which '@' splits, brackets -/

/-- no '@' at or after the start of the reported host (all URI types; for tel: the host is reported as user) -/
theorem at_is_last (b : Buf) (hfit : b.size ≤ 65535) (hacc : (parseURI b {}).1 = .none) :
    ∀ j, (parseURI b {}).2.2.1.scheme.len < j → uhostStart (parseURI b {}).2.2.1 ≤ j → j < b.size →
      b[j]? ≠ some 64 :=
  parseURI_at b hfit hacc

/-- sip: / sips: — the '@' in front of the host is the last '@' of the input: host, port, parameters and headers
    are free of '@' (only the very first byte after the scheme is exempt: it is never looked at as a delimiter) -/
theorem sip_at_is_last (b : Buf) (hfit : b.size ≤ 65535) (hacc : (parseURI b {}).1 = .none)
    (hsip : (parseURI b {}).2.2.1.uriType ≠ TELuri) :
    ∀ j, (parseURI b {}).2.2.1.scheme.len < j → (parseURI b {}).2.2.1.host.offs ≤ j → j < b.size →
      b[j]? ≠ some 64 := by
  intro j h1 h2 h3
  refine parseURI_at b hfit hacc j h1 ?_ h3
  unfold uhostStart
  rw [if_neg hsip]
  exact h2

/-- sip: / sips: — if no user is reported there is no '@' after the first byte behind the scheme: an '@' further on
    always produces a user part (so ';' '?' ':' before an '@' are never left in host / parameters / headers) -/
theorem sip_no_user_no_at (b : Buf) (hfit : b.size ≤ 65535) (hacc : (parseURI b {}).1 = .none)
    (hsip : (parseURI b {}).2.2.1.uriType ≠ TELuri) (hno : (parseURI b {}).2.2.1.user.offs = 0) :
    ∀ j, (parseURI b {}).2.2.1.scheme.len < j → j < b.size → b[j]? ≠ some 64 := by
  intro j h1 h3
  obtain ⟨k, hk, hl⟩ := sip_layout b hfit hacc hsip
  have hsch : (parseURI b {}).2.2.1.scheme.len = k := by rw [hl.1]
  have hho : (parseURI b {}).2.2.1.host.offs = k := by
    have := hl.2.1.arith
    omega
  exact sip_at_is_last b hfit hacc hsip j h1 (by omega) h3

/-- a reported host (for tel: the user) that starts with '[' ends with ']' -/
theorem bracket_host (b : Buf) (hfit : b.size ≤ 65535) (hacc : (parseURI b {}).1 = .none) :
    UHostBr b (uhostField (parseURI b {}).2.2.1) :=
  parseURI_br b hfit hacc

theorem sip_bracket_host (b : Buf) (hfit : b.size ≤ 65535) (hacc : (parseURI b {}).1 = .none)
    (hsip : (parseURI b {}).2.2.1.uriType ≠ TELuri)
    (hbr : b[(parseURI b {}).2.2.1.host.offs]? = some 91) :
    b[(parseURI b {}).2.2.1.host.offs + (parseURI b {}).2.2.1.host.len - 1]? = some 93 := by
  have h := parseURI_br b hfit hacc
  unfold uhostField at h
  rw [if_neg hsip] at h
  exact h hbr

/-! ### tests / non-vacuity (closed computations, `decide +kernel`) -/

-- the hypotheses are satisfiable: accepted sip:, sips: and tel: URIs, with back-tracking ('@' after ';' '?' ':')
example : (parseURI "sip:u;x?y:p@[::1]:5060;a=b?c=d".toUTF8.data {}).1 = UErr.none := by decide +kernel
example : (parseURI "sip:u;x?y:p@[::1]:5060;a=b?c=d".toUTF8.data {}).2.2.1 =
    { uriType := SIPuri, scheme := ⟨0, 4⟩, user := ⟨4, 5⟩, pass := ⟨10, 1⟩, host := ⟨12, 5⟩, port := ⟨18, 4⟩,
      params := ⟨23, 3⟩, headers := ⟨27, 3⟩, portNo := 5060 } := by decide +kernel
example : (parseURI "SIPS:h".toUTF8.data {}).2.2.1.uriType = SIPSuri := by decide +kernel
example : (parseURI "sip:h:".toUTF8.data {}).2.2.1.port = ⟨6, 0⟩ := by decide +kernel
example : (parseURI "tel:+123;x=y".toUTF8.data {}).1 = UErr.none ∧
    (parseURI "tel:+123;x=y".toUTF8.data {}).2.2.1.user = ⟨4, 4⟩ ∧
    (parseURI "tel:+123;x=y".toUTF8.data {}).2.2.1.host = ⟨0, 0⟩ := by decide +kernel
-- the 0x1a quirk: `sip` 0x1a `h` is accepted as a sip URI with host `h`
example : (parseURI #[115, 105, 112, 26, 104] {}).1 = UErr.none := by decide +kernel
-- tel: with '@': the user-info is dropped from the report (why `tel_lossless` needs its hypothesis)
example : (parseURI "tel:a@b".toUTF8.data {}).2.2.1.user = ⟨6, 1⟩ := by decide +kernel
-- a bracketed host: `[::1]` is reported with both brackets
example : (parseURI "sip:[::1]:5".toUTF8.data {}).2.2.1.host = ⟨4, 5⟩ := by decide +kernel
-- a rejected URI
example : (parseURI "sip:a@b@c".toUTF8.data {}).1 = UErr.badChar ∧ (parseURI "sip:a@b@c".toUTF8.data {}).2.1 = 7 := by
  decide +kernel

/-! ### completeness: which texts are accepted (exact iff), and error positions (proved in `Sipsp.Proofs.UriComplete`) -/

/-- **EXPORT C14 — completeness for sip: / sips:**: a text of the grammar is accepted with exactly the components
    user, password, host, port, port number, parameters, headers and type of its decomposition -/
theorem complete : type_of% @Sipsp.parseURI_complete := @Sipsp.parseURI_complete

/-- **EXPORT C14 — completeness, all URI types**: a text of the grammar (≤ 65,535 bytes) is accepted, consumed to
    the end, never panics, and the report is exactly the decomposition `u` (for tel: with the host handed out as
    the user, `ucOut`) -/
theorem complete_all_schemes : type_of% @Sipsp.parseURI_complete_gen := @Sipsp.parseURI_complete_gen

/-- **EXPORT C14 — soundness of the grammar**: every accepted sip: / sips: text (≤ 65,535 bytes) is a text of the
    grammar, and the reported components are its decomposition -/
theorem sound_grammar : type_of% @Sipsp.parseURI_sound := @Sipsp.parseURI_sound

/-- **EXPORT C14 — `parseURI_ok_iff`**: a text of at most 65,535 bytes is accepted as a sip: / sips: URI with the
    report `u` exactly when `u` is a decomposition of the text according to the grammar `UcURI` -/
theorem accepted_iff : type_of% @Sipsp.parseURI_iff := @Sipsp.parseURI_iff

/-- **EXPORT C14 — which texts are accepted**: exactly the texts of the grammar -/
theorem ok_iff : type_of% @Sipsp.parseURI_ok_iff := @Sipsp.parseURI_ok_iff

/-- **EXPORT C14 — the decomposition is unique** -/
theorem decomposition_unique : type_of% @Sipsp.UcURI_unique := @Sipsp.UcURI_unique

/-- **EXPORT C14 — completeness for tel:**: accepted; the host field is empty and the number is reported as user -/
theorem tel_complete : type_of% @Sipsp.parseURI_complete_tel := @Sipsp.parseURI_complete_tel

/-- **EXPORT C14 — tel:** `tel:` number `[;params]` with no `@ : ? [ ]` in the number and no `?`, `@` in the
    parameters: accepted, the host field is empty, the user field is the number, the parameters follow -/
theorem tel_simple : type_of% @Sipsp.parseURI_tel_simple := @Sipsp.parseURI_tel_simple

/-- **EXPORT C14 — soundness of the grammar for tel:**: an accepted tel: text is a text of the grammar; the report
    is its decomposition with the host (the number) handed out as the user -/
theorem tel_sound : type_of% @Sipsp.parseURI_sound_tel := @Sipsp.parseURI_sound_tel

/-- **EXPORT C14 — which texts are accepted as tel:**: exactly the texts of the grammar behind `tel:` -/
theorem tel_iff : type_of% @Sipsp.parseURI_tel_iff := @Sipsp.parseURI_tel_iff

/-- **EXPORT C14 — shorter than the shortest scheme plus one byte**: `ErrURITooShort` at the end of the input -/
theorem err_too_short : type_of% @Sipsp.parseURI_err_short := @Sipsp.parseURI_err_short

/-- **EXPORT C14 — unknown scheme** (at least five bytes, not `sip:` / `sips:` / `tel:` in any letter case):
    `ErrURIScheme`, position 4 -/
theorem err_scheme : type_of% @Sipsp.parseURI_err_scheme := @Sipsp.parseURI_err_scheme

/-- **EXPORT C14 — empty host** behind `scheme user-info @`: the input ends there, or one of `: ; ? & @` follows:
    `ErrURIHost`, position = that byte (= the length of the input when it ends there) -/
theorem err_empty_host : type_of% @Sipsp.parseURI_err_empty_host := @Sipsp.parseURI_err_empty_host

/-- **EXPORT C14 — `]` missing**: a host that opens with `[` (right behind the scheme or behind the '@') and is
    not closed before the end of the input or before one of `[ @ ; ? &`: `ErrURIHost` at that position -/
theorem err_bracket_open : type_of% @Sipsp.parseURI_err_bracket_open := @Sipsp.parseURI_err_bracket_open

/-- **EXPORT C14 — text behind `]`** other than `:` `;` `?`: `ErrURIHost` at that byte -/
theorem err_bracket_junk : type_of% @Sipsp.parseURI_err_bracket_junk := @Sipsp.parseURI_err_bracket_junk

/-- **EXPORT C14 — non-digit in the port** (host behind '@', or bracketed host; then ':' and digits up to `p`):
    a byte at `p` that is neither a digit nor `;` / `?` gives `ErrURIPort` at `p` -/
theorem err_port_char : type_of% @Sipsp.parseURI_err_port_char := @Sipsp.parseURI_err_port_char

/-- **EXPORT C14 — port above 65535** (any host of the grammar; then ':' and digits up to `p` whose value exceeds
    65535, closed by `;` / `?` or the end of the input): `ErrURIPort` at `p` (the byte behind the digits) -/
theorem err_port_big : type_of% @Sipsp.parseURI_err_port_big := @Sipsp.parseURI_err_port_big

/-! ### every rejection: code, position, totality (proved in `Sipsp.Proofs.UriErrors`) -/

/-- **EXPORT C14 — `:` or `]` right behind the scheme** (where neither a port nor a password can start):
    `ErrURIBadChar` at that byte -/
theorem err_first_char : type_of% @Sipsp.parseURI_err_first_char := @Sipsp.parseURI_err_first_char

/-- **EXPORT C14 — `[` or `]` inside the first token** behind the scheme (a user, or a host name without
    user-info): `ErrURIBadChar` at that byte -/
theorem err_user_bracket : type_of% @Sipsp.parseURI_err_user_bracket := @Sipsp.parseURI_err_user_bracket

/-- **EXPORT C14 — `[`, `]` or a second `:` in a password** (`token:` and bytes without `@ : ; ? [ ]` up to `p`):
    `ErrURIBadChar` at that byte -/
theorem err_pass_char : type_of% @Sipsp.parseURI_err_pass_char := @Sipsp.parseURI_err_pass_char

/-- **EXPORT C14 — a password that is not followed by '@'**: `token:text` where `text` (no `@ : ; ? [ ]`) holds a
    non-digit, then `;` or `?`: `ErrURIBadChar` at the `;` / `?` -/
theorem err_pass_no_at : type_of% @Sipsp.parseURI_err_pass_no_at := @Sipsp.parseURI_err_pass_no_at

/-- **EXPORT C14 — a password that is not followed by anything**: `token:text` up to the end of the input where
    `text` (no `@ : ; ? [ ]`) holds a non-digit: `ErrURIPort`, reported at the END of the input and not at the
    non-digit (`sip:h:12x` → 9) -/
theorem err_pass_end : type_of% @Sipsp.parseURI_err_pass_end := @Sipsp.parseURI_err_pass_end

/-- **EXPORT C14 — a second '@' (or an `&`) in the host name** behind the '@' of a user-info: `ErrURIBadChar` at
    that byte -/
theorem err_host_at : type_of% @Sipsp.parseURI_err_host_at := @Sipsp.parseURI_err_host_at

/-- **EXPORT C14 — a second '@' behind `user-info@host[:port]`, or a `;` in its headers**: with the text between
    the host (and port ≤ 65535) and `p` being `;` parameters (no `?`, no `@`) and / or `?` headers (no `;`, no `@`),
    an '@' at `p`, or a `;` at `p` when `p` lies in the headers, is `ErrURIBadChar` at `p` -/
theorem err_second_at : type_of% @Sipsp.parseURI_err_second_at := @Sipsp.parseURI_err_second_at

/-- **EXPORT C14 — an '@' behind `token:digits;` / `token:digits?`** (value ≤ 65535): the `;` / `?` has committed the
    token as host and the digits as port, so an '@' further on (or a `;` in the headers) is `ErrURIBadChar` at that
    byte (`sip:u:1;x@h` → 9) -/
theorem err_committed_at : type_of% @Sipsp.parseURI_err_committed_at := @Sipsp.parseURI_err_committed_at

/-- **EXPORT C14 — `;` inside the headers of a URI without user-info** (host = first token or `[…]`, no port, optional
    `;` parameters without `:`, then `?` at `q`): when neither '@' nor `:` follows, a `;` anywhere in the headers
    gives `ErrURIHeaders`, reported at the END of the input (`sip:h?a;b` → 9) -/
theorem err_headers_semi : type_of% @Sipsp.parseURI_err_headers_semi := @Sipsp.parseURI_err_headers_semi

/-- **EXPORT C14 — totality of the description of `ParseURI`**: for every input of at most 65,535 bytes
    at least one of four things happens (the four are mutually exclusive by the error code / position):
    * it is ACCEPTED, consumed to the end, and is a text of the grammar (`UcURI` or `UcTelURI`);
    * it has fewer than five bytes: `ErrURITooShort` at the end;
    * it has no known scheme: `ErrURIScheme` at position 4 (always 4: the position is not that of an offending
      byte unless the scheme is `sips` without its `:`);
    * behind a scheme of `k` bytes it is REJECTED, either at its END (position = length) with the whole text
      described by `UeEndShape`, or at the byte `c` at the reported position `p ≥ k`, which the automaton rejects
      in the state it has reached: `UeShape` gives the text in front of `p`, the byte and the code. -/
theorem total : type_of% @Sipsp.parseURI_total := @Sipsp.parseURI_total

/-- **EXPORT C14 — a position inside the input points at an offending byte**: when `ParseURI` rejects an input
    (≤ 65,535 bytes) at a position `p < len`, then either the code is `ErrURIScheme` and `p = 4`, or the byte at `p`
    is one of the bytes the automaton rejects with that code (`UeByte`: a finite set for `ErrURIBadChar`; for
    `ErrURIHost` a finite set or any byte but `: ; ?` right behind `]`; a non-digit for `ErrURIPort`).  The codes
    `ErrURITooShort` and `ErrURIHeaders` are only ever reported at the end of the input, and `ErrURIBad` /
    `ErrURIBug` never. -/
theorem reject_inside : type_of% @Sipsp.parseURI_reject_inside := @Sipsp.parseURI_reject_inside

/-- **EXPORT C14 — rejections at the end of the input**: when the reported position is the length of the input, the
    code is `ErrURITooShort`, `ErrURIHost`, `ErrURIPort` or `ErrURIHeaders`, and the whole input has one of the
    shapes of `UeEndShape`.  These are the only rejections whose position is not that of an offending byte (the
    scheme error aside); in particular `ErrURIPort` at the end covers `token:text` without '@' where `text` holds a
    non-digit somewhere (`sip:h:12x`), and `ErrURIHeaders` is reported at the end although the offending `;` lies
    inside. -/
theorem reject_end : type_of% @Sipsp.parseURI_reject_end := @Sipsp.parseURI_reject_end

/-- **EXPORT C14 — the letter case of the scheme does not matter**: two inputs that differ only in the case of the
    scheme letters (`sip:` / `SIP:` / `sIpS:` …) get the same verdict — the same error code, the same position, the
    same components, for every input, accepted or rejected -/
theorem scheme_case_stable : type_of% @Sipsp.parseURI_case_stable := @Sipsp.parseURI_case_stable

end Sipsp.C14
