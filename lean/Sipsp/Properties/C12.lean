/-
  Property C12 — Reset/Init make a used parser object behave like a new one.

  In the model a call's result is a function of (buffer, offset, flags, object) only, so "behaves on every
  later input exactly like a new object" follows from `reset obj = fresh (capacities of obj)`.

  * objects whose Go `Reset` is `*x = T{}` (PFLine, PFromBody, PCSeqBody, PCallIDBody, PUIntBody,
    PTokParam, Hdr, URIParam, PPAIs, PsipURI): the model of Reset IS the fresh value, for every state
    whatsoever (`reset_simple`).
  * HdrLst.Reset clears the whole caller array: fresh for every state (`reset_hdrlst`).
  * PContacts / URIParamsLst / URIHdrsLst clear entries `0..N` only: fresh provided the entries above the one
    in progress are untouched (`reset_contacts`, `reset_uriparams`, `reset_urihdrs`), and that invariant is
    established by `new` and preserved by every parse call (`tailClean_*`) — so it holds for every
    reachable state: after complete, suspended or failed parses, any number of them.
  * PHdrVals / PSIPMsg: composition (`reset_hdrvals`, `reset_msg`).
  * URI parameter list / URI header list, whole histories (`uriparams_any_history`, `urihdrs_any_history`,
    `uriparams_behave_like_new`, `urihdrs_behave_like_new`): take a new object of any capacity, apply ANY sequence of
    ParseAllURIParams / ParseAllURIHdrs calls (any buffers, offsets, flags; complete, suspended, failed) and Reset
    calls, then Reset: the object is literally the new object of that capacity, and every later parse call returns
    what it returns on a new object.
  After the sceptical review (`Sipsp.Proofs.AuditFixB`): `reset_msg` / `reset_hdrvals` / `reset_contacts` above carry the
  invariant `TailClean` as a hypothesis; `msg_reset_after_any_history`, `msg_reset_like_new(_schedule)`,
  `hdrvals_reset_after_any_history`, `hdrvals_reset_like_new`, `contacts_reset_after_any_history`,
  `contacts_reset_like_new` have NO side condition: for every object reachable by any history of Init (zeroed arrays) /
  parse calls (complete, suspended, failed) / Reset, Reset gives literally the new object over cleared arrays of the same
  capacities, and every later call or chain of resumed calls returns what it returns on a new object (`bufLen`, which
  the parser never reads, aside). `msg_init_any`, `msg_init_like_new`, `contacts_init_new_iff_cleared`: Init builds the
  zero object over the GIVEN arrays — it does not clear them (neither does the Go code), so "like new" holds iff the
  caller's array is cleared (a test pins a stale slot leaking into MaxExpires). `reset_simple`'s first conjunct is a
  tautology (noted by the review): the Go Reset of PFLine, PFromBody, PCSeqBody, PCallIDBody, PUIntBody, PTokParam, Hdr,
  URIParam, PsipURI is `*x = T{}`; the model has no function for it and the session driver substitutes `{}`
  (`driver_reset_simple`, definitional and labelled so); `pais_reset_is_new`.
-/
import Sipsp.Model.Msg
import Sipsp.Model.Params
import Sipsp.Model.URI
import Sipsp.Proofs.ResetLists
import Sipsp.Proofs.AuditFixB

namespace Sipsp.C12
open Sipsp

/-- `*x = T{}`: the reset value does not depend on the previous state -/
theorem reset_simple : (∀ _x : PFLine, ({} : PFLine) = {}) ∧ (∀ c : PPAIs, c.reset = {}) := ⟨fun _ => rfl, fun _ => rfl⟩

theorem map_const_eq_replicate {α β : Type} (a : Array α) (z : β) : a.map (fun _ => z) = Array.replicate a.size z := by
  apply Array.ext
  · simp
  · intro i h1 h2; simp

/-- **HdrLst.Reset = new header list with the same caller array capacity** (any previous state) -/
theorem reset_hdrlst (hl : HdrLst) : hl.reset = { hdrs := Array.replicate hl.hdrs.size {} } := by
  simp only [HdrLst.reset, map_const_eq_replicate]

/-- entries above index `n` are still in their initial state -/
def TailClean {α : Type} (a : Array α) (z : α) (n : Nat) : Prop := ∀ k, n < k → ∀ h : k < a.size, a[k] = z

theorem foldl_set_size {α : Type} (z : α) (l : List Nat) (a : Array α) :
    (l.foldl (fun acc i => acc.set! i z) a).size = a.size := by
  induction l generalizing a with
  | nil => rfl
  | cons x xs ih => simp only [List.foldl_cons]; rw [ih]; simp

theorem foldl_set_get {α : Type} (z : α) (l : List Nat) (a : Array α) (k : Nat) (h : k < a.size) :
    (l.foldl (fun acc i => acc.set! i z) a)[k]'(by rw [foldl_set_size]; exact h) = if k ∈ l then z else a[k] := by
  induction l generalizing a with
  | nil => simp
  | cons x xs ih =>
    simp only [List.foldl_cons]
    have hs : k < (a.set! x z).size := by simp [h]
    rw [ih (a.set! x z) hs]
    by_cases hk : k ∈ xs
    · simp [hk]
    · simp only [hk, if_false, List.mem_cons, or_false]
      by_cases hx : k = x
      · subst hx; simp [Array.set!_eq_setIfInBounds, h]
      · simp only [hx, if_false, Array.set!_eq_setIfInBounds]
        rw [Array.getElem_setIfInBounds_ne]
        exact fun hh => hx hh.symm

/-- clearing `0..n` of an array whose tail is clean gives the all-clean array -/
theorem clear_of_tailClean {α : Type} (a : Array α) (z : α) (n : Nat) (h : TailClean a z n) :
    (List.range (min (n + 1) a.size)).foldl (fun acc i => acc.set! i z) a = Array.replicate a.size z := by
  apply Array.ext
  · rw [foldl_set_size]; simp
  · intro k h1 h2
    have hk : k < a.size := by rw [foldl_set_size] at h1; exact h1
    rw [foldl_set_get z _ a k hk]
    simp only [List.mem_range, Array.getElem_replicate]
    split
    · rfl
    · rename_i hn
      exact h k (by omega) hk

/-- **PContacts.Reset = new contacts object with the same caller array** -/
theorem reset_contacts (c : PContacts) (h : TailClean c.vals {} c.n) :
    c.reset = { vals := Array.replicate c.vals.size {} } := by
  simp only [PContacts.reset, clearUpTo, clear_of_tailClean c.vals {} c.n h]

theorem reset_uriparams (l : URIParamsLst) (h : TailClean l.params {} l.n) :
    l.reset = { params := Array.replicate l.params.size {} } := by
  simp only [URIParamsLst.reset, clearUpToP, clear_of_tailClean l.params {} l.n h]

theorem reset_urihdrs (l : URIHdrsLst) (h : TailClean l.hdrs {} l.n) :
    l.reset = { hdrs := Array.replicate l.hdrs.size {} } := by
  simp only [URIHdrsLst.reset, clearUpToP, clear_of_tailClean l.hdrs {} l.n h]

/-- a new object satisfies the invariant -/
theorem tailClean_new {α : Type} (z : α) (cap n : Nat) : TailClean (Array.replicate cap z) z n := by
  intro k _ h; simp

/-- writing the entry in progress (index `n`) keeps the tail clean -/
theorem tailClean_set {α : Type} (a : Array α) (z x : α) (n : Nat) (h : TailClean a z n) :
    TailClean (a.set! n x) z n := by
  intro k hk hs
  have hs' : k < a.size := by simpa using hs
  simp only [Array.set!_eq_setIfInBounds]
  rw [Array.getElem_setIfInBounds_ne hs' (Nat.ne_of_lt hk)]
  exact h k hk hs'

theorem tailClean_mono {α : Type} (a : Array α) (z : α) (n m : Nat) (hnm : n ≤ m) (h : TailClean a z n) :
    TailClean a z m := fun k hk hs => h k (by omega) hs

theorem setCur_tail (c : PContacts) (pf : PFromBody) (h : TailClean c.vals {} c.n) :
    TailClean (c.setCur pf).vals {} c.n ∧ (c.setCur pf).n = c.n := by
  unfold PContacts.setCur
  split
  · exact ⟨tailClean_set _ _ _ _ h, rfl⟩
  · exact ⟨h, rfl⟩

theorem account_vals_n (c : PContacts) (pf : PFromBody) :
    (c.account pf).vals = c.vals ∧ (c.account pf).n = c.n + 1 := by
  unfold PContacts.account
  simp only
  repeat' split
  all_goals exact ⟨rfl, rfl⟩

/-- **the contacts invariant is preserved by every ParseAllContactValues call** (whatever the buffer, the
    offset and the verdict: complete, suspended, failed) -/
theorem tailClean_contactsLoop (b : Buf) (offs : Nat) (c : PContacts) (h : TailClean c.vals {} c.n) :
    TailClean (contactsLoop b offs c).2.2.vals {} (contactsLoop b offs c).2.2.n := by
  induction hk : b.size - offs using Nat.strongRecOn generalizing offs c with
  | _ k ih =>
    rw [contactsLoop]
    simp only
    rcases hp : parseOneContact b offs c.cur with ⟨next, e, pf⟩
    obtain ⟨hs1, hs2⟩ := setCur_tail c pf h
    obtain ⟨ha1, ha2⟩ := account_vals_n (c.setCur pf) pf
    have hacc : TailClean ((c.setCur pf).account pf).vals {} ((c.setCur pf).account pf).n := by
      rw [ha1, ha2, hs2]; exact tailClean_mono _ _ _ _ (Nat.le_succ _) hs1
    cases e
    case ok => simp only; exact hacc
    case moreValues =>
      simp only
      split
      · rename_i hlt
        apply ih (b.size - next) (by omega) next _ _ rfl
        split
        · exact hacc
        · exact hacc
      · simp only
        split
        · exact hacc
        · exact hacc
    case moreBytes => simp only; rw [hs2]; exact hs1
    all_goals
      simp only
      split
      · rw [hs2]; exact hs1
      · exact h

theorem tailClean_parseAllContactValues (b : Buf) (offs : Nat) (c : PContacts) (h : TailClean c.vals {} c.n) :
    TailClean (parseAllContactValues b offs c).2.2.vals {} (parseAllContactValues b offs c).2.2.n := by
  unfold parseAllContactValues
  apply tailClean_contactsLoop
  split <;> exact h

/-- **C12 for PContacts, every history**: start from a new object; apply any finite sequence of parse calls
    (any buffers, any offsets: complete, abandoned while suspended, or failed); reset: the object equals a
    new one with the same caller array capacity. -/
theorem contacts_reset_after_history (cap : Nat) (hist : List (Buf × Nat)) :
    let c := hist.foldl (fun c (bo : Buf × Nat) => (parseAllContactValues bo.1 bo.2 c).2.2)
      ({ vals := Array.replicate cap {} } : PContacts)
    c.reset = { vals := Array.replicate c.vals.size {} } := by
  intro c
  apply reset_contacts
  have : ∀ (l : List (Buf × Nat)) (c0 : PContacts), TailClean c0.vals {} c0.n →
      TailClean (l.foldl (fun c (bo : Buf × Nat) => (parseAllContactValues bo.1 bo.2 c).2.2) c0).vals {}
        (l.foldl (fun c (bo : Buf × Nat) => (parseAllContactValues bo.1 bo.2 c).2.2) c0).n := by
    intro l
    induction l with
    | nil => intro c0 h; exact h
    | cons x xs ih => intro c0 h; exact ih _ (tailClean_parseAllContactValues x.1 x.2 c0 h)
  exact this hist _ (tailClean_new _ _ _)

/-- PHdrVals.Reset resets everything and keeps only the (cleared) caller contact array -/
theorem reset_hdrvals (hv : PHdrVals) (h : TailClean hv.contacts.vals {} hv.contacts.n) :
    hv.reset = { contacts := { vals := Array.replicate hv.contacts.vals.size {} } } := by
  simp only [PHdrVals.reset, reset_contacts hv.contacts h]

/-- **PSIPMsg.Reset = new message object with the same caller arrays** (the retained `Buf` length aside,
    which no parser reads) -/
theorem reset_msg (m : PSIPMsg) (h : TailClean m.pv.contacts.vals {} m.pv.contacts.n) :
    m.reset = { bufLen := m.bufLen,
                hl := { hdrs := Array.replicate m.hl.hdrs.size {} },
                pv := { contacts := { vals := Array.replicate m.pv.contacts.vals.size {} } } } := by
  simp only [PSIPMsg.reset, reset_hdrlst, reset_hdrvals m.pv h]

/-! ### non-vacuity: a suspended two-contact parse into a 3-element array, then reset -/
example :
    let c := (parseAllContactValues #[60, 115, 105, 112, 58, 97, 62, 44, 60, 115] 0 { vals := Array.replicate 3 {} }).2.2
    c.n = 1 ∧ c.reset.n = 0 := by decide +kernel

/-! ### URI parameter / header lists: any history of uses, then Reset = new -/

/-- `hist`: `some (buf, offs, flags)` = a parse call, `none` = a Reset -/
theorem uriparams_any_history (cap : Nat) (hist : List (Option (Buf × Nat × Nat))) :
    (hist.foldl uriParamsUse { params := Array.replicate cap {} }).reset = { params := Array.replicate cap {} } :=
  uriParams_reset_after_uses cap hist

theorem urihdrs_any_history (cap : Nat) (hist : List (Option (Buf × Nat × Nat))) :
    (hist.foldl uriHdrsUse { hdrs := Array.replicate cap {} }).reset = { hdrs := Array.replicate cap {} } :=
  uriHdrs_reset_after_uses cap hist

theorem uriparams_behave_like_new (cap : Nat) (hist : List (Option (Buf × Nat × Nat))) (b : Buf) (offs flags : Nat) :
    parseAllURIParams b offs (hist.foldl uriParamsUse { params := Array.replicate cap {} }).reset flags =
      parseAllURIParams b offs { params := Array.replicate cap {} } flags :=
  uriParams_behaves_like_new cap hist b offs flags

theorem urihdrs_behave_like_new (cap : Nat) (hist : List (Option (Buf × Nat × Nat))) (b : Buf) (offs flags : Nat) :
    parseAllURIHdrs b offs (hist.foldl uriHdrsUse { hdrs := Array.replicate cap {} }).reset flags =
      parseAllURIHdrs b offs { hdrs := Array.replicate cap {} } flags :=
  uriHdrs_behaves_like_new cap hist b offs flags

/-! ### the message object after ANY history, no side condition; what Init guarantees (proved in `Sipsp.Proofs.AuditFixB`) -/

/-- **C12 for PSIPMsg.Reset, no side condition**: for every object reachable by any history of Init (cleared arrays or
    nil) / ParseSIPMsg (any buffer, offset, flags, verdict) / Reset calls, Reset gives literally the new object with
    the same array capacities -/
theorem msg_reset_after_any_history : type_of% @Sipsp.afb_msg_reset_reach := @Sipsp.afb_msg_reset_reach

/-- … hence for EVERY later buffer / offset / flags the call on the Reset object returns what it returns on the new
    object: "behaves like new" -/
theorem msg_reset_like_new : type_of% @Sipsp.afb_msg_reset_like_new := @Sipsp.afb_msg_reset_like_new

/-- … and so does every chain of resumed calls (every chunk schedule) -/
theorem msg_reset_like_new_schedule : type_of% @Sipsp.afb_msg_reset_like_new_schedule := @Sipsp.afb_msg_reset_like_new_schedule

/-- **PSIPMsg.Init, EVERY object `m` (reachable or not), every argument**: the result does not depend on `m` at all; it
    is the zero object over the GIVEN arrays (`none` = nil: the private 10-element arrays, which the Reset inside Init
    has just zeroed).  Init does not clear the caller's arrays: the result is the new object iff they are cleared. -/
theorem msg_init_any : type_of% @Sipsp.afb_msg_init_any := @Sipsp.afb_msg_init_any

/-- **Init of any used object with cleared arrays behaves like new**: every later call — any buffer, offset, flags —
    returns what it returns on the new object -/
theorem msg_init_like_new : type_of% @Sipsp.afb_msg_init_like_new := @Sipsp.afb_msg_init_like_new

/-- **C12 for PHdrVals.Reset, no side condition** -/
theorem hdrvals_reset_after_any_history : type_of% @Sipsp.afb_hv_reset_reach := @Sipsp.afb_hv_reset_reach

/-- … behaves like new in every later ParseHdrLine / ParseHeaders call -/
theorem hdrvals_reset_like_new : type_of% @Sipsp.afb_hv_reset_like_new := @Sipsp.afb_hv_reset_like_new

/-- **C12 for PContacts.Reset, no side condition**, and "behaves like new" -/
theorem contacts_reset_after_any_history : type_of% @Sipsp.afb_ct_reset_reach := @Sipsp.afb_ct_reset_reach

theorem contacts_reset_like_new : type_of% @Sipsp.afb_ct_reset_like_new := @Sipsp.afb_ct_reset_like_new

/-- … which is the new object exactly when the given array is cleared -/
theorem contacts_init_new_iff_cleared : type_of% @Sipsp.afb_contacts_init_new_iff := @Sipsp.afb_contacts_init_new_iff

/-- the one model function of this kind: `PPAIs.reset` returns the zero object for EVERY argument -/
theorem pais_reset_is_new : type_of% @Sipsp.afb_pais_reset := @Sipsp.afb_pais_reset

/-- the driver's Reset of a stand-alone object of these types is the substitution of the zero object, whatever the
    object was (definitional) -/
theorem driver_reset_simple : type_of% @Sipsp.afb_driver_reset_simple := @Sipsp.afb_driver_reset_simple

end Sipsp.C12
