/-
  Property C04 — crash-free, terminating, offset-sane on arbitrary bytes; isolation.

  What is proved here, for ALL buffers / offsets / objects (no size bound):
  * **termination**: every function of the model is a total Lean function (none is `partial`; the
    recursions are structural or well-founded on `b.size - i`); the model's artefacts are (a) the progress
    test of the generic loop driver, shown never to fire: `progress_*` for all seven loop bodies (Call-ID, integer,
    CSeq, name-addr, token parameter, header line, quoted string) — these are also the termination arguments of the
    corresponding Go `for i < len(buf)` loops — and (b) six more loop guards that the Go `for { … continue }` loops
    do not have (value lists, header block, URI lists: model-only verdict `lbug`; Via branch loop: a silent exit),
    shown never to be taken (`Sipsp.Proofs.AuditFixA`, found missing by the sceptical review): `*_no_model_exit` for
    ParseTokenParam, ParseNameAddrPVal, ParseAllContactValues, ParseAllPAIValues, ParseHdrLine (no hypothesis at all),
    ParseHeaders, ParseSIPMsg (one call, every chunk schedule; Init and Reset-after-any-history objects qualify),
    ParseAllURIParams / Hdrs (new and reset lists, every option word, every schedule); `viabr_guard_always_holds`,
    `viabr_loop_unguarded`, `viabr_exit_irrelevant`: GetViaBrSig's guard holds on EVERY input, the loop equals the
    Go recursion without it, the value at the dead exit is irrelevant. Just outside the domain (an element left in a
    non-idle state by the caller, an object re-used after an error verdict without Reset) the guards do fire while Go
    carries on with the stale element — those inputs are excluded by the legitimacy hypotheses, tests pin them.
  * **offset sanity** for ParseCallIDVal: `offs ≤ o' ≤ len(buf)` whatever the verdict
    (`callid_offs_sane`; the integer parser has the same shape), and for the lexical layer (`lws_offs_sane`).
  * **isolation (static part)**: the regenerated source facts show no write to a package-level variable
    outside init(), no goroutine, no `unsafe`/`sync` import (`no_shared_state`); in the model every result
    is a function of the call's explicit arguments. The "running concurrently" clause itself (Go memory
    model, scheduler) is outside any executable model: partial. The check additionally compares a
    16-goroutine run with a sequential run of the same calls (testing, not proof).
  * **panic-freedom, offset sanity and dereferenceable fields for the message parser and everything it calls**
    (`msg_never_panics`, `msg_never_panics_init`, `msg_schedule_never_panics`, `msg_schedule_never_panics_init`):
    for ALL buffers within the documented 65,535-byte limit, all start offsets inside them, all flag
    combinations, all caller-supplied capacities (or none) and ALL chunk schedules, ParseSIPMsg records no panic
    (the model's `pnc` flags mark every Go construct that panics: slice bounds, PField.Set/Extend on inverted
    ranges, nil interface), returns an offset inside the buffer that is not before the offset passed in when the
    verdict is OK or MoreBytes, and every field of the object — first line, every header slot, the first-of-type
    shortcuts, From/To/Call-ID/CSeq/Content-Length/Expires values, every stored contact and identity value, the
    body — lies inside the buffer (`MsgFine`), whatever the verdict; `fine_deref` turns that into "the model's
    `Get` returns a slice". The same is proved for the nested parsers on their own: `nameaddr_never_panics`
    (33 states), `callid_never_panics`, `uint_never_panics`, `clen_never_panics`, `cseq_never_panics`,
    `contacts_never_panics`, `pais_never_panics`, `fline_never_panics`, `hdrline_never_panics`,
    `headers_never_panics`.
  * **stand-alone entry points** (`Sipsp.Proofs.SafeRest`, re-exported below): ParseTokenParam, ParseAllURIParams /
    Hdrs, URIParamsEq / HdrsEq, URICmp(Short), URIParseCmp, GetCallIDSig, GetViaBrSig, ContainsIP6, GetMsgSig.
  * **GetMsgSig after ANY history** (`Sipsp.Proofs.SigCompose`): `sig_never_panics` (after a completed ParseSIPMsg —
    the former cleanliness hypothesis on the header list is now an invariant: kept by Init with cleared arrays, by
    every ParseSIPMsg call whatever its verdict, and by Reset), `sig_never_panics_history` (any history of Init / parse
    calls — complete, suspended, failed — / Reset, then a legitimate call that ends with OK), `sig_never_panics_init`,
    `sig_never_panics_schedule` (every chunk schedule from Init), `sig_never_panics_reset(_schedule)`,
    `reset_after_history_is_init` (Reset after any history is literally an Init object).
  GetMsgSig in EVERY state (library repair F24, found by the review of the oracles: the function sliced `msg.Buf`, which
  is set only on completion, and panicked on a suspended or failed message; the session executor had answered `nosig`
  itself there): the model's `getMsgSig` is the new completeness guard in front of `getMsgSigCore` — the function all
  the `sig_*` theorems above are about; `sig_empty_before_completion` (any state other than final / Content-Length-
  required end state: "empty", nothing is read), `sig_is_core_when_complete`, `sig_panics_only_via_core`: the only way
  GetMsgSig could panic is through its core on a completed message — which `sig_never_panics*` exclude.
  `Sipsp.Proofs.SigGuardSafe`: `sig_never_panics_any_verdict(_init)(_after_reset)(_schedule)` — after ANY legitimate
  call or chain of resumed calls, WHATEVER verdict it ended with (OK, MoreBytes, missing Content-Length, any error),
  GetMsgSig does not panic, and it answers "empty" unless the verdict was OK / missing-Content-Length
  (`sig_empty_unless_complete`); `verdict_state_relation`, `state_fin_iff_ok`, `state_suspended_iff_morebytes`,
  `state_err_iff_error`, `call_on_finished_object`: the exact relation between the verdict of a ParseSIPMsg call and
  the state it leaves (no hypothesis at all); `sig_core_safe_after_noclen`. Tests pin that the CORE does panic on a
  suspended / failed object: the guard is necessary.
  Assumed (as everywhere): arrays handed to Init are cleared (Go's Init does not clear them either).
  SCOPE NOTES after the second sceptical review (AB1): every panic-freedom theorem carries the documented
  `b.size ≤ 65535` (the sentence "after ANY legitimate call" does too); `sig_never_panics_any_verdict_schedule` speaks about
  SOME buffer of the schedule (`∃ b ∈ l`) — the older `sig_never_panics` / schedule forms name the buffer of the completing
  call and bound `bufLen` by it; for MoreBytes and error verdicts the statement follows from the two-line guard alone
  (msg_sig.go:206-212), its content is the missing-Content-Length case plus `verdict_state_relation`. STRENGTHENED
  afterwards (`Sipsp.Proofs.AuditFixC`): `sig_never_panics_last(_from)` — on the LAST buffer `B` of the schedule and on
  every extension of it GetMsgSig does not panic and gives the same result, with `bufLen ≤ B.size` in the completed states.
-/
import Sipsp.Proofs.ProgressNA
import Sipsp.Proofs.SafeMsg
import Sipsp.Tie
import Sipsp.Proofs.SafeRest
import Sipsp.Proofs.SigCompose
import Sipsp.Proofs.AuditFixA
import Sipsp.Proofs.SigGuard
import Sipsp.Proofs.SigGuardSafe
import Sipsp.Proofs.AuditFixC

namespace Sipsp.C04
open Sipsp

theorem progress_callid : Progress ciMachine := ci_progress
theorem progress_uint : Progress clMachine := cl_progress
theorem progress_cseq : Progress csMachine := cs_progress
theorem progress_nameaddr (h : Nat) : Progress (naMachine h) := na_progress h
theorem progress_tokparam (flags offs : Nat) : Progress (tpMachine flags offs) := tp_progress flags offs
theorem progress_hdrline : Progress hlMachine := hl_progress
theorem progress_skipquoted : Progress sqMachine := sq_progress

/-- the lexical layer never moves backwards and never leaves the buffer -/
theorem lws_offs_sane (b : Buf) (i flags : Nat) {n crl : Nat} {e : Err}
    (h : skipLWS b i flags = (n, crl, e)) : i ≤ n ∧ (i ≤ b.size → n ≤ b.size) := skipLWS_range b i flags h

/-- a `lwsStd` step keeps the offset inside `[i, len]`, provided the end-of-header code returns `n+crl` -/
theorem lwsStd_offs {σ : Type} (b : Buf) (i : Nat) (st : σ) (eoh : σ → Nat → Nat → Nat → Nat × Err × σ)
    (mb : σ → σ) (hi : i ≤ b.size) (heoh : ∀ s j n crl, (eoh s j n crl).1 = n + crl) :
    match lwsStd b i st eoh mb with
    | .cont i' _ => i ≤ i' ∧ i' ≤ b.size
    | .done o _ _ => i ≤ o ∧ o ≤ b.size := by
  unfold lwsStd
  rcases hsk : skipLWS b i 0 with ⟨n, crl, e⟩
  have hr := skipLWS_range b i 0 hsk
  cases e <;> simp only
  case eoh =>
    have := skipLWS_eoh_range b i 0 hsk (by decide)
    rw [heoh]; omega
  all_goals exact ⟨hr.1, hr.2 hi⟩

theorem ciEOH_fst (s : PCallIDBody) (j n crl : Nat) : (ciEOH s j n crl).1 = n + crl := by
  unfold ciEOH; cases s.state <;> rfl

theorem clEOH_fst (s : PUIntBody) (j n crl : Nat) : (clEOH s j n crl).1 = n + crl := by
  unfold clEOH; cases s.state <;> rfl

/-- **ParseCallIDVal: the returned offset lies inside the buffer and not before the offset passed in** -/
theorem callid_offs_sane (b : Buf) (o : Nat) (st : PCallIDBody) (ho : o ≤ b.size) :
    o ≤ (parseCallIDVal b o st).1 ∧ (parseCallIDVal b o st).1 ≤ b.size := by
  unfold parseCallIDVal
  split
  · exact ⟨Nat.le_refl _, ho⟩
  · apply runLoop_inv ciMachine b (fun j _ => o ≤ j ∧ j ≤ b.size) (fun r => o ≤ r.1 ∧ r.1 ≤ b.size)
    · intro i c s i' s' hb hP hs
      refine ⟨fun hlt => ?_, fun hn => absurd (ci_progress b i c s i' s' hb hs) hn⟩
      change ciStep b i c s = .cont i' s' at hs
      have hlt' := get?_lt hb
      unfold ciStep at hs
      split at hs
      · have key : ∀ s1 : PCallIDBody, lwsStd b i s1 ciEOH id = .cont i' s' → o ≤ i' ∧ i' ≤ b.size := by
          intro s1 h1
          have := lwsStd_offs b i s1 ciEOH id hP.2 ciEOH_fst
          rw [h1] at this; simp only at this; omega
        cases hst : s.state <;> rw [hst] at hs <;> simp only at hs <;>
          first | exact key _ hs | (cases hs; omega)
      · cases hst : s.state <;> rw [hst] at hs <;> simp only at hs <;> cases hs <;> omega
    · intro i c s o' e s' hb hP hs
      change ciStep b i c s = .done o' e s' at hs
      have hlt' := get?_lt hb
      unfold ciStep at hs
      split at hs
      · have key : ∀ s1 : PCallIDBody, lwsStd b i s1 ciEOH id = .done o' e s' → o ≤ o' ∧ o' ≤ b.size := by
          intro s1 h1
          have := lwsStd_offs b i s1 ciEOH id hP.2 ciEOH_fst
          rw [h1] at this; simp only at this; omega
        cases hst : s.state <;> rw [hst] at hs <;> simp only at hs <;>
          first | exact key _ hs | cases hs
      · cases hst : s.state <;> rw [hst] at hs <;> simp only at hs <;> cases hs <;> (simp only; omega)
    · intro i s _ hP; exact hP
    · exact ⟨Nat.le_refl _, ho⟩


/-! ### panic-freedom, offsets, dereferenceable fields -/

theorem nameaddr_never_panics (h : Nat) (b : Buf) (o : Nat) (pf : PFromBody) (hE : NaEntry b o pf)
    {o' : Nat} {e : Err} {pf' : PFromBody} (hr : parseNameAddrPVal h b o pf = (o', e, pf')) :
    NaOut b o' pf' ∧ (e = .moreBytes → NaEntry b o' pf') := parseNameAddrPVal_safe h b o pf hE hr

theorem callid_never_panics (b : Buf) (o : Nat) (st : PCallIDBody) (h : CiSafe b o st) :
    CiSafe b (parseCallIDVal b o st).1 (parseCallIDVal b o st).2.2 := parseCallIDVal_safe b o st h

theorem uint_never_panics (b : Buf) (o : Nat) (st : PUIntBody) (h : ClSafe b o st) :
    ClSafe b (parseUIntVal b o st).1 (parseUIntVal b o st).2.2 := parseUIntVal_safe b o st h

theorem clen_never_panics (b : Buf) (o : Nat) (st : PUIntBody) (h : ClSafe b o st) :
    ClOut b (parseCLenVal b o st).2.2 ∧
    ((parseCLenVal b o st).2.1 ≠ .numTooBig → ClSafe b (parseCLenVal b o st).1 (parseCLenVal b o st).2.2) ∧
    (parseCLenVal b o st).1 ≤ b.size := parseCLenVal_safe b o st h

theorem cseq_never_panics (b : Buf) (o : Nat) (st : PCSeqBody) (hfit : b.size ≤ 65535) (h : CsSafe b o st) :
    CsT b (parseCSeqVal b o st).1 (parseCSeqVal b o st).2.1 (parseCSeqVal b o st).2.2 :=
  parseCSeqVal_safe b o st hfit h

theorem contacts_never_panics (b : Buf) (o : Nat) (c : PContacts) (hfit : b.size ≤ 65535) (h : CtSafe b o c) :
    CtOut b (parseAllContactValues b o c).2.2 ∧
    ((parseAllContactValues b o c).2.1 = .moreBytes →
      CtSafe b (parseAllContactValues b o c).1 (parseAllContactValues b o c).2.2) ∧
    ((parseAllContactValues b o c).2.1 = .ok →
      CtIdle b (parseAllContactValues b o c).2.2 ∧ (parseAllContactValues b o c).1 ≤ b.size ∧
      CtIn b (parseAllContactValues b o c).1 (parseAllContactValues b o c).2.2) ∧
    (parseAllContactValues b o c).1 ≤ b.size := parseAllContactValues_safe b o c hfit h

theorem pais_never_panics (b : Buf) (o : Nat) (c : PPAIs) (hfit : b.size ≤ 65535) (h : PaSafe b o c) :
    PaOut b (parseAllPAIValues b o c).2.2 ∧
    ((parseAllPAIValues b o c).2.1 = .moreBytes → PaSafe b (parseAllPAIValues b o c).1 (parseAllPAIValues b o c).2.2) ∧
    ((parseAllPAIValues b o c).2.1 = .ok →
      PaIdle b (parseAllPAIValues b o c).2.2 ∧ (parseAllPAIValues b o c).1 ≤ b.size ∧
      PaIn b (parseAllPAIValues b o c).1 (parseAllPAIValues b o c).2.2) ∧
    (parseAllPAIValues b o c).1 ≤ b.size := parseAllPAIValues_safe b o c hfit h

theorem fline_never_panics (b : Buf) (o : Nat) (pl : PFLine) (hfit : b.size ≤ 65535) (h : FlSafe b o pl) :
    FlSafe b (parseFLine b o pl).1 (parseFLine b o pl).2.2 := parseFLine_safe b o pl hfit h

theorem hdrline_never_panics (b : Buf) (o : Nat) (h : Hdr) (hb : Option PHdrVals) (hfit : b.size ≤ 65535)
    (H : HlSafe b o (h, hb)) (hI : hlOK b o h hb) {o' : Nat} {e : Err} {h' : Hdr} {hb' : Option PHdrVals}
    (hr : parseHdrLine b o h hb = (o', e, h', hb')) :
    HlOut b (h', hb') ∧ ((e = .ok ∨ e = .moreBytes) → HlSafe b o' (h', hb')) ∧ (e = .ok → h'.state = .fin) ∧
      o' ≤ b.size ∧ (e = .empty → HlSafe b o' (h', hb')) := parseHdrLine_safe b o h hb hfit H hI hr

theorem headers_never_panics (b : Buf) (offs : Nat) (hl : HdrLst) (hb : Option PHdrVals) (hfit : b.size ≤ 65535)
    (hok1 : hlsOK b hl) (hok2 : hbOK b offs hb) (hpe : hlsPend hl hb) (ho : offs ≤ b.size)
    (H : HlsSafe b offs hl hb) :
    HlsOut b (parseHeaders b offs hl hb).2.2.1 ∧
    (∀ hv, (parseHeaders b offs hl hb).2.2.2 = some hv → HvFine b hv) ∧
    ((parseHeaders b offs hl hb).2.1 = .moreBytes ∨ (parseHeaders b offs hl hb).2.1 = .ok →
      HlsSafe b (parseHeaders b offs hl hb).1 (parseHeaders b offs hl hb).2.2.1 (parseHeaders b offs hl hb).2.2.2) ∧
    ((parseHeaders b offs hl hb).2.1 = .ok ∨ (parseHeaders b offs hl hb).2.1 = .moreBytes →
      offs ≤ (parseHeaders b offs hl hb).1 ∧ (parseHeaders b offs hl hb).1 ≤ b.size) ∧
    (parseHeaders b offs hl hb).1 ≤ b.size := parseHeaders_safe b offs hl hb hfit hok1 hok2 hpe ho H

/-- **one ParseSIPMsg call, any legitimate object** -/
theorem msg_never_panics (b : Buf) (o : Nat) (m : PSIPMsg) (flags : Nat) (hfit : b.size ≤ 65535)
    (hok : msgOK2 b o m) (H : MsgSafe b o m) :
    MsgFine b (parseSIPMsg b o m flags).2.2 ∧ (parseSIPMsg b o m flags).1 ≤ b.size ∧
    ((parseSIPMsg b o m flags).2.1 = .ok ∨ (parseSIPMsg b o m flags).2.1 = .moreBytes →
      o ≤ (parseSIPMsg b o m flags).1) ∧
    ((parseSIPMsg b o m flags).2.1 = .moreBytes →
      msgOK2 b (parseSIPMsg b o m flags).1 (parseSIPMsg b o m flags).2.2 ∧
      MsgSafe b (parseSIPMsg b o m flags).1 (parseSIPMsg b o m flags).2.2) := by
  have hT := parseSIPMsg_safe b o m flags hfit hok H
  refine ⟨hT.out, hT.le, hT.ge, fun hmb => ⟨?_, hT.more hmb⟩⟩
  rcases hp : parseSIPMsg b o m flags with ⟨o1, e1, m1⟩
  rw [hp] at hmb
  simp only at hmb
  subst hmb
  have := (parseSIPMsg_resume b #[] o m flags flags hok hfit hp).2.1
  simpa only [Array.append_empty] using this

/-- … in particular from any object produced by Init: any previous contents, ZEROED caller arrays of any capacity (or none),
    any start offset inside the buffer -/
theorem msg_never_panics_init (b : Buf) (o : Nat) (ho : o ≤ b.size) (m0 : PSIPMsg) (len kh kc : Nat)
    (hdrs cts : Option Unit) (flags : Nat) (hfit : b.size ≤ 65535) :
    let m := m0.init len (hdrs.map fun _ => Array.replicate kh {}) (cts.map fun _ => Array.replicate kc {})
    MsgFine b (parseSIPMsg b o m flags).2.2 ∧ (parseSIPMsg b o m flags).1 ≤ b.size ∧
    ((parseSIPMsg b o m flags).2.1 = .ok ∨ (parseSIPMsg b o m flags).2.1 = .moreBytes →
      o ≤ (parseSIPMsg b o m flags).1) :=
  let h := msg_never_panics b o _ flags hfit (msgOK2_init b o ho m0 len kh kc hdrs cts)
    (MsgSafe_init b o ho m0 len kh kc hdrs cts)
  ⟨h.1, h.2.1, h.2.2.1⟩

/-- **every chunk schedule** -/
theorem msg_schedule_never_panics (flags : Nat) (o : Nat) (m : PSIPMsg) (l : List Buf) (hg : Growing l)
    (hfit : ∀ x ∈ l, x.size ≤ 65535) (hne : l ≠ []) (h0 : ∀ b ∈ l.head?, msgOK2 b o m ∧ MsgSafe b o m) :
    ∃ b ∈ l, MsgQ b o (resumeRun (fun b o m => parseSIPMsg b o m flags) o m l) :=
  parseSIPMsg_schedule_safe flags o m l hg hfit hne h0

/-- **every chunk schedule, from Init** -/
theorem msg_schedule_never_panics_init (flags : Nat) (o : Nat) (m0 : PSIPMsg) (len kh kc : Nat)
    (hdrs cts : Option Unit) (l : List Buf) (hg : Growing l) (hfit : ∀ x ∈ l, x.size ≤ 65535) (hne : l ≠ [])
    (ho : ∀ b ∈ l.head?, o ≤ b.size) :
    let m := m0.init len (hdrs.map fun _ => Array.replicate kh {}) (cts.map fun _ => Array.replicate kc {})
    ∃ b ∈ l, MsgQ b o (resumeRun (fun b o m => parseSIPMsg b o m flags) o m l) :=
  parseSIPMsg_schedule_safe flags o _ l hg hfit hne
    (fun b hb => ⟨msgOK2_init b o (ho b hb) m0 len kh kc hdrs cts, MsgSafe_init b o (ho b hb) m0 len kh kc hdrs cts⟩)

/-- what `MsgFine` means for a caller: within the 65,535-byte limit, `Get` on the reported fields returns a slice
    of the buffer (never out of range) -/
theorem fine_deref (b : Buf) (m : PSIPMsg) (hfit : b.size ≤ 65535) (h : MsgFine b m) :
    m.pnc = false ∧
    (∃ x, m.fl.method.get? b = some x) ∧ (∃ x, m.fl.uri.get? b = some x) ∧ (∃ x, m.fl.version.get? b = some x) ∧
    (∃ x, m.fl.statusCode.get? b = some x) ∧ (∃ x, m.fl.reason.get? b = some x) ∧ (∃ x, m.body.get? b = some x) ∧
    (∀ k, k < m.hl.hdrs.size → (∃ x, m.hl.hdrs[k]!.name.get? b = some x) ∧ (∃ x, m.hl.hdrs[k]!.val.get? b = some x)) ∧
    (∀ j, j < m.hl.h.size → (∃ x, m.hl.h[j]!.name.get? b = some x) ∧ (∃ x, m.hl.h[j]!.val.get? b = some x)) ∧
    (∃ x, m.pv.from_.uri.get? b = some x) ∧ (∃ x, m.pv.from_.tag.get? b = some x) ∧
    (∃ x, m.pv.to.uri.get? b = some x) ∧ (∃ x, m.pv.to.tag.get? b = some x) ∧
    (∃ x, m.pv.callid.callID.get? b = some x) ∧ (∃ x, m.pv.cseq.cseq.get? b = some x) ∧
    (∃ x, m.pv.cseq.method.get? b = some x) ∧ (∃ x, m.pv.clen.sVal.get? b = some x) ∧
    (∀ k, k < m.pv.contacts.n → k < m.pv.contacts.vals.size →
      (∃ x, m.pv.contacts.vals[k]!.uri.get? b = some x) ∧ (∃ x, m.pv.contacts.vals[k]!.v.get? b = some x)) ∧
    (∀ k, k < m.pv.pais.n → k < m.pv.pais.vals.size → ∃ x, m.pv.pais.vals[k]!.uri.get? b = some x) := by
  have g := fun f hf => field_get?_some b f hf hfit
  refine ⟨h.pnc, g _ h.fl.method, g _ h.fl.uri, g _ h.fl.version, g _ h.fl.statusCode, g _ h.fl.reason, g _ h.body,
    (fun k hk => ⟨g _ (h.hl.all k hk).2.1, g _ (h.hl.all k hk).2.2⟩),
    (fun j hj => ⟨g _ (h.hl.hF j hj).2.1, g _ (h.hl.hF j hj).2.2⟩),
    g _ h.pv.from_.uri, g _ h.pv.from_.tag, g _ h.pv.to.uri, g _ h.pv.to.tag, g _ h.pv.callid.1, g _ h.pv.cseq.1,
    g _ h.pv.cseq.2.1, g _ h.pv.clen.1,
    (fun k h1 h2 => ⟨g _ (h.pv.contacts.stored k h1 h2).uri, g _ (h.pv.contacts.stored k h1 h2).v⟩),
    (fun k h1 h2 => g _ (h.pv.pais.stored k h1 h2).uri)⟩

/-- **isolation, static part** (regenerated from the source on every run) -/
theorem no_shared_state :
    Gen.pkgVarWrites = [] ∧ Gen.goStmts = [] ∧
    (Gen.imports.filter (fun s => s == "unsafe" || s == "sync" || s == "sync/atomic")) = [] :=
  ⟨Tie.noSharedWrites.1, Tie.noSharedWrites.2, Tie.noUnsafeOrSync⟩

/-! ### non-vacuity -/
example : (parseCallIDVal #[32, 97, 13] 1 {}).1 = 2 := by decide +kernel
/-- the hypotheses of `msg_never_panics` are satisfiable: every object produced by Init meets them -/
example (b : Buf) : msgOK2 b 0 (({} : PSIPMsg).init 0 none none) ∧ MsgSafe b 0 (({} : PSIPMsg).init 0 none none) :=
  ⟨msgOK2_init b 0 (Nat.zero_le _) {} 0 0 0 none none, MsgSafe_init b 0 (Nat.zero_le _) {} 0 0 0 none none⟩

/-! ### the remaining entry points (Proofs/SafeRest.lean) -/

/-- **ParseTokenParam never panics** (new or legitimately suspended parameter, any offset inside the buffer, any flags) and its fields stay inside the consumed bytes (Proofs/SafeRest.lean) -/
theorem tokparam_never_panics : type_of% @parseTokenParam_never_panics := @parseTokenParam_never_panics

/-- … the invariant form (`SrTpIn`: name/val/all end at or before the offset) -/
theorem tokparam_safe : type_of% @parseTokenParam_safe := @parseTokenParam_safe

/-- **ParseAllURIParams never panics** and keeps every stored parameter inside the consumed bytes -/
theorem uriparams_never_panics : type_of% @parseAllURIParams_safe := @parseAllURIParams_safe

/-- **ParseAllURIHdrs never panics** -/
theorem urihdrs_never_panics : type_of% @parseAllURIHdrs_safe := @parseAllURIHdrs_safe

/-- **URIParamsEq never panics** on buffers ≤ 65,535 bytes -/
theorem uriparams_eq_never_panics : type_of% @uriParamsEq_some := @uriParamsEq_some

/-- **URIHdrsEq never panics** -/
theorem urihdrs_eq_never_panics : type_of% @uriHdrsEq_some := @uriHdrsEq_some

/-- **URICmpShort never panics** on parsed URIs -/
theorem uricmp_short_never_panics : type_of% @uriCmpShort_some := @uriCmpShort_some

/-- **URICmp never panics** on parsed URIs -/
theorem uricmp_never_panics : type_of% @uriCmp_some := @uriCmp_some

/-- **URIParseCmp never panics** on any two byte strings ≤ 65,535 bytes -/
theorem uriparsecmp_never_panics : type_of% @uriParseCmp_some := @uriParseCmp_some

/-- **GetCallIDSig never panics** on any byte string -/
theorem callid_sig_never_panics : type_of% @getCallIDSig_safe := @getCallIDSig_safe

/-- **GetViaBrSig never panics** -/
theorem viabr_sig_never_panics : type_of% @getViaBrSig_safe := @getViaBrSig_safe

/-- **GetMsgSig never panics** on a message whose stored headers lie inside the buffer -/
theorem msgsig_never_panics : type_of% @getMsgSig_safe := @getMsgSig_safe

/-- … in particular after a completed ParseSIPMsg (hypothesis `hun`: the header list was unused before the parse) -/
theorem msgsig_after_parse_never_panics : type_of% @getMsgSig_after_parse := @getMsgSig_after_parse

/-! ### GetMsgSig after ANY history of Init / parse / Reset (no cleanliness hypothesis) (proved in `Sipsp.Proofs.SigCompose`) -/

/-- `getMsgSig_after_parse` without its hypothesis on the unused header slots: it follows from the invariant -/
theorem sig_never_panics : type_of% @Sipsp.sc_getMsgSig_safe := @Sipsp.sc_getMsgSig_safe

/-- **after ANY history** that left the object legitimate for the next call (`msgOK2`, `MsgSafe`: a resumed call on
    an extension of the same buffer; for the first call after Init / Reset they hold, see below), a successful
    ParseSIPMsg is followed by a panic-free GetMsgSig -/
theorem sig_never_panics_history : type_of% @Sipsp.sc_getMsgSig_safe_history := @Sipsp.sc_getMsgSig_safe_history

/-- the first call after Init: the two legitimacy hypotheses hold -/
theorem sig_never_panics_init : type_of% @Sipsp.sc_getMsgSig_safe_init := @Sipsp.sc_getMsgSig_safe_init

/-- **every chunk schedule from Init that ends with OK**: the result is what one call on one of the buffers (the one
    of the last call made) returns, `msg.Buf` lies inside that buffer, and GetMsgSig on it — or on any extension of
    it — does not panic -/
theorem sig_never_panics_schedule : type_of% @Sipsp.sc_getMsgSig_safe_schedule := @Sipsp.sc_getMsgSig_safe_schedule

/-- **any history, then Reset, then one successful call**: GetMsgSig does not panic (no legitimacy hypothesis left) -/
theorem sig_never_panics_reset : type_of% @Sipsp.sc_getMsgSig_safe_reset := @Sipsp.sc_getMsgSig_safe_reset

/-- **any history, then Reset, then any chunk schedule that ends with OK**: as `sc_getMsgSig_safe_schedule` -/
theorem sig_never_panics_reset_schedule : type_of% @Sipsp.sc_getMsgSig_safe_reset_schedule := @Sipsp.sc_getMsgSig_safe_reset_schedule

/-- **Reset after any history gives an Init object** (so every theorem stated "from Init" applies after Reset) … -/
theorem reset_after_history_is_init : type_of% @Sipsp.sc_reset_after_history := @Sipsp.sc_reset_after_history

/-! ### ContainsIP6 (proved in `Sipsp.Proofs.SafeRest`) -/

/-- **ContainsIP6 never panics** -/
theorem containsip6_never_panics : type_of% @Sipsp.containsIP6_safe := @Sipsp.containsIP6_safe

/-! ### the model-only loop guards are never taken (the functions return) (proved in `Sipsp.Proofs.AuditFixA`) -/

/-- **the guard of `viaBrLoop` holds on every input**: a MoreValues verdict of the parameter parser (new object,
    the Via-branch options) lies strictly after the start and inside the buffer -/
theorem viabr_guard_always_holds : type_of% @Sipsp.afa_viaBr_guard := @Sipsp.afa_viaBr_guard

/-- **`viaBrLoop` satisfies the recursion of the Go loop without the guard** (every offset inside the buffer) -/
theorem viabr_loop_unguarded : type_of% @Sipsp.viaBrLoop_unguarded := @Sipsp.viaBrLoop_unguarded

/-- **GetViaBrSig, every input: the model-only exit is never taken** (whatever it would return, the result is the same) -/
theorem viabr_exit_irrelevant : type_of% @Sipsp.getViaBrSig_exit_irrelevant := @Sipsp.getViaBrSig_exit_irrelevant

/-- **ParseTokenParam never returns the model-only verdict** (every buffer, offset, object, option set) -/
theorem tokparam_no_model_exit : type_of% @Sipsp.parseTokenParam_ne_lbug := @Sipsp.parseTokenParam_ne_lbug

/-- **ParseNameAddrPVal never returns the model-only verdict** (every header kind, buffer, offset, object) -/
theorem nameaddr_no_model_exit : type_of% @Sipsp.parseNameAddrPVal_ne_lbug := @Sipsp.parseNameAddrPVal_ne_lbug

/-- **ParseAllContactValues never takes the model-only exit**: every buffer, offset and object (in particular under
    `CtSafe`, the hypothesis of `contacts_never_panics`) -/
theorem contacts_no_model_exit : type_of% @Sipsp.parseAllContactValues_ne_lbug := @Sipsp.parseAllContactValues_ne_lbug

/-- **ParseAllPAIValues never takes the model-only exit** (every buffer, offset and object) -/
theorem pais_no_model_exit : type_of% @Sipsp.parseAllPAIValues_ne_lbug := @Sipsp.parseAllPAIValues_ne_lbug

/-- **ParseHdrLine never returns the model-only verdict** (every buffer, offset, header object, values object or nil) -/
theorem hdrline_no_model_exit : type_of% @Sipsp.parseHdrLine_ne_lbug := @Sipsp.parseHdrLine_ne_lbug

/-- **ParseHeaders never takes the model-only exit**, from every legitimate list / values object — the hypotheses
    of `headers_never_panics` minus the ones not needed (`HlsSafe`, the 65,535 limit): new, finished, or returned by an
    earlier call on a prefix of the buffer with MoreBytes (`hlsOK`, `hbOK`), and no stale suspended header in the slots
    still to be filled (`hlsPend`) -/
theorem headers_no_model_exit : type_of% @Sipsp.parseHeaders_ne_lbug := @Sipsp.parseHeaders_ne_lbug

/-- ParseHeaders on the list and values object of any Init message object (caller arrays of any capacity, or none),
    with or without a values object -/
theorem headers_no_model_exit_init : type_of% @Sipsp.parseHeaders_ne_lbug_init := @Sipsp.parseHeaders_ne_lbug_init

/-- **ParseSIPMsg never takes a model-only exit — one call, any legitimate object** (`msgOK2`, the legitimacy
    hypothesis of `msg_never_panics`; `MsgSafe` and the 65,535 limit are not needed here) -/
theorem msg_no_model_exit : type_of% @Sipsp.parseSIPMsg_ne_lbug := @Sipsp.parseSIPMsg_ne_lbug

/-- … from any object produced by Init: any previous contents, caller arrays of any capacity (or none), any start
    offset inside the buffer, any flags -/
theorem msg_no_model_exit_init : type_of% @Sipsp.parseSIPMsg_ne_lbug_init := @Sipsp.parseSIPMsg_ne_lbug_init

/-- **every chunk schedule**: the chain of resumed ParseSIPMsg calls never ends with the model-only verdict (the
    hypotheses are those of `msg_schedule_never_panics`) -/
theorem msg_schedule_no_model_exit : type_of% @Sipsp.parseSIPMsg_schedule_ne_lbug := @Sipsp.parseSIPMsg_schedule_ne_lbug

/-- **every chunk schedule, from Init** -/
theorem msg_schedule_no_model_exit_init : type_of% @Sipsp.parseSIPMsg_schedule_ne_lbug_init := @Sipsp.parseSIPMsg_schedule_ne_lbug_init

/-- **after ANY history of Init / parse calls (complete, suspended, failed) / Reset, then Reset**: the next
    ParseSIPMsg call, at any offset inside any buffer, never takes a model-only exit (`ScReach`: the reachability
    predicate of `sig_never_panics_history`; Reset after any history is an Init object) -/
theorem msg_no_model_exit_reset : type_of% @Sipsp.parseSIPMsg_ne_lbug_reset := @Sipsp.parseSIPMsg_ne_lbug_reset

/-- **ParseAllURIParams never takes the model-only exit**: every buffer, every offset inside it, every option word,
    every clean list (unused slots zero: new lists of any capacity, lists after Reset, lists returned by earlier
    calls — see `plOK_new`, `plOK_reset`, `parseAllURIParams_post`) -/
theorem uriparams_no_model_exit : type_of% @Sipsp.parseAllURIParams_ne_lbug := @Sipsp.parseAllURIParams_ne_lbug

/-- **ParseAllURIHdrs never takes the model-only exit** (as `parseAllURIParams_ne_lbug`; `hlClean_new`, `hlClean_reset`,
    `parseAllURIHdrs_post`) -/
theorem urihdrs_no_model_exit : type_of% @Sipsp.parseAllURIHdrs_ne_lbug := @Sipsp.parseAllURIHdrs_ne_lbug

/-- new lists of any capacity and lists after Reset qualify -/
theorem uri_lists_qualify : type_of% @Sipsp.afa_lists_qualify := @Sipsp.afa_lists_qualify

/-- **ParseAllURIParams, every chunk schedule (option off)**: the chain of resumed calls never ends with the
    model-only verdict (hypotheses of `parseAllURIParams_schedule`) -/
theorem uriparams_schedule_no_model_exit : type_of% @Sipsp.parseAllURIParams_schedule_ne_lbug := @Sipsp.parseAllURIParams_schedule_ne_lbug

/-- **ParseAllURIHdrs, every chunk schedule (option off)** -/
theorem urihdrs_schedule_no_model_exit : type_of% @Sipsp.parseAllURIHdrs_schedule_ne_lbug := @Sipsp.parseAllURIHdrs_schedule_ne_lbug

/-! ### GetMsgSig = completeness guard + core (library repair F24) (proved in `Sipsp.Proofs.SigGuard`) -/

/-- before completion (any other state: new, suspended in the first line / header block / body, failed) there is no
    signature, nothing is read, nothing can panic -/
theorem sig_empty_before_completion : type_of% @Sipsp.getMsgSig_incomplete := @Sipsp.getMsgSig_incomplete

/-- on a completely parsed message (final state, or the "Content-Length required but missing" end state) the signature
    function is its core -/
theorem sig_is_core_when_complete : type_of% @Sipsp.getMsgSig_complete := @Sipsp.getMsgSig_complete

/-- **no panic in ANY state**: the only way `GetMsgSig` can panic is through its core on a completed message -/
theorem sig_panics_only_via_core : type_of% @Sipsp.getMsgSig_panics_only_via_core := @Sipsp.getMsgSig_panics_only_via_core

/-! ### GetMsgSig never panics, whatever verdict the parse ended with (proved in `Sipsp.Proofs.SigGuardSafe`) -/

/-- **GetMsgSig never panics, whatever state the parse is in** — one legitimate call on an object with ANY history
    (`ScReach`), ANY verdict: OK, MoreBytes, NoCLen, any error -/
theorem sig_never_panics_any_verdict : type_of% @Sipsp.sig_never_panics_any_verdict := @Sipsp.sig_never_panics_any_verdict

/-- **the first call after Init** (any previous contents of the object, cleared caller arrays of any capacity or
    none): no legitimacy hypothesis left -/
theorem sig_never_panics_any_verdict_init : type_of% @Sipsp.sig_never_panics_any_verdict_init := @Sipsp.sig_never_panics_any_verdict_init

/-- **any history, then Reset, then one call** with any verdict -/
theorem sig_never_panics_any_verdict_after_reset : type_of% @Sipsp.sig_never_panics_any_verdict_after_reset := @Sipsp.sig_never_panics_any_verdict_after_reset

/-- **every chunk schedule from Init, whatever verdict the chain ends with** (OK, MoreBytes — the message is still
    incomplete when the data at hand ends —, NoCLen, any error): GetMsgSig on the object does not panic — against
    the buffer of the last call made, against every extension of it, in particular against the last (longest) buffer
    of the schedule — and gives the same result on all of them -/
theorem sig_never_panics_any_verdict_schedule : type_of% @Sipsp.sig_never_panics_any_verdict_schedule := @Sipsp.sig_never_panics_any_verdict_schedule

/-- **"empty" unless the parse completed**: after a verdict other than OK and NoCLen — MoreBytes or any error — the
    signature function answers "empty" (empty signature, no panic), whatever buffer it is given. Any call, any object. -/
theorem sig_empty_unless_complete : type_of% @Sipsp.sig_empty_unless_complete := @Sipsp.sig_empty_unless_complete

/-- **verdict / state relation of ParseSIPMsg** — EVERY call: any object (new, suspended, finished, failed), buffer,
    offset, flags -/
theorem verdict_state_relation : type_of% @Sipsp.sg_verdict_state := @Sipsp.sg_verdict_state

/-- the final state `fin` is reached exactly with the verdict OK -/
theorem state_fin_iff_ok : type_of% @Sipsp.sg_fin_iff_ok := @Sipsp.sg_fin_iff_ok

/-- MoreBytes is the verdict of exactly the calls that leave the object suspended (first line / header block / body) -/
theorem state_suspended_iff_morebytes : type_of% @Sipsp.sg_suspended_iff := @Sipsp.sg_suspended_iff

/-- the error state is reached exactly with the error verdicts (everything but OK, NoCLen, MoreBytes) -/
theorem state_err_iff_error : type_of% @Sipsp.sg_err_iff := @Sipsp.sg_err_iff

/-- a call on an object in an end state (final, NoCLen, error) answers "bug" and leaves the error state -/
theorem call_on_finished_object : type_of% @Sipsp.sg_terminal_call := @Sipsp.sg_terminal_call

/-- **(2) the core is safe in the `noCLen` end state**: after a legitimate call that answered "Content-Length required
    but missing" the body of GetMsgSig behind its guard does not panic -/
theorem sig_core_safe_after_noclen : type_of% @Sipsp.sg_core_safe_noCLen := @Sipsp.sg_core_safe_noCLen

/-! ### GetMsgSig after any schedule, on the LAST buffer of the schedule and every extension of it (proved in `Sipsp.Proofs.AuditFixC`) -/

/-- **[C04] every chunk schedule from Init, whatever verdict the chain ends with (OK, MoreBytes, NoCLen, any error),
    stated on the last buffer `B` of the schedule** (`l.getLast? = some B`): GetMsgSig on the final object does not
    panic against `B`, nor against any extension of `B`, with the same result; in the completed states
    `len(msg.Buf) ≤ len(B)` -/
theorem sig_never_panics_last : type_of% @Sipsp.afc_sig_never_panics_last := @Sipsp.afc_sig_never_panics_last

/-- **[C04] every chunk schedule from any legitimate object, whatever verdict the chain ends with, stated on the last
    buffer `B` of the schedule** -/
theorem sig_never_panics_last_from : type_of% @Sipsp.afc_sig_never_panics_last_from := @Sipsp.afc_sig_never_panics_last_from

end Sipsp.C04
