/-
  Property C04 — crash-free, terminating, offset-sane on arbitrary bytes; isolation.

  What is proved here, for ALL buffers / offsets / objects (no size bound):
  * **termination**: every function of the model is a total Lean function (none is `partial`; the
    recursions are structural or well-founded on `b.size - i`); the only artefact, the progress test of the
    generic loop driver, is shown never to fire: `progress_*` for all seven loop bodies (Call-ID, integer,
    CSeq, name-addr, token parameter, header line, quoted string). These are also the termination arguments
    of the corresponding Go `for i < len(buf)` loops.
  * **offset sanity** for ParseCallIDVal: `offs ≤ o' ≤ len(buf)` whatever the verdict
    (`callid_offs_sane`; the integer parser has the same shape), and for the lexical layer (`lws_offs_sane`).
  * **isolation (static part)**: the regenerated source facts show no write to a package-level variable
    outside init(), no goroutine, no `unsafe`/`sync` import (`no_shared_state`); in the model every result
    is a function of the call's explicit arguments. The "running concurrently" clause itself (Go memory
    model, scheduler) is outside any executable model: partial. The check additionally compares a
    16-goroutine run with a sequential run of the same calls (testing, not proof).
  NOT yet proved: panic-freedom (`pnc = false`) and offset/field ranges for the remaining parsers and the
  pure functions; they are covered by the hostile-input correspondence (the model predicts `PANIC` exactly
  where Go panics) and the safety oracle.
-/
import Sipsp.Proofs.ProgressNA
import Sipsp.Tie

namespace Sipsp.C04
open Sipsp

theorem progress_callid : Progress ciMachine := ci_progress
theorem progress_uint : Progress clMachine := cl_progress
theorem progress_cseq : Progress csMachine := cs_progress
theorem progress_nameaddr (h : Nat) : Progress (naMachine h) := na_progress h
theorem progress_tokparam (flags offs : Nat) : Progress (tpMachine flags offs) := tp_progress flags offs
theorem progress_hdrline : Progress hlMachine := hl_progress
theorem progress_skipquoted : Progress sqMachine := sq_progress

/-- the lexical layer never moves backwards and never leaves the buffer -/
theorem lws_offs_sane (b : Buf) (i flags : Nat) {n crl : Nat} {e : Err}
    (h : skipLWS b i flags = (n, crl, e)) : i ≤ n ∧ (i ≤ b.size → n ≤ b.size) := skipLWS_range b i flags h

/-- a `lwsStd` step keeps the offset inside `[i, len]`, provided the end-of-header code returns `n+crl` -/
theorem lwsStd_offs {σ : Type} (b : Buf) (i : Nat) (st : σ) (eoh : σ → Nat → Nat → Nat → Nat × Err × σ)
    (mb : σ → σ) (hi : i ≤ b.size) (heoh : ∀ s j n crl, (eoh s j n crl).1 = n + crl) :
    match lwsStd b i st eoh mb with
    | .cont i' _ => i ≤ i' ∧ i' ≤ b.size
    | .done o _ _ => i ≤ o ∧ o ≤ b.size := by
  unfold lwsStd
  rcases hsk : skipLWS b i 0 with ⟨n, crl, e⟩
  have hr := skipLWS_range b i 0 hsk
  cases e <;> simp only
  case eoh =>
    have := skipLWS_eoh_range b i 0 hsk (by decide)
    rw [heoh]; omega
  all_goals exact ⟨hr.1, hr.2 hi⟩

theorem ciEOH_fst (s : PCallIDBody) (j n crl : Nat) : (ciEOH s j n crl).1 = n + crl := by
  unfold ciEOH; cases s.state <;> rfl

theorem clEOH_fst (s : PUIntBody) (j n crl : Nat) : (clEOH s j n crl).1 = n + crl := by
  unfold clEOH; cases s.state <;> rfl

/-- **ParseCallIDVal: the returned offset lies inside the buffer and not before the offset passed in** -/
theorem callid_offs_sane (b : Buf) (o : Nat) (st : PCallIDBody) (ho : o ≤ b.size) :
    o ≤ (parseCallIDVal b o st).1 ∧ (parseCallIDVal b o st).1 ≤ b.size := by
  unfold parseCallIDVal
  split
  · exact ⟨Nat.le_refl _, ho⟩
  · apply runLoop_inv ciMachine b (fun j _ => o ≤ j ∧ j ≤ b.size) (fun r => o ≤ r.1 ∧ r.1 ≤ b.size)
    · intro i c s i' s' hb hP hs
      refine ⟨fun hlt => ?_, fun hn => absurd (ci_progress b i c s i' s' hb hs) hn⟩
      change ciStep b i c s = .cont i' s' at hs
      have hlt' := get?_lt hb
      unfold ciStep at hs
      split at hs
      · have key : ∀ s1 : PCallIDBody, lwsStd b i s1 ciEOH id = .cont i' s' → o ≤ i' ∧ i' ≤ b.size := by
          intro s1 h1
          have := lwsStd_offs b i s1 ciEOH id hP.2 ciEOH_fst
          rw [h1] at this; simp only at this; omega
        cases hst : s.state <;> rw [hst] at hs <;> simp only at hs <;>
          first | exact key _ hs | (cases hs; omega)
      · cases hst : s.state <;> rw [hst] at hs <;> simp only at hs <;> cases hs <;> omega
    · intro i c s o' e s' hb hP hs
      change ciStep b i c s = .done o' e s' at hs
      have hlt' := get?_lt hb
      unfold ciStep at hs
      split at hs
      · have key : ∀ s1 : PCallIDBody, lwsStd b i s1 ciEOH id = .done o' e s' → o ≤ o' ∧ o' ≤ b.size := by
          intro s1 h1
          have := lwsStd_offs b i s1 ciEOH id hP.2 ciEOH_fst
          rw [h1] at this; simp only at this; omega
        cases hst : s.state <;> rw [hst] at hs <;> simp only at hs <;>
          first | exact key _ hs | cases hs
      · cases hst : s.state <;> rw [hst] at hs <;> simp only at hs <;> cases hs <;> (simp only; omega)
    · intro i s _ hP; exact hP
    · exact ⟨Nat.le_refl _, ho⟩

/-- **isolation, static part** (regenerated from the source on every run) -/
theorem no_shared_state :
    Gen.pkgVarWrites = [] ∧ Gen.goStmts = [] ∧
    (Gen.imports.filter (fun s => s == "unsafe" || s == "sync" || s == "sync/atomic")) = [] :=
  ⟨Tie.noSharedWrites.1, Tie.noSharedWrites.2, Tie.noUnsafeOrSync⟩

/-! ### non-vacuity -/
example : (parseCallIDVal #[32, 97, 13] 1 {}).1 = 2 := by decide +kernel

end Sipsp.C04
