/-
  Property C08 — the first line is decomposed exactly: request vs reply, tokens, status, method.

  Proved here, for buffers up to the documented 65,535 bytes, any start offset, any line end (CR LF, lone CR, lone
  LF — whatever `skipCRLF` accepts at the end of the line) and tokens of any length:
    * `request_line` : a line `method SP uri SP version EOL` (three non-empty runs of bytes other than SP/HT/CR/LF,
      separated by single spaces, not starting with `SIP/2.0 SP`) is reported as a request with exactly those three
      tokens; the numeric method is `GetMethodNo(method)` (C16 proves that this is the case-sensitive table lookup
      with unknown names mapped to 'other'); the returned offset is the one after the line end;
    * `status_line` : a line `SIP/2.0 SP d d d SP reason EOL` — version compared case-insensitively
      (`version_prefix_iff`) — is reported as a reply whose status is the value of the three digits and whose reason
      is the rest of the line without the terminator, possibly empty;
    * `reject_*` : the method followed by HT / CR / LF instead of SP, two spaces after the method, a status that is
      not three digits followed by SP: rejected with BadChar, never mis-split.
  The ≥ 14 available bytes are ParseFLine's own look-ahead rule (shorter input gives MoreBytes: C03).
  SOUNDNESS for ALL inputs (`Sipsp.Proofs.FLineSound`; every buffer ≤ 65,535 bytes, every offset, new and resumed
  objects) — the "rejected rather than mis-split" clause:
    * `sound`: if ParseFLine returns OK then the text at the offset IS a request line or a status line of the grammar
      above and the object is exactly the one of `request_line` / `status_line`; `ok_iff`, `ok_iff_at`: OK ⇔ grammar;
      `classify`: OK / MoreBytes / BadChar are the only verdicts on a new object, BadChar exactly when the text is
      decided not to be a line; `short_input` (fewer than 14 bytes: MoreBytes, never OK);
    * `never_missplit`: after OK the reported spans tile the line, each next span starts exactly one SP after the
      previous one, no SP / HT / CR / LF inside a span (reason: no CR / LF), the line end follows directly, the fields of
      the other shape are untouched; `request_unique`, `status_unique`, `request_not_status`: exactly one reading;
    * `status_value` (100·d0 + 10·d1 + d2), `request_iff`, `reply_of_status`; `reject_after_version` (a fourth token);
    * `sound_resumed`, `resumed_eq_oneshot`: the same after any number of MoreBytes / append / call-again rounds.
  `request_iff`, `reply_iff`: `Request()` is true exactly for the request lines and false exactly for the status lines,
  code `000` included. This was a genuine defect found by the sceptical review of these theorems (F22): `Request()` was
  `Status == 0`, so the accepted status line `SIP/2.0 000 x` was reported as a request (wrong `Method()`, a signature
  for a reply); repaired in the library (07883de: a reply always carries its status-code text), the model follows.
  Observed (true of the Go code): request tokens are ANY bytes other than SP / HT / CR / LF and the request's version
  is not compared with `SIP/2.0`.
  Model tied to parse_fline.go by the correspondence check.
-/
import Sipsp.Proofs.FLineSpec
import Sipsp.Proofs.EqFold
import Sipsp.Proofs.FLineSound

namespace Sipsp.C08
open Sipsp

theorem request_line (b : Buf) (o m u v e crl : Nat) (hfit : b.size ≤ 65535) (hlen : ¬ b.size - o < 14)
    (hnr : (bcPrefix sipVerSP (b.extract o (o + 8)).toList).2 = false)
    (hm : TokenRun b o m) (hm0 : o < m) (hsp1 : b[m]? = some 32)
    (hu : TokenRun b (m + 1) u) (hu0 : m + 1 < u) (hsp2 : b[u]? = some 32)
    (hv : TokenRun b (u + 1) v) (hv0 : u + 1 < v) {c : UInt8} (hend : b[v]? = some c) (hc : c = 13 ∨ c = 10)
    (heol : skipCRLF b v = (e, crl, .ok)) :
    parseFLine b o {} =
      (e, .ok, { method := ⟨o, m - o⟩, uri := ⟨m + 1, u - (m + 1)⟩, version := ⟨u + 1, v - (u + 1)⟩,
                 methodNo := getMethodNo (b.extract o m), state := .fin }) :=
  parseFLine_request b o m u v e crl hfit hlen hnr hm hm0 hsp1 hu hu0 hsp2 hv hv0 hend hc heol

/-- … and such a result is a request (status 0) -/
theorem request_line_is_request (b : Buf) (o m u v e crl : Nat) (hfit : b.size ≤ 65535) (hlen : ¬ b.size - o < 14)
    (hnr : (bcPrefix sipVerSP (b.extract o (o + 8)).toList).2 = false)
    (hm : TokenRun b o m) (hm0 : o < m) (hsp1 : b[m]? = some 32)
    (hu : TokenRun b (m + 1) u) (hu0 : m + 1 < u) (hsp2 : b[u]? = some 32)
    (hv : TokenRun b (u + 1) v) (hv0 : u + 1 < v) {c : UInt8} (hend : b[v]? = some c) (hc : c = 13 ∨ c = 10)
    (heol : skipCRLF b v = (e, crl, .ok)) : (parseFLine b o {}).2.2.request = true := by
  rw [parseFLine_request b o m u v e crl hfit hlen hnr hm hm0 hsp1 hu hu0 hsp2 hv hv0 hend hc heol]
  rfl

theorem status_line (b : Buf) (o v e crl l : Nat) (hfit : b.size ≤ 65535) (hlen : ¬ b.size - o < 14)
    (hpre : bcPrefix sipVerSP (b.extract o (o + 8)).toList = (l, true))
    {d0 d1 d2 : UInt8} (h0 : b[o + 8]? = some d0) (h1 : b[o + 9]? = some d1) (h2 : b[o + 10]? = some d2)
    (hd0 : isDigit d0 = true) (hd1 : isDigit d1 = true) (hd2 : isDigit d2 = true)
    (hsp : b[o + 11]? = some 32)
    (hr : LineRun b (o + 12) v) (hv0 : o + 12 ≤ v) {c : UInt8} (hend : b[v]? = some c) (hc : c = 13 ∨ c = 10)
    (heol : skipCRLF b v = (e, crl, .ok)) :
    parseFLine b o {} =
      (e, .ok, { version := ⟨o, 7⟩, statusCode := ⟨o + 8, 3⟩,
                 status := (d0.toNat - 48) * 100 + (d1.toNat - 48) * 10 + (d2.toNat - 48),
                 reason := ⟨o + 12, v - (o + 12)⟩, state := .fin }) :=
  parseFLine_reply b o v e crl l hfit hlen hpre h0 h1 h2 hd0 hd1 hd2 hsp hr hv0 hend hc heol

/-- the version test: the eight bytes equal `SIP/2.0 SP` up to letter case -/
theorem version_prefix_iff (s : List UInt8) (hs : s.length = 8) :
    (bcPrefix sipVerSP s).2 = true ↔ ∀ k (hk : k < 8), eqFold (s[k]'(by omega)) (sipVerSP[k]'(by simpa [sipVerSP] using hk)) = true := by
  match s, hs with
  | [s0, s1, s2, s3, s4, s5, s6, s7], _ =>
    unfold bcPrefix
    simp only [sipVerSP, List.length_cons, List.length_nil, Nat.lt_irrefl, ↓reduceIte, prefixAux]
    constructor
    · intro h k hk
      repeat' (split at h)
      all_goals first
        | (cases h; done)
        | skip
      rcases k with _ | _ | _ | _ | _ | _ | _ | _ | k <;> first | assumption | omega
    · intro h
      have e0 := h 0 (by decide); have e1 := h 1 (by decide); have e2 := h 2 (by decide); have e3 := h 3 (by decide)
      have e4 := h 4 (by decide); have e5 := h 5 (by decide); have e6 := h 6 (by decide); have e7 := h 7 (by decide)
      simp only [List.getElem_cons_zero, List.getElem_cons_succ] at e0 e1 e2 e3 e4 e5 e6 e7
      simp only [e0, e1, e2, e3, e4, e5, e6, e7, ↓reduceIte]

theorem reject_bad_separator (b : Buf) (o m : Nat) (hlen : ¬ b.size - o < 14)
    (hnr : (bcPrefix sipVerSP (b.extract o (o + 8)).toList).2 = false)
    (hm : TokenRun b o m) (hm0 : o ≤ m) {c : UInt8} (hsep : b[m]? = some c) (hc : c = 9 ∨ c = 13 ∨ c = 10) :
    (parseFLine b o {}).2.1 = .badChar ∧ (parseFLine b o {}).1 = m :=
  parseFLine_reject_sep1 b o m hlen hnr hm hm0 hsep hc

theorem reject_double_space (b : Buf) (o m : Nat) (hfit : b.size ≤ 65535) (hlen : ¬ b.size - o < 14)
    (hnr : (bcPrefix sipVerSP (b.extract o (o + 8)).toList).2 = false)
    (hm : TokenRun b o m) (hm0 : o < m) (hsp1 : b[m]? = some 32) (hsp2 : b[m + 1]? = some 32) :
    (parseFLine b o {}).2.1 = .badChar :=
  parseFLine_reject_empty_uri b o m hfit hlen hnr hm hm0 hsp1 hsp2

theorem reject_bad_status (b : Buf) (o l : Nat) (hlen : ¬ b.size - o < 14)
    (hpre : bcPrefix sipVerSP (b.extract o (o + 8)).toList = (l, true))
    {d0 d1 d2 sp : UInt8} (h0 : b[o + 8]? = some d0) (h1 : b[o + 9]? = some d1) (h2 : b[o + 10]? = some d2)
    (hsp : b[o + 11]? = some sp)
    (hbad : sp ≠ 32 ∨ isDigit d0 = false ∨ isDigit d1 = false ∨ isDigit d2 = false) :
    (parseFLine b o {}).2.1 = .badChar :=
  parseFLine_reject_status b o l hlen hpre h0 h1 h2 hsp hbad

/-! ### non-vacuity -/
example : (parseFLine "INVITE sip:a@b SIP/2.0\r\nX".toUTF8.data 0 {}).2.1 = Err.ok := by decide +kernel
example : (parseFLine "sip/2.0 486 Busy Here\nX".toUTF8.data 0 {}).2.2.status = 486 := by decide +kernel
example : (parseFLine "INVITE  sip:a@b SIP/2.0\r\nX".toUTF8.data 0 {}).2.1 = Err.badChar := by decide +kernel

/-! ### soundness for ALL inputs: accepted => a line of the grammar, never mis-split (proved in `Sipsp.Proofs.FLineSound`) -/

/-- **soundness (C08, converse of `parseFLine_request` / `parseFLine_reply`)**: if ParseFLine says OK on a new object
    then the consumed text `b[o, e)` is an instance of one of the two grammars and the reported object is exactly
    the one made of its components -/
theorem sound : type_of% @Sipsp.parseFLine_sound := @Sipsp.parseFLine_sound

/-- **OK iff grammar**, verdict only -/
theorem ok_iff : type_of% @Sipsp.fline_ok_iff := @Sipsp.fline_ok_iff

/-- **OK iff grammar**: on a new object ParseFLine returns OK with next-line offset `e` iff the text at `o` is a request
    line or a status line ending at `e` (both predicates contain the 14-byte look-ahead rule) -/
theorem ok_iff_at : type_of% @Sipsp.fline_ok_iff_at := @Sipsp.fline_ok_iff_at

/-- **never mis-split**: whenever the verdict is OK on a new object, the reported spans tile the line.
    Request shape: method, uri, version are three non-empty spans without SP / HT / CR / LF, the method starts at
    `o`, each next span starts exactly one byte (an SP) after the previous one, the line end follows the version
    directly, and the reply fields stay untouched.
    Reply shape: the version is the 7 bytes at `o` (no SP / HT / CR / LF) followed by one SP, the status code is
    three digits followed by one SP, the reason is a possibly empty span without CR / LF directly followed by the
    line end, and the request fields stay untouched. -/
theorem never_missplit : type_of% @Sipsp.fline_never_missplit := @Sipsp.fline_never_missplit

/-- fewer than 14 bytes available: MoreBytes, never OK, nothing touched -/
theorem short_input : type_of% @Sipsp.fs_short := @Sipsp.fs_short

/-- the reported status is the decimal value of the three digits: between 0 and 999, and 0 only for `000` -/
theorem status_value : type_of% @Sipsp.fs_status_value := @Sipsp.fs_status_value

/-- **request vs reply**: after an OK verdict on a new object `Request()` (status = 0) is true exactly for the request
    lines — and for the status lines whose code is `000` (accepted by ParseFLine; see the examples below) -/
theorem request_iff : type_of% @Sipsp.fline_request_iff := @Sipsp.fline_request_iff

/-- a non-zero status means a status line, and the status is the value of its digits -/
theorem reply_of_status : type_of% @Sipsp.fline_reply_of_status := @Sipsp.fline_reply_of_status

/-- **classification**: on a new object, for every buffer and offset, exactly these three things can happen —
    OK and the text at `o` is a line of the grammar; MoreBytes and the buffer was exhausted (or is shorter than the
    14-byte look-ahead); BadChar and the text at `o` is not a line of the grammar -/
theorem classify : type_of% @Sipsp.fline_classify := @Sipsp.fline_classify

/-- on a new object ParseFLine answers OK, MoreBytes or BadChar, nothing else (in particular never NoCR: the line
    end is only looked for at a CR / LF or at the end of the buffer) -/
theorem verdicts : type_of% @Sipsp.fs_verdicts := @Sipsp.fs_verdicts

/-- `method SP uri SP version` followed by SP or HT instead of the line end (e.g. a fourth space-separated token):
    BadChar at that byte -/
theorem reject_after_version : type_of% @Sipsp.fs_reject_after_version := @Sipsp.fs_reject_after_version

theorem request_unique : type_of% @Sipsp.fs_req_unique := @Sipsp.fs_req_unique

theorem status_unique : type_of% @Sipsp.fs_status_unique := @Sipsp.fs_status_unique

/-- the two grammars exclude each other -/
theorem request_not_status : type_of% @Sipsp.fs_req_not_status := @Sipsp.fs_req_not_status

/-- **soundness for resumed objects**: an OK verdict — also when it comes after any number of MoreBytes rounds — means
    that the text at the original offset `o` of the final buffer is a line of one of the two grammars, and the
    object holds exactly its components -/
theorem sound_resumed : type_of% @Sipsp.parseFLine_sound_resumed := @Sipsp.parseFLine_sound_resumed

/-- resuming gives what a single call on the whole buffer gives (from the L2 theorem `parseFLine_resume`) -/
theorem resumed_eq_oneshot : type_of% @Sipsp.fs_resumed_eq := @Sipsp.fs_resumed_eq

/-! ### request vs reply after the repair of Request() (proved in `Sipsp.Proofs.FLineSound`) -/

/-- … and `Request()` is false exactly for the status lines, whatever their code (000 included) -/
theorem reply_iff : type_of% @Sipsp.fline_reply_iff := @Sipsp.fline_reply_iff

end Sipsp.C08
