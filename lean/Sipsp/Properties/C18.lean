/-
  Property C18 — relocating a parsed URI and its derived views preserve every component.

  `WF u` describes what ParseURI produces (C14): every present component (`Offs ≠ 0`) starts at or after
  the scheme start, the components are ordered, and everything fits the 16-bit addressing limit.
  Proved for ALL such URIs, ALL target offsets and ALL span lengths:
  * `adjust_refused`: a span shorter than the URI is refused, the structure is unchanged, no panic;
  * `adjust_moves`: a span that holds the URI is accepted (no panic) and every present component keeps its
    length and its distance to the URI start (so it denotes the same bytes when the target holds the text);
  * `short_long_same_start`, `long_truncate_eq_short`, `truncate_exact`.
  The link to the parser (Proofs/UriLink.lean, on top of the C14 layout theorem): EVERY URI accepted by ParseURI
  (sip:, sips:, tel:; input ≤ 65,535 bytes) satisfies `WF u len(b)` and the length AdjustOffs computes is exactly
  len(b) (`parsed_wf`, `parsed_len`), hence — without any hypothesis on the URI —
  * `relocate_parsed`: parse, then AdjustOffs onto ANY span inside the 16-bit addressing range (Offs + Len < 65536)
    with Len ≥ len(b): accepted, no panic, type and port number
    kept, and in any buffer holding the same text at the new offset every one of the seven relocated fields reads the
    same bytes as before;
  * `refuse_parsed`: ANY span with Len < len(b) is refused, structure unchanged, no panic;
  * `views_sip`, `views_tel`, `short_prefix_long`: Long / Short / Flat / Truncate of a parsed URI: no panic, both start
    at the scheme, the short view is a byte prefix of the long view, Long after Truncate = Short, Long = the whole
    input when no trailing component is present-but-empty.
  History: the tel: case of the link was not provable at first — defect F21 (`tel:a:b@c`), repaired in /repo 8e3585d.
  `refuse_wrapping_span`: a span whose end offset does not fit in 16 bits (Offs + Len ≥ 65536) is refused, structure
  unchanged, no panic. This is the library repair 1a8b02b (finding F23, found by the sceptical review of the oracles:
  the property quantifies over target offsets 0..65,535-len AND span lengths up to len+k, the generators kept the end
  below 65,536): before it `AdjustOffs {65510,26}` on a 25-byte URI panicked AFTER rewriting every offset, and
  `{65530,25}` returned true with Pass.Offs wrapped to 0 (the "absent" marker).
  No theorem says that a relocated URI is again well formed for a SECOND relocation (the relocation oracle relocates
  twice; seeded change C11d is caught that way).
  SEQUENCES of operations (`Sipsp.Proofs.UriSeq`): `seq_parsed_wf` — every URI ParseURI accepts satisfies a structural
  invariant `USWf` (scheme non-empty, present components in buffer order behind it, the last one ending below 65,536, tel:
  shape); `wf_truncate`, `wf_adjust`: Truncate and AdjustOffs (accepted or refused, any 16-bit span) preserve it and never
  panic; `seq_adjust_eq`: AdjustOffs on such a URI accepts a span EXACTLY when its end does not wrap and its length is at
  least the extent of the last PRESENT component, the result is then the relocated URI, otherwise nothing changes;
  `uri_ops_never_panic`, `seq_ops_never_panic`, `seq_ops_every_step`: ANY finite sequence of Truncate / AdjustOffs / Long /
  Short / Flat calls on a parsed URI never panics and every theorem above applies at every step; `seq_adjust_adjust`,
  `seq_adjust_back`, `seq_parsed_relocate_twice`: relocations compose and relocating back restores the URI exactly;
  `seq_truncate_adjust`, `seq_truncate_len`, `seq_parsed_truncate_adjust`: after Truncate the threshold is the extent up to the
  port (not the original length); `seq_adjust_views`, `seq_long_eq`, `seq_short_eq`, `seq_short_prefix_long`,
  `seq_truncate_long`: the views commute with relocation, Long after Truncate = Short. Observed (true of the code, pinned):
  AdjustOffs measures up to the last PRESENT component, Long / Flat up to the last NON-EMPTY one — for `sip:h;` (6 bytes)
  Long() is `sip:h` and a 5-byte span is refused.
-/
import Sipsp.Model.URI
import Sipsp.Proofs.UriLink
import Sipsp.Proofs.UriSeq

namespace Sipsp.C18
open Sipsp

/-- the components after the scheme, in order -/
def comps (u : PsipURI) : List PField := [u.user, u.pass, u.host, u.port, u.params, u.headers]

/-- real URI length as computed by AdjustOffs (end of the last present component) -/
def ulenOf (u : PsipURI) : Nat := (comps u).foldl (fun a f => ulenStep a u.scheme.offs f) u.scheme.len

/-- well-formed w.r.t. a URI occupying `[start, start+L)`: present components lie inside it, in order -/
structure WF (u : PsipURI) (L : Nat) : Prop where
  lim : u.scheme.offs + L < 65536
  sch : u.scheme.len ≤ L
  inside : ∀ f ∈ comps u, f.offs ≠ 0 → u.scheme.offs ≤ f.offs ∧ f.offs + f.len ≤ u.scheme.offs + L
  ulen : ulenOf u ≤ L

/-- one component moved by `delta = offs - start` -/
def moved (f : PField) (start offs : Nat) : PField :=
  if f.offs != 0 then { f with offs := f.offs - start + offs } else f

theorem adjField_eq (f : PField) (start offs last L : Nat) (h0 : f.offs ≠ 0 → start ≤ f.offs ∧ f.offs + f.len ≤ start + L)
    (hl : offs + L < 65536) :
    (adjField f start offs last).1 = moved f start offs ∧
    (f.offs ≠ 0 → (adjField f start offs last).2 = f.offs - start + offs + f.len) ∧
    (f.offs = 0 → (adjField f start offs last).2 = last) := by
  unfold adjField moved
  by_cases hz : f.offs = 0
  · simp [hz]
  · have := h0 hz
    have hne : (f.offs != 0) = true := by simpa using hz
    simp only [hne, if_true, trunc16]
    have h1 : (f.offs + 65536 - start + offs) % 65536 = f.offs - start + offs := by
      have : f.offs + 65536 - start + offs = (f.offs - start + offs) + 65536 := by omega
      rw [this, Nat.add_mod_right]; exact Nat.mod_eq_of_lt (by omega)
    rw [h1]
    refine ⟨rfl, fun _ => ?_, fun h => absurd h hz⟩
    exact Nat.mod_eq_of_lt (by omega)

/-- **a span too short to hold the URI is refused without touching the structure** -/
theorem adjust_refused (u : PsipURI) (np : PField) (h : ulenOf u > np.len) :
    u.adjustOffs np = (false, u, false) := by
  unfold PsipURI.adjustOffs
  simp only
  split
  · rfl
  · split
    · rfl
    · have : (List.foldl (fun a f => ulenStep a u.scheme.offs f) u.scheme.len
          [u.user, u.pass, u.host, u.port, u.params, u.headers]) > np.len := h
      rw [if_pos this]

/-- the sum of the component lengths never exceeds a span that holds the whole URI -/
def sumLen (u : PsipURI) : Nat :=
  u.scheme.len + u.user.len + u.pass.len + u.host.len + u.port.len + u.params.len + u.headers.len

/-- **a span that holds the URI: accepted, no panic, every component moved by exactly `np.offs - start`** -/
theorem adjust_moves (u : PsipURI) (np : PField) (L : Nat) (hwf : WF u L) (hfit : L ≤ np.len)
    (hsum : sumLen u ≤ np.len) (hlim : np.offs + np.len < 65536) :
    let r := u.adjustOffs np
    r.1 = true ∧ r.2.2 = false ∧
    r.2.1.scheme = { u.scheme with offs := np.offs } ∧
    r.2.1.user = moved u.user u.scheme.offs np.offs ∧ r.2.1.pass = moved u.pass u.scheme.offs np.offs ∧
    r.2.1.host = moved u.host u.scheme.offs np.offs ∧ r.2.1.port = moved u.port u.scheme.offs np.offs ∧
    r.2.1.params = moved u.params u.scheme.offs np.offs ∧ r.2.1.headers = moved u.headers u.scheme.offs np.offs ∧
    r.2.1.portNo = u.portNo ∧ r.2.1.uriType = u.uriType := by
  intro r
  have hin := hwf.inside
  have hu := hin u.user (by simp [comps])
  have hp := hin u.pass (by simp [comps])
  have hh := hin u.host (by simp [comps])
  have hpo := hin u.port (by simp [comps])
  have hpa := hin u.params (by simp [comps])
  have hhd := hin u.headers (by simp [comps])
  have hl : np.offs + L < 65536 := by omega
  have hs1 : ¬ (trunc16 (u.scheme.len + u.user.len + u.pass.len + u.host.len + u.port.len + u.params.len +
      u.headers.len) > np.len) := by
    have : trunc16 (sumLen u) ≤ sumLen u := Nat.mod_le _ _
    unfold sumLen at this hsum; omega
  have hs2 : ¬ (List.foldl (fun a f => ulenStep a u.scheme.offs f) u.scheme.len
      [u.user, u.pass, u.host, u.port, u.params, u.headers] > np.len) := by
    have := hwf.ulen; unfold ulenOf comps at this; omega
  have hs0 : ¬ (trunc16 (np.offs + np.len) < np.offs) := by
    have : trunc16 (np.offs + np.len) = np.offs + np.len := Nat.mod_eq_of_lt hlim
    omega
  simp only [r, PsipURI.adjustOffs, if_neg hs0, if_neg hs1, if_neg hs2]
  have e1 := adjField_eq u.user u.scheme.offs np.offs np.offs L hu hl
  have e2 := adjField_eq u.pass u.scheme.offs np.offs (adjField u.user u.scheme.offs np.offs np.offs).2 L hp hl
  have e3 := adjField_eq u.host u.scheme.offs np.offs
    (adjField u.pass u.scheme.offs np.offs (adjField u.user u.scheme.offs np.offs np.offs).2).2 L hh hl
  generalize hq1 : adjField u.user u.scheme.offs np.offs np.offs = q1 at *
  generalize hq2 : adjField u.pass u.scheme.offs np.offs q1.2 = q2 at *
  generalize hq3 : adjField u.host u.scheme.offs np.offs q2.2 = q3 at *
  have e4 := adjField_eq u.port u.scheme.offs np.offs q3.2 L hpo hl
  generalize hq4 : adjField u.port u.scheme.offs np.offs q3.2 = q4 at *
  have e5 := adjField_eq u.params u.scheme.offs np.offs q4.2 L hpa hl
  generalize hq5 : adjField u.params u.scheme.offs np.offs q4.2 = q5 at *
  have e6 := adjField_eq u.headers u.scheme.offs np.offs q5.2 L hhd hl
  generalize hq6 : adjField u.headers u.scheme.offs np.offs q5.2 = q6 at *
  refine ⟨trivial, ?_, trivial, e1.1, e2.1, e3.1, e4.1, e5.1, e6.1, trivial, trivial⟩
  -- no panic: the last end offset is inside the span
  have hend : trunc16 (np.offs + np.len) = np.offs + np.len := Nat.mod_eq_of_lt hlim
  simp only [hend, decide_eq_false_iff_not, Nat.not_lt]
  -- each "last" is either np.offs or an end of a component inside [np.offs, np.offs + L]
  have b1 : q1.2 ≤ np.offs + L := by
    by_cases hz : u.user.offs = 0
    · rw [e1.2.2 hz]; omega
    · rw [e1.2.1 hz]; have := hu hz; omega
  have b2 : q2.2 ≤ np.offs + L := by
    by_cases hz : u.pass.offs = 0
    · rw [e2.2.2 hz]; exact b1
    · rw [e2.2.1 hz]; have := hp hz; omega
  have b3 : q3.2 ≤ np.offs + L := by
    by_cases hz : u.host.offs = 0
    · rw [e3.2.2 hz]; exact b2
    · rw [e3.2.1 hz]; have := hh hz; omega
  have b4 : q4.2 ≤ np.offs + L := by
    by_cases hz : u.port.offs = 0
    · rw [e4.2.2 hz]; exact b3
    · rw [e4.2.1 hz]; have := hpo hz; omega
  have b5 : q5.2 ≤ np.offs + L := by
    by_cases hz : u.params.offs = 0
    · rw [e5.2.2 hz]; exact b4
    · rw [e5.2.1 hz]; have := hpa hz; omega
  have b6 : q6.2 ≤ np.offs + L := by
    by_cases hz : u.headers.offs = 0
    · rw [e6.2.2 hz]; exact b5
    · rw [e6.2.1 hz]; have := hhd hz; omega
  omega

/-- **the short view starts where the long view starts** (both start at the scheme) -/
theorem short_long_same_start (u : PsipURI) : u.short.1.len = 0 ∨ u.short.1.offs = u.long.1.offs := by
  unfold PsipURI.short PsipURI.long setFrom
  repeat' split
  all_goals first | (left; rfl) | (right; rfl) | (left; simp [PField.set, trunc16]) | (right; simp [PField.set])

/-- **Truncate removes exactly parameters and headers** -/
theorem truncate_exact (u : PsipURI) :
    u.truncate = { u with params := {}, headers := {} } := rfl

/-- after Truncate the long view stops where the short view of the original stops, when there is no
    password-only tail -/
theorem long_truncate_eq_short (u : PsipURI) (hp : u.port.len > 0 ∨ u.host.len > 0) :
    u.truncate.long = u.short := by
  unfold PsipURI.truncate PsipURI.long PsipURI.short setFrom
  simp only [Nat.lt_irrefl, if_false]
  rcases hp with h | h
  · simp [h]
  · by_cases hpo : u.port.len > 0
    · simp [hpo]
    · simp [hpo, h]

/-! ### non-vacuity: "sip:a@b" -/
example : WF { uriType := 1, scheme := ⟨0, 4⟩, user := ⟨4, 1⟩, host := ⟨6, 1⟩ } 7 := by
  refine ⟨by decide, by decide, ?_, by decide⟩
  intro f hf hz
  simp only [comps, List.mem_cons, List.not_mem_nil, or_false] at hf
  rcases hf with h | h | h | h | h | h <;> subst h <;> first | (exact absurd rfl hz) | (simp)

/-! ### the link to ParseURI: no hypothesis on the URI (Proofs/UriLink.lean) -/

/-- **every URI accepted by ParseURI is well formed for AdjustOffs** (any scheme): `ULWF u len(b)`, scheme at 0, computed length = len(b), absent components are zero -/
theorem parsed_good : type_of% @ul_parsed_good := @ul_parsed_good

/-- the length AdjustOffs computes for an accepted URI is exactly len(b) (all schemes, incl. tel: with a password before the number) -/
theorem parsed_len : type_of% @ul_parsed_len := @ul_parsed_len

/-- **parse, then relocate onto any span at least as long as the URI**: accepted, no panic, type / port number kept, every relocated field reads the same bytes in any buffer holding the text at the new offset -/
theorem relocate_parsed : type_of% @ul_relocate_parsed := @ul_relocate_parsed

/-- **any span shorter than the URI is refused**: result false, structure unchanged, no panic (all schemes) -/
theorem refuse_parsed : type_of% @ul_refuse := @ul_refuse

/-- **views of a parsed sip: / sips: URI** -/
theorem views_sip : type_of% @ul_views_sip := @ul_views_sip

/-- **views of a parsed tel: URI** (the number, reported as user, in the host's place) -/
theorem views_tel : type_of% @ul_views_tel := @ul_views_tel

/-- all schemes: **the short view is a prefix of the long view**, both are prefixes of the input, no panics, Long after Truncate = Short -/
theorem short_prefix_long : type_of% @ul_short_prefix_long := @ul_short_prefix_long

/-- the hypothesis `WF` of `adjust_refused` / `adjust_moves` above holds for every accepted URI, with `L = len(b)` -/
theorem parsed_wf (b : Buf) (hfit : b.size ≤ 65535) (hacc : (parseURI b {}).1 = .none) :
    WF (parseURI b {}).2.2.1 b.size := by
  have h := ul_parsed_wf b hfit hacc
  exact ⟨h.lim, h.sch, h.inside, h.ulen⟩

/-! ### spans that end past the 16-bit range (proved in `Sipsp.Proofs.UriLink`) -/

/-- a span that ends past the 16-bit range (its end offset wraps) is refused, nothing is changed, no panic
    (library repair 1a8b02b; before it the code panicked after rewriting the offsets, or wrapped them) -/
theorem refuse_wrapping_span : type_of% @Sipsp.ul_adjust_wrap_refused := @Sipsp.ul_adjust_wrap_refused

/-! ### SEQUENCES of operations on one parsed URI: closure of the invariant under Truncate / AdjustOffs / views, composition of relocations, Truncate then AdjustOffs, views commute with relocation (proved in `Sipsp.Proofs.UriSeq`) -/

/-- EXPORT C18 — **(1) the invariant implies the well-formedness hypothesis of the AdjustOffs theorems** (`ULWF`, field for field
    `C18.WF`), with `L` = the length AdjustOffs computes -/
theorem wf_ulwf : type_of% @Sipsp.USWf.ulwf := @Sipsp.USWf.ulwf

/-- EXPORT C18 — **AdjustOffs on a URI that satisfies the invariant, for EVERY span**: it never panics; the span is accepted
    exactly when its end stays inside the 16-bit range and its length is at least `ulLen u` (the end of the last
    PRESENT component, relative to the scheme); then the result is the URI moved to `np.Offs`; otherwise nothing is
    changed -/
theorem seq_adjust_eq : type_of% @Sipsp.us_adjust_eq := @Sipsp.us_adjust_eq

/-- EXPORT C18 — **(1) closure under AdjustOffs, accepted or refused**: whatever the span, the call does not panic and the URI it
    leaves behind satisfies the invariant, with the same computed length -/
theorem wf_adjust : type_of% @Sipsp.USWf.adjust := @Sipsp.USWf.adjust

/-- EXPORT C18 — **(1) closure under Truncate**; the computed length can only shrink -/
theorem wf_truncate : type_of% @Sipsp.USWf.truncate := @Sipsp.USWf.truncate

/-- EXPORT C18 — **(4) Long() in closed form**: no panic; it starts at the scheme and ends where the last non-empty component ends -/
theorem seq_long_eq : type_of% @Sipsp.us_long_eq := @Sipsp.us_long_eq

/-- EXPORT C18 — **(4) Short() in closed form**: no panic; it starts at the scheme and ends at the port (if not empty, else at the host) -/
theorem seq_short_eq : type_of% @Sipsp.us_short_eq := @Sipsp.us_short_eq

/-- EXPORT C18 — (4) the short view is a prefix of the long view: same start, not longer; neither panics -/
theorem seq_short_prefix_long : type_of% @Sipsp.us_short_prefix_long := @Sipsp.us_short_prefix_long

/-- EXPORT C18 — **(4) Long after Truncate = Short**, for every URI that satisfies the invariant (also tel: with a password) -/
theorem seq_truncate_long : type_of% @Sipsp.us_truncate_long := @Sipsp.us_truncate_long

/-- EXPORT C18 — **(2) AdjustOffs to `np1` (accepted), then to `np2`**: the second call is accepted exactly when `np2` would have been
    accepted directly; then the result (every component, the flags) is that of the direct call; otherwise the second
    call changes nothing -/
theorem seq_adjust_adjust : type_of% @Sipsp.us_adjust_adjust := @Sipsp.us_adjust_adjust

/-- EXPORT C18 — **(2) relocating back onto the original position restores the original URI exactly** -/
theorem seq_adjust_back : type_of% @Sipsp.us_adjust_back := @Sipsp.us_adjust_back

/-- EXPORT C18 — **(3) after Truncate the span only has to hold what is left**: AdjustOffs on the truncated URI never panics and
    accepts a span (inside the 16-bit range) exactly when its length is at least `ulLen u.truncate` — the end of the
    last PRESENT component among scheme … port, NOT the original length — and then the result is the truncated URI
    moved; its Long() and Short() are the Short() of the original, moved -/
theorem seq_truncate_adjust : type_of% @Sipsp.us_truncate_adjust := @Sipsp.us_truncate_adjust

/-- EXPORT C18 — (3) the threshold after Truncate and the views: Short() (= Long() after Truncate) is never longer than the
    threshold, and they are EQUAL unless the port is present but empty (`sip:h:;x`: threshold 6, Short() = 5) -/
theorem seq_truncate_len : type_of% @Sipsp.us_truncate_len := @Sipsp.us_truncate_len

/-- EXPORT C18 — **(4) the views commute with an accepted AdjustOffs**: Long / Short of the relocated URI are the Long /
    Short of the original with the new start (same length, no panic); Truncate after AdjustOffs = AdjustOffs (same
    span, also accepted) after Truncate; and when the buffer `b2` holds at `np.Offs` the bytes that `b` holds at the
    old position, Flat and `Get` on every one of the seven fields return in `b2` what they return for the original
    in `b`, without panic -/
theorem seq_adjust_views : type_of% @Sipsp.us_adjust_views := @Sipsp.us_adjust_views

/-- EXPORT C18 — **(1) ANY finite sequence of Truncate / AdjustOffs (any 16-bit spans, accepted or refused) / Long / Short / Flat
    calls on a URI that satisfies the invariant never panics**, and the URI at the end satisfies the invariant -/
theorem seq_ops_never_panic : type_of% @Sipsp.us_ops_never_panic := @Sipsp.us_ops_never_panic

/-- EXPORT C18 — **(1) … and at EVERY step** (after the first `n` calls, for every `n`): no call has panicked, the invariant holds, so
    the hypotheses of the C18 theorems about AdjustOffs (`ULWF u (ulLen u)`, field for field `C18.WF`, and
    `ulSum u ≤ ulLen u`) hold for the structure as it is then, and Long / Short do not panic on it -/
theorem seq_ops_every_step : type_of% @Sipsp.us_ops_every_step := @Sipsp.us_ops_every_step

/-- EXPORT C18 — **(1) what ParseURI establishes**: every URI accepted by ParseURI (sip:, sips:, tel:; input of at most
    65,535 bytes) satisfies the invariant `USWf`, its scheme is at offset 0 and the length AdjustOffs computes is
    len(b) -/
theorem seq_parsed_wf : type_of% @Sipsp.us_parsed_wf := @Sipsp.us_parsed_wf

/-- EXPORT C18 — **(1) ANY finite sequence of Truncate / AdjustOffs (to any 16-bit spans, accepted or refused) / Long /
    Short / Flat calls on a parsed URI never panics, and every theorem of C18 applies at every step**: for every
    accepted input `b` (≤ 65,535 bytes), every list of calls whose only obligations are those of `usPre` (the span is
    a pair of 16-bit numbers; the buffer given to Flat holds the span Long() reports) and every `n`: after the first
    `n` calls nothing has panicked, the structure satisfies the invariant, hence `ULWF` (= `C18.WF`) with its own
    computed length and `ulSum ≤ ulLen` — the hypotheses of `adjust_moves` / `adjust_refused` — and the computed
    length never exceeds len(b) -/
theorem uri_ops_never_panic : type_of% @Sipsp.uri_ops_never_panic := @Sipsp.uri_ops_never_panic

/-- EXPORT C18 — **(2) parse, relocate, relocate again**: for an accepted input and two spans that hold it (inside the
    16-bit range), AdjustOffs to the first and then to the second gives exactly what AdjustOffs to the second gives
    directly (so `C18.relocate_parsed` describes the result: every component reads the original bytes), and going
    back to a span at offset 0 gives back the parsed URI itself -/
theorem seq_parsed_relocate_twice : type_of% @Sipsp.us_parsed_relocate_twice := @Sipsp.us_parsed_relocate_twice

/-- EXPORT C18 — **(3) parse, Truncate, relocate**: the truncated URI is accepted by exactly the spans (inside the 16-bit
    range) of at least `ulLen u.truncate` bytes — at most len(b), at least the length of Short(), equal to it unless
    the port is present but empty — and Long / Short of the result are the Short of the parsed URI at the new offset -/
theorem seq_parsed_truncate_adjust : type_of% @Sipsp.us_parsed_truncate_adjust := @Sipsp.us_parsed_truncate_adjust

end Sipsp.C18
