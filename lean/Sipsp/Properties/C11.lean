/-
  Property C11 — results are invariant under where in the buffer the text starts.

  Setting: the text `t` is parsed once at its own start (buffer `t`, offset `o`) and once after `k = pre.size`
  arbitrary junk bytes (buffer `pre ++ t`, offset `k + o`), up to the 16-bit addressing limit
  (`pre.size + t.size ≤ 65535`). `shRes k sh r` is the result `r` with the offset moved by `k` and the object
  translated by `sh`; the translations `shCi` / `shCl` / `shCs` move exactly the fields that are set in the object's
  state by `k` (`shF`), leave numbers, method number, state and the panic flag unchanged, and are the identity on a
  new object.

  Proved for ALL `pre`, `t`, offsets and objects (new, suspended or finished):
  * lexical layer: `shift_skipCRLF`, `shift_skipLWS` (every flag value), `shift_skipToken`, `shift_skipTokenDelim`,
    `shift_skipWS`: same verdict / line-end length, offset moved by exactly `k`;
  * `shift_generic`: any loop parser whose steps commute with the translation (for states satisfying an invariant
    kept by continuing steps) commutes as a whole — the theorem every instance below goes through;
  * `shift_callid`, `shift_uint` (= ParseExpiresVal), `shift_clen` (including its "number too big" exit, whose offset
    points back at the value), `shift_cseq` (number, method number and verdict unchanged; the three fields and the
    returned offset — also the one pointing back at an oversized number — moved by `k`); `*_new` corollaries for new
    objects; `field_bytes`: a moved field of the moved buffer holds the same bytes.
  * `shift_fline_new`, `shift_fline_request`, `shift_fline_reason`: ParseFLine from a new object (request line or
    status line, valid or not) and from an object suspended in the method / URI / version / line end / reason phrase:
    same verdict, status and method number; offset and the fields of the line moved by `k` (`shReq` / `shRpl`).
  * `shift_nameaddr`, `shift_nameaddr_new`, `shift_nameaddr_exact`, `shift_nameaddr_reported`, `shift_nameaddr_bytes`,
    `shift_nameaddr_resume`: ParseNameAddrPVal (= ParseFromVal / ParseOneContact / To / PAI values; all 33 states, every
    header kind; new, suspended and finished objects): same verdict, offset + k, URI and value moved by k, name / tag /
    parameters moved unless absent, numbers / flags / kind unchanged, the moved fields denote the same bytes; the "offset 0
    = parameter list not started" sentinel never misfires (positions are ≥ 1 once the value has started). After an ERROR
    verdict the internal restart offset `soffs` (never reported) is stale and is the only component not moved
    (`shResNa`; a `decide` example in Proofs/ShiftNA.lean shows the plain form is false there).
  * contact / identity value lists (`Sipsp.Proofs.ShiftLists`, re-exported below): ParseAllContactValues /
    ParseAllPAIValues for every legitimate resumption state.
  * token parameters and URI lists (`Sipsp.Proofs.ShiftParams`): `shift_skipquoted`; `shift_tokparam_any` (EVERY
    verdict, every flag combination incl. the end-of-input and space-terminator options, all 11 states: offset + k,
    same verdict, same state, value field moved), `shift_tokparam` / `shift_tokparam_new` (the plain equation with the
    translated object `shTp k` on every non-error verdict; `shift_tokparam_obs` on error verdicts compares everything
    but the `all` / `name` spans, which the code leaves half-set there: `a\x01` vs `\x01` behind junk — callers never
    read them and the list wrappers zero the element), `shift_tokparam_resumable` (a suspended object is legitimate
    again, so the theorems apply to resumed calls); `shift_uriparams`, `shift_urihdrs` (plain equations for every
    verdict; stored elements, element in progress moved; counts, type masks unchanged), `*_new`, `*_reset`,
    `*_resumable`.
  * **header line, header block, whole message** (`Sipsp.Proofs.ShiftMsg`): `shift_hdrline`, `shift_hdrline_exact`,
    `shift_hdrline_resume` (ParseHdrLine with any legitimate header / values pair — new, or returned with MoreBytes —,
    every typed value parser included: offset + k, same verdict, name / value / every typed value moved),
    `shift_headers` (stored headers, first-of-type shortcuts, count, type flags), `shift_msg`, `shift_msg_exact`,
    `shift_msg_ok`, `shift_msg_init`, `shift_msg_resume` (ParseSIPMsg, every flag combination, objects in every
    non-terminal state, one call from Init and resumed calls: first line, header list, values, body, message start,
    Buf / RawMsg extents moved by k; counts, flags, numbers, state unchanged; `msg_init_legitimate`,
    `msg_translation_scalars`). Exact after non-error verdicts; after an error verdict equal up to the never-reported
    restart offset of the name-addr value being parsed (a `decide` test shows the plain form is false there).
    Observed while proving: the "zero field = not set" convention is not position independent for the header NAME in
    two intermediate error states (`:x` at offset 0 leaves name ⟨0,0⟩, behind junk ⟨k,0⟩ — an empty name after an
    error verdict, never a reported value); a status line `SIP/2.0 000 x` has Status 0, so Request() is true for it.
  NOT proved: calls on already-terminated objects (an error is terminal, C12 covers re-use after Reset); relocation of
  parsed URIs is C18 (AdjustOffs).
-/
import Sipsp.Proofs.Shift
import Sipsp.Proofs.ShiftFLine
import Sipsp.Proofs.ShiftNA
import Sipsp.Proofs.ShiftLists
import Sipsp.Proofs.ShiftParams
import Sipsp.Proofs.ShiftMsg

namespace Sipsp.C11
open Sipsp

theorem shift_skipCRLF (pre t : Buf) (i : Nat) :
    skipCRLF (pre ++ t) (pre.size + i) = (pre.size + (skipCRLF t i).1, (skipCRLF t i).2.1, (skipCRLF t i).2.2) :=
  skipCRLF_shift pre t i

theorem shift_skipLWS (pre t : Buf) (i flags : Nat) :
    skipLWS (pre ++ t) (pre.size + i) flags =
      (pre.size + (skipLWS t i flags).1, (skipLWS t i flags).2.1, (skipLWS t i flags).2.2) :=
  skipLWS_shift pre t i flags

theorem shift_skipToken (pre t : Buf) (i : Nat) : skipToken (pre ++ t) (pre.size + i) = pre.size + skipToken t i :=
  skipToken_shift pre t i

theorem shift_skipTokenDelim (pre t : Buf) (i : Nat) (d : UInt8) :
    skipTokenDelim (pre ++ t) (pre.size + i) d = pre.size + skipTokenDelim t i d := skipTokenDelim_shift pre t i d

theorem shift_skipWS (pre t : Buf) (i : Nat) : skipWS (pre ++ t) (pre.size + i) = pre.size + skipWS t i :=
  skipWS_shift pre t i

theorem shift_generic {σ : Type} (m : Machine σ) (pre t : Buf) (sh : σ → σ) (Inv : Nat → σ → Prop)
    (hinv : ∀ i c st i' st', t[i]? = some c → Inv i st → m.step t i c st = .cont i' st' → i < i' → Inv i' st')
    (hstep : ∀ i c st, t[i]? = some c → Inv i st →
      m.step (pre ++ t) (pre.size + i) c (sh st) = shStep pre.size sh (m.step t i c st))
    (heob : ∀ i st, t[i]? = none → Inv i st →
      m.eob (pre ++ t) (pre.size + i) (sh st) = shRes pre.size sh (m.eob t i st))
    (i : Nat) (st : σ) (hI : Inv i st) :
    runLoop m (pre ++ t) (pre.size + i) (sh st) = shRes pre.size sh (runLoop m t i st) :=
  runLoop_shift m pre t sh Inv hinv hstep heob i st hI

theorem field_bytes (pre t : Buf) (f : PField) (hin : f.inside t.size) (hfit : pre.size + t.size ≤ 65535) :
    (shF pre.size f).get? (pre ++ t) = f.get? t := get?_shiftF pre t f hin hfit

theorem shift_callid (pre t : Buf) (o : Nat) (st : PCallIDBody) (hS : CiSafe t o st)
    (hfit : pre.size + t.size ≤ 65535) :
    parseCallIDVal (pre ++ t) (pre.size + o) (shCi pre.size st) =
      shRes pre.size (shCi pre.size) (parseCallIDVal t o st) := parseCallIDVal_shift pre t o st hS hfit

/-- … from a new object: the same verdict, the offset moved by `k`, and a finished value moved by `k` -/
theorem shift_callid_new (pre t : Buf) (o : Nat) (ho : o ≤ t.size) (hfit : pre.size + t.size ≤ 65535) :
    parseCallIDVal (pre ++ t) (pre.size + o) {} = shRes pre.size (shCi pre.size) (parseCallIDVal t o {}) :=
  parseCallIDVal_shift pre t o {} ⟨ho, Nat.zero_le _, PField.inside_zero _, rfl⟩ hfit

theorem shift_uint (pre t : Buf) (o : Nat) (st : PUIntBody) (hS : ClSafe t o st) (hfit : pre.size + t.size ≤ 65535) :
    parseUIntVal (pre ++ t) (pre.size + o) (shCl pre.size st) =
      shRes pre.size (shCl pre.size) (parseUIntVal t o st) := parseUIntVal_shift pre t o st hS hfit

theorem shift_clen (pre t : Buf) (o : Nat) (st : PUIntBody) (hS : ClSafe t o st) (hfit : pre.size + t.size ≤ 65535) :
    parseCLenVal (pre ++ t) (pre.size + o) (shCl pre.size st) =
      shRes pre.size (shCl pre.size) (parseCLenVal t o st) := parseCLenVal_shift pre t o st hS hfit

theorem shift_clen_new (pre t : Buf) (o : Nat) (ho : o ≤ t.size) (hfit : pre.size + t.size ≤ 65535) :
    parseCLenVal (pre ++ t) (pre.size + o) {} = shRes pre.size (shCl pre.size) (parseCLenVal t o {}) :=
  parseCLenVal_shift pre t o {} ⟨ho, Nat.zero_le _, PField.inside_zero _, rfl⟩ hfit

theorem shift_cseq (pre t : Buf) (o : Nat) (st : PCSeqBody) (hS : CsSafe t o st) (hP : CsPos o st)
    (hfit : pre.size + t.size ≤ 65535) :
    parseCSeqVal (pre ++ t) (pre.size + o) (shCs pre.size st) =
      shRes pre.size (shCs pre.size) (parseCSeqVal t o st) := parseCSeqVal_shift pre t o st hS hP hfit

theorem shift_cseq_new (pre t : Buf) (o : Nat) (ho : o ≤ t.size) (hfit : pre.size + t.size ≤ 65535) :
    parseCSeqVal (pre ++ t) (pre.size + o) {} = shRes pre.size (shCs pre.size) (parseCSeqVal t o {}) :=
  parseCSeqVal_shift pre t o {}
    ⟨ho, Nat.zero_le _, PField.inside_zero _, PField.inside_zero _, PField.inside_zero _, rfl⟩
    ⟨fun hh => absurd rfl hh, fun hh => by rcases hh with hh | hh <;> cases hh⟩ hfit

/-- what the translation does to a finished CSeq object: numbers unchanged, the three fields moved by `k` -/
theorem shift_cseq_meaning (k : Nat) (st : PCSeqBody) (hf : st.state = .fin) :
    (shCs k st).cseqNo = st.cseqNo ∧ (shCs k st).methodNo = st.methodNo ∧ (shCs k st).state = .fin ∧
    (shCs k st).cseq = ⟨st.cseq.offs + k, st.cseq.len⟩ ∧ (shCs k st).method = ⟨st.method.offs + k, st.method.len⟩ ∧
    (shCs k st).v = ⟨st.v.offs + k, st.v.len⟩ ∧ (shCs k st).pnc = st.pnc := by
  unfold shCs; rw [hf]; exact ⟨rfl, rfl, rfl, rfl, rfl, rfl, rfl⟩

theorem shift_fline_new (pre t : Buf) (o : Nat) (ho : o ≤ t.size) (hfit : pre.size + t.size ≤ 65535) :
    parseFLine (pre ++ t) (pre.size + o) {} =
      shRes pre.size (if (bcPrefix sipVerSP (t.extract o (o + 8)).toList).2 then shRpl pre.size else shReq pre.size)
        (parseFLine t o {}) := parseFLine_shift_new pre t o ho hfit

theorem shift_fline_request (pre t : Buf) (o : Nat) (pl : PFLine)
    (hst : pl.state = .reqMethod ∨ pl.state = .reqURI ∨ pl.state = .reqVer ∨ pl.state = .crlf)
    (hS : FlSafe t o pl) (hfit : pre.size + t.size ≤ 65535) :
    parseFLine (pre ++ t) (pre.size + o) (shReq pre.size pl) = shRes pre.size (shReq pre.size) (parseFLine t o pl) :=
  parseFLine_shift_req pre t o pl hst hS hfit

theorem shift_fline_reason (pre t : Buf) (o : Nat) (pl : PFLine) (hst : pl.state = .rplReason)
    (hS : FlSafe t o pl) (hfit : pre.size + t.size ≤ 65535) :
    parseFLine (pre ++ t) (pre.size + o) (shRpl pre.size pl) = shRes pre.size (shRpl pre.size) (parseFLine t o pl) :=
  parseFLine_shift_rpl pre t o pl hst hS hfit

/-- **ParseNameAddrPVal is position independent** (every header kind, any legitimate object) -/
theorem shift_nameaddr (h : Nat) (pre t : Buf) (o : Nat) (pf : PFromBody) (hfit : pre.size + t.size ≤ 65535)
    (hE : NaShiftEntry t o pf) :
    parseNameAddrPVal h (pre ++ t) (pre.size + o) (shNa pre.size pf) =
      shResNa pre.size pf (parseNameAddrPVal h t o pf) := parseNameAddrPVal_shift h pre t o pf hfit hE

theorem shift_nameaddr_new (h : Nat) (pre t : Buf) (o : Nat) (ho : o ≤ t.size) (hfit : pre.size + t.size ≤ 65535) :
    parseNameAddrPVal h (pre ++ t) (pre.size + o) {} = shResNa pre.size {} (parseNameAddrPVal h t o {}) :=
  parseNameAddrPVal_shift_new h pre t o ho hfit

/-- the exact form (whole object translated) when the verdict is OK / MoreValues / MoreBytes -/
theorem shift_nameaddr_exact (h : Nat) (pre t : Buf) (o : Nat) (pf : PFromBody) (hfit : pre.size + t.size ≤ 65535)
    (hE : NaShiftEntry t o pf) (hw : naWrote (parseNameAddrPVal h t o pf).2.1 = true) :
    parseNameAddrPVal h (pre ++ t) (pre.size + o) (shNa pre.size pf) =
      shRes pre.size (shNa pre.size) (parseNameAddrPVal h t o pf) := parseNameAddrPVal_shift_wrote h pre t o pf hfit hE hw

/-- what a caller sees after a complete value from a new object -/
theorem shift_nameaddr_reported : type_of% @parseNameAddrPVal_shift_reported := @parseNameAddrPVal_shift_reported

/-- … and the moved fields denote the same bytes -/
theorem shift_nameaddr_bytes : type_of% @parseNameAddrPVal_shift_bytes := @parseNameAddrPVal_shift_bytes

/-- a suspended parse resumed after more bytes is position independent too -/
theorem shift_nameaddr_resume : type_of% @parseNameAddrPVal_shift_resume := @parseNameAddrPVal_shift_resume

/-! ### non-vacuity (tests) -/
example : parseCSeqVal ("xyz".toUTF8.data ++ "12 INVITE\r\nX".toUTF8.data) 3 {} =
    shRes 3 (shCs 3) (parseCSeqVal "12 INVITE\r\nX".toUTF8.data 0 {}) := by decide +kernel
example : (parseCSeqVal "12 INVITE\r\nX".toUTF8.data 0 {}).2.1 = Err.ok := by decide +kernel

/-! ### Contact / P-Asserted-Identity value lists (Proofs/ShiftLists.lean) -/

/-- **ParseAllContactValues is position independent**: the same Contact header bytes behind any prefix `pre`, parsed with the translated object, give the translated result (offset, verdict, every stored contact, counters, expires range); stated for every legitimate resumption state `CtShift` (proved in Proofs/ShiftLists.lean) -/
theorem shift_contacts : type_of% @parseAllContactValues_shift := @parseAllContactValues_shift

/-- … as a plain equation after OK / MoreBytes -/
theorem shift_contacts_exact : type_of% @parseAllContactValues_shift_exact := @parseAllContactValues_shift_exact

/-- … from a new object of any capacity, at any start offset -/
theorem shift_contacts_new : type_of% @parseAllContactValues_shift_new := @parseAllContactValues_shift_new

/-- … and for a call resumed after MoreBytes on a grown buffer -/
theorem shift_contacts_resume : type_of% @parseAllContactValues_shift_resume := @parseAllContactValues_shift_resume

/-- after MoreBytes the returned object is a legitimate resumption state again -/
theorem shift_contacts_entry : type_of% @parseAllContactValues_shiftEntry := @parseAllContactValues_shiftEntry

/-- what a caller reads from the moved list: counts, capacities and numbers are identical -/
theorem shift_contacts_scalars : type_of% @shCt_scalars := @shCt_scalars

/-- `GetContact(j)` of the moved list is the moved `GetContact(j)` -/
theorem shift_contacts_get : type_of% @shCt_getContact := @shCt_getContact

/-- **ParseAllPAIValues is position independent** -/
theorem shift_pais : type_of% @parseAllPAIValues_shift := @parseAllPAIValues_shift

/-- … as a plain equation after OK / MoreBytes -/
theorem shift_pais_exact : type_of% @parseAllPAIValues_shift_exact := @parseAllPAIValues_shift_exact

/-- … from a new object -/
theorem shift_pais_new : type_of% @parseAllPAIValues_shift_new := @parseAllPAIValues_shift_new

/-- … resumed after MoreBytes on a grown buffer -/
theorem shift_pais_resume : type_of% @parseAllPAIValues_shift_resume := @parseAllPAIValues_shift_resume

/-- `GetPAI(j)` of the moved list is the moved `GetPAI(j)` -/
theorem shift_pais_get : type_of% @shPa_getPAI := @shPa_getPAI

/-! ### token parameters and the URI parameter / header lists (proved in `Sipsp.Proofs.ShiftParams`) -/

/-- [EXPORT C11] **SkipQuoted is position independent** -/
theorem shift_skipquoted : type_of% @Sipsp.skipQuoted_shift := @Sipsp.skipQuoted_shift

/-- [EXPORT C11] every verdict (errors included): offset moved by `k`, same verdict, same state and panic flag, value field moved
    unless absent; after an error only `all` / `name` are not compared -/
theorem shift_tokparam_any : type_of% @Sipsp.parseTokenParam_shift_any := @Sipsp.parseTokenParam_shift_any

/-- [EXPORT C11] **ParseTokenParam is position independent**, every verdict: offset + k, same verdict, translated object (after an error verdict `all` / `name` are not compared: `spTpNz`) -/
theorem shift_tokparam_obs : type_of% @Sipsp.parseTokenParam_shiftN := @Sipsp.parseTokenParam_shiftN

/-- [EXPORT C11] **ParseTokenParam is position independent** (every flag combination, every legitimate object): after OK /
    MoreValues / end of header / MoreBytes the call behind `pre` returns the offset moved by `k = pre.size`, the same
    verdict and the translated object -/
theorem shift_tokparam : type_of% @Sipsp.parseTokenParam_shift := @Sipsp.parseTokenParam_shift

/-- [EXPORT C11] … from a new object, at any start offset -/
theorem shift_tokparam_new : type_of% @Sipsp.parseTokenParam_shift_new := @Sipsp.parseTokenParam_shift_new

/-- [EXPORT C11] after MoreBytes the returned object is a legitimate argument at the returned offset (so the theorems apply to
    the resumed call as well) -/
theorem shift_tokparam_resumable : type_of% @Sipsp.parseTokenParam_shiftEntry := @Sipsp.parseTokenParam_shiftEntry

/-- [EXPORT C11] **ParseAllURIParams is position independent** (every flag combination, any capacity, every legitimate list) -/
theorem shift_uriparams : type_of% @Sipsp.parseAllURIParams_shift := @Sipsp.parseAllURIParams_shift

/-- [EXPORT C11] **ParseAllURIHdrs is position independent** (every flag combination, any capacity, every legitimate list) -/
theorem shift_urihdrs : type_of% @Sipsp.parseAllURIHdrs_shift := @Sipsp.parseAllURIHdrs_shift

/-- [EXPORT C11] … from a new list of any capacity -/
theorem shift_uriparams_new : type_of% @Sipsp.parseAllURIParams_shift_new := @Sipsp.parseAllURIParams_shift_new

/-- [EXPORT C11] … from a new list of any capacity -/
theorem shift_urihdrs_new : type_of% @Sipsp.parseAllURIHdrs_shift_new := @Sipsp.parseAllURIHdrs_shift_new

/-- [EXPORT C11] … from a reset list (whatever it held before, e.g. fields of another buffer) -/
theorem shift_uriparams_reset : type_of% @Sipsp.parseAllURIParams_shift_reset := @Sipsp.parseAllURIParams_shift_reset

/-- [EXPORT C11] … from a reset list -/
theorem shift_urihdrs_reset : type_of% @Sipsp.parseAllURIHdrs_shift_reset := @Sipsp.parseAllURIHdrs_shift_reset

/-- [EXPORT C11] after MoreBytes the list returned by ParseAllURIParams is a legitimate argument at the returned offset -/
theorem shift_uriparams_resumable : type_of% @Sipsp.parseAllURIParams_shiftEntry := @Sipsp.parseAllURIParams_shiftEntry

/-- [EXPORT C11] after MoreBytes the list returned by ParseAllURIHdrs is a legitimate argument at the returned offset -/
theorem shift_urihdrs_resumable : type_of% @Sipsp.parseAllURIHdrs_shiftEntry := @Sipsp.parseAllURIHdrs_shiftEntry

/-! ### header line, header block, whole message (proved in `Sipsp.Proofs.ShiftMsg`) -/

/-- **ParseHdrLine is position independent**: for a legitimate (header, values) pair (`HlAll`), the call on
    `pre ++ t` at `pre.size + o` with the moved header and values returns the moved result: offset moved by
    `pre.size`, the same verdict, and the moved header and values — exactly after OK / MoreBytes / Empty, and up to
    the stale (never reported) restart offset of the name-addr value that was being parsed after an error verdict
    (`smRelHL`). After OK and MoreBytes the returned pair satisfies the shift invariant `HlSh` again at the
    returned offset. -/
theorem shift_hdrline : type_of% @Sipsp.parseHdrLine_shift := @Sipsp.parseHdrLine_shift

/-- … in the plain form after OK / MoreBytes / Empty -/
theorem shift_hdrline_exact : type_of% @Sipsp.parseHdrLine_shift_exact := @Sipsp.parseHdrLine_shift_exact

/-- **after MoreBytes the returned pair is a legitimate argument again**, at the returned offset, also once more
    bytes `s` have arrived (`hlPending`: the value a suspended header waits for is not finished yet — true of every
    pair returned with MoreBytes and of every new header) -/
theorem shift_hdrline_resumable : type_of% @Sipsp.parseHdrLine_shiftEntry := @Sipsp.parseHdrLine_shiftEntry

/-- … hence **the resumed call is position independent too** -/
theorem shift_hdrline_resume : type_of% @Sipsp.parseHdrLine_shift_resume := @Sipsp.parseHdrLine_shift_resume

/-- **ParseHeaders is position independent**: from a legitimate pair the call on `pre ++ t` at `pre.size + offs`
    with the moved header list and values returns the offset moved by `pre.size`, the same verdict, the moved header
    list (every stored header, the first-of-type table, counts and type flags) and the moved values (exactly after a
    non-error verdict; up to the stale restart offset of the name-addr value in progress after an error). After
    MoreBytes the header in progress and the values satisfy `HlSh` at the returned offset. -/
theorem shift_headers : type_of% @Sipsp.parseHeaders_shift := @Sipsp.parseHeaders_shift

/-- **ParseSIPMsg is position independent**: for every legitimate message object (`MsgAll`: new / produced by Init, or
    suspended by MoreBytes in the first line, in the header section or before the body), every flag combination and
    every prefix `pre` with `pre.size + t.size ≤ 65535`, the call on `pre ++ t` at `pre.size + o` with the moved object
    returns the offset moved by `pre.size`, the same verdict and the moved message object (`shMsg`: first line, every
    stored header and shortcut, every header value, body, `Buf` / `RawMsg` bookkeeping moved by exactly `pre.size`;
    status, method numbers, counts, flags, lengths and the state unchanged) — exactly, unless the call ended in the
    error state, in which case the header values agree up to the stale (never reported) restart offset of the
    name-addr value that was being parsed (`smRelM`). After MoreBytes the returned object is legitimate again at the
    returned offset on every grown buffer. -/
theorem shift_msg : type_of% @Sipsp.parseSIPMsg_shift := @Sipsp.parseSIPMsg_shift

/-- … in the plain form whenever the call did not end in the error state -/
theorem shift_msg_exact : type_of% @Sipsp.parseSIPMsg_shift_exact := @Sipsp.parseSIPMsg_shift_exact

/-- **a successfully parsed message**: the moved call returns exactly the moved message -/
theorem shift_msg_ok : type_of% @Sipsp.parseSIPMsg_shift_ok := @Sipsp.parseSIPMsg_shift_ok

/-- **from an Init object, one call**: the object is its own translation -/
theorem shift_msg_init : type_of% @Sipsp.parseSIPMsg_shift_init := @Sipsp.parseSIPMsg_shift_init

/-- **the resumed call**: a message that ran out of bytes in `t` (parsed from an Init object) and is resumed at the
    returned offset with the returned object once more bytes `s` have arrived -/
theorem shift_msg_resume : type_of% @Sipsp.parseSIPMsg_shift_resume := @Sipsp.parseSIPMsg_shift_resume

/-- **every object produced by Init is legitimate** (any previous contents, caller arrays of any capacity or none) -/
theorem msg_init_legitimate : type_of% @Sipsp.MsgAll_init := @Sipsp.MsgAll_init

/-- what a caller reads from the moved message: the same verdict-independent numbers and flags -/
theorem msg_translation_scalars : type_of% @Sipsp.shMsg_scalars := @Sipsp.shMsg_scalars

end Sipsp.C11
