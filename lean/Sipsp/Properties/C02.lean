/-
  Property C02 — every exported incremental sub-parser resumes transparently on its own.

  Full statement (for every exported streaming parser P): `Resumable P`, i.e.
     P b o st = (o', MoreBytes, st')  →  P (b ++ s) o' st' = P (b ++ s) o st
  for ALL buffers b, ALL extensions s, ALL offsets and ALL objects; from it, by `resumeRun_eq_oneShot`,
  for EVERY chunk schedule (any number of cuts, anywhere) the resumed calls return the verdict, offset and
  object of fresh one-shot calls on the same prefixes.

  Proved here (any buffer size): ParseCallIDVal, ParseUIntVal (= ParseExpiresVal), ParseCLenVal, SkipQuoted
  (no hypotheses); ParseCSeqVal and ParseFLine (for objects that are new or were returned by an earlier call
  on a prefix of the buffer: `csOK`, `flOK`, re-established at every suspension, so the schedule theorem
  applies to every chunk schedule starting from a new object).
  ParseNameAddrPVal for every header kind (= ParseFromVal / ParseOneContact / ParseOnePAI; 33 states): offset,
  verdict and object equal — the object exactly after OK / MoreBytes / MoreValues and up to the unexported
  saved restart offset `soffs` after an error verdict (the code leaves `soffs` at its entry value on the error
  exits, and the entry value depends on where the previous chunk ended; no exported accessor reads it).
  ParseAllContactValues, ParseAllPAIValues, ParseHdrLine, ParseHeaders: the relational law `RR` (same offset,
  same verdict, same object unless the verdict is an error, same observable object after an error), with the
  legitimacy conditions re-established at every suspension.
  ParseTokenParam (every option combination without the end-of-input option, the space-terminator mode included) and the
  URI parameter / header list wrappers: `resume_tokparam`, `schedule_tokparam`, `resume_uriparams`, `resume_urihdrs`,
  `schedule_uri*` (Proofs/TokParamL1, UriListsL).
  The end-of-input option on the LAST call (`Sipsp.Proofs.TokParamEnd`): `resume_tokparam_end` — if a call without the
  option returned MoreBytes, the resumed call on any extension WITH the option equals one call with the option from the
  original state (same offset, verdict, object; no hypothesis on the object): the option may be switched on at the
  resumed call; `stable_tokparam_end` (a definitive result without the option is the result with it on every
  extension); `schedule_tokparam_end`: for every growing sequence of prefixes whose last element is the whole input, all
  calls but the last without the option and the last with it, the chain returns what ONE call with the option on the
  whole input returns; `resume_uriparams_end`, `resume_urihdrs_end`, `schedule_uriparams_end`, `schedule_urihdrs_end`:
  the same for the list wrappers (per-call counts sum to the one-shot count). All three suspension sites (end of
  buffer, white space up to the end of buffer, open quoted string) are valid restart points once the end of buffer
  becomes a terminator.
  Schedule corollaries for the remaining parsers and ParseOnePAI (`Sipsp.Proofs.AuditFixB`, asked for by the review):
  `schedule_fline`, `schedule_contacts`, `schedule_pais`, `schedule_hdrline`, `schedule_headers` (every chunk schedule,
  from new objects of any capacity and from any legitimate object), `resume_onepai`, `stable_onepai`, `schedule_onepai`
  (ParseOnePAI remaps a `*` value to the bad-value verdict), `what_rr_gives` (what the relational law gives a caller).
  `all_parsers_partial` (kept): the generic schedule statement for ANY parser with a one-step law — every theorem
  above instantiates it.
  NOT proved: schedules in which a call before the last one already carries the end-of-input option (a misuse: the
  option claims the input ends there).
-/
import Sipsp.Proofs.CallID
import Sipsp.Proofs.UInt
import Sipsp.Proofs.SkipQuoted
import Sipsp.Proofs.Schedule
import Sipsp.Proofs.FLine
import Sipsp.Proofs.NameAddrL2
import Sipsp.Proofs.HeadersL2
import Sipsp.Model.Msg
import Sipsp.Proofs.UriListsL
import Sipsp.Proofs.TokParamEnd
import Sipsp.Proofs.AuditFixB

namespace Sipsp.C02
open Sipsp

theorem resume_callid : Resumable parseCallIDVal :=
  fun b s o st _ _ h => parseCallIDVal_resume b s o st h

theorem resume_uint : Resumable parseUIntVal :=
  fun b s o st _ _ h => parseUIntVal_resume b s o st h

theorem resume_clen : Resumable parseCLenVal :=
  fun b s o st _ _ h => parseCLenVal_resume b s o st h

/-- ParseCSeqVal: one-step law, with the invariant re-established on the extended buffer -/
theorem resume_cseq : ResumableI parseCSeqVal csOK :=
  fun b s o st _ _ hI h => parseCSeqVal_resume b s o st hI h

/-- every chunk schedule, CSeq, starting from a new object at an offset inside the first chunk -/
theorem schedule_cseq (o : Nat) (l : List Buf) (hg : Growing l) (h0 : ∀ b ∈ l.head?, o ≤ b.size) :
    resumeRun parseCSeqVal o {} l = oneShotRun parseCSeqVal o {} l :=
  resumeRun_eq_oneShotI parseCSeqVal csOK resume_cseq (fun b s o st h => by
      rcases h with h | h
      · exact Or.inl h
      · exact Or.inr (csInv_grows b s o st h)) o {} l hg
    (fun b hb => Or.inr ⟨h0 b hb, by simp, by simp⟩)

/-- ParseFLine: one-step law within the documented 65,535-byte limit -/
theorem resume_fline (b s : Buf) (o : Nat) (pl : PFLine) (ho : o ≤ b.size) (hok : flOK pl)
    (hfit : b.size ≤ 65535) {o' : Nat} {pl' : PFLine} (h : parseFLine b o pl = (o', Err.moreBytes, pl')) :
    parseFLine (b ++ s) o' pl' = parseFLine (b ++ s) o pl ∧ flOK pl' ∧ o' ≤ b.size :=
  parseFLine_resume b s o pl ho hok hfit h

/-- ParseNameAddrPVal (header kind `t`): one-step law up to the saved restart offset -/
theorem resume_nameaddr (t : Nat) : ResumableO (parseNameAddrPVal t) naOK PFromBody.obs := by
  intro b s o st o' st' hI h
  obtain ⟨r, k, h1, h2, h3⟩ := parseNameAddrPVal_resume t b s o st hI h
  refine ⟨?_, h3⟩
  rw [h1, h2]
  exact ⟨rfl, rfl, naExit_obs _ _ _ _⟩

/-- … and exactly, whenever the verdict on the extended buffer is one after which parsing goes on -/
theorem resume_nameaddr_exact (t : Nat) (b s : Buf) (o : Nat) (pf : PFromBody) (hok : naOK b o pf)
    {o' : Nat} {pf' : PFromBody} (h : parseNameAddrPVal t b o pf = (o', Err.moreBytes, pf'))
    (hv : (parseNameAddrPVal t (b ++ s) o pf).2.1 = .ok ∨ (parseNameAddrPVal t (b ++ s) o pf).2.1 = .moreBytes ∨
          (parseNameAddrPVal t (b ++ s) o pf).2.1 = .moreValues) :
    parseNameAddrPVal t (b ++ s) o' pf' = parseNameAddrPVal t (b ++ s) o pf := by
  obtain ⟨r, k, h1, h2, _⟩ := parseNameAddrPVal_resume t b s o pf hok h
  rw [h1] at hv
  rw [h1, h2, naExit_nonerr k pf.soffs r.2.1 r.2.2 hv]

/-- every chunk schedule, name-addr values of every header kind, from a new object -/
theorem schedule_nameaddr (t : Nat) (o : Nat) (l : List Buf) (hg : Growing l) (h0 : ∀ b ∈ l.head?, o ≤ b.size) :
    ResEq PFromBody.obs (resumeRun (parseNameAddrPVal t) o {} l) (oneShotRun (parseNameAddrPVal t) o {} l) :=
  resumeRun_eq_oneShotO (parseNameAddrPVal t) naOK PFromBody.obs (resume_nameaddr t) o {} l hg
    (fun b hb => Or.inr ⟨h0 b hb, Nat.zero_le _, Nat.zero_le _⟩)

/-- ParseAllContactValues / ParseAllPAIValues -/
theorem resume_contacts (b s : Buf) (o : Nat) (c : PContacts) (hok : ctOK b o c) (ho : o ≤ b.size)
    {o' : Nat} {c' : PContacts} (hr : parseAllContactValues b o c = (o', Err.moreBytes, c')) :
    RR PContacts.obs (parseAllContactValues (b ++ s) o' c') (parseAllContactValues (b ++ s) o c) ∧
      ctOK (b ++ s) o' c' ∧ c'.cur.state ≠ .fin ∧ o ≤ o' ∧ o' ≤ b.size :=
  parseAllContactValues_resume b s o c hok ho hr

theorem resume_pais (b s : Buf) (o : Nat) (c : PPAIs) (hok : paOK b o c) (ho : o ≤ b.size)
    {o' : Nat} {c' : PPAIs} (hr : parseAllPAIValues b o c = (o', Err.moreBytes, c')) :
    RR PPAIs.obs (parseAllPAIValues (b ++ s) o' c') (parseAllPAIValues (b ++ s) o c) ∧
      paOK (b ++ s) o' c' ∧ c'.cur.state ≠ .fin ∧ o ≤ o' ∧ o' ≤ b.size :=
  parseAllPAIValues_resume b s o c hok ho hr

/-- ParseHdrLine: every suspension site is a valid restart point -/
theorem resume_hdrline (b s : Buf) (o : Nat) (h : Hdr) (hb : Option PHdrVals) (hok : hlOK b o h hb)
    (hpe : hlPending (h, hb)) {o' : Nat} {h' : Hdr} {hb' : Option PHdrVals}
    (hr : parseHdrLine b o h hb = (o', Err.moreBytes, h', hb')) :
    RR hlObs (parseHdrLine (b ++ s) o' h' hb') (parseHdrLine (b ++ s) o h hb) ∧
      hlOK (b ++ s) o' h' hb' ∧ hlPending (h', hb') ∧ o ≤ o' ∧ o' ≤ b.size :=
  parseHdrLine_resume b s o h hb hok hpe hr

/-- ParseHeaders -/
theorem resume_headers (b s : Buf) (o : Nat) (hl : HdrLst) (hb : Option PHdrVals)
    (hok1 : hlsOK b hl) (hok2 : hbOK b o hb) (hpe : hlsPend hl hb) (ho : o ≤ b.size)
    {o' : Nat} {hl' : HdrLst} {hb' : Option PHdrVals}
    (hr : parseHeaders b o hl hb = (o', Err.moreBytes, hl', hb')) :
    RR hdrsObs (parseHeaders (b ++ s) o' hl' hb') (parseHeaders (b ++ s) o hl hb) ∧
      hlsOK (b ++ s) hl' ∧ hbOK (b ++ s) o' hb' ∧ hlsPend hl' hb' ∧ o ≤ o' ∧ o' ≤ b.size :=
  parseHeaders_resume b s o hl hb hok1 hok2 hpe ho hr

/-- SkipQuoted as a parser over the trivial object -/
def skipQuotedP : Parser Unit := fun b o _ => ((skipQuoted b o).1, (skipQuoted b o).2, ())

theorem resume_skipquoted : Resumable skipQuotedP := by
  intro b s o st o' st' h
  simp only [skipQuotedP, Prod.mk.injEq] at h
  have : skipQuoted b o = (o', Err.moreBytes) := by
    rcases hq : skipQuoted b o with ⟨x, y⟩; rw [hq] at h; simp only at h; rw [h.1, h.2.1]
  simp only [skipQuotedP, skipQuoted_resume b s o this]

/-- **every chunk schedule** (Call-ID): resumed calls = fresh one-shot calls on the same prefixes -/
theorem schedule_callid (o : Nat) (st : PCallIDBody) (l : List Buf) (hg : Growing l) :
    resumeRun parseCallIDVal o st l = oneShotRun parseCallIDVal o st l :=
  resumeRun_eq_oneShot _ resume_callid o st l hg

theorem schedule_uint (o : Nat) (st : PUIntBody) (l : List Buf) (hg : Growing l) :
    resumeRun parseUIntVal o st l = oneShotRun parseUIntVal o st l :=
  resumeRun_eq_oneShot _ resume_uint o st l hg

theorem schedule_clen (o : Nat) (st : PUIntBody) (l : List Buf) (hg : Growing l) :
    resumeRun parseCLenVal o st l = oneShotRun parseCLenVal o st l :=
  resumeRun_eq_oneShot _ resume_clen o st l hg

theorem schedule_skipquoted (o : Nat) (l : List Buf) (hg : Growing l) :
    resumeRun skipQuotedP o () l = oneShotRun skipQuotedP o () l :=
  resumeRun_eq_oneShot _ resume_skipquoted o () l hg

/-! ### the stand-alone parameter parsers -/

/-- ParseTokenParam: one-step law for EVERY option combination without the end-of-input option, `POptTokSpTermF`
    included (the resumed call starts at another offset, which the space-terminator's previous-byte test looks at:
    the proof shows a call is never suspended where that could matter) -/
theorem resume_tokparam (b s : Buf) (o : Nat) (p : PTokParam) (flags : Nat) (hf : hasFlag flags POptInputEndF = false)
    {o' : Nat} {p' : PTokParam} (h : parseTokenParam b o p flags = (o', Err.moreBytes, p')) :
    parseTokenParam (b ++ s) o' p' flags = parseTokenParam (b ++ s) o p flags :=
  parseTokenParam_resume b s o p flags hf h

theorem schedule_tokparam : type_of% @parseTokenParam_schedule := @parseTokenParam_schedule

/-- the URI parameter / header list wrappers: the resumed call returns the same offset, verdict and list object; the
    per-call value counters add up -/
theorem resume_uriparams : type_of% @parseAllURIParams_resume := @parseAllURIParams_resume
theorem resume_urihdrs : type_of% @parseAllURIHdrs_resume := @parseAllURIHdrs_resume
theorem schedule_uriparams : type_of% @parseAllURIParams_schedule := @parseAllURIParams_schedule
theorem schedule_urihdrs : type_of% @parseAllURIHdrs_schedule := @parseAllURIHdrs_schedule

/-- "called again after finishing": a finished object returns the offset it is given, unchanged -/
theorem finished_callid (b : Buf) (o : Nat) (st : PCallIDBody) (h : st.state = .fin) :
    parseCallIDVal b o st = (o, .ok, st) := by simp [parseCallIDVal, h]
theorem finished_uint (b : Buf) (o : Nat) (st : PUIntBody) (h : st.state = .fin) :
    parseUIntVal b o st = (o, .ok, st) := by simp [parseUIntVal, h]
theorem finished_cseq (b : Buf) (o : Nat) (st : PCSeqBody) (h : st.state = .fin) :
    parseCSeqVal b o st = (o, .ok, st) := by simp [parseCSeqVal, h]
theorem finished_nameaddr (t : Nat) (b : Buf) (o : Nat) (st : PFromBody) (h : st.state = .fin) :
    parseNameAddrPVal t b o st = (o, .ok, st) := by simp [parseNameAddrPVal, h]

/-- **C02, full statement with the not-yet-proved parsers as explicit hypotheses**: the one-step law for
    each remaining parser gives the schedule statement for it (nothing else is assumed). -/
theorem all_parsers_partial {σ : Type} (P : Parser σ) (hP : Resumable P) (o : Nat) (st : σ) (l : List Buf)
    (hg : Growing l) : resumeRun P o st l = oneShotRun P o st l :=
  resumeRun_eq_oneShot P hP o st l hg

/-! ### non-vacuity: a concrete schedule cutting "a@b \r\n X" inside the CR LF -/
example : Growing [#[97, 64, 98, 32, 13], #[97, 64, 98, 32, 13, 10], #[97, 64, 98, 32, 13, 10, 88]] := by
  refine ⟨⟨#[10], by decide⟩, ⟨#[88], by decide⟩, trivial⟩
example : (parseCallIDVal #[97, 64, 98, 32, 13] 0 {}).2.1 = Err.moreBytes := by decide +kernel
example : (parseCallIDVal #[97, 64, 98, 32, 13, 10, 88] 0 {}).2.1 = Err.ok := by decide +kernel

/-! ### the end-of-input option on the last call of a schedule (proved in `Sipsp.Proofs.TokParamEnd`) -/

/-- **C02 for ParseTokenParam, the last call carrying the end-of-input option**: if a call without the option
    returned MoreBytes at `(o', p')`, the call on any extension `b ++ s` (possibly `s = #[]`: nothing more arrived,
    the input just ended) from `(o', p')` WITH the option returns exactly (offset, verdict, object) what one call
    with the option on `b ++ s` from the original `(o, p)` returns.  Any object `p`, any other options. -/
theorem resume_tokparam_end : type_of% @Sipsp.parseTokenParam_resume_end := @Sipsp.parseTokenParam_resume_end

/-- **L1 for ParseTokenParam, flag switched on later**: a definitive result of a call without the end-of-input
    option is the result of the call with the option on every extension of the buffer (the buffer itself included) -/
theorem stable_tokparam_end : type_of% @Sipsp.parseTokenParam_stable_end := @Sipsp.parseTokenParam_stable_end

/-- **ParseTokenParam under every chunk schedule whose last call carries the end-of-input option**: all calls but
    the last without the option, the last one (on the whole input `B`) with it: the chain returns the offset, the
    verdict and the object of ONE call with the option on `B`. -/
theorem schedule_tokparam_end : type_of% @Sipsp.parseTokenParam_schedule_end := @Sipsp.parseTokenParam_schedule_end

/-- **C02 for ParseAllURIParams, the last call carrying the end-of-input option**: after `MoreBytes` (with `n'` values
    parsed so far) at `(o', l')` from a call without the option, the call WITH the option on any extension from
    `(o', l')` returns the offset, the verdict and the very list object of ONE call with the option on the extended
    buffer from `(offs, l)`; the numbers of values parsed add up. -/
theorem resume_uriparams_end : type_of% @Sipsp.parseAllURIParams_resume_end := @Sipsp.parseAllURIParams_resume_end

/-- **C02 for ParseAllURIHdrs, the last call carrying the end-of-input option** -/
theorem resume_urihdrs_end : type_of% @Sipsp.parseAllURIHdrs_resume_end := @Sipsp.parseAllURIHdrs_resume_end

/-- **ParseAllURIParams under every chunk schedule whose last call carries the end-of-input option**: offset,
    verdict, total number of values (the per-call numbers added up) and list object of the chain are those of ONE
    call with the option on the whole input `B` -/
theorem schedule_uriparams_end : type_of% @Sipsp.parseAllURIParams_schedule_end := @Sipsp.parseAllURIParams_schedule_end

/-- **ParseAllURIHdrs under every chunk schedule whose last call carries the end-of-input option** -/
theorem schedule_urihdrs_end : type_of% @Sipsp.parseAllURIHdrs_schedule_end := @Sipsp.parseAllURIHdrs_schedule_end

/-! ### schedule corollaries for the remaining parsers; ParseOnePAI (proved in `Sipsp.Proofs.AuditFixB`) -/

/-- the one-step law spelled out, with everything the proof yields: the invariant on the extended buffer, the object
    is not finished, the returned offset lies between the start offset and the end of the parsed buffer -/
theorem resume_onepai : type_of% @Sipsp.afb_onePAI_resume := @Sipsp.afb_onePAI_resume

/-- L1: a definitive result is the result on every extension -/
theorem stable_onepai : type_of% @Sipsp.afb_onePAI_stable := @Sipsp.afb_onePAI_stable

/-- **every chunk schedule, ParseOnePAI, from a new object** at an offset inside the first chunk -/
theorem schedule_onepai : type_of% @Sipsp.afb_onePAI_schedule := @Sipsp.afb_onePAI_schedule

/-- … from a new object -/
theorem schedule_fline : type_of% @Sipsp.afb_fline_schedule := @Sipsp.afb_fline_schedule

/-- **every chunk schedule, ParseAllContactValues, from a new object** over a cleared array of any capacity -/
theorem schedule_contacts : type_of% @Sipsp.afb_contacts_schedule := @Sipsp.afb_contacts_schedule

/-- **every chunk schedule, ParseAllPAIValues, from a new object** -/
theorem schedule_pais : type_of% @Sipsp.afb_pais_schedule := @Sipsp.afb_pais_schedule

/-- **every chunk schedule, ParseHdrLine, from a new header** with new header values (contact array of any capacity)
    or none (`nil = true`) -/
theorem schedule_hdrline : type_of% @Sipsp.afb_hdrline_schedule := @Sipsp.afb_hdrline_schedule

/-- **every chunk schedule, ParseHeaders, from a new header list** (cleared array of any capacity) with new header
    values (contact array of any capacity) or none -/
theorem schedule_headers : type_of% @Sipsp.afb_headers_schedule := @Sipsp.afb_headers_schedule

/-- what `RR` gives a caller: same offset, same verdict; the very same object whenever the verdict is one after which
    parsing goes on (OK, MoreBytes, MoreValues, Empty) -/
theorem what_rr_gives : type_of% @Sipsp.afb_RR_use := @Sipsp.afb_RR_use

end Sipsp.C02
