/-
  Property C04 - extension file: theorems of this property that are proved in layers which themselves import
  Sipsp/Properties/C04.lean (message-level compositions, audit lemmas). Same namespace as the main file; the check
  audits both files together.
-/
import Sipsp.Properties.C04
import Sipsp.Proofs.AuditExamples

namespace Sipsp.C04
open Sipsp

/-! ### new value lists are safe; a suspended message stays legitimate; offsets never move backwards on OK / MoreBytes (proved in `Sipsp.Proofs.AuditExamples`) -/

/-- **(A) C04, the missing lemma**: a NEW contacts object (cleared array of any capacity) satisfies the safety
    invariant `CtSafe` at ANY offset inside the buffer — so `C04.contacts_never_panics` applies to the first call -/
theorem new_contacts_safe : type_of% @Sipsp.ae_CtSafe_new := @Sipsp.ae_CtSafe_new

/-- **(A) C04, the missing lemma**: a NEW identities object satisfies `PaSafe` at any offset inside the buffer -/
theorem new_pais_safe : type_of% @Sipsp.ae_PaSafe_new := @Sipsp.ae_PaSafe_new

/-- legitimacy of a SUSPENDED message object, for any input: if a call from a legitimate object (`msgOK2`, `MsgSafe`:
    e.g. any Init object) returns MoreBytes, the returned object and offset satisfy both conditions on every extension
    of the buffer (`parseSIPMsg_resume`, `C04.msg_never_panics`) -/
theorem msg_suspended_legit : type_of% @Sipsp.ae_msg_suspended_legit := @Sipsp.ae_msg_suspended_legit

/-- … the same for the exported (guarded) `GetMsgSig`: it can only panic through its core (`Sipsp.Proofs.SigGuard`) -/
theorem sig_after_suspension : type_of% @Sipsp.ae_sig_after_suspension_guarded := @Sipsp.ae_sig_after_suspension_guarded

theorem uint_offset_monotone : type_of% @Sipsp.ae_parseUIntVal_offset_monotone := @Sipsp.ae_parseUIntVal_offset_monotone

theorem clen_offset_monotone : type_of% @Sipsp.ae_parseCLenVal_offset_monotone := @Sipsp.ae_parseCLenVal_offset_monotone

theorem cseq_offset_monotone : type_of% @Sipsp.ae_parseCSeqVal_offset_monotone := @Sipsp.ae_parseCSeqVal_offset_monotone

theorem nameaddr_offset_monotone : type_of% @Sipsp.ae_parseNameAddrPVal_offset_monotone := @Sipsp.ae_parseNameAddrPVal_offset_monotone

theorem contacts_offset_monotone : type_of% @Sipsp.ae_parseAllContactValues_offset_monotone := @Sipsp.ae_parseAllContactValues_offset_monotone

theorem pais_offset_monotone : type_of% @Sipsp.ae_parseAllPAIValues_offset_monotone := @Sipsp.ae_parseAllPAIValues_offset_monotone

theorem fline_offset_monotone : type_of% @Sipsp.ae_parseFLine_offset_monotone := @Sipsp.ae_parseFLine_offset_monotone

theorem hdrline_offset_monotone : type_of% @Sipsp.ae_parseHdrLine_offset_monotone := @Sipsp.ae_parseHdrLine_offset_monotone

end Sipsp.C04
