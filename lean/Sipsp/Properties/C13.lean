/-
  Property C13 — caller-chosen capacities only truncate what is stored, never change the parse.

  Proved here (two-run relation; `MsgRel` relates two message objects that differ only in the capacity-dependent
  representation of the header list and of the contacts):
    * `capacity_init`      : two Init calls with ANY header / contact capacities (or none), whatever the objects held
                             before, give related objects;
    * `capacity_one_call`  : one ParseSIPMsg call on related objects returns the same offset and the same verdict; after
                             MoreBytes the objects are related again; after OK they agree on everything listed in
                             `observables`;
    * `capacity_schedule`  : the same for every chunk schedule (chains of resumed calls), buffers ≤ 65,535 bytes;
    * `observables`        : first line, body, raw message, header count, type flags, every first-of-type shortcut,
                             From/To/Call-ID/CSeq/Content-Length/Expires/PAI values, contact count and header count,
                             the expires summary — all equal; the stored headers / contacts agree on every index both
                             arrays hold (the stored elements are a prefix of what a larger array holds); the "more"
                             indicators are `n > capacity` with equal `n`;
    * `capacity_contacts`  : for ParseAllContactValues itself, additionally: after OK the first and the last contact
                             are retrievable (`GetContact 0`, `GetContact (n-1)`) whatever the capacity, incl. zero.
  (The P-Asserted-Identity array has a fixed capacity of 2 in the library; its capacity-generic proof is in
  Proofs/CapacityPAI.lean.)
    * message level (`capacity_from_init_first_last`, `capacity_schedule_first_last`, `first_last_contact`,
      `contacts_more_indicator`, `contacts_stored_prefix`, `headers_stored_prefix`, `identities_*`): after a successful
      parse (any chunk schedule, any two capacity choices incl. zero / none) the first and the last contact are
      retrievable and equal in both runs; 'more' ⇔ N > capacity ⇔ something was dropped; the stored contacts / headers
      of the smaller array are a prefix of the larger one's; the identity list likewise (its last value is retrievable
      only when nothing was dropped: GetPAI has no scratch-slot fallback — stated as such).
  URI parameter / header list capacities: `capacity_uriparams`, `capacity_urihdrs`.
  Not proved:
  while a parse is suspended INSIDE a Contact line the "last contact" read returns the half-parsed value (true of the
  code as well; the theorems state the condition). The signature's truncation indication is proved in C19.
  ACCESSORS FOR EVERY INDEX (`Sipsp.Proofs.Leftovers2`): `getContact_cases`, `getContact_isSome_iff`, `getContact_none_of_ge`
  — the complete case table of `GetContact(k)` for every `k` (stored value / `last` slot for k = N-1 / `first` slot for
  k = 0 / nil), `getPAI_cases`, `getPAI_none_iff`, `getHdr_cases`, `getHdr_none_iff`, `getHdr_after_run` (nil exactly for the
  none / other / unknown types, after Init and any chunk schedule); `first_last_reference`: for every capacity (0 and none
  included) and every schedule, `GetContact(0)` / `GetContact(N-1)` equal the first / last value of a reference run whose
  array stores them.
-/
import Sipsp.Proofs.CapacityMsg
import Sipsp.Proofs.CapacityExtra
import Sipsp.Proofs.UriListsL
import Sipsp.Proofs.Leftovers2

namespace Sipsp.C13
open Sipsp

theorem capacity_init (m0 m0' : PSIPMsg) (len : Nat) (kh1 kc1 kh2 kc2 : Nat) (hd1 ct1 hd2 ct2 : Option Unit) :
    MsgRel (m0.init len (hd1.map fun _ => Array.replicate kh1 {}) (ct1.map fun _ => Array.replicate kc1 {}))
      (m0'.init len (hd2.map fun _ => Array.replicate kh2 {}) (ct2.map fun _ => Array.replicate kc2 {})) :=
  MsgRel_init m0 m0' len kh1 kc1 kh2 kc2 hd1 ct1 hd2 ct2

theorem capacity_one_call (b : Buf) (o : Nat) (m1 m2 : PSIPMsg) (flags : Nat) (hR : MsgRel m1 m2)
    (hok : msgOK2 b o m1) :
    (parseSIPMsg b o m1 flags).1 = (parseSIPMsg b o m2 flags).1 ∧
    (parseSIPMsg b o m1 flags).2.1 = (parseSIPMsg b o m2 flags).2.1 ∧
    ((parseSIPMsg b o m1 flags).2.1 = .moreBytes → MsgRel (parseSIPMsg b o m1 flags).2.2 (parseSIPMsg b o m2 flags).2.2) ∧
    ((parseSIPMsg b o m1 flags).2.1 = .ok → MsgDone (parseSIPMsg b o m1 flags).2.2 (parseSIPMsg b o m2 flags).2.2) :=
  parseSIPMsg_rel b o m1 m2 flags hR hok

theorem capacity_schedule (flags : Nat) (o : Nat) (m1 m2 : PSIPMsg) (l : List Buf) (hg : Growing l)
    (hfit : ∀ x ∈ l, x.size ≤ 65535) (hR : MsgRel m1 m2) (h0 : ∀ b ∈ l.head?, msgOK2 b o m1) (hne : l ≠ []) :
    MsgOut (resumeRun (fun b o m => parseSIPMsg b o m flags) o m1 l)
      (resumeRun (fun b o m => parseSIPMsg b o m flags) o m2 l) :=
  Sipsp.capacity_schedule flags o m1 m2 l hg hfit hR h0 hne

/-- from Init with any two capacity choices, any chunk schedule: same offset, same verdict, and on success the
    same observables -/
theorem capacity_from_init (flags : Nat) (o : Nat) (m0 m0' : PSIPMsg) (len kh1 kc1 kh2 kc2 : Nat)
    (hd1 ct1 hd2 ct2 : Option Unit) (l : List Buf) (hg : Growing l) (hfit : ∀ x ∈ l, x.size ≤ 65535)
    (ho : ∀ b ∈ l.head?, o ≤ b.size) (hne : l ≠ []) :
    MsgOut
      (resumeRun (fun b o m => parseSIPMsg b o m flags) o
        (m0.init len (hd1.map fun _ => Array.replicate kh1 {}) (ct1.map fun _ => Array.replicate kc1 {})) l)
      (resumeRun (fun b o m => parseSIPMsg b o m flags) o
        (m0'.init len (hd2.map fun _ => Array.replicate kh2 {}) (ct2.map fun _ => Array.replicate kc2 {})) l) :=
  Sipsp.capacity_schedule flags o _ _ l hg hfit (MsgRel_init m0 m0' len kh1 kc1 kh2 kc2 hd1 ct1 hd2 ct2)
    (fun b hb => msgOK2_init b o (ho b hb) m0 len kh1 kc1 hd1 ct1) hne

theorem observables {m1 m2 : PSIPMsg} (h : MsgDone m1 m2) :
    m1.fl = m2.fl ∧ m1.body = m2.body ∧ m1.bufLen = m2.bufLen ∧ m1.rawOffs = m2.rawOffs ∧ m1.rawLen = m2.rawLen ∧
    m1.state = m2.state ∧
    m1.hl.n = m2.hl.n ∧ m1.hl.pflags = m2.hl.pflags ∧ (∀ t, m1.hl.getHdr t = m2.hl.getHdr t) ∧
    (∀ k, k < m1.hl.n → k < m1.hl.hdrs.size → k < m2.hl.hdrs.size → m1.hl.hdrs[k]! = m2.hl.hdrs[k]!) ∧
    m1.pv.from_ = m2.pv.from_ ∧ m1.pv.to = m2.pv.to ∧ m1.pv.callid = m2.pv.callid ∧ m1.pv.cseq = m2.pv.cseq ∧
    m1.pv.clen = m2.pv.clen ∧ m1.pv.expires = m2.pv.expires ∧ m1.pv.pais = m2.pv.pais ∧
    m1.pv.contacts.n = m2.pv.contacts.n ∧ m1.pv.contacts.hNo = m2.pv.contacts.hNo ∧
    m1.pv.maxExpires = m2.pv.maxExpires ∧ m1.pv.contacts.minExpires = m2.pv.contacts.minExpires ∧
    (∀ k, k < m1.pv.contacts.n → k < m1.pv.contacts.vals.size → k < m2.pv.contacts.vals.size →
      m1.pv.contacts.vals[k]! = m2.pv.contacts.vals[k]!) := h.observables

/-- ParseAllContactValues on two contacts objects of ANY two capacities (incl. zero) that went through the same
    history: same offset and verdict; after OK the counts, the expires summary and the running header value agree,
    the stored values agree wherever both arrays hold them, and the first and the last value are retrievable -/
theorem capacity_contacts (b : Buf) (o : Nat) (c1 c2 : PContacts) (h : CtW c1 c2) :
    (parseAllContactValues b o c1).1 = (parseAllContactValues b o c2).1 ∧
    (parseAllContactValues b o c1).2.1 = (parseAllContactValues b o c2).2.1 ∧
    ((parseAllContactValues b o c1).2.1 = .ok →
      CtDone (parseAllContactValues b o c1).2.2 (parseAllContactValues b o c2).2.2) :=
  let r := parseAllContactValues_rel b o c1 c2 h; ⟨r.1, r.2.1, r.2.2.2⟩

theorem contacts_new_related (k1 k2 : Nat) :
    CtW ({ vals := Array.replicate k1 {} } : PContacts) ({ vals := Array.replicate k2 {} } : PContacts) :=
  CtW_new k1 k2

/-! ### message level: first / last contact, "more" indicators, stored prefixes, identities -/

/-- every chunk schedule, two Init calls with any capacities (or none): same offset and verdict, the relations of
    `MsgOutX` (= `MsgOut` + first / last contact agreement) between the two final objects -/
theorem capacity_from_init_first_last : type_of% @capacity_from_initX := @capacity_from_initX

/-- … from any two related objects -/
theorem capacity_schedule_first_last : type_of% @capacity_scheduleX := @capacity_scheduleX

/-- **first and last contact retrievable for every capacity (zero included), and equal in both runs** -/
theorem first_last_contact {m1 m2 : PSIPMsg} (h : MsgDoneX m1 m2) (hn : m1.pv.contacts.n > 0) :
    m1.pv.contacts.n = m2.pv.contacts.n ∧ ∃ f l,
      m1.pv.contacts.getContact 0 = some f ∧ m2.pv.contacts.getContact 0 = some f ∧
      m1.pv.contacts.getContact (m1.pv.contacts.n - 1) = some l ∧
      m2.pv.contacts.getContact (m2.pv.contacts.n - 1) = some l := h.first_last hn

/-- **the 'more' indicator says exactly when values were dropped**; the stored count is min(N, capacity) -/
theorem contacts_more_indicator : type_of% @MsgDone.contacts_more := @MsgDone.contacts_more

/-- **what is stored is a prefix of what a larger array holds** (contacts, then headers) -/
theorem contacts_stored_prefix : type_of% @MsgDone.contacts_mono := @MsgDone.contacts_mono
theorem headers_stored_prefix : type_of% @MsgDone.hdrs_mono := @MsgDone.hdrs_mono

/-- identity values: stand-alone list parser with any two capacities; indicators, prefix, first / last -/
theorem capacity_identities : type_of% @capacity_pais := @capacity_pais
theorem identities_more_prefix : type_of% @PaDone.more_prefix := @PaDone.more_prefix
theorem identities_first_last : type_of% @PaDone.first_last := @PaDone.first_last
theorem identities_in_message : type_of% @MsgDone.pais := @MsgDone.pais


/-! ### URI parameter / header lists (stand-alone parsers) -/

/-- two runs with arrays of different capacity: same offset, value count and verdict; the result lists are related
    again (same N, type flags, current element; stored elements agree wherever both arrays have room) -/
theorem capacity_uriparams : type_of% @parseAllURIParams_rel := @parseAllURIParams_rel
theorem capacity_urihdrs : type_of% @parseAllURIHdrs_rel := @parseAllURIHdrs_rel
theorem uri_lists_new_related (k1 k2 : Nat) :
    PlRel { params := Array.replicate k1 {} } { params := Array.replicate k2 {} } ∧
    HlRel { hdrs := Array.replicate k1 {} } { hdrs := Array.replicate k2 {} } := ⟨PlRel_new k1 k2, HlRel_new k1 k2⟩


/-! ### non-vacuity: capacity 0 versus capacity 3 on a two-value Contact line -/
def exLine : Buf := "<sip:a@b>;expires=5, <sip:c@d>\r\nX".toUTF8.data
example : (parseAllContactValues exLine 0 { vals := #[] }).2.1 = Err.ok := by decide +kernel
example : (parseAllContactValues exLine 0 { vals := #[] }).2.2.n = 2 := by decide +kernel

/-! ### first / last contact retrievable (proved in `Sipsp.Proofs.CapacityExtra`) -/

/-- with at least one value parsed, `GetContact(0)` is never nil, whatever the capacity -/
theorem first_contact_retrievable : type_of% @Sipsp.getContact_first_isSome := @Sipsp.getContact_first_isSome

/-- with at least one value parsed, `GetContact(N-1)` is never nil, whatever the capacity -/
theorem last_contact_retrievable : type_of% @Sipsp.getContact_last_isSome := @Sipsp.getContact_last_isSome

/-! ### the accessors for EVERY index; first / last contact against a reference run that stores them (proved in `Sipsp.Proofs.Leftovers2`) -/

/-- complete case table of `GetContact(k)`, every `k` -/
theorem getContact_cases : type_of% @Sipsp.lo2_getContact_cases := @Sipsp.lo2_getContact_cases

/-- `GetContact(k)` is non-nil exactly for a stored index, or — when at least one value was parsed — for the first
    and the last index (scratch slots) -/
theorem getContact_isSome_iff : type_of% @Sipsp.lo2_getContact_isSome_iff := @Sipsp.lo2_getContact_isSome_iff

/-- an index at or beyond the number of parsed values gives nil -/
theorem getContact_none_of_ge : type_of% @Sipsp.lo2_getContact_none_of_ge := @Sipsp.lo2_getContact_none_of_ge

theorem getPAI_cases : type_of% @Sipsp.lo2_getPAI_cases := @Sipsp.lo2_getPAI_cases

/-- `GetPAI(k)`: nil exactly outside `[0, VNo)` -/
theorem getPAI_none_iff : type_of% @Sipsp.lo2_getPAI_none_iff := @Sipsp.lo2_getPAI_none_iff

/-- `GetHdr(t)` for every `t`: the slot `t-1` of the first-of-type table for a known type, nil otherwise -/
theorem getHdr_cases : type_of% @Sipsp.lo2_getHdr_cases := @Sipsp.lo2_getHdr_cases

theorem getHdr_none_iff : type_of% @Sipsp.lo2_getHdr_none_iff := @Sipsp.lo2_getHdr_none_iff

/-- **`GetHdr` after Init and any chain of ParseSIPMsg calls**: total, nil exactly for `HdrNone`, `HdrOther` and
    unknown type numbers, otherwise the slot of that type -/
theorem getHdr_after_run : type_of% @Sipsp.lo2_getHdr_after_run := @Sipsp.lo2_getHdr_after_run

/-- **from Init, every chunk schedule, every capacity (zero / none included)**: after OK with at least one contact,
    `GetContact(0)` is the element a reference run stores at index 0 and `GetContact(N-1)` the element it stores at
    index N-1 (reference = any run whose array has room for them) -/
theorem first_last_reference : type_of% @Sipsp.lo2_first_last_reference := @Sipsp.lo2_first_last_reference

end Sipsp.C13
