/-
  Property C07 — header block tokenisation is faithful to the text.

  The grammar (`Sipsp.Proofs.HdrSpec`): a header line is a name (bytes other than SP, HT, CR, LF and ':'),
  optional spaces / tabs, ':', linear white space (spaces, tabs and folds = line end followed by SP / HT), an
  optional value made of one or more tokens separated by linear white space, optional white space, and a line end —
  CR LF, a lone CR or a lone LF — whose next byte is not SP / HT. A block is a sequence of such lines followed by an
  empty line.

  Proved for ALL buffers within the 65,535-byte limit, ALL offsets and ALL lines / blocks of that grammar (any name,
  any number of tokens and folds, any mix of line ends), for the generic treatment (no values object, or header
  types without a dedicated value parser):
  * `header_line`, `header_line_empty_value`: ParseHdrLine returns OK, the offset after the line end, the name as the
    text before the colon without the white space, the value from its first to its last non-white-space byte
    (across folds), the type = classification of the name (whose table is pinned by C16), the header finished.
  * `header_block`: ParseHeaders reports exactly one header per line, in order, and stops after the empty line
    (OK; "empty" if the block has no header at all).
  * `block_count` (N counts every header, also those beyond the caller's array), `block_stored` (the stored
    headers are the headers of the block, in order), `block_flags` (a type flag is set iff a header of that type was
    seen), `block_first_of_type` (the first-of-type table holds the first header of each type).
  NOT proved here: the same statement for the eight header types with dedicated value parsers when a values
  object is supplied (their `Val` is produced by the value parser, see C09); they are decided by the
  tokenisation oracle on generated blocks and by the correspondence.
-/
import Sipsp.Proofs.HdrSpec

namespace Sipsp.C07
open Sipsp

theorem header_line (b : Buf) (o n c v ve p e : Nat) (hb : Option PHdrVals) (hfit : b.size ≤ 65535)
    (hname : NameRun b o n) (hon : o < n) (hws : WsRun b n c) (hnc : n ≤ c) (hcolon : b[c]? = some 58)
    (hlws : Lws b (c + 1) v) (hval : ValRun b v ve p) (he : Eol b p e) {c2 : UInt8} (h2 : b[e]? = some c2)
    (hw2 : isWS c2 = false) (hg : hb = none ∨ IsOther (getHdrType (b.extract o n))) :
    parseHdrLine b o {} hb =
      (e, .ok, { type := getHdrType (b.extract o n), name := ⟨o, n - o⟩, val := ⟨v, ve - v⟩, state := .fin }, hb) :=
  parseHdrLine_spec b o n c v ve p e hb hfit hname hon hws hnc hcolon hlws hval he h2 hw2 hg

theorem header_line_empty_value (b : Buf) (o n c p e : Nat) (hb : Option PHdrVals) (hfit : b.size ≤ 65535)
    (hname : NameRun b o n) (hon : o < n) (hws : WsRun b n c) (hnc : n ≤ c) (hcolon : b[c]? = some 58)
    (hlws : Lws b (c + 1) p) (he : Eol b p e) {c2 : UInt8} (h2 : b[e]? = some c2)
    (hw2 : isWS c2 = false) (hg : hb = none ∨ IsOther (getHdrType (b.extract o n))) :
    parseHdrLine b o {} hb =
      (e, .ok, { type := getHdrType (b.extract o n), name := ⟨o, n - o⟩, val := {}, state := .fin }, hb) :=
  parseHdrLine_spec_empty b o n c p e hb hfit hname hon hws hnc hcolon hlws he h2 hw2 hg

/-- the value really is "first to last non-white-space byte": it starts and ends with a token byte -/
theorem value_trimmed (b : Buf) (v ve p : Nat) (h : ValRun b v ve p) :
    v < ve ∧ ve ≤ p ∧ (∃ c, b[v]? = some c ∧ isLWSch c = false) ∧ (∃ c, b[ve - 1]? = some c ∧ isLWSch c = false) := by
  refine ⟨h.bounds.1, h.bounds.2, h.first, ?_⟩
  induction h with
  | last v j p ht hvj _ => exact ht (j - 1) (by omega) (by omega)
  | cons v j v2 ve p c _ _ _ _ _ _ _ ih => exact ih

theorem header_block (b : Buf) (hb : Option PHdrVals) (hfit : b.size ≤ 65535) (o e : Nat) (hs : List Hdr)
    (H : HdrBlock b o hs e) (hl : HdrLst) (hc : HlsClean hl) (hcur : hl.cur = {})
    (hg : hb = none ∨ ∀ h ∈ hs, IsOther h.type) :
    parseHeaders b o hl hb =
      (e, (if (hl.acceptAll hs).n > 0 then Err.ok else Err.empty), (hl.acceptAll hs).setCur { state := .fin }, hb) :=
  parseHeaders_block b hb hfit H hl hc hcur hg

/-- a new list object (any capacity) satisfies the hypotheses of `header_block` -/
theorem new_list_ok (k : Nat) :
    HlsClean ({ hdrs := Array.replicate k {} } : HdrLst) ∧ ({ hdrs := Array.replicate k {} } : HdrLst).cur = {} := by
  have hrep : ∀ j, j < (Array.replicate k ({} : Hdr)).size → (Array.replicate k ({} : Hdr))[j]! = {} := by
    intro j hj; simp at hj; simp [hj]
  refine ⟨⟨fun j _ hj => hrep j hj, fun _ => rfl⟩, ?_⟩
  unfold HdrLst.cur
  split
  · rename_i hin; exact hrep _ hin
  · rfl

theorem block_count (hl : HdrLst) (hs : List Hdr) :
    ((hl.acceptAll hs).setCur { state := .fin }).n = hl.n + hs.length := by
  rw [hlSetCur_n, acceptAll_n]

theorem block_stored (hl : HdrLst) (hs : List Hdr) (k : Nat) (hk : k < hs.length) (hin : hl.n + k < hl.hdrs.size) :
    ((hl.acceptAll hs).setCur { state := .fin }).hdrs[hl.n + k]! = hs[k] := by
  rw [hlSetCur_ne _ _ _ (by rw [acceptAll_n]; omega)]
  exact acceptAll_stored hl hs k hk hin

theorem block_flags (hl : HdrLst) (hs : List Hdr) (t : Nat) (ht : t < 16) (h0 : hl.pflags < 65536) :
    ((hl.acceptAll hs).setCur { state := .fin }).pflags.testBit t =
      (hl.pflags.testBit t || hs.any (fun h => h.type == t)) := by
  rw [(hlSetCur_scalars _ _).1]; exact acceptAll_pflags hl hs t ht h0

theorem block_first_of_type (hl : HdrLst) (hs : List Hdr) (j : Nat) (hj : j < hl.h.size)
    (hm : hl.h[j]!.missing = true) :
    ((hl.acceptAll hs).setCur { state := .fin }).h[j]! =
      (match hs.find? (fun h => h.type == j + 1) with | some h => h | none => hl.h[j]!) := by
  rw [(hlSetCur_scalars _ _).2]; exact (acceptAll_first hl hs j hj hm).1

/-! ### non-vacuity -/

/-- test (not a proof of the property): a folded header with white space before the colon, lone-CR line end -/
example : (parseHdrLine "Subject :  a\r\n b \rX".toUTF8.data 0 {} none).1 = 18 ∧
    (parseHdrLine "Subject :  a\r\n b \rX".toUTF8.data 0 {} none).2.2.1 =
      { type := HdrOther, name := ⟨0, 7⟩, val := ⟨11, 5⟩, state := .fin } := by
  decide +kernel

/-- the hypotheses of `header_line` are satisfiable: the line `a:b CR LF` followed by `X` -/
example : HdrLineAt "a:b\r\nX".toUTF8.data 0 5 (hdrAt (getHdrType ("a:b\r\nX".toUTF8.data.extract 0 1)) 0 1 ⟨2, 1⟩ .fin) := by
  refine Or.inl ⟨1, 1, 2, 3, 3, 88, ?_, by decide, ?_, by decide, by decide, Lws.nil 2, ?_, ?_, by decide, by decide, rfl⟩
  · intro k _ hk
    have : k = 0 := by omega
    subst this
    exact ⟨97, by decide, by decide, by decide⟩
  · intro k h1 h2; omega
  · refine ValRun.last 2 3 3 ?_ (by decide) (Lws.nil 3)
    intro k h1 h2
    have : k = 2 := by omega
    subst this
    exact ⟨98, by decide, by decide⟩
  · exact Eol.crlf 3 (by decide) (by decide)

end Sipsp.C07
