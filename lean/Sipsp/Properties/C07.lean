/-
  Property C07 — header block tokenisation is faithful to the text.

  The grammar (`Sipsp.Proofs.HdrSpec`): a header line is a name (bytes other than SP, HT, CR, LF and ':'),
  optional spaces / tabs, ':', linear white space (spaces, tabs and folds = line end followed by SP / HT), an
  optional value made of one or more tokens separated by linear white space, optional white space, and a line end —
  CR LF, a lone CR or a lone LF — whose next byte is not SP / HT. A block is a sequence of such lines followed by an
  empty line.

  Proved for ALL buffers within the 65,535-byte limit, ALL offsets and ALL lines / blocks of that grammar (any name,
  any number of tokens and folds, any mix of line ends), for the generic treatment (no values object, or header
  types without a dedicated value parser):
  * `header_line`, `header_line_empty_value`: ParseHdrLine returns OK, the offset after the line end, the name as the
    text before the colon without the white space, the value from its first to its last non-white-space byte
    (across folds), the type = classification of the name (whose table is pinned by C16), the header finished.
  * `header_block`: ParseHeaders reports exactly one header per line, in order, and stops after the empty line
    (OK; "empty" if the block has no header at all).
  * `block_count` (N counts every header, also those beyond the caller's array), `block_stored` (the stored
    headers are the headers of the block, in order), `block_flags` (a type flag is set iff a header of that type was
    seen), `block_first_of_type` (the first-of-type table holds the first header of each type).
  With a values object supplied, the eight header types with dedicated value parsers (`Sipsp.Proofs.HdrTyped`):
  * `typed_from`, `typed_to`, `typed_callid`, `typed_cseq`, `typed_clen`, `typed_expires`, `typed_contact`,
    `typed_pai`: for ANY text after the colon, ParseHdrLine returns the verdict and offset of the value parser started
    after the colon; the header has the name as written and the classified type, is finished with `Val` = the value
    parser's reported span iff the verdict is OK; the values object changes in that one component only (Contact /
    PAI: header counter bumped, running extent cleared).
  * `from_value`, `to_value` (C09 grammar: `Val` = the name-addr value from its first non-white-space byte to where
    its terminator begins), `callid_value` (one run of non-white-space bytes), `expires_value`, `clen_value` (digit
    string, number exact, within the documented ranges), `cseq_value` (digits, white space, method token: `Val` from
    the first digit to the end of the method), `contact_values_line`, `pai_values_line` (comma-separated value list:
    `Val` from the start of the first value to the end of the last one, for any capacity and for objects that already
    hold values of earlier lines).
  * `generic_with_values`: types without a value parser, and repeated single-valued headers whose value is already
    parsed, are scanned generically also when a values object is supplied.
  * `typed_block`: ParseHeaders on a block that mixes generic and typed lines (each typed value meeting its grammar)
    reports one header per line in order, the values object threaded through the typed lines.
  Observed while proving (not a violation for well-formed blocks: the values are not valid for their header type):
  with a values object an EMPTY Call-ID / Contact / Content-Length value, `i: a b`, a ten-digit Content-Length are
  rejected by the value parser although the generic scanner (no values object) accepts the line.
  SOUNDNESS for ALL inputs (`Sipsp.Proofs.HdrSound`; every buffer ≤ 65,535 bytes, every offset, new header / new or
  reset list of any capacity; "generic" = no values object, or no typed name at a line start):
  * `line_sound`, `line_sound_explicit`, `line_ok_iff`, `line_reject`, `line_verdicts`, `line_empty_iff`: ParseHdrLine
    returns OK iff the text at the offset is a header line of the grammar, and then exactly the reported header
    (name, trimmed value, type, offset); the "empty" verdict is exactly the empty line; the only other verdicts are
    MoreBytes and BadChar — an ill-formed line is never silently mis-tokenised;
  * `block_sound`, `block_ok_iff`, `block_accepts_iff`, `block_empty_iff`, `block_verdicts`, `block_report`,
    `block_unique`: ParseHeaders says OK at `e` iff `[o, e)` is a non-empty block of the grammar and the list object is
    the one its lines produce (count = number of lines, stored = the first k lines in order, flags, first-of-type);
    a block has exactly one reading;
  * with ANY values object, typed lines included: `line_name_type_sound`, `block_all_report` — every accepted line has a
    non-empty name, optional SP / HT, the colon; reported name = that text, reported type = its classification; one
    header per accepted line, in order, with count / stored / flags / first-of-type;
  * `line_sound_resumed`, `block_sound_resumed`: after a suspension (no values object).
  OVER EVERY CHUNK SCHEDULE (`Sipsp.Proofs.ResumedConverse`): `line_sound_schedule(_from)`, `line_ok_iff_schedule`,
  `line_verdicts_schedule`, `block_sound_schedule(_from)`, `block_ok_iff_schedule`, `block_report_schedule`, … — the
  soundness statements above for a chain of resumed calls over growing prefixes (new header / new or reset list, any
  capacity, with or without a values object), and `typed_*_schedule`, `from_value_schedule`, `contact_values_schedule`,
  `typed_block_schedule`: the typed kinds with a values object when the chain was suspended in the MIDDLE of the value.
  NOT proved here: soundness of the VALUE part of the eight typed kinds beyond reducing the line to the value parser
  (their value grammar is C09 / C10); Contact `*` inside a header line; general rejection results for typed values;
  chains whose first call starts inside a line.
  SCOPE NOTES after the second sceptical review (AB1): the hypothesis `HsGeneric B o hb` of the `block_*_schedule` theorems
  (with a values object) ranges over EVERY line start of the whole last buffer `B`, body and following messages included —
  a typed name at a line start anywhere behind the block (`\nf: z` in a body) takes the input out of their scope;
  `block_all_report_schedule_from` and `line_sound_reported_schedule_from` do not have that restriction. The schedule
  theorems take a NEW header list (`hsNew kh`), not a reset one. STRENGTHENED afterwards (`Sipsp.Proofs.AuditFixC`):
  `block_sound_in`, `block_ok_iff_in`, `block_*_schedule_in` need the generic-treatment hypothesis only for the line starts
  INSIDE the accepted block `[o, e)` (a `From:` line in the body no longer matters; the verdict-list form is not redone).
-/
import Sipsp.Proofs.HdrSpec
import Sipsp.Proofs.HdrTyped
import Sipsp.Proofs.HdrSound
import Sipsp.Proofs.ResumedConverse
import Sipsp.Proofs.AuditFixC
import Sipsp.Proofs.Leftovers2

namespace Sipsp.C07
open Sipsp

theorem header_line (b : Buf) (o n c v ve p e : Nat) (hb : Option PHdrVals) (hfit : b.size ≤ 65535)
    (hname : NameRun b o n) (hon : o < n) (hws : WsRun b n c) (hnc : n ≤ c) (hcolon : b[c]? = some 58)
    (hlws : Lws b (c + 1) v) (hval : ValRun b v ve p) (he : Eol b p e) {c2 : UInt8} (h2 : b[e]? = some c2)
    (hw2 : isWS c2 = false) (hg : hb = none ∨ IsOther (getHdrType (b.extract o n))) :
    parseHdrLine b o {} hb =
      (e, .ok, { type := getHdrType (b.extract o n), name := ⟨o, n - o⟩, val := ⟨v, ve - v⟩, state := .fin }, hb) :=
  parseHdrLine_spec b o n c v ve p e hb hfit hname hon hws hnc hcolon hlws hval he h2 hw2 hg

theorem header_line_empty_value (b : Buf) (o n c p e : Nat) (hb : Option PHdrVals) (hfit : b.size ≤ 65535)
    (hname : NameRun b o n) (hon : o < n) (hws : WsRun b n c) (hnc : n ≤ c) (hcolon : b[c]? = some 58)
    (hlws : Lws b (c + 1) p) (he : Eol b p e) {c2 : UInt8} (h2 : b[e]? = some c2)
    (hw2 : isWS c2 = false) (hg : hb = none ∨ IsOther (getHdrType (b.extract o n))) :
    parseHdrLine b o {} hb =
      (e, .ok, { type := getHdrType (b.extract o n), name := ⟨o, n - o⟩, val := {}, state := .fin }, hb) :=
  parseHdrLine_spec_empty b o n c p e hb hfit hname hon hws hnc hcolon hlws he h2 hw2 hg

/-- the value really is "first to last non-white-space byte": it starts and ends with a token byte -/
theorem value_trimmed (b : Buf) (v ve p : Nat) (h : ValRun b v ve p) :
    v < ve ∧ ve ≤ p ∧ (∃ c, b[v]? = some c ∧ isLWSch c = false) ∧ (∃ c, b[ve - 1]? = some c ∧ isLWSch c = false) := by
  refine ⟨h.bounds.1, h.bounds.2, h.first, ?_⟩
  induction h with
  | last v j p ht hvj _ => exact ht (j - 1) (by omega) (by omega)
  | cons v j v2 ve p c _ _ _ _ _ _ _ ih => exact ih

theorem header_block (b : Buf) (hb : Option PHdrVals) (hfit : b.size ≤ 65535) (o e : Nat) (hs : List Hdr)
    (H : HdrBlock b o hs e) (hl : HdrLst) (hc : HlsClean hl) (hcur : hl.cur = {})
    (hg : hb = none ∨ ∀ h ∈ hs, IsOther h.type) :
    parseHeaders b o hl hb =
      (e, (if (hl.acceptAll hs).n > 0 then Err.ok else Err.empty), (hl.acceptAll hs).setCur { state := .fin }, hb) :=
  parseHeaders_block b hb hfit H hl hc hcur hg

/-- a new list object (any capacity) satisfies the hypotheses of `header_block` -/
theorem new_list_ok (k : Nat) :
    HlsClean ({ hdrs := Array.replicate k {} } : HdrLst) ∧ ({ hdrs := Array.replicate k {} } : HdrLst).cur = {} := by
  have hrep : ∀ j, j < (Array.replicate k ({} : Hdr)).size → (Array.replicate k ({} : Hdr))[j]! = {} := by
    intro j hj; simp at hj; simp [hj]
  refine ⟨⟨fun j _ hj => hrep j hj, fun _ => rfl⟩, ?_⟩
  unfold HdrLst.cur
  split
  · rename_i hin; exact hrep _ hin
  · rfl

theorem block_count (hl : HdrLst) (hs : List Hdr) :
    ((hl.acceptAll hs).setCur { state := .fin }).n = hl.n + hs.length := by
  rw [hlSetCur_n, acceptAll_n]

theorem block_stored (hl : HdrLst) (hs : List Hdr) (k : Nat) (hk : k < hs.length) (hin : hl.n + k < hl.hdrs.size) :
    ((hl.acceptAll hs).setCur { state := .fin }).hdrs[hl.n + k]! = hs[k] := by
  rw [hlSetCur_ne _ _ _ (by rw [acceptAll_n]; omega)]
  exact acceptAll_stored hl hs k hk hin

theorem block_flags (hl : HdrLst) (hs : List Hdr) (t : Nat) (ht : t < 16) (h0 : hl.pflags < 65536) :
    ((hl.acceptAll hs).setCur { state := .fin }).pflags.testBit t =
      (hl.pflags.testBit t || hs.any (fun h => h.type == t)) := by
  rw [(hlSetCur_scalars _ _).1]; exact acceptAll_pflags hl hs t ht h0

theorem block_first_of_type (hl : HdrLst) (hs : List Hdr) (j : Nat) (hj : j < hl.h.size)
    (hm : hl.h[j]!.missing = true) :
    ((hl.acceptAll hs).setCur { state := .fin }).h[j]! =
      (match hs.find? (fun h => h.type == j + 1) with | some h => h | none => hl.h[j]!) := by
  rw [(hlSetCur_scalars _ _).2]; exact (acceptAll_first hl hs j hj hm).1

/-! ### non-vacuity -/

/-- test (not a proof of the property): a folded header with white space before the colon, lone-CR line end -/
example : (parseHdrLine "Subject :  a\r\n b \rX".toUTF8.data 0 {} none).1 = 18 ∧
    (parseHdrLine "Subject :  a\r\n b \rX".toUTF8.data 0 {} none).2.2.1 =
      { type := HdrOther, name := ⟨0, 7⟩, val := ⟨11, 5⟩, state := .fin } := by
  decide +kernel

/-- the hypotheses of `header_line` are satisfiable: the line `a:b CR LF` followed by `X` -/
example : HdrLineAt "a:b\r\nX".toUTF8.data 0 5 (hdrAt (getHdrType ("a:b\r\nX".toUTF8.data.extract 0 1)) 0 1 ⟨2, 1⟩ .fin) := by
  refine Or.inl ⟨1, 1, 2, 3, 3, 88, ?_, by decide, ?_, by decide, by decide, Lws.nil 2, ?_, ?_, by decide, by decide, rfl⟩
  · intro k _ hk
    have : k = 0 := by omega
    subst this
    exact ⟨97, by decide, by decide, by decide⟩
  · intro k h1 h2; omega
  · refine ValRun.last 2 3 3 ?_ (by decide) (Lws.nil 3)
    intro k h1 h2
    have : k = 2 := by omega
    subst this
    exact ⟨98, by decide, by decide⟩
  · exact Eol.crlf 3 (by decide) (by decide)

/-! ### the eight header types with dedicated value parsers, values object supplied (proved in `Sipsp.Proofs.HdrTyped`) -/

theorem typed_from : type_of% @Sipsp.ht_line_from := @Sipsp.ht_line_from

theorem typed_to : type_of% @Sipsp.ht_line_to := @Sipsp.ht_line_to

theorem typed_callid : type_of% @Sipsp.ht_line_callid := @Sipsp.ht_line_callid

theorem typed_cseq : type_of% @Sipsp.ht_line_cseq := @Sipsp.ht_line_cseq

theorem typed_clen : type_of% @Sipsp.ht_line_clen := @Sipsp.ht_line_clen

theorem typed_expires : type_of% @Sipsp.ht_line_expires := @Sipsp.ht_line_expires

theorem typed_contact : type_of% @Sipsp.ht_line_contact := @Sipsp.ht_line_contact

theorem typed_pai : type_of% @Sipsp.ht_line_pai := @Sipsp.ht_line_pai

/-- **From**: name, colon, a name-addr value of the C09 grammar (leading linear white space included) ending with
    the line end; new From object. The header's value is the value span of the name-addr value. -/
theorem from_value : type_of% @Sipsp.ht_from_value := @Sipsp.ht_from_value

/-- **To** -/
theorem to_value : type_of% @Sipsp.ht_to_value := @Sipsp.ht_to_value

/-- **Call-ID**: name, colon, a Call-ID value; new Call-ID object. The header's value is the run `[v, j)`. -/
theorem callid_value : type_of% @Sipsp.ht_callid_value := @Sipsp.ht_callid_value

/-- **Expires**: name, colon, digits; new object. The header's value is the digit string, the number its value. -/
theorem expires_value : type_of% @Sipsp.ht_expires_value := @Sipsp.ht_expires_value

/-- **Content-Length**: name, colon, at most 9 digits with a value of at most 2^24; new object -/
theorem clen_value : type_of% @Sipsp.ht_clen_value := @Sipsp.ht_clen_value

/-- **CSeq**: name, colon, a CSeq value; new object. The header's value runs from the number through the method. -/
theorem cseq_value : type_of% @Sipsp.ht_cseq_value := @Sipsp.ht_cseq_value

/-- **Contact**: name, colon, a comma-separated list of name-addr values of the C09 grammar ending with the line end.
    The header's value runs from the start of the first value to the end of the last one (`htSpan`, see
    `ht_lhv_line`); the contacts object is `htLine` of the old one: header counter bumped, values accepted in order. -/
theorem contact_values_line : type_of% @Sipsp.ht_contact_values := @Sipsp.ht_contact_values

/-- **P-Asserted-Identity**: as `ht_contact_values` -/
theorem pai_values_line : type_of% @Sipsp.ht_pai_values := @Sipsp.ht_pai_values

/-- a header line with a value, scanned generically although a values object is supplied -/
theorem generic_with_values : type_of% @Sipsp.ht_line_gen := @Sipsp.ht_line_gen

/-- **ParseHeaders on a well-formed block with a values object**: one header per line, in order (generic and typed
    lines mixed), the values object as left by the typed lines, then the end of the block -/
theorem typed_block : type_of% @Sipsp.ht_parseHeaders_block := @Sipsp.ht_parseHeaders_block

/-! ### soundness for ALL inputs: accepted => a line / block of the grammar (proved in `Sipsp.Proofs.HdrSound`) -/

/-- **(1) soundness of an accepted line**: whatever ParseHdrLine accepts (OK) is a header line of the grammar, and the
    header reported is exactly the one the grammar denotes -/
theorem line_sound : type_of% @Sipsp.hs_line_sound := @Sipsp.hs_line_sound

/-- the same with the positions spelled out: name `[o, n)` (non-empty), spaces / tabs up to the colon at `c`, linear
    white space, then either a value `[v, ve)` of tokens and linear white space or nothing, the line end at `p`, and
    a byte after the line end that is not SP / HT (the look-ahead that tells the end of the header from a fold) -/
theorem line_sound_explicit : type_of% @Sipsp.hs_line_sound_explicit := @Sipsp.hs_line_sound_explicit

/-- **accepted iff of the grammar** (line level, with `parseHdrLine_spec` for the other direction) -/
theorem line_ok_iff : type_of% @Sipsp.hs_line_ok_iff := @Sipsp.hs_line_ok_iff

/-- a rejected or suspended line is not a line of the grammar (from completeness: the scanner is a function) -/
theorem line_reject : type_of% @Sipsp.hs_line_reject := @Sipsp.hs_line_reject

/-- **every other verdict is "more bytes" or the error "bad character"** -/
theorem line_verdicts : type_of% @Sipsp.hs_line_verdicts := @Sipsp.hs_line_verdicts

theorem line_empty_iff : type_of% @Sipsp.hs_line_empty_iff := @Sipsp.hs_line_empty_iff

/-- **(2) soundness of an accepted block**: if ParseHeaders ends with OK (or "empty": no header at all), the text
    `[o, e)` is a block of the grammar — header lines one after the other, then the empty line — and the list object
    is exactly what accepting the headers denoted by those lines, in order, produces -/
theorem block_sound : type_of% @Sipsp.hs_block_sound := @Sipsp.hs_block_sound

/-- **(3) ParseHeaders accepts iff the text is a block of the grammar** (new list object of any capacity, generic
    treatment): the result is OK at `e` with list object `hl'` iff `[o, e)` is a block with at least one header line
    and `hl'` is the list object those headers produce. An ill-formed block is never accepted, a well-formed one never
    rejected, and what is reported is determined by the grammar. -/
theorem block_ok_iff : type_of% @Sipsp.hs_block_ok_iff := @Sipsp.hs_block_ok_iff

/-- the same without the list object: ParseHeaders says OK at `e` iff `[o, e)` is a non-empty block of the grammar -/
theorem block_accepts_iff : type_of% @Sipsp.hs_block_accepts_iff := @Sipsp.hs_block_accepts_iff

/-- "empty" (no header at all): exactly when the text at `o` is the empty line -/
theorem block_empty_iff : type_of% @Sipsp.hs_block_empty_iff := @Sipsp.hs_block_empty_iff

/-- the verdicts of ParseHeaders (generic treatment): OK, "empty", "more bytes", or the error "bad character" -/
theorem block_verdicts : type_of% @Sipsp.hs_block_verdicts := @Sipsp.hs_block_verdicts

/-- **what an accepted block reports** (new list object of capacity `k`, generic treatment): the headers of the block
    of the grammar, counted / stored / flagged / indexed as `hs_new_report` says -/
theorem block_report : type_of% @Sipsp.hs_block_report := @Sipsp.hs_block_report

/-- a block of the grammar at `o` is unique: its end and the headers it denotes are determined by the text -/
theorem block_unique : type_of% @Sipsp.hs_block_unique := @Sipsp.hs_block_unique

/-- **name and type of ANY accepted line, with or without a values object, typed or not**: if ParseHdrLine says OK
    for a new header object, the text at `o` starts with a non-empty name `[o, n)` (no SP / HT / CR / LF / colon in
    it), spaces / tabs, and the colon; the reported name is `[o, n)`, the reported type is the classification of
    exactly that text, and the header is finished -/
theorem line_name_type_sound : type_of% @Sipsp.hs_line_name_type_sound := @Sipsp.hs_line_name_type_sound

/-- **what ANY accepted block reports** (new list object of capacity `k`, with or without a values object, typed
    lines included): a chain of lines whose reported names and types are right (`HsChain`), counted / stored / flagged
    / indexed as `hs_new_report` says -/
theorem block_all_report : type_of% @Sipsp.hs_block_all_report := @Sipsp.hs_block_all_report

/-- a line accepted by a RESUMED call — the first call on the prefix `b` asked for more bytes, the second call
    continues at the returned offset with the returned objects on the longer buffer — is a line of the grammar in
    the longer buffer, starting at the ORIGINAL offset, and the header reported is the one it denotes -/
theorem line_sound_resumed : type_of% @Sipsp.hs_line_resumed_sound := @Sipsp.hs_line_resumed_sound

/-- the same for ParseHeaders: a block accepted by a resumed call is a block of the grammar in the longer buffer
    from the original offset, and the list object is the one its headers produce -/
theorem block_sound_resumed : type_of% @Sipsp.hs_block_resumed_sound := @Sipsp.hs_block_resumed_sound

/-! ### soundness over every chunk schedule, typed lines suspended in the middle of the value (proved in `Sipsp.Proofs.ResumedConverse`) -/

theorem line_sound_schedule : type_of% @Sipsp.rc_line_sound_schedule := @Sipsp.rc_line_sound_schedule

/-- **(4) `line_sound` over EVERY chunk schedule** (generic treatment: no values object, or the name at `o` in the whole
    buffer is not one of the eight typed kinds): the chain ends with OK at `e` ⇒ the text at `o` of the WHOLE buffer is
    a header line of the grammar ending at `e`, the reported header is the one it denotes, the values object is
    untouched -/
theorem line_sound_schedule_from : type_of% @Sipsp.rc_line_sound_schedule_from := @Sipsp.rc_line_sound_schedule_from

/-- the same with the positions spelled out (`line_sound_explicit`) -/
theorem line_sound_explicit_schedule : type_of% @Sipsp.rc_line_sound_explicit_schedule := @Sipsp.rc_line_sound_explicit_schedule

/-- **accepted by the chain iff a line of the grammar in the whole buffer** (`line_ok_iff` over every schedule) -/
theorem line_ok_iff_schedule : type_of% @Sipsp.rc_line_ok_iff_schedule := @Sipsp.rc_line_ok_iff_schedule

/-- the "empty" verdict at the end of a chain: exactly the empty line of the whole buffer (ANY values object) -/
theorem line_empty_schedule_from : type_of% @Sipsp.rc_line_empty_schedule_from := @Sipsp.rc_line_empty_schedule_from

/-- the verdicts of a chain (generic treatment): OK, "empty", "more bytes" or the error "bad character" -/
theorem line_verdicts_schedule : type_of% @Sipsp.rc_line_verdicts_schedule := @Sipsp.rc_line_verdicts_schedule

/-- **name and type of ANY line accepted by a chain** (with or without a values object, typed or not, the value
    suspended anywhere): non-empty name, SP / HT, colon in the whole buffer; reported name = that text, reported type =
    its classification, header finished -/
theorem line_name_type_schedule_from : type_of% @Sipsp.rc_line_name_type_schedule_from := @Sipsp.rc_line_name_type_schedule_from

/-- … and if the REPORTED type is not one of the eight typed kinds, the whole line is a line of the grammar -/
theorem line_sound_reported_schedule_from : type_of% @Sipsp.rc_line_sound_reported_schedule_from := @Sipsp.rc_line_sound_reported_schedule_from

theorem block_sound_schedule : type_of% @Sipsp.rc_block_sound_schedule := @Sipsp.rc_block_sound_schedule

/-- **(4) `block_sound` over EVERY chunk schedule** (generic treatment `HsGeneric` of the whole buffer: no values
    object, or no line start carries one of the eight typed names): the chain ends with OK or "empty" at `e` ⇒ `[o, e)`
    of the WHOLE buffer is a block of the grammar, the list object is exactly what accepting its headers in order
    produces, the values object is untouched -/
theorem block_sound_schedule_from : type_of% @Sipsp.rc_block_sound_schedule_from := @Sipsp.rc_block_sound_schedule_from

/-- **the chain accepts iff the text of the whole buffer is a non-empty block of the grammar** (`block_ok_iff`) -/
theorem block_ok_iff_schedule : type_of% @Sipsp.rc_block_ok_iff_schedule := @Sipsp.rc_block_ok_iff_schedule

/-- **what a block accepted by a chain reports** (`block_report`): count = number of lines, stored headers = the first
    `kh` lines in order, type flags, first-of-type table -/
theorem block_report_schedule : type_of% @Sipsp.rc_block_report_schedule := @Sipsp.rc_block_report_schedule

/-- the verdicts of a chain of ParseHeaders calls (generic treatment) -/
theorem block_verdicts_schedule : type_of% @Sipsp.rc_block_verdicts_schedule := @Sipsp.rc_block_verdicts_schedule

/-- **what ANY block accepted by a chain reports** (`block_all_report`; with or without a values object, typed lines
    included, suspended anywhere — also in the middle of a typed value): a chain of lines of the whole buffer whose
    reported names and types are right, counted / stored / flagged / indexed -/
theorem block_all_report_schedule_from : type_of% @Sipsp.rc_block_all_report_schedule_from := @Sipsp.rc_block_all_report_schedule_from

theorem typed_from_schedule : type_of% @Sipsp.rc_typed_from_schedule := @Sipsp.rc_typed_from_schedule

theorem typed_to_schedule : type_of% @Sipsp.rc_typed_to_schedule := @Sipsp.rc_typed_to_schedule

theorem typed_callid_schedule : type_of% @Sipsp.rc_typed_callid_schedule := @Sipsp.rc_typed_callid_schedule

theorem typed_cseq_schedule : type_of% @Sipsp.rc_typed_cseq_schedule := @Sipsp.rc_typed_cseq_schedule

theorem typed_clen_schedule : type_of% @Sipsp.rc_typed_clen_schedule := @Sipsp.rc_typed_clen_schedule

theorem typed_expires_schedule : type_of% @Sipsp.rc_typed_expires_schedule := @Sipsp.rc_typed_expires_schedule

theorem typed_contact_schedule : type_of% @Sipsp.rc_typed_contact_schedule := @Sipsp.rc_typed_contact_schedule

theorem typed_pai_schedule : type_of% @Sipsp.rc_typed_pai_schedule := @Sipsp.rc_typed_pai_schedule

theorem from_value_schedule : type_of% @Sipsp.rc_from_value_schedule := @Sipsp.rc_from_value_schedule

theorem to_value_schedule : type_of% @Sipsp.rc_to_value_schedule := @Sipsp.rc_to_value_schedule

theorem contact_values_schedule : type_of% @Sipsp.rc_contact_values_schedule := @Sipsp.rc_contact_values_schedule

theorem pai_values_schedule : type_of% @Sipsp.rc_pai_values_schedule := @Sipsp.rc_pai_values_schedule

/-- **a well-formed block with typed lines** (`typed_block` of C07: generic and typed lines mixed, every typed value
    meeting its grammar) is reported the same by EVERY chunk schedule: one header per line, in order, the values object
    threaded through the typed lines -/
theorem typed_block_schedule : type_of% @Sipsp.rc_typed_block_schedule := @Sipsp.rc_typed_block_schedule

/-! ### block soundness with the generic-treatment hypothesis restricted to the line starts INSIDE the accepted block (proved in `Sipsp.Proofs.AuditFixC`) -/

/-- **(2) soundness of an accepted block, hypothesis restricted to the accepted block**: if ParseHeaders ends with OK
    (or "empty") at `e`, and no line start of `[o, e)` carries a typed name (or there is no values object), then `[o, e)`
    is a block of the grammar and the list object is exactly what accepting its headers, in order, produces; the values
    object is untouched.  Nothing is assumed about the bytes from `e` on. -/
theorem block_sound_in : type_of% @Sipsp.afc_block_sound_in := @Sipsp.afc_block_sound_in

/-- **ParseHeaders (new list object of any capacity) accepts at `e` iff `[o, e)` is a non-empty block of the grammar** —
    for every `e` such that no line start of `[o, e)` carries a typed name (or without a values object) -/
theorem block_ok_iff_in : type_of% @Sipsp.afc_block_ok_iff_in := @Sipsp.afc_block_ok_iff_in

theorem block_sound_schedule_in : type_of% @Sipsp.afc_block_sound_schedule := @Sipsp.afc_block_sound_schedule

/-- **`block_sound` over EVERY chunk schedule, hypothesis restricted to the accepted block** of the whole buffer `B` -/
theorem block_sound_schedule_from_in : type_of% @Sipsp.afc_block_sound_schedule_from := @Sipsp.afc_block_sound_schedule_from

/-- **the chain accepts at `e` iff `[o, e)` of the whole buffer is a non-empty block of the grammar**, for every `e` such
    that no line start of `[o, e)` carries a typed name -/
theorem block_ok_iff_schedule_in : type_of% @Sipsp.afc_block_ok_iff_schedule := @Sipsp.afc_block_ok_iff_schedule

/-- **what a block accepted by a chain reports**, hypothesis restricted to the accepted block -/
theorem block_report_schedule_in : type_of% @Sipsp.afc_block_report_schedule := @Sipsp.afc_block_report_schedule

theorem generic_in_of_generic : type_of% @Sipsp.HsGeneric.afc_in := @Sipsp.HsGeneric.afc_in

/-! ### the verdict list with the generic-treatment hypothesis restricted to a region chosen by the caller (proved in `Sipsp.Proofs.Leftovers2`) -/

/-- **one ParseHeaders call** (list object in the state of a new one), hypothesis restricted to the line starts below
    `e'`: the verdict is OK / empty / MoreBytes / BadChar, or the text holds header lines of the grammar from `o` up
    to a line start at or beyond `e'` -/
theorem block_verdicts_in : type_of% @Sipsp.lo2_block_verdicts_in := @Sipsp.lo2_block_verdicts_in

/-- **every chunk schedule** (restricted form of `rc_block_verdicts_schedule`; `B` the last buffer) -/
theorem block_verdicts_schedule_in : type_of% @Sipsp.lo2_block_verdicts_schedule_in := @Sipsp.lo2_block_verdicts_schedule_in

end Sipsp.C07
