/-
  Property C03 — no premature verdicts: a definitive result never changes when more bytes arrive.

  Full statement (for every streaming parser P and flags without the end-of-input modes):
     P b o st = (o', e, st') ∧ e ≠ MoreBytes  →  P (b ++ s) o st = (o', e, st')     for ALL b, s, o, st.
  Proved here: skipCRLF, skipLWS (without POptInputEndF), skipToken / skipLine scanners, ParseCallIDVal,
  ParseUIntVal (= ParseExpiresVal), ParseCLenVal, SkipQuoted, ParseCSeqVal, ParseFLine, and
  ParseNameAddrPVal for every header kind (= ParseFromVal, ParseOneContact; 33-state machine),
  ParseAllContactValues, ParseAllPAIValues, ParseHdrLine, ParseHeaders and **ParseSIPMsg** (`stable_msg`:
  every flag combination without the no-more-data flag, every caller-supplied capacity, messages up to the
  documented 65,535-byte limit; the body extent of a message without Content-Length is the property's own
  exemption, `bodyToEnd`); and the generic theorems `runLoop_stable` / `runLoop_stableI` every loop parser is
  an instance of.
  The hypotheses `csOK` / `flOK` / `naOK` / `hlOK` / `msgOK` say that the object handed in is new, finished, or
  was returned by an earlier call on a prefix of the buffer (saved positions lie inside the buffer);
  `msgOK_init` shows that every object produced by Init satisfies `msgOK`.
  Also `stable_tokparam`: ParseTokenParam, every option combination without the end-of-input option
  (the property's own exemption), any object.
  The exempted case is characterised exactly (`body_to_end_grows`, `body_to_end_grows_init`, `body_to_end_bytes`,
  `body_to_end_really_changes`): for a message without Content-Length whose body is "the rest of the buffer", the
  call on the longer buffer returns OK at the new end and an object that differs from the first one ONLY in the body
  length, len(Buf) and the raw-message length (`BodyGrew`); the new body is the old body followed by the appended
  bytes; and the result does change when bytes are appended — so the exemption is necessary.
  `stable_uriparams`, `stable_urihdrs`: the URI parameter / header list wrappers (without the end-of-input option,
  legitimate list = clean unused slots; new and reset lists qualify).
  Strengthened after the sceptical review (`Sipsp.Proofs.AuditFixA`): the side condition `¬ bodyToEnd flags m'` of
  `stable_msg` looks only at the flags and at "no Content-Length parsed", so with flags 0 it also excluded every ERROR
  verdict reached before a Content-Length line — far more than the property's exemption (the body extent of an OK
  message without Content-Length). `stable_msg_errors`: every definitive verdict other than OK (first-line errors,
  header errors, empty, missing Content-Length, state error) is stable under ANY appended bytes with NO side condition;
  `stable_msg_all(_init)`: the side condition is needed for the OK verdict only (`e = OK → ¬ bodyToEnd`).
-/
import Sipsp.Proofs.CallID
import Sipsp.Proofs.UInt
import Sipsp.Proofs.SkipQuoted
import Sipsp.Proofs.NameAddrL1b
import Sipsp.Proofs.MsgL1
import Sipsp.Proofs.TokParamL1
import Sipsp.Proofs.MsgL1Body
import Sipsp.Proofs.UriListsL
import Sipsp.Proofs.FLine
import Sipsp.Proofs.AuditFixA

namespace Sipsp.C03
open Sipsp

theorem stable_skipCRLF (b s : Buf) (i : Nat) {n crl : Nat} {e : Err}
    (h : skipCRLF b i = (n, crl, e)) (he : e ≠ .moreBytes) : skipCRLF (b ++ s) i = (n, crl, e) :=
  skipCRLF_stable b s i h he

theorem stable_skipLWS (b s : Buf) (i flags : Nat) {n crl : Nat} {e : Err}
    (h : skipLWS b i flags = (n, crl, e)) (he : e ≠ .moreBytes) (hf : hasFlag flags POptInputEndF = false) :
    skipLWS (b ++ s) i flags = (n, crl, e) :=
  skipLWS_stable b s i flags h he hf

theorem stable_callid (b s : Buf) (o : Nat) (st : PCallIDBody) {o' : Nat} {e : Err} {st' : PCallIDBody}
    (h : parseCallIDVal b o st = (o', e, st')) (he : e ≠ .moreBytes) :
    parseCallIDVal (b ++ s) o st = (o', e, st') := parseCallIDVal_stable b s o st h he

theorem stable_uint (b s : Buf) (o : Nat) (st : PUIntBody) {o' : Nat} {e : Err} {st' : PUIntBody}
    (h : parseUIntVal b o st = (o', e, st')) (he : e ≠ .moreBytes) :
    parseUIntVal (b ++ s) o st = (o', e, st') := parseUIntVal_stable b s o st h he

theorem stable_clen (b s : Buf) (o : Nat) (st : PUIntBody) {o' : Nat} {e : Err} {st' : PUIntBody}
    (h : parseCLenVal b o st = (o', e, st')) (he : e ≠ .moreBytes) :
    parseCLenVal (b ++ s) o st = (o', e, st') := parseCLenVal_stable b s o st h he

theorem stable_skipquoted (b s : Buf) (o : Nat) {o' : Nat} {e : Err}
    (h : skipQuoted b o = (o', e)) (he : e ≠ .moreBytes) : skipQuoted (b ++ s) o = (o', e) :=
  skipQuoted_stable b s o h he

theorem stable_cseq (b s : Buf) (o : Nat) (st : PCSeqBody) (hok : csOK b o st) {o' : Nat} {e : Err}
    {st' : PCSeqBody} (h : parseCSeqVal b o st = (o', e, st')) (he : e ≠ .moreBytes) :
    parseCSeqVal (b ++ s) o st = (o', e, st') := parseCSeqVal_stable b s o st hok h he

theorem stable_fline (b s : Buf) (o : Nat) (pl : PFLine) (hok : flOK pl) (hfit : b.size ≤ 65535)
    {o' : Nat} {e : Err} {pl' : PFLine} (h : parseFLine b o pl = (o', e, pl')) (he : e ≠ .moreBytes) :
    parseFLine (b ++ s) o pl = (o', e, pl') := parseFLine_stable b s o pl hok hfit h he

theorem stable_nameaddr (t : Nat) (b s : Buf) (o : Nat) (pf : PFromBody) (hok : naOK b o pf)
    {o' : Nat} {e : Err} {pf' : PFromBody} (h : parseNameAddrPVal t b o pf = (o', e, pf')) (he : e ≠ .moreBytes) :
    parseNameAddrPVal t (b ++ s) o pf = (o', e, pf') := parseNameAddrPVal_stable t b s o pf hok h he

theorem stable_contacts (b s : Buf) (o : Nat) (c : PContacts) (hok : ctOK b o c) (ho : o ≤ b.size)
    {o' : Nat} {e : Err} {c' : PContacts} (h : parseAllContactValues b o c = (o', e, c')) (he : e ≠ .moreBytes) :
    parseAllContactValues (b ++ s) o c = (o', e, c') := parseAllContactValues_stable b s o c hok ho h he

theorem stable_pais (b s : Buf) (o : Nat) (c : PPAIs) (hok : paOK b o c) (ho : o ≤ b.size)
    {o' : Nat} {e : Err} {c' : PPAIs} (h : parseAllPAIValues b o c = (o', e, c')) (he : e ≠ .moreBytes) :
    parseAllPAIValues (b ++ s) o c = (o', e, c') := parseAllPAIValues_stable b s o c hok ho h he

theorem stable_hdrline (b s : Buf) (o : Nat) (h : Hdr) (hb : Option PHdrVals) (hok : hlOK b o h hb)
    {o' : Nat} {e : Err} {h' : Hdr} {hb' : Option PHdrVals}
    (hr : parseHdrLine b o h hb = (o', e, h', hb')) (he : e ≠ .moreBytes) :
    parseHdrLine (b ++ s) o h hb = (o', e, h', hb') := parseHdrLine_stable b s o h hb hok hr he

theorem stable_headers (b s : Buf) (o : Nat) (hl : HdrLst) (hb : Option PHdrVals)
    (hok1 : hlsOK b hl) (hok2 : hbOK b o hb) {o' : Nat} {e : Err} {hl' : HdrLst} {hb' : Option PHdrVals}
    (hr : parseHeaders b o hl hb = (o', e, hl', hb')) (he : e ≠ .moreBytes) :
    parseHeaders (b ++ s) o hl hb = (o', e, hl', hb') := parseHeaders_stable b s o hl hb hok1 hok2 hr he

/-- **C03 for the message parser** -/
theorem stable_msg (b s : Buf) (o : Nat) (m : PSIPMsg) (flags : Nat) (hok : msgOK b o m)
    (hfit : b.size ≤ 65535) (hnf : hasFlag flags SIPMsgNoMoreDataF = false)
    {o' : Nat} {e : Err} {m' : PSIPMsg} (hr : parseSIPMsg b o m flags = (o', e, m'))
    (he : e ≠ .moreBytes) (hx : ¬ bodyToEnd flags m') :
    parseSIPMsg (b ++ s) o m flags = (o', e, m') := parseSIPMsg_stable b s o m flags hok hfit hnf hr he hx

/-- … from any object produced by Init, with ZEROED caller arrays of any capacity (or none) -/
theorem stable_msg_init (b s : Buf) (o : Nat) (ho : o ≤ b.size) (m0 : PSIPMsg) (len kh kc : Nat)
    (hdrs cts : Option Unit) (flags : Nat) (hfit : b.size ≤ 65535)
    (hnf : hasFlag flags SIPMsgNoMoreDataF = false) {o' : Nat} {e : Err} {m' : PSIPMsg}
    (hr : parseSIPMsg b o (m0.init len (hdrs.map fun _ => Array.replicate kh {})
      (cts.map fun _ => Array.replicate kc {})) flags = (o', e, m'))
    (he : e ≠ .moreBytes) (hx : ¬ bodyToEnd flags m') :
    parseSIPMsg (b ++ s) o (m0.init len (hdrs.map fun _ => Array.replicate kh {})
      (cts.map fun _ => Array.replicate kc {})) flags = (o', e, m') :=
  parseSIPMsg_stable b s o _ flags (msgOK_init b o ho m0 len kh kc hdrs cts) hfit hnf hr he hx

/-- ParseTokenParam (stand-alone parser; `POptInputEndF` is the "no more data" mode the property exempts) -/
theorem stable_tokparam (b s : Buf) (o : Nat) (p : PTokParam) (flags : Nat)
    (hf : hasFlag flags POptInputEndF = false) {o' : Nat} {e : Err} {p' : PTokParam}
    (h : parseTokenParam b o p flags = (o', e, p')) (he : e ≠ .moreBytes) :
    parseTokenParam (b ++ s) o p flags = (o', e, p') := parseTokenParam_stable b s o p flags hf h he

theorem stable_uriparams (b s : Buf) (offs : Nat) (l : URIParamsLst) (flags : Nat)
    (hf : hasFlag flags POptInputEndF = false) (hok : plOK b l) (ho : offs ≤ b.size) {o' n' : Nat} {e : Err}
    {l' : URIParamsLst} (h : parseAllURIParams b offs l flags = (o', n', e, l')) (he : e ≠ .moreBytes) :
    parseAllURIParams (b ++ s) offs l flags = (o', n', e, l') := parseAllURIParams_stable b s offs l flags hf hok ho h he

theorem stable_urihdrs (b s : Buf) (offs : Nat) (l : URIHdrsLst) (flags : Nat)
    (hf : hasFlag flags POptInputEndF = false) (hok : hlClean l) (ho : offs ≤ b.size) {o' n' : Nat} {e : Err}
    {l' : URIHdrsLst} (h : parseAllURIHdrs b offs l flags = (o', n', e, l')) (he : e ≠ .moreBytes) :
    parseAllURIHdrs (b ++ s) offs l flags = (o', n', e, l') := parseAllURIHdrs_stable b s offs l flags hf hok ho h he

/-- new lists of any capacity are legitimate -/
theorem new_lists_ok (b : Buf) (k : Nat) :
    plOK b { params := Array.replicate k {} } ∧ hlClean { hdrs := Array.replicate k {} } := ⟨plOK_new b k, hlClean_new k⟩

/-! ### the exempted case: body = rest of the buffer -/

/-- everything but the body length, len(Buf) and the raw length is unchanged; those are the ones of the longer buffer.
    (`hoffs`: the object is new, or its remembered start lies inside the shorter buffer, or the first call did not
    panic — automatically true for objects from Init) -/
theorem body_to_end_grows (b s : Buf) (o : Nat) (m : PSIPMsg) (flags : Nat) (hok : msgOK b o m)
    (hfit : (b ++ s).size ≤ 65535) (hnf : hasFlag flags SIPMsgNoMoreDataF = false) {o' : Nat} {m' : PSIPMsg}
    (hr : parseSIPMsg b o m flags = (o', .ok, m')) (hx : bodyToEnd flags m')
    (hoffs : m.state = .init ∨ m.offs ≤ b.size ∨ m'.pnc = false) :
    o' = b.size ∧ ∃ m'', parseSIPMsg (b ++ s) o m flags = ((b ++ s).size, .ok, m'') ∧ BodyGrew m' (b ++ s).size m'' :=
  parseSIPMsg_bodyToEnd_grows b s o m flags hok hfit hnf hr hx hoffs

theorem body_to_end_grows_init (b s : Buf) (o : Nat) (ho : o ≤ b.size) (m0 : PSIPMsg) (len kh kc : Nat)
    (hdrs cts : Option Unit) (flags : Nat) (hfit : (b ++ s).size ≤ 65535)
    (hnf : hasFlag flags SIPMsgNoMoreDataF = false) {o' : Nat} {m' : PSIPMsg}
    (hr : parseSIPMsg b o (m0.init len (hdrs.map fun _ => Array.replicate kh {})
      (cts.map fun _ => Array.replicate kc {})) flags = (o', .ok, m')) (hx : bodyToEnd flags m') :
    o' = b.size ∧ ∃ m'', parseSIPMsg (b ++ s) o (m0.init len (hdrs.map fun _ => Array.replicate kh {})
      (cts.map fun _ => Array.replicate kc {})) flags = ((b ++ s).size, .ok, m'') ∧ BodyGrew m' (b ++ s).size m'' :=
  parseSIPMsg_bodyToEnd_grows_init b s o ho m0 len kh kc hdrs cts flags hfit hnf hr hx

/-- the new body is the old body followed by the appended bytes -/
theorem body_to_end_bytes (b s : Buf) (o : Nat) (m : PSIPMsg) (flags : Nat) (hok : msgOK b o m)
    (hfit : (b ++ s).size ≤ 65535) (hnf : hasFlag flags SIPMsgNoMoreDataF = false) {o' : Nat} {m' : PSIPMsg}
    (hr : parseSIPMsg b o m flags = (o', .ok, m')) (hx : bodyToEnd flags m')
    (hoffs : m.state = .init ∨ m.offs ≤ b.size ∨ m'.pnc = false) {o'' : Nat} {e'' : Err} {m'' : PSIPMsg}
    (hr2 : parseSIPMsg (b ++ s) o m flags = (o'', e'', m'')) :
    ∃ body, m'.body.get? b = some body ∧ m''.body.get? (b ++ s) = some (body ++ s) :=
  parseSIPMsg_bodyToEnd_body b s o m flags hok hfit hnf hr hx hoffs hr2

/-- the exemption is necessary: with a non-empty extension the result does change -/
theorem body_to_end_really_changes (b s : Buf) (o : Nat) (m : PSIPMsg) (flags : Nat) (hok : msgOK b o m)
    (hfit : (b ++ s).size ≤ 65535) (hnf : hasFlag flags SIPMsgNoMoreDataF = false) {o' : Nat} {m' : PSIPMsg}
    (hr : parseSIPMsg b o m flags = (o', .ok, m')) (hx : bodyToEnd flags m')
    (hoffs : m.state = .init ∨ m.offs ≤ b.size ∨ m'.pnc = false) (hs : 0 < s.size) :
    (parseSIPMsg (b ++ s) o m flags).1 = o' + s.size ∧ parseSIPMsg (b ++ s) o m flags ≠ parseSIPMsg b o m flags :=
  parseSIPMsg_bodyToEnd_changes b s o m flags hok hfit hnf hr hx hoffs hs

/-- a new object satisfies the hypotheses -/
theorem new_objects_ok (b : Buf) (o : Nat) (ho : o ≤ b.size) :
    csOK b o {} ∧ flOK {} ∧ naOK b o {} := by
  refine ⟨Or.inr ⟨ho, by simp, by simp⟩, by simp [flOK], Or.inr ⟨ho, by simp, by simp⟩⟩

/-- the generic theorem: any loop parser whose steps are stable and whose end-of-buffer exit asks for more
    bytes has no premature verdict -/
theorem stable_generic {σ : Type} (m : Machine σ) (b s : Buf) (hst : StepStable m b s) (heob : EobMore m b)
    (i : Nat) (st : σ) {o : Nat} {e : Err} {st' : σ}
    (h : runLoop m b i st = (o, e, st')) (he : e ≠ .moreBytes) : runLoop m (b ++ s) i st = (o, e, st') :=
  runLoop_stable m b s hst heob i st h he

/-! ### non-vacuity -/
example : (parseCallIDVal #[97, 64, 98, 13, 10, 88] 0 {}).2.1 = Err.ok := by decide +kernel
example : (skipLWS #[32, 13, 10, 88] 0 0) = (1, 2, Err.eoh) := by decide +kernel

/-! ### token / line scanners (proved in `Sipsp.Proofs.FLine`) -/

/-- if the scan stopped on a byte of `b`, it stops there on every extension -/
theorem stable_skipToken : type_of% @Sipsp.skipToken_stable := @Sipsp.skipToken_stable

/-- `skipLine`: a definitive result is stable -/
theorem stable_skipLine : type_of% @Sipsp.skipLine_stable := @Sipsp.skipLine_stable

/-! ### every non-OK definitive verdict is stable without side condition (proved in `Sipsp.Proofs.AuditFixA`) -/

/-- **every ERROR verdict of ParseSIPMsg is stable**, whatever the flags (without no-more-data) and whether or not a
    Content-Length header was seen: first-line errors, header errors, `.empty`, NoCLen, the state error. -/
theorem stable_msg_errors : type_of% @Sipsp.parseSIPMsg_stable_err := @Sipsp.parseSIPMsg_stable_err

/-- **L1 for ParseSIPMsg, strengthened**: the exemption `bodyToEnd` (body = rest of the buffer) has to be excluded
    for the verdict OK only; every other definitive verdict is stable unconditionally. -/
theorem stable_msg_all : type_of% @Sipsp.parseSIPMsg_stable_all := @Sipsp.parseSIPMsg_stable_all

/-- … from any object produced by Init, caller arrays of any capacity (or none) -/
theorem stable_msg_all_init : type_of% @Sipsp.parseSIPMsg_stable_all_init := @Sipsp.parseSIPMsg_stable_all_init

end Sipsp.C03
