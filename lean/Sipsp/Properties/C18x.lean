/-
  Property C18 - extension file: theorems of this property that are proved in layers which themselves import
  Sipsp/Properties/C18.lean (message-level compositions, audit lemmas). Same namespace as the main file; the check
  audits both files together.
-/
import Sipsp.Properties.C18
import Sipsp.Proofs.AuditExamples

namespace Sipsp.C18
open Sipsp

/-! ### a relocated URI is well formed again (it can be relocated again) (proved in `Sipsp.Proofs.AuditExamples`) -/

/-- **C18: a relocated URI is again well formed** (what the header of C18 lists as not stated): after an accepted
    AdjustOffs onto a span inside the addressing range, the result satisfies `WF` with the same length, so
    `adjust_moves` / `adjust_refused` apply to a SECOND relocation -/
theorem relocated_is_wf : type_of% @Sipsp.ae_adjust_wf := @Sipsp.ae_adjust_wf

end Sipsp.C18
