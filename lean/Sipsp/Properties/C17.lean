/-
  Property C17 — parameter-list parsing (token parameters, URI parameters, URI headers) is faithful.

  The grammar (`Sipsp.Proofs.ParamSpec`), all positions being offsets into the buffer:
  * `PRun b flags i j`  : the bytes `[i, j)` are name / token-value bytes: allowed by `tokAllowedChar`, not the
    separator, not the terminator. `tokAllowedChar` is pinned to the documented set by `allowed_bytes_documented`;
    separator (`tpSep`: ';' or '&') and terminator (`tpTerm`: '?', ',' or none) are pinned to the option flags by
    `separator_*` / `terminator_*` (stated with `hasFlag` hypotheses).
  * `Lws b i j` (from C07): linear white space — spaces, tabs and folds (line end followed by SP / HT), possibly empty.
  * `Pad b sep i j`     : empty list items — any number of separators, each optionally preceded by white space.
  * `Ending b flags i o e st` : how a parameter ends after its name / value at `i`: optional white space, then
      - the separator, more empty items / white space and the first byte of the next parameter (an allowed byte
        that is neither separator nor terminator): `MoreValues`, offset of that byte (so: the offset right after
        the separator when nothing is skipped);
      - the separator, more empty items / white space and the terminator: `OK`, offset of the terminator — the
        empty item(s) before the terminator are skipped and the parameter is complete (behaviour after the repair
        of ParseTokenParam);
      - the separator (…) and the end of the header, or the end of the input with `POptInputEndF`: `EOH`;
      - the configured terminator: `OK`, offset OF the terminator (it is not consumed);
      - a line end that is not a fold (CR LF, lone CR, lone LF; next byte not SP / HT): `EOH`, offset after it;
      - with `POptInputEndF` the end of the input (nothing left, a trailing lone CR / LF, or trailing CR LF): `EOH`,
        offset = len(buf).
    `AfterSep` is the part of it that follows a separator.
  * `QBody b i e`       : the inside of a quoted string from `i` to the offset `e` after the closing quote: plain
    bytes, escape pairs (backslash + any byte but CR / LF), closing quote.

  Proved for ALL buffers within the 65,535-byte limit, ALL start offsets, ALL option words, ALL parameters of the
  grammar (names / values of any length, any amount of white space and folds around name, '=' and value, any
  number of skipped empty items before the parameter and after its separator), both separators and every ending,
  for a call on an object in its initial state (`p.state = .init`; the fields not written keep their value):
  * `one_param` : the plain case `name=token<sep><next byte>` without white space: offset after the separator,
    `MoreValues`, name / value / all exactly the spans of the text.
  * `param_token_value`, `param_no_value`, `param_quoted_value` : `name [LWS] = [LWS] token`, `name`,
    `name [LWS] = [LWS] "quoted"` followed by any `Ending`: the offset, verdict and final state are those of the
    ending; name and value are reported without the surrounding white space, the quoted value with its quotes,
    `all` spans from the first byte of the name to the end of the value (of the name when there is no value).
  * `quoted_string` : `SkipQuoted` accepts every `QBody` (escapes honoured) and returns the offset after the quote;
    `param_quoted_value` is stated for whatever `SkipQuoted` accepts.
  * `param_empty_value_sep`, `param_empty_value_term`, `param_empty_value_eoh`, `param_empty_value_end` :
    `name [LWS] = [LWS]` followed by the separator / terminator (empty value at that position) or by the end of
    the header / input (NO value recorded: the value field keeps what it held).
  * empty list items are skipped: built into every theorem (`Pad` before the parameter and inside `Ending`);
    `param_no_value_sep_terminator`, `param_token_value_sep_terminator` spell out the repaired case: separator,
    optional white space / further empty items, then the terminator → the parameter is reported complete, `OK`,
    offset of the terminator (the same holds for quoted / empty values through `Ending.sep` + `AfterSep.term`, and
    for the list wrappers through `GList`: the last parameter is counted, see the `a;?x` example).
  * `param_no_value_spterm`, `param_token_value_spterm` : with `POptTokSpTermF`, white space followed by a new
    token ends the parameter: `OK`, offset of the LAST WHITE-SPACE BYTE before the token.
  * rejection — `reject_start`, `reject_in_name`, `reject_value_start`, `reject_in_value` : a byte that is not
    allowed (and is not white space, separator, terminator, nor '=' after a name / '"' at the start of a value) gives
    `BadChar` at its own offset, wherever it stands in a name or token value; nothing is absorbed. `reject_start`
    is about the first parameter of a call (state init: there the terminator is NOT special, so it needs no
    terminator hypothesis).
  * list wrappers — `uri_param_list`, `uri_hdr_list` : for every parameter list of the grammar (`GList`: k ≥ 1
    parameters, each `name`, `name=token`, `name="quoted"` (any `QBody`) or `name=` before a separator, white space
    and empty items anywhere, the last one ended by the terminator or the end of the header / input) and a list
    object in its reset state (`Fresh`), ParseAllURIParams / ParseAllURIHdrs return the offset and verdict of the
    list end, count k values (also beyond the caller's array), store parameter `i` in slot `n+i` when the array
    has one (earlier slots untouched), and OR the type flags of all names. `all_uri_params` / `all_uri_hdrs` are
    the same for any sequence of ParseTokenParam results (`ParamSeq` / `HdrSeq`: `MoreValues` for all but the
    last, `OK` / `EOH` for the last). `uri_param_type_ignores_case`: the type is the table entry of the
    lower-cased name.
  The `decide +kernel` examples at the end are tests on concrete inputs (theorem and evaluation agree) and show
  that the hypotheses are satisfiable.

  Under every chunk schedule (`Sipsp.Proofs.ShiftParams`, composing the theorems above with C02's schedule theorems;
  without the end-of-input option): `tokparam_any_schedule`, `gparam_any_schedule`: whatever one call on the last
  buffer of a growing sequence of prefixes returns is what the chain of resumed calls returns — in particular a
  parameter of the grammar is reported exactly as written however the input was cut; `uri_param_list_any_schedule`,
  `uri_hdr_list_any_schedule`: a list of the grammar is decomposed exactly as in `uri_param_list` / `uri_hdr_list`
  (offset, verdict, total count, slots, type flags) under every chunk schedule.

  SOUNDNESS for ALL inputs (`Sipsp.Proofs.ParamSound`; every buffer ≤ 65,535 bytes, offset and option word, the
  end-of-input option included; new object / new or reset list): `tokparam_ok_iff`, `tokparam_sound`,
  `tokparam_complete`: ParseTokenParam returns OK / MoreValues / EOH iff the text at the offset is a parameter of the
  grammar `PSParam`, which fixes offset, verdict and the complete object; `grammar_is_accepted`,
  `accepted_is_grammar_or_extra`: `PSParam` is the grammar `GParam` above widened by exactly four documented shapes —
  (a) nothing before the end of header / input (EOH, object untouched), (b) at the very start of a call the terminator
  is not special (`?a;b` with the '?' terminator outside URI mode: name `?a`), (c) with the space terminator a token
  glued to a closing quote (`a="b"c`), (d) `name=` directly followed by the terminator / end (empty value recorded /
  no value recorded); `tokparam_charset`, `tokparam_fields`: an accepted parameter has a non-empty name of allowed
  bytes inside the buffer, `all` covers it, the value is empty, an unquoted run of allowed bytes or a complete quoted
  string — no byte outside the documented set outside quotes; `uriparams_ok_iff`, `urihdrs_ok_iff`: the wrappers
  return OK / EOH iff the text is a list of such parameters, N = number of items, every stored element is the
  corresponding item with its type; `list_items_named_or_empty_list`: every item has a non-empty name except for the
  empty list (the phantom parameter, known finding F17 — proved to be the only place it occurs); `more_values_advances`.

  REJECTED and SUSPENDED texts (`Sipsp.Proofs.ParamVerdicts`, every buffer, offset and option word, new object):
  `tokparam_verdicts(_desc)` — the only verdicts are OK, EOH, MoreValues, MoreBytes, BadChar; `tokparam_badChar_iff`
  (sound + complete): BadChar at `p` ⇔ the text before `p` is the beginning of a parameter that put the automaton in a
  state whose explicit reject set contains the byte at `p` (or a bad byte inside quotes / a line end after a
  back-slash); `tokparam_badChar_prefix_extends`, `tokparam_badChar_local`: the text before `p` IS a proper prefix of an
  accepted parameter and NO buffer agreeing up to and including `p` is accepted — the error offset is that of the first
  byte that cannot continue, never an innocent one; `tokparam_trichotomy`: accepted / MoreBytes / BadChar, mutually
  exclusive; `tokparam_moreBytes_extends`, `tokparam_moreBytes_prefixes`: a suspended text can be completed and every
  shorter buffer is suspended too; the list wrappers (`uriParamsLoop_stop_iff`, `parseAllURIParams_badChar_iff`,
  `*_verdicts`, `*_outcome`, same for headers): an error verdict iff one of the items has it, at that item's offset,
  the items before it counted and stored; stability of every rejection under appended bytes and every chunk schedule
  (`*_badChar_append`, `*_badChar_any_schedule`, `uriparams_any_schedule`); `pv_skipQuoted`: every outcome of SkipQuoted.
  NOT proved here:
  * the object (not only offset and verdict) returned with BadChar / MoreBytes; calls on objects that are not new;
  * the continuation theorem with the end-of-input option; an equivalence (not only an implication) for MoreBytes;
  * quoted value directly followed by a token with `POptTokSpTermF` (no white space in between).
  Behaviour worth knowing (all of it is also the behaviour of the Go source; concrete inputs in the report):
  * REPAIRED in the source and the model: the terminator directly after a separator (an empty last item) used to
    start a new parameter when it is an allowed byte (POptTokQmTermF, `a;?b?`: name `?b`) and to be rejected
    otherwise (`a;?x` in URI-parameter mode, `a;,b` with the comma terminator). It now ends the list: `OK` at the
    offset of the terminator, the parameter before it complete and counted (theorems and tests above).
  * UNCHANGED: at the very start of a call (state init, nothing parsed yet) the terminator is not special: an empty
    list directly followed by the terminator (`?x` in URI-parameter mode) is BadChar at its first byte, and with
    POptTokQmTermF alone a leading `?` starts a name.
  * an empty list at the end of the header / input is reported by the wrappers as ONE parameter (N = 1, empty
    name, type "other"): ParseTokenParam returns EOH in its initial state and the wrapper counts it.
  * `name = <end of header>` leaves the value field untouched while `name = <separator>` records an empty value;
    in `all`, the '=' is included only when it follows the name without white space and no value follows.
  * with POptTokSpTermF the offset returned is that of the last white-space byte, not of the token.
  Model tied to parse_params.go / parse_uri_params.go / parse_uri_hdrs.go by the correspondence check.
  SCOPE NOTES after the second sceptical review (AB1): "every buffer" — `tokparam_trichotomy`, the `*_stop_iff`,
  `*_badChar_iff`, `*_outcome`, `*_verdicts` and the list `*_any_schedule` theorems carry the documented `b.size ≤ 65535`;
  all stability / schedule theorems exclude the end-of-input option; `uri*_any_schedule` need the offset inside the first
  buffer; "new object" is the zero object. `tokparam_badChar_iff`, `tokparam_verdicts(_desc)`, `tokparam_badChar_local`,
  `tokparam_badChar_append` and `tokparam_badChar_prefix_extends` are unrestricted. `PVMore` (the MoreBytes description) is a
  NECESSARY condition only: it pins neither the returned offset nor excludes the end-of-input option (for `"a  "` it holds
  at 1, 2 and 3; the model returns 1) — the statement "MoreBytes is reported at the start of the unfinished white space"
  is backed by tests, not by a theorem. `*_extends` state a bare existence of the completed buffer; that at most five /
  six bytes are appended is in their proofs, not in their statements. STRENGTHENED afterwards (`Sipsp.Proofs.AuditFixC`):
  `moreBytes_iff` — `PVMoreAt` (= `PVMore` + the end-of-input option off in the white-space shape + `r` is the START of the
  unfinished white space) characterises MoreBytes at `r` EXACTLY, both directions; `*_extends_explicit` state the appended
  bytes (`B = b.extract 0 p ++ s`, `s.size ≤ 5` resp. 6).
-/
import Sipsp.Proofs.ParamSpec
import Sipsp.Proofs.ShiftParams
import Sipsp.Proofs.ParamSound
import Sipsp.Proofs.ParamVerdicts
import Sipsp.Proofs.AuditFixC

namespace Sipsp.C17
open Sipsp

/-! ### the option flags -/

theorem separator_semicolon {flags : Nat} (h1 : hasFlag flags POptParamAmpSepF = false)
    (h2 : hasFlag flags POptTokURIHdrF = false) : tpSep flags = 59 := tpSep_semi h1 h2

theorem separator_ampersand {flags : Nat}
    (h : hasFlag flags POptParamAmpSepF = true ∨ hasFlag flags POptTokURIHdrF = true) : tpSep flags = 38 :=
  tpSep_amp h

theorem terminator_question_mark {flags : Nat}
    (h : hasFlag flags POptTokQmTermF = true ∨ hasFlag flags POptTokURIParamF = true) : tpTerm flags = 63 :=
  tpTerm_qm h

theorem terminator_comma {flags : Nat} (h1 : hasFlag flags POptTokQmTermF = false)
    (h2 : hasFlag flags POptTokURIParamF = false) (h3 : hasFlag flags POptTokCommaTermF = true) :
    tpTerm flags = 44 := tpTerm_comma h1 h2 h3

theorem terminator_none {flags : Nat} (h1 : hasFlag flags POptTokQmTermF = false)
    (h2 : hasFlag flags POptTokURIParamF = false) (h3 : hasFlag flags POptTokCommaTermF = false) :
    tpTerm flags = 0 := tpTerm_none h1 h2 h3

/-- the allowed bytes are exactly the documented ones: letters, digits, `-_.!~*'()`, `%`, `[]/:+$`, plus `&` in
    URI-parameter mode and `?` otherwise — for every byte and every option word -/
theorem allowed_bytes_documented (c : UInt8) (flags : Nat) :
    tokAllowedChar c flags = docAllowed c (hasFlag flags POptTokURIParamF) := tokAllowedChar_doc c flags

/-! ### one parameter -/

/-- (1) the plain case: `name=token`, the separator, and the first byte of the next parameter (an allowed byte
    other than the separator and the terminator) -/
theorem one_param (b : Buf) (flags o n1 v1 : Nat) (c : UInt8) (hfit : b.size ≤ 65535)
    (hname : PRun b flags o n1) (hn : o < n1) (heq : b[n1]? = some 61)
    (hval : PRun b flags (n1 + 1) v1) (hv : n1 + 1 < v1) (hsep : b[v1]? = some (tpSep flags))
    (hnext : b[v1 + 1]? = some c) (hc : tokAllowedChar c flags = true) (hcs : c ≠ tpSep flags)
    (hct : c ≠ tpTerm flags) :
    parseTokenParam b o {} flags =
      (v1 + 1, .moreValues,
        { name := ⟨o, n1 - o⟩, val := ⟨n1 + 1, v1 - (n1 + 1)⟩, all := ⟨o, v1 - o⟩, state := .initNxtVal }) :=
  parseTokenParam_token_value flags b hfit {} rfl (Pad.nil o) (Lws.nil o) hname hn (Lws.nil n1) heq
    (Lws.nil (n1 + 1)) hval hv
    (Ending.sep v1 v1 (v1 + 1) .moreValues .initNxtVal (Lws.nil v1) hsep
      (AfterSep.more (v1 + 1) (v1 + 1) (v1 + 1) c (Pad.nil _) (Lws.nil _) hnext hc hcs hct))

/-- (1)–(3) `name [LWS] = [LWS] token` and any ending; empty items and white space before the name skipped -/
theorem param_token_value (b : Buf) (flags o t n0 n1 q v0 v1 o' : Nat) (e : Err) (st : TPState)
    (hfit : b.size ≤ 65535) (p : PTokParam) (hst : p.state = .init) (hpad : Pad b (tpSep flags) o t)
    (hl : Lws b t n0) (hname : PRun b flags n0 n1) (hn : n0 < n1) (hlq : Lws b n1 q) (heq : b[q]? = some 61)
    (hlv : Lws b (q + 1) v0) (hval : PRun b flags v0 v1) (hv : v0 < v1) (H : Ending b flags v1 o' e st) :
    parseTokenParam b o p flags =
      (o', e, { p with name := ⟨n0, n1 - n0⟩, val := ⟨v0, v1 - v0⟩, all := ⟨n0, v1 - n0⟩, state := st }) :=
  parseTokenParam_token_value flags b hfit p hst hpad hl hname hn hlq heq hlv hval hv H

/-- (3) a missing value: `name` and any ending -/
theorem param_no_value (b : Buf) (flags o t n0 n1 o' : Nat) (e : Err) (st : TPState) (hfit : b.size ≤ 65535)
    (p : PTokParam) (hst : p.state = .init) (hpad : Pad b (tpSep flags) o t) (hl : Lws b t n0)
    (hname : PRun b flags n0 n1) (hn : n0 < n1) (H : Ending b flags n1 o' e st) :
    parseTokenParam b o p flags =
      (o', e, { p with name := ⟨n0, n1 - n0⟩, all := ⟨n0, n1 - n0⟩, state := st }) :=
  parseTokenParam_no_value flags b hfit p hst hpad hl hname hn H

/-- (3) a quoted value: the opening quote at `v0`, the string ends (after its closing quote) at `qe` -/
theorem param_quoted_value (b : Buf) (flags o t n0 n1 q v0 qe o' : Nat) (e : Err) (st : TPState)
    (hfit : b.size ≤ 65535) (p : PTokParam) (hst : p.state = .init) (hpad : Pad b (tpSep flags) o t)
    (hl : Lws b t n0) (hname : PRun b flags n0 n1) (hn : n0 < n1) (hlq : Lws b n1 q) (heq : b[q]? = some 61)
    (hlv : Lws b (q + 1) v0) (hquote : b[v0]? = some 34) (hq : skipQuoted b (v0 + 1) = (qe, .ok))
    (H : Ending b flags qe o' e st) :
    parseTokenParam b o p flags =
      (o', e, { p with name := ⟨n0, n1 - n0⟩, val := ⟨v0, qe - v0⟩, all := ⟨n0, qe - n0⟩, state := st }) :=
  parseTokenParam_quoted_value flags b hfit p hst hpad hl hname hn hlq heq hlv hquote hq H

/-- (3) escapes honoured: `SkipQuoted` accepts every well-formed quoted-string body and returns the offset after
    the closing quote -/
theorem quoted_string (b : Buf) (i e : Nat) (h : QBody b i e) : skipQuoted b i = (e, .ok) :=
  skipQuoted_of_qbody h

/-- (3) an empty value: `name [LWS] = [LWS]` and the separator at `s` -/
theorem param_empty_value_sep (b : Buf) (flags o t n0 n1 q s o' : Nat) (e : Err) (st : TPState)
    (hfit : b.size ≤ 65535) (p : PTokParam) (hst : p.state = .init) (hpad : Pad b (tpSep flags) o t)
    (hl : Lws b t n0) (hname : PRun b flags n0 n1) (hn : n0 < n1) (hlq : Lws b n1 q) (heq : b[q]? = some 61)
    (hlv : Lws b (q + 1) s) (hs : b[s]? = some (tpSep flags)) (H : AfterSep b flags (s + 1) o' e st) :
    parseTokenParam b o p flags =
      (o', e, { p with name := ⟨n0, n1 - n0⟩, val := ⟨s, 0⟩, all := ⟨n0, s - n0⟩, state := st }) :=
  parseTokenParam_empty_value_sep flags b hfit p hst hpad hl hname hn hlq heq hlv hs H

/-- (3) an empty value: `name [LWS] = [LWS]` and the terminator at `u` -/
theorem param_empty_value_term (b : Buf) (flags o t n0 n1 q u : Nat) (hfit : b.size ≤ 65535)
    (p : PTokParam) (hst : p.state = .init) (hpad : Pad b (tpSep flags) o t) (hl : Lws b t n0)
    (hname : PRun b flags n0 n1) (hn : n0 < n1) (hlq : Lws b n1 q) (heq : b[q]? = some 61)
    (hlv : Lws b (q + 1) u) (hu : b[u]? = some (tpTerm flags)) (hne : tpTerm flags ≠ 0) :
    parseTokenParam b o p flags =
      (u, .ok, { p with name := ⟨n0, n1 - n0⟩, val := ⟨u, 0⟩,
                        all := ⟨n0, (if n1 = q then q + 1 else n1) - n0⟩, state := .fin }) :=
  parseTokenParam_empty_value_term flags b hfit p hst hpad hl hname hn hlq heq hlv hu hne

/-- (2)/(3) `name [LWS] = [LWS]` and the end of the header: `EOH`, no value recorded -/
theorem param_empty_value_eoh (b : Buf) (flags o t n0 n1 q x e : Nat) (c2 : UInt8) (hfit : b.size ≤ 65535)
    (p : PTokParam) (hst : p.state = .init) (hpad : Pad b (tpSep flags) o t) (hl : Lws b t n0)
    (hname : PRun b flags n0 n1) (hn : n0 < n1) (hlq : Lws b n1 q) (heq : b[q]? = some 61)
    (hlv : Lws b (q + 1) x) (he : Eol b x e) (h2 : b[e]? = some c2) (hw2 : isWS c2 = false) :
    parseTokenParam b o p flags =
      (e, .eoh, { p with name := ⟨n0, n1 - n0⟩,
                         all := ⟨n0, (if n1 = q then q + 1 else n1) - n0⟩, state := .fin }) :=
  parseTokenParam_empty_value_eoh flags b hfit p hst hpad hl hname hn hlq heq hlv he h2 hw2

/-- (2)/(3) `name [LWS] = [LWS]` and the end of the input (end-of-input option): `EOH`, no value recorded -/
theorem param_empty_value_end (b : Buf) (flags o t n0 n1 q x : Nat) (hfit : b.size ≤ 65535)
    (p : PTokParam) (hst : p.state = .init) (hpad : Pad b (tpSep flags) o t) (hl : Lws b t n0)
    (hname : PRun b flags n0 n1) (hn : n0 < n1) (hlq : Lws b n1 q) (heq : b[q]? = some 61)
    (hf : hasFlag flags POptInputEndF = true) (hlv : Lws b (q + 1) x) (he : EndTail b x) :
    parseTokenParam b o p flags =
      (b.size, .eoh, { p with name := ⟨n0, n1 - n0⟩,
                              all := ⟨n0, (if n1 = q then q + 1 else n1) - n0⟩, state := .fin }) :=
  parseTokenParam_empty_value_end flags b hfit p hst hpad hl hname hn hlq heq hf hlv he

/-- **an empty item right before the terminator ends the list** (no value): `name`, optional white space, the
    separator at `s`, any further empty items and white space, the terminator at `u`: the parameter is reported
    complete, `OK`, offset of the terminator -/
theorem param_no_value_sep_terminator (b : Buf) (flags o t n0 n1 s t' u : Nat) (hfit : b.size ≤ 65535)
    (p : PTokParam) (hst : p.state = .init) (hpad : Pad b (tpSep flags) o t) (hl : Lws b t n0)
    (hname : PRun b flags n0 n1) (hn : n0 < n1) (hls : Lws b n1 s) (hs : b[s]? = some (tpSep flags))
    (hpad' : Pad b (tpSep flags) (s + 1) t') (hlu : Lws b t' u) (hu : b[u]? = some (tpTerm flags))
    (hne : tpTerm flags ≠ 0) :
    parseTokenParam b o p flags =
      (u, .ok, { p with name := ⟨n0, n1 - n0⟩, all := ⟨n0, n1 - n0⟩, state := .fin }) :=
  parseTokenParam_no_value flags b hfit p hst hpad hl hname hn
    (Ending.sep n1 s u .ok .fin hls hs (AfterSep.term (s + 1) t' u hpad' hlu hu hne))

/-- **an empty item right before the terminator ends the list** (token value) -/
theorem param_token_value_sep_terminator (b : Buf) (flags o t n0 n1 q v0 v1 s t' u : Nat) (hfit : b.size ≤ 65535)
    (p : PTokParam) (hst : p.state = .init) (hpad : Pad b (tpSep flags) o t) (hl : Lws b t n0)
    (hname : PRun b flags n0 n1) (hn : n0 < n1) (hlq : Lws b n1 q) (heq : b[q]? = some 61)
    (hlv : Lws b (q + 1) v0) (hval : PRun b flags v0 v1) (hv : v0 < v1) (hls : Lws b v1 s)
    (hs : b[s]? = some (tpSep flags)) (hpad' : Pad b (tpSep flags) (s + 1) t') (hlu : Lws b t' u)
    (hu : b[u]? = some (tpTerm flags)) (hne : tpTerm flags ≠ 0) :
    parseTokenParam b o p flags =
      (u, .ok, { p with name := ⟨n0, n1 - n0⟩, val := ⟨v0, v1 - v0⟩, all := ⟨n0, v1 - n0⟩, state := .fin }) :=
  parseTokenParam_token_value flags b hfit p hst hpad hl hname hn hlq heq hlv hval hv
    (Ending.sep v1 s u .ok .fin hls hs (AfterSep.term (s + 1) t' u hpad' hlu hu hne))

/-- a parameter reported with `MoreValues` moves the offset forward, to a byte inside the buffer -/
theorem more_values_progress (b : Buf) (flags j o : Nat) (st : TPState) (H : Ending b flags j o .moreValues st) :
    j < o ∧ o < b.size := H.more_range

/-! ### the white-space terminator -/

theorem param_no_value_spterm (b : Buf) (flags o t n0 n1 u : Nat) (c : UInt8) (hfit : b.size ≤ 65535)
    (p : PTokParam) (hst : p.state = .init) (hpad : Pad b (tpSep flags) o t) (hl : Lws b t n0)
    (hname : PRun b flags n0 n1) (hn : n0 < n1) (hf : hasFlag flags POptTokSpTermF = true)
    (hlu : Lws b n1 u) (hnu : n1 < u) (hc : b[u]? = some c) (hpc : PChar flags c) :
    parseTokenParam b o p flags =
      (u - 1, .ok, { p with name := ⟨n0, n1 - n0⟩, all := ⟨n0, n1 - n0⟩, state := .fin }) :=
  parseTokenParam_no_value_spterm flags b hfit p hst hpad hl hname hn hf hlu hnu hc hpc

theorem param_token_value_spterm (b : Buf) (flags o t n0 n1 q v0 v1 u : Nat) (c : UInt8) (hfit : b.size ≤ 65535)
    (p : PTokParam) (hst : p.state = .init) (hpad : Pad b (tpSep flags) o t) (hl : Lws b t n0)
    (hname : PRun b flags n0 n1) (hn : n0 < n1) (hlq : Lws b n1 q) (heq : b[q]? = some 61)
    (hlv : Lws b (q + 1) v0) (hval : PRun b flags v0 v1) (hv : v0 < v1)
    (hf : hasFlag flags POptTokSpTermF = true)
    (hlu : Lws b v1 u) (hvu : v1 < u) (hc : b[u]? = some c) (hpc : PChar flags c) :
    parseTokenParam b o p flags =
      (u - 1, .ok, { p with name := ⟨n0, n1 - n0⟩, val := ⟨v0, v1 - v0⟩, all := ⟨n0, v1 - n0⟩, state := .fin }) :=
  parseTokenParam_token_value_spterm flags b hfit p hst hpad hl hname hn hlq heq hlv hval hv hf hlu hvu hc hpc

/-! ### (4) rejection -/

/-- a byte that cannot start a parameter (not allowed, not white space, not the separator) -/
theorem reject_start (b : Buf) (flags o t n0 : Nat) (c : UInt8) (p : PTokParam) (hst : p.state = .init)
    (hpad : Pad b (tpSep flags) o t) (hl : Lws b t n0) (hc : b[n0]? = some c)
    (ha : tokAllowedChar c flags = false) (hcl : isLWSch c = false) (hcs : c ≠ tpSep flags) :
    parseTokenParam b o p flags = (n0, .badChar, { p with state := .err }) :=
  parseTokenParam_bad_start flags b p hst hpad hl hc ha hcl hcs

/-- a bad byte at any position `j` inside or right after a name -/
theorem reject_in_name (b : Buf) (flags o t n0 j : Nat) (c : UInt8) (hfit : b.size ≤ 65535) (p : PTokParam)
    (hst : p.state = .init) (hpad : Pad b (tpSep flags) o t) (hl : Lws b t n0) (hname : PRun b flags n0 j)
    (hn : n0 < j) (hc : b[j]? = some c) (hbad : BadCh flags c) (h61 : c ≠ 61) :
    parseTokenParam b o p flags =
      (j, .badChar, { p with name := ⟨n0, 0⟩, all := ⟨n0, 0⟩, state := .err }) :=
  parseTokenParam_bad_name flags b hfit p hst hpad hl hname hn hc hbad h61

/-- a bad byte where a value should start -/
theorem reject_value_start (b : Buf) (flags o t n0 n1 q v0 : Nat) (c : UInt8) (hfit : b.size ≤ 65535)
    (p : PTokParam) (hst : p.state = .init) (hpad : Pad b (tpSep flags) o t) (hl : Lws b t n0)
    (hname : PRun b flags n0 n1) (hn : n0 < n1) (hlq : Lws b n1 q) (heq : b[q]? = some 61)
    (hlv : Lws b (q + 1) v0) (hc : b[v0]? = some c) (hbad : BadCh flags c) (h34 : c ≠ 34) :
    parseTokenParam b o p flags =
      (v0, .badChar, { p with name := ⟨n0, n1 - n0⟩, all := ⟨n0, (if n1 = q then q + 1 else n1) - n0⟩,
                              state := .err }) :=
  parseTokenParam_bad_value_start flags b hfit p hst hpad hl hname hn hlq heq hlv hc hbad h34

/-- a bad byte at any position `j` inside or right after a token value -/
theorem reject_in_value (b : Buf) (flags o t n0 n1 q v0 j : Nat) (c : UInt8) (hfit : b.size ≤ 65535)
    (p : PTokParam) (hst : p.state = .init) (hpad : Pad b (tpSep flags) o t) (hl : Lws b t n0)
    (hname : PRun b flags n0 n1) (hn : n0 < n1) (hlq : Lws b n1 q) (heq : b[q]? = some 61)
    (hlv : Lws b (q + 1) v0) (hval : PRun b flags v0 j) (hv : v0 < j) (hc : b[j]? = some c)
    (hbad : BadCh flags c) :
    parseTokenParam b o p flags =
      (j, .badChar, { p with name := ⟨n0, n1 - n0⟩, val := ⟨v0, 0⟩, all := ⟨n0, v0 - n0⟩, state := .err }) :=
  parseTokenParam_bad_value flags b hfit p hst hpad hl hname hn hlq heq hlv hval hv hc hbad

/-! ### (5) the list wrappers -/

/-- ParseAllURIParams on a parameter list: offset and verdict of the last parameter, all parameters counted,
    stored in order (as far as the array reaches), their type flags accumulated -/
theorem all_uri_params (b : Buf) (flags o o' : Nat) (e : Err) (items : List URIParam)
    (H : ParamSeq b (flags ||| POptParamSemiSepF) o items o' e) (l : URIParamsLst) (hl : l.Fresh) :
    ∃ r, parseAllURIParams b o l flags = (o', items.length, e, r) ∧
      r.n = l.n + items.length ∧
      r.types = items.foldl (fun a x => a ||| x.t) l.types ∧
      r.params.size = l.params.size ∧ r.pnc = l.pnc ∧
      (∀ i x, items[i]? = some x → l.n + i < l.params.size → r.params[l.n + i]? = some x) ∧
      (∀ j, j < l.n → r.params[j]? = l.params[j]?) := by
  refine ⟨items.foldl URIParamsLst.push l, ?_, foldl_push_n items l, foldl_push_types items l,
    foldl_push_size items l, foldl_push_pnc items l, fun i x hi hc => foldl_push_get items l i x hi hc,
    fun j hj => foldl_push_get_lt items l j hj⟩
  unfold parseAllURIParams
  rw [uriParamsLoop_seq H l 0 hl, Nat.zero_add]

/-- the type of a URI parameter is the table entry of its lower-cased name (transport, lr, maddr, user, method,
    ttl; anything else is "other") -/
theorem uri_param_type_ignores_case (nm : Buf) : uriParamResolve nm = uriParamOfLower (lowerL nm.toList) :=
  uriParamResolve_lower nm

/-- ParseAllURIHdrs on a header list -/
theorem all_uri_hdrs (b : Buf) (flags o o' : Nat) (e : Err) (items : List PTokParam)
    (H : HdrSeq b (flags ||| POptParamAmpSepF ||| POptTokURIHdrF) o items o' e) (l : URIHdrsLst) (hl : l.Fresh) :
    ∃ r, parseAllURIHdrs b o l flags = (o', items.length, e, r) ∧
      r.n = l.n + items.length ∧ r.hdrs.size = l.hdrs.size ∧
      (∀ i x, items[i]? = some x → l.n + i < l.hdrs.size → r.hdrs[l.n + i]? = some x) ∧
      (∀ j, j < l.n → r.hdrs[j]? = l.hdrs[j]?) := by
  refine ⟨items.foldl URIHdrsLst.push l, ?_, foldl_hpush_n items l, foldl_hpush_size items l,
    fun i x hi hc => foldl_hpush_get items l i x hi hc, fun j hj => foldl_hpush_get_lt items l j hj⟩
  unfold parseAllURIHdrs
  rw [uriHdrsLoop_seq H l 0 hl, Nat.zero_add]

/-- (5) **a parameter list of the grammar** (`GList`: k ≥ 1 parameters, each without value / with a token, quoted
    or empty value, white space and empty items anywhere, the last one ended by the terminator or the end of the
    header / input): ParseAllURIParams returns the offset and verdict of the list end, counts k values, stores
    parameter `i` with the type of its name in slot `n + i`, and accumulates the type flags -/
theorem uri_param_list (b : Buf) (flags o o' : Nat) (e : Err) (tps : List PTokParam) (hfit : b.size ≤ 65535)
    (H : GList b (flags ||| POptParamSemiSepF) o tps o' e) (l : URIParamsLst) (hl : l.Fresh) :
    ∃ r, parseAllURIParams b o l flags = (o', tps.length, e, r) ∧
      r.n = l.n + tps.length ∧
      r.types = tps.foldl (fun a tp => a ||| uriParamResolve (nameOf b tp)) l.types ∧
      r.params.size = l.params.size ∧ r.pnc = l.pnc ∧
      (∀ i tp, tps[i]? = some tp → l.n + i < l.params.size →
        r.params[l.n + i]? = some { param := tp, t := uriParamResolve (nameOf b tp) }) ∧
      (∀ j, j < l.n → r.params[j]? = l.params[j]?) := by
  obtain ⟨r, h1, h2, h3, h4, h5, h6, h7⟩ := all_uri_params b flags o o' e _ (H.paramSeq hfit) l hl
  refine ⟨r, ?_, ?_, ?_, h4, h5, ?_, h7⟩
  · rw [h1, List.length_map]
  · rw [h2, List.length_map]
  · rw [h3, List.foldl_map]; rfl
  · intro i tp hi hc
    exact h6 i _ (by rw [List.getElem?_map, hi]; rfl) hc

/-- (5) the same for ParseAllURIHdrs (separator '&') -/
theorem uri_hdr_list (b : Buf) (flags o o' : Nat) (e : Err) (tps : List PTokParam) (hfit : b.size ≤ 65535)
    (H : GList b (flags ||| POptParamAmpSepF ||| POptTokURIHdrF) o tps o' e) (l : URIHdrsLst) (hl : l.Fresh) :
    ∃ r, parseAllURIHdrs b o l flags = (o', tps.length, e, r) ∧
      r.n = l.n + tps.length ∧ r.hdrs.size = l.hdrs.size ∧
      (∀ i tp, tps[i]? = some tp → l.n + i < l.hdrs.size → r.hdrs[l.n + i]? = some tp) ∧
      (∀ j, j < l.n → r.hdrs[j]? = l.hdrs[j]?) :=
  all_uri_hdrs b flags o o' e tps (H.hdrSeq hfit) l hl

/-! ### tests on concrete inputs / the hypotheses are satisfiable -/

/-- test (evaluation of the model): `ab=cd;e`, no options -/
example : parseTokenParam "ab=cd;e".toUTF8.data 0 {} 0 =
    (6, .moreValues, { name := ⟨0, 2⟩, val := ⟨3, 2⟩, all := ⟨0, 5⟩, state := .initNxtVal }) := by
  decide +kernel

/-- non-vacuity of `one_param`: the same input meets its hypotheses (and the theorem gives the same result) -/
example : parseTokenParam "ab=cd;e".toUTF8.data 0 {} 0 =
    (6, .moreValues, { name := ⟨0, 2⟩, val := ⟨3, 2⟩, all := ⟨0, 5⟩, state := .initNxtVal }) := by
  refine one_param _ 0 0 2 5 101 (by decide) ?_ (by decide) (by decide) ?_ (by decide) (by decide) (by decide)
    (by decide) (by decide) (by decide)
  · intro k h1 h2
    have : k = 0 ∨ k = 1 := by omega
    rcases this with rfl | rfl
    · exact ⟨97, by decide, by decide, by decide, by decide⟩
    · exact ⟨98, by decide, by decide, by decide, by decide⟩
  · intro k h1 h2
    have : k = 3 ∨ k = 4 := by omega
    rcases this with rfl | rfl
    · exact ⟨99, by decide, by decide, by decide, by decide⟩
    · exact ⟨100, by decide, by decide, by decide, by decide⟩

/-- test: URI-parameter mode with the end-of-input option (flags 88: separator ';', terminator '?'), two empty
    items, white space, a fold before `=`, white space around the value, the terminator -/
example : parseTokenParam ";; Tag \r\n = x1 ?z".toUTF8.data 0 {} 88 =
    (15, .ok, { name := ⟨3, 3⟩, val := ⟨12, 2⟩, all := ⟨3, 11⟩, state := .fin }) := by
  decide +kernel

/-- non-vacuity of `param_token_value` (with `Pad`, `Lws` with a fold, `Ending.term`): the same input -/
example : parseTokenParam ";; Tag \r\n = x1 ?z".toUTF8.data 0 {} 88 =
    (15, .ok, { name := ⟨3, 3⟩, val := ⟨12, 2⟩, all := ⟨3, 11⟩, state := .fin }) := by
  have hsep : tpSep 88 = 59 := by decide
  have hterm : tpTerm 88 = 63 := by decide
  refine param_token_value _ 88 0 2 3 6 10 12 14 15 .ok .fin (by decide) {} rfl ?_ ?_ ?_ (by decide) ?_ (by decide)
    ?_ ?_ (by decide) ?_
  · rw [hsep]
    exact Pad.item 0 0 2 (Lws.nil 0) (by decide) (Pad.item 1 1 2 (Lws.nil 1) (by decide) (Pad.nil 2))
  · exact Lws.ws 2 3 32 (by decide) (by decide) (Lws.nil 3)
  · intro k h1 h2
    have : k = 3 ∨ k = 4 ∨ k = 5 := by omega
    rcases this with rfl | rfl | rfl
    · exact ⟨84, by decide, by decide, by decide, by decide⟩
    · exact ⟨97, by decide, by decide, by decide, by decide⟩
    · exact ⟨103, by decide, by decide, by decide, by decide⟩
  · exact Lws.ws 6 10 32 (by decide) (by decide)
      (Lws.fold 7 9 10 32 (Eol.crlf 7 (by decide) (by decide)) (by decide) (by decide) (Lws.nil 10))
  · exact Lws.ws 11 12 32 (by decide) (by decide) (Lws.nil 12)
  · intro k h1 h2
    have : k = 12 ∨ k = 13 := by omega
    rcases this with rfl | rfl
    · exact ⟨120, by decide, by decide, by decide, by decide⟩
    · exact ⟨49, by decide, by decide, by decide, by decide⟩
  · refine Ending.term 14 15 (Lws.ws 14 15 32 (by decide) (by decide) (Lws.nil 15)) ?_ (by rw [hterm]; decide)
    rw [hterm]; decide

/-- test: a quoted value with an escaped quote inside -/
example : parseTokenParam "a=\"x\\\"y\";b".toUTF8.data 0 {} 0 =
    (9, .moreValues, { name := ⟨0, 1⟩, val := ⟨2, 6⟩, all := ⟨0, 8⟩, state := .initNxtVal }) := by
  decide +kernel

/-- non-vacuity of `param_quoted_value` and `quoted_string` (plain bytes, an escape pair, the closing quote) -/
example : parseTokenParam "a=\"x\\\"y\";b".toUTF8.data 0 {} 0 =
    (9, .moreValues, { name := ⟨0, 1⟩, val := ⟨2, 6⟩, all := ⟨0, 8⟩, state := .initNxtVal }) := by
  have hq : skipQuoted "a=\"x\\\"y\";b".toUTF8.data 3 = (8, .ok) := by
    apply quoted_string
    refine QBody.plain 3 8 120 (by decide) (by unfold QPlain; decide) ?_
    refine QBody.esc 4 8 34 (by decide) (by decide) (by decide) ?_
    refine QBody.plain 6 8 121 (by decide) (by unfold QPlain; decide) ?_
    exact QBody.close 7 (by decide)
  refine param_quoted_value _ 0 0 0 0 1 1 2 8 9 .moreValues .initNxtVal (by decide) {} rfl (Pad.nil 0) (Lws.nil 0)
    ?_ (by decide) (Lws.nil 1) (by decide) (Lws.nil 2) (by decide) hq ?_
  · intro k h1 h2
    have : k = 0 := by omega
    subst this
    exact ⟨97, by decide, by decide, by decide, by decide⟩
  · exact Ending.sep 8 8 9 .moreValues .initNxtVal (Lws.nil 8) (by decide)
      (AfterSep.more 9 9 9 98 (Pad.nil 9) (Lws.nil 9) (by decide) (by decide) (by decide) (by decide))

/-- test / non-vacuity of `reject_in_name`: `{` inside a name -/
example : parseTokenParam "ab{c".toUTF8.data 0 {} 0 =
    (2, .badChar, { name := ⟨0, 0⟩, all := ⟨0, 0⟩, state := .err }) := by
  refine reject_in_name _ 0 0 0 0 2 123 (by decide) {} rfl (Pad.nil 0) (Lws.nil 0) ?_ (by decide) (by decide)
    ⟨by decide, by decide, by decide, by decide⟩ (by decide)
  intro k h1 h2
  have : k = 0 ∨ k = 1 := by omega
  rcases this with rfl | rfl
  · exact ⟨97, by decide, by decide, by decide, by decide⟩
  · exact ⟨98, by decide, by decide, by decide, by decide⟩

/-- test: end of input with the end-of-input option after `name=` (no value recorded), trailing CR LF -/
example : parseTokenParam "a=\r\n".toUTF8.data 0 {} 8 = (4, .eoh, { name := ⟨0, 1⟩, all := ⟨0, 2⟩, state := .fin }) := by
  decide +kernel

/-- non-vacuity of `param_empty_value_end` with `EndTail.crlf` -/
example : parseTokenParam "a=\r\n".toUTF8.data 0 {} 8 = (4, .eoh, { name := ⟨0, 1⟩, all := ⟨0, 2⟩, state := .fin }) := by
  refine param_empty_value_end _ 8 0 0 0 1 1 2 (by decide) {} rfl (Pad.nil 0) (Lws.nil 0) ?_ (by decide) (Lws.nil 1)
    (by decide) (by decide) (Lws.nil 2) (EndTail.crlf 2 (by decide) (by decide) (by decide))
  intro k h1 h2
  have : k = 0 := by omega
  subst this
  exact ⟨97, by decide, by decide, by decide, by decide⟩

/-- a reset list is `Fresh` -/
example : ({ params := Array.replicate 100 {} } : URIParamsLst).Fresh := by
  refine ⟨fun i x _ hx => ?_, rfl⟩
  rw [Array.getElem?_replicate] at hx
  split at hx
  · cases hx; rfl
  · cases hx

/-- test / non-vacuity of `all_uri_params` (`ParamSeq` of three parameters, names in mixed case): three values,
    type flags transport | lr | ttl, each parameter in its slot -/
example : ∃ r, parseAllURIParams "transport=udp;LR;Ttl=5".toUTF8.data 0 { params := Array.replicate 4 {} } 72 =
      (22, 3, .eoh, r) ∧ r.n = 3 ∧ r.types = URIParamTransportF ||| URIParamLRF ||| URIParamTTLF ∧
      r.params[1]? = some { param := { name := ⟨14, 2⟩, all := ⟨14, 2⟩, state := .initNxtVal }, t := URIParamLRF } := by
  have H : ParamSeq "transport=udp;LR;Ttl=5".toUTF8.data (72 ||| POptParamSemiSepF) 0
      [{ param := { name := ⟨0, 9⟩, val := ⟨10, 3⟩, all := ⟨0, 13⟩, state := .initNxtVal },
         t := uriParamResolve "transport".toUTF8.data },
       { param := { name := ⟨14, 2⟩, all := ⟨14, 2⟩, state := .initNxtVal }, t := uriParamResolve "LR".toUTF8.data },
       { param := { name := ⟨17, 3⟩, val := ⟨21, 1⟩, all := ⟨17, 5⟩, state := .fin },
         t := uriParamResolve "Ttl".toUTF8.data }] 22 .eoh := by
    refine ParamSeq.cons 0 14 _ _ _ 22 .eoh (by decide +kernel) (by decide +kernel) (by decide) (by decide) ?_
    refine ParamSeq.cons 14 17 _ _ _ 22 .eoh (by decide +kernel) (by decide +kernel) (by decide) (by decide) ?_
    exact ParamSeq.last 17 22 .eoh _ _ (by decide +kernel) (Or.inr rfl) (by decide +kernel)
  obtain ⟨r, h1, h2, h3, _, _, h6, _⟩ := all_uri_params _ 72 0 22 .eoh _ H { params := Array.replicate 4 {} }
    (by
      refine ⟨fun i x _ hx => ?_, rfl⟩
      rw [Array.getElem?_replicate] at hx
      split at hx
      · cases hx; rfl
      · cases hx)
  refine ⟨r, h1, h2, ?_, ?_⟩
  · rw [h3]; decide +kernel
  · have := h6 1 _ rfl (by decide)
    rw [this]
    have : uriParamResolve "LR".toUTF8.data = URIParamLRF := by decide +kernel
    rw [this]

/-- non-vacuity of `uri_param_list`: `a=b;lr` at the end of the input is a `GList` of two parameters
    (flags 72 = URI-parameter mode + end-of-input option; the wrapper adds the ';' option: 88) -/
example : GList "a=b;lr".toUTF8.data (72 ||| POptParamSemiSepF) 0
    [{ name := ⟨0, 1⟩, val := ⟨2, 1⟩, all := ⟨0, 3⟩, state := .initNxtVal },
     { name := ⟨4, 2⟩, all := ⟨4, 2⟩, state := .fin }] 6 .eoh := by
  have hsep : tpSep (72 ||| POptParamSemiSepF) = 59 := by decide
  refine GList.cons 0 4 _ _ 6 .eoh ?_ (GList.last 4 6 .eoh _ ?_ (Or.inr rfl))
  · refine GParam.token 0 0 0 1 1 2 3 4 .moreValues .initNxtVal (Pad.nil 0) (Lws.nil 0) ?_ (by decide) (Lws.nil 1)
      (by decide) (Lws.nil 2) ?_ (by decide) ?_
    · intro k h1 h2
      have : k = 0 := by omega
      subst this
      exact ⟨97, by decide, by decide, by decide, by decide⟩
    · intro k h1 h2
      have : k = 2 := by omega
      subst this
      exact ⟨98, by decide, by decide, by decide, by decide⟩
    · exact Ending.sep 3 3 4 .moreValues .initNxtVal (Lws.nil 3) (by rw [hsep]; decide)
        (AfterSep.more 4 4 4 108 (Pad.nil 4) (Lws.nil 4) (by decide) (by decide) (by decide) (by decide))
  · refine GParam.noValue 4 4 4 6 6 .eoh .fin (Pad.nil 4) (Lws.nil 4) ?_ (by decide) ?_
    · intro k h1 h2
      have : k = 4 ∨ k = 5 := by omega
      rcases this with rfl | rfl
      · exact ⟨108, by decide, by decide, by decide, by decide⟩
      · exact ⟨114, by decide, by decide, by decide, by decide⟩
    · exact Ending.inputEnd 6 6 (by decide) (Lws.nil 6) (EndTail.none 6 (by decide))

/-- tests for the repaired behaviour: the terminator after a separator ends the list (it used to be taken as the
    first byte of a name with POptTokQmTermF, and to be rejected in URI-parameter / comma mode) -/
example : parseTokenParam "a;?b?".toUTF8.data 0 {} 2 =
    (2, .ok, { name := ⟨0, 1⟩, all := ⟨0, 1⟩, state := .fin }) := by decide +kernel
example : parseTokenParam "a; ;\r\n ,b".toUTF8.data 0 {} 1 =
    (7, .ok, { name := ⟨0, 1⟩, all := ⟨0, 1⟩, state := .fin }) := by decide +kernel
example : (parseAllURIParams "a;?x".toUTF8.data 0 { params := Array.replicate 4 {} } 72).1 = 2 ∧
    (parseAllURIParams "a;?x".toUTF8.data 0 { params := Array.replicate 4 {} } 72).2.1 = 1 ∧
    (parseAllURIParams "a;?x".toUTF8.data 0 { params := Array.replicate 4 {} } 72).2.2.1 = .ok := by decide +kernel
/-- unchanged: an empty list directly followed by the terminator is still rejected at its first byte -/
example : (parseAllURIParams "?x".toUTF8.data 0 { params := Array.replicate 4 {} } 72).2.2.1 = .badChar ∧
    (parseAllURIParams "?x".toUTF8.data 0 { params := Array.replicate 4 {} } 72).2.1 = 0 := by decide +kernel

/-- non-vacuity of `param_no_value_sep_terminator` and of `uri_param_list` with such an end: `a;?x` in
    URI-parameter mode is a `GList` of one parameter ended `OK` at the terminator (offset 2) — it is counted -/
example : ∃ r, parseAllURIParams "a;?x".toUTF8.data 0 { params := Array.replicate 4 {} } 72 = (2, 1, .ok, r) ∧
    r.n = 1 := by
  have hsep : tpSep (72 ||| POptParamSemiSepF) = 59 := by decide
  have hterm : tpTerm (72 ||| POptParamSemiSepF) = 63 := by decide
  have H : GList "a;?x".toUTF8.data (72 ||| POptParamSemiSepF) 0
      [{ name := ⟨0, 1⟩, all := ⟨0, 1⟩, state := .fin }] 2 .ok := by
    refine GList.last 0 2 .ok _ ?_ (Or.inl rfl)
    refine GParam.noValue 0 0 0 1 2 .ok .fin (Pad.nil 0) (Lws.nil 0) ?_ (by decide) ?_
    · intro k h1 h2
      have : k = 0 := by omega
      subst this
      exact ⟨97, by decide, by decide, by decide, by decide⟩
    · exact Ending.sep 1 1 2 .ok .fin (Lws.nil 1) (by rw [hsep]; decide)
        (AfterSep.term 2 2 2 (Pad.nil 2) (Lws.nil 2) (by rw [hterm]; decide) (by rw [hterm]; decide))
  obtain ⟨r, h1, h2, _⟩ := uri_param_list _ 72 0 2 .ok _ (by decide) H { params := Array.replicate 4 {} }
    (by
      refine ⟨fun i x _ hx => ?_, rfl⟩
      rw [Array.getElem?_replicate] at hx
      split at hx
      · cases hx; rfl
      · cases hx)
  exact ⟨r, h1, h2⟩

/-! ### the grammar-level decomposition under every chunk schedule (proved in `Sipsp.Proofs.ShiftParams`) -/

/-- [EXPORT C17] **C17 for every chunk schedule, ParseTokenParam**: whatever result ONE call on the complete buffer
    `B` (the last of the growing prefixes) gives — in particular the decompositions of C17 (`param_token_value`,
    `param_no_value`, `param_quoted_value`, …, the rejections) — is what the chain of resumed calls returns, however
    the input was cut into pieces -/
theorem tokparam_any_schedule : type_of% @Sipsp.tokparam_any_schedule := @Sipsp.tokparam_any_schedule

/-- [EXPORT C17] … for a parameter of the grammar (`GParam`: no value / token / quoted / empty value, any white space and empty
    items, any ending), from a new object -/
theorem gparam_any_schedule : type_of% @Sipsp.gparam_any_schedule := @Sipsp.gparam_any_schedule

/-- [EXPORT C17] **C17 for every chunk schedule, ParseAllURIParams**: the complete buffer `B` (last of the growing prefixes)
    holds a parameter list of the grammar; the chain of resumed calls on ANY schedule of prefixes returns the offset
    and verdict of the list end, the values counted over all calls add up to the number of parameters, parameter `i`
    is stored with the type of its name in slot `n + i`, the type flags are accumulated -/
theorem uri_param_list_any_schedule : type_of% @Sipsp.uri_param_list_any_schedule := @Sipsp.uri_param_list_any_schedule

/-- [EXPORT C17] **C17 for every chunk schedule, ParseAllURIHdrs** (separator '&') -/
theorem uri_hdr_list_any_schedule : type_of% @Sipsp.uri_hdr_list_any_schedule := @Sipsp.uri_hdr_list_any_schedule

/-! ### soundness for ALL inputs: accepted <=> a parameter / list of the (widened) grammar (proved in `Sipsp.Proofs.ParamSound`) -/

/-- **ParseTokenParam accepts exactly the parameters of `PSParam`, and reports them exactly as described**: for every
    buffer within the 65,535-byte limit, every offset and every option word (end-of-input option included), on a
    new object -/
theorem tokparam_ok_iff : type_of% @Sipsp.tokparam_ok_iff := @Sipsp.tokparam_ok_iff

/-- **SOUNDNESS of ParseTokenParam** (every buffer within the 65,535-byte limit, every offset, every option word —
    the end-of-input option included —, a new object): a result with verdict OK / MoreValues / EOH is one of the
    parameters described by `PSParam` -/
theorem tokparam_sound : type_of% @Sipsp.parseTokenParam_sound := @Sipsp.parseTokenParam_sound

/-- **COMPLETENESS for the same description**: ParseTokenParam reports every `PSParam` exactly as described -/
theorem tokparam_complete : type_of% @Sipsp.parseTokenParam_complete := @Sipsp.parseTokenParam_complete

/-- **charset**: an accepted parameter never contains a byte outside the documented set (`docAllowed`: letters,
    digits, `-_.!~*'()`, `%`, `[]/:+$`, plus `&` in URI-parameter mode and `?` otherwise) in its name or — outside
    quotes — in its value -/
theorem tokparam_charset : type_of% @Sipsp.tokparam_charset := @Sipsp.tokparam_charset

/-- **the fields of an accepted parameter**: nothing was parsed (`EOH`, the object is untouched: the empty list
    item at the end of the header / input), or the name is a non-empty run of allowed bytes inside the buffer at or
    after the start offset, `all` starts with the name and covers it, and the value is empty, an unquoted run of
    allowed bytes (none of them separator or terminator), or a complete quoted string -/
theorem tokparam_fields : type_of% @Sipsp.tokparam_fields := @Sipsp.tokparam_fields

/-- every parameter of the grammar of `ParamSpec` is one of `PSParam` -/
theorem grammar_is_accepted : type_of% @Sipsp.GParam.psParam := @Sipsp.GParam.psParam

/-- **an accepted parameter is a `GParam` or one of four documented shapes outside that grammar**:
    (a) nothing parsed: the empty item at the end of the header / input (`EOH`, untouched object);
    (b) a name whose FIRST byte is the terminator — possible only when the terminator is an allowed byte, i.e. `?`
        with `POptTokQmTermF` outside URI-parameter mode (at the start of a call the terminator is not special);
    (c) the white-space terminator `POptTokSpTermF` ended the parameter (`OK`);
    (d) `name =` followed by the terminator (empty value recorded there, `OK`) or by the end of the header / input
        (no value recorded, `EOH`). -/
theorem accepted_is_grammar_or_extra : type_of% @Sipsp.PSParam.ps_gparam_or_extra := @Sipsp.PSParam.ps_gparam_or_extra

/-- **ParseAllURIParams accepts exactly the lists of `PSList`** (on a list object in its reset state; separator ';'
    added by the wrapper): it returns `OK` / `EOH` iff the text is such a list, and then the offset and verdict are
    those of the list end, every item is counted and pushed, in order, with the type of its name -/
theorem uriparams_ok_iff : type_of% @Sipsp.parseAllURIParams_ok_iff := @Sipsp.parseAllURIParams_ok_iff

/-- **ParseAllURIHdrs accepts exactly the lists of `PSList`** (separator '&') -/
theorem urihdrs_ok_iff : type_of% @Sipsp.parseAllURIHdrs_ok_iff := @Sipsp.parseAllURIHdrs_ok_iff

/-- **the phantom parameter of the empty list**: in a list accepted by the wrappers every item has a non-empty
    name — except that an EMPTY list (only empty items / white space up to the end of the header or input) is
    reported as ONE item with an untouched object (empty name), verdict `EOH` -/
theorem list_items_named_or_empty_list : type_of% @Sipsp.PSList.ps_named_or_empty := @Sipsp.PSList.ps_named_or_empty

theorem more_values_advances : type_of% @Sipsp.PSParam.ps_more_range := @Sipsp.PSParam.ps_more_range

/-! ### which verdict a rejected / suspended text gets: reject sets, error position = the first byte that cannot continue, trichotomy, list wrappers, stability (proved in `Sipsp.Proofs.ParamVerdicts`) -/

/-- [EXPORT C17] **every outcome of `SkipQuoted`**: `OK` after the closing quote of a well-formed body; `BadChar` AT a byte that may
    not stand unescaped (CR, LF, DEL, control bytes) or at a CR / LF that follows a backslash; `MoreBytes` at the end
    of the buffer or at a backslash that is the last byte — always after plain bytes and complete escape pairs -/
theorem pv_skipQuoted : type_of% @Sipsp.pv_skipQuoted := @Sipsp.pv_skipQuoted

/-- [EXPORT C17] (1) **the complete list of verdicts of ParseTokenParam on a new object, every buffer, offset and option word**:
    `OK`, `EOH`, `MoreValues`, `MoreBytes`, `BadChar` and nothing else; `MoreBytes` comes with `PVMore` and `BadChar`
    with `PVBad` at the returned offset -/
theorem tokparam_verdicts_desc : type_of% @Sipsp.tokparam_verdicts_desc := @Sipsp.tokparam_verdicts_desc

/-- [EXPORT C17] (1) the verdict list alone -/
theorem tokparam_verdicts : type_of% @Sipsp.tokparam_verdicts := @Sipsp.tokparam_verdicts

/-- [EXPORT C17] (1) **a rejection points at a rejectable byte**: `BadChar` at `p` ⇒ the text `[o, p)` is the beginning of a
    parameter and the byte at `p` is one of those rejected in the state reached (`PVBad`) -/
theorem tokparam_badChar_sound : type_of% @Sipsp.tokparam_badChar_sound := @Sipsp.tokparam_badChar_sound

/-- [EXPORT C17] (2) `MoreBytes` at `r` ⇒ the text `[o, r)` is the beginning of a parameter and the rest of the buffer is unfinished
    white space or an open quoted string (`PVMore`) -/
theorem tokparam_moreBytes_sound : type_of% @Sipsp.tokparam_moreBytes_sound := @Sipsp.tokparam_moreBytes_sound

/-- [EXPORT C17] (1) **completeness of the description**: every text of the shape `PVBad … p` is rejected with `BadChar` at `p` -/
theorem tokparam_badChar_complete : type_of% @Sipsp.tokparam_badChar_complete := @Sipsp.tokparam_badChar_complete

/-- [EXPORT C17] (1) **`BadChar` at `p`, exactly**: for every buffer, offset and option word, ParseTokenParam on a new object returns
    `BadChar` with offset `p` IFF the text `[o, p)` is the beginning of a parameter (`PVAt` / an open quoted string) and
    the byte at `p` belongs to the explicit reject set of the state reached (`PVRej`, `PVQBad`, CR / LF after a
    backslash): the error offset always points at the first byte that cannot continue -/
theorem tokparam_badChar_iff : type_of% @Sipsp.tokparam_badChar_iff := @Sipsp.tokparam_badChar_iff

/-- [EXPORT C17] (2) **trichotomy**: for every buffer within the 65,535-byte limit, every offset and every option word, a call on a new
    object ends in exactly one of three ways (they are told apart by the verdict):
    * accepted — `OK` / `MoreValues` / `EOH`, and then the text is a parameter of the grammar `PSParam` of
      `ParamSound`, which fixes offset, verdict and the whole object;
    * suspended — `MoreBytes` at `r`, and then `[o, r)` is the beginning of a parameter and the rest of the buffer is
      white space cut by the end of the buffer or an open quoted string (`PVMore`);
    * rejected — `BadChar` at `p`, and then `[o, p)` is the beginning of a parameter and the byte at `p` belongs to the
      reject set of the state reached (`PVBad`; by `tokparam_badChar_iff` this is an equivalence). -/
theorem tokparam_trichotomy : type_of% @Sipsp.tokparam_trichotomy := @Sipsp.tokparam_trichotomy

/-- [EXPORT C17] (2) without the end-of-input option, `MoreBytes` means that **no byte so far is rejectable and nothing is complete**:
    every shorter buffer (every prefix of `b`) also gives `MoreBytes` -/
theorem tokparam_moreBytes_prefixes : type_of% @Sipsp.tokparam_moreBytes_prefixes := @Sipsp.tokparam_moreBytes_prefixes

/-- [EXPORT C17] (3) **the loop of ParseAllURIParams stops with a verdict other than OK / MoreValues / EOH exactly when one of the
    items does**: the items before it are parameters of the grammar reported with `MoreValues`; offset and verdict are
    those of that item; the items before it — and only they — are counted and pushed with the type of their names -/
theorem uriParamsLoop_stop_iff : type_of% @Sipsp.uriParamsLoop_stop_iff := @Sipsp.uriParamsLoop_stop_iff

/-- [EXPORT C17] (3) the same for the loop of ParseAllURIHdrs -/
theorem uriHdrsLoop_stop_iff : type_of% @Sipsp.uriHdrsLoop_stop_iff := @Sipsp.uriHdrsLoop_stop_iff

/-- [EXPORT C17] (3) **ParseAllURIParams returns `BadChar` iff one of the items is rejected**: the items before it are parameters of
    the grammar (separator ';' added by the wrapper), the error offset is that of the rejected item (`PVBad`: it points
    at the first byte that cannot continue), N counts exactly the items before it, and the list object is the one an
    accepted list of those items leaves (each pushed with the type of its name; N, Types, slots as in `uri_param_list`) -/
theorem parseAllURIParams_badChar_iff : type_of% @Sipsp.parseAllURIParams_badChar_iff := @Sipsp.parseAllURIParams_badChar_iff

/-- [EXPORT C17] (3) the same for ParseAllURIHdrs (separator '&') -/
theorem parseAllURIHdrs_badChar_iff : type_of% @Sipsp.parseAllURIHdrs_badChar_iff := @Sipsp.parseAllURIHdrs_badChar_iff

/-- [EXPORT C17] (3) **the complete list of verdicts of the wrappers** on a list object in its reset state: `OK`, `EOH`, `MoreBytes`,
    `BadChar`; and the verdict and the offset are those of the first item that is not reported with `MoreValues` -/
theorem uriParamsLoop_outcome : type_of% @Sipsp.uriParamsLoop_outcome := @Sipsp.uriParamsLoop_outcome

/-- [EXPORT C17] (3) the same for the loop of ParseAllURIHdrs -/
theorem uriHdrsLoop_outcome : type_of% @Sipsp.uriHdrsLoop_outcome := @Sipsp.uriHdrsLoop_outcome

/-- [EXPORT C17] (3) ParseAllURIParams on a list object in its reset state returns `OK`, `EOH`, `MoreBytes` or `BadChar`, nothing else -/
theorem parseAllURIParams_verdicts : type_of% @Sipsp.parseAllURIParams_verdicts := @Sipsp.parseAllURIParams_verdicts

/-- [EXPORT C17] (3) ParseAllURIHdrs on a list object in its reset state returns `OK`, `EOH`, `MoreBytes` or `BadChar`, nothing else -/
theorem parseAllURIHdrs_verdicts : type_of% @Sipsp.parseAllURIHdrs_verdicts := @Sipsp.parseAllURIHdrs_verdicts

/-- [EXPORT C17] (4) a rejected text stays rejected, at the same byte, whatever is appended (no end-of-input option: that option is a
    statement about where the input ends) — composition with C03 (`stable_tokparam`) -/
theorem tokparam_badChar_append : type_of% @Sipsp.tokparam_badChar_append := @Sipsp.tokparam_badChar_append

/-- [EXPORT C17] (4) **a rejection under every chunk schedule** — composition with C02 (`schedule_tokparam`): the complete buffer `B`
    (the last of the growing prefixes) holds a text rejected at `p`; the chain of resumed calls, however the input was
    cut, returns `BadChar` at `p` with the very object of the one-shot call -/
theorem tokparam_badChar_any_schedule : type_of% @Sipsp.tokparam_badChar_any_schedule := @Sipsp.tokparam_badChar_any_schedule

/-- [EXPORT C17] the same for every verdict of ParseAllURIParams: what ONE call on the complete buffer returns — offset, verdict,
    number of values, list object — is what the chain of resumed calls returns (the numbers of values of the calls
    added up), under every chunk schedule -/
theorem uriparams_any_schedule : type_of% @Sipsp.uriparams_any_schedule := @Sipsp.uriparams_any_schedule

/-- [EXPORT C17] the same for every verdict of ParseAllURIHdrs -/
theorem urihdrs_any_schedule : type_of% @Sipsp.urihdrs_any_schedule := @Sipsp.urihdrs_any_schedule

/-- [EXPORT C17] (4) **a rejected list under every chunk schedule and with appended bytes**: the complete buffer holds `tps` items of
    the grammar followed by an item rejected at `o'`; however the input is cut, the chain of resumed ParseAllURIParams
    calls returns `BadChar` at `o'`, the values counted over all calls add up to the number of items before the
    rejected one, and the list object holds exactly those items -/
theorem uriparams_badChar_any_schedule : type_of% @Sipsp.uriparams_badChar_any_schedule := @Sipsp.uriparams_badChar_any_schedule

/-- [EXPORT C17] (4) the same for ParseAllURIHdrs -/
theorem urihdrs_badChar_any_schedule : type_of% @Sipsp.urihdrs_badChar_any_schedule := @Sipsp.urihdrs_badChar_any_schedule

/-- [EXPORT C17] (4) a rejected list stays rejected whatever is appended (C03: `stable_uriparams`) -/
theorem uriparams_badChar_append : type_of% @Sipsp.uriparams_badChar_append := @Sipsp.uriparams_badChar_append

/-- [EXPORT C17] (4) the same for ParseAllURIHdrs (C03: `stable_urihdrs`) -/
theorem urihdrs_badChar_append : type_of% @Sipsp.urihdrs_badChar_append := @Sipsp.urihdrs_badChar_append

/-- [EXPORT C17] **a complete item followed by one of the endings of the grammar is a parameter of the grammar** (`PSParam`; the
    object reported is the one `PSParam` fixes) -/
theorem PVDone.psParam : type_of% @Sipsp.PVDone.psParam := @Sipsp.PVDone.psParam

/-- [EXPORT C17] (1) **the text before a rejected byte is a proper prefix of a parameter of the grammar**: if `BadChar` is reported at
    `p`, there is a buffer `B` with the same bytes below `p` that holds a parameter of the grammar `PSParam` at `o`
    (accepted with `EOH`); `B` is `b[0:p]` followed by at most five bytes (`a`, `"`, CR LF `x`) -/
theorem tokparam_badChar_prefix_extends : type_of% @Sipsp.tokparam_badChar_prefix_extends := @Sipsp.tokparam_badChar_prefix_extends

/-- [EXPORT C17] (1) **the rejected byte cannot continue ANY parameter**: if `BadChar` is reported at `p` on `b`, then EVERY buffer
    with the same bytes up to and including `p` — whatever follows — is rejected with `BadChar` at `p` (so none of them is
    accepted or suspended). With `tokparam_badChar_prefix_extends` (the bytes before `p` CAN be continued to a parameter):
    the error offset is that of the first byte that cannot continue a parameter of the grammar. -/
theorem tokparam_badChar_local : type_of% @Sipsp.tokparam_badChar_local := @Sipsp.tokparam_badChar_local

/-- [EXPORT C17] (2) **a suspended text is a proper prefix of a parameter of the grammar** (no end-of-input option, start offset inside
    the buffer): if the call returns `MoreBytes`, there are bytes `s` (at most six: a space, `a`, `"`, CR LF `x`) such that
    `b ++ s` holds a parameter of the grammar `PSParam` at `o`, accepted with `EOH` -/
theorem tokparam_moreBytes_extends : type_of% @Sipsp.tokparam_moreBytes_extends := @Sipsp.tokparam_moreBytes_extends

/-! ### MoreBytes characterised exactly (offset pinned); completion witnesses explicit (proved in `Sipsp.Proofs.AuditFixC`) -/

/-- **[C17] `MoreBytes` at `r`, exactly**: for every buffer, start offset and option word, ParseTokenParam on a new
    object returns `MoreBytes` with offset `r` IFF the pinned description `PVMoreAt b flags o r` holds -/
theorem moreBytes_iff : type_of% @Sipsp.afc_moreBytes_iff := @Sipsp.afc_moreBytes_iff

/-- **[C17] `MoreBytes` at `r` ⇒ the pinned description** (new object, every buffer, offset and option word): the text
    `[o, r)` is the beginning of a parameter; either the end-of-input option is off, `r` is the start of white space cut
    short by the end of the buffer (`r = o` or the byte before `r` is not SP / HT / CR / LF), or `r` is the end of the
    buffer / a trailing back-slash inside an open quoted string -/
theorem moreBytes_at : type_of% @Sipsp.afc_moreBytes_at := @Sipsp.afc_moreBytes_at

/-- **[C17] completeness of the pinned description**: every text of the shape `PVMoreAt … r` is suspended with
    `MoreBytes` at `r` -/
theorem moreBytes_complete : type_of% @Sipsp.afc_moreBytes_complete := @Sipsp.afc_moreBytes_complete

/-- the pinned description implies the one of ParamVerdicts -/
theorem moreBytes_at_implies_more : type_of% @Sipsp.PVMoreAt.pvMore := @Sipsp.PVMoreAt.pvMore

/-- **the text before a rejected byte is a proper prefix of a parameter of the grammar, witness explicit**: if `BadChar`
    is reported at `p`, then `p` is a position of the buffer and there are at most FIVE bytes `s` such that the buffer
    `b[0:p] ++ s` — which has the bytes of `b` below `p` — holds a parameter of the grammar `PSParam` at `o`, accepted
    with `EOH` -/
theorem badChar_prefix_extends_explicit : type_of% @Sipsp.afc_badChar_prefix_extends := @Sipsp.afc_badChar_prefix_extends

/-- … from the call: `BadChar` at `p` on a new object -/
theorem badChar_call_extends_explicit : type_of% @Sipsp.afc_badChar_call_extends := @Sipsp.afc_badChar_call_extends

/-- **a suspended text is a proper prefix of a parameter of the grammar, with the size of the witness**: if the call
    (no end-of-input option, start offset inside the buffer) returns `MoreBytes`, there are at most SIX bytes `s` such
    that `b ++ s` holds a parameter of the grammar `PSParam` at `o`, accepted with `EOH` -/
theorem moreBytes_extends_explicit : type_of% @Sipsp.afc_moreBytes_extends := @Sipsp.afc_moreBytes_extends

end Sipsp.C17
