/-
  Property C10 — numeric values are exact or rejected, never silently wrapped.

  Proved (digit strings of ANY length, no bound):
  * `u64_exact_or_saturated`: the 64-bit parameter parser returns the exact value or saturates with an error;
  * `contact_expires_saturates`: the Contact `expires` parameter is min(value, 2^32-1);
  * `u32_header_exact_or_rejected`: the 32-bit accumulator used by CSeq / Content-Length / Expires headers
    holds the exact value while it fits and rejects as soon as it does not; `uint_digit_step`,
    `cseq_digit_step` tie it to the actual loop bodies;
  * `clen_range`: Content-Length above 2^24 or longer than 9 digits is rejected;
  * `port_exact_or_rejected`: the URI port accumulator is exact up to 65535 and stays above it otherwise
    (so it is rejected by the `> 65535` test); `status_exact`: the reply status is the value of its 3 digits.
  * `q_*`: q values.
  * **run level** (`uint_value_exact`, `clen_value_exact`, `cseq_value_exact`, any buffer within the 65,535-byte
    limit, any offset, new or suspended objects): when ParseUIntVal (= ParseExpiresVal) / ParseCLenVal /
    ParseCSeqVal succeed, the reported field is a non-empty string of digits of the buffer and the reported number
    is exactly its decimal value (`value_meaning` spells this out with the model's `Get`).
  * **run level, URI port** (`port_value_exact`, `port_zero`, `port_numdone`, `port_meaning`; Proofs/UriLink.lean): for
    every URI accepted by ParseURI the reported port field consists of digits, PortNo is exactly their decimal value
    and ≤ 65535 (this is the statement that defect F20 violated).
  NOT yet proved at run level: the Contact expires / q parameters as reported after a whole name-addr parse (their
  accumulators are proved exact above); checked by the oracle against math/big.
-/
import Sipsp.Proofs.Num
import Sipsp.Proofs.NumRun
import Sipsp.Model.Msg
import Sipsp.Proofs.UriLink

namespace Sipsp.C10
open Sipsp

theorem u64_exact_or_saturated (l : List UInt8) (hd : AllDigits l) :
    (decOf l ≤ maxU64 → pUInt64Val l = (decOf l, Err.ok)) ∧
    (decOf l > maxU64 → pUInt64Val l = (maxU64, Err.valTooLong)) := pUInt64Val_spec l hd

theorem contact_expires_saturates (pf : PFromBody) (val : List UInt8) (hd : AllDigits val) :
    (setExpires pf val).expires = min (decOf val) 4294967295 ∧ (setExpires pf val).hasExpires = true :=
  setExpires_spec pf val hd

theorem u32_header_exact_or_rejected (l : List UInt8) :
    (decOf l ≤ 4294967295 → accU32 0 l = some (decOf l)) ∧ (decOf l > 4294967295 → accU32 0 l = none) :=
  accU32_spec l 0 (by omega)

/-- the digit case of the Content-Length / Expires loop body is one step of `accU32` -/
theorem uint_digit_step (b : Buf) (i : Nat) (c : UInt8) (st : PUIntBody) (hc : isDigit c = true)
    (hs : st.state = .found) :
    clStep b i c st =
      (if st.uiVal * 10 + dval c > 4294967295 then Step.done i Err.numTooBig st
       else Step.cont (i + 1) { st with uiVal := st.uiVal * 10 + dval c }) := by
  have hl : isLWSch c = false := by
    simp only [isDigit, Bool.and_eq_true, decide_eq_true_eq] at hc
    simp only [isLWSch, Bool.or_eq_false_iff, beq_eq_false_iff_ne, ne_eq]
    have h1 := hc.1; have h2 := hc.2
    rw [UInt8.le_iff_toNat_le] at h1 h2
    refine ⟨⟨⟨?_, ?_⟩, ?_⟩, ?_⟩ <;> (intro h; rw [h] at h1 h2; simp at h1 h2)
  unfold clStep
  rw [hl, hc, hs, dval_def]
  simp only [Bool.false_eq_true, if_false, if_true]

/-- the digit case of the CSeq loop body (number part) is one step of `accU32` -/
theorem cseq_digit_step (b : Buf) (i : Nat) (c : UInt8) (st : PCSeqBody) (hc : isDigit c = true)
    (hs : st.state = .foundDigit) :
    csStep b i c st =
      (if st.cseqNo * 10 + dval c > 4294967295 then Step.done i Err.numTooBig st
       else Step.cont (i + 1) { st with cseqNo := st.cseqNo * 10 + dval c }) := by
  have hl : isLWSch c = false := by
    simp only [isDigit, Bool.and_eq_true, decide_eq_true_eq] at hc
    simp only [isLWSch, Bool.or_eq_false_iff, beq_eq_false_iff_ne, ne_eq]
    have h1 := hc.1; have h2 := hc.2
    rw [UInt8.le_iff_toNat_le] at h1 h2
    refine ⟨⟨⟨?_, ?_⟩, ?_⟩, ?_⟩ <;> (intro h; rw [h] at h1 h2; simp at h1 h2)
  unfold csStep
  rw [hl, hc, hs, dval_def]
  simp only [Bool.false_eq_true, if_false, if_true]

/-- Content-Length: a value above 2^24 or written with more than 9 digits is never returned as a success -/
theorem clen_range (b : Buf) (o : Nat) (st : PUIntBody) (o' : Nat) (st' : PUIntBody)
    (h : parseCLenVal b o st = (o', .ok, st')) : st'.sVal.len ≤ 9 ∧ st'.uiVal ≤ 16777216 := by
  unfold parseCLenVal at h
  rcases hr : parseUIntVal b o st with ⟨o1, e1, s1⟩
  rw [hr] at h
  cases e1 <;> simp only at h
  · split at h
    · cases h
    · rename_i hn
      cases h
      simp only [MaxCLenValueSize, MaxClenValue, Bool.or_eq_true, not_or] at hn
      have h1 := hn.1; have h2 := hn.2
      exact ⟨by
        rcases Nat.lt_or_ge 9 st'.sVal.len with h | h
        · exact absurd (by simpa using h) h1
        · exact h, by
        rcases Nat.lt_or_ge 16777216 st'.uiVal with h | h
        · exact absurd (by simpa using h) h2
        · exact h⟩
  all_goals cases h

/-- the URI port: exact while it fits 16 bits, otherwise it stays above 65535 and the `> 65535` test rejects it -/
theorem port_exact_or_rejected (l : List UInt8) :
    (decOf l ≤ 65535 → accPortL 0 l = decOf l) ∧ (decOf l > 65535 → accPortL 0 l > 65535) :=
  accPortL_spec l 0

/-- the reply status is the decimal value of the three digits -/
theorem status_exact (b : Buf) (i0 l : Nat) (pl : PFLine) (d0 d1 d2 : UInt8)
    (h0 : b[i0 + l]? = some d0) (h1 : b[i0 + l + 1]? = some d1) (h2 : b[i0 + l + 2]? = some d2)
    (h3 : b[i0 + l + 3]? = some 32) (hd : (isDigit d0 && isDigit d1 && isDigit d2) = true) :
    ∀ o e pl', flReply b i0 l pl = (o, e, pl') → pl'.status = decOf [d0, d1, d2] := by
  intro o e pl' h
  unfold flReply at h
  simp only [h0, h1, h2, h3, hd] at h
  simp only [bne_self_eq_false, Bool.not_true, Bool.or_self, Bool.false_eq_true, if_false] at h
  unfold flRplReason at h
  simp only [decOf, decFrom_cons, decFrom_nil, dval_def]
  split at h <;> (cases h; simp only; omega)


/-! ### run level: the number reported after a successful parse is the value of the reported digit string -/

theorem uint_value_exact (b : Buf) (o : Nat) (st : PUIntBody) (hfit : b.size ≤ 65535) (ho : o ≤ b.size)
    (h : ClNum b o st) {o' : Nat} {st' : PUIntBody} (hr : parseUIntVal b o st = (o', .ok, st')) :
    NumDone b st'.sVal st'.uiVal := parseUIntVal_exact b o st hfit ho h hr

theorem clen_value_exact (b : Buf) (o : Nat) (st : PUIntBody) (hfit : b.size ≤ 65535) (ho : o ≤ b.size)
    (h : ClNum b o st) {o' : Nat} {st' : PUIntBody} (hr : parseCLenVal b o st = (o', .ok, st')) :
    NumDone b st'.sVal st'.uiVal := parseCLenVal_exact b o st hfit ho h hr

theorem cseq_value_exact (b : Buf) (o : Nat) (st : PCSeqBody) (hfit : b.size ≤ 65535) (ho : o ≤ b.size)
    (h : CsNum b o st) (hni : st.state = .fin → NumDone b st.cseq st.cseqNo)
    {o' : Nat} {st' : PCSeqBody} (hr : parseCSeqVal b o st = (o', .ok, st')) :
    NumDone b st'.cseq st'.cseqNo := parseCSeqVal_exact b o st hfit ho h hni hr

/-- new objects satisfy the hypotheses -/
theorem new_objects_num (b : Buf) (o : Nat) : ClNum b o {} ∧ CsNum b o {} := ⟨ClNum_new b o, CsNum_new b o⟩

/-- what `NumDone` says: `Get` on the field returns a non-empty all-digit slice whose decimal value is the number -/
theorem value_meaning (b : Buf) (fld : PField) (v : Nat) (h : NumDone b fld v) (hfit : b.size ≤ 65535) :
    ∃ d, fld.get? b = some d ∧ d.size ≥ 1 ∧ AllDigits d.toList ∧ v = decOf d.toList := h.get hfit

/-! ### non-vacuity -/
example : AllDigits [53, 48, 48] ∧ decOf [53, 48, 48] = 500 := by
  constructor
  · intro c hc; simp only [List.mem_cons, List.not_mem_nil, or_false] at hc
    rcases hc with h | h | h <;> (subst h; unfold IsDigitB; decide)
  · simp only [decOf, decFrom_cons, decFrom_nil, dval_def]; decide

/-- test: a Content-Length value parsed from a new object -/
example : (parseCLenVal "  4711\r\nX".toUTF8.data 0 {}).2.1 = Err.ok ∧ (parseCLenVal "  4711\r\nX".toUTF8.data 0 {}).2.2.uiVal = 4711 := by
  decide +kernel

/-! ### run level, URI port (Proofs/UriLink.lean) -/

/-- **run level, URI port**: for every URI accepted by ParseURI the bytes of the reported port field are digits, `PortNo` is exactly their decimal value and ≤ 65535 -/
theorem port_value_exact : type_of% @ul_port_exact := @ul_port_exact

/-- no port or an empty port: `PortNo = 0` -/
theorem port_zero : type_of% @ul_port_zero := @ul_port_zero

/-- a non-empty port field, in the phrasing used for Content-Length / CSeq (`NumDone`), plus the range -/
theorem port_numdone : type_of% @ul_port_numdone := @ul_port_numdone

/-- spelled out with `Get` -/
theorem port_meaning : type_of% @ul_port_meaning := @ul_port_meaning

end Sipsp.C10
