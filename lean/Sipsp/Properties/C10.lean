/-
  Property C10 — numeric values are exact or rejected, never silently wrapped.

  Proved (digit strings of ANY length, no bound):
  * `u64_exact_or_saturated`: the 64-bit parameter parser returns the exact value or saturates with an error;
  * `contact_expires_saturates`: the Contact `expires` parameter is min(value, 2^32-1);
  * `u32_header_exact_or_rejected`: the 32-bit accumulator used by CSeq / Content-Length / Expires headers
    holds the exact value while it fits and rejects as soon as it does not; `uint_digit_step`,
    `cseq_digit_step` tie it to the actual loop bodies;
  * `clen_range`: Content-Length above 2^24 or longer than 9 digits is rejected;
  * `port_exact_or_rejected`: the URI port accumulator is exact up to 65535 and stays above it otherwise
    (so it is rejected by the `> 65535` test); `status_exact`: the reply status is the value of its 3 digits.
  * `q_*`: q values.
  * **run level** (`uint_value_exact`, `clen_value_exact`, `cseq_value_exact`, any buffer within the 65,535-byte
    limit, any offset, new or suspended objects): when ParseUIntVal (= ParseExpiresVal) / ParseCLenVal /
    ParseCSeqVal succeed, the reported field is a non-empty string of digits of the buffer and the reported number
    is exactly its decimal value (`value_meaning` spells this out with the model's `Get`).
  * **run level, URI port** (`port_value_exact`, `port_zero`, `port_numdone`, `port_meaning`; Proofs/UriLink.lean): for
    every URI accepted by ParseURI the reported port field consists of digits, PortNo is exactly their decimal value
    and ≤ 65535 (this is the statement that defect F20 violated).
  * **run level, Contact expires / q** (`Sipsp.Proofs.NaNumRun`; ParseNameAddrPVal with its 33 states, any header kind,
    any verdict, new and resumed objects): `nameaddr_numbers` — the numeric fields of the returned object (HasExpires,
    Expires, Q, ParamErr, ErrOffs) are the left fold, over a list of parameter spans lying in the parsed text (name
    non-empty, value after the name, for Contact only white space and one '=' in between), of the pure per-parameter
    effect; `contact_expires_run` / `nameaddr_expires`: either no expires is reported, or there is an `expires`
    parameter (any letter case) in the text and Expires = min(decimal value of its digit string, 2^32-1) for digit
    strings of ANY length (`expires_any_text`: for an arbitrary value text it is the value of the leading digits — the
    code ignores the conversion error there: `expires=12abc` gives 12, `expires=abc` gives 0; not a digit string, so
    outside this property's domain, recorded as an observation); `contact_q_run`, `contact_q_flag_run`,
    `nameaddr_q(_le)`, `q_any_text_cases`: Q ≤ 1000 always; Q is the thousandths value of the last accepted `q`
    parameter of the text, every `q` text of another shape (more than three decimals, above 1, non-digits, 2^64
    overflow) leaves Q untouched and sets the parameter-error indication; never a wrapped or truncated number.
  * **the range half at run level** (`Sipsp.Proofs.AuditFixB`; the review noted that the `*_value_exact` theorems give
    "number = value of the digits" but, the model's numbers being unbounded naturals, not the range): `uint_in_range`,
    `cseq_in_range`, `*_exact_in_range`: after OK, Expires ≤ 2^32-1; CSeq ≤ 2^32-1 with at most 10 digits;
    Content-Length ≤ 2^24 with at most 9 digits — for new and legitimately suspended objects (`*_suspended_legit`) and
    after EVERY chunk schedule (`*_schedule_exact`); `uint_big_rejected`, `clen_big_rejected`, `cseq_big_rejected`
    (`…_resumed`): a digit string whose value exceeds 2^32-1 is rejected with number-too-big at one of its digits,
    whatever follows, also when the call is resumed inside the number; `uint_canonical`, `clen_canonical`: on
    "[blanks] digits CR LF non-continuation" the verdict is OK with exactly the value iff in range, number-too-big
    otherwise. The reply status at run level is C08 `status_value`.
  NOT proved: completeness at run level (that EVERY expires / q parameter of the text is among the recorded spans) is
  the grammar-level C09 theorem.
-/
import Sipsp.Proofs.Num
import Sipsp.Proofs.NumRun
import Sipsp.Model.Msg
import Sipsp.Proofs.UriLink
import Sipsp.Proofs.NaNumRun
import Sipsp.Proofs.AuditFixB

namespace Sipsp.C10
open Sipsp

theorem u64_exact_or_saturated (l : List UInt8) (hd : AllDigits l) :
    (decOf l ≤ maxU64 → pUInt64Val l = (decOf l, Err.ok)) ∧
    (decOf l > maxU64 → pUInt64Val l = (maxU64, Err.valTooLong)) := pUInt64Val_spec l hd

theorem contact_expires_saturates (pf : PFromBody) (val : List UInt8) (hd : AllDigits val) :
    (setExpires pf val).expires = min (decOf val) 4294967295 ∧ (setExpires pf val).hasExpires = true :=
  setExpires_spec pf val hd

theorem u32_header_exact_or_rejected (l : List UInt8) :
    (decOf l ≤ 4294967295 → accU32 0 l = some (decOf l)) ∧ (decOf l > 4294967295 → accU32 0 l = none) :=
  accU32_spec l 0 (by omega)

/-- the digit case of the Content-Length / Expires loop body is one step of `accU32` -/
theorem uint_digit_step (b : Buf) (i : Nat) (c : UInt8) (st : PUIntBody) (hc : isDigit c = true)
    (hs : st.state = .found) :
    clStep b i c st =
      (if st.uiVal * 10 + dval c > 4294967295 then Step.done i Err.numTooBig st
       else Step.cont (i + 1) { st with uiVal := st.uiVal * 10 + dval c }) := by
  have hl : isLWSch c = false := by
    simp only [isDigit, Bool.and_eq_true, decide_eq_true_eq] at hc
    simp only [isLWSch, Bool.or_eq_false_iff, beq_eq_false_iff_ne, ne_eq]
    have h1 := hc.1; have h2 := hc.2
    rw [UInt8.le_iff_toNat_le] at h1 h2
    refine ⟨⟨⟨?_, ?_⟩, ?_⟩, ?_⟩ <;> (intro h; rw [h] at h1 h2; simp at h1 h2)
  unfold clStep
  rw [hl, hc, hs, dval_def]
  simp only [Bool.false_eq_true, if_false, if_true]

/-- the digit case of the CSeq loop body (number part) is one step of `accU32` -/
theorem cseq_digit_step (b : Buf) (i : Nat) (c : UInt8) (st : PCSeqBody) (hc : isDigit c = true)
    (hs : st.state = .foundDigit) :
    csStep b i c st =
      (if st.cseqNo * 10 + dval c > 4294967295 then Step.done i Err.numTooBig st
       else Step.cont (i + 1) { st with cseqNo := st.cseqNo * 10 + dval c }) := by
  have hl : isLWSch c = false := by
    simp only [isDigit, Bool.and_eq_true, decide_eq_true_eq] at hc
    simp only [isLWSch, Bool.or_eq_false_iff, beq_eq_false_iff_ne, ne_eq]
    have h1 := hc.1; have h2 := hc.2
    rw [UInt8.le_iff_toNat_le] at h1 h2
    refine ⟨⟨⟨?_, ?_⟩, ?_⟩, ?_⟩ <;> (intro h; rw [h] at h1 h2; simp at h1 h2)
  unfold csStep
  rw [hl, hc, hs, dval_def]
  simp only [Bool.false_eq_true, if_false, if_true]

/-- Content-Length: a value above 2^24 or written with more than 9 digits is never returned as a success -/
theorem clen_range (b : Buf) (o : Nat) (st : PUIntBody) (o' : Nat) (st' : PUIntBody)
    (h : parseCLenVal b o st = (o', .ok, st')) : st'.sVal.len ≤ 9 ∧ st'.uiVal ≤ 16777216 := by
  unfold parseCLenVal at h
  rcases hr : parseUIntVal b o st with ⟨o1, e1, s1⟩
  rw [hr] at h
  cases e1 <;> simp only at h
  · split at h
    · cases h
    · rename_i hn
      cases h
      simp only [MaxCLenValueSize, MaxClenValue, Bool.or_eq_true, not_or] at hn
      have h1 := hn.1; have h2 := hn.2
      exact ⟨by
        rcases Nat.lt_or_ge 9 st'.sVal.len with h | h
        · exact absurd (by simpa using h) h1
        · exact h, by
        rcases Nat.lt_or_ge 16777216 st'.uiVal with h | h
        · exact absurd (by simpa using h) h2
        · exact h⟩
  all_goals cases h

/-- the URI port: exact while it fits 16 bits, otherwise it stays above 65535 and the `> 65535` test rejects it -/
theorem port_exact_or_rejected (l : List UInt8) :
    (decOf l ≤ 65535 → accPortL 0 l = decOf l) ∧ (decOf l > 65535 → accPortL 0 l > 65535) :=
  accPortL_spec l 0

/-- the reply status is the decimal value of the three digits -/
theorem status_exact (b : Buf) (i0 l : Nat) (pl : PFLine) (d0 d1 d2 : UInt8)
    (h0 : b[i0 + l]? = some d0) (h1 : b[i0 + l + 1]? = some d1) (h2 : b[i0 + l + 2]? = some d2)
    (h3 : b[i0 + l + 3]? = some 32) (hd : (isDigit d0 && isDigit d1 && isDigit d2) = true) :
    ∀ o e pl', flReply b i0 l pl = (o, e, pl') → pl'.status = decOf [d0, d1, d2] := by
  intro o e pl' h
  unfold flReply at h
  simp only [h0, h1, h2, h3, hd] at h
  simp only [bne_self_eq_false, Bool.not_true, Bool.or_self, Bool.false_eq_true, if_false] at h
  unfold flRplReason at h
  simp only [decOf, decFrom_cons, decFrom_nil, dval_def]
  split at h <;> (cases h; simp only; omega)


/-! ### run level: the number reported after a successful parse is the value of the reported digit string -/

theorem uint_value_exact (b : Buf) (o : Nat) (st : PUIntBody) (hfit : b.size ≤ 65535) (ho : o ≤ b.size)
    (h : ClNum b o st) {o' : Nat} {st' : PUIntBody} (hr : parseUIntVal b o st = (o', .ok, st')) :
    NumDone b st'.sVal st'.uiVal := parseUIntVal_exact b o st hfit ho h hr

theorem clen_value_exact (b : Buf) (o : Nat) (st : PUIntBody) (hfit : b.size ≤ 65535) (ho : o ≤ b.size)
    (h : ClNum b o st) {o' : Nat} {st' : PUIntBody} (hr : parseCLenVal b o st = (o', .ok, st')) :
    NumDone b st'.sVal st'.uiVal := parseCLenVal_exact b o st hfit ho h hr

theorem cseq_value_exact (b : Buf) (o : Nat) (st : PCSeqBody) (hfit : b.size ≤ 65535) (ho : o ≤ b.size)
    (h : CsNum b o st) (hni : st.state = .fin → NumDone b st.cseq st.cseqNo)
    {o' : Nat} {st' : PCSeqBody} (hr : parseCSeqVal b o st = (o', .ok, st')) :
    NumDone b st'.cseq st'.cseqNo := parseCSeqVal_exact b o st hfit ho h hni hr

/-- new objects satisfy the hypotheses -/
theorem new_objects_num (b : Buf) (o : Nat) : ClNum b o {} ∧ CsNum b o {} := ⟨ClNum_new b o, CsNum_new b o⟩

/-- what `NumDone` says: `Get` on the field returns a non-empty all-digit slice whose decimal value is the number -/
theorem value_meaning (b : Buf) (fld : PField) (v : Nat) (h : NumDone b fld v) (hfit : b.size ≤ 65535) :
    ∃ d, fld.get? b = some d ∧ d.size ≥ 1 ∧ AllDigits d.toList ∧ v = decOf d.toList := h.get hfit

/-! ### non-vacuity -/
example : AllDigits [53, 48, 48] ∧ decOf [53, 48, 48] = 500 := by
  constructor
  · intro c hc; simp only [List.mem_cons, List.not_mem_nil, or_false] at hc
    rcases hc with h | h | h <;> (subst h; unfold IsDigitB; decide)
  · simp only [decOf, decFrom_cons, decFrom_nil, dval_def]; decide

/-- test: a Content-Length value parsed from a new object -/
example : (parseCLenVal "  4711\r\nX".toUTF8.data 0 {}).2.1 = Err.ok ∧ (parseCLenVal "  4711\r\nX".toUTF8.data 0 {}).2.2.uiVal = 4711 := by
  decide +kernel

/-! ### run level, URI port (Proofs/UriLink.lean) -/

/-- **run level, URI port**: for every URI accepted by ParseURI the bytes of the reported port field are digits, `PortNo` is exactly their decimal value and ≤ 65535 -/
theorem port_value_exact : type_of% @ul_port_exact := @ul_port_exact

/-- no port or an empty port: `PortNo = 0` -/
theorem port_zero : type_of% @ul_port_zero := @ul_port_zero

/-- a non-empty port field, in the phrasing used for Content-Length / CSeq (`NumDone`), plus the range -/
theorem port_numdone : type_of% @ul_port_numdone := @ul_port_numdone

/-- spelled out with `Get` -/
theorem port_meaning : type_of% @ul_port_meaning := @ul_port_meaning

/-! ### run level: Contact expires / q after a whole ParseNameAddrPVal / ParseOneContact (proved in `Sipsp.Proofs.NaNumRun`) -/

/-- **`expires` with ANY value text**: the has-expires flag is set and the number is the decimal value of the leading
    digits of the text (all of it when it is a digit string; the empty string counts 0), saturated at 2^32-1.  No
    length bound; never a wrapped value. -/
theorem expires_any_text : type_of% @Sipsp.nr_setExpires_any := @Sipsp.nr_setExpires_any

/-- **`setQ` on ANY text**: either the text is an accepted `q` value and `q` becomes exactly its value in thousandths,
    or `q` is left alone and the parameter error is set (to something other than "no error") -/
theorem q_any_text_cases : type_of% @Sipsp.nr_setQ_cases := @Sipsp.nr_setQ_cases

/-- **ParseNameAddrPVal, any header kind, any buffer, any verdict**: if the object passed in satisfies the invariant
    (a new object does, `nr_entry_new`; so does an object returned with MoreBytes), the numeric fields of the returned
    object are the fold of `nrEffect` over a list of parameter spans lying in `[o, o')`; after MoreBytes the object
    satisfies the invariant again. -/
theorem nameaddr_numbers : type_of% @Sipsp.nr_parse := @Sipsp.nr_parse

/-- **resumed call**: a call that asked for more bytes, followed by a call on the extended buffer from the returned
    offset with the returned object (and so on: the hypothesis of the second call is the conclusion of the first) -/
theorem nameaddr_numbers_resume : type_of% @Sipsp.nr_parse_resume := @Sipsp.nr_parse_resume

/-- **C10 (a), run level, one call on a new object**: whatever the verdict, `HasExpires` is reported only when the
    consumed text `[offs, o')` contains an `expires` parameter — name `[ps, pe)` matched case-insensitively, non-empty
    value text `[vs, ve)` after it — and then `Expires` is the decimal value of the leading digits of that text (all of
    it when the text is a digit string, of ANY length), saturated at 2^32-1; never a wrapped value. -/
theorem nameaddr_expires : type_of% @Sipsp.nr_new_expires := @Sipsp.nr_new_expires

/-- **C10 (b), run level, one call on a new object**: `Q` is 0 (never set) or EXACTLY the value in thousandths of the
    text of a `q` parameter of the consumed input, the text being of an accepted shape (`NrQOk`) -/
theorem nameaddr_q : type_of% @Sipsp.nr_new_q := @Sipsp.nr_new_q

theorem nameaddr_q_le : type_of% @Sipsp.nr_new_q_le := @Sipsp.nr_new_q_le

/-- **C10 (a) for one Contact value** (one call of `parseOneContact` = ParseNameAddrPVal(HdrContact, …) on a new
    object, any buffer, any offset inside it, any verdict — in particular OK and MoreValues): if `HasExpires` is
    reported there are offsets `offs ≤ ps < pe ≤ eq < vs < ve ≤ o' ≤ len(buf)` such that `buf[ps:pe]` is `expires` in
    any letter case, `buf[pe:eq]` and `buf[eq+1:vs]` are white space, `buf[eq]` is `=`, and `Expires` is the decimal
    value of the leading digits of `buf[vs:ve]` saturated at 2^32-1 — of all of `buf[vs:ve]` when it consists of
    digits, whatever their number; otherwise `Expires` is 0. -/
theorem contact_expires_run : type_of% @Sipsp.nr_contact_expires := @Sipsp.nr_contact_expires

/-- **C10 (b) for one Contact value**: `Q` is 0 (never set) or exactly the value in thousandths of the text of a `q`
    parameter (located as in `nr_contact_expires`) whose text has an accepted shape; in particular `Q ≤ 1000`. -/
theorem contact_q_run : type_of% @Sipsp.nr_contact_q := @Sipsp.nr_contact_q

/-- **C10 (b), the flag, for one Contact value**: there is a list `L` of parameter spans of the consumed text
    (`NrSpanOk`), the numeric fields being the fold of `nrEffect` over it, such that `Q` is the value of the last `q`
    parameter of `L` with an accepted text (0 if none), `ParamErr` is set when some `q` parameter of `L` has a rejected
    text, and is not set otherwise. -/
theorem contact_q_flag_run : type_of% @Sipsp.nr_contact_q_flag := @Sipsp.nr_contact_q_flag

/-! ### the 32-bit range at run level; rejection of larger numbers; suspended objects (proved in `Sipsp.Proofs.AuditFixB`) -/

/-- … in the form asked for: OK ⇒ `uiVal ≤ 2^32-1` -/
theorem uint_in_range : type_of% @Sipsp.afb_uint_ok_le := @Sipsp.afb_uint_ok_le

/-- … in the form asked for: OK ⇒ `cseqNo ≤ 2^32-1` and `cseq.len ≤ 10` -/
theorem cseq_in_range : type_of% @Sipsp.afb_cseq_ok_le := @Sipsp.afb_cseq_ok_le

/-- **C10 for ParseUIntVal (= ParseExpiresVal) at run level**: after OK the reported field is a non-empty digit string
    of the buffer, the reported number is exactly its decimal value, and it does not exceed 2^32-1 -/
theorem uint_exact_in_range : type_of% @Sipsp.afb_uint_exact_in_range := @Sipsp.afb_uint_exact_in_range

/-- **C10 for ParseCLenVal at run level**: exact, at most 9 digits, at most 2^24 -/
theorem clen_exact_in_range : type_of% @Sipsp.afb_clen_exact_in_range := @Sipsp.afb_clen_exact_in_range

/-- **C10 for ParseCSeqVal at run level**: after OK the reported number field is a non-empty digit string of the
    buffer of at most 10 digits, the reported number is exactly its decimal value, and it does not exceed 2^32-1 -/
theorem cseq_exact_in_range : type_of% @Sipsp.afb_cseq_exact_in_range := @Sipsp.afb_cseq_exact_in_range

/-- **ParseUIntVal under every chunk schedule from a new object**: if the chain of resumed calls ends with OK, the
    reported field is a digit string of the buffer of the call that finished, the number is its exact value, ≤ 2^32-1 -/
theorem uint_schedule_exact : type_of% @Sipsp.afb_uint_schedule := @Sipsp.afb_uint_schedule

theorem clen_schedule_exact : type_of% @Sipsp.afb_clen_schedule := @Sipsp.afb_clen_schedule

theorem cseq_schedule_exact : type_of% @Sipsp.afb_cseq_schedule := @Sipsp.afb_cseq_schedule

/-- **ParseUIntVal, new object, optional leading spaces / tabs, then a digit string of value above 2^32-1**: rejected
    with NumTooBig at one of the digits, whatever follows them -/
theorem uint_big_rejected : type_of% @Sipsp.afb_uint_big_rejected_ws := @Sipsp.afb_uint_big_rejected_ws

/-- ParseCLenVal passes the verdict on -/
theorem clen_big_rejected : type_of% @Sipsp.afb_clen_big_rejected_ws := @Sipsp.afb_clen_big_rejected_ws

/-- **ParseCSeqVal, new object, optional leading spaces / tabs, then a digit string of value above 2^32-1**: rejected
    with NumTooBig at one of the digits, whatever follows them (method or not) -/
theorem cseq_big_rejected : type_of% @Sipsp.afb_cseq_big_rejected_ws := @Sipsp.afb_cseq_big_rejected_ws

/-- **ParseUIntVal resumed (or called) inside a number**: the object is in the middle of a digit string that began at
    `st.soffs` (`ClNum`), the bytes `[i, e)` are further digits, and the value of the whole string `[st.soffs, e)`
    exceeds 2^32-1: the call is rejected with NumTooBig at one of these digits, whatever follows. -/
theorem uint_big_rejected_resumed : type_of% @Sipsp.afb_uint_big_resumed := @Sipsp.afb_uint_big_resumed

/-- **ParseCSeqVal resumed (or called) inside the number**: see `afb_uint_big_resumed` -/
theorem cseq_big_rejected_resumed : type_of% @Sipsp.afb_cseq_big_resumed := @Sipsp.afb_cseq_big_resumed

/-- **ParseUIntVal on the canonical input, complete**: a new object; optional spaces / tabs `[o, i)`; a non-empty digit
    string `[i, e)`; CR LF and a byte that does not continue the line.  If the value fits 32 bits the call returns OK
    just after the CR LF with exactly that value and the field `[i, e)`; otherwise NumTooBig at one of the digits. -/
theorem uint_canonical : type_of% @Sipsp.afb_uint_canonical := @Sipsp.afb_uint_canonical

/-- **ParseCLenVal on the canonical input, complete** (buffer within the 65,535-byte limit): OK with the exact value
    and field iff the value is at most 2^24 and written with at most 9 digits; NumTooBig otherwise -/
theorem clen_canonical : type_of% @Sipsp.afb_clen_canonical := @Sipsp.afb_clen_canonical

/-- **ParseUIntVal suspended**: after MoreBytes the returned object satisfies `ClNum` at the returned offset — on the
    buffer that was parsed and on every extension of it — the offset lies inside the buffer and the object is not
    finished: the hypotheses of `uint_value_exact` / `clen_value_exact` for the resumed call. -/
theorem uint_suspended_legit : type_of% @Sipsp.afb_uint_more_inv := @Sipsp.afb_uint_more_inv

theorem clen_suspended_legit : type_of% @Sipsp.afb_clen_more_inv := @Sipsp.afb_clen_more_inv

/-- **ParseCSeqVal suspended**: after MoreBytes the returned object satisfies `CsNum` at the returned offset (on the
    parsed buffer and on every extension), the offset lies inside the buffer and the object is not finished: the
    hypotheses of `cseq_value_exact` for the resumed call. -/
theorem cseq_suspended_legit : type_of% @Sipsp.afb_cseq_more_inv := @Sipsp.afb_cseq_more_inv

end Sipsp.C10
